(* C05: the tag of a name-addr value lies inside its parameter span - for every input and every chunk schedule.
   A second invariant TNI beside fb_inv and NNI: the tag, once set, starts at or after the parameter span's start and ends
   before the trailing white space; a value in progress starts inside the span; a value that ended at white space ended
   before that white space (so the close before a ',' does not cut it). *)
From Sipsp Require Import Harness RunLemmas Safe SafeLeaf SafeMore TrimSpec NameAddrNest.
From Coq Require Import ZifyN ZifyNat ZifyBool.
From RecordUpdate Require Import RecordUpdate.

Definition is_val_st (st : fbst) : bool :=
  match st with
  | FbNewParamVal | FbParamVal | FbParamValEnd | FbQuotedVal | FbNewPossibleVal | FbPossibleVal | FbPossibleValEnd | FbQuotedPossibleVal => true
  | _ => false
  end.
Definition is_valend (st : fbst) : bool := match st with FbParamValEnd | FbPossibleValEnd => true | _ => false end.
Definition is_valtok (st : fbst) : bool := match st with FbParamVal | FbPossibleVal => true | _ => false end.
Definition is_pre_param (st : fbst) : bool :=
  match st with FbInit | FbName | FbNameOrURI | FbNameOrURIEnd | FbQuoted | FbURI | FbURIFound | FbStar => true | _ => false end.

Definition TIb (sp i : N) (st : fbst) (params tag : pf) (vs ve : N) : Prop :=
  (is_fin_st st = false -> pl tag = 0 \/ (po params <> 0 /\ po params <= po tag /\ pf_end tag + sp <= i)) /\
  (is_pre_param st = true -> pl tag = 0) /\
  (is_val_st st = true -> po params <= vs) /\
  (is_valend st = true -> ve + sp <= i) /\
  (is_valtok st = true -> sp = 0) /\
  (is_val_st st = false -> vs = ve) /\
  (is_fin_st st = true -> pl tag = 0 \/ (po params <= po tag /\ pf_end tag <= pf_end params)).
Definition TNI (pre : list byte) (i : N) (s : pfrom) : Prop :=
  TIb (nnat (span is_ws pre)) i (fb_state s) (fb_params s) (fb_tag s) (fb_vstart s) (fb_vend s).
Definition tag_nest (s : pfrom) : Prop :=
  pl (fb_tag s) = 0 \/ (po (fb_params s) <= po (fb_tag s) /\ pf_end (fb_tag s) <= pf_end (fb_params s)).

Lemma TNI_pfrom0 pre i : TNI pre i pfrom0.
Proof. unfold TNI, TIb, pfrom0. cbn. repeat split; auto; try discriminate. Qed.

(* what setFromParamVal does to the fields this invariant looks at *)
Lemma setpv_eff pre rest i s s1 : setFromParamVal pre rest i s = Some s1 ->
  fb_vstart s1 = 0 /\ fb_vend s1 = 0 /\
  (fb_tag s1 = fb_tag s \/ (fb_vstart s < fb_vend s /\ fb_tag s1 = mkpf (fb_vstart s) (fb_vend s - fb_vstart s))).
Proof.
  unfold setFromParamVal. destruct s as [nm ur tg st lr he ty q ex pa v pe eo sta so ps pd vs ve]. cbn -[zslice set_q pUInt64Val].
  destruct ((ps <? pd) && (vs <? ve)) eqn:E1.
  - apply andb_true_iff in E1. destruct E1 as [_ E1]. apply N.ltb_lt in E1.
    destruct (zslice pre rest i ps pd); [|discriminate]. destruct (zslice pre rest i vs ve); [|discriminate].
    destruct (eqb_nocase _ str_tag).
    + destruct (pf_set vs ve) as [t|] eqn:Et; [|discriminate]. apply pf_set_inv in Et. destruct Et as [-> _].
      intros H. injection H as <-. cbn. auto.
    + repeat match goal with
             | |- context [if ?b then _ else _] => destruct b
             | |- context [let '(_, _) := ?x in _] => destruct x
             end; intros H; injection H as <-; cbn; auto.
      unfold set_q. cbn -[pUInt64Val span].
      repeat match goal with
             | |- context [if ?b then _ else _] => destruct b
             | |- context [let '(_, _) := ?x in _] => destruct x
             | |- context [match ?e with EOk => _ | _ => _ end] => destruct e
             end; cbn; auto.
  - repeat match goal with
           | |- context [if ?b then _ else _] => destruct b
           | |- context [match zslice ?a ?b ?c ?d ?e with _ => _ end] => destruct (zslice a b c d e)
           end; try discriminate; intros H; injection H as <-; cbn; auto.
Qed.

Definition ti_res (pre rest : list byte) (i : N) (r : ires pfrom) : Prop :=
  match r with
  | Next k s' => (k <= length rest)%nat -> TNI (zpre k pre rest) (i + nnat k) s'
  | Ret o e s' => (e = EMore -> exists k, (k <= length rest)%nat /\ o = i + nnat k /\ TNI (zpre k pre rest) o s') /\
                  (e = EOk \/ e = EMoreValues -> tag_nest s')
  | IPanic => True
  end.

Lemma TNI_adv pre rest i k s : (k <= length rest)%nat -> is_valtok (fb_state s) = false -> TNI pre i s -> TNI (zpre k pre rest) (i + nnat k) s.
Proof.
  intros Hk Hvt H. pose proof (span_ws_zpre k pre rest Hk) as Hsp. unfold TNI, TIb in *. destruct H as (T1&T0&V1&P3&P4&P5&TF).
  unfold nnat in *. repeat split; auto; try lia; try congruence.
Qed.

(* ---- closing a value ----------------------------------------------------------------------------------------------------------------------- *)
Lemma ext_params_tag (ic : N) (pa tg : pf) (force : bool) (s2 : pfrom) (h : N) (s1 : pfrom) :
  fb_params s2 = pa -> fb_tag s2 = tg ->
  (pl tg = 0 \/ (po pa <> 0 /\ po pa <= po tg /\ pf_end tg <= ic)) -> pl pa = 0 ->
  match (if force || negb (po (fb_params s2) =? 0) then pf_extend (fb_params s2) ic else Some (fb_params s2)), pf_extend (fb_v s2) ic with
  | Some p, Some v' => Some (Some (s2 <| fb_params := p |> <| fb_v := v' |>))
  | _, _ => @None (option pfrom)
  end = Some (Some s1) ->
  tag_nest (s1 <| fb_state := FbFIN |> <| fb_soffs := 0 |> <| fb_type := h |>).
Proof.
  intros Ep Et HT Hpl H. destruct s2 as [nm2 ur2 tg2 st2 lr he ty q ex pa2 v2 pe eo sta2 so2 ps pd vs ve]. cbn in Ep, Et. subst pa2 tg2. cbn [fb_params fb_v] in H.
  destruct (force || negb (po pa =? 0)) eqn:Ef.
  - destruct (pf_extend pa ic) as [p|] eqn:Ex; [|discriminate]. destruct (pf_extend v2 ic) as [v'|] eqn:Ev'; [|discriminate].
    apply pf_extend_inv in Ex. destruct Ex as [-> Hp]. injection H as <-. unfold tag_nest, pf_end in *. cbn in *. lia.
  - destruct (pf_extend v2 ic) as [v'|] eqn:Ev'; [|discriminate]. injection H as <-.
    assert (E0 : po pa = 0) by (destruct force; [discriminate|]; cbn in Ef; destruct (po pa =? 0) eqn:E; [lia|discriminate]).
    unfold tag_nest, pf_end in *. cbn in *. lia.
Qed.

Lemma close_tag h pre rest sp i0 ic s s1 : fb_close pre rest i0 ic s = Some (Some s1) ->
  TIb sp i0 (fb_state s) (fb_params s) (fb_tag s) (fb_vstart s) (fb_vend s) ->
  i0 - sp <= ic -> ic <= i0 -> pl (fb_params s) = 0 -> (in_param (fb_state s) = true -> po (fb_params s) <> 0) ->
  tag_nest (s1 <| fb_state := FbFIN |> <| fb_soffs := 0 |> <| fb_type := h |>).
Proof.
  intros H HT Hlo Hhi Hpl Hpo. unfold fb_close in H.
  destruct s as [nm ur tg star lr he ty q ex pa v pe eo sta so ps pd vs ve]. cbn [fb_state fb_params fb_tag fb_vstart fb_vend] in *.
  destruct HT as (T1&T0&V1&P3&P4&P5&TF).
  destruct sta; try discriminate; cbn in T1, T0, V1, P3, P4, P5, Hpo.
  all: try specialize (T1 eq_refl); try specialize (T0 eq_refl); try specialize (V1 eq_refl); try specialize (P3 eq_refl); try specialize (P5 eq_refl); try specialize (Hpo eq_refl).
  all: try (match type of H with match setFromParamVal ?a ?b ?c ?s' with _ => _ end = _ =>
              destruct (setFromParamVal a b c s') as [s2|] eqn:Es; [|discriminate];
              pose proof (setpv_frame _ _ _ _ _ Es) as Ef; unfold nview in Ef; cbn in Ef; injection Ef as _ _ _ Epa _ _;
              apply setpv_eff in Es; cbn in Es; destruct Es as (_ & _ & Etg) end).
  all: try (match type of H with context [if ?f || _ then _ else _] =>
              eapply (ext_params_tag ic pa (fb_tag s2) f s2 h s1); [exact Epa|reflexivity| |exact Hpl|exact H] end;
            destruct Etg as [->|[Hlt ->]]; unfold pf_end in *; cbn in *; lia).
  - (* NameOrURI *)
    cbn [fb_soffs fb_v] in H. destruct (pf_set so ic); [|discriminate]. destruct (pf_extend v ic); [|discriminate]. injection H as <-. left. exact T0.
  - injection H as <-. left. exact T0.
  - injection H as <-. left. exact T0.
  - (* NewPossibleParam *)
    eapply (ext_params_tag ic pa tg false (mkpfrom nm ur tg star lr he ty q ex pa v pe eo FbNewPossibleParam so ps pd vs ve) h s1);
      [reflexivity|reflexivity| |exact Hpl|exact H]. unfold pf_end in *. lia.
  - eapply (ext_params_tag ic pa tg false (mkpfrom nm ur tg star lr he ty q ex pa v pe eo FbNewParam so ps pd vs ve) h s1);
      [reflexivity|reflexivity| |exact Hpl|exact H]. unfold pf_end in *. lia.
  - injection H as <-. left. exact T0.
Qed.

Definition PF (s : pfrom) : Prop := pl (fb_params s) = 0 /\ (in_param (fb_state s) = true -> po (fb_params s) <> 0).
Lemma NNI_PF pre i s : NNI pre i s -> fb_state s <> FbFIN -> PF s.
Proof. intros (_&_&_&_&_&_&_&N8&N9&_) Hst. split; [apply N8; destruct (fb_state s); try reflexivity; congruence|exact N9]. Qed.
Lemma eoh_tag h pre rest i0 ic ret e s : TNI pre i0 s -> PF s -> i0 - nnat (span is_ws pre) <= ic -> ic <= i0 -> e <> EMore ->
  ti_res pre rest i0 (fb_endOfHdr h pre rest i0 ic ret e s).
Proof.
  intros HT [P1 P2] Hlo Hhi He. unfold fb_endOfHdr. destruct (fb_close pre rest i0 ic s) as [[s1|]|] eqn:Ec; [| |exact I].
  - cbn [ti_res]. split; [intros E; congruence|]. intros _. exact (close_tag h pre rest _ i0 ic s s1 Ec HT Hlo Hhi P1 P2).
  - cbn [ti_res]. split; [intros E; destruct (fb_state s); discriminate|intros [E|E]; destruct (fb_state s); discriminate].
Qed.
Lemma ret_other_tag pre rest i o e s : e <> EMore -> e <> EOk -> e <> EMoreValues -> ti_res pre rest i (Ret o e s).
Proof. intros H1 H2 H3. cbn. split; [intros E; congruence|intros [E|E]; congruence]. Qed.
Lemma ret_more0_tag pre rest i s : TNI pre i s -> ti_res pre rest i (Ret i EMore s).
Proof.
  intros H. cbn. split; [|intros [E|E]; discriminate]. intros _. exists 0%nat. split; [lia|]. split; [unfold nnat; lia|].
  unfold zpre. cbn [firstn rev app]. exact H.
Qed.
Lemma lws_tag h pre c r i s1 : TNI pre i s1 -> PF s1 -> is_valtok (fb_state s1) = false ->
  ti_res pre (c :: r) i (fb_lws h pre (c :: r) i s1).
Proof.
  intros HT HN Hvt. unfold fb_lws. pose proof (skipLWS_bounds false (c :: r)) as Hb.
  destruct (skipLWS false (c :: r)) as [k|k crl|k] eqn:El.
  - cbn [ti_res]. intros Hk. apply TNI_adv; assumption.
  - apply eoh_tag; try assumption; try discriminate; lia.
  - cbn [ti_res]. split; [|intros [E|E]; discriminate]. intros _. exists k. split; [exact Hb|]. split; [reflexivity|]. apply TNI_adv; assumption.
Qed.
Lemma lws_b_tag h pre c r i s upd : TNI pre i s ->
  (forall n, match n with Some m => i <= m | None => True end -> TNI pre i (upd n) /\ is_valtok (fb_state (upd n)) = false) ->
  PF (upd None) -> ti_res pre (c :: r) i (fb_lws_b h pre (c :: r) i s upd).
Proof.
  intros HT Hupd HN. unfold fb_lws_b.
  destruct (skipLWS false (c :: r)) as [k|k crl|k] eqn:El.
  - cbn [ti_res]. intros Hk. apply TNI_adv; [exact Hk|apply Hupd; lia|apply Hupd; lia].
  - apply eoh_tag; try assumption; try discriminate; try lia. apply Hupd. exact I.
  - apply ret_more0_tag. exact HT.
Qed.
Lemma mv_tag h pre rest i s : TNI pre i s -> PF s -> ti_res pre rest i (fb_moreValues h pre rest i s).
Proof. intros HT HN. unfold fb_moreValues. apply eoh_tag; try assumption; try discriminate; lia. Qed.
Lemma next1_tag pre c r i s' : is_ws c = false ->
  TIb 0 (i + 1) (fb_state s') (fb_params s') (fb_tag s') (fb_vstart s') (fb_vend s') -> ti_res pre (c :: r) i (Next 1 s').
Proof.
  intros Hc H. cbn [ti_res]. intros _. unfold TNI, zpre. cbn [firstn rev app span]. rewrite Hc.
  replace (i + nnat 1) with (i + 1) by (unfold nnat; lia). exact H.
Qed.
Lemma setpv_tag pre c r i s' : is_ws c = false ->
  (forall tg', tg' = fb_tag s' \/ (fb_vstart s' < fb_vend s' /\ tg' = mkpf (fb_vstart s') (fb_vend s' - fb_vstart s')) ->
     TIb 0 (i + 1) (fb_state s') (fb_params s') tg' 0 0) ->
  ti_res pre (c :: r) i (fb_setpv pre (c :: r) i s').
Proof.
  intros Hc H. unfold fb_setpv. destruct (setFromParamVal pre (c :: r) i s') as [s1|] eqn:Es; [|exact I].
  pose proof (setpv_frame _ _ _ _ _ Es) as Ef. unfold nview in Ef. injection Ef as Est _ _ Epa _ _.
  apply setpv_eff in Es. destruct Es as (E1 & E2 & Etg). apply next1_tag; [exact Hc|]. rewrite Est, Epa, E1, E2. apply H. exact Etg.
Qed.

(* ---- one iteration ------------------------------------------------------------------------------------------------------------------------- *)
Ltac letbt := repeat match goal with
  | |- ti_res _ _ _ (match pf_set ?a ?b with _ => _ end) =>
      let E := fresh "E" in destruct (pf_set a b) eqn:E; [apply pf_set_inv in E; destruct E as [-> ?]|exact I]
  | |- ti_res _ _ _ (match pf_extend ?a ?b with _ => _ end) =>
      let E := fresh "E" in destruct (pf_extend a b) eqn:E; [apply pf_extend_inv in E; destruct E as [-> ?]|exact I]
  end.
Ltac tb := unfold TNI, TIb, NNI, NIb, pf_end in *; cbn -[N.add N.sub] in *; prep; unfold nnat in *; repeat split; intros; try discriminate; try lia.

Section Step.
  Variables (L h : N) (pre : list byte) (c : byte) (r1 : list byte) (i : N).
  Hypothesis Hi : i = nnat (length pre).
  Notation rest := (c :: r1).

  Ltac unpack s Hinv HN HT :=
    destruct s as [nm ur tg star lr he ty q ex pa v pe eo sta so ps pd vs ve];
    pose proof Hinv as (H1&H2&H3&H4&H5&H6&H7&H8&H9&H10&F1&F2&H11&H12&F3);
    pose proof HN as (N1&N2&N3&N4&N5&N6&N7&N8&N9&N10&N11&N12);
    pose proof HT as (T1&T0&V1&P3&P4&P5&TF);
    unfold pf_end in H1, H2, H3, H4, H5; cbn -[N.add N.sub] in H1, H2, H3, H4, H5, H6, H7, H8, H9, H10, F1, F2, H11, H12, F3;
    cbn -[N.add N.sub] in N1, N2, N3, N4, N5, N6, N7, N8, N9, N10, N11, N12, T1, T0, V1, P3, P4, P5, TF.

  Lemma comma_tag s : is_ws c = false -> TNI pre i s -> NNI pre i s -> fb_inv L pre i s -> fb_state s <> FbFIN ->
    ti_res pre rest i (fb_comma h pre rest i s).
  Proof.
    intros Hc HT HN Hinv Hst. unfold fb_comma. destruct (multipleValsOk h); [apply mv_tag; [assumption|apply (NNI_PF pre i); assumption]|].
    apply next1_tag; [exact Hc|]. unpack s Hinv HN HT. clear Hinv HN HT. destruct sta; try congruence; tb.
  Qed.
  Lemma comma_strict_tag s : TNI pre i s -> NNI pre i s -> fb_state s <> FbFIN -> ti_res pre rest i (fb_comma_strict h pre rest i s).
  Proof.
    intros HT HN Hst. unfold fb_comma_strict, fb_bad. destruct (multipleValsOk h); [apply mv_tag; [assumption|apply (NNI_PF pre i); assumption]|apply ret_other_tag; discriminate].
  Qed.

  Lemma step_tag s : fb_inv L pre i s -> NNI pre i s -> TNI pre i s -> ti_res pre rest i (fb_iter h pre rest i s).
  Proof.
    intros Hinv HN HT. unfold fb_iter.
    assert (Hk : ccls_of c = KWs \/ (ccls_of c <> KWs /\ is_ws c = false)).
    { destruct (ccls_of c) eqn:E; [left; reflexivity|right; split; [discriminate|apply ccls_nows; rewrite E; discriminate]..]. }
    destruct (fb_state s) eqn:Est.
    23: { cbn [ti_res]. split; [intros E; discriminate|]. intros _. destruct HT as (_&_&_&_&_&_&TF). rewrite Est in TF. exact (TF eq_refl). }
    all: assert (Hnf : fb_state s <> FbFIN) by (rewrite Est; discriminate).
    all: unfold fb_step, fb_gA, fb_gQ, fb_gURI, fb_gURIFound, fb_gP, fb_gPE, fb_gV, fb_gVE, fb_gStar, fb_bad, fb_reset3.
    all: destruct Hk as [Ek|[Ek Hc]]; [rewrite Ek|destruct (ccls_of c); try congruence].
    all: cbn [is_st_init is_st_nameoruri is_st_nameoruriend is_st_name is_st_new st_poss st_newparam st_paramname st_paramnameend st_newval st_val st_valend st_quotedval].
    all: try (apply ret_other_tag; discriminate).
    all: try (apply comma_tag; assumption).
    all: try (apply comma_strict_tag; assumption).
    all: letbt.
    all: try (apply lws_tag; [| |]).
    all: try (apply lws_b_tag; [exact HT| |]).
    all: try (apply setpv_tag; [exact Hc|intros tg' [->|[Hlt ->]]]).
    all: try (apply next1_tag; [exact Hc|]).
    all: try (intros n Hn; split; [|destruct n; reflexivity]; destruct n as [n|]).
    all: unfold PF.
    all: try (unpack s Hinv HN HT; clear Hinv HN HT; cbn in Est; subst sta; cbn -[N.add N.sub] in *; tb; fail).
    all: try (unpack s Hinv HN HT; clear Hinv HN HT; cbn in Est; subst sta; cbn -[N.add N.sub]; destruct (po pa =? 0) eqn:E0; tb; fail).
    all: try (destruct r1 as [|d r2]; [apply ret_more0_tag; exact HT|destruct (is_crlf d); [apply ret_other_tag; discriminate|]];
              cbn [ti_res]; intros Hk2; apply TNI_adv; [exact Hk2|rewrite Est; reflexivity|exact HT]).
    all: intros [n0|] Hn; split.
    all: try (destruct s; cbn in Est |- *; rewrite Est; reflexivity).
    all: try (unpack s Hinv HN HT; clear Hinv HN HT; cbn in Est; subst sta; cbn -[N.add N.sub] in *; tb; fail).
    all: match goal with |- ?G => idtac "REMAINING"; idtac G end.
  Qed.
End Step.

(* ---- one call, every schedule ------------------------------------------------------------------------------------------------------------------ *)
Definition TQ (pre rest : list byte) (i o : N) (e : err) (s' : pfrom) : Prop :=
  (e = EMore -> exists k, (k <= length rest)%nat /\ o = i + nnat k /\
                          fb_inv 0 (zpre k pre rest) o s' /\ NNI (zpre k pre rest) o s' /\ TNI (zpre k pre rest) o s') /\
  (e = EOk \/ e = EMoreValues -> fb_nest s' /\ tag_nest s').

Lemma iter_tag h pre rest i s : i = nnat (length pre) -> fb_inv 0 pre i s /\ NNI pre i s /\ TNI pre i s ->
  match fb_iter h pre rest i s with
  | Next k s' => (0 < k)%nat -> (k <= length rest)%nat ->
                 fb_inv 0 (zpre k pre rest) (i + nnat k) s' /\ NNI (zpre k pre rest) (i + nnat k) s' /\ TNI (zpre k pre rest) (i + nnat k) s'
  | Ret o e s' => TQ pre rest i o e s'
  | IPanic => True
  end.
Proof.
  intros Hi (Hinv & HN & HT). pose proof (iter_nest h pre rest i s Hi (conj Hinv HN)) as S1.
  assert (S2 : ti_res pre rest i (fb_iter h pre rest i s)).
  { destruct rest as [|c r1]; [|exact (step_tag 0 h pre c r1 i Hi s Hinv HN HT)].
    unfold fb_iter. destruct (fb_state s) eqn:Est; try (apply ret_more0_tag; exact HT).
    cbn [ti_res]. split; [intros E; discriminate|]. intros _. destruct HT as (_&_&_&_&_&_&TF). rewrite Est in TF. exact (TF eq_refl). }
  destruct (fb_iter h pre rest i s) as [k s'|o e s'|]; [| |exact I].
  - intros H0 Hk. destruct (S1 H0 Hk) as [X1 X2]. split; [exact X1|]. split; [exact X2|exact (S2 Hk)].
  - unfold TQ. cbn [ti_res] in S2. destruct S2 as [M1 M2]. destruct S1 as [Q1 Q2]. split.
    + intros He. destruct (Q1 He) as (k & Hk & Ho & Hinv' & HN'). destruct (M1 He) as (k' & Hk' & Ho' & HT').
      assert (k' = k) by (unfold nnat in *; lia). subst k'. exists k. auto.
    + intros He. split; [exact (Q2 He)|exact (M2 He)].
Qed.

Theorem nameaddr_call_tag h buf offs s o e s' : offs <= nnat (length buf) ->
  fb_inv 0 (rev (firstn (N.to_nat offs) buf)) offs s -> NNI (rev (firstn (N.to_nat offs) buf)) offs s -> TNI (rev (firstn (N.to_nat offs) buf)) offs s ->
  parse_nameaddr h buf offs s = Done o e s' ->
  (e = EMore -> o <= nnat (length buf) /\ fb_inv 0 (rev (firstn (N.to_nat o) buf)) o s' /\ NNI (rev (firstn (N.to_nat o) buf)) o s' /\
                TNI (rev (firstn (N.to_nat o) buf)) o s') /\
  (e = EOk \/ e = EMoreValues -> fb_nest s' /\ tag_nest s').
Proof.
  intros Hoffs Hinv HN HT H. unfold parse_nameaddr, parse, zinit in H.
  pose proof (run_invQ (fb_iter h) (fun pre i t => fb_inv 0 pre i t /\ NNI pre i t /\ TNI pre i t) TQ (iter_tag h)
                (skipn (N.to_nat offs) buf) (rev (firstn (N.to_nat offs) buf)) offs s) as R.
  rewrite H in R. specialize (R ltac:(rewrite rev_length, firstn_length; unfold nnat in *; lia) (conj Hinv (conj HN HT))).
  destruct R as (p' & r' & i' & Hi' & Hw & [Q1 Q2]). rewrite rev_involutive, firstn_skipn in Hw.
  split; [|exact Q2]. intros He. destruct (Q1 He) as (k & Hk & Ho & Hinv' & HN' & HT').
  rewrite (zpre_whole_prefix p' r' k buf Hw Hk) in Hinv', HN', HT'.
  assert (Hlen : nnat (length buf) = i' + nnat (length r')).
  { apply (f_equal (@length _)) in Hw. rewrite app_length, rev_length in Hw. unfold nnat in *. lia. }
  replace (N.to_nat o) with (length p' + k)%nat by (unfold nnat in *; lia).
  split; [unfold nnat in *; lia|]. auto.
Qed.

Lemma fb_fed_tag h buf offs s : fb_fed h buf offs s -> TNI (rev (firstn (N.to_nat offs) buf)) offs s.
Proof.
  induction 1 as [buf offs Ho|buf offs s o s' buf' Hf IH H Hpre Ho]; [apply TNI_pfrom0|].
  destruct (fb_fed_inv h buf offs s Hf) as (I1 & I2 & I3).
  destruct (nameaddr_call_tag h buf offs s o EMore s' I1 I2 I3 IH H) as [M _]. destruct (M eq_refl) as (_ & _ & _ & M4). rewrite Hpre. exact M4.
Qed.
Theorem nameaddr_tag_nest h buf offs s o e s' : fb_fed h buf offs s -> parse_nameaddr h buf offs s = Done o e s' ->
  e = EOk \/ e = EMoreValues -> tag_nest s'.
Proof.
  intros Hf H He. destruct (fb_fed_inv h buf offs s Hf) as (I1 & I2 & I3).
  exact (proj2 (proj2 (nameaddr_call_tag h buf offs s o e s' I1 I2 I3 (fb_fed_tag h buf offs s Hf) H) He)).
Qed.
