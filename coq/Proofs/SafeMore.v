(* C04 for more automata, with one uniform invariant: every offset kept in the object lies at or
   before the current position.  Unset fields are 0, so no case analysis on the state is needed;
   it is exactly what every pf_set / pf_extend / Get of the code relies on. *)
From Sipsp Require Import RunLemmas Safe SafeLeaf Harness.
From Coq Require Import ZifyN ZifyNat ZifyBool.

(* ---- SkipQuoted --------------------------------------------------------------------------------------- *)
Definition sq_P (offs : N) (pre rest : list byte) (i : N) (s : unit) : Prop := i = nnat (length pre) /\ offs <= i.
Definition sq_Q (offs : N) (pre rest : list byte) (i o : N) (e : err) (s : unit) : Prop :=
  i = nnat (length pre) /\ offs <= o /\ o <= i + nnat (length rest) /\ (e = EOk -> offs < o).
Lemma sq_step_ok offs pre rest i s : sq_P offs pre rest i s ->
  match sq_iter pre rest i s with
  | Next k s' => (0 < k <= length rest)%nat /\ sq_P offs (zpre k pre rest) (zrest k rest) (i + nnat k) s'
  | Ret o e s' => sq_Q offs pre rest i o e s'
  | IPanic => False
  end.
Proof.
  unfold sq_P, sq_Q, sq_iter. intros [Hi Ho].
  destruct rest as [|c [|d r]]; repeat match goal with |- context [if ?b then _ else _] => destruct b end; fin.
Qed.
Lemma sq_run_safe pre rest i : i = nnat (length pre) ->
  match run sq_iter pre rest i 0 tt with
  | Done o e _ => i <= o /\ o <= i + nnat (length rest) /\ (e = EOk -> i < o)
  | _ => False
  end.
Proof.
  intros Hi. pose proof (run_safe sq_iter (sq_P i) (sq_Q i) (sq_step_ok i) rest pre i tt (conj Hi (N.le_refl i))) as H.
  destruct (run sq_iter pre rest i 0 tt) as [o e s'| |]; auto.
  destruct H as (p' & r' & i' & (H1 & H2 & H3 & H4) & Hw).
  apply (f_equal (@length _)) in Hw. rewrite !app_length, !rev_length in Hw. unfold nnat in *. repeat split; auto; lia.
Qed.

(* ---- ParseTokenParam ---------------------------------------------------------------------------------- *)
Definition tp_inv (o : N) (s : tokparam) : Prop :=
  pf_end (tp_all s) <= o /\ pf_end (tp_name s) <= o /\ pf_end (tp_val s) <= o.
Definition tp_P (pre rest : list byte) (i : N) (s : tokparam) : Prop := i = nnat (length pre) /\ tp_inv i s.
Definition tp_Q (pre rest : list byte) (i o : N) (e : err) (s : tokparam) : Prop :=
  i = nnat (length pre) /\ o <= i + nnat (length rest) /\ tp_inv (i + nnat (length rest)) s /\
  (e = EMore -> i <= o /\ tp_inv o s).

Definition tp_step_res (pre rest : list byte) (i : N) (r : ires tokparam) : Prop :=
  match r with
  | Next k s' => (0 < k <= length rest)%nat /\ tp_P (zpre k pre rest) (zrest k rest) (i + nnat k) s'
  | Ret o e s' => tp_Q pre rest i o e s'
  | IPanic => False
  end.

Lemma tp_endOfHdr_ok pre rest i ret s : i = nnat (length pre) -> ret <= i + nnat (length rest) ->
  tp_inv (i + nnat (length rest)) s ->
  tp_step_res pre rest i (tp_endOfHdr ret s).
Proof.
  intros Hi Hr (H1 & H2 & H3). unfold tp_step_res, tp_endOfHdr, tp_Q, tp_inv. destruct s as [al nm vl st]; cbn in *.
  destruct st; cbn; repeat split; auto; try lia; intros; discriminate.
Qed.

Lemma tp_moreBytes_ok f pre rest i j s : i = nnat (length pre) -> i <= j -> j <= i + nnat (length rest) -> tp_inv j s ->
  tp_step_res pre rest i (tp_moreBytes f j (i + nnat (length rest)) s).
Proof.
  intros Hi Hj1 Hj2 (H1 & H2 & H3). unfold tp_moreBytes.
  assert (Hw : tp_inv (i + nnat (length rest)) s) by (unfold tp_inv; repeat split; lia).
  destruct (tf_ie f).
  - destruct s as [al nm vl st]; unfold pf_end in *; cbn in *.
    destruct st; try (apply tp_endOfHdr_ok; auto; lia); unfold pf_extend; cbn.
    + replace (j <? po nm) with false by lia. replace (j <? po al) with false by lia. cbn.
      unfold tp_step_res, tp_Q, tp_inv, pf_end. cbn. repeat split; auto; try lia; intros; discriminate.
    + replace (j <? po vl) with false by lia. replace (j <? po al) with false by lia. cbn.
      unfold tp_step_res, tp_Q, tp_inv, pf_end. cbn. repeat split; auto; try lia; intros; discriminate.
    + unfold tp_step_res, tp_Q, tp_inv, pf_end. cbn. repeat split; auto; lia.
    + unfold tp_step_res, tp_Q, tp_inv, pf_end. cbn. repeat split; auto; try lia; intros; discriminate.
    + unfold tp_step_res, tp_Q, tp_inv, pf_end. cbn. repeat split; auto; try lia; intros; discriminate.
  - unfold tp_step_res, tp_Q. repeat split; auto; try lia; apply Hw || (unfold tp_inv; repeat split; lia).
Qed.

Lemma tp_inv_mono o o' s : o <= o' -> tp_inv o s -> tp_inv o' s.
Proof. unfold tp_inv. intros H (H1 & H2 & H3). repeat split; lia. Qed.

Lemma tp_ws_ok f pre c r i s s1 : is_ws c = true -> i = nnat (length pre) -> tp_inv i s -> tp_inv i s1 ->
  tp_step_res pre (c :: r) i (tp_ws f (c :: r) i s (Some s1)).
Proof.
  intros Hws Hi Hs Hs1. unfold tp_ws, tp_step_res.
  pose proof (skipLWS_bounds (tf_ie f) (c :: r)) as Hb.
  destruct (skipLWS (tf_ie f) (c :: r)) as [k|k crl|k] eqn:El.
  - apply skipLWS_ws_progress in El; [|exact Hws]. split; [lia|]. split; [unfold nnat in *; rewrite zpre_length by lia; lia|].
    apply (tp_inv_mono i); [lia|exact Hs1].
  - apply tp_endOfHdr_ok; [exact Hi|unfold nnat; lia|]. apply (tp_inv_mono i); [lia|exact Hs1].
  - apply tp_moreBytes_ok; [exact Hi|lia|lia|exact Hs].
Qed.

Lemma ext2_ok a b e1 e2 : pf_end a <= e1 -> pf_end b <= e2 ->
  ext2 a b e1 e2 = Some (mkpf (po a) (e1 - po a), mkpf (po b) (e2 - po b)).
Proof.
  unfold ext2, pf_extend, pf_end. intros H1 H2.
  replace (e1 <? po a) with false by lia. replace (e2 <? po b) with false by lia. reflexivity.
Qed.

Lemma tp_quoted_ok f pre rest i s : i = nnat (length pre) -> tp_inv i s ->
  tp_step_res pre rest i (tp_sQuoted f pre rest i s).
Proof.
  intros Hi Hinv. unfold tp_sQuoted. pose proof (sq_run_safe pre rest i Hi) as H.
  destruct (run sq_iter pre rest i 0 tt) as [o e u| |]; try contradiction. destruct H as (H1 & H2 & H3).
  pose proof Hinv as (I1 & I2 & I3). unfold pf_end in I1, I2, I3.
  destruct e; try (unfold tp_step_res, tp_Q; repeat split; auto; try lia; try (apply (tp_inv_mono i); [lia|exact Hinv]); intros; discriminate).
  - (* closed *)
    specialize (H3 eq_refl). rewrite ext2_ok by (unfold pf_end; lia).
    unfold tp_step_res, tp_P, tp_inv, pf_end. destruct s as [al nm vl st]. cbn -[N.add N.sub nnat zpre zrest length] in *.
    unfold nnat in *. rewrite zpre_length by lia. repeat split; try lia.
  - (* more *) apply tp_moreBytes_ok; [exact Hi|exact H1|exact H2|apply (tp_inv_mono i); [lia|exact Hinv]].
Qed.

Lemma tp_step_ok flags pre rest i s : tp_P pre rest i s -> tp_step_res pre rest i (tp_iter flags pre rest i s).
Proof.
  intros [Hi Hinv]. unfold tp_iter. set (f := tp_decode flags).
  destruct (tp_state s) eqn:Est.
  11:{ (* PFIN *) unfold tp_step_res, tp_Q. repeat split; auto; try lia; try (apply (tp_inv_mono i); [lia|exact Hinv]); intros; discriminate. }
  all: destruct rest as [|c r];
    [replace (tp_moreBytes f i i s) with (tp_moreBytes f i (i + nnat (length (@nil byte))) s) by (f_equal; unfold nnat; cbn; lia);
     apply (tp_moreBytes_ok f pre [] i i s Hi); [lia|cbn; unfold nnat; lia|exact Hinv]|].
  all: unfold tp_step; rewrite ?Est.
  all: try (apply tp_quoted_ok; [exact Hi|exact Hinv]).
  all: destruct s as [al nm vl st]; cbn [tp_state tp_all tp_name tp_val] in *; subst st.
  all: pose proof Hinv as (H1 & H2 & H3); unfold pf_end in H1, H2, H3; cbn [tp_all tp_name tp_val] in H1, H2, H3.
  all: unfold tp_sInit, tp_sName, tp_sFEq, tp_sFVal, tp_sVal, tp_sFSep, tp_bad, tp_spterm_ret;
       cbn [tp_state tp_all tp_name tp_val].
  all: try rewrite !ext2_ok by (unfold pf_end; cbn [po pl]; lia).
  all: unfold pf_set, pf_extend; cbn [po pl]; rewrite ?N.ltb_irrefl.
  all: try replace (i <? po al) with false by lia.
  all: destruct (is_ws c) eqn:Ews;
    [try (apply tp_ws_ok; [exact Ews|exact Hi|exact Hinv|
          first [exact Hinv|unfold tp_inv, pf_end; cbn -[N.add N.sub]; repeat split; lia]])|].
  all: repeat match goal with
              | |- context [if ?b then _ else _] => destruct b
              | |- context [match zprev ?p with _ => _ end] => destruct (zprev p)
              end.
  all: unfold tp_step_res, tp_P, tp_Q, tp_inv, pf_end; cbn -[N.add N.sub nnat zpre zrest length];
       try (unfold nnat in *; cbn [length]; rewrite ?zpre_length by (cbn [length]; lia); repeat split; auto; intros; try discriminate; lia).
Qed.

Theorem tokparam_safe flags buf offs s : offs <= nnat (length buf) -> tp_inv offs s ->
  match parse_tokparam flags buf offs s with
  | Done o e s' => o <= nnat (length buf) /\ tp_inv (nnat (length buf)) s' /\ (e = EMore -> offs <= o /\ tp_inv o s')
  | _ => False
  end.
Proof.
  intros Hoffs Hinv. unfold parse_tokparam, parse, zinit.
  pose proof (run_safe (tp_iter flags) (fun pre rest i s => tp_P pre rest i s /\ offs <= i)
                (fun pre rest i o e s => tp_Q pre rest i o e s /\ offs <= i)) as H.
  assert (G : forall pre rest i s0, tp_P pre rest i s0 /\ offs <= i ->
            match tp_iter flags pre rest i s0 with
            | Next k s' => (0 < k <= length rest)%nat /\ (tp_P (zpre k pre rest) (zrest k rest) (i + nnat k) s' /\ offs <= i + nnat k)
            | Ret o e s' => tp_Q pre rest i o e s' /\ offs <= i
            | IPanic => False end).
  { intros pre rest i s0 [HP Ho]. pose proof (tp_step_ok flags pre rest i s0 HP) as X. unfold tp_step_res in X.
    destruct (tp_iter flags pre rest i s0); auto. destruct X as [X1 X2]. split; [exact X1|]. split; [exact X2|unfold nnat; lia]. }
  specialize (H G
                (skipn (N.to_nat offs) buf) (rev (firstn (N.to_nat offs) buf)) offs s).
  assert (H0 : tp_P (rev (firstn (N.to_nat offs) buf)) (skipn (N.to_nat offs) buf) offs s /\ offs <= offs).
  { split; [|lia]. split; [|exact Hinv]. rewrite rev_length, firstn_length. unfold nnat in *. lia. }
  specialize (H H0).
  destruct (run (tp_iter flags) _ _ offs 0 s) as [o e s'| |]; auto.
  destruct H as (p' & r' & i' & ((Hi & H1 & H2 & H3) & Hio) & Hw).
  rewrite zinit_whole in Hw. apply (f_equal (@length _)) in Hw. rewrite app_length, rev_length in Hw.
  assert (E : i' + nnat (length r') = nnat (length buf)) by (unfold nnat in *; lia).
  rewrite E in *. split; [exact H1|]. split; [exact H2|]. intros He. destruct (H3 He). split; [lia|assumption].
Qed.
Lemma tokparam0_inv o : tp_inv o tokparam0. Proof. unfold tp_inv, pf_end. cbn. lia. Qed.

(* ---- CSeq ------------------------------------------------------------------------------------------------------- *)
Definition cs_inv (o : N) (s : cseq) : Prop :=
  pf_end (cs_cseq s) <= o /\ pf_end (cs_method s) <= o /\ pf_end (cs_v s) <= o /\ cs_soffs s <= o.
Definition cs_P (pre rest : list byte) (i : N) (s : cseq) : Prop := i = nnat (length pre) /\ cs_inv i s.
Definition cs_Q (pre rest : list byte) (i o : N) (e : err) (s : cseq) : Prop :=
  i = nnat (length pre) /\ o <= i + nnat (length rest) /\ cs_inv (i + nnat (length rest)) s /\
  (e = EMore -> i <= o /\ cs_inv o s) /\ (e = EOk -> i <= o /\ cs_inv o s).
Definition cs_step_res (pre rest : list byte) (i : N) (r : ires cseq) : Prop :=
  match r with
  | Next k s' => (0 < k <= length rest)%nat /\ cs_P (zpre k pre rest) (zrest k rest) (i + nnat k) s'
  | Ret o e s' => cs_Q pre rest i o e s'
  | IPanic => False
  end.
Lemma cs_inv_mono o o' s : o <= o' -> cs_inv o s -> cs_inv o' s.
Proof. unfold cs_inv. intros H (H1 & H2 & H3 & H4). repeat split; lia. Qed.

Lemma zget_some pre rest i f : pf_end f <= i + nnat (length rest) -> exists l, zget pre rest i f = Some l.
Proof.
  intros H. unfold zget, zslice, pf_end, nnat in *.
  replace ((po f <=? po f + pl f) && (po f + pl f <=? i + N.of_nat (length rest))) with true by lia. eexists. reflexivity.
Qed.

Lemma cs_endOfHdr_ok pre rest i n crl s : i = nnat (length pre) -> (n + crl <= length rest)%nat -> cs_inv i s ->
  cs_step_res pre rest i (cs_endOfHdr pre rest i i (i + nnat n) crl s).
Proof.
  intros Hi Hn Hinv. pose proof Hinv as (H1 & H2 & H3 & H4). unfold pf_end in *.
  assert (Hw : cs_inv (i + nnat (length rest)) s) by (apply (cs_inv_mono i); [lia|exact Hinv]).
  unfold cs_endOfHdr, cs_finish. destruct s as [no mno cq me v st so]; cbn -[N.add N.sub nnat zget] in *.
  destruct st; unfold pf_set, pf_extend; cbn -[N.add N.sub nnat zget];
    try replace (i <? so) with false by lia; try replace (i <? po v) with false by lia; cbn -[N.add N.sub nnat zget].
  all: try (unfold cs_step_res, cs_Q, cs_inv, pf_end in *; cbn -[N.add N.sub nnat]; unfold nnat in *; repeat split; auto; intros; try discriminate; lia).
  all: destruct (_ || _); [unfold cs_step_res, cs_Q, cs_inv, pf_end in *; cbn -[N.add N.sub nnat]; unfold nnat in *; repeat split; auto; intros; try discriminate; lia|].
  - destruct (zget_some pre rest i (mkpf so (i - so))) as [l ->]; [unfold pf_end; cbn; unfold nnat; lia|].
    unfold cs_step_res, cs_Q, cs_inv, pf_end in *; cbn -[N.add N.sub nnat]; unfold nnat in *; repeat split; auto; intros; try discriminate; lia.
  - destruct (zget_some pre rest i me) as [l ->]; [unfold pf_end; unfold nnat; lia|].
    unfold cs_step_res, cs_Q, cs_inv, pf_end in *; cbn -[N.add N.sub nnat]; unfold nnat in *; repeat split; auto; intros; try discriminate; lia.
Qed.

Lemma cs_lws_ok pre c r i s : is_ws c = true -> i = nnat (length pre) -> cs_inv i s ->
  cs_step_res pre (c :: r) i (cs_lws pre (c :: r) i s).
Proof.
  intros Hws Hi Hs. unfold cs_lws.
  pose proof (skipLWS_bounds false (c :: r)) as Hb.
  destruct (skipLWS false (c :: r)) as [k|k crl|k] eqn:El.
  - apply skipLWS_ws_progress in El; [|exact Hws]. unfold cs_step_res, cs_P. split; [lia|]. split; [unfold nnat in *; rewrite zpre_length by lia; lia|].
    apply (cs_inv_mono i); [lia|exact Hs].
  - apply cs_endOfHdr_ok; assumption.
  - unfold cs_step_res, cs_Q. repeat split; auto; try (unfold nnat; lia); try (apply (cs_inv_mono i); [unfold nnat; lia|exact Hs]); intros; discriminate.
Qed.

Lemma cs_step_ok pre rest i s : cs_P pre rest i s -> cs_step_res pre rest i (cs_iter pre rest i s).
Proof.
  intros [Hi Hinv]. unfold cs_iter.
  destruct (cs_state s) eqn:Est.
  6:{ unfold cs_step_res, cs_Q. repeat split; auto; try lia; try (apply (cs_inv_mono i); [lia|exact Hinv]); intros; discriminate. }
  all: destruct rest as [|c r];
    [unfold cs_step_res, cs_Q; repeat split; auto; try (unfold nnat; cbn; lia); try (apply (cs_inv_mono i); [lia|exact Hinv]); intros; try discriminate; try exact Hinv|].
  all: pose proof Hinv as (H1 & H2 & H3 & H4); unfold pf_end in H1, H2, H3.
  all: destruct (is_ws c) eqn:Ews.
  all: try (unfold pf_set, pf_extend; try replace (i <? cs_soffs s) with false by lia; try replace (i <? po (cs_v s)) with false by lia).
  all: try (apply cs_lws_ok; [exact Ews|exact Hi|
            first [exact Hinv|destruct s; unfold cs_inv, pf_end in *; cbn -[N.add N.sub] in *; repeat split; lia]]).
  all: destruct s as [no mno cq me v st so]; cbn -[N.add N.sub nnat] in *.
  all: repeat match goal with
              | |- context [if ?b then _ else _] => destruct b
              | |- context [match acc32 ?a ?b with _ => _ end] => destruct (acc32 a b)
              end.
  all: unfold cs_step_res, cs_P, cs_Q, cs_inv, pf_end; cbn -[N.add N.sub nnat zpre zrest length];
       try (unfold nnat in *; cbn [length]; rewrite ?zpre_length by (cbn [length]; lia); repeat split; auto; intros; try discriminate; lia).
Qed.

Theorem cseq_safe buf offs s : offs <= nnat (length buf) -> cs_inv offs s ->
  match parse_cseq buf offs s with
  | Done o e s' => o <= nnat (length buf) /\ cs_inv (nnat (length buf)) s' /\ (e = EMore -> offs <= o /\ cs_inv o s') /\ (e = EOk -> offs <= o /\ cs_inv o s')
  | _ => False
  end.
Proof.
  intros Hoffs Hinv. unfold parse_cseq, parse, zinit.
  pose proof (run_safe cs_iter (fun pre rest i s => cs_P pre rest i s /\ offs <= i)
                (fun pre rest i o e s => cs_Q pre rest i o e s /\ offs <= i)) as H.
  assert (G : forall pre rest i s0, cs_P pre rest i s0 /\ offs <= i ->
            match cs_iter pre rest i s0 with
            | Next k s' => (0 < k <= length rest)%nat /\ (cs_P (zpre k pre rest) (zrest k rest) (i + nnat k) s' /\ offs <= i + nnat k)
            | Ret o e s' => cs_Q pre rest i o e s' /\ offs <= i
            | IPanic => False end).
  { intros pre rest i s0 [HP Ho]. pose proof (cs_step_ok pre rest i s0 HP) as X. unfold cs_step_res in X.
    destruct (cs_iter pre rest i s0); auto. destruct X as [X1 X2]. split; [exact X1|]. split; [exact X2|unfold nnat; lia]. }
  specialize (H G (skipn (N.to_nat offs) buf) (rev (firstn (N.to_nat offs) buf)) offs s).
  assert (H0 : cs_P (rev (firstn (N.to_nat offs) buf)) (skipn (N.to_nat offs) buf) offs s /\ offs <= offs).
  { split; [|lia]. split; [|exact Hinv]. rewrite rev_length, firstn_length. unfold nnat in *. lia. }
  specialize (H H0).
  destruct (run cs_iter _ _ offs 0 s) as [o e s'| |]; auto.
  destruct H as (p' & r' & i' & ((Hi & H1 & H2 & H3 & H4) & Hio) & Hw).
  rewrite zinit_whole in Hw. apply (f_equal (@length _)) in Hw. rewrite app_length, rev_length in Hw.
  assert (E : i' + nnat (length r') = nnat (length buf)) by (unfold nnat in *; lia).
  rewrite E in *. split; [exact H1|]. split; [exact H2|]. split.
  - intros He. destruct (H3 He). split; [lia|assumption].
  - intros He. destruct (H4 He). split; [lia|assumption].
Qed.
Lemma cseq0_inv o : cs_inv o cseq0. Proof. unfold cs_inv, pf_end. cbn. lia. Qed.

(* ---- first line --------------------------------------------------------------------------------------------------- *)
From Sipsp Require Import Ext ExtLeaf MsgBounds IP4 OkBounds.
Definition fl_inv (o : N) (s : fline) : Prop :=
  pf_end (fl_method s) <= o /\ pf_end (fl_uri s) <= o /\ pf_end (fl_version s) <= o /\
  pf_end (fl_statuscode s) <= o /\ pf_end (fl_reason s) <= o.
Definition fl_Q (rest : list byte) (i o : N) (e : err) (s : fline) : Prop :=
  o <= i + nnat (length rest) /\ fl_inv (i + nnat (length rest)) s /\
  (e = EMore -> i <= o /\ fl_inv o s) /\ (e = EOk -> i <= o /\ fl_inv o s).
Definition fl_res (rest : list byte) (i : N) (r : ires fline) : Prop :=
  match r with Ret o e s' => fl_Q rest i o e s' | _ => False end.
Lemma fl_inv_mono o o' s : o <= o' -> fl_inv o s -> fl_inv o' s.
Proof. unfold fl_inv. intros H (H1 & H2 & H3 & H4 & H5). repeat split; lia. Qed.

(* a result obtained k bytes further on *)
Lemma fl_res_shift rest i k r : (k <= length rest)%nat -> fl_res (skipn k rest) (i + nnat k) r -> fl_res rest i r.
Proof.
  intros Hk. unfold fl_res, fl_Q. destruct r as [|o e s'|]; auto. rewrite skipn_length.
  replace (i + nnat k + nnat (length rest - k)) with (i + nnat (length rest)) by (unfold nnat; lia).
  intros (H1 & H2 & H3 & H4). split; [exact H1|]. split; [exact H2|].
  split; [intros He; destruct (H3 He); split; [unfold nnat in *; lia|assumption]|intros He; destruct (H4 He); split; [unfold nnat in *; lia|assumption]].
Qed.

Ltac fl_fin := unfold fl_res, fl_Q, fl_inv, pf_end in *; cbn -[N.add N.sub nnat length] in *; unfold nnat in *;
               repeat split; auto; intros; try discriminate; try lia.

Lemma fl_crlf_ok rest i s : fl_inv i s -> fl_res rest i (fl_crlf rest i s).
Proof.
  intros Hinv. pose proof Hinv as (H1 & H2 & H3 & H4 & H5). unfold fl_crlf.
  destruct (skipCRLF rest) as [crl| |] eqn:E; [apply skipCRLF_bound in E|..]; destruct s; fl_fin.
Qed.

Lemma span_skipn_len p (rest : list byte) c r : skipn (span p rest) rest = c :: r -> (S (span p rest) <= length rest)%nat.
Proof. intros H. apply skipn_cons_len in H. lia. Qed.

Lemma fl_ver_ok pre rest i s : fl_inv i s -> fl_res rest i (fl_ver pre rest i s).
Proof.
  intros Hinv. pose proof Hinv as (H1 & H2 & H3 & H4 & H5). unfold fl_ver, skipToken. set (k := span _ rest).
  assert (Hk : (k <= length rest)%nat) by apply span_le.
  destruct (skipn k rest) as [|c r] eqn:Es; [destruct s; fl_fin|].
  destruct (negb (is_crlf c)); [destruct s; fl_fin|].
  unfold pf_extend. unfold pf_end in H3. replace (i + nnat k <? po (fl_version s)) with false by (unfold nnat; lia).
  destruct (pf_empty _); [destruct s; fl_fin|].
  rewrite <- Es. apply (fl_res_shift rest i k _ Hk). apply fl_crlf_ok. destruct s; fl_fin.
Qed.

Lemma fl_requri_ok pre rest i s : fl_inv i s -> fl_res rest i (fl_requri pre rest i s).
Proof.
  intros Hinv. pose proof Hinv as (H1 & H2 & H3 & H4 & H5). unfold fl_requri, skipToken. set (k := span _ rest).
  assert (Hk : (k <= length rest)%nat) by apply span_le.
  destruct (skipn k rest) as [|c r] eqn:Es; [destruct s; fl_fin|].
  pose proof (skipn_cons_len _ _ _ _ Es) as Hl.
  destruct (negb (c =? SP)); [destruct s; fl_fin|].
  unfold pf_extend. unfold pf_end in H2. replace (i + nnat k <? po (fl_uri s)) with false by (unfold nnat; lia).
  destruct (pf_empty _); [destruct s; fl_fin|].
  unfold pf_set. rewrite N.ltb_irrefl.
  assert (Er : r = skipn (S k) rest) by (rewrite skipn_S_tl, Es; reflexivity).
  rewrite Er. replace (i + nnat k + 1) with (i + nnat (S k)) by (unfold nnat; lia).
  apply (fl_res_shift rest i (S k)); [lia|]. apply fl_ver_ok. destruct s; fl_fin.
Qed.

Lemma fl_method_ok pre rest i s : fl_inv i s -> fl_res rest i (fl_method_ph pre rest i s).
Proof.
  intros Hinv. pose proof Hinv as (H1 & H2 & H3 & H4 & H5). unfold fl_method_ph, skipToken. set (k := span _ rest).
  assert (Hk : (k <= length rest)%nat) by apply span_le.
  destruct (skipn k rest) as [|c r] eqn:Es; [destruct s; fl_fin|].
  pose proof (skipn_cons_len _ _ _ _ Es) as Hl.
  destruct (negb (c =? SP)); [destruct s; fl_fin|].
  unfold pf_extend. unfold pf_end in H1. replace (i + nnat k <? po (fl_method s)) with false by (unfold nnat; lia).
  destruct (pf_empty _); [destruct s; fl_fin|].
  destruct (zget_some pre rest i (mkpf (po (fl_method s)) (i + nnat k - po (fl_method s)))) as [l ->];
    [unfold pf_end; cbn [po pl]; unfold nnat; lia|].
  unfold pf_set. rewrite N.ltb_irrefl.
  assert (Er : r = skipn (S k) rest) by (rewrite skipn_S_tl, Es; reflexivity).
  rewrite Er. replace (i + nnat k + 1) with (i + nnat (S k)) by (unfold nnat; lia).
  apply (fl_res_shift rest i (S k)); [lia|]. apply fl_requri_ok. destruct s; fl_fin.
Qed.

Lemma fl_reason_ok rest i s : fl_inv i s -> fl_res rest i (fl_reason_ph rest i s).
Proof.
  intros Hinv. pose proof Hinv as (H1 & H2 & H3 & H4 & H5). unfold fl_reason_ph, skipLine. set (k := span _ rest).
  assert (Hk : (k <= length rest)%nat) by apply span_le.
  destruct (skipCRLF (skipn k rest)) as [crl| |] eqn:E; [apply skipCRLF_bound in E; rewrite skipn_length in E|..].
  - unfold pf_extend. unfold pf_end in H5. replace (i + nnat k <? po (fl_reason s)) with false by (unfold nnat; lia).
    destruct s; fl_fin.
  - destruct s; fl_fin.
  - destruct s; fl_fin.
Qed.

Lemma fl_init_ok pre rest i s : fl_inv i s -> fl_res rest i (fl_init pre rest i s).
Proof.
  intros Hinv. pose proof Hinv as (H1 & H2 & H3 & H4 & H5). unfold fl_init.
  destruct (length rest <? length Tables.go_sipVerSP + 6)%nat eqn:El; [destruct s; fl_fin|]. apply Nat.ltb_ge in El.
  change (length Tables.go_sipVerSP) with 8%nat in *.
  destruct (prefix_nocase _ rest).
  - unfold pf_set at 1. replace (i + nnat 8 - 1 <? i) with false by (unfold nnat; lia).
    destruct (skipn 8 rest) as [|a [|b [|c [|d r']]]] eqn:Es;
      try (exfalso; assert (Hlen : length (skipn 8 rest) = (length rest - 8)%nat) by apply skipn_length;
           rewrite Es in Hlen; cbn [length] in Hlen; lia).
    destruct (_ || _); [destruct s; fl_fin|].
    unfold pf_set. replace (i + nnat 8 + 3 <? i + nnat 8) with false by lia. rewrite N.ltb_irrefl.
    assert (Er : r' = skipn 12 rest).
    { change (skipn 12 rest) with (zrest (8 + 4) rest). rewrite <- (zrest_zrest 8 4 rest). unfold zrest. rewrite Es. reflexivity. }
    rewrite Er. replace (i + nnat 8 + 4) with (i + nnat 12) by (unfold nnat; lia).
    apply (fl_res_shift rest i 12); [lia|]. apply fl_reason_ok. destruct s; fl_fin.
  - unfold pf_set. rewrite N.ltb_irrefl. apply fl_method_ok. destruct s; fl_fin.
Qed.

Lemma fl_iter_ok pre rest i s : fl_inv i s -> fl_res rest i (fl_iter pre rest i s).
Proof.
  intros Hinv. unfold fl_iter. destruct (fl_state s) eqn:Est.
  - apply fl_init_ok; exact Hinv.
  - apply fl_method_ok; exact Hinv.
  - apply fl_requri_ok; exact Hinv.
  - apply fl_ver_ok; exact Hinv.
  - pose proof Hinv as (H1 & H2 & H3 & H4 & H5). destruct s; fl_fin.
  - apply fl_reason_ok; exact Hinv.
  - apply fl_crlf_ok; exact Hinv.
  - pose proof Hinv as (H1 & H2 & H3 & H4 & H5). destruct s; fl_fin.
Qed.

Theorem fline_safe buf offs s : offs <= nnat (length buf) -> fl_inv offs s ->
  match parse_fline buf offs s with
  | Done o e s' => o <= nnat (length buf) /\ fl_inv (nnat (length buf)) s' /\ (e = EMore -> offs <= o /\ fl_inv o s') /\ (e = EOk -> offs <= o /\ fl_inv o s')
  | _ => False
  end.
Proof.
  intros Hoffs Hinv. unfold parse_fline, parse. pose proof (zinit_rest_len buf offs Hoffs) as Hl.
  destruct (zinit buf offs) as [pre rest]. cbn [snd] in Hl. rewrite run_after.
  pose proof (fl_iter_ok pre rest offs s Hinv) as H. unfold fl_res, fl_Q in H.
  destruct (fl_iter pre rest offs s) as [|o e s'|]; try contradiction. cbn [after]. rewrite Hl in H. exact H.
Qed.
Lemma fline0_inv o : fl_inv o fline0. Proof. unfold fl_inv, pf_end. cbn. lia. Qed.

(* ---- the name-addr automaton ---------------------------------------------------------------------------------------- *)
(* every saved offset lies at or before the current position; the white space directly before the
   current position does not reach back to the first byte of the parameters (nor, while a bare
   name-or-URI token is being read, exist at all): the back-trimming before a ',' relies on it;
   L is a lower bound for the start of the value (for the callers that extend a field up to it) *)
Definition fb_inv (L : N) (pre : list byte) (o : N) (s : pfrom) : Prop :=
  pf_end (fb_name s) <= o /\ pf_end (fb_uri s) <= o /\ pf_end (fb_tag s) <= o /\ pf_end (fb_params s) <= o /\
  pf_end (fb_v s) <= o /\ fb_soffs s <= o /\ fb_pstart s <= o /\ fb_pend s <= o /\ fb_vstart s <= o /\ fb_vend s <= o /\
  (fb_state s = FbNameOrURI -> span is_ws pre = 0%nat) /\
  (po (fb_params s) <> 0 -> nnat (span is_ws pre) + po (fb_params s) < o) /\
  L <= o /\ (fb_state s <> FbInit -> L <= po (fb_v s)) /\ (po (fb_params s) = 0 -> pl (fb_params s) = 0).

Lemma span_ws_rev_app (a : list byte) : forall pre, (span is_ws (rev a ++ pre) <= length a + span is_ws pre)%nat.
Proof.
  induction a as [|c a IH]; intros pre; cbn [rev app length]; [lia|].
  rewrite <- app_assoc. cbn [app]. specialize (IH (c :: pre)).
  assert (Hc : (span is_ws (c :: pre) <= S (span is_ws pre))%nat) by (cbn [span]; destruct (is_ws c); lia).
  lia.
Qed.
Lemma span_ws_zpre k pre rest : (k <= length rest)%nat -> (span is_ws (zpre k pre rest) <= k + span is_ws pre)%nat.
Proof.
  intros Hk. unfold zpre. pose proof (span_ws_rev_app (firstn k rest) pre) as H. rewrite firstn_length_le in H by exact Hk. exact H.
Qed.

Definition fb_bnd (L : N) (o : N) (s : pfrom) : Prop :=
  pf_end (fb_name s) <= o /\ pf_end (fb_uri s) <= o /\ pf_end (fb_tag s) <= o /\ pf_end (fb_params s) <= o /\
  pf_end (fb_v s) <= o /\ fb_soffs s <= o /\ fb_pstart s <= o /\ fb_pend s <= o /\ fb_vstart s <= o /\ fb_vend s <= o /\
  L <= o /\ (fb_state s <> FbInit -> L <= po (fb_v s)).
Lemma fb_inv_bnd L pre o s : fb_inv L pre o s -> fb_bnd L o s.
Proof. unfold fb_inv, fb_bnd. tauto. Qed.
Lemma fb_bnd_mono L o o' s : o <= o' -> fb_bnd L o s -> fb_bnd L o' s.
Proof. unfold fb_bnd. intros H (H1 & H2 & H3 & H4 & H5 & H6 & H7 & H8 & H9 & H10 & H11 & H12). repeat split; try lia; auto. Qed.

Definition fb_P (L : N) (pre rest : list byte) (i : N) (s : pfrom) : Prop := i = nnat (length pre) /\ fb_inv L pre i s.
Definition fb_Q (L : N) (pre rest : list byte) (i o : N) (e : err) (s : pfrom) : Prop :=
  o <= i + nnat (length rest) /\ fb_bnd L (i + nnat (length rest)) s /\
  (e = EMore -> exists k, (k <= length rest)%nat /\ o = i + nnat k /\ fb_inv L (zpre k pre rest) o s) /\
  (e = EOk \/ e = EMoreValues -> i <= o /\ fb_bnd L o s).
Definition fb_step_res (L : N) (pre rest : list byte) (i : N) (r : ires pfrom) : Prop :=
  match r with
  | Next k s' => (0 < k <= length rest)%nat /\ fb_P L (zpre k pre rest) (zrest k rest) (i + nnat k) s'
  | Ret o e s' => fb_Q L pre rest i o e s'
  | IPanic => False
  end.

Lemma zslice_some pre rest i a b : a <= b -> b <= i + nnat (length rest) -> exists l, zslice pre rest i a b = Some l.
Proof.
  intros H1 H2. unfold zslice, nnat in *. replace ((a <=? b) && (b <=? i + N.of_nat (length rest))) with true by lia. eexists. reflexivity.
Qed.

(* setFromParamVal succeeds; it only moves the tag and clears the saved parameter offsets *)
Lemma setpv_ok L pre rest i0 o s : o <= i0 + nnat (length rest) -> fb_bnd L o s ->
  exists s1, setFromParamVal pre rest i0 s = Some s1 /\ fb_bnd L o s1 /\ fb_state s1 = fb_state s /\
             fb_params s1 = fb_params s /\ fb_v s1 = fb_v s /\ fb_soffs s1 = fb_soffs s.
Proof.
  intros Ho (H1 & H2 & H3 & H4 & H5 & H6 & H7 & H8 & H9 & H10 & H11 & H12). unfold setFromParamVal.
  destruct s as [nm ur tg st lr he ty q ex pa v pe eo sta so ps pd vs ve]; unfold pf_end in *; cbn -[N.add N.sub nnat zslice set_q] in *.
  destruct ((ps <? pd) && (vs <? ve)) eqn:E1.
  - destruct (zslice_some pre rest i0 ps pd) as [name ->]; [lia|lia|].
    destruct (zslice_some pre rest i0 vs ve) as [val ->]; [lia|lia|].
    unfold pf_set. replace (ve <? vs) with false by lia.
    destruct (eqb_nocase name str_tag); [eexists; split; [reflexivity|]; unfold fb_bnd, pf_end; cbn; repeat split; auto; lia|].
    destruct (eqb_nocase name str_expires); [destruct (pUInt64Val val); eexists; split; [reflexivity|]; unfold fb_bnd, pf_end; cbn; repeat split; auto; lia|].
    destruct (eqb_nocase name str_q).
    { eexists. split; [reflexivity|]. unfold set_q. cbn -[N.add N.sub nnat pUInt64Val span].
      repeat match goal with
             | |- context [if ?b then _ else _] => destruct b
             | |- context [let '(_, _) := ?x in _] => destruct x
             | |- context [match ?e with EOk => _ | _ => _ end] => destruct e
             end; unfold fb_bnd, pf_end; cbn; repeat split; auto; lia. }
    destruct (eqb_nocase name str_lr); eexists; (split; [reflexivity|]); unfold fb_bnd, pf_end; cbn; repeat split; auto; lia.
  - destruct ((ps <? pd) && (vs =? ve)) eqn:E2.
    + destruct (zslice_some pre rest i0 ps pd) as [name ->]; [lia|lia|].
      destruct (eqb_nocase name str_lr); eexists; (split; [reflexivity|]); unfold fb_bnd, pf_end; cbn; repeat split; auto; lia.
    + eexists. split; [reflexivity|]. unfold fb_bnd, pf_end; cbn; repeat split; auto; lia.
Qed.

Lemma pf_set_some s i : s <= i -> pf_set s i = Some (mkpf s (i - s)).
Proof. intros H. unfold pf_set. replace (i <? s) with false by lia. reflexivity. Qed.
Lemma pf_extend_some f e : po f <= e -> pf_extend f e = Some (mkpf (po f) (e - po f)).
Proof. intros H. unfold pf_extend. replace (e <? po f) with false by lia. reflexivity. Qed.

Lemma fb_bnd_pend L o s j : fb_bnd L o s -> j <= o -> fb_bnd L o (s <| fb_pend := j |>).
Proof. destruct s. unfold fb_bnd, pf_end. cbn. intros (H1&H2&H3&H4&H5&H6&H7&H8&H9&H10&H11&H12) Hj. repeat split; auto. Qed.
Lemma fb_bnd_vend L o s j : fb_bnd L o s -> j <= o -> fb_bnd L o (s <| fb_vend := j |>).
Proof. destruct s. unfold fb_bnd, pf_end. cbn. intros (H1&H2&H3&H4&H5&H6&H7&H8&H9&H10&H11&H12) Hj. repeat split; auto. Qed.
Lemma fb_bnd_vsve L o s j : fb_bnd L o s -> j <= o -> fb_bnd L o (s <| fb_vstart := j |> <| fb_vend := j |>).
Proof. destruct s. unfold fb_bnd, pf_end. cbn. intros (H1&H2&H3&H4&H5&H6&H7&H8&H9&H10&H11&H12) Hj. repeat split; auto. Qed.

Lemma fb_close_ok L pre rest i0 j s : fb_bnd L i0 s -> j <= i0 -> po (fb_v s) <= j ->
  (po (fb_params s) <> 0 -> po (fb_params s) <= j) -> (fb_state s = FbNameOrURI -> fb_soffs s <= j) ->
  match fb_close pre rest i0 j s with
  | None => False
  | Some None => True
  | Some (Some s1) => fb_bnd L i0 s1 /\ fb_state s <> FbInit /\ po (fb_v s1) = po (fb_v s)
  end.
Proof.
  intros Hb Hj Hv Hp Hs. pose proof Hb as (H1 & H2 & H3 & H4 & H5 & H6 & H7 & H8 & H9 & H10 & H11 & H12).
  unfold fb_close.
  assert (Hext : forall (s' : pfrom) (force : bool), fb_bnd L i0 s' -> fb_params s' = fb_params s -> fb_v s' = fb_v s ->
            fb_state s' <> FbInit ->
            match (match (if force || negb (po (fb_params s') =? 0) then pf_extend (fb_params s') j else Some (fb_params s')),
                         pf_extend (fb_v s') j with
                   | Some p, Some v => Some (Some (s' <| fb_params := p |> <| fb_v := v |>))
                   | _, _ => None end) with
            | None => False | Some None => True
            | Some (Some s1) => fb_bnd L i0 s1 /\ po (fb_v s1) = po (fb_v s) end).
  { intros s' force Hb' Ep Ev Hst. rewrite Ep, Ev. rewrite (pf_extend_some (fb_v s) j Hv).
    pose proof Hb' as (B1 & B2 & B3 & B4 & B5 & B6 & B7 & B8 & B9 & B10 & B11 & B12).
    destruct (force || negb (po (fb_params s) =? 0)) eqn:Ef.
    - rewrite pf_extend_some by (destruct (po (fb_params s) =? 0) eqn:E0; [lia|apply Hp; lia]).
      destruct s'; unfold fb_bnd, pf_end in *; cbn -[N.add N.sub] in *. subst. cbn -[N.add N.sub] in *. repeat split; auto; try lia.
    - destruct s'; unfold fb_bnd, pf_end in *; cbn -[N.add N.sub] in *. subst. cbn -[N.add N.sub] in *. repeat split; auto; try lia. }
  assert (Hset : forall s', fb_bnd L i0 s' -> fb_params s' = fb_params s -> fb_v s' = fb_v s -> fb_state s' = fb_state s ->
            forall force, fb_state s <> FbInit ->
            match (match setFromParamVal pre rest i0 s' with
                   | Some s2 => (match (if force || negb (po (fb_params s2) =? 0) then pf_extend (fb_params s2) j else Some (fb_params s2)),
                                        pf_extend (fb_v s2) j with
                                 | Some p, Some v => Some (Some (s2 <| fb_params := p |> <| fb_v := v |>))
                                 | _, _ => None end)
                   | None => None end) with
            | None => False | Some None => True
            | Some (Some s1) => fb_bnd L i0 s1 /\ po (fb_v s1) = po (fb_v s) end).
  { intros s' Hb' Ep Ev Est force Hni.
    destruct (setpv_ok L pre rest i0 i0 s' ltac:(lia) Hb') as (s2 & -> & Hb2 & E1 & E2 & E3 & E4).
    apply Hext; [exact Hb2|congruence|congruence|congruence]. }
  destruct (fb_state s) eqn:Est; try exact I.
  - (* NameOrURI *)
    rewrite (pf_set_some (fb_soffs s) j) by (apply Hs; reflexivity). rewrite (pf_extend_some (fb_v s) j Hv).
    split; [|split; [discriminate|destruct s; reflexivity]].
    destruct s; unfold fb_bnd, pf_end in *; cbn -[N.add N.sub] in *. repeat split; auto; try lia. intros _. apply H12. subst. discriminate.
  - split; [exact Hb|split; [discriminate|reflexivity]].
  - split; [exact Hb|split; [discriminate|reflexivity]].
  - pose proof (Hext s false Hb eq_refl eq_refl ltac:(rewrite Est; discriminate)) as X.
    destruct (match (if false || _ then _ else _), _ with Some p, Some v => _ | _, _ => None end) as [[s1|]|]; auto. split; [apply X|split; [discriminate|apply X]].
  - (* PossibleParamName *)
    pose proof (Hset (s <| fb_pend := j |>) (fb_bnd_pend L i0 s j Hb Hj)
                  ltac:(destruct s; reflexivity) ltac:(destruct s; reflexivity) ltac:(destruct s; exact Est) false ltac:(discriminate)) as X.
    destruct (setFromParamVal _ _ _ _); [|exact X].
    destruct (match (if false || _ then _ else _), _ with Some p, Some v => _ | _, _ => None end) as [[s1|]|]; auto. split; [apply X|split; [discriminate|apply X]].
  - pose proof (Hset s Hb eq_refl eq_refl Est false ltac:(discriminate)) as X.
    destruct (setFromParamVal _ _ _ _); [|exact X].
    destruct (match (if false || _ then _ else _), _ with Some p, Some v => _ | _, _ => None end) as [[s1|]|]; auto. split; [apply X|split; [discriminate|apply X]].
  - pose proof (Hext s false Hb eq_refl eq_refl ltac:(rewrite Est; discriminate)) as X.
    destruct (match (if false || _ then _ else _), _ with Some p, Some v => _ | _, _ => None end) as [[s1|]|]; auto. split; [apply X|split; [discriminate|apply X]].
  - pose proof (Hset (s <| fb_pend := j |>) (fb_bnd_pend L i0 s j Hb Hj)
                  ltac:(destruct s; reflexivity) ltac:(destruct s; reflexivity) ltac:(destruct s; exact Est) false ltac:(discriminate)) as X.
    destruct (setFromParamVal _ _ _ _); [|exact X].
    destruct (match (if false || _ then _ else _), _ with Some p, Some v => _ | _, _ => None end) as [[s1|]|]; auto. split; [apply X|split; [discriminate|apply X]].
  - pose proof (Hset s Hb eq_refl eq_refl Est false ltac:(discriminate)) as X.
    destruct (setFromParamVal _ _ _ _); [|exact X].
    destruct (match (if false || _ then _ else _), _ with Some p, Some v => _ | _, _ => None end) as [[s1|]|]; auto. split; [apply X|split; [discriminate|apply X]].
  - pose proof (Hset (s <| fb_vstart := j |> <| fb_vend := j |>) (fb_bnd_vsve L i0 s j Hb Hj)
                  ltac:(destruct s; reflexivity) ltac:(destruct s; reflexivity) ltac:(destruct s; exact Est) true ltac:(discriminate)) as X.
    destruct (setFromParamVal _ _ _ _); [|exact X].
    destruct (match (if true || _ then _ else _), _ with Some p, Some v => _ | _, _ => None end) as [[s1|]|]; auto. split; [apply X|split; [discriminate|apply X]].
  - pose proof (Hset (s <| fb_vend := j |>) (fb_bnd_vend L i0 s j Hb Hj)
                  ltac:(destruct s; reflexivity) ltac:(destruct s; reflexivity) ltac:(destruct s; exact Est) true ltac:(discriminate)) as X.
    destruct (setFromParamVal _ _ _ _); [|exact X].
    destruct (match (if true || _ then _ else _), _ with Some p, Some v => _ | _, _ => None end) as [[s1|]|]; auto. split; [apply X|split; [discriminate|apply X]].
  - pose proof (Hset s Hb eq_refl eq_refl Est true ltac:(discriminate)) as X.
    destruct (setFromParamVal _ _ _ _); [|exact X].
    destruct (match (if true || _ then _ else _), _ with Some p, Some v => _ | _, _ => None end) as [[s1|]|]; auto. split; [apply X|split; [discriminate|apply X]].
  - pose proof (Hset (s <| fb_vstart := j |> <| fb_vend := j |>) (fb_bnd_vsve L i0 s j Hb Hj)
                  ltac:(destruct s; reflexivity) ltac:(destruct s; reflexivity) ltac:(destruct s; exact Est) true ltac:(discriminate)) as X.
    destruct (setFromParamVal _ _ _ _); [|exact X].
    destruct (match (if true || _ then _ else _), _ with Some p, Some v => _ | _, _ => None end) as [[s1|]|]; auto. split; [apply X|split; [discriminate|apply X]].
  - pose proof (Hset (s <| fb_vend := j |>) (fb_bnd_vend L i0 s j Hb Hj)
                  ltac:(destruct s; reflexivity) ltac:(destruct s; reflexivity) ltac:(destruct s; exact Est) true ltac:(discriminate)) as X.
    destruct (setFromParamVal _ _ _ _); [|exact X].
    destruct (match (if true || _ then _ else _), _ with Some p, Some v => _ | _, _ => None end) as [[s1|]|]; auto. split; [apply X|split; [discriminate|apply X]].
  - pose proof (Hset s Hb eq_refl eq_refl Est true ltac:(discriminate)) as X.
    destruct (setFromParamVal _ _ _ _); [|exact X].
    destruct (match (if true || _ then _ else _), _ with Some p, Some v => _ | _, _ => None end) as [[s1|]|]; auto. split; [apply X|split; [discriminate|apply X]].
  - (* Star *)
    split; [|split; [discriminate|destruct s; reflexivity]].
    destruct s; unfold fb_bnd, pf_end in *; cbn -[N.add N.sub] in *. repeat split; auto; try lia.
    intros _. apply H12. subst. discriminate.
Qed.

Lemma fb_eoh_ok L h pre rest i0 j ret e s : fb_bnd L i0 s -> j <= i0 -> po (fb_v s) <= j ->
  (po (fb_params s) <> 0 -> po (fb_params s) <= j) -> (fb_state s = FbNameOrURI -> fb_soffs s <= j) ->
  ret <= i0 + nnat (length rest) -> i0 <= ret -> e <> EMore ->
  fb_step_res L pre rest i0 (fb_endOfHdr h pre rest i0 j ret e s).
Proof.
  intros Hb Hj Hv Hp Hs Hr Hr2 He. pose proof (fb_close_ok L pre rest i0 j s Hb Hj Hv Hp Hs) as H.
  unfold fb_endOfHdr. destruct (fb_close pre rest i0 j s) as [[s1|]|]; [|..]; try contradiction.
  - destruct H as (Hb1 & Hni & Hpv).
    assert (Hb2 : fb_bnd L i0 (s1 <| fb_state := FbFIN |> <| fb_soffs := 0 |> <| fb_type := h |>)).
    { destruct s1; unfold fb_bnd, pf_end in *; cbn -[N.add N.sub] in *.
      destruct Hb1 as (H1&H2&H3&H4&H5&H6&H7&H8&H9&H10&H11&H12). repeat split; auto; try lia.
      intros _. destruct Hb as (_&_&_&_&_&_&_&_&_&_&_&G). rewrite Hpv. apply G. exact Hni. }
    unfold fb_step_res, fb_Q. split; [exact Hr|]. split; [apply (fb_bnd_mono L i0); [lia|exact Hb2]|].
    split; [intros E; congruence|intros _; split; [exact Hr2|apply (fb_bnd_mono L i0); [exact Hr2|exact Hb2]]].
  - unfold fb_step_res, fb_Q. split; [exact Hr|]. split; [apply (fb_bnd_mono L i0); [lia|exact Hb]|].
    split; [intros E; destruct (fb_state s); discriminate|intros [E|E]; destruct (fb_state s); discriminate].
Qed.

Lemma fb_inv_adv L pre rest i k s : i = nnat (length pre) -> (k <= length rest)%nat -> fb_inv L pre i s ->
  fb_state s <> FbNameOrURI -> fb_inv L (zpre k pre rest) (i + nnat k) s.
Proof.
  intros Hi Hk (H1&H2&H3&H4&H5&H6&H7&H8&H9&H10&F1&F2&H11&H12&F3) Hst. pose proof (span_ws_zpre k pre rest Hk) as Hsp.
  unfold fb_inv. unfold nnat in *. repeat split; try lia; auto; try (intros Hp; specialize (F2 Hp); lia). intros E; contradiction.
Qed.

(* one step over a byte that is not white space *)
Lemma fb_next1 L pre c r i s' : i = nnat (length pre) -> is_ws c = false -> fb_bnd L (i + 1) s' ->
  (po (fb_params s') <> 0 -> po (fb_params s') <= i) -> (po (fb_params s') = 0 -> pl (fb_params s') = 0) ->
  (0 < 1 <= length (c :: r))%nat /\ fb_P L (zpre 1 pre (c :: r)) (zrest 1 (c :: r)) (i + nnat 1) s'.
Proof.
  intros Hi Hc (H1&H2&H3&H4&H5&H6&H7&H8&H9&H10&H11&H12) Hp Hp3. split; [cbn [length]; lia|].
  unfold fb_P, zpre. cbn [firstn rev app length]. split; [unfold nnat in *; cbn [length]; lia|].
  unfold fb_inv. cbn [span]. rewrite Hc. replace (i + nnat 1) with (i + 1) by (unfold nnat; lia).
  repeat split; auto; intros Hq; try (specialize (Hp Hq); unfold nnat; lia).
Qed.

Lemma fb_lws_ok L h pre c r i s1 : is_ws c = true -> i = nnat (length pre) -> fb_inv L pre i s1 -> fb_state s1 <> FbNameOrURI ->
  fb_step_res L pre (c :: r) i (fb_lws h pre (c :: r) i s1).
Proof.
  intros Hws Hi Hinv Hst. unfold fb_lws. pose proof (skipLWS_bounds false (c :: r)) as Hb.
  pose proof Hinv as (H1&H2&H3&H4&H5&H6&H7&H8&H9&H10&F1&F2&H11&H12&F3). unfold pf_end in *.
  destruct (skipLWS false (c :: r)) as [k|k crl|k] eqn:El.
  - apply skipLWS_ws_progress in El; [|exact Hws]. split; [lia|]. split; [unfold nnat in *; rewrite zpre_length by lia; lia|].
    apply fb_inv_adv; auto. 
  - apply skipLWS_crl in El.
    apply (fb_eoh_ok L h pre (c :: r) i i (i + nnat k + nnat crl) EOk s1 (fb_inv_bnd L pre i s1 Hinv)); [lia|lia|intros; lia|intros; lia|unfold nnat; lia|unfold nnat; lia|discriminate].
  - unfold fb_step_res, fb_Q. split; [unfold nnat; lia|]. split; [apply (fb_bnd_mono L i); [lia|apply (fb_inv_bnd L pre); exact Hinv]|].
    split; [|intros [E|E]; discriminate]. intros _. exists k. split; [exact Hb|]. split; [reflexivity|]. apply fb_inv_adv; auto.
Qed.

Lemma fb_lws_b_ok L h pre c r i s upd : is_ws c = true -> i = nnat (length pre) -> fb_inv L pre i s ->
  (forall n, fb_state (upd n) <> FbNameOrURI) ->
  (forall k, fb_inv L pre i (upd None) /\ (forall o, i <= o -> fb_bnd L o (upd (Some o))) /\
             fb_params (upd (Some k)) = fb_params s /\ (fb_state (upd (Some k)) <> FbInit -> L <= po (fb_v (upd (Some k))))) ->
  fb_step_res L pre (c :: r) i (fb_lws_b h pre (c :: r) i s upd).
Proof.
  intros Hws Hi Hinv Hst Hupd. unfold fb_lws_b. pose proof (skipLWS_bounds false (c :: r)) as Hb.
  pose proof Hinv as (H1&H2&H3&H4&H5&H6&H7&H8&H9&H10&F1&F2&H11&H12&F3). unfold pf_end in *.
  destruct (skipLWS false (c :: r)) as [k|k crl|k] eqn:El.
  - apply skipLWS_ws_progress in El; [|exact Hws]. split; [lia|]. split; [unfold nnat in *; rewrite zpre_length by lia; lia|].
    destruct (Hupd (i + nnat k)) as (_ & U2 & U3 & U4). specialize (U2 (i + nnat k) ltac:(unfold nnat; lia)).
    destruct U2 as (B1&B2&B3&B4&B5&B6&B7&B8&B9&B10&B11&B12). pose proof (span_ws_zpre k pre (c :: r) Hb) as Hsp.
    unfold fb_inv. repeat split; auto; try (intros E; exfalso; exact (Hst _ E)); rewrite U3; [intros Hp; specialize (F2 Hp); unfold nnat in *; lia|exact F3].
  - apply skipLWS_crl in El. destruct (Hupd 0) as (U1 & _). pose proof U1 as (G1&G2&G3&G4&G5&G6&G7&G8&G9&G10&GF1&GF2&G11&G12&GF3). unfold pf_end in *.
    apply (fb_eoh_ok L h pre (c :: r) i i (i + nnat k + nnat crl) EOk (upd None) (fb_inv_bnd L pre i _ U1)); [lia|lia|intros; lia|intros; lia|unfold nnat; lia|unfold nnat; lia|discriminate].
  - unfold fb_step_res, fb_Q. split; [unfold nnat; lia|]. split; [apply (fb_bnd_mono L i); [lia|apply (fb_inv_bnd L pre); exact Hinv]|].
    split; [|intros [E|E]; discriminate]. intros _. exists 0%nat. split; [lia|]. split; [unfold nnat; lia|].
    replace (i + nnat 0) with i by (unfold nnat; lia). exact Hinv.
Qed.

Lemma fb_mv_ok L h pre c r i s : is_ws c = false -> i = nnat (length pre) -> fb_inv L pre i s ->
  fb_step_res L pre (c :: r) i (fb_moreValues h pre (c :: r) i s).
Proof.
  intros Hc Hi Hinv. unfold fb_moreValues.
  pose proof Hinv as (H1&H2&H3&H4&H5&H6&H7&H8&H9&H10&F1&F2&H11&H12&F3). unfold pf_end in *.
  set (t := N.min (nnat (span is_ws pre)) (i - po (fb_v s))).
  apply fb_eoh_ok; try discriminate.
  - apply (fb_inv_bnd L pre); exact Hinv.
  - lia.
  - subst t. lia.
  - intros Hp. specialize (F2 Hp). subst t. lia.
  - intros Hs. specialize (F1 Hs). subst t. rewrite F1. unfold nnat. cbn. lia.
  - unfold nnat. cbn [length]. lia.
  - lia.
Qed.

Lemma ccls_ws c : is_ws c = true -> ccls_of c = KWs.
Proof. unfold ccls_of. intros ->. reflexivity. Qed.
Lemma ccls_nows c : ccls_of c <> KWs -> is_ws c = false.
Proof. unfold ccls_of. destruct (is_ws c); [congruence|reflexivity]. Qed.
Lemma ccls_nows' c : is_ws c = false -> ccls_of c <> KWs.
Proof. unfold ccls_of. intros ->. repeat match goal with |- context [if ?b then _ else _] => destruct b end; discriminate. Qed.

Lemma fb_setpv_ok L pre c r i s' : i = nnat (length pre) -> is_ws c = false -> fb_bnd L i s' ->
  (po (fb_params s') = 0 -> pl (fb_params s') = 0) ->
  fb_step_res L pre (c :: r) i (fb_setpv pre (c :: r) i s').
Proof.
  intros Hi Hc Hb Hp3. unfold fb_setpv.
  destruct (setpv_ok L pre (c :: r) i i s' ltac:(lia) Hb) as (s1 & -> & Hb1 & E1 & E2 & E3 & E4).
  apply fb_next1; [exact Hi|exact Hc|apply (fb_bnd_mono L i); [lia|exact Hb1]| |rewrite E2; exact Hp3].
  intros _. rewrite E2. destruct Hb as (_&_&_&H4&_). unfold pf_end in H4. lia.
Qed.

Lemma fb_ret_ok L pre rest i e s : fb_bnd L i s -> e <> EMore -> fb_step_res L pre rest i (Ret i e s).
Proof.
  intros Hb He. unfold fb_step_res, fb_Q. split; [lia|]. split; [apply (fb_bnd_mono L i); [lia|exact Hb]|].
  split; [intros E; congruence|intros _; split; [lia|exact Hb]].
Qed.

(* the tactic for "one byte further, these fields changed" *)
Ltac fb_n1 Hi Hc :=
  apply fb_next1; [exact Hi|exact Hc| | |];
  [unfold fb_bnd, fb_inv, pf_end in *; cbn -[N.add N.sub] in *; repeat split; intros; try lia; try tauto; try discriminate;
   try (match goal with Hx : _ -> ?G |- ?G => apply Hx; discriminate end)
  |unfold fb_bnd, fb_inv, pf_end in *; cbn -[N.add N.sub] in *; intros; try lia
  |unfold fb_bnd, fb_inv, pf_end in *; cbn -[N.add N.sub] in *; intros; try lia; try tauto].

Section FbStep.
  Variables (L h : N) (pre : list byte) (c : byte) (r1 : list byte) (i : N).
  Hypothesis Hi : i = nnat (length pre).
  Notation rest := (c :: r1).

  Ltac unpack s Hinv :=
    destruct s as [nm ur tg star lr he ty q ex pa v pe eo sta so ps pd vs ve];
    pose proof Hinv as (H1&H2&H3&H4&H5&H6&H7&H8&H9&H10&F1&F2&H11&H12&F3);
    unfold pf_end in H1, H2, H3, H4, H5; cbn -[N.add N.sub] in H1, H2, H3, H4, H5, H6, H7, H8, H9, H10, F1, F2, H11, H12, F3.

  Lemma gURI_ok s k : fb_inv L pre i s -> fb_state s = FbURI -> (k = KWs <-> is_ws c = true) ->
    fb_step_res L pre rest i (fb_gURI i s k).
  Proof.
    intros Hinv Est Hk. unpack s Hinv. cbn in Est. subst sta. unfold fb_gURI, fb_bad.
    destruct k; try (apply fb_ret_ok; [apply (fb_inv_bnd L pre); exact Hinv|discriminate]).
    all: assert (Hc : is_ws c = false) by (destruct (is_ws c); [destruct Hk as [_ Hk]; specialize (Hk eq_refl); discriminate|reflexivity]).
    all: cbn -[N.add N.sub].
    all: rewrite ?(pf_set_some so i), ?(pf_extend_some v (i + 1)) by (cbn; lia).
    all: fb_n1 Hi Hc.
  Qed.

  Ltac kcase Hk :=
    match goal with
    | |- context [KWs] => idtac
    | _ => idtac
    end.

  Lemma not_ws_of k : (k = KWs <-> is_ws c = true) -> k <> KWs -> is_ws c = false.
  Proof. intros Hk Hn. destruct (is_ws c); [exfalso; apply Hn; apply Hk; reflexivity|reflexivity]. Qed.

  Lemma comma_ok s : is_ws c = false -> fb_inv L pre i s -> fb_step_res L pre rest i (fb_comma h pre rest i s).
  Proof.
    intros Hc Hinv. unfold fb_comma. destruct (multipleValsOk h); [apply fb_mv_ok; assumption|].
    unpack s Hinv. fb_n1 Hi Hc.
  Qed.
  Lemma comma_strict_ok s : is_ws c = false -> fb_inv L pre i s -> fb_step_res L pre rest i (fb_comma_strict h pre rest i s).
  Proof.
    intros Hc Hinv. unfold fb_comma_strict, fb_bad. destruct (multipleValsOk h); [apply fb_mv_ok; assumption|].
    apply fb_ret_ok; [apply (fb_inv_bnd L pre); exact Hinv|discriminate].
  Qed.

  Lemma gURIFound_ok s k : fb_inv L pre i s -> fb_state s = FbURIFound -> (k = KWs <-> is_ws c = true) ->
    fb_step_res L pre rest i (fb_gURIFound h pre rest i s k).
  Proof.
    intros Hinv Est Hk. unfold fb_gURIFound.
    destruct k; try (pose proof (not_ws_of _ Hk ltac:(discriminate)) as Hc).
    - apply fb_lws_ok; [apply Hk; reflexivity|exact Hi|exact Hinv|rewrite Est; discriminate].
    - apply comma_ok; assumption.
    - unpack s Hinv; cbn in Est; subst sta; fb_n1 Hi Hc.
    - unpack s Hinv; cbn in Est; subst sta; fb_n1 Hi Hc.
    - unpack s Hinv; cbn in Est; subst sta; fb_n1 Hi Hc.
    - unpack s Hinv; cbn in Est; subst sta; fb_n1 Hi Hc.
    - unpack s Hinv; cbn in Est; subst sta; fb_n1 Hi Hc.
    - unpack s Hinv; cbn in Est; subst sta; fb_n1 Hi Hc.
    - unpack s Hinv; cbn in Est; subst sta; fb_n1 Hi Hc.
    - unpack s Hinv; cbn in Est; subst sta; fb_n1 Hi Hc.
  Qed.

  Lemma gStar_ok s k : fb_inv L pre i s -> fb_state s = FbStar -> (k = KWs <-> is_ws c = true) ->
    fb_step_res L pre rest i (fb_gStar h pre rest i s k).
  Proof.
    intros Hinv Est Hk. unfold fb_gStar, fb_bad.
    destruct k; try (apply fb_ret_ok; [apply (fb_inv_bnd L pre); exact Hinv|discriminate]).
    apply fb_lws_ok; [apply Hk; reflexivity|exact Hi|exact Hinv|rewrite Est; discriminate].
  Qed.

  Lemma gQ_ok s st k : fb_inv L pre i s -> fb_state s = st -> st = FbQuoted \/ st = FbQuotedVal \/ st = FbQuotedPossibleVal ->
    (k = KWs <-> is_ws c = true) -> fb_step_res L pre rest i (fb_gQ h pre rest r1 i s st k).
  Proof.
    intros Hinv Est Hst Hk. unfold fb_gQ.
    assert (Hnn : fb_state s <> FbNameOrURI) by (rewrite Est; destruct Hst as [->|[->| ->]]; discriminate).
    destruct k; try (pose proof (not_ws_of _ Hk ltac:(discriminate)) as Hc).
    - apply fb_lws_ok; [apply Hk; reflexivity|exact Hi|exact Hinv|exact Hnn].
    - unpack s Hinv; cbn in Est; subst sta; fb_n1 Hi Hc.
    - unpack s Hinv; cbn in Est; subst sta; fb_n1 Hi Hc.
    - unpack s Hinv; cbn in Est; subst sta; fb_n1 Hi Hc.
    - unpack s Hinv; cbn in Est; subst sta; destruct Hst as [->|[->| ->]]; fb_n1 Hi Hc.
    - unpack s Hinv; cbn in Est; subst sta; fb_n1 Hi Hc.
    - unpack s Hinv; cbn in Est; subst sta; fb_n1 Hi Hc.
    - unpack s Hinv; cbn in Est; subst sta; fb_n1 Hi Hc.
    - (* backslash *)
      destruct r1 as [|d r2].
      + unfold fb_step_res, fb_Q. split; [unfold nnat; lia|]. split; [apply (fb_bnd_mono L i); [lia|apply (fb_inv_bnd L pre); exact Hinv]|].
        split; [|intros [E|E]; discriminate]. intros _. exists 0%nat. split; [lia|]. split; [unfold nnat; lia|].
        replace (i + nnat 0) with i by (unfold nnat; lia). exact Hinv.
      + destruct (is_crlf d).
        * unfold fb_step_res, fb_Q. split; [unfold nnat; cbn [length]; lia|]. split; [apply (fb_bnd_mono L i); [lia|apply (fb_inv_bnd L pre); exact Hinv]|].
          split; [intros E; discriminate|intros [E|E]; discriminate].
        * split; [cbn [length]; lia|]. split; [unfold nnat in *; rewrite zpre_length by (cbn [length]; lia); lia|].
          apply fb_inv_adv; [exact Hi|cbn [length]; lia|exact Hinv|exact Hnn].
    - unpack s Hinv; cbn in Est; subst sta; fb_n1 Hi Hc.
  Qed.

  Ltac bad_ret Hinv := unfold fb_bad; apply fb_ret_ok; [apply (fb_inv_bnd L pre); exact Hinv|discriminate].

  Lemma setpv_step s s' : is_ws c = false -> fb_inv L pre i s -> fb_bnd L i s' -> fb_params s' = fb_params s ->
    fb_step_res L pre rest i (fb_setpv pre rest i s').
  Proof.
    intros Hc Hinv Hb Ep. apply fb_setpv_ok; [exact Hi|exact Hc|exact Hb|]. rewrite Ep.
    destruct Hinv as (_&_&_&_&_&_&_&_&_&_&_&_&_&_&F3). exact F3.
  Qed.

  Lemma gPE_ok s st k : fb_inv L pre i s -> fb_state s = st -> st = FbParamNameEnd \/ st = FbPossibleParamNameEnd ->
    (k = KWs <-> is_ws c = true) -> fb_step_res L pre rest i (fb_gPE h pre rest i s st k).
  Proof.
    intros Hinv Est Hst Hk. unfold fb_gPE.
    destruct k; try (pose proof (not_ws_of _ Hk ltac:(discriminate)) as Hc); try (bad_ret Hinv).
    - apply comma_strict_ok; assumption.
    - apply (setpv_step s); [exact Hc|exact Hinv| |destruct s; reflexivity].
      unpack s Hinv. unfold fb_bnd, pf_end. cbn -[N.add N.sub]. repeat split; auto; intros; try lia. apply H12. cbn in Est. subst. destruct Hst as [->| ->]; discriminate.
    - unpack s Hinv; cbn in Est; subst sta; destruct Hst as [->| ->]; fb_n1 Hi Hc.
  Qed.

  Lemma gVE_ok s st k : fb_inv L pre i s -> fb_state s = st -> st = FbParamValEnd \/ st = FbPossibleValEnd ->
    (k = KWs <-> is_ws c = true) -> fb_step_res L pre rest i (fb_gVE h pre rest i s st k).
  Proof.
    intros Hinv Est Hst Hk. unfold fb_gVE.
    destruct k; try (pose proof (not_ws_of _ Hk ltac:(discriminate)) as Hc); try (bad_ret Hinv).
    - apply comma_strict_ok; assumption.
    - apply (setpv_step s); [exact Hc|exact Hinv| |destruct s; reflexivity].
      unpack s Hinv. unfold fb_bnd, pf_end. cbn -[N.add N.sub]. repeat split; auto; intros; try lia. apply H12. cbn in Est. subst. destruct Hst as [->| ->]; discriminate.
  Qed.

  Ltac inv_goal := unfold fb_inv, fb_bnd, pf_end in *; cbn -[N.add N.sub] in *; repeat split; intros; try lia; try tauto; try discriminate;
                   try (match goal with Hx : _ -> ?G |- ?G => apply Hx; discriminate end).

  Lemma gP_ok s st k : fb_inv L pre i s -> fb_state s = st ->
    st = FbNewParam \/ st = FbNewPossibleParam \/ st = FbParamName \/ st = FbPossibleParamName ->
    (k = KWs <-> is_ws c = true) -> fb_step_res L pre rest i (fb_gP h pre rest i s st k).
  Proof.
    intros Hinv Est Hst Hk. unfold fb_gP.
    destruct k; try (pose proof (not_ws_of _ Hk ltac:(discriminate)) as Hc).
    - (* white space *)
      apply fb_lws_b_ok; [apply Hk; reflexivity|exact Hi|exact Hinv| |].
      + intros n. unpack s Hinv. cbn in Est. subst sta. destruct Hst as [->|[->|[->| ->]]]; cbn; discriminate.
      + intros k0. unpack s Hinv. cbn in Est. subst sta. destruct Hst as [->|[->|[->| ->]]]; cbn -[N.add N.sub]; inv_goal.
    - apply comma_ok; assumption.
    - bad_ret Hinv.
    - bad_ret Hinv.
    - unpack s Hinv; cbn in Est; subst sta; destruct Hst as [->|[->|[->| ->]]]; cbn -[N.add N.sub]; destruct (po pa =? 0) eqn:E0; fb_n1 Hi Hc.
    - (* ';' *)
      destruct (is_st_name st) eqn:En.
      + apply (setpv_step s); [exact Hc|exact Hinv| |destruct s; reflexivity].
        unpack s Hinv. cbn in Est. subst sta. destruct Hst as [->|[->|[->| ->]]]; cbn -[N.add N.sub] in *; try discriminate; inv_goal.
      + unpack s Hinv; cbn in Est; subst sta; fb_n1 Hi Hc.
    - unpack s Hinv; cbn in Est; subst sta; destruct Hst as [->|[->|[->| ->]]]; cbn -[N.add N.sub]; destruct (po pa =? 0) eqn:E0; fb_n1 Hi Hc.
    - (* '=' *)
      destruct (is_st_name st) eqn:En; [|bad_ret Hinv].
      unpack s Hinv; cbn in Est; subst sta; destruct Hst as [->|[->|[->| ->]]]; cbn -[N.add N.sub] in *; try discriminate; fb_n1 Hi Hc.
    - unpack s Hinv; cbn in Est; subst sta; destruct Hst as [->|[->|[->| ->]]]; cbn -[N.add N.sub]; destruct (po pa =? 0) eqn:E0; fb_n1 Hi Hc.
    - unpack s Hinv; cbn in Est; subst sta; destruct Hst as [->|[->|[->| ->]]]; cbn -[N.add N.sub]; destruct (po pa =? 0) eqn:E0; fb_n1 Hi Hc.
  Qed.

  Lemma gV_ok s st k : fb_inv L pre i s -> fb_state s = st ->
    st = FbNewParamVal \/ st = FbNewPossibleVal \/ st = FbParamVal \/ st = FbPossibleVal ->
    (k = KWs <-> is_ws c = true) -> fb_step_res L pre rest i (fb_gV h pre rest i s st k).
  Proof.
    intros Hinv Est Hst Hk. unfold fb_gV.
    destruct k; try (pose proof (not_ws_of _ Hk ltac:(discriminate)) as Hc).
    - apply fb_lws_b_ok; [apply Hk; reflexivity|exact Hi|exact Hinv| |].
      + intros n. unpack s Hinv. cbn in Est. subst sta. destruct Hst as [->|[->|[->| ->]]]; cbn; try destruct n; cbn; discriminate.
      + intros k0. unpack s Hinv. cbn in Est. subst sta. destruct Hst as [->|[->|[->| ->]]]; cbn -[N.add N.sub]; inv_goal.
    - apply comma_ok; assumption.
    - bad_ret Hinv.
    - bad_ret Hinv.
    - unpack s Hinv; cbn in Est; subst sta; destruct Hst as [->|[->|[->| ->]]]; cbn -[N.add N.sub]; fb_n1 Hi Hc.
    - apply (setpv_step s); [exact Hc|exact Hinv| |destruct s; reflexivity].
      unpack s Hinv. cbn in Est. subst sta. destruct Hst as [->|[->|[->| ->]]]; cbn -[N.add N.sub] in *; inv_goal.
    - unpack s Hinv; cbn in Est; subst sta; destruct Hst as [->|[->|[->| ->]]]; cbn -[N.add N.sub]; fb_n1 Hi Hc.
    - bad_ret Hinv.
    - unpack s Hinv; cbn in Est; subst sta; destruct Hst as [->|[->|[->| ->]]]; cbn -[N.add N.sub]; fb_n1 Hi Hc.
    - unpack s Hinv; cbn in Est; subst sta; destruct Hst as [->|[->|[->| ->]]]; cbn -[N.add N.sub]; fb_n1 Hi Hc.
  Qed.

  Lemma gA_ok s st k : fb_inv L pre i s -> fb_state s = st ->
    st = FbInit \/ st = FbName \/ st = FbNameOrURI \/ st = FbNameOrURIEnd ->
    (k = KWs <-> is_ws c = true) -> fb_step_res L pre rest i (fb_gA h pre rest i s st k).
  Proof.
    intros Hinv Est Hst Hk. unfold fb_gA, fb_reset3.
    destruct k; try (pose proof (not_ws_of _ Hk ltac:(discriminate)) as Hc).
    - (* white space *)
      destruct (is_st_nameoruri st) eqn:En.
      + assert (E : st = FbNameOrURI) by (destruct Hst as [->|[->|[->| ->]]]; cbn in En; try discriminate; reflexivity).
        unpack s Hinv. cbn in Est. subst sta st. cbn -[N.add N.sub].
        rewrite (pf_set_some so i) by lia. rewrite (pf_extend_some v i) by (cbn; lia).
        apply fb_lws_ok; [apply Hk; reflexivity|exact Hi| |cbn; discriminate]. inv_goal.
      + apply fb_lws_ok; [apply Hk; reflexivity|exact Hi|exact Hinv|].
        rewrite Est. destruct Hst as [->|[->|[->| ->]]]; cbn in En; discriminate.
    - apply comma_ok; assumption.
    - (* '<' *)
      unpack s Hinv; cbn in Est; subst sta; destruct Hst as [->|[->|[->| ->]]]; cbn -[N.add N.sub];
        rewrite ?(pf_set_some i i), ?(pf_set_some so i) by lia; fb_n1 Hi Hc.
    - bad_ret Hinv.
    - (* dquote *)
      unpack s Hinv; cbn in Est; subst sta; destruct Hst as [->|[->|[->| ->]]]; cbn -[N.add N.sub];
        rewrite ?(pf_set_some i i) by lia; fb_n1 Hi Hc.
    - (* ';' *)
      unpack s Hinv; cbn in Est; subst sta; destruct Hst as [->|[->|[->| ->]]]; cbn -[N.add N.sub];
        rewrite ?(pf_set_some so i), ?(pf_extend_some v (i + 1)) by (cbn; lia);
        first [fb_n1 Hi Hc | unfold fb_bad; apply fb_ret_ok; [inv_goal|discriminate]].
    - (* star *)
      unpack s Hinv; cbn in Est; subst sta; destruct Hst as [->|[->|[->| ->]]]; cbn -[N.add N.sub];
        rewrite ?(pf_set_some i (i + 1)) by lia; fb_n1 Hi Hc.
    - unpack s Hinv; cbn in Est; subst sta; destruct Hst as [->|[->|[->| ->]]]; cbn -[N.add N.sub];
        rewrite ?(pf_set_some i i) by lia; fb_n1 Hi Hc.
    - unpack s Hinv; cbn in Est; subst sta; destruct Hst as [->|[->|[->| ->]]]; cbn -[N.add N.sub];
        rewrite ?(pf_set_some i i) by lia; fb_n1 Hi Hc.
    - unpack s Hinv; cbn in Est; subst sta; destruct Hst as [->|[->|[->| ->]]]; cbn -[N.add N.sub];
        rewrite ?(pf_set_some i i) by lia; fb_n1 Hi Hc.
  Qed.
End FbStep.

Lemma fb_step_ok L h pre rest i s : fb_P L pre rest i s -> fb_step_res L pre rest i (fb_iter h pre rest i s).
Proof.
  intros [Hi Hinv]. unfold fb_iter.
  assert (Hfin : fb_step_res L pre rest i (Ret i EOk s)) by (apply fb_ret_ok; [apply (fb_inv_bnd L pre); exact Hinv|discriminate]).
  destruct (fb_state s) eqn:Est; try exact Hfin.
  all: destruct rest as [|c r1];
    [unfold fb_step_res, fb_Q; split; [unfold nnat; cbn; lia|]; split; [apply (fb_bnd_mono L i); [lia|apply (fb_inv_bnd L pre); exact Hinv]|];
     split; [|intros [E|E]; discriminate]; intros _; exists 0%nat; split; [lia|]; split; [unfold nnat; lia|];
     replace (i + nnat 0) with i by (unfold nnat; lia); exact Hinv|].
  all: assert (Hk : ccls_of c = KWs <-> is_ws c = true)
         by (split; [intros E; destruct (is_ws c) eqn:Ew; [reflexivity|exfalso; exact (ccls_nows' c Ew E)]|apply ccls_ws]).
  all: unfold fb_step.
  - apply (gA_ok L h pre c r1 i Hi s FbInit); auto.
  - apply (gA_ok L h pre c r1 i Hi s FbNameOrURI); auto.
  - apply (gA_ok L h pre c r1 i Hi s FbNameOrURIEnd); auto 6.
  - apply (gA_ok L h pre c r1 i Hi s FbName); auto.
  - apply (gQ_ok L h pre c r1 i Hi s FbQuoted); auto.
  - apply (gURI_ok L pre c r1 i Hi s); auto.
  - apply (gURIFound_ok L h pre c r1 i Hi s); auto.
  - apply (gP_ok L h pre c r1 i Hi s FbNewPossibleParam); auto.
  - apply (gP_ok L h pre c r1 i Hi s FbPossibleParamName); auto 6.
  - apply (gPE_ok L h pre c r1 i Hi s FbPossibleParamNameEnd); auto.
  - apply (gP_ok L h pre c r1 i Hi s FbNewParam); auto.
  - apply (gP_ok L h pre c r1 i Hi s FbParamName); auto 6.
  - apply (gPE_ok L h pre c r1 i Hi s FbParamNameEnd); auto.
  - apply (gV_ok L h pre c r1 i Hi s FbNewParamVal); auto.
  - apply (gV_ok L h pre c r1 i Hi s FbParamVal); auto 6.
  - apply (gVE_ok L h pre c r1 i Hi s FbParamValEnd); auto.
  - apply (gV_ok L h pre c r1 i Hi s FbNewPossibleVal); auto.
  - apply (gV_ok L h pre c r1 i Hi s FbPossibleVal); auto 6.
  - apply (gVE_ok L h pre c r1 i Hi s FbPossibleValEnd); auto.
  - apply (gQ_ok L h pre c r1 i Hi s FbQuotedVal); auto.
  - apply (gQ_ok L h pre c r1 i Hi s FbQuotedPossibleVal); auto 6.
  - apply (gStar_ok L h pre c r1 i Hi s); auto.
Qed.

Lemma zpre_whole_prefix (p' r' : list byte) k buf : rev p' ++ r' = buf -> (k <= length r')%nat ->
  zpre k p' r' = rev (firstn (length p' + k) buf).
Proof.
  intros <- Hk. unfold zpre. rewrite firstn_app, rev_length.
  replace (length p' + k - length p')%nat with k by lia.
  assert (Hl : (length (rev p') <= length p' + k)%nat) by (rewrite rev_length; lia).
  rewrite (firstn_all2 (rev p') Hl). rewrite rev_app_distr, rev_involutive. reflexivity.
Qed.

Theorem nameaddr_safe L h buf offs s : offs <= nnat (length buf) ->
  fb_inv L (rev (firstn (N.to_nat offs) buf)) offs s ->
  match parse_nameaddr h buf offs s with
  | Done o e s' => o <= nnat (length buf) /\ fb_bnd L (nnat (length buf)) s' /\
                   (e = EMore -> offs <= o /\ fb_inv L (rev (firstn (N.to_nat o) buf)) o s') /\
                   (e = EOk \/ e = EMoreValues -> offs <= o /\ fb_bnd L o s')
  | _ => False
  end.
Proof.
  intros Hoffs Hinv. unfold parse_nameaddr, parse, zinit.
  pose proof (run_safe (fb_iter h) (fun pre rest i s => fb_P L pre rest i s /\ offs <= i)
                (fun pre rest i o e s => fb_Q L pre rest i o e s /\ offs <= i /\ i = nnat (length pre))) as H.
  assert (G : forall pre rest i s0, fb_P L pre rest i s0 /\ offs <= i ->
            match fb_iter h pre rest i s0 with
            | Next k s' => (0 < k <= length rest)%nat /\ (fb_P L (zpre k pre rest) (zrest k rest) (i + nnat k) s' /\ offs <= i + nnat k)
            | Ret o e s' => fb_Q L pre rest i o e s' /\ offs <= i /\ i = nnat (length pre)
            | IPanic => False end).
  { intros pre rest i s0 [HP Ho]. pose proof (fb_step_ok L h pre rest i s0 HP) as X. unfold fb_step_res in X.
    destruct (fb_iter h pre rest i s0); auto.
    - destruct X as [X1 X2]. split; [exact X1|]. split; [exact X2|unfold nnat; lia].
    - split; [exact X|]. split; [exact Ho|apply HP]. }
  specialize (H G (skipn (N.to_nat offs) buf) (rev (firstn (N.to_nat offs) buf)) offs s).
  assert (H0 : fb_P L (rev (firstn (N.to_nat offs) buf)) (skipn (N.to_nat offs) buf) offs s /\ offs <= offs).
  { split; [|lia]. split; [|exact Hinv]. rewrite rev_length, firstn_length. unfold nnat in *. lia. }
  specialize (H H0).
  destruct (run (fb_iter h) _ _ offs 0 s) as [o e s'| |]; auto.
  destruct H as (p' & r' & i' & ((H1 & H2 & H3 & H4) & Hio & Hi') & Hw).
  rewrite zinit_whole in Hw. pose proof Hw as Hw2. apply (f_equal (@length _)) in Hw2. rewrite app_length, rev_length in Hw2.
  assert (E : i' + nnat (length r') = nnat (length buf)) by (unfold nnat in *; lia).
  rewrite E in *. split; [exact H1|]. split; [exact H2|]. split.
  - intros He. destruct (H3 He) as (k & Hk & Ho & Hinv'). split; [unfold nnat in *; lia|].
    rewrite (zpre_whole_prefix p' r' k buf Hw Hk) in Hinv'.
    replace (N.to_nat o) with (length p' + k)%nat by (unfold nnat in *; lia). exact Hinv'.
  - intros He. destruct (H4 He). split; [lia|assumption].
Qed.
Lemma pfrom0_inv L pre o : L <= o -> fb_inv L pre o pfrom0.
Proof. intros H. unfold fb_inv, pf_end. cbn. repeat split; auto; try lia; try discriminate; intros; congruence. Qed.

(* ---- an inner parser run at the zipper of an outer iteration ------------------------------------------------------- *)
Lemma run_as_parse {St} (iter : list byte -> list byte -> N -> St -> ires St) pre rest i s :
  i = nnat (length pre) -> run iter pre rest i 0 s = parse iter (rev pre ++ rest) i s.
Proof.
  intros Hi. unfold parse, zinit. subst i. unfold nnat. rewrite Nat2N.id.
  rewrite firstn_app, rev_length, Nat.sub_diag. cbn [firstn]. rewrite app_nil_r.
  rewrite firstn_all2 by (rewrite rev_length; lia). rewrite rev_involutive.
  rewrite skipn_app, rev_length, Nat.sub_diag. cbn [skipn]. rewrite skipn_all2 by (rewrite rev_length; lia). reflexivity.
Qed.

Lemma fb_run_ok L h pre rest i s : fb_P L pre rest i s ->
  match run (fb_iter h) pre rest i 0 s with
  | Done o e s' => o <= i + nnat (length rest) /\ fb_bnd L (i + nnat (length rest)) s' /\
                   (e = EMore -> exists k, (k <= length rest)%nat /\ o = i + nnat k /\ fb_inv L (zpre k pre rest) o s') /\
                   (e = EOk \/ e = EMoreValues -> i <= o /\ fb_bnd L o s')
  | _ => False
  end.
Proof.
  intros [Hi Hinv]. rewrite (run_as_parse (fb_iter h) pre rest i s Hi).
  pose proof (nameaddr_safe L h (rev pre ++ rest) i s) as H.
  assert (Hlen : nnat (length (rev pre ++ rest)) = i + nnat (length rest)) by (rewrite app_length, rev_length; unfold nnat in *; lia).
  rewrite Hlen in H.
  assert (Hpre : rev (firstn (N.to_nat i) (rev pre ++ rest)) = pre).
  { subst i. unfold nnat. rewrite Nat2N.id, firstn_app, rev_length, Nat.sub_diag. cbn [firstn]. rewrite app_nil_r.
    rewrite firstn_all2 by (rewrite rev_length; lia). apply rev_involutive. }
  rewrite Hpre in H. specialize (H ltac:(lia) Hinv).
  unfold parse_nameaddr in H. destruct (parse (fb_iter h) (rev pre ++ rest) i s) as [o e s'| |]; auto.
  destruct H as (H1 & H2 & H3 & H4). split; [exact H1|]. split; [exact H2|]. split; [|exact H4].
  intros He. destruct (H3 He) as [Ho Hinv']. exists (N.to_nat (o - i)). split; [unfold nnat in *; lia|]. split; [unfold nnat; lia|].
  rewrite (zpre_whole_prefix pre rest (N.to_nat (o - i)) (rev pre ++ rest) eq_refl) by (unfold nnat in *; lia).
  replace (length pre + N.to_nat (o - i))%nat with (N.to_nat o) by (unfold nnat in *; lia). exact Hinv'.
Qed.
