(* C05: the display name, the URI and the parameters of a name-addr value (From / To / Contact / P-Asserted-Identity) lie
   inside the value V - for every input and every chunk schedule.  An invariant NNI of the automaton next to the safety
   invariant fb_inv: V starts first; the URI is inside V as soon as it is set; the name is inside V once the '>' is read;
   the parameter span is empty until the value is closed and is closed together with V; V never reaches into the trailing
   white space, so closing at the last non-white-space byte (before a ',') never shrinks it. *)
From Sipsp Require Import Harness RunLemmas Safe SafeLeaf SafeMore.
From Coq Require Import ZifyN ZifyNat ZifyBool.
From RecordUpdate Require Import RecordUpdate.

Definition uses_soffs (st : fbst) : bool :=
  match st with FbName | FbNameOrURI | FbNameOrURIEnd | FbQuoted | FbURI => true | _ => false end.
Definition in_param (st : fbst) : bool :=
  match st with
  | FbParamName | FbParamNameEnd | FbNewParamVal | FbParamVal | FbParamValEnd | FbQuotedVal
  | FbPossibleParamName | FbPossibleParamNameEnd | FbNewPossibleVal | FbPossibleVal | FbPossibleValEnd | FbQuotedPossibleVal => true
  | _ => false
  end.
Definition is_uri_st (st : fbst) : bool := match st with FbURI => true | _ => false end.
Definition is_fin_st (st : fbst) : bool := match st with FbFIN => true | _ => false end.

(* the parts of the state the invariant looks at *)
Definition NIb (sp i : N) (st : fbst) (name uri params v : pf) (soffs : N) : Prop :=
  (is_st_init st = false -> po v < i) /\
  (uses_soffs st = true -> po v <= soffs) /\
  (pl name = 0 \/ po v <= po name) /\
  (pl uri = 0 \/ po v <= po uri) /\
  (po params = 0 \/ po v <= po params) /\
  (pl uri = 0 \/ pf_end uri <= pf_end v) /\
  (pl name = 0 \/ (if is_uri_st st then pf_end name <= soffs else pf_end name <= pf_end v)) /\
  (is_fin_st st = false -> pl params = 0) /\
  (in_param st = true -> po params <> 0) /\
  pf_end v + sp <= i /\
  (is_fin_st st = true ->
     (pl name = 0 \/ (po v <= po name /\ pf_end name <= pf_end v)) /\ (pl uri = 0 \/ (po v <= po uri /\ pf_end uri <= pf_end v)) /\
     (pl params = 0 \/ (po v <= po params /\ pf_end params <= pf_end v))) /\
  (is_st_init st = true -> pl name = 0 /\ pl uri = 0 /\ po params = 0).
Definition NNI (pre : list byte) (i : N) (s : pfrom) : Prop :=
  NIb (nnat (span is_ws pre)) i (fb_state s) (fb_name s) (fb_uri s) (fb_params s) (fb_v s) (fb_soffs s).
(* what holds of a parsed value *)
Definition fb_nest (s : pfrom) : Prop :=
  (pl (fb_name s) = 0 \/ (po (fb_v s) <= po (fb_name s) /\ pf_end (fb_name s) <= pf_end (fb_v s))) /\
  (pl (fb_uri s) = 0 \/ (po (fb_v s) <= po (fb_uri s) /\ pf_end (fb_uri s) <= pf_end (fb_v s))) /\
  (pl (fb_params s) = 0 \/ (po (fb_v s) <= po (fb_params s) /\ pf_end (fb_params s) <= pf_end (fb_v s))).

Lemma span_le_len (p : byte -> bool) (a : list byte) : (span p a <= length a)%nat.
Proof. induction a as [|c a IH]; cbn [span length]; [lia|]. destruct (p c); lia. Qed.
Lemma NNI_pfrom0 pre i : i = nnat (length pre) -> NNI pre i pfrom0.
Proof.
  intros ->. unfold NNI, NIb, pfrom0, pf_end. cbn. pose proof (span_le_len is_ws pre) as H. unfold nnat.
  repeat split; auto; try discriminate; try lia.
Qed.

Lemma pf_set_inv a b f : pf_set a b = Some f -> f = mkpf a (b - a) /\ a <= b.
Proof. unfold pf_set. destruct (b <? a) eqn:E; [discriminate|]. intros H. injection H as <-. split; [reflexivity|lia]. Qed.
Lemma pf_extend_inv f e f' : pf_extend f e = Some f' -> f' = mkpf (po f) (e - po f) /\ po f <= e.
Proof. unfold pf_extend. destruct (e <? po f) eqn:E; [discriminate|]. intros H. injection H as <-. split; [reflexivity|lia]. Qed.

(* setFromParamVal leaves everything the invariant looks at alone *)
Definition nview (s : pfrom) := (fb_state s, fb_name s, fb_uri s, fb_params s, fb_v s, fb_soffs s).
Lemma setpv_frame pre rest i s s1 : setFromParamVal pre rest i s = Some s1 -> nview s1 = nview s.
Proof.
  unfold setFromParamVal, nview. destruct s as [nm ur tg st lr he ty q ex pa v pe eo sta so ps pd vs ve]. cbn -[zslice set_q pUInt64Val].
  repeat match goal with
         | |- context [if ?b then _ else _] => destruct b
         | |- context [match zslice ?a ?b ?c ?d ?e with _ => _ end] => destruct (zslice a b c d e)
         | |- context [match pf_set ?a ?b with _ => _ end] => destruct (pf_set a b)
         | |- context [let '(_, _) := ?x in _] => destruct x
         end; try discriminate; intros H; injection H as <-; try reflexivity.
  all: unfold set_q; cbn -[pUInt64Val span].
  all: repeat match goal with
         | |- context [if ?b then _ else _] => destruct b
         | |- context [let '(_, _) := ?x in _] => destruct x
         | |- context [match ?e with EOk => _ | _ => _ end] => destruct e
         end; try reflexivity.
Qed.
Lemma NNI_view pre i s s' : nview s' = nview s -> NNI pre i s -> NNI pre i s'.
Proof. unfold nview, NNI. intros E. injection E as -> -> -> -> -> ->. auto. Qed.

Definition ni_res (pre rest : list byte) (i : N) (r : ires pfrom) : Prop :=
  match r with
  | Next k s' => (k <= length rest)%nat -> NNI (zpre k pre rest) (i + nnat k) s'
  | Ret o e s' => (e = EMore -> exists k, (k <= length rest)%nat /\ o = i + nnat k /\ NNI (zpre k pre rest) o s') /\
                  (e = EOk \/ e = EMoreValues -> fb_nest s')
  | IPanic => True
  end.

Lemma NNI_adv pre rest i k s : (k <= length rest)%nat -> NNI pre i s -> NNI (zpre k pre rest) (i + nnat k) s.
Proof.
  intros Hk H. pose proof (span_ws_zpre k pre rest Hk) as Hsp. unfold NNI, NIb in *. destruct H as (N1&N2&N3&N4&N5&N6&N7&N8&N9&N10&N11&N12).
  unfold nnat in *. repeat split; auto; try lia; first [apply N11|apply N12]; assumption.
Qed.

(* ---- closing a value ----------------------------------------------------------------------------------------------------------------------- *)
Ltac nest_arith := unfold fb_nest, NIb, pf_end in *; cbn in *; repeat split; intros; try discriminate; try lia; intuition (try discriminate; try lia).

Lemma ext_params_nest sp i0 ic st nm ur pa v so (force : bool) (s2 : pfrom) h s1 :
  nview s2 = (st, nm, ur, pa, v, so) -> NIb sp i0 st nm ur pa v so -> pf_end v <= ic -> (force = true -> in_param st = true) ->
  is_uri_st st = false -> is_fin_st st = false ->
  match (if force || negb (po (fb_params s2) =? 0) then pf_extend (fb_params s2) ic else Some (fb_params s2)), pf_extend (fb_v s2) ic with
  | Some p, Some v' => Some (Some (s2 <| fb_params := p |> <| fb_v := v' |>))
  | _, _ => @None (option pfrom)
  end = Some (Some s1) ->
  fb_nest (s1 <| fb_state := FbFIN |> <| fb_soffs := 0 |> <| fb_type := h |>).
Proof.
  intros Ev HN Hic Hf Hu Hfin H. destruct s2 as [nm2 ur2 tg st2 lr he ty q ex pa2 v2 pe eo sta2 so2 ps pd vs ve].
  unfold nview in Ev. cbn in Ev. injection Ev as -> -> -> -> -> ->. cbn [fb_params fb_v] in H.
  destruct HN as (N1&N2&N3&N4&N5&N6&N7&N8&N9&N10&N11&N12). rewrite Hu in N7. specialize (N8 Hfin).
  destruct (force || negb (po pa =? 0)) eqn:Ef.
  - destruct (pf_extend pa ic) as [p|] eqn:Ep; [|discriminate]. destruct (pf_extend v ic) as [v'|] eqn:Ev'; [|discriminate].
    apply pf_extend_inv in Ev'. destruct Ev' as [-> Hv]. apply pf_extend_inv in Ep. destruct Ep as [-> Hp]. injection H as <-.
    assert (Hpo : po pa <> 0).
    { destruct force; [apply N9; apply Hf; reflexivity|]. cbn in Ef. destruct (po pa =? 0) eqn:E0; [discriminate|lia]. }
    unfold fb_nest, pf_end in *. cbn in *. repeat split; intuition lia.
  - destruct (pf_extend v ic) as [v'|] eqn:Ev'; [|discriminate]. apply pf_extend_inv in Ev'. destruct Ev' as [-> Hv].
    injection H as <-. unfold fb_nest, pf_end in *. cbn in *. repeat split; intuition lia.
Qed.

Lemma close_nest h pre rest sp i0 ic s s1 : fb_close pre rest i0 ic s = Some (Some s1) ->
  NIb sp i0 (fb_state s) (fb_name s) (fb_uri s) (fb_params s) (fb_v s) (fb_soffs s) -> pf_end (fb_v s) <= ic ->
  fb_nest (s1 <| fb_state := FbFIN |> <| fb_soffs := 0 |> <| fb_type := h |>).
Proof.
  intros H HN Hic. unfold fb_close in H.
  destruct s as [nm ur tg star lr he ty q ex pa v pe eo sta so ps pd vs ve]. cbn [fb_state fb_name fb_uri fb_params fb_v fb_soffs] in *.
  destruct sta; try discriminate.
  all: try (match type of H with match setFromParamVal ?a ?b ?c ?s' with _ => _ end = _ =>
              destruct (setFromParamVal a b c s') as [s2|] eqn:Es; [|discriminate]; apply setpv_frame in Es; unfold nview at 2 in Es; cbn in Es end).
  all: try (match type of H with context [if ?f || _ then _ else _] => eapply (ext_params_nest sp i0 ic _ nm ur pa v so f s2 h s1) end; [exact Es|exact HN|exact Hic|first [discriminate|intros _; reflexivity]|reflexivity|reflexivity|exact H]).
  - (* NameOrURI *)
    cbn [fb_soffs fb_v] in H. destruct (pf_set so ic) as [u|] eqn:Eu; [|discriminate]. destruct (pf_extend v ic) as [v'|] eqn:Ev; [|discriminate].
    apply pf_set_inv in Eu. destruct Eu as [-> Hu]. apply pf_extend_inv in Ev. destruct Ev as [-> Hv]. injection H as <-.
    destruct HN as (N1&N2&N3&N4&N5&N6&N7&N8&N9&N10&N11&N12). specialize (N2 eq_refl). specialize (N8 eq_refl). cbn in N7.
    unfold fb_nest, pf_end in *. cbn in *. repeat split; intuition lia.
  - (* NameOrURIEnd *)
    injection H as <-. destruct HN as (N1&N2&N3&N4&N5&N6&N7&N8&N9&N10&N11&N12). specialize (N8 eq_refl). cbn in N7.
    unfold fb_nest, pf_end in *. cbn in *. repeat split; intuition lia.
  - (* URIFound *)
    injection H as <-. destruct HN as (N1&N2&N3&N4&N5&N6&N7&N8&N9&N10&N11&N12). specialize (N8 eq_refl). cbn in N7.
    unfold fb_nest, pf_end in *. cbn in *. repeat split; intuition lia.
  - (* NewPossibleParam *)
    eapply (ext_params_nest sp i0 ic FbNewPossibleParam nm ur pa v so false (mkpfrom nm ur tg star lr he ty q ex pa v pe eo FbNewPossibleParam so ps pd vs ve) h s1);
      [reflexivity|exact HN|exact Hic|discriminate|reflexivity|reflexivity|exact H].
  - (* NewParam *)
    eapply (ext_params_nest sp i0 ic FbNewParam nm ur pa v so false (mkpfrom nm ur tg star lr he ty q ex pa v pe eo FbNewParam so ps pd vs ve) h s1);
      [reflexivity|exact HN|exact Hic|discriminate|reflexivity|reflexivity|exact H].
  - (* Star *)
    injection H as <-. destruct HN as (N1&N2&N3&N4&N5&N6&N7&N8&N9&N10&N11&N12). specialize (N8 eq_refl). cbn in N7.
    unfold fb_nest, pf_end in *. cbn in *. repeat split; intuition lia.
Qed.

Lemma eoh_nest h pre rest i0 ic ret e s : NNI pre i0 s -> pf_end (fb_v s) <= ic -> e <> EMore ->
  ni_res pre rest i0 (fb_endOfHdr h pre rest i0 ic ret e s).
Proof.
  intros HN Hic He. unfold fb_endOfHdr. destruct (fb_close pre rest i0 ic s) as [[s1|]|] eqn:Ec; [| |exact I].
  - cbn [ni_res]. split; [intros E; congruence|]. intros _. exact (close_nest h pre rest _ i0 ic s s1 Ec HN Hic).
  - cbn [ni_res]. split; [intros E; destruct (fb_state s); discriminate|intros [E|E]; destruct (fb_state s); discriminate].
Qed.

Lemma ret_other_nest pre rest i o e s : e <> EMore -> e <> EOk -> e <> EMoreValues -> ni_res pre rest i (Ret o e s).
Proof. intros H1 H2 H3. cbn. split; [intros E; congruence|intros [E|E]; congruence]. Qed.
Lemma ret_more0_nest pre rest i s : NNI pre i s -> ni_res pre rest i (Ret i EMore s).
Proof.
  intros H. cbn. split; [|intros [E|E]; discriminate]. intros _. exists 0%nat. split; [lia|]. split; [unfold nnat; lia|].
  unfold zpre. cbn [firstn rev app]. exact H.
Qed.

Lemma lws_nest h pre c r i s1 : NNI pre i s1 -> pf_end (fb_v s1) <= i -> ni_res pre (c :: r) i (fb_lws h pre (c :: r) i s1).
Proof.
  intros HN Hv. unfold fb_lws. pose proof (skipLWS_bounds false (c :: r)) as Hb.
  destruct (skipLWS false (c :: r)) as [k|k crl|k] eqn:El.
  - cbn [ni_res]. intros Hk. apply NNI_adv; assumption.
  - apply eoh_nest; [exact HN|exact Hv|discriminate].
  - cbn [ni_res]. split; [|intros [E|E]; discriminate]. intros _. exists k. split; [exact Hb|]. split; [reflexivity|]. apply NNI_adv; assumption.
Qed.
Lemma lws_b_nest h pre c r i s upd : NNI pre i s -> (forall n, NNI pre i (upd n)) -> pf_end (fb_v (upd None)) <= i ->
  ni_res pre (c :: r) i (fb_lws_b h pre (c :: r) i s upd).
Proof.
  intros HN Hupd Hv. unfold fb_lws_b.
  destruct (skipLWS false (c :: r)) as [k|k crl|k] eqn:El.
  - cbn [ni_res]. intros Hk. apply NNI_adv; [exact Hk|apply Hupd].
  - apply eoh_nest; [apply Hupd|exact Hv|discriminate].
  - apply ret_more0_nest. exact HN.
Qed.
Lemma mv_nest h pre rest i s : NNI pre i s -> ni_res pre rest i (fb_moreValues h pre rest i s).
Proof.
  intros HN. unfold fb_moreValues. apply eoh_nest; [exact HN| |discriminate].
  destruct HN as (_&_&_&_&_&_&_&_&_&N10&_&_). lia.
Qed.
Lemma next1_nest pre c r i s' : is_ws c = false ->
  NIb 0 (i + 1) (fb_state s') (fb_name s') (fb_uri s') (fb_params s') (fb_v s') (fb_soffs s') -> ni_res pre (c :: r) i (Next 1 s').
Proof.
  intros Hc H. cbn [ni_res]. intros _. unfold NNI, zpre. cbn [firstn rev app span]. rewrite Hc.
  replace (i + nnat 1) with (i + 1) by (unfold nnat; lia). exact H.
Qed.
Lemma setpv_nest pre c r i s' : is_ws c = false ->
  NIb 0 (i + 1) (fb_state s') (fb_name s') (fb_uri s') (fb_params s') (fb_v s') (fb_soffs s') -> ni_res pre (c :: r) i (fb_setpv pre (c :: r) i s').
Proof.
  intros Hc H. unfold fb_setpv. destruct (setFromParamVal pre (c :: r) i s') as [s1|] eqn:Es; [|exact I].
  apply setpv_frame in Es. apply next1_nest; [exact Hc|]. unfold nview in Es. injection Es as -> -> -> -> -> ->. exact H.
Qed.

(* ---- one iteration ------------------------------------------------------------------------------------------------------------------------- *)
Ltac letb := repeat match goal with
  | |- ni_res _ _ _ (match pf_set ?a ?b with _ => _ end) =>
      let E := fresh "E" in destruct (pf_set a b) eqn:E; [apply pf_set_inv in E; destruct E as [-> ?]|exact I]
  | |- ni_res _ _ _ (match pf_extend ?a ?b with _ => _ end) =>
      let E := fresh "E" in destruct (pf_extend a b) eqn:E; [apply pf_extend_inv in E; destruct E as [-> ?]|exact I]
  end.
(* implications guarded by a closed test on the state: decide the test *)
Ltac prep := repeat match goal with
  | H : @eq bool _ _ -> _ |- _ => first [specialize (H eq_refl) | clear H]
  | H : @eq fbst _ _ -> _ |- _ => first [specialize (H eq_refl) | clear H]
  | H : not (@eq fbst _ _) -> _ |- _ => first [specialize (H ltac:(discriminate)) | clear H]
  end.
Ltac nb := unfold NNI, NIb, pf_end in *; cbn -[N.add N.sub] in *; prep; unfold nnat in *; repeat split; intros; try discriminate; try lia.

Section Step.
  Variables (L h : N) (pre : list byte) (c : byte) (r1 : list byte) (i : N).
  Hypothesis Hi : i = nnat (length pre).
  Notation rest := (c :: r1).

  Ltac unpack s Hinv HN :=
    destruct s as [nm ur tg star lr he ty q ex pa v pe eo sta so ps pd vs ve];
    pose proof Hinv as (H1&H2&H3&H4&H5&H6&H7&H8&H9&H10&F1&F2&H11&H12&F3);
    pose proof HN as (N1&N2&N3&N4&N5&N6&N7&N8&N9&N10&N11&N12); clear Hinv HN;
    unfold pf_end in H1, H2, H3, H4, H5; cbn -[N.add N.sub] in H1, H2, H3, H4, H5, H6, H7, H8, H9, H10, F1, F2, H11, H12, F3;
    cbn -[N.add N.sub] in N1, N2, N3, N4, N5, N6, N7, N8, N9, N10, N11, N12.

  Lemma comma_nest s : is_ws c = false -> NNI pre i s -> fb_inv L pre i s -> ni_res pre rest i (fb_comma h pre rest i s).
  Proof.
    intros Hc HN Hinv. unfold fb_comma. destruct (multipleValsOk h); [apply mv_nest; exact HN|].
    apply next1_nest; [exact Hc|]. unpack s Hinv HN. destruct sta; nb.
  Qed.
  Lemma comma_strict_nest s : NNI pre i s -> ni_res pre rest i (fb_comma_strict h pre rest i s).
  Proof.
    intros HN. unfold fb_comma_strict, fb_bad. destruct (multipleValsOk h); [apply mv_nest; exact HN|apply ret_other_nest; discriminate].
  Qed.

  Lemma step_nest s : fb_inv L pre i s -> NNI pre i s -> ni_res pre rest i (fb_iter h pre rest i s).
  Proof.
    intros Hinv HN. unfold fb_iter.
    assert (Hk : ccls_of c = KWs \/ (ccls_of c <> KWs /\ is_ws c = false)).
    { destruct (ccls_of c) eqn:E; [left; reflexivity|right; split; [discriminate|apply ccls_nows; rewrite E; discriminate]..]. }
    destruct (fb_state s) eqn:Est.
    23: { cbn [ni_res]. split; [intros E; discriminate|]. intros _. destruct HN as (_&_&_&_&_&_&_&_&_&_&N11&_). rewrite Est in N11. exact (N11 eq_refl). }
    all: unfold fb_step, fb_gA, fb_gQ, fb_gURI, fb_gURIFound, fb_gP, fb_gPE, fb_gV, fb_gVE, fb_gStar, fb_bad, fb_reset3.
    all: destruct Hk as [Ek|[Ek Hc]]; [rewrite Ek|destruct (ccls_of c); try congruence].
    all: cbn [is_st_init is_st_nameoruri is_st_nameoruriend is_st_name is_st_new st_poss st_newparam st_paramname st_paramnameend st_newval st_val st_valend st_quotedval].
    all: try (apply ret_other_nest; discriminate).
    all: try (apply comma_nest; assumption).
    all: try (apply comma_strict_nest; assumption).
    all: letb.
    all: try (apply lws_nest; [|unpack s Hinv HN; cbn in Est; subst sta; unfold pf_end; cbn; lia]).
    all: try (apply lws_b_nest; [exact HN| |]).
    all: try (apply setpv_nest; [exact Hc|]).
    all: try (apply next1_nest; [exact Hc|]).
    all: try (unpack s Hinv HN; cbn in Est; subst sta; nb; fail).
    all: try (unpack s Hinv HN; cbn in Est; subst sta; cbn -[N.add N.sub]; destruct (po pa =? 0) eqn:E0; nb; fail).
    all: try (destruct r1 as [|d r2]; [apply ret_more0_nest; exact HN|destruct (is_crlf d); [apply ret_other_nest; discriminate|]];
              cbn [ni_res]; intros Hk2; replace (nnat 2) with (nnat 2) by reflexivity; apply NNI_adv; [exact Hk2|exact HN]).
    all: intros [n0|]; [unpack s Hinv HN; cbn in Est; subst sta; nb|exact HN].
  Qed.
End Step.

(* ---- one call, every schedule ------------------------------------------------------------------------------------------------------------------ *)
From Sipsp Require Import TrimSpec.

Definition NQ (pre rest : list byte) (i o : N) (e : err) (s' : pfrom) : Prop :=
  (e = EMore -> exists k, (k <= length rest)%nat /\ o = i + nnat k /\ fb_inv 0 (zpre k pre rest) o s' /\ NNI (zpre k pre rest) o s') /\
  (e = EOk \/ e = EMoreValues -> fb_nest s').

Lemma iter_nest h pre rest i s : i = nnat (length pre) -> fb_inv 0 pre i s /\ NNI pre i s ->
  match fb_iter h pre rest i s with
  | Next k s' => (0 < k)%nat -> (k <= length rest)%nat -> fb_inv 0 (zpre k pre rest) (i + nnat k) s' /\ NNI (zpre k pre rest) (i + nnat k) s'
  | Ret o e s' => NQ pre rest i o e s'
  | IPanic => True
  end.
Proof.
  intros Hi [Hinv HN]. pose proof (fb_step_ok 0 h pre rest i s (conj Hi Hinv)) as S1.
  assert (S2 : ni_res pre rest i (fb_iter h pre rest i s)).
  { destruct rest as [|c r1]; [|exact (step_nest 0 h pre c r1 i Hi s Hinv HN)].
    unfold fb_iter. destruct (fb_state s) eqn:Est; try (apply ret_more0_nest; exact HN).
    cbn [ni_res]. split; [intros E; discriminate|]. intros _. destruct HN as (_&_&_&_&_&_&_&_&_&_&N11&_). rewrite Est in N11. exact (N11 eq_refl). }
  unfold fb_step_res in S1. destruct (fb_iter h pre rest i s) as [k s'|o e s'|]; [| |exact I].
  - intros H0 Hk. destruct S1 as [_ [_ X]]. split; [exact X|exact (S2 Hk)].
  - unfold NQ. cbn [ni_res] in S2. destruct S2 as [M1 M2]. destruct S1 as (_ & _ & Q3 & _). split; [|exact M2].
    intros He. destruct (Q3 He) as (k & Hk & Ho & Hinv'). destruct (M1 He) as (k' & Hk' & Ho' & HN').
    assert (k' = k) by (unfold nnat in *; lia). subst k'. exists k. auto.
Qed.

Theorem nameaddr_call_nest h buf offs s o e s' : offs <= nnat (length buf) ->
  fb_inv 0 (rev (firstn (N.to_nat offs) buf)) offs s -> NNI (rev (firstn (N.to_nat offs) buf)) offs s ->
  parse_nameaddr h buf offs s = Done o e s' ->
  (e = EMore -> o <= nnat (length buf) /\ fb_inv 0 (rev (firstn (N.to_nat o) buf)) o s' /\ NNI (rev (firstn (N.to_nat o) buf)) o s') /\
  (e = EOk \/ e = EMoreValues -> fb_nest s').
Proof.
  intros Hoffs Hinv HN H. unfold parse_nameaddr, parse, zinit in H.
  pose proof (run_invQ (fb_iter h) (fun pre i t => fb_inv 0 pre i t /\ NNI pre i t) NQ (iter_nest h)
                (skipn (N.to_nat offs) buf) (rev (firstn (N.to_nat offs) buf)) offs s) as R.
  rewrite H in R. specialize (R ltac:(rewrite rev_length, firstn_length; unfold nnat in *; lia) (conj Hinv HN)).
  destruct R as (p' & r' & i' & Hi' & Hw & [Q1 Q2]). rewrite rev_involutive, firstn_skipn in Hw.
  split; [|exact Q2]. intros He. destruct (Q1 He) as (k & Hk & Ho & Hinv' & HN').
  rewrite (zpre_whole_prefix p' r' k buf Hw Hk) in Hinv', HN'.
  assert (Hlen : nnat (length buf) = i' + nnat (length r')).
  { apply (f_equal (@length _)) in Hw. rewrite app_length, rev_length in Hw. unfold nnat in *. lia. }
  replace (N.to_nat o) with (length p' + k)%nat by (unfold nnat in *; lia).
  split; [unfold nnat in *; lia|]. split; assumption.
Qed.

(* calls chained on buffers that agree on what was read so far, each resumed where the previous one stopped *)
Inductive fb_fed (h : N) : list byte -> N -> pfrom -> Prop :=
| fb_fed0 buf offs : offs <= nnat (length buf) -> fb_fed h buf offs pfrom0
| fb_fed1 buf offs s o s' buf' : fb_fed h buf offs s -> parse_nameaddr h buf offs s = Done o EMore s' ->
    firstn (N.to_nat o) buf' = firstn (N.to_nat o) buf -> o <= nnat (length buf') -> fb_fed h buf' o s'.
Lemma fb_fed_inv h buf offs s : fb_fed h buf offs s ->
  offs <= nnat (length buf) /\ fb_inv 0 (rev (firstn (N.to_nat offs) buf)) offs s /\ NNI (rev (firstn (N.to_nat offs) buf)) offs s.
Proof.
  induction 1 as [buf offs Ho|buf offs s o s' buf' _ IH H Hpre Ho].
  - split; [exact Ho|]. split; [apply pfrom0_inv; lia|]. apply NNI_pfrom0. rewrite rev_length, firstn_length. unfold nnat in *. lia.
  - destruct IH as (I1 & I2 & I3). destruct (nameaddr_call_nest h buf offs s o EMore s' I1 I2 I3 H) as [M _].
    destruct (M eq_refl) as (_ & M2 & M3). rewrite Hpre. auto.
Qed.
Theorem nameaddr_fields_nest h buf offs s o e s' : fb_fed h buf offs s -> parse_nameaddr h buf offs s = Done o e s' ->
  e = EOk \/ e = EMoreValues -> fb_nest s'.
Proof.
  intros Hf H He. destruct (fb_fed_inv h buf offs s Hf) as (I1 & I2 & I3).
  exact (proj2 (nameaddr_call_nest h buf offs s o e s' I1 I2 I3 H) He).
Qed.
