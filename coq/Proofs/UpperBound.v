(* C04: after a successful parse every field reported through PHdrVals ends at or before the returned
   offset (so inside the buffer): a parallel invariant of the one-call parse of a fresh message, lifted to
   every feeding schedule by C01; with the layout theorem (first line, header names and values, body) every
   reported field can be dereferenced, and GetMsgSig is total on parsed messages. *)
From Sipsp Require Import RunLemmas Safe Resume Ext ExtLeaf ZSlice Harness ExtFLine ExtAdv ExtHdrLine ExtHeaders ExtLists
  SafeLeaf SafeMore SafeMsg Capacity CapHeaders Layout BlockSpec ContactSpec TrimSpec LowerLists LowerBound.
From Coq Require Import ZifyN ZifyNat ZifyBool.
From RecordUpdate Require Import RecordUpdate.

(* ---- upper bounds of the single-valued objects ------------------------------------------------------------------------------------ *)
Definition UBci (i : N) (s : callid) : Prop := pf_end (ci_callid s) <= i.
Definition UBui (i : N) (s : uintb) : Prop := pf_end (ui_sval s) <= i.
Definition UBfb (i : N) (s : pfrom) : Prop := fb_bnd 0 i s.

Lemma ci_run_ub pre rest o s n s' : o = nnat (length pre) -> PRci s -> ci_parsed s = false -> UBci o s ->
  run ci_iter pre rest o 0 s = Done n EOk s' -> o <= n /\ UBci n s'.
Proof.
  intros Ho [Hp|[Hst Hz]] Hnp Hb H; [congruence|].
  pose proof (callid_safe (rev pre ++ rest) o s) as S. rewrite (run_len pre rest o Ho) in S.
  specialize (S ltac:(lia) ltac:(split; [intros E; congruence|exact Hb])).
  unfold parse_callid in S. rewrite <- (run_as_parse ci_iter pre rest o s Ho), H in S. destruct S as (S1 & _ & [_ S3] & _). split; assumption.
Qed.
Lemma cs_run_ub pre rest o s n s' : o = nnat (length pre) -> cs_inv o s ->
  run cs_iter pre rest o 0 s = Done n EOk s' -> o <= n /\ cs_inv n s'.
Proof.
  intros Ho Hb H. pose proof (cseq_safe (rev pre ++ rest) o s) as S. rewrite (run_len pre rest o Ho) in S.
  specialize (S ltac:(lia) Hb). unfold parse_cseq in S. rewrite <- (run_as_parse cs_iter pre rest o s Ho), H in S.
  destruct S as (_ & _ & _ & S4). exact (S4 eq_refl).
Qed.
Lemma ui_run_ub pre rest o s n s' : o = nnat (length pre) -> PRui s -> ui_parsed s = false -> UBui o s ->
  run ui_iter pre rest o 0 s = Done n EOk s' -> o <= n /\ UBui n s'.
Proof.
  intros Ho [Hp|[Hst Hz]] Hnp Hb H; [congruence|].
  pose proof (rsafe_ui pre rest o s Ho ltac:(split; [exact Hb|right; split; [intros E; congruence|exact Hb]])) as S. cbv beta in S.
  rewrite H in S. destruct S as (_ & _ & S3). destruct (S3 eq_refl) as [S1 [S2 _]]. split; assumption.
Qed.
Lemma clen_run_ub pre rest o s n s' : o = nnat (length pre) -> PRui s -> ui_parsed s = false -> UBui o s ->
  clen_R pre rest o s = Done n EOk s' -> o <= n /\ UBui n s'.
Proof.
  intros Ho [Hp|[Hst Hz]] Hnp Hb H; [congruence|].
  pose proof (rsafe_clen pre rest o s Ho ltac:(split; [exact Hb|right; split; [intros E; congruence|exact Hb]])) as S.
  rewrite H in S. destruct S as (_ & _ & S3). destruct (S3 eq_refl) as [S1 [S2 _]]. split; assumption.
Qed.
(* a name-addr value started from scratch *)
Lemma fb_fresh_ub h pre rest i o e v : i = nnat (length pre) ->
  run (fb_iter h) pre rest i 0 pfrom0 = Done o e v -> e = EOk \/ e = EMoreValues -> i <= o /\ UBfb o v /\ fb_parsed v = true.
Proof.
  intros Hi H He. pose proof (fb_run_ok 0 h pre rest i pfrom0 (conj Hi (fb_inv_pfrom0 0 pre i (N.le_0_l i)))) as Sf. rewrite H in Sf.
  destruct Sf as (_ & _ & _ & S4). destruct (S4 He) as [S1 S2]. split; [exact S1|]. split; [exact S2|].
  exact (fb_run_ok_parsed _ _ _ _ _ _ _ _ H He).
Qed.
Lemma UBfb_mono i o s : i <= o -> UBfb i s -> UBfb o s.
Proof. apply fb_bnd_mono. Qed.
Lemma UBfb_0 i : UBfb i pfrom0.
Proof. unfold UBfb, fb_bnd, pfrom0, pf_end. cbn. repeat split; try lia; intros H; congruence. Qed.

(* ---- the two lists ---------------------------------------------------------------------------------------------------------------------- *)
Lemma Forall_set_nth {A} (P : A -> Prop) (l : list A) : forall n x, Forall P l -> P x -> Forall P (set_nth n x l).
Proof. induction l as [|y l IH]; intros [|n] x Hl Hx; cbn; auto; inversion Hl; subst; constructor; auto. Qed.
Lemma pf_extend_end f e f' : pf_extend f e = Some f' -> pf_end f' = e.
Proof. unfold pf_extend. destruct (e <? po f) eqn:E; [discriminate|]. intros H. injection H as <-. unfold pf_end. cbn. lia. Qed.

Definition UBct (i : N) (c : contacts) : Prop :=
  Forall (UBfb i) (ct_vals c) /\ UBfb i (ct_last c) /\ UBfb i (ct_first c) /\ pf_end (ct_lasthval c) <= i.
Lemma UBct_mono i o c : i <= o -> UBct i c -> UBct o c.
Proof.
  intros H (A & B & C & D). split; [eapply Forall_impl; [|exact A]; intros a; apply UBfb_mono; exact H|].
  split; [apply (UBfb_mono i); assumption|]. split; [apply (UBfb_mono i); assumption|lia].
Qed.

Lemma ct_ub_next i o l v c6 (more : bool) : i <= o -> UBct i l -> UBfb o v ->
  ct_count (ct_store l v) v = Some c6 ->
  UBct o (if more then ct_reset_last_if (ct_slot_is_last l) c6 else c6).
Proof.
  intros Hio Hub Hv E6. apply (UBct_mono i o l Hio) in Hub. destruct Hub as (A & B & C & D).
  destruct (ct_store_proj l v) as (S1 & S2 & S3 & S4 & S5 & S6 & S7 & S8).
  destruct (ct_count_proj _ _ _ E6) as (P1 & P2 & P3 & P4 & P5). pose proof (ct_count_lh _ _ _ E6) as Hl6.
  set (X := if more then ct_reset_last_if (ct_slot_is_last l) c6 else c6).
  assert (Xp : ct_vals X = ct_vals c6 /\ ct_first X = ct_first c6 /\ ct_lasthval X = ct_lasthval c6 /\
               ct_last X = (if more && ct_slot_is_last l then pfrom0 else ct_last c6)).
  { subst X. unfold ct_reset_last_if. destruct more, (ct_slot_is_last l); destruct c6; cbn; repeat split; reflexivity. }
  destruct Xp as (X1 & X3 & X4 & X5). unfold UBct. rewrite X1, X3, X4, X5, P1, P4, P5, S6, S7, S8.
  split; [destruct (ct_slot_is_last l); [exact A|apply Forall_set_nth; assumption]|].
  split; [destruct (more && ct_slot_is_last l); [apply UBfb_0|destruct (ct_slot_is_last l); assumption]|].
  split; [destruct (_ && _); assumption|].
  rewrite S1, S5 in Hl6. destruct ((ct_n l =? 0) || pf_empty (ct_lasthval l)).
  - injection Hl6 as ->. destruct Hv as (_&_&_&_&H5&_). exact H5.
  - symmetry in Hl6. apply pf_extend_end in Hl6. rewrite Hl6. destruct Hv as (_&_&_&_&H5&_). exact H5.
Qed.

Lemma ct_iter_ub pre rest i c : i = nnat (length pre) -> UBct i c /\ LBct 0 c ->
  match ct_iter pre rest i c with
  | Next k c' => (0 < k)%nat -> (k <= length rest)%nat -> UBct (i + nnat k) c' /\ LBct 0 c'
  | Ret o e c' => e = EOk -> i <= o /\ UBct o c' /\ LBct 0 c'
  | IPanic => True
  end.
Proof.
  intros Hi [Hub Hlb]. pose proof (ct_iter_lb 0 pre rest i c Hi (conj (N.le_0_l i) Hlb)) as L.
  destruct Hlb as (Hwf & Hsel & Hlh). rewrite ct_iter_def, Hsel in *.
  destruct (run (fb_iter HdrContact) pre rest i 0 pfrom0) as [next e v| |] eqn:Er; [|exact I|exact I].
  rewrite ct_post_eq in *. cbv zeta in *.
  destruct e; try (intros E; discriminate E).
  - destruct (fb_fresh_ub HdrContact pre rest i next EOk v Hi Er (or_introl eq_refl)) as (Hio & Hv & _).
    destruct (ct_count (ct_store c v) v) as [c6|] eqn:E6; [|exact I]. intros _. split; [exact Hio|]. split; [|exact (L eq_refl)].
    exact (ct_ub_next i next c v c6 false Hio Hub Hv E6).
  - destruct (fb_fresh_ub HdrContact pre rest i next EMoreValues v Hi Er (or_intror eq_refl)) as (Hio & Hv & _).
    destruct (ct_count (ct_store c v) v) as [c6|] eqn:E6; [|exact I]. intros Hk0 Hk.
    replace (i + nnat (N.to_nat (next - i))) with next by (unfold nnat; lia). split; [|exact (proj2 (L Hk0 Hk))].
    exact (ct_ub_next i next c v c6 true Hio Hub Hv E6).
Qed.
Lemma ct_run_ub pre rest o c n c' : o = nnat (length pre) -> UBct o c -> LBct 0 c ->
  run ct_iter pre rest o 0 c = Done n EOk c' -> o <= n /\ UBct n c' /\ LBct 0 c'.
Proof.
  intros Ho Hub Hlb H.
  pose proof (run_invQ ct_iter (fun _ j t => o <= j /\ UBct j t /\ LBct 0 t) (fun _ _ _ n0 e t => e = EOk -> o <= n0 /\ UBct n0 t /\ LBct 0 t)) as R.
  specialize (R ltac:(intros p r j t Hj (P0 & P1 & P2); pose proof (ct_iter_ub p r j t Hj (conj P1 P2)) as X;
                      destruct (ct_iter p r j t) as [k t'|n0 e t'|]; auto;
                      [intros Hk0 Hk; destruct (X Hk0 Hk); split; [unfold nnat; lia|split; assumption]
                      |intros He; destruct (X He) as (X1 & X2 & X3); split; [lia|split; assumption]])
                rest pre o c Ho (conj (N.le_refl o) (conj Hub Hlb))).
  rewrite H in R. destruct R as (_ & _ & _ & _ & _ & HQ). exact (HQ eq_refl).
Qed.

Definition UBpa (i : N) (c : pais) : Prop := Forall (UBfb i) (pa_vals c) /\ UBfb i (pa_last c) /\ pf_end (pa_lasthval c) <= i.
Lemma UBpa_mono i o c : i <= o -> UBpa i c -> UBpa o c.
Proof.
  intros H (A & B & D). split; [eapply Forall_impl; [|exact A]; intros a; apply UBfb_mono; exact H|].
  split; [apply (UBfb_mono i); assumption|lia].
Qed.
Lemma pa_iter_ub pre rest i c : i = nnat (length pre) -> UBpa i c /\ LBpa 0 c ->
  match pa_iter pre rest i c with
  | Next k c' => (0 < k)%nat -> (k <= length rest)%nat -> UBpa (i + nnat k) c' /\ LBpa 0 c'
  | Ret o e c' => e = EOk -> i <= o /\ UBpa o c' /\ LBpa 0 c'
  | IPanic => True
  end.
Proof.
  intros Hi [Hub Hlb]. pose proof (pa_iter_lb 0 pre rest i c Hi (conj (N.le_0_l i) Hlb)) as L.
  destruct Hlb as (Hwf & Hsel & Hlh). rewrite pa_iter_def, Hsel in *.
  destruct (run (fb_iter HdrPAI) pre rest i 0 pfrom0) as [next e0 v| |] eqn:Er; [|exact I|exact I].
  unfold pa_post in *. cbv zeta in *. rewrite pa_store_prep, pa_is_last_prep in *.
  destruct (pa_store_proj c v) as (S1 & S2 & S3 & S4 & S5).
  assert (Main : forall more : bool, e0 = EOk \/ e0 = EMoreValues ->
            match (if (pa_n (pa_store c v) =? 0) || pf_empty (pa_lasthval (pa_store c v)) then Some (fb_v v)
                   else pf_extend (pa_lasthval (pa_store c v)) (pf_end (fb_v v))) with
            | Some lh => i <= next /\ UBpa next (if more then pa_reset_last_if (pa_slot_is_last c) ((pa_store c v) <| pa_lasthval := lh |> <| pa_n := pa_n (pa_store c v) + 1 |>)
                                  else (pa_store c v) <| pa_lasthval := lh |> <| pa_n := pa_n (pa_store c v) + 1 |>)
            | None => True
            end).
  { intros more He. destruct (fb_fresh_ub HdrPAI pre rest i next e0 v Hi Er He) as (Hio & Hv & _).
    apply (UBpa_mono i next c Hio) in Hub. destruct Hub as (A & B & D).
    destruct (if (pa_n (pa_store c v) =? 0) || _ then _ else _) as [lh|] eqn:El; [|exact I]. split; [exact Hio|].
    set (c3 := (pa_store c v) <| pa_lasthval := lh |> <| pa_n := pa_n (pa_store c v) + 1 |>).
    assert (C3 : pa_vals c3 = pa_vals (pa_store c v) /\ pa_last c3 = pa_last (pa_store c v) /\ pa_lasthval c3 = lh)
      by (subst c3; destruct (pa_store c v); cbn; repeat split; reflexivity).
    destruct C3 as (C2 & C4 & C5).
    set (X := if more then pa_reset_last_if (pa_slot_is_last c) c3 else c3).
    assert (Xp : pa_vals X = pa_vals c3 /\ pa_lasthval X = pa_lasthval c3 /\ pa_last X = (if more && pa_slot_is_last c then pfrom0 else pa_last c3)).
    { subst X. unfold pa_reset_last_if. destruct more, (pa_slot_is_last c); destruct c3; cbn; repeat split; reflexivity. }
    destruct Xp as (X1 & X4 & X5). unfold UBpa. rewrite X1, X4, X5, C2, C4, C5, S4, S5.
    split; [destruct (pa_slot_is_last c); [exact A|apply Forall_set_nth; assumption]|].
    split; [destruct (more && pa_slot_is_last c); [apply UBfb_0|destruct (pa_slot_is_last c); assumption]|].
    rewrite S1, S3 in El. destruct ((pa_n c =? 0) || pf_empty (pa_lasthval c)).
    - injection El as <-. destruct Hv as (_&_&_&_&H5&_). exact H5.
    - apply pf_extend_end in El. rewrite El. destruct Hv as (_&_&_&_&H5&_). exact H5. }
  destruct e0; cbn [err_eqb orb andb] in *; try (intros E; discriminate E).
  - destruct (fb_star v); cbn [andb] in *; [intros E; discriminate E|].
    pose proof (Main false (or_introl eq_refl)) as M. destruct (if (pa_n (pa_store c v) =? 0) || _ then _ else _); [|exact I].
    intros _. destruct M as [M1 M2]. split; [exact M1|]. split; [exact M2|exact (L eq_refl)].
  - destruct (fb_star v); cbn [andb] in *; [intros E; discriminate E|].
    pose proof (Main true (or_intror eq_refl)) as M. destruct (if (pa_n (pa_store c v) =? 0) || _ then _ else _); [|exact I].
    intros Hk0 Hk. destruct M as [M1 M2]. replace (i + nnat (N.to_nat (next - i))) with next by (unfold nnat; lia).
    split; [exact M2|exact (proj2 (L Hk0 Hk))].
Qed.
Lemma pa_run_ub pre rest o c n c' : o = nnat (length pre) -> UBpa o c -> LBpa 0 c ->
  run pa_iter pre rest o 0 c = Done n EOk c' -> o <= n /\ UBpa n c' /\ LBpa 0 c'.
Proof.
  intros Ho Hub Hlb H.
  pose proof (run_invQ pa_iter (fun _ j t => o <= j /\ UBpa j t /\ LBpa 0 t) (fun _ _ _ n0 e t => e = EOk -> o <= n0 /\ UBpa n0 t /\ LBpa 0 t)) as R.
  specialize (R ltac:(intros p r j t Hj (P0 & P1 & P2); pose proof (pa_iter_ub p r j t Hj (conj P1 P2)) as X;
                      destruct (pa_iter p r j t) as [k t'|n0 e t'|]; auto;
                      [intros Hk0 Hk; destruct (X Hk0 Hk); split; [unfold nnat; lia|split; assumption]
                      |intros He; destruct (X He) as (X1 & X2 & X3); split; [lia|split; assumption]])
                rest pre o c Ho (conj (N.le_refl o) (conj Hub Hlb))).
  rewrite H in R. destruct R as (_ & _ & _ & _ & _ & HQ). exact (HQ eq_refl).
Qed.

(* ---- all of PHdrVals ------------------------------------------------------------------------------------------------------------------------ *)
Definition PRfb (s : pfrom) : Prop := fb_parsed s = true \/ s = pfrom0.
Definition UBv (i : N) (v : phvals) : Prop :=
  UBfb i (pv_from v) /\ UBfb i (pv_to v) /\ UBci i (pv_callid v) /\ cs_inv i (pv_cseq v) /\ UBui i (pv_clen v) /\ UBui i (pv_expires v) /\
  UBct i (pv_contacts v) /\ UBpa i (pv_pais v).
Definition PR2 (v : phvals) : Prop := PRv v /\ PRfb (pv_from v) /\ PRfb (pv_to v).
Definition UPo (i : N) (o : option phvals) : Prop := match o with Some v => UBv i v /\ PR2 v | None => True end.

Lemma cs_inv_mono' i o s : i <= o -> cs_inv i s -> cs_inv o s.
Proof. intros H (A & B & C & D). unfold cs_inv. repeat split; lia. Qed.
Lemma UBv_mono i o v : i <= o -> UBv i v -> UBv o v.
Proof.
  intros H (A & B & C & D & E & F & G & K). unfold UBv, UBci, UBui in *.
  split; [apply (UBfb_mono i); assumption|]. split; [apply (UBfb_mono i); assumption|]. split; [lia|]. split; [apply (cs_inv_mono' i); assumption|].
  split; [lia|]. split; [lia|]. split; [apply (UBct_mono i); assumption|apply (UBpa_mono i); assumption].
Qed.
Lemma UPo_mono i o p : i <= o -> UPo i p -> UPo o p.
Proof. destruct p as [v|]; [|auto]. intros H [A B]. split; [apply (UBv_mono i); assumption|exact B]. Qed.

Lemma UB_from i v b : UBv i v -> UBfb i b -> UBv i (v <| pv_from := b |>). Proof. destruct v; unfold UBv; cbn; intuition. Qed.
Lemma UB_to i v b : UBv i v -> UBfb i b -> UBv i (v <| pv_to := b |>). Proof. destruct v; unfold UBv; cbn; intuition. Qed.
Lemma UB_callid i v b : UBv i v -> UBci i b -> UBv i (v <| pv_callid := b |>). Proof. destruct v; unfold UBv; cbn; intuition. Qed.
Lemma UB_cseq i v b : UBv i v -> cs_inv i b -> UBv i (v <| pv_cseq := b |>). Proof. destruct v; unfold UBv; cbn; intuition. Qed.
Lemma UB_clen i v b : UBv i v -> UBui i b -> UBv i (v <| pv_clen := b |>). Proof. destruct v; unfold UBv; cbn; intuition. Qed.
Lemma UB_expires i v b : UBv i v -> UBui i b -> UBv i (v <| pv_expires := b |>). Proof. destruct v; unfold UBv; cbn; intuition. Qed.
Lemma UB_contacts i v b : UBv i v -> UBct i b -> UBv i (v <| pv_contacts := b |>). Proof. destruct v; unfold UBv; cbn; intuition. Qed.
Lemma UB_pais i v b : UBv i v -> UBpa i b -> UBv i (v <| pv_pais := b |>). Proof. destruct v; unfold UBv; cbn; intuition. Qed.
Lemma PR2_from v b : PR2 v -> PRfb b -> PR2 (v <| pv_from := b |>).
Proof. intros (A & B & C) H. split; [apply PRv_from; exact A|]. destruct v; cbn in *. auto. Qed.
Lemma PR2_to v b : PR2 v -> PRfb b -> PR2 (v <| pv_to := b |>).
Proof. intros (A & B & C) H. split; [apply PRv_to; exact A|]. destruct v; cbn in *. auto. Qed.
Lemma PR2_other v v' : PR2 v -> PRv v' -> pv_from v' = pv_from v -> pv_to v' = pv_to v -> PR2 v'.
Proof. intros (A & B & C) H E1 E2. split; [exact H|]. rewrite E1, E2. auto. Qed.

Lemma UBct_newhdr i c : UBct i c -> UBct i (c <| ct_hno := ct_hno c + 1 |> <| ct_lasthval := pf0 |>).
Proof.
  intros (A & B & C & D). destruct c as [vals n hno mx mn lh last first].
  change ((mkcontacts vals n hno mx mn lh last first) <| ct_hno := ct_hno (mkcontacts vals n hno mx mn lh last first) + 1 |> <| ct_lasthval := pf0 |>)
    with (mkcontacts vals n (hno + 1) mx mn pf0 last first).
  unfold UBct in *. cbn [ct_vals ct_last ct_first ct_lasthval] in *. split; [exact A|]. split; [exact B|]. split; [exact C|]. unfold pf_end, pf0. cbn [po pl]. apply N.le_0_l.
Qed.
Lemma UBpa_newhdr i c : UBpa i c -> UBpa i (c <| pa_hno := pa_hno c + 1 |> <| pa_lasthval := pf0 |>).
Proof.
  intros (A & B & D). destruct c as [vals n hno lh last].
  change ((mkpais vals n hno lh last) <| pa_hno := pa_hno (mkpais vals n hno lh last) + 1 |> <| pa_lasthval := pf0 |>)
    with (mkpais vals n (hno + 1) pf0 last).
  unfold UBpa in *. cbn [pa_vals pa_last pa_lasthval] in *. split; [exact A|]. split; [exact B|]. unfold pf_end, pf0. cbn [po pl]. apply N.le_0_l.
Qed.

Lemma hb_run_UB hs v' pre rest o st : o = nnat (length pre) -> hb_pick st = Some (hs, v') -> UPo o (hx_pv st) ->
  match hb_run hs pre rest o st v' with
  | Ret n e st' => e = EOk -> o <= n /\ UPo n (hx_pv st')
  | _ => True
  end.
Proof.
  intros Ho. unfold hb_pick. destruct (hx_pv st) as [v|] eqn:Epv; [|discriminate]. cbv zeta. intros Hpick [HUB HPR].
  pose proof HUB as (U1 & U2 & U3 & U4 & U5 & U6 & U7 & U8). pose proof HPR as (HPRv & F1 & F2).
  pose proof HPRv as (P1 & P2 & P3 & P4 & P5 & P6).
  set (t := h_type (hx_h st)) in *.
  assert (Fin : forall {B} (R : list byte -> list byte -> N -> B -> res B) sel put valof hs0 (vv : phvals),
            (forall pre rest o st v, hb_run hs0 pre rest o st v
               = hb_finish (R pre rest o (sel v)) (st <| hx_h := (hx_h st) <| h_state := hs0 |> |>) valof (put v)) ->
            (forall n b', R pre rest o (sel vv) = Done n EOk b' -> o <= n /\ UBv n (put vv b') /\ PR2 (put vv b')) ->
            match hb_run hs0 pre rest o st vv with
            | Ret n e st' => e = EOk -> o <= n /\ UPo n (hx_pv st')
            | _ => True
            end).
  { intros B R sel put valof hs0 vv Hdef HR. pose proof (hb_lay R sel put valof hs0 Hdef pre rest o st vv) as H.
    destruct (hb_run hs0 pre rest o st vv) as [|n e st'|]; [exact I| |exact I].
    destruct H as (b' & ER & Epv' & _). intros He. subst e. destruct (HR n b' ER) as (A & B1 & C). split; [exact A|]. rewrite Epv'. split; assumption. }
  destruct (t =? HdrFrom) eqn:E1.
  { destruct (fb_parsed (pv_from v)) eqn:Ep; [discriminate|]. injection Hpick as <- <-.
    apply (Fin _ (fun pre rest o b => run (fb_iter HdrFrom) pre rest o 0 b) pv_from (fun v b => v <| pv_from := b |>) fb_v HFrom v); [reflexivity|].
    intros n b' ER. destruct F1 as [X|X]; [congruence|]. rewrite X in ER.
    destruct (fb_fresh_ub HdrFrom pre rest o n EOk b' Ho ER (or_introl eq_refl)) as (A & B1 & C).
    split; [exact A|]. split; [apply UB_from; [apply (UBv_mono o); assumption|exact B1]|apply PR2_from; [exact HPR|left; exact C]]. }
  destruct (t =? HdrTo) eqn:E2.
  { destruct (fb_parsed (pv_to v)) eqn:Ep; [discriminate|]. injection Hpick as <- <-.
    apply (Fin _ (fun pre rest o b => run (fb_iter HdrTo) pre rest o 0 b) pv_to (fun v b => v <| pv_to := b |>) fb_v HTo v); [reflexivity|].
    intros n b' ER. destruct F2 as [X|X]; [congruence|]. rewrite X in ER.
    destruct (fb_fresh_ub HdrTo pre rest o n EOk b' Ho ER (or_introl eq_refl)) as (A & B1 & C).
    split; [exact A|]. split; [apply UB_to; [apply (UBv_mono o); assumption|exact B1]|apply PR2_to; [exact HPR|left; exact C]]. }
  destruct (t =? HdrCallID) eqn:E3.
  { destruct (ci_parsed (pv_callid v)) eqn:Ep; [discriminate|]. injection Hpick as <- <-.
    apply (Fin _ (fun pre rest o b => run ci_iter pre rest o 0 b) pv_callid (fun v b => v <| pv_callid := b |>) ci_callid HCallID v); [reflexivity|].
    intros n b' ER. destruct (ci_run_ub pre rest o _ n b' Ho P1 Ep U3 ER) as [A B1].
    pose proof (run_ok_state ci_iter _ ci_iter_ok_parsed _ _ _ _ _ _ ER) as Hpar.
    split; [exact A|]. split; [apply UB_callid; [apply (UBv_mono o); assumption|exact B1]|].
    apply (PR2_other v); [exact HPR|apply PRv_callid; [exact HPRv|left; exact Hpar]|destruct v; reflexivity|destruct v; reflexivity]. }
  destruct (t =? HdrCSeq) eqn:E4.
  { destruct (cs_parsed (pv_cseq v)) eqn:Ep; [discriminate|]. injection Hpick as <- <-.
    apply (Fin _ (fun pre rest o b => run cs_iter pre rest o 0 b) pv_cseq (fun v b => v <| pv_cseq := b |>) cs_v HCSeq v); [reflexivity|].
    intros n b' ER. destruct (cs_run_ub pre rest o _ n b' Ho U4 ER) as [A B1].
    pose proof (run_ok_state cs_iter _ cs_iter_ok_parsed _ _ _ _ _ _ ER) as Hpar.
    split; [exact A|]. split; [apply UB_cseq; [apply (UBv_mono o); assumption|exact B1]|].
    apply (PR2_other v); [exact HPR|apply PRv_cseq; [exact HPRv|left; exact Hpar]|destruct v; reflexivity|destruct v; reflexivity]. }
  destruct (t =? HdrCLen) eqn:E5.
  { destruct (ui_parsed (pv_clen v)) eqn:Ep; [discriminate|]. injection Hpick as <- <-.
    apply (Fin _ clen_R pv_clen (fun v b => v <| pv_clen := b |>) ui_sval HCLen v); [reflexivity|].
    intros n b' ER. destruct (clen_run_ub pre rest o _ n b' Ho P3 Ep U5 ER) as [A B1].
    assert (Hpar : ui_parsed b' = true).
    { unfold clen_R in ER. destruct (run ui_iter pre rest o 0 (pv_clen v)) as [n1 e1 b1| |] eqn:E; try discriminate.
      destruct e1; try discriminate. destruct (_ || _); [discriminate|]. injection ER as <- <-.
      exact (run_ok_state ui_iter _ ui_iter_ok_parsed _ _ _ _ _ _ E). }
    split; [exact A|]. split; [apply UB_clen; [apply (UBv_mono o); assumption|exact B1]|].
    apply (PR2_other v); [exact HPR|apply PRv_clen; [exact HPRv|left; exact Hpar]|destruct v; reflexivity|destruct v; reflexivity]. }
  destruct (t =? HdrContact) eqn:E6.
  { injection Hpick as <- <-.
    set (c1 := (pv_contacts v) <| ct_hno := ct_hno (pv_contacts v) + 1 |> <| ct_lasthval := pf0 |>).
    assert (Hc1 : LBct 0 c1) by (subst c1; apply ct_newhdr_LB; exact P5).
    assert (Hu1 : UBct o c1) by (subst c1; apply UBct_newhdr; exact U7).
    apply (Fin _ (fun pre rest o b => run ct_iter pre rest o 0 b) pv_contacts (fun v b => v <| pv_contacts := b |>) ct_lasthval HContact); [reflexivity|].
    intros n b' ER. replace (pv_contacts (v <| pv_contacts := c1 |>)) with c1 in ER by (destruct v; reflexivity).
    destruct (ct_run_ub pre rest o c1 n b' Ho Hu1 Hc1 ER) as (A & B1 & (W' & S' & _)).
    split; [exact A|]. split.
    - replace ((v <| pv_contacts := c1 |>) <| pv_contacts := b' |>) with (v <| pv_contacts := b' |>) by (destruct v; reflexivity).
      apply UB_contacts; [apply (UBv_mono o); assumption|exact B1].
    - apply (PR2_other v); [exact HPR| |destruct v; reflexivity|destruct v; reflexivity].
      apply PRv_contacts; [apply PRv_contacts; [exact HPRv|destruct Hc1 as (X & Y & _); split; assumption]|split; assumption]. }
  destruct (t =? HdrExpires) eqn:E7.
  { destruct (ui_parsed (pv_expires v)) eqn:Ep; [discriminate|]. injection Hpick as <- <-.
    apply (Fin _ (fun pre rest o b => run ui_iter pre rest o 0 b) pv_expires (fun v b => v <| pv_expires := b |>) ui_sval HExpires v); [reflexivity|].
    intros n b' ER. destruct (ui_run_ub pre rest o _ n b' Ho P4 Ep U6 ER) as [A B1].
    pose proof (run_ok_state ui_iter _ ui_iter_ok_parsed _ _ _ _ _ _ ER) as Hpar.
    split; [exact A|]. split; [apply UB_expires; [apply (UBv_mono o); assumption|exact B1]|].
    apply (PR2_other v); [exact HPR|apply PRv_expires; [exact HPRv|left; exact Hpar]|destruct v; reflexivity|destruct v; reflexivity]. }
  destruct (t =? HdrPAI) eqn:E8; [|discriminate].
  injection Hpick as <- <-.
  set (c1 := (pv_pais v) <| pa_hno := pa_hno (pv_pais v) + 1 |> <| pa_lasthval := pf0 |>).
  assert (Hc1 : LBpa 0 c1) by (subst c1; apply pa_newhdr_LB; exact P6).
  assert (Hu1 : UBpa o c1) by (subst c1; apply UBpa_newhdr; exact U8).
  apply (Fin _ (fun pre rest o b => run pa_iter pre rest o 0 b) pv_pais (fun v b => v <| pv_pais := b |>) pa_lasthval HPAI); [reflexivity|].
  intros n b' ER. replace (pv_pais (v <| pv_pais := c1 |>)) with c1 in ER by (destruct v; reflexivity).
  destruct (pa_run_ub pre rest o c1 n b' Ho Hu1 Hc1 ER) as (A & B1 & (W' & S' & _)).
  split; [exact A|]. split.
  - replace ((v <| pv_pais := c1 |>) <| pv_pais := b' |>) with (v <| pv_pais := b' |>) by (destruct v; reflexivity).
    apply UB_pais; [apply (UBv_mono o); assumption|exact B1].
  - apply (PR2_other v); [exact HPR| |destruct v; reflexivity|destruct v; reflexivity].
    apply PRv_pais; [apply PRv_pais; [exact HPRv|destruct Hc1 as (X & Y & _); split; assumption]|split; assumption].
Qed.

Definition noE {St} (r : ires St) : Prop := match r with Ret _ EEmpty _ => False | _ => True end.
Lemma noE_endOfHdr h pre rest i0 i ret e s : e <> EEmpty -> noE (fb_endOfHdr h pre rest i0 i ret e s).
Proof. intros He. unfold fb_endOfHdr. destruct (fb_close _ _ _ _ _) as [[s1|]|]; cbn; auto; [destruct e; auto; congruence|destruct (fb_state s); exact I]. Qed.
Lemma noE_lws h pre rest i s : noE (fb_lws h pre rest i s).
Proof. unfold fb_lws. destruct (skipLWS false rest); try exact I. apply noE_endOfHdr. discriminate. Qed.
Lemma noE_lws_b h pre rest i s upd : noE (fb_lws_b h pre rest i s upd).
Proof. unfold fb_lws_b. destruct (skipLWS false rest); try exact I. apply noE_endOfHdr. discriminate. Qed.
Lemma noE_comma h pre rest i s : noE (fb_comma h pre rest i s).
Proof. unfold fb_comma, fb_moreValues. destruct (multipleValsOk h); [apply noE_endOfHdr; discriminate|exact I]. Qed.
Lemma noE_comma_strict h pre rest i s : noE (fb_comma_strict h pre rest i s).
Proof. unfold fb_comma_strict, fb_moreValues, fb_bad. destruct (multipleValsOk h); [apply noE_endOfHdr; discriminate|exact I]. Qed.
Lemma noE_setpv pre rest i s : noE (fb_setpv pre rest i s).
Proof. unfold fb_setpv. destruct (setFromParamVal _ _ _ _); exact I. Qed.
Ltac noe := repeat match goal with
  | |- noE (fb_lws _ _ _ _ _) => apply noE_lws
  | |- noE (fb_lws_b _ _ _ _ _ _) => apply noE_lws_b
  | |- noE (fb_comma _ _ _ _ _) => apply noE_comma
  | |- noE (fb_comma_strict _ _ _ _ _) => apply noE_comma_strict
  | |- noE (fb_setpv _ _ _ _) => apply noE_setpv
  | |- noE (fb_bad _ _) => exact I
  | |- noE (Next _ _) => exact I
  | |- noE IPanic => exact I
  | |- noE (if ?b then _ else _) => destruct b
  | |- noE (match ?x with _ => _ end) => destruct x
  | |- noE (Ret _ _ _) => exact I
  end.
Lemma fb_iter_noE h pre rest i s : noE (fb_iter h pre rest i s).
Proof.
  unfold fb_iter. destruct (fb_state s) eqn:Est; try exact I; destruct rest as [|c r1]; try exact I; unfold fb_step;
    unfold fb_gA, fb_gQ, fb_gURI, fb_gURIFound, fb_gP, fb_gPE, fb_gV, fb_gVE, fb_gStar; destruct (ccls_of c); cbv zeta; noe.
Qed.

Lemma run_noE {St} (iter : list byte -> list byte -> N -> St -> ires St) :
  (forall pre rest i s, noE (iter pre rest i s)) -> forall rest pre i s o e s', run iter pre rest i 0 s = Done o e s' -> e <> EEmpty.
Proof.
  intros Hit rest pre i s o e s' H.
  pose proof (run_inv iter (fun _ _ _ => True) (fun _ e0 _ => e0 <> EEmpty)) as R.
  specialize (R ltac:(intros p r j t _; pose proof (Hit p r j t) as X; destruct (iter p r j t) as [| ? [] ?|]; auto; discriminate) rest pre i s I).
  rewrite H in R. exact R.
Qed.
Lemma ci_iter_noE pre rest i s : noE (ci_iter pre rest i s).
Proof.
  unfold ci_iter, ci_lws, ci_endOfHdr. destruct (ci_state s) eqn:Est; try exact I.
  all: destruct rest as [|c r]; try exact I.
  all: destruct (is_ws c); try exact I.
  all: try destruct (pf_set _ _); try exact I.
  all: destruct (skipLWS false (c :: r)); try exact I; cbn; rewrite ?Est; try exact I.
  all: try destruct (pf_set _ _); exact I.
Qed.
Lemma ui_iter_noE pre rest i s : noE (ui_iter pre rest i s).
Proof.
  unfold ui_iter, ui_lws, ui_endOfHdr. destruct (ui_state s) eqn:Est; try exact I.
  all: destruct rest as [|c r]; try exact I.
  all: destruct (is_ws c); [|destruct (is_digit c); try exact I; try destruct (acc32 _ _); exact I].
  all: try destruct (pf_set _ _); try exact I.
  all: destruct (skipLWS false (c :: r)); try exact I; cbn; rewrite ?Est; try exact I.
  all: try destruct (pf_set _ _); exact I.
Qed.
Lemma cs_iter_noE pre rest i s : noE (cs_iter pre rest i s).
Proof.
  unfold cs_iter, cs_lws, cs_endOfHdr, cs_finish. destruct (cs_state s) eqn:Est; try exact I.
  all: destruct rest as [|c r]; try exact I.
  all: destruct (is_ws c); [|destruct (is_digit c); try exact I; try destruct (acc32 _ _); exact I].
  all: repeat (try destruct (pf_set _ _); try destruct (pf_extend _ _)); try exact I.
  all: destruct (skipLWS false (c :: r)); try exact I; cbn; rewrite ?Est; try exact I.
  all: repeat (try destruct (pf_set _ _); try destruct (pf_extend _ _)); try exact I.
  all: destruct (_ || _); try exact I; destruct (zget _ _ _ _); exact I.
Qed.
Lemma ct_iter_noE pre rest i c : noE (ct_iter pre rest i c).
Proof.
  rewrite ct_iter_def. destruct (run (fb_iter HdrContact) pre rest i 0 (ct_sel c)) as [next e v| |] eqn:Er; try exact I.
  pose proof (run_noE (fb_iter HdrContact) (fb_iter_noE HdrContact) _ _ _ _ _ _ _ Er) as He.
  rewrite ct_post_eq. cbv zeta. destruct e; try exact I; try congruence; destruct (ct_count _ _); exact I.
Qed.
Lemma pa_iter_noE pre rest i c : noE (pa_iter pre rest i c).
Proof.
  rewrite pa_iter_def. destruct (run (fb_iter HdrPAI) pre rest i 0 (pa_sel c)) as [next e v| |] eqn:Er; try exact I.
  pose proof (run_noE (fb_iter HdrPAI) (fb_iter_noE HdrPAI) _ _ _ _ _ _ _ Er) as He.
  unfold pa_post. cbv zeta.
  destruct e; cbn [err_eqb orb andb]; try exact I; try congruence;
    try (destruct (fb_star v); cbn [andb]; try exact I; destruct (if (pa_n _ =? 0) || _ then _ else _); exact I).
Qed.
Lemma hb_run_noEmpty hs pre rest o st v : match hb_run hs pre rest o st v with Ret _ e _ => e <> EEmpty | _ => True end.
Proof.
  assert (Fin : forall {B} (r : res B) st0 valof put, (forall n e b, r = Done n e b -> e <> EEmpty) ->
            match hb_finish r st0 valof put with Ret _ e _ => e <> EEmpty | _ => True end).
  { intros B r st0 valof put H. unfold hb_finish. destruct r as [n e b| |]; try exact I. exact (H n e b eq_refl). }
  unfold hb_run. cbv zeta. destruct hs; try exact I; apply Fin; intros n e b Er.
  - exact (run_noE _ (fb_iter_noE HdrFrom) _ _ _ _ _ _ _ Er).
  - exact (run_noE _ (fb_iter_noE HdrTo) _ _ _ _ _ _ _ Er).
  - exact (run_noE _ ci_iter_noE _ _ _ _ _ _ _ Er).
  - exact (run_noE _ cs_iter_noE _ _ _ _ _ _ _ Er).
  - destruct (run ui_iter pre rest o 0 (pv_clen v)) as [n1 e1 b1| |] eqn:E; try discriminate.
    pose proof (run_noE _ ui_iter_noE _ _ _ _ _ _ _ E) as H1. destruct e1; try (injection Er as <- <- <-; exact H1); try congruence.
    destruct (_ || _); injection Er as <- <- <-; discriminate.
  - exact (run_noE _ ct_iter_noE _ _ _ _ _ _ _ Er).
  - exact (run_noE _ ui_iter_noE _ _ _ _ _ _ _ Er).
  - exact (run_noE _ pa_iter_noE _ _ _ _ _ _ _ Er).
Qed.

(* ---- header line, block, message (one call from fresh objects) ------------------------------------------------------------------- *)
Definition UL (pre : list byte) (i : N) (st : hline) : Prop :=
  match h_state (hx_h st) with
  | HInit | HName | HNameEnd | HBodyStart | HVal | HValEnd | HFIN => UPo i (hx_pv st)
  | _ => False
  end.
Definition UQ (pre rest : list byte) (i o : N) (e : err) (st : hline) : Prop := e = EOk \/ e = EEmpty -> i <= o /\ UPo o (hx_pv st).
Definition UL_res (pre rest : list byte) (i : N) (r : ires hline) : Prop :=
  match r with
  | Next k st' => (0 < k)%nat -> (k <= length rest)%nat -> UL (zpre k pre rest) (i + nnat k) st'
  | Ret o e st' => UQ pre rest i o e st'
  | IPanic => True
  end.
Definition genstate (s : hst) : bool := match s with HInit | HName | HNameEnd | HBodyStart | HVal | HValEnd | HFIN => true | _ => false end.
Lemma UL_intro pre i st p : hx_pv st = p -> genstate (h_state (hx_h st)) = true -> UPo i p -> UL pre i st.
Proof. intros <- Hg H. unfold UL. destruct (h_state (hx_h st)); try discriminate; exact H. Qed.

Lemma colon_UL pre rest i k st : i = nnat (length pre) -> (S k <= length rest)%nat -> UPo i (hx_pv st) ->
  UL_res pre rest i (hl_colon pre rest i k st).
Proof.
  intros Hi Hk Hpr. rewrite hl_colon_eq. unfold hl_colon'. destruct (zget _ _ _ _) as [name|]; [|exact I]. cbv zeta.
  assert (Ho : i + nnat k + 1 = nnat (length (zpre (S k) pre rest))).
  { unfold zpre. rewrite app_length, rev_length, firstn_length. unfold nnat in *. lia. }
  set (st1 := st <| hx_h := (hx_h st) <| h_state := HBodyStart |> <| h_type := get_hdr_type name |> |>).
  assert (F1 : hx_pv st1 = hx_pv st) by (subst st1; destruct st as [h pv]; reflexivity).
  assert (F2 : h_state (hx_h st1) = HBodyStart) by (subst st1; destruct st as [h pv]; destruct h; reflexivity).
  clearbody st1.
  destruct (hb_pick st1) as [[hs v']|] eqn:Ep.
  - pose proof (hb_run_UB hs v' (zpre (S k) pre rest) (zrest (S k) rest) (i + nnat k + 1) st1 Ho Ep
                  ltac:(rewrite F1; apply (UPo_mono i); [lia|exact Hpr])) as H.
    pose proof (hb_run_noNext hs (zpre (S k) pre rest) (zrest (S k) rest) (i + nnat k + 1) st1 v') as Hnn.
    destruct (hb_run hs _ _ _ st1 v') as [|n e st'|] eqn:Ehb; [destruct Hnn| |exact I].
    unfold UL_res, UQ. intros [He|He]; [destruct (H He) as [A B]; split; [lia|exact B]|].
    pose proof (hb_run_noEmpty hs (zpre (S k) pre rest) (zrest (S k) rest) (i + nnat k + 1) st1 v') as Hne. rewrite Ehb in Hne. congruence.
  - unfold UL_res. intros _ _. apply (UL_intro _ _ st1 (hx_pv st) F1); [rewrite F2; reflexivity|]. apply (UPo_mono i); [unfold nnat; lia|exact Hpr].
Qed.

Lemma name_ph_UL pre rest i st : i = nnat (length pre) -> UPo i (hx_pv st) -> UL_res pre rest i (hl_name_ph pre rest i st).
Proof.
  intros Hi Hpr. unfold hl_name_ph. cbv zeta. set (k := skipTokenDelim 58 rest).
  destruct (skipn k rest) as [|c r] eqn:Sk; [intros [E|E]; discriminate E|]. pose proof (skipn_cons_len _ _ _ _ Sk) as Hk.
  destruct (is_sp c).
  - destruct (pf_extend (h_name (hx_h st)) (i + nnat k)) as [n|]; [|exact I]. destruct (pf_empty n); [intros [E|E]; discriminate E|].
    unfold UL_res. intros _ _.
    match goal with |- UL _ _ ?S => set (st' := S) end.
    assert (F1 : hx_pv st' = hx_pv st) by (subst st'; destruct st as [h pv]; reflexivity).
    assert (F2 : h_state (hx_h st') = HNameEnd) by (subst st'; destruct st as [h pv]; destruct h; reflexivity).
    clearbody st'. apply (UL_intro _ _ st' (hx_pv st) F1); [rewrite F2; reflexivity|apply (UPo_mono i); [unfold nnat; lia|exact Hpr]].
  - destruct (c =? 58); [|intros [E|E]; discriminate E].
    destruct (pf_extend (h_name (hx_h st)) (i + nnat k)) as [n|]; [|exact I]. destruct (pf_empty n); [intros [E|E]; discriminate E|].
    match goal with |- UL_res _ _ _ (hl_colon _ _ _ _ ?S) => set (st' := S) end.
    assert (F1 : hx_pv st' = hx_pv st) by (subst st'; destruct st as [h pv]; reflexivity).
    clearbody st'. apply colon_UL; [exact Hi|exact Hk|rewrite F1; exact Hpr].
Qed.

Lemma UL_step pre rest i st : i = nnat (length pre) -> UL pre i st -> UL_res pre rest i (hl_iter pre rest i st).
Proof.
  intros Hi Hs. unfold UL in Hs. destruct rest as [|c r].
  { unfold hl_iter, UL_res. intros [E|E]; discriminate E. }
  destruct (h_state (hx_h st)) eqn:Est; try contradiction.
  - rewrite (hit_init pre c r i st Est).
    assert (Hemp : forall o', i <= o' -> UL_res pre (c :: r) i (Ret o' EEmpty (st <| hx_h := (hx_h st) <| h_state := HFIN |> |>))).
    { intros o' Ho'. unfold UL_res, UQ. intros _. split; [exact Ho'|].
      replace (hx_pv (st <| hx_h := (hx_h st) <| h_state := HFIN |> |>)) with (hx_pv st) by (destruct st as [h pv]; reflexivity).
      apply (UPo_mono i); assumption. }
    destruct (is_cr c); [destruct r as [|d r2]; [intros [E|E]; discriminate E|apply Hemp; destruct (is_lf d); lia]|].
    destruct (is_lf c); [apply Hemp; lia|].
    destruct (pf_set i i) as [n|]; [|exact I]. cbv beta iota.
    apply name_ph_UL; [exact Hi|]. destruct st as [h pv]; exact Hs.
  - rewrite (hit_name pre _ i st Est). apply name_ph_UL; assumption.
  - rewrite (hit_nameend pre _ i st Est). unfold hl_nameend. cbv zeta.
    destruct (skipn _ (c :: r)) as [|d r'] eqn:Sk; [intros [E|E]; discriminate E|]. destruct (d =? 58); [|intros [E|E]; discriminate E].
    apply colon_UL; [exact Hi|exact (skipn_cons_len _ _ _ _ Sk)|exact Hs].
  - rewrite (hit_bstart pre _ i st Est). unfold hl_bstart.
    destruct (skipLWS false (c :: r)) as [k|k crl|k]; [| |intros [E|E]; discriminate E].
    + destruct (pf_set _ _) as [v|]; [|exact I]. unfold UL_res. intros _ _.
      match goal with |- UL _ _ ?S => set (st' := S) end.
      assert (F1 : hx_pv st' = hx_pv st) by (subst st'; destruct st as [h pv]; reflexivity).
      assert (F2 : h_state (hx_h st') = HVal) by (subst st'; destruct st as [h pv]; destruct h; reflexivity).
      clearbody st'. apply (UL_intro _ _ st' (hx_pv st) F1); [rewrite F2; reflexivity|apply (UPo_mono i); [unfold nnat; lia|exact Hs]].
    + unfold UL_res, UQ. intros _. split; [unfold nnat; lia|].
      match goal with |- UPo _ (hx_pv ?S) => replace (hx_pv S) with (hx_pv st) by (destruct st as [h pv]; reflexivity) end.
      apply (UPo_mono i); [unfold nnat; lia|exact Hs].
  - rewrite (hit_val pre _ i st Est). unfold hl_val. cbv zeta.
    destruct (skipn (skipToken (c :: r)) (c :: r)) as [|d r']; [intros [E|E]; discriminate E|].
    destruct (pf_extend _ _) as [v1|]; [|exact I]. unfold hl_valend.
    destruct (skipLWS false (d :: r')) as [k2|k2 crl|k2]; [| |intros [E|E]; discriminate E].
    + unfold UL_res. intros _ _.
      match goal with |- UL _ _ ?S => set (st' := S) end.
      assert (F1 : hx_pv st' = hx_pv st) by (subst st'; destruct st as [h pv]; reflexivity).
      assert (F2 : h_state (hx_h st') = HVal) by (subst st'; destruct st as [h pv]; destruct h; reflexivity).
      clearbody st'. apply (UL_intro _ _ st' (hx_pv st) F1); [rewrite F2; reflexivity|apply (UPo_mono i); [unfold nnat; lia|exact Hs]].
    + unfold UL_res, UQ. intros _. split; [unfold nnat; lia|].
      match goal with |- UPo _ (hx_pv ?S) => replace (hx_pv S) with (hx_pv st) by (destruct st as [h pv]; reflexivity) end.
      apply (UPo_mono i); [unfold nnat; lia|exact Hs].
  - rewrite (hit_valend pre _ i st Est). unfold hl_valend.
    destruct (skipLWS false (c :: r)) as [k2|k2 crl|k2]; [| |intros [E|E]; discriminate E].
    + unfold UL_res. intros _ _.
      match goal with |- UL _ _ ?S => set (st' := S) end.
      assert (F1 : hx_pv st' = hx_pv st) by (subst st'; destruct st as [h pv]; reflexivity).
      assert (F2 : h_state (hx_h st') = HVal) by (subst st'; destruct st as [h pv]; destruct h; reflexivity).
      clearbody st'. apply (UL_intro _ _ st' (hx_pv st) F1); [rewrite F2; reflexivity|apply (UPo_mono i); [unfold nnat; lia|exact Hs]].
    + unfold UL_res, UQ. intros _. split; [unfold nnat; lia|].
      match goal with |- UPo _ (hx_pv ?S) => replace (hx_pv S) with (hx_pv st) by (destruct st as [h pv]; reflexivity) end.
      apply (UPo_mono i); [unfold nnat; lia|exact Hs].
  - rewrite (hit_fin pre c r i st Est). intros [E|E]; discriminate E.
Qed.


Definition BU (pre : list byte) (i : N) (st : hdrs_st) : Prop := UPo i (hs_pv st) /\ LI (hs_l st).
Definition BUQ (pre rest : list byte) (i o : N) (e : err) (st : hdrs_st) : Prop := e = EOk -> i <= o /\ UPo o (hs_pv st).

Lemma BU_step pre rest i st : i = nnat (length pre) -> BU pre i st ->
  match hs_iter pre rest i st with
  | Next k st' => (0 < k)%nat -> (k <= length rest)%nat -> BU (zpre k pre rest) (i + nnat k) st'
  | Ret o e st' => BUQ pre rest i o e st'
  | IPanic => True
  end.
Proof.
  intros Hi (Hp & [Hwf Hslot]). destruct rest as [|c r]; [intros E; discriminate E|].
  rewrite hs_iter_def. unfold hs_sel. rewrite Hslot.
  pose proof (run_invQ hl_iter (fun p j s => i <= j /\ UL p j s) (fun _ _ _ o e s => e = EOk \/ e = EEmpty -> i <= o /\ UPo o (hx_pv s))) as R.
  specialize (R ltac:(intros p r0 j s Hj [P0 P1]; pose proof (UL_step p r0 j s Hj P1) as X; destruct (hl_iter p r0 j s) as [k s'|o e s'|]; auto;
                      [intros Hk0 Hk; split; [unfold nnat; lia|exact (X Hk0 Hk)]|intros He; destruct (X He) as [A B]; split; [lia|exact B]])
                (c :: r) pre i (mkhline hdr0 (hs_pv st)) Hi (conj (N.le_refl i) Hp)).
  destruct (run hl_iter pre (c :: r) i 0 (mkhline hdr0 (hs_pv st))) as [n e x| |] eqn:Er; [|exact I|exact I].
  destruct R as (p' & r' & i' & _ & _ & Hge).
  destruct e; try (unfold hs_post; intros E; discriminate E).
  - rewrite hs_post_ok. intros Hk0 Hk. destruct (Hge (or_introl eq_refl)) as [A B].
    split; [|apply hl_add_LI; split; assumption]. cbn [hs_pv].
    replace (i + nnat (N.to_nat (n - i))) with n by (unfold nnat in *; lia). exact B.
  - unfold hs_post. cbv zeta. destruct (0 <? _); [|intros E; discriminate E]. intros _. cbn [hs_pv]. exact (Hge (or_intror eq_refl)).
Qed.

Lemma PR2_init nc : PR2 (phvals_init (repeat pfrom0 nc)).
Proof. split; [apply PRv_init|]. split; right; reflexivity. Qed.
Lemma UBv_init i nc : UBv i (phvals_init (repeat pfrom0 nc)).
Proof.
  unfold UBv, phvals_init. cbn [pv_from pv_to pv_callid pv_cseq pv_clen pv_expires pv_contacts pv_pais].
  split; [apply UBfb_0|]. split; [apply UBfb_0|]. split; [unfold UBci, pf_end; cbn; apply N.le_0_l|].
  split; [unfold cs_inv, pf_end; cbn; repeat split; apply N.le_0_l|]. split; [unfold UBui, pf_end; cbn; apply N.le_0_l|].
  split; [unfold UBui, pf_end; cbn; apply N.le_0_l|]. split.
  - unfold UBct, contacts_init. cbn [ct_vals ct_last ct_first ct_lasthval].
    split; [apply Forall_forall; intros x Hx; apply repeat_spec in Hx; subst x; apply UBfb_0|].
    split; [apply UBfb_0|]. split; [apply UBfb_0|unfold pf_end; cbn; apply N.le_0_l].
  - unfold UBpa, pais0. cbn [pa_vals pa_last pa_lasthval].
    split; [apply Forall_forall; intros x Hx; apply repeat_spec in Hx; subst x; apply UBfb_0|]. split; [apply UBfb_0|unfold pf_end; cbn; apply N.le_0_l].
Qed.

Theorem headers_ub buf offs ncap nc o st' : offs <= nnat (length buf) ->
  parse_headers buf offs (mkhdrs_st (hdrlst_init (repeat hdr0 ncap)) (Some (phvals_init (repeat pfrom0 nc)))) = Done o EOk st' ->
  offs <= o /\ UPo o (hs_pv st').
Proof.
  intros Ho H. unfold parse_headers, parse in H. unfold zinit in H.
  assert (Hi : offs = nnat (length (rev (firstn (N.to_nat offs) buf)))) by (rewrite rev_length, firstn_length; unfold nnat in *; lia).
  pose proof (run_invQ hs_iter (fun p j s => offs <= j /\ BU p j s) (fun _ _ _ o0 e s => e = EOk -> offs <= o0 /\ UPo o0 (hs_pv s))) as R.
  specialize (R ltac:(intros p r0 j s Hj [P0 P1]; pose proof (BU_step p r0 j s Hj P1) as X; destruct (hs_iter p r0 j s) as [k s'|o0 e s'|]; auto;
                      [intros Hk0 Hk; split; [unfold nnat; lia|exact (X Hk0 Hk)]|intros He; destruct (X He) as [A B]; split; [lia|exact B]])
                (skipn (N.to_nat offs) buf) (rev (firstn (N.to_nat offs) buf)) offs (mkhdrs_st (hdrlst_init (repeat hdr0 ncap)) (Some (phvals_init (repeat pfrom0 nc)))) Hi).
  specialize (R ltac:(split; [lia|]; split; [split; [apply UBv_init|apply PR2_init]|];
                      unfold LI, hdrlst_init; cbn; split; [split; [intros j _; apply nth_repeat|reflexivity]|];
                      unfold hl_slot, hl_is_tmp, hl_cap; cbn; destruct (_ <=? 0); [reflexivity|apply nth_repeat])).
  rewrite H in R. destruct R as (_ & _ & _ & _ & _ & HQ). exact (HQ eq_refl).
Qed.

From Sipsp Require Import MsgBounds ExtMsg SigCoherent.

Lemma body_po flags L o m : match msg_body flags L o m with Done _ _ m' => po (m_body m') = o | _ => True end.
Proof.
  unfold msg_body, msg_end. unfold pf_set. rewrite N.ltb_irrefl, N.sub_diag. destruct m as [fl hs body bl raw st offs].
  cbn -[testbit N.ltb N.add N.sub pf_extend]. unfold pf_extend. cbn [po pl].
  repeat match goal with
         | |- context [if ?b then _ else _] => destruct b
         end; try exact I; reflexivity.
Qed.

(* every PHdrVals field of a parsed message ends at or before the offset where the header block ended *)
Theorem message_ub flags buf offs bl n nc o e m' : offs <= nnat (length buf) ->
  parse_sipmsg flags buf offs (msg_init bl (repeat hdr0 n) (repeat pfrom0 nc)) = Done o e m' -> m_state m' = MFIN \/ m_state m' = MNoCLen ->
  UBv (po (m_body m')) (msg_pv m').
Proof.
  intros Hoffs. unfold parse_sipmsg, msg_init. cbn -[msg_fline]. unfold msg_fline. cbn -[parse_fline msg_headers msg_fail].
  pose proof (fline_safe buf offs fline0 Hoffs) as Hfs.
  destruct (parse_fline buf offs fline0) as [o1 e1 fl| |] eqn:Efl; try discriminate.
  assert (Hf : forall oo ee m, (m_state m = MFLine \/ m_state m = MHeaders) -> msg_fail flags oo ee m = Done o e m' -> m_state m' = MFIN \/ m_state m' = MNoCLen ->
            UBv (po (m_body m')) (msg_pv m')).
  { intros oo ee m Hm H Hs. pose proof (fail_ok flags oo ee m) as F. rewrite H in F. destruct F as [F|F]; rewrite F in Hs; destruct Hm as [Hm|Hm]; try rewrite Hm in Hs; destruct Hs; discriminate. }
  destruct e1; try (apply Hf; left; reflexivity).
  unfold msg_headers. cbn -[parse_headers msg_body msg_fail].
  assert (Ho1 : o1 <= nnat (length buf)).
  { assert (X : fl_inv offs fline0) by (unfold fl_inv, pf_end; cbn; repeat split; lia). specialize (Hfs X). apply Hfs. }
  pose proof (headers_ub buf o1 n nc) as Hc.
  destruct (parse_headers buf o1 _) as [o2 e2 hs| |]; try discriminate.
  destruct e2; try (apply Hf; right; reflexivity).
  destruct (Hc o2 hs Ho1 eq_refl) as [Ho12 Hup].
  intros H _. match type of H with msg_body ?f ?L ?oo ?mm = _ => pose proof (body_hs f L oo mm) as B; pose proof (body_po f L oo mm) as Bp end.
  rewrite H in B, Bp. unfold msg_pv. rewrite B, Bp.
  match goal with |- context [m_hs ?M] => replace (m_hs M) with hs by reflexivity end.
  destruct (hs_pv hs) as [v|] eqn:Ev.
  - exact (proj1 Hup).
  - exact (UBv_init o2 0).
Qed.

Theorem message_ub_fed flags B offs bl n nc o s o' e m' : testbit flags bSIPMsgNoMoreData = false -> offs <= nnat (length B) ->
  feeds flags B offs (msg_init bl (repeat hdr0 n) (repeat pfrom0 nc)) o s ->
  parse_sipmsg flags B o s = Done o' e m' -> m_state m' = MFIN \/ m_state m' = MNoCLen -> UBv (po (m_body m')) (msg_pv m').
Proof.
  intros Hf Hoffs Hfeed H. rewrite (feeds_same _ _ _ _ _ _ Hf Hfeed) in H. exact (message_ub _ _ _ _ _ _ _ _ _ Hoffs H).
Qed.
