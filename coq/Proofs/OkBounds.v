(* Successful returns make progress and stay inside the buffer; suspended values are unfinished.
   Needed to compose the value parsers under ParseHdrLine / ParseHeaders. *)
From Sipsp Require Import RunLemmas Safe Resume Ext ExtLeaf ZSlice Harness ExtNameAddr ExtNested ExtLists ExtAdv.
From Coq Require Import ZifyN ZifyNat ZifyBool.

Lemma skipLWS_at_crl : forall r k n crl, skipLWS_at false r k = LEOH n crl -> (1 <= crl)%nat.
Proof.
  intros r. remember (length r) as m eqn:Hm. revert r Hm.
  induction m as [m IH] using lt_wf_ind. intros r Hm k n crl. destruct r as [|c r1]; cbn [skipLWS_at]; [discriminate|].
  cbn [length] in Hm.
  destruct (is_sp c); [apply (IH (length r1) ltac:(lia) r1 eq_refl)|].
  destruct (is_cr c).
  { destruct r1 as [|d r2]; [discriminate|]. cbn [length] in *.
    destruct (is_lf d).
    { destruct r2 as [|e r3]; [discriminate|]. cbn [length] in *.
      destruct (is_sp e); [|intros H; injection H as _ <-; lia].
      apply (IH (length (e :: r3)) ltac:(cbn; lia) (e :: r3) eq_refl). }
    destruct (is_sp d); [|intros H; injection H as _ <-; lia].
    apply (IH (length (d :: r2)) ltac:(cbn; lia) (d :: r2) eq_refl). }
  destruct (is_lf c); [|discriminate].
  destruct r1 as [|d r2]; [discriminate|]. cbn [length] in *.
  destruct (is_sp d); [|intros H; injection H as _ <-; lia].
  apply (IH (length (d :: r2)) ltac:(cbn; lia) (d :: r2) eq_refl).
Qed.
Lemma skipLWS_crl r n crl : skipLWS false r = LEOH n crl -> (1 <= crl /\ n + crl <= length r)%nat.
Proof.
  intros H. split; [exact (skipLWS_at_crl r 0 n crl H)|].
  pose proof (skipLWS_bounds false r) as Hb. rewrite H in Hb. exact Hb.
Qed.

Definition okb {St} (fin : St -> Prop) (rest : list byte) (i : N) (s : St) (r : ires St) : Prop :=
  match r with
  | Ret o EOk _ => i <= o /\ (i < o \/ fin s) /\ o <= i + nnat (length rest)
  | _ => True
  end.

(* ---- Call-ID ---------------------------------------------------------------------------------- *)
Lemma ci_iter_ok pre rest i s : okb (fun s => ci_parsed s = true) rest i s (ci_iter pre rest i s).
Proof.
  unfold okb, ci_iter, ci_parsed.
  assert (Hl : forall s1, match ci_lws rest i s1 with
                          | Ret o EOk _ => i <= o /\ (i < o \/ match ci_state s with CiFIN => true | _ => false end = true)
                                           /\ o <= i + nnat (length rest) | _ => True end).
  { intros s1. unfold ci_lws. destruct (skipLWS false rest) as [k|k crl|k] eqn:El; auto.
    apply skipLWS_crl in El. unfold ci_endOfHdr.
    destruct (ci_state s1); try destruct (pf_set _ _); auto; unfold nnat; (split; [lia|split; [left; lia|lia]]). }
  destruct (ci_state s) eqn:Est; try (unfold nnat; split; [lia|split; [right; reflexivity|lia]]).
  all: destruct rest as [|c r]; auto.
  all: destruct (is_ws c); auto; try apply Hl.
  destruct (pf_set _ _); auto. apply Hl.
Qed.
Lemma ci_iter_more pre rest i s : match ci_iter pre rest i s with Ret _ EMore s' => ci_parsed s' = false | _ => True end.
Proof.
  unfold ci_iter, ci_parsed.
  assert (Hl : forall s1, match ci_state s1 with CiFIN => true | _ => false end = false ->
     match ci_lws rest i s1 with Ret _ EMore s' => match ci_state s' with CiFIN => true | _ => false end = false | _ => True end).
  { intros s1 H1. unfold ci_lws. destruct (skipLWS false rest) as [k|k crl|k]; auto.
    unfold ci_endOfHdr. destruct (ci_state s1); try destruct (pf_set _ _); auto. }
  destruct (ci_state s) eqn:Est; auto.
  all: destruct rest as [|c r]; [now rewrite Est|].
  all: destruct (is_ws c); auto; try (apply Hl; now rewrite Est).
  destruct (pf_set _ _); auto. apply Hl. reflexivity.
Qed.

(* ---- unsigned numbers ----------------------------------------------------------------------------- *)
Lemma ui_iter_ok pre rest i s : okb (fun s => ui_parsed s = true) rest i s (ui_iter pre rest i s).
Proof.
  unfold okb, ui_iter, ui_parsed.
  assert (Hl : forall s1, match ui_lws rest i s1 with
                          | Ret o EOk _ => i <= o /\ (i < o \/ match ui_state s with ClFIN => true | _ => false end = true)
                                           /\ o <= i + nnat (length rest) | _ => True end).
  { intros s1. unfold ui_lws. destruct (skipLWS false rest) as [k|k crl|k] eqn:El; auto.
    apply skipLWS_crl in El. unfold ui_endOfHdr.
    destruct (ui_state s1); try destruct (pf_set _ _); auto; unfold nnat; (split; [lia|split; [left; lia|lia]]). }
  destruct (ui_state s) eqn:Est; try (unfold nnat; split; [lia|split; [right; reflexivity|lia]]).
  all: destruct rest as [|c r]; auto.
  all: destruct (is_ws c); auto; try apply Hl.
  all: try (destruct (pf_set _ _); auto; apply Hl).
  all: destruct (is_digit c); auto. destruct (acc32 _ _); auto.
Qed.
Lemma ui_iter_more pre rest i s : match ui_iter pre rest i s with Ret _ EMore s' => ui_parsed s' = false | _ => True end.
Proof.
  unfold ui_iter, ui_parsed.
  assert (Hl : forall s1, match ui_state s1 with ClFIN => true | _ => false end = false ->
     match ui_lws rest i s1 with Ret _ EMore s' => match ui_state s' with ClFIN => true | _ => false end = false | _ => True end).
  { intros s1 H1. unfold ui_lws. destruct (skipLWS false rest) as [k|k crl|k]; auto.
    unfold ui_endOfHdr. destruct (ui_state s1); try destruct (pf_set _ _); auto. }
  destruct (ui_state s) eqn:Est; auto.
  all: destruct rest as [|c r]; [now rewrite Est|].
  all: destruct (is_ws c); auto; try (apply Hl; now rewrite Est).
  all: try (destruct (pf_set _ _); auto; apply Hl; reflexivity).
  all: destruct (is_digit c); auto. destruct (acc32 _ _); auto.
Qed.

(* ---- CSeq --------------------------------------------------------------------------------------------- *)
Lemma cs_iter_ok pre rest i s : okb (fun s => cs_parsed s = true) rest i s (cs_iter pre rest i s).
Proof.
  unfold okb, cs_iter, cs_parsed.
  assert (Hl : forall s1, match cs_lws pre rest i s1 with
                          | Ret o EOk _ => i <= o /\ (i < o \/ match cs_state s with CsFIN => true | _ => false end = true)
                                           /\ o <= i + nnat (length rest) | _ => True end).
  { intros s1. unfold cs_lws. destruct (skipLWS false rest) as [k|k crl|k] eqn:El; auto.
    apply skipLWS_crl in El. unfold cs_endOfHdr, cs_finish.
    destruct (cs_state s1); repeat (try destruct (pf_set _ _); try destruct (pf_extend _ _)); auto;
      destruct (_ || _); auto; destruct (zget _ _ _ _); auto; unfold nnat; (split; [lia|split; [left; lia|lia]]). }
  destruct (cs_state s) eqn:Est; try (unfold nnat; split; [lia|split; [right; reflexivity|lia]]).
  all: destruct rest as [|c r]; auto.
  all: destruct (is_ws c); auto; try apply Hl.
  all: try (destruct (pf_set _ _); auto; try (destruct (pf_extend _ _); auto); apply Hl).
  all: destruct (is_digit c); auto. destruct (acc32 _ _); auto.
Qed.
Lemma cs_iter_more pre rest i s : match cs_iter pre rest i s with Ret _ EMore s' => cs_parsed s' = false | _ => True end.
Proof.
  unfold cs_iter, cs_parsed.
  assert (Hl : forall s1, match cs_state s1 with CsFIN => true | _ => false end = false ->
     match cs_lws pre rest i s1 with Ret _ EMore s' => match cs_state s' with CsFIN => true | _ => false end = false | _ => True end).
  { intros s1 H1. unfold cs_lws. destruct (skipLWS false rest) as [k|k crl|k]; auto.
    unfold cs_endOfHdr, cs_finish.
    destruct (cs_state s1); repeat (try destruct (pf_set _ _); try destruct (pf_extend _ _)); auto;
      destruct (_ || _); auto; destruct (zget _ _ _ _); auto. }
  destruct (cs_state s) eqn:Est; auto.
  all: destruct rest as [|c r]; [now rewrite Est|].
  all: destruct (is_ws c); auto; try (apply Hl; now rewrite Est).
  all: try (destruct (pf_set _ _); auto; try (destruct (pf_extend _ _); auto); apply Hl; reflexivity).
  all: destruct (is_digit c); auto. destruct (acc32 _ _); auto.
Qed.

(* ---- name-addr ---------------------------------------------------------------------------------------- *)
Lemma fb_iter_ok h pre rest i s : okb (fun s => fb_parsed s = true) rest i s (fb_iter h pre rest i s).
Proof.
  unfold okb, fb_iter, fb_parsed.
  destruct (fb_state s) eqn:Est; try (unfold nnat; split; [lia|split; [right; reflexivity|lia]]).
  all: destruct rest as [|c r1]; [exact I|].
  all: assert (Heoh : forall (F : Prop) i0 i1 k crl e0 (s0 : pfrom), (1 <= crl /\ k + crl <= length (c :: r1))%nat ->
                match fb_endOfHdr h pre (c :: r1) i0 i1 (i + nnat k + nnat crl) e0 s0 with
                | Ret o EOk _ => i <= o /\ (i < o \/ F) /\ o <= i + nnat (length (c :: r1))
                | _ => True end).
  all: try (intros F i0 i1 k crl e0 s0 Hk;
            destruct (fb_endOfHdr h pre (c :: r1) i0 i1 (i + nnat k + nnat crl) e0 s0) as [|o e' s'|] eqn:E; auto;
            apply fb_endOfHdr_ret in E as [-> He']; destruct e'; auto; unfold nnat in *;
            split; [lia|]; split; [left; lia|lia]).
  all: assert (Hmv : forall (F : Prop) (s0 : pfrom), match fb_moreValues h pre (c :: r1) i s0 with
                | Ret o EOk _ => i <= o /\ (i < o \/ F) /\ o <= i + nnat (length (c :: r1))
                | _ => True end).
  all: try (intros F s0; unfold fb_moreValues;
            destruct (fb_endOfHdr h pre (c :: r1) i _ (i + 1) EMoreValues s0) as [|o e' s'|] eqn:E; auto;
            apply fb_endOfHdr_ret in E as [-> He']; destruct e'; auto;
            destruct He' as [He'|[He'|He']]; discriminate).
  all: unfold fb_step, fb_gA, fb_gQ, fb_gURI, fb_gURIFound, fb_gP, fb_gPE, fb_gV, fb_gVE, fb_gStar,
         fb_comma, fb_comma_strict, fb_bad, fb_setpv, fb_lws, fb_lws_b.
  all: destruct (ccls_of c); cbn [st_poss is_st_init is_st_nameoruri is_st_nameoruriend is_st_name is_st_new].
  all: try destruct (multipleValsOk h); try apply Hmv.
  all: repeat match goal with
              | |- context [match pf_set ?a ?b with _ => _ end] => destruct (pf_set a b)
              | |- context [match pf_extend ?a ?b with _ => _ end] => destruct (pf_extend a b)
              | |- context [match setFromParamVal ?a ?b ?c0 ?d with _ => _ end] => destruct (setFromParamVal a b c0 d)
              end; try exact I.
  all: try (destruct (skipLWS false (c :: r1)) as [k|k crl|k] eqn:El;
            [exact I|apply Heoh; apply skipLWS_crl in El; exact El|exact I]).
  all: try (destruct r1 as [|d r2]; [|destruct (is_crlf d)]; exact I).
Qed.

(* ---- run level ------------------------------------------------------------------------------------------- *)
Lemma run_more_state {St} (iter : list byte -> list byte -> N -> St -> ires St) (Q : St -> Prop) :
  (forall pre rest i s, match iter pre rest i s with Ret _ EMore s' => Q s' | _ => True end) ->
  forall rest pre i v next v', run iter pre rest i 0 v = Done next EMore v' -> Q v'.
Proof.
  intros Hit rest pre i v next v' H.
  pose proof (run_inv iter (fun _ _ _ => True) (fun _ e s' => e = EMore -> Q s')) as R.
  specialize (R ltac:(intros p r j s _; pose proof (Hit p r j s) as X;
                      destruct (iter p r j s) as [| ? [] ?|]; auto; discriminate) rest pre i v I).
  rewrite H in R. auto.
Qed.

Definition run_okb {St} (fin : St -> Prop) (rest : list byte) (i : N) (s : St) (r : res St) : Prop :=
  match r with
  | Done o EOk _ => i <= o /\ (i < o \/ fin s) /\ o <= i + nnat (length rest)
  | _ => True
  end.
Lemma run_okb_of {St} (iter : list byte -> list byte -> N -> St -> ires St) (fin : St -> Prop) :
  (forall pre rest i s, okb fin rest i s (iter pre rest i s)) ->
  forall pre rest i s, run_okb fin rest i s (run iter pre rest i 0 s).
Proof.
  intros H pre rest i s. unfold run_okb.
  destruct (run iter pre rest i 0 s) as [o e s'| |] eqn:E; auto. destruct e; auto.
  apply (run_ok_bounds iter fin H rest pre i s o s' E).
Qed.

(* ---- Contact / P-Asserted-Identity lists --------------------------------------------------------------- *)
Definition ct_fin (l : contacts) : Prop := fb_parsed (ct_sel l) = true.
Lemma ct_iter_ok pre rest i l : okb ct_fin rest i l (ct_iter pre rest i l).
Proof.
  rewrite ct_iter_def. pose proof (run_okb_of (fb_iter HdrContact) _ (fb_iter_ok HdrContact) pre rest i (ct_sel l)) as H.
  destruct (run (fb_iter HdrContact) pre rest i 0 (ct_sel l)) as [next e v| |]; [|exact I|exact I].
  unfold ct_post, okb. destruct e; try exact I; try (destruct (ct_reset_last_if _ _); exact I).
  - destruct (if (ct_n _ =? 0) || _ then _ else _); [|exact I]. exact H.
  - destruct (if (ct_n _ =? 0) || _ then _ else _); exact I.
Qed.
Lemma ct_iter_more pre rest i l : match ct_iter pre rest i l with Ret _ EMore l' => fb_parsed (ct_sel l') = false | _ => True end.
Proof.
  rewrite ct_iter_def.
  destruct (run (fb_iter HdrContact) pre rest i 0 (ct_sel l)) as [next e v| |] eqn:E; [|exact I|exact I].
  unfold ct_post. destruct e; try exact I; try (destruct (if (ct_n _ =? 0) || _ then _ else _); exact I).
  apply fb_more_not_parsed in E. change (ct_store (ct_prep l) v) with (ct_st l v). now rewrite ct_sel_store.
Qed.

Definition pa_fin (l : pais) : Prop := fb_parsed (pa_sel l) = true.
Lemma pa_iter_ok pre rest i l : okb pa_fin rest i l (pa_iter pre rest i l).
Proof.
  rewrite pa_iter_def. pose proof (run_okb_of (fb_iter HdrPAI) _ (fb_iter_ok HdrPAI) pre rest i (pa_sel l)) as H.
  destruct (run (fb_iter HdrPAI) pre rest i 0 (pa_sel l)) as [next e v| |]; [|exact I|exact I].
  unfold pa_post, okb. destruct e; cbn [err_eqb err_code N.eqb Pos.eqb orb andb]; try exact I.
  - destruct (fb_star v); [exact I|]. destruct (if (pa_n _ =? 0) || _ then _ else _); [|exact I]. exact H.
  - destruct (fb_star v); [exact I|]. destruct (if (pa_n _ =? 0) || _ then _ else _); exact I.
Qed.
Lemma pa_iter_more pre rest i l : match pa_iter pre rest i l with Ret _ EMore l' => fb_parsed (pa_sel l') = false | _ => True end.
Proof.
  rewrite pa_iter_def.
  destruct (run (fb_iter HdrPAI) pre rest i 0 (pa_sel l)) as [next e v| |] eqn:E; [|exact I|exact I].
  unfold pa_post. destruct e; cbn [err_eqb err_code N.eqb Pos.eqb orb andb]; try exact I.
  - destruct (fb_star v); [exact I|]. destruct (if (pa_n _ =? 0) || _ then _ else _); exact I.
  - apply fb_more_not_parsed in E. change (pa_store (pa_prep l) v) with (pa_st l v). unfold pa_sel, pa_st.
    rewrite (pa_prep_store l v E), pa_slot_store_c. exact E.
  - destruct (fb_star v); [exact I|]. destruct (if (pa_n _ =? 0) || _ then _ else _); exact I.
Qed.

(* ---- the value parsers never answer "empty line" ------------------------------------------------------------ *)
Definition noE {St} (r : ires St) : Prop := match r with Ret _ EEmpty _ => False | _ => True end.
Lemma run_noE {St} (iter : list byte -> list byte -> N -> St -> ires St) :
  (forall pre rest i s, noE (iter pre rest i s)) ->
  forall rest pre i v o v', run iter pre rest i 0 v = Done o EEmpty v' -> False.
Proof.
  intros Hit rest pre i v o v' H.
  pose proof (run_inv iter (fun _ _ _ => True) (fun _ e s' => e <> EEmpty)) as R.
  specialize (R ltac:(intros p r j s _; pose proof (Hit p r j s) as X;
                      destruct (iter p r j s) as [| ? [] ?|]; auto; discriminate) rest pre i v I).
  rewrite H in R. congruence.
Qed.

Lemma ci_iter_noE pre rest i s : noE (ci_iter pre rest i s).
Proof.
  unfold noE, ci_iter.
  assert (Hl : forall s1, match ci_lws rest i s1 with Ret _ EEmpty _ => False | _ => True end).
  { intros s1. unfold ci_lws. destruct (skipLWS false rest); auto. unfold ci_endOfHdr.
    destruct (ci_state s1); try destruct (pf_set _ _); auto. }
  destruct (ci_state s); auto.
  all: destruct rest as [|c r]; auto.
  all: destruct (is_ws c); auto; try apply Hl.
  destruct (pf_set _ _); auto. apply Hl.
Qed.
Lemma ui_iter_noE pre rest i s : noE (ui_iter pre rest i s).
Proof.
  unfold noE, ui_iter.
  assert (Hl : forall s1, match ui_lws rest i s1 with Ret _ EEmpty _ => False | _ => True end).
  { intros s1. unfold ui_lws. destruct (skipLWS false rest); auto. unfold ui_endOfHdr.
    destruct (ui_state s1); try destruct (pf_set _ _); auto. }
  destruct (ui_state s); auto.
  all: destruct rest as [|c r]; auto.
  all: destruct (is_ws c); auto; try apply Hl.
  all: try (destruct (pf_set _ _); auto; apply Hl).
  all: destruct (is_digit c); auto. destruct (acc32 _ _); auto.
Qed.
Lemma cs_iter_noE pre rest i s : noE (cs_iter pre rest i s).
Proof.
  unfold noE, cs_iter.
  assert (Hl : forall s1, match cs_lws pre rest i s1 with Ret _ EEmpty _ => False | _ => True end).
  { intros s1. unfold cs_lws. destruct (skipLWS false rest); auto. unfold cs_endOfHdr, cs_finish.
    destruct (cs_state s1); repeat (try destruct (pf_set _ _); try destruct (pf_extend _ _)); auto;
      destruct (_ || _); auto; destruct (zget _ _ _ _); auto. }
  destruct (cs_state s); auto.
  all: destruct rest as [|c r]; auto.
  all: destruct (is_ws c); auto; try apply Hl.
  all: try (destruct (pf_set _ _); auto; try (destruct (pf_extend _ _); auto); apply Hl).
  all: destruct (is_digit c); auto. destruct (acc32 _ _); auto.
Qed.
Lemma fb_iter_noE h pre rest i s : noE (fb_iter h pre rest i s).
Proof.
  unfold noE, fb_iter. destruct (fb_state s) eqn:Est; try exact I.
  all: destruct rest as [|c r1]; [exact I|].
  all: assert (Heoh : forall i0 i1 ret e0 (s0 : pfrom), e0 <> EEmpty ->
         match fb_endOfHdr h pre (c :: r1) i0 i1 ret e0 s0 with Ret _ EEmpty _ => False | _ => True end)
       by (intros i0 i1 ret e0 s0 He0;
           destruct (fb_endOfHdr h pre (c :: r1) i0 i1 ret e0 s0) as [|o e' s'|] eqn:E; auto;
           apply fb_endOfHdr_ret in E as [_ He']; destruct e'; auto;
           destruct He' as [He'|[He'|He']]; congruence).
  all: unfold fb_step, fb_gA, fb_gQ, fb_gURI, fb_gURIFound, fb_gP, fb_gPE, fb_gV, fb_gVE, fb_gStar,
         fb_comma, fb_comma_strict, fb_bad, fb_setpv, fb_lws, fb_lws_b, fb_moreValues.
  all: destruct (ccls_of c); cbn [st_poss is_st_init is_st_nameoruri is_st_nameoruriend is_st_name is_st_new].
  all: try destruct (multipleValsOk h); try (apply Heoh; discriminate).
  all: repeat match goal with
              | |- context [match pf_set ?a ?b with _ => _ end] => destruct (pf_set a b)
              | |- context [match pf_extend ?a ?b with _ => _ end] => destruct (pf_extend a b)
              | |- context [match setFromParamVal ?a ?b ?c0 ?d with _ => _ end] => destruct (setFromParamVal a b c0 d)
              end; try exact I.
  all: try (destruct (skipLWS false (c :: r1)) as [k|k crl|k];
            [exact I|apply Heoh; discriminate|exact I]).
  all: try (destruct r1 as [|d r2]; [exact I|destruct (is_crlf d); exact I]).
Qed.
Lemma ct_iter_noE pre rest i l : noE (ct_iter pre rest i l).
Proof.
  rewrite ct_iter_def.
  destruct (run (fb_iter HdrContact) pre rest i 0 (ct_sel l)) as [next e v| |] eqn:E; [|exact I|exact I].
  unfold ct_post, noE. destruct e; try exact I; try (destruct (if (ct_n _ =? 0) || _ then _ else _); exact I).
  exact (run_noE _ (fb_iter_noE HdrContact) _ _ _ _ _ _ E).
Qed.
Lemma pa_iter_noE pre rest i l : noE (pa_iter pre rest i l).
Proof.
  rewrite pa_iter_def.
  destruct (run (fb_iter HdrPAI) pre rest i 0 (pa_sel l)) as [next e v| |] eqn:E; [|exact I|exact I].
  unfold pa_post, noE. destruct e; cbn [err_eqb err_code N.eqb Pos.eqb orb andb]; try exact I.
  - destruct (fb_star v); [exact I|]. destruct (if (pa_n _ =? 0) || _ then _ else _); exact I.
  - exact (run_noE _ (fb_iter_noE HdrPAI) _ _ _ _ _ _ E).
  - destruct (fb_star v); [exact I|]. destruct (if (pa_n _ =? 0) || _ then _ else _); exact I.
Qed.
