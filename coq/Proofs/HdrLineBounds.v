(* ParseHdrLine: successful returns make progress, suspended lines hold unfinished values. *)
From Sipsp Require Import RunLemmas Safe Resume Ext ExtLeaf ZSlice Harness ExtCSeq ExtNameAddr ExtNested ExtLists
  ExtFLine ExtAdv OkBounds ExtHdrLine.
From Coq Require Import ZifyN ZifyNat ZifyBool.

(* the line is inside a header specific value that is already complete *)
Definition hl_fin (st : hline) : Prop := exists v, hx_pv st = Some v /\ hfin (h_state (hx_h st)) v.

Lemma colon_ok (F : Prop) pre rest i k st : (S k <= length rest)%nat ->
  match hl_colon pre rest i k st with
  | Ret o EOk _ => i <= o /\ (i < o \/ F) /\ o <= i + nnat (length rest) | _ => True end.
Proof.
  intros Hk. rewrite hl_colon_eq. unfold hl_colon'. destruct (zget _ _ _ _); [|exact I]. cbv zeta.
  set (st1 := st <| hx_h := _ |>). destruct (hb_pick st1) as [[hs v]|]; [|exact I].
  pose proof (hb_run_ok hs (zpre (S k) pre rest) (zrest (S k) rest) (i + nnat k + 1) st1 v) as H. unfold okb in H.
  destruct (hb_run _ _ _ _ _ _) as [|o e s'|]; auto. destruct e; auto.
  rewrite zrest_length in H. unfold nnat in *. split; [lia|]. split; [left; lia|lia].
Qed.

Lemma name_ok (F : Prop) pre rest i st :
  match hl_name_ph pre rest i st with
  | Ret o EOk _ => i <= o /\ (i < o \/ F) /\ o <= i + nnat (length rest) | _ => True end.
Proof.
  unfold hl_name_ph. set (k := skipTokenDelim 58 rest).
  destruct (skipn k rest) as [|c r] eqn:Es; [exact I|].
  assert (Hk : (S k <= length rest)%nat).
  { assert (Hl : length (skipn k rest) = (length rest - k)%nat) by apply skipn_length. rewrite Es in Hl. cbn [length] in *. lia. }
  destruct (is_sp c).
  - destruct (pf_extend _ _); [|exact I]. destruct (pf_empty _); exact I.
  - destruct (c =? 58); [|exact I]. destruct (pf_extend _ _); [|exact I]. destruct (pf_empty _); [exact I|].
    apply colon_ok. exact Hk.
Qed.

Lemma valend_ok (F : Prop) rest i k st h1 : (k <= length rest)%nat ->
  match hl_valend (zrest k rest) i k st h1 with
  | Ret o EOk _ => i <= o /\ (i < o \/ F) /\ o <= i + nnat (length rest) | _ => True end.
Proof.
  intros Hk. unfold hl_valend. destruct (skipLWS false (zrest k rest)) as [k2|k2 crl|k2] eqn:El; try exact I.
  apply skipLWS_crl in El. rewrite zrest_length in El. unfold nnat. split; [lia|]. split; [left; lia|lia].
Qed.

Lemma hl_iter_ok pre rest i st : okb hl_fin rest i st (hit pre rest i st).
Proof.
  unfold okb. destruct rest as [|c r1]; [exact I|].
  destruct (h_state (hx_h st)) eqn:Hs.
  - rewrite hit_init by exact Hs. destruct (is_cr c); [destruct r1; exact I|]. destruct (is_lf c); [exact I|].
    destruct (pf_set i i); [|exact I]. apply name_ok.
  - rewrite hit_name by exact Hs. apply name_ok.
  - rewrite hit_nameend by exact Hs. unfold hl_nameend. set (k := skipWS (c :: r1)).
    destruct (skipn k (c :: r1)) as [|d r] eqn:Es; [exact I|].
    assert (Hk : (S k <= length (c :: r1))%nat).
    { assert (Hl : length (skipn k (c :: r1)) = (length (c :: r1) - k)%nat) by apply skipn_length. rewrite Es in Hl. cbn [length] in *. lia. }
    destruct (d =? 58); [|exact I]. apply colon_ok. exact Hk.
  - rewrite hit_bstart by exact Hs. unfold hl_bstart.
    destruct (skipLWS false (c :: r1)) as [k|k crl|k] eqn:El; try exact I; [destruct (pf_set _ _); exact I|].
    apply skipLWS_crl in El. unfold nnat. split; [lia|]. split; [left; lia|lia].
  - rewrite hit_val by exact Hs. unfold hl_val. set (k := skipToken (c :: r1)).
    destruct (skipn k (c :: r1)) as [|d r] eqn:Es; [exact I|]. destruct (pf_extend _ _); [|exact I].
    rewrite <- Es. apply (valend_ok _ (c :: r1) i k). subst k. apply span_le.
  - rewrite hit_valend by exact Hs. apply (valend_ok _ (c :: r1) i 0). lia.
  - destruct (hx_pv st) as [v|] eqn:Hv; [|rewrite hit_nopv by (try rewrite Hs; auto); exact I].
    rewrite (hit_body HFrom _ _ _ _ _ v eq_refl Hs Hv). pose proof (hb_run_ok HFrom pre (c :: r1) i st v) as H. unfold okb in H.
    destruct (hb_run _ _ _ _ _ _) as [|o e s'|]; auto. destruct e; auto.
    destruct H as (H1 & H2 & H3). split; [exact H1|]. split; [|exact H3]. destruct H2 as [H2|H2]; [left; exact H2|right; exists v; rewrite Hs; auto].
  - destruct (hx_pv st) as [v|] eqn:Hv; [|rewrite hit_nopv by (try rewrite Hs; auto); exact I].
    rewrite (hit_body HTo _ _ _ _ _ v eq_refl Hs Hv). pose proof (hb_run_ok HTo pre (c :: r1) i st v) as H. unfold okb in H.
    destruct (hb_run _ _ _ _ _ _) as [|o e s'|]; auto. destruct e; auto.
    destruct H as (H1 & H2 & H3). split; [exact H1|]. split; [|exact H3]. destruct H2 as [H2|H2]; [left; exact H2|right; exists v; rewrite Hs; auto].
  - destruct (hx_pv st) as [v|] eqn:Hv; [|rewrite hit_nopv by (try rewrite Hs; auto); exact I].
    rewrite (hit_body HCallID _ _ _ _ _ v eq_refl Hs Hv). pose proof (hb_run_ok HCallID pre (c :: r1) i st v) as H. unfold okb in H.
    destruct (hb_run _ _ _ _ _ _) as [|o e s'|]; auto. destruct e; auto.
    destruct H as (H1 & H2 & H3). split; [exact H1|]. split; [|exact H3]. destruct H2 as [H2|H2]; [left; exact H2|right; exists v; rewrite Hs; auto].
  - destruct (hx_pv st) as [v|] eqn:Hv; [|rewrite hit_nopv by (try rewrite Hs; auto); exact I].
    rewrite (hit_body HCSeq _ _ _ _ _ v eq_refl Hs Hv). pose proof (hb_run_ok HCSeq pre (c :: r1) i st v) as H. unfold okb in H.
    destruct (hb_run _ _ _ _ _ _) as [|o e s'|]; auto. destruct e; auto.
    destruct H as (H1 & H2 & H3). split; [exact H1|]. split; [|exact H3]. destruct H2 as [H2|H2]; [left; exact H2|right; exists v; rewrite Hs; auto].
  - destruct (hx_pv st) as [v|] eqn:Hv; [|rewrite hit_nopv by (try rewrite Hs; auto); exact I].
    rewrite (hit_body HCLen _ _ _ _ _ v eq_refl Hs Hv). pose proof (hb_run_ok HCLen pre (c :: r1) i st v) as H. unfold okb in H.
    destruct (hb_run _ _ _ _ _ _) as [|o e s'|]; auto. destruct e; auto.
    destruct H as (H1 & H2 & H3). split; [exact H1|]. split; [|exact H3]. destruct H2 as [H2|H2]; [left; exact H2|right; exists v; rewrite Hs; auto].
  - destruct (hx_pv st) as [v|] eqn:Hv; [|rewrite hit_nopv by (try rewrite Hs; auto); exact I].
    rewrite (hit_body HContact _ _ _ _ _ v eq_refl Hs Hv). pose proof (hb_run_ok HContact pre (c :: r1) i st v) as H. unfold okb in H.
    destruct (hb_run _ _ _ _ _ _) as [|o e s'|]; auto. destruct e; auto.
    destruct H as (H1 & H2 & H3). split; [exact H1|]. split; [|exact H3]. destruct H2 as [H2|H2]; [left; exact H2|right; exists v; rewrite Hs; auto].
  - destruct (hx_pv st) as [v|] eqn:Hv; [|rewrite hit_nopv by (try rewrite Hs; auto); exact I].
    rewrite (hit_body HExpires _ _ _ _ _ v eq_refl Hs Hv). pose proof (hb_run_ok HExpires pre (c :: r1) i st v) as H. unfold okb in H.
    destruct (hb_run _ _ _ _ _ _) as [|o e s'|]; auto. destruct e; auto.
    destruct H as (H1 & H2 & H3). split; [exact H1|]. split; [|exact H3]. destruct H2 as [H2|H2]; [left; exact H2|right; exists v; rewrite Hs; auto].
  - destruct (hx_pv st) as [v|] eqn:Hv; [|rewrite hit_nopv by (try rewrite Hs; auto); exact I].
    rewrite (hit_body HPAI _ _ _ _ _ v eq_refl Hs Hv). pose proof (hb_run_ok HPAI pre (c :: r1) i st v) as H. unfold okb in H.
    destruct (hb_run _ _ _ _ _ _) as [|o e s'|]; auto. destruct e; auto.
    destruct H as (H1 & H2 & H3). split; [exact H1|]. split; [|exact H3]. destruct H2 as [H2|H2]; [left; exact H2|right; exists v; rewrite Hs; auto].
  - rewrite hit_fin by exact Hs. exact I.
Qed.

(* ---- suspended lines ---------------------------------------------------------------------------------------- *)
Lemma nb_not_fin st : is_body (h_state (hx_h st)) = false -> ~ hl_fin st.
Proof. intros Hb (v & _ & Hf). destruct (h_state (hx_h st)); try discriminate; exact Hf. Qed.

Definition more_ok (r : ires hline) : Prop :=
  match r with Ret _ EMore st' => ~ hl_fin st' | Next _ st' => ~ hl_fin st' | _ => True end.

Lemma hb_run_more_ok hs pre rest i st v : more_ok (hb_run hs pre rest i st v).
Proof.
  pose proof (hb_run_more hs pre rest i st v) as H. pose proof (hb_run_noNext hs pre rest i st v) as Hn.
  unfold more_ok. destruct (hb_run _ _ _ _ _ _) as [|o e st'|]; [destruct Hn| |exact I].
  destruct e; try exact I. destruct H as (H1 & v' & H2 & H3). intros (v2 & Hv2 & Hf). rewrite H1 in Hf. congruence.
Qed.

Lemma colon_more pre rest i k st : more_ok (hl_colon pre rest i k st).
Proof.
  rewrite hl_colon_eq. unfold hl_colon'. destruct (zget _ _ _ _); [|exact I]. cbv zeta.
  set (st1 := st <| hx_h := _ |>). destruct (hb_pick st1) as [[hs v]|]; [apply hb_run_more_ok|].
  apply nb_not_fin. subst st1. destruct st as [[? ? ? ?] ?]. reflexivity.
Qed.

Lemma name_more pre rest i st : h_state (hx_h st) = HName -> more_ok (hl_name_ph pre rest i st).
Proof.
  intros Hs. unfold hl_name_ph. destruct (skipn _ rest) as [|c r]; [apply nb_not_fin; now rewrite Hs|].
  destruct (is_sp c).
  - destruct (pf_extend _ _); [|exact I]. destruct (pf_empty _); [exact I|].
    apply nb_not_fin. destruct st as [[? ? ? ?] ?]. reflexivity.
  - destruct (c =? 58); [|exact I]. destruct (pf_extend _ _); [|exact I]. destruct (pf_empty _); [exact I|].
    apply colon_more.
Qed.

Lemma valend_more r' i k st h1 : h_state h1 = HValEnd -> more_ok (hl_valend r' i k st h1).
Proof.
  intros Hs. unfold hl_valend. destruct (skipLWS false r'); try exact I; apply nb_not_fin; destruct st as [? ?]; cbn.
  - destruct h1; reflexivity.
  - now rewrite Hs.
Qed.

Lemma hl_iter_more pre rest i st : (rest = [] -> ~ hl_fin st) -> more_ok (hit pre rest i st).
Proof.
  intros H0. destruct rest as [|c r1]; [exact (H0 eq_refl)|]. clear H0.
  destruct (h_state (hx_h st)) eqn:Hs.
  - rewrite hit_init by exact Hs. destruct (is_cr c).
    { destruct r1; [apply nb_not_fin; now rewrite Hs|exact I]. }
    destruct (is_lf c); [exact I|]. destruct (pf_set i i); [|exact I].
    apply name_more. destruct st as [[? ? ? ?] ?]. reflexivity.
  - rewrite hit_name by exact Hs. apply name_more. exact Hs.
  - rewrite hit_nameend by exact Hs. unfold hl_nameend.
    destruct (skipn _ (c :: r1)) as [|d r]; [apply nb_not_fin; now rewrite Hs|].
    destruct (d =? 58); [apply colon_more|exact I].
  - rewrite hit_bstart by exact Hs. unfold hl_bstart.
    destruct (skipLWS false (c :: r1)); try exact I.
    + destruct (pf_set _ _); [|exact I]. apply nb_not_fin. destruct st as [[? ? ? ?] ?]. reflexivity.
    + apply nb_not_fin. now rewrite Hs.
  - rewrite hit_val by exact Hs. unfold hl_val.
    destruct (skipn _ (c :: r1)) as [|d r]; [apply nb_not_fin; now rewrite Hs|].
    destruct (pf_extend _ _); [|exact I]. apply valend_more. destruct (hx_h st); reflexivity.
  - rewrite hit_valend by exact Hs. apply valend_more. exact Hs.
  - destruct (hx_pv st) as [v|] eqn:Hv; [|rewrite hit_nopv by (try rewrite Hs; auto); exact I].
    rewrite (hit_body HFrom _ _ _ _ _ v eq_refl Hs Hv). apply hb_run_more_ok.
  - destruct (hx_pv st) as [v|] eqn:Hv; [|rewrite hit_nopv by (try rewrite Hs; auto); exact I].
    rewrite (hit_body HTo _ _ _ _ _ v eq_refl Hs Hv). apply hb_run_more_ok.
  - destruct (hx_pv st) as [v|] eqn:Hv; [|rewrite hit_nopv by (try rewrite Hs; auto); exact I].
    rewrite (hit_body HCallID _ _ _ _ _ v eq_refl Hs Hv). apply hb_run_more_ok.
  - destruct (hx_pv st) as [v|] eqn:Hv; [|rewrite hit_nopv by (try rewrite Hs; auto); exact I].
    rewrite (hit_body HCSeq _ _ _ _ _ v eq_refl Hs Hv). apply hb_run_more_ok.
  - destruct (hx_pv st) as [v|] eqn:Hv; [|rewrite hit_nopv by (try rewrite Hs; auto); exact I].
    rewrite (hit_body HCLen _ _ _ _ _ v eq_refl Hs Hv). apply hb_run_more_ok.
  - destruct (hx_pv st) as [v|] eqn:Hv; [|rewrite hit_nopv by (try rewrite Hs; auto); exact I].
    rewrite (hit_body HContact _ _ _ _ _ v eq_refl Hs Hv). apply hb_run_more_ok.
  - destruct (hx_pv st) as [v|] eqn:Hv; [|rewrite hit_nopv by (try rewrite Hs; auto); exact I].
    rewrite (hit_body HExpires _ _ _ _ _ v eq_refl Hs Hv). apply hb_run_more_ok.
  - destruct (hx_pv st) as [v|] eqn:Hv; [|rewrite hit_nopv by (try rewrite Hs; auto); exact I].
    rewrite (hit_body HPAI _ _ _ _ _ v eq_refl Hs Hv). apply hb_run_more_ok.
  - rewrite hit_fin by exact Hs. exact I.
Qed.

Lemma hl_run_more pre rest i st o st' : (rest = [] -> ~ hl_fin st) ->
  run hit pre rest i 0 st = Done o EMore st' -> ~ hl_fin st'.
Proof.
  intros H0 Hr. rewrite run_after in Hr. pose proof (hl_iter_more pre rest i st H0) as H1.
  unfold after in Hr. destruct (hit pre rest i st) as [k t|o1 e1 t|]; [|injection Hr as E1 E2 E3; subst; exact H1|discriminate].
  destruct k as [|k]; [discriminate|]. destruct (S k <=? length rest)%nat; [|discriminate].
  pose proof (run_inv hit (fun _ _ s => ~ hl_fin s) (fun _ e s' => e = EMore -> ~ hl_fin s')) as R.
  specialize (R ltac:(intros p r j s Hs; pose proof (hl_iter_more p r j s (fun _ => Hs)) as X;
                      destruct (hit p r j s) as [| ? [] ?|]; auto; discriminate)
                (zrest (S k) rest) (zpre (S k) pre rest) (i + nnat (S k)) t H1).
  rewrite Hr in R. auto.
Qed.

Lemma hl_run_ok pre rest i st o st' : run hit pre rest i 0 st = Done o EOk st' ->
  i <= o /\ (i < o \/ hl_fin st) /\ o <= i + nnat (length rest).
Proof. apply (run_ok_bounds hit hl_fin hl_iter_ok). Qed.
