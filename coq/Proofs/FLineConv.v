(* C08, the converse direction: whatever ParseFLine accepts in one call from a fresh object is a line of
   the documented shape, split exactly there.  A request: method SP uri SP version EOL with three
   non-empty tokens without white space; a reply: the version prefix, three digits, SP, the reason up to
   the end of the line.  (Chunked calls give the same object: C02.) *)
From Sipsp Require Import RunLemmas Safe Resume Ext ExtLeaf ZSlice Harness Tables ExtFLine FLineSpec.
From Coq Require Import ZifyN ZifyNat ZifyBool.
From RecordUpdate Require Import RecordUpdate.

(* the bytes skipped by span all satisfy the predicate; the next one does not *)
Lemma span_split p (l : list byte) :
  l = firstn (span p l) l ++ skipn (span p l) l /\ Forall (fun c => p c = true) (firstn (span p l) l) /\
  match skipn (span p l) l with c :: _ => p c = false | [] => True end.
Proof.
  induction l as [|c l IH]; cbn [span]; [cbn; auto|].
  destruct (p c) eqn:E; cbn [firstn skipn app].
  - destruct IH as (I1 & I2 & I3). split; [f_equal; exact I1|]. split; [constructor; assumption|exact I3].
  - split; [reflexivity|]. split; [constructor|exact E].
Qed.
Lemma skipToken_split (l : list byte) :
  l = firstn (skipToken l) l ++ skipn (skipToken l) l /\ tok (firstn (skipToken l) l) /\
  match skipn (skipToken l) l with c :: _ => is_ws c = true | [] => True end.
Proof.
  destruct (span_split (fun c => negb (is_ws c)) l) as (H1 & H2 & H3). unfold skipToken. split; [exact H1|]. split.
  - unfold tok. eapply Forall_impl; [|exact H2]. cbn. intros c Hc. now apply negb_true_iff in Hc.
  - destruct (skipn _ l); [exact I|]. now apply negb_false_iff in H3.
Qed.
Lemma firstn_length_span p (l : list byte) : length (firstn (span p l) l) = span p l.
Proof. apply firstn_length_le, span_le. Qed.

(* a line end: CRLF, a lone CR or a lone LF (as skipCRLF sees it: one more byte after a CR) *)
Definition eol_at (l : list byte) (crl : nat) : Prop := skipCRLF l = COk crl.

Definition req_shape (rest : list byte) (i o : N) (s : fline) : Prop :=
  exists (m u v : list byte) (crl : nat) (tail : list byte),
    rest = m ++ SP :: u ++ SP :: v ++ tail /\
    (tok m /\ m <> [] /\ tok u /\ u <> [] /\ tok v /\ v <> []) /\
    eol_at tail crl /\
    fl_method s = mkpf i (nnat (length m)) /\
    fl_uri s = mkpf (i + nnat (length m) + 1) (nnat (length u)) /\
    fl_version s = mkpf (i + nnat (length m) + 1 + nnat (length u) + 1) (nnat (length v)) /\
    fl_methodno s = get_method_no m /\
    o = i + nnat (length m) + 1 + nnat (length u) + 1 + nnat (length v) + nnat crl /\
    (fl_status s = 0 /\ fl_statuscode s = pf0 /\ fl_state s = FlFIN).

Lemma pf_extend_set i j : pf_extend (mkpf i 0) j = if j <? i then None else Some (mkpf i (j - i)).
Proof. reflexivity. Qed.

Theorem request_line_converse pre rest i o s' : i = nnat (length pre) ->
  prefix_nocase go_sipVerSP rest = false -> (length go_sipVerSP + 6 <= length rest)%nat ->
  fl_iter pre rest i fline0 = Ret o EOk s' -> req_shape rest i o s'.
Proof.
  intros Hi Hnp Hlen. unfold fl_iter. cbn [fl_state fline0]. unfold fl_init.
  replace (length rest <? length go_sipVerSP + 6)%nat with false by (symmetry; apply Nat.ltb_ge; exact Hlen).
  rewrite Hnp. unfold pf_set. rewrite N.ltb_irrefl, N.sub_diag. cbv beta iota zeta.
  (* the method *)
  unfold fl_method_ph. cbv zeta.
  destruct (skipToken_split rest) as (E1 & T1 & W1). set (k1 := skipToken rest) in *.
  destruct (skipn k1 rest) as [|c1 r1] eqn:S1; [discriminate|].
  destruct (c1 =? SP) eqn:C1; [|discriminate]. cbn [negb]. apply N.eqb_eq in C1. subst c1.
  cbn [fl_method set]. unfold pf_extend. cbn [po pl].
  replace (i + nnat k1 <? i) with false by lia. replace (i + nnat k1 - i) with (nnat k1) by lia.
  destruct (pf_empty (mkpf i (nnat k1))) eqn:Pm; [discriminate|].
  set (m := firstn k1 rest) in *.
  assert (Lm : length m = k1) by (apply firstn_length_span).
  assert (Zm : zget pre rest i (mkpf i (nnat k1)) = Some m).
  { rewrite E1 at 1. rewrite <- Lm. apply zget_here. exact Hi. }
  match goal with |- context [zget pre rest i ?f] => replace (zget pre rest i f) with (Some m) by (symmetry; exact Zm) end.
  unfold pf_set. rewrite N.ltb_irrefl, N.sub_diag. cbv beta iota zeta.
  (* the URI *)
  unfold fl_requri. cbv zeta.
  destruct (skipToken_split r1) as (E2 & T2 & W2). set (k2 := skipToken r1) in *.
  destruct (skipn k2 r1) as [|c2 r2] eqn:S2; [discriminate|].
  destruct (c2 =? SP) eqn:C2; [|discriminate]. cbn [negb]. apply N.eqb_eq in C2. subst c2.
  match goal with |- context [pf_extend (fl_uri ?s) ?j] => change (fl_uri s) with (mkpf (i + nnat k1 + 1) 0) end.
  rewrite pf_extend_set. replace (i + nnat k1 + 1 + nnat k2 <? i + nnat k1 + 1) with false by lia.
  replace (i + nnat k1 + 1 + nnat k2 - (i + nnat k1 + 1)) with (nnat k2) by lia. cbv beta iota zeta.
  destruct (pf_empty (mkpf (i + nnat k1 + 1) (nnat k2))) eqn:Pu; [discriminate|].
  unfold pf_set. rewrite N.ltb_irrefl, N.sub_diag. cbv beta iota zeta.
  (* the version *)
  unfold fl_ver. cbv zeta.
  destruct (skipToken_split r2) as (E3 & T3 & W3). set (k3 := skipToken r2) in *.
  destruct (skipn k3 r2) as [|c3 r3] eqn:S3; [discriminate|].
  destruct (is_crlf c3) eqn:C3; [|discriminate]. cbn [negb].
  match goal with |- context [pf_extend (fl_version ?s) ?j] => change (fl_version s) with (mkpf (i + nnat k1 + 1 + nnat k2 + 1) 0) end.
  rewrite pf_extend_set. replace (i + nnat k1 + 1 + nnat k2 + 1 + nnat k3 <? i + nnat k1 + 1 + nnat k2 + 1) with false by lia.
  replace (i + nnat k1 + 1 + nnat k2 + 1 + nnat k3 - (i + nnat k1 + 1 + nnat k2 + 1)) with (nnat k3) by lia. cbv beta iota zeta.
  destruct (pf_empty (mkpf (i + nnat k1 + 1 + nnat k2 + 1) (nnat k3))) eqn:Pv; [discriminate|].
  (* the end of the line *)
  unfold fl_crlf. destruct (skipCRLF (c3 :: r3)) as [crl| |] eqn:EC; try discriminate.
  intros H. injection H as <- <-.
  set (u := firstn k2 r1) in *. set (v := firstn k3 r2) in *.
  assert (Lu : length u = k2) by (apply firstn_length_span). assert (Lv : length v = k3) by (apply firstn_length_span).
  unfold pf_empty in Pm, Pu, Pv. cbn [pl] in Pm, Pu, Pv.
  exists m, u, v, crl, (c3 :: r3).
  split; [rewrite E1 at 1; f_equal; f_equal; rewrite E2 at 1; f_equal; f_equal; exact E3|].
  split; [repeat split; try assumption; intros E; [rewrite E in Lm|rewrite E in Lu|rewrite E in Lv]; cbn in *; unfold nnat in *; lia|].
  split; [exact EC|]. cbn. rewrite Lm, Lu, Lv. repeat split; reflexivity.
Qed.

(* ---- replies --------------------------------------------------------------------------------------------------------------------------- *)
Definition rpl_shape (rest : list byte) (i o : N) (s : fline) : Prop :=
  exists (ver : list byte) (a b c : byte) (reason : list byte) (crl : nat) (tail : list byte),
    rest = ver ++ a :: b :: c :: SP :: reason ++ tail /\
    length ver = length go_sipVerSP /\ eqb_nocase ver go_sipVerSP = true /\
    (is_digit a = true /\ is_digit b = true /\ is_digit c = true) /\
    Forall (fun x => is_crlf x = false) reason /\ eol_at tail crl /\
    fl_version s = mkpf i (nnat (length go_sipVerSP) - 1) /\
    fl_statuscode s = mkpf (i + nnat (length go_sipVerSP)) 3 /\
    fl_status s = (digit_val a * 100 + digit_val b * 10 + digit_val c) mod 65536 /\
    fl_reason s = mkpf (i + nnat (length go_sipVerSP) + 4) (nnat (length reason)) /\
    o = i + nnat (length go_sipVerSP) + 4 + nnat (length reason) + nnat crl /\
    fl_state s = FlFIN.

Theorem status_line_converse pre rest i o s' :
  prefix_nocase go_sipVerSP rest = true ->
  fl_iter pre rest i fline0 = Ret o EOk s' -> rpl_shape rest i o s'.
Proof.
  intros Hp. unfold fl_iter. cbn [fl_state fline0]. unfold fl_init.
  destruct (length rest <? length go_sipVerSP + 6)%nat eqn:El; [discriminate|]. rewrite Hp.
  unfold prefix_nocase in Hp. apply andb_true_iff in Hp. destruct Hp as [Hl Hv]. apply Nat.leb_le in Hl.
  set (l := length go_sipVerSP) in *.
  unfold pf_set. replace (i + nnat l - 1 <? i) with false by (subst l; cbn; unfold nnat; lia). cbv beta iota zeta.
  assert (E0 : rest = firstn l rest ++ skipn l rest) by (symmetry; apply firstn_skipn).
  destruct (skipn l rest) as [|a [|b [|c [|d r']]]] eqn:Sk; try discriminate.
  destruct (negb (d =? SP) || negb (is_digit a && is_digit b && is_digit c)) eqn:Ck; [discriminate|].
  apply orb_false_iff in Ck. destruct Ck as [Cd Cdig]. apply negb_false_iff in Cd, Cdig. apply N.eqb_eq in Cd. subst d.
  apply andb_true_iff in Cdig. destruct Cdig as [Cab Cc]. apply andb_true_iff in Cab. destruct Cab as [Ca Cb].
  unfold pf_set. replace (i + nnat l + 3 <? i + nnat l) with false by lia. rewrite N.ltb_irrefl, N.sub_diag. cbv beta iota zeta.
  unfold fl_reason_ph, skipLine. cbv zeta.
  destruct (span_split (fun x => negb (is_crlf x)) r') as (E1 & T1 & _). set (k := span (fun x => negb (is_crlf x)) r') in *.
  destruct (skipCRLF (skipn k r')) as [crl| |] eqn:EC; try discriminate.
  match goal with |- context [pf_extend (fl_reason ?s) ?j] => change (fl_reason s) with (mkpf (i + nnat l + 4) 0) end.
  rewrite pf_extend_set. replace (i + nnat l + 4 + nnat k <? i + nnat l + 4) with false by lia. cbv beta iota zeta.
  intros H. injection H as <- <-.
  set (reason := firstn k r') in *. assert (Lr : length reason = k) by apply firstn_length_span.
  exists (firstn l rest), a, b, c, reason, crl, (skipn k r').
  split; [rewrite E0 at 1; f_equal; f_equal; f_equal; f_equal; f_equal; exact E1|].
  split; [apply firstn_length_le; exact Hl|]. split; [exact Hv|]. split; [auto|].
  split; [eapply Forall_impl; [|exact T1]; cbn; intros x Hx; now apply negb_true_iff in Hx|].
  split; [exact EC|]. cbn. rewrite Lr. repeat split; try reflexivity; try (f_equal; unfold nnat; lia); unfold nnat; lia.
Qed.

(* ---- the exported call ------------------------------------------------------------------------------------------------------------------- *)
(* one call of ParseFLine on a fresh object that answers ok: the line has one of the two shapes *)
Theorem first_line_converse (p rest : list byte) o s' :
  parse_fline (p ++ rest) (nnat (length p)) fline0 = Done o EOk s' ->
  if prefix_nocase go_sipVerSP rest then rpl_shape rest (nnat (length p)) o s' else req_shape rest (nnat (length p)) o s'.
Proof.
  unfold parse_fline. rewrite parse_at, run_after.
  pose proof (fl_iter_noNext (rev p) rest (nnat (length p)) fline0) as Hn.
  destruct (fl_iter (rev p) rest (nnat (length p)) fline0) as [k t|o1 e1 t|] eqn:E; [destruct Hn| |discriminate].
  cbn [after]. intros H. injection H as -> -> ->.
  destruct (prefix_nocase go_sipVerSP rest) eqn:Ep.
  - apply (status_line_converse (rev p)); assumption.
  - apply (request_line_converse (rev p)); try assumption; [now rewrite rev_length|].
    (* a shorter buffer answers "more bytes" *)
    destruct (le_lt_dec (length go_sipVerSP + 6) (length rest)) as [Hl|Hl]; [exact Hl|].
    exfalso. unfold fl_iter in E. cbn [fl_state fline0] in E. unfold fl_init in E.
    replace (length rest <? length go_sipVerSP + 6)%nat with true in E by (symmetry; apply Nat.ltb_lt; exact Hl). discriminate E.
Qed.

(* ---- order and adjacency of the first-line fields (C05) -------------------------------------------------------------------------- *)
Corollary req_fields_in_order rest i o s : req_shape rest i o s ->
  po (fl_method s) = i /\ 0 < pl (fl_method s) /\ pf_end (fl_method s) + 1 = po (fl_uri s) /\ 0 < pl (fl_uri s) /\
  pf_end (fl_uri s) + 1 = po (fl_version s) /\ 0 < pl (fl_version s) /\ pf_end (fl_version s) < o /\ o <= pf_end (fl_version s) + 2.
Proof.
  intros (m & u & v & crl & tail & _ & (T1 & N1 & T2 & N2 & T3 & N3) & Heol & Em & Eu & Ev & _ & Eo & _).
  rewrite Em, Eu, Ev, Eo. unfold pf_end. cbn [po pl].
  assert (crl = 1 \/ crl = 2)%nat as Hc.
  { unfold eol_at, skipCRLF in Heol. destruct tail as [|a [|b t]]; try discriminate; [destruct (is_crlf a); discriminate|].
    destruct (is_cr a); [destruct (is_lf b); injection Heol as <-; auto|]. destruct (is_lf a); [injection Heol as <-; auto|discriminate]. }
  destruct m, u, v; try congruence; cbn [length]; unfold nnat; repeat split; lia.
Qed.
Corollary rpl_fields_in_order rest i o s : rpl_shape rest i o s ->
  po (fl_version s) = i /\ pf_end (fl_version s) + 1 = po (fl_statuscode s) /\ pl (fl_statuscode s) = 3 /\
  pf_end (fl_statuscode s) + 1 = po (fl_reason s) /\ pf_end (fl_reason s) < o /\ o <= pf_end (fl_reason s) + 2.
Proof.
  intros (ver & a & b & c & reason & crl & tail & _ & _ & _ & _ & _ & Heol & Ev & Es & _ & Er & Eo & _).
  rewrite Ev, Es, Er, Eo. unfold pf_end. cbn [po pl].
  assert (crl = 1 \/ crl = 2)%nat as Hc.
  { unfold eol_at, skipCRLF in Heol. destruct tail as [|a0 [|b0 t]]; try discriminate; [destruct (is_crlf a0); discriminate|].
    destruct (is_cr a0); [destruct (is_lf b0); injection Heol as <-; auto|]. destruct (is_lf a0); [injection Heol as <-; auto|discriminate]. }
  change (nnat (length go_sipVerSP)) with 8. unfold nnat. repeat split; lia.
Qed.

Theorem first_line_fields_in_order (p rest : list byte) o s :
  parse_fline (p ++ rest) (nnat (length p)) fline0 = Done o EOk s ->
  let i := nnat (length p) in
  if prefix_nocase go_sipVerSP rest
  then po (fl_version s) = i /\ pf_end (fl_version s) + 1 = po (fl_statuscode s) /\ pl (fl_statuscode s) = 3 /\
       pf_end (fl_statuscode s) + 1 = po (fl_reason s) /\ pf_end (fl_reason s) < o /\ o <= pf_end (fl_reason s) + 2
  else po (fl_method s) = i /\ 0 < pl (fl_method s) /\ pf_end (fl_method s) + 1 = po (fl_uri s) /\ 0 < pl (fl_uri s) /\
       pf_end (fl_uri s) + 1 = po (fl_version s) /\ 0 < pl (fl_version s) /\ pf_end (fl_version s) < o /\ o <= pf_end (fl_version s) + 2.
Proof.
  intros H i. pose proof (first_line_converse p rest o s H) as C.
  destruct (prefix_nocase go_sipVerSP rest); [exact (rpl_fields_in_order _ _ _ _ C)|exact (req_fields_in_order _ _ _ _ C)].
Qed.
