(* C07: the header parser assigns the classification of the name text *)
From Sipsp Require Import Harness.

Lemma hb_finish_type {B} (r : res B) st valof put :
  match hb_finish r st valof put with
  | Next _ st' => h_type (hx_h st') = h_type (hx_h st)
  | Ret _ _ st' => h_type (hx_h st') = h_type (hx_h st)
  | IPanic => True
  end.
Proof. unfold hb_finish. destruct r as [n e b| |]; auto. destruct e; destruct (hx_h st); reflexivity. Qed.

Lemma hb_run_type hs pre rest o st v :
  match hb_run hs pre rest o st v with
  | Next _ st' => h_type (hx_h st') = h_type (hx_h st)
  | Ret _ _ st' => h_type (hx_h st') = h_type (hx_h st)
  | IPanic => True
  end.
Proof.
  unfold hb_run.
  assert (E : h_type (hx_h (st <| hx_h := (hx_h st) <| h_state := hs |> |>)) = h_type (hx_h st))
    by (destruct st as [[? ? ? ?] ?]; reflexivity).
  destruct hs; auto; rewrite <- E; apply hb_finish_type.
Qed.

Lemma hl_colon_type pre rest i k st name :
  zget pre rest i (h_name (hx_h st)) = Some name ->
  match hl_colon pre rest i k st with
  | Next _ st' => h_type (hx_h st') = get_hdr_type name
  | Ret _ _ st' => h_type (hx_h st') = get_hdr_type name
  | IPanic => True
  end.
Proof.
  intros Hn. unfold hl_colon. rewrite Hn.
  set (st1 := st <| hx_h := _ |>).
  assert (E : h_type (hx_h st1) = get_hdr_type name) by (subst st1; destruct st as [[? ? ? ?] ?]; reflexivity).
  unfold hb_parse_body. destruct (hx_pv st1) as [v|]; [|exact E].
  repeat match goal with
         | |- context [if ?b then _ else _] => destruct b
         end; try exact E;
  match goal with |- context [hb_run ?hs ?p ?r ?o ?s ?vv] => pose proof (hb_run_type hs p r o s vv) as H;
                                                               destruct (hb_run hs p r o s vv); congruence end.
Qed.
