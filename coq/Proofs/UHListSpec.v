(* C17, list level: ParseAllURIHdrs on name=value&name=value&...&name=value <terminator>: every header is
   counted (also those that do not fit the array), entry j is header j with the spans of its name and value;
   the verdict is ok at the terminator. *)
From Sipsp Require Import Driver Harness RunLemmas Ext ExtLeaf ZSlice HdrSpec UIntSpec FLineSpec TokSpec NameAddrSpec Shift ShiftFb ShiftTok
  ExtLists Capacity CapHeaders CapURI ExtURI UListSpec.
From Coq Require Import ZifyN ZifyNat ZifyBool.
From RecordUpdate Require Import RecordUpdate.

Definition uh_add (l : uhdrs) (p : tokparam) : uhdrs :=
  let l1 := uh_store l p in
  let l2 := l1 <| uh_vno := uh_vno l1 + 1 |> in
  let l3 := if uh_is_tmp l then l2 <| uh_tmp := tokparam0 |> else l2 in
  l3 <| uh_n := uh_n l3 + 1 |>.
Lemma uh_add_proj l p :
  uh_n (uh_add l p) = uh_n l + 1 /\
  uh_hdrs (uh_add l p) = (if uh_is_tmp l then uh_hdrs l else set_nth (N.to_nat (uh_n l)) p (uh_hdrs l)) /\
  uh_tmp (uh_add l p) = (if uh_is_tmp l then tokparam0 else uh_tmp l) /\ uh_vno (uh_add l p) = uh_vno l + 1.
Proof.
  unfold uh_add. cbv zeta. destruct (uh_store_proj l p) as (S1 & S2 & S3 & S4).
  destruct (uh_is_tmp l); destruct (uh_store l p); cbn in *; subst; repeat split; reflexivity.
Qed.
Definition UHI (l : uhdrs) : Prop := uh_wf l /\ uh_slot l = tokparam0.
Lemma uh_add_UHI l p : UHI l -> UHI (uh_add l p).
Proof.
  intros [Hwf _]. destruct (uh_add_proj l p) as (X1 & X2 & X3 & _).
  split; [exact (hhnext_wf l _ p Hwf X1 X2 X3)|exact (hhnext_slot l _ p Hwf X1 X2 X3)].
Qed.
Definition uh_adds (l : uhdrs) (ps : list tokparam) : uhdrs := fold_left uh_add ps l.

Lemma hadds_n ps : forall l, uh_n (uh_adds l ps) = uh_n l + nnat (length ps) /\ uh_vno (uh_adds l ps) = uh_vno l + nnat (length ps) /\
  length (uh_hdrs (uh_adds l ps)) = length (uh_hdrs l).
Proof.
  induction ps as [|p ps IH]; intros l; cbn [uh_adds fold_left length]; [unfold nnat; repeat split; lia|].
  change (fold_left uh_add ps (uh_add l p)) with (uh_adds (uh_add l p) ps). destruct (IH (uh_add l p)) as (I1 & I2 & I3).
  destruct (uh_add_proj l p) as (X1 & X2 & _ & X5). rewrite I1, I2, I3, X1, X5, X2.
  split; [unfold nnat; lia|]. split; [unfold nnat; lia|]. destruct (uh_is_tmp l); [reflexivity|apply set_nth_len].
Qed.
Lemma hadds_keep ps : forall l j, (j < N.to_nat (uh_n l))%nat -> nth j (uh_hdrs (uh_adds l ps)) tokparam0 = nth j (uh_hdrs l) tokparam0.
Proof.
  induction ps as [|p ps IH]; intros l j Hj; [reflexivity|]. cbn [uh_adds fold_left].
  change (fold_left uh_add ps (uh_add l p)) with (uh_adds (uh_add l p) ps).
  destruct (uh_add_proj l p) as (X1 & X2 & _). rewrite IH by (rewrite X1; lia). rewrite X2.
  destruct (uh_is_tmp l); [reflexivity|]. apply nth_set_nth_ne. lia.
Qed.
Lemma hadds_nth ps : forall l j, (j < length ps)%nat -> (N.to_nat (uh_n l) + j < length (uh_hdrs l))%nat ->
  nth (N.to_nat (uh_n l) + j) (uh_hdrs (uh_adds l ps)) tokparam0 = nth j ps tokparam0.
Proof.
  induction ps as [|p ps IH]; intros l j Hj Hc; [cbn in Hj; lia|]. cbn [uh_adds fold_left].
  change (fold_left uh_add ps (uh_add l p)) with (uh_adds (uh_add l p) ps).
  destruct (uh_add_proj l p) as (X1 & X2 & _).
  assert (Ht : uh_is_tmp l = false) by (unfold uh_is_tmp, uh_cap, nnat; lia). rewrite Ht in X2.
  destruct j as [|j].
  - cbn [nth]. rewrite Nat.add_0_r in *. rewrite hadds_keep by (rewrite X1; lia). rewrite X2. apply nth_set_nth. exact Hc.
  - cbn [nth]. replace (N.to_nat (uh_n l) + S j)%nat with (N.to_nat (uh_n (uh_add l p)) + j)%nat by (rewrite X1; lia).
    apply IH; [cbn in Hj; lia|]. rewrite X1, X2, set_nth_len. lia.
Qed.

Section UH.
  Variable flags0 : N.
  Notation flags := (N.lor flags0 (N.lor (2 ^ bPOptParamAmpSep) (2 ^ bPOptTokURIHdr))).
  Notation sep := (tf_sep (tp_decode flags)).

  Definition h_ok (p : ptxt) : Prop :=
    fst p <> [] /\ Forall (plain flags) (fst p) /\ snd p <> [] /\ Forall (plain flags) (snd p).
  Definition h_entry (p : ptxt) (i : N) (st : tpst) : tokparam :=
    mktokparam (mkpf i (p_len p)) (mkpf i (nnat (length (fst p)))) (mkpf (i + nnat (length (fst p)) + 1) (nnat (length (snd p)))) st.
  Fixpoint hl_bytes (ps : list ptxt) : list byte :=
    match ps with
    | [] => []
    | [p] => p_bytes p
    | p :: ps' => p_bytes p ++ sep :: hl_bytes ps'
    end.
  Fixpoint hl_entries (i : N) (ps : list ptxt) : list tokparam :=
    match ps with
    | [] => []
    | [p] => [h_entry p i PFIN]
    | p :: ps' => h_entry p i PInitNxtVal :: hl_entries (i + p_len p + 1) ps'
    end.

  Lemma h_head p y : h_ok p -> exists c r, p_bytes p ++ y = c :: r /\ plain flags c.
  Proof.
    intros (H1 & H2 & _). unfold p_bytes. destruct (fst p) as [|c n]; [congruence|].
    exists c, (n ++ 61 :: snd p ++ y). split; [cbn; rewrite <- app_assoc; reflexivity|]. inversion H2; assumption.
  Qed.

  Lemma uh_iter1_more p c r pre i l : h_ok p -> plain flags c -> i = nnat (length pre) -> UHI l ->
    uh_iter1 flags0 pre (p_bytes p ++ sep :: c :: r) i l
    = Next (length (p_bytes p) + 1) (uh_add l (h_entry p i PInitNxtVal)).
  Proof.
    intros (H1 & H2 & H3 & H4) Hc Hi [Hwf Hslot]. unfold uh_iter1. cbv zeta. rewrite Hslot.
    destruct p as [nm vl]. cbn [fst snd] in *. destruct nm as [|n0 name]; [congruence|]. destruct vl as [|v0 value]; [congruence|].
    apply Forall_cons_iff in H2. destruct H2 as [Hn0 Hname]. apply Forall_cons_iff in H4. destruct H4 as [Hv0 Hvalue].
    pose proof (tp_spec_more_at flags (rev pre) n0 name v0 value c r Hn0 Hname Hv0 Hvalue Hc) as H. cbv zeta in H.
    unfold parse_tokparam in H. rewrite rev_length, <- Hi in H.
    assert (Hi' : i = nnat (length (rev pre))) by (rewrite rev_length; exact Hi).
    rewrite Hi' in H at 1. rewrite parse_at, rev_involutive, <- Hi' in H.
    unfold p_bytes. cbn [fst snd].
    repeat (rewrite <- ?app_assoc; cbn [app]). repeat (rewrite <- ?app_assoc in H; cbn [app] in H).
    match goal with |- context [run ?a ?b ?c ?d ?e ?f] => match type of H with _ = ?R => replace (run a b c d e f) with R by (symmetry; exact H) end end.
    cbv beta iota.
    unfold uh_add, h_entry, p_len, p_bytes. cbn [fst snd].
    f_equal; [repeat (rewrite ?app_length; cbn [length]); unfold nnat; lia|].
    repeat (rewrite ?app_length; cbn [length]).
    replace (nnat (S (length name)) + 1 + nnat (S (length value))) with (nnat (S (length name + S (S (length value))))) by (unfold nnat; lia).
    replace (i + (nnat (S (length name)) + 1)) with (i + nnat (S (length name)) + 1) by lia. reflexivity.
  Qed.

  Lemma uh_iter1_last p t r pre i l : h_ok p -> is_term_c flags t = true -> i = nnat (length pre) -> UHI l ->
    uh_iter1 flags0 pre (p_bytes p ++ t :: r) i l = Ret (i + p_len p) EOk (uh_add l (h_entry p i PFIN)).
  Proof.
    intros (H1 & H2 & H3 & H4) Ht Hi [Hwf Hslot]. unfold uh_iter1. cbv zeta. rewrite Hslot.
    destruct p as [nm vl]. cbn [fst snd] in *. destruct nm as [|n0 name]; [congruence|]. destruct vl as [|v0 value]; [congruence|].
    apply Forall_cons_iff in H2. destruct H2 as [Hn0 Hname]. apply Forall_cons_iff in H4. destruct H4 as [Hv0 Hvalue].
    pose proof (tp_spec_term_at flags (rev pre) n0 name v0 value t r Hn0 Hname Hv0 Hvalue Ht) as H. cbv zeta in H.
    unfold parse_tokparam in H. rewrite rev_length, <- Hi in H.
    assert (Hi' : i = nnat (length (rev pre))) by (rewrite rev_length; exact Hi).
    rewrite Hi' in H at 1. rewrite parse_at, rev_involutive, <- Hi' in H.
    unfold p_bytes. cbn [fst snd].
    repeat (rewrite <- ?app_assoc; cbn [app]). repeat (rewrite <- ?app_assoc in H; cbn [app] in H).
    match goal with |- context [run ?a ?b ?c ?d ?e ?f] => match type of H with _ = ?R => replace (run a b c d e f) with R by (symmetry; exact H) end end.
    cbv beta iota.
    unfold uh_add, h_entry, p_len, p_bytes. cbn [fst snd].
    repeat (rewrite ?app_length; cbn [length]).
    replace (nnat (S (length name)) + 1 + nnat (S (length value))) with (nnat (S (length name + S (S (length value))))) by (unfold nnat; lia).
    replace (i + (nnat (S (length name)) + 1)) with (i + nnat (S (length name)) + 1) by lia.
    f_equal.
  Qed.

  Lemma uh_iter_noz pre rest i l k X : uh_iter1 flags0 pre rest i l = Next (S k) X -> uh_iter flags0 pre rest i l = Next (S k) X.
  Proof. intros H. unfold uh_iter. rewrite H. reflexivity. Qed.
  Lemma uh_iter_ret pre rest i l o e X : uh_iter1 flags0 pre rest i l = Ret o e X -> uh_iter flags0 pre rest i l = Ret o e X.
  Proof. intros H. unfold uh_iter. rewrite H. reflexivity. Qed.

  Lemma uhlist_run ps : forall pre i l t r, ps <> [] -> Forall h_ok ps -> is_term_c flags t = true -> i = nnat (length pre) -> UHI l ->
    run (uh_iter flags0) pre (hl_bytes ps ++ t :: r) i 0 l
    = Done (i + nnat (length (hl_bytes ps))) EOk (uh_adds l (hl_entries i ps)).
  Proof.
    induction ps as [|p ps IH]; intros pre i l t r Hne Hall Ht Hi Hl; [congruence|].
    apply Forall_cons_iff in Hall. destruct Hall as [Hp Hall].
    destruct ps as [|p2 ps].
    - cbn [hl_bytes hl_entries uh_adds fold_left]. rewrite run_after.
      rewrite (uh_iter_ret _ _ _ _ _ _ _ (uh_iter1_last p t r pre i l Hp Ht Hi Hl)). cbn [after]. reflexivity.
    - change (hl_bytes (p :: p2 :: ps)) with (p_bytes p ++ sep :: hl_bytes (p2 :: ps)).
      change (hl_entries i (p :: p2 :: ps)) with (h_entry p i PInitNxtVal :: hl_entries (i + p_len p + 1) (p2 :: ps)).
      rewrite <- app_assoc. cbn [app].
      assert (Hp2 : h_ok p2) by (apply Forall_cons_iff in Hall; apply Hall).
      assert (Hhd : exists c y, hl_bytes (p2 :: ps) ++ t :: r = c :: y /\ plain flags c).
      { destruct ps as [|p3 ps]; cbn [hl_bytes]; [apply h_head; exact Hp2|]. rewrite <- app_assoc. apply h_head. exact Hp2. }
      destruct Hhd as (c & y & Ey & Hc). rewrite Ey.
      rewrite run_after.
      pose proof (uh_iter1_more p c y pre i l Hp Hc Hi Hl) as H1. rewrite Nat.add_1_r in H1.
      rewrite (uh_iter_noz _ _ _ _ _ _ H1).
      set (k := S (length (p_bytes p))).
      rewrite after_next by (try rewrite app_length; cbn [length]; lia).
      assert (Ez : zpre k pre (p_bytes p ++ sep :: c :: y) = sep :: rev (p_bytes p) ++ pre /\ zrest k (p_bytes p ++ sep :: c :: y) = c :: y).
      { unfold zpre, zrest, k. change (p_bytes p ++ sep :: c :: y) with (p_bytes p ++ [sep] ++ c :: y). rewrite app_assoc.
        replace (S (length (p_bytes p))) with (length (p_bytes p ++ [sep])) by (rewrite app_length; cbn; lia).
        rewrite firstn_app, Nat.sub_diag, firstn_all, skipn_app, Nat.sub_diag, skipn_all. cbn [firstn skipn app]. rewrite app_nil_r, rev_app_distr. cbn. auto. }
      destruct Ez as [-> ->]. rewrite <- Ey.
      rewrite (IH (sep :: rev (p_bytes p) ++ pre) (i + nnat k) (uh_add l (h_entry p i PInitNxtVal)) t r ltac:(discriminate) Hall Ht).
      + cbn [uh_adds fold_left]. unfold p_len. replace (i + nnat (length (p_bytes p)) + 1) with (i + nnat k) by (unfold k, nnat; lia).
        f_equal. rewrite app_length. cbn [length]. fold (hl_bytes (p2 :: ps)). unfold k, nnat. lia.
      + cbn [length]. rewrite app_length, rev_length. unfold k, nnat in *. lia.
      + apply uh_add_UHI. exact Hl.
  Qed.

  Lemma hl_entries_length ps : forall i, length (hl_entries i ps) = length ps.
  Proof.
    induction ps as [|p ps IH]; intros i; [reflexivity|]. destruct ps as [|p2 ps]; [reflexivity|].
    change (hl_entries i (p :: p2 :: ps)) with (h_entry p i PInitNxtVal :: hl_entries (i + p_len p + 1) (p2 :: ps)).
    cbn [length]. rewrite IH. reflexivity.
  Qed.

  Theorem uri_hdrs_list_spec ps (junk : list byte) t r n : ps <> [] -> Forall h_ok ps -> is_term_c flags t = true ->
    let i := nnat (length junk) in
    let es := hl_entries i ps in
    exists L, parse_all_uri_hdrs flags0 (junk ++ hl_bytes ps ++ t :: r) i (uhdrs_init (repeat tokparam0 n))
              = Done (i + nnat (length (hl_bytes ps))) EOk L /\
      uh_n L = nnat (length ps) /\ uh_vno L = nnat (length ps) /\
      (forall j, (j < length ps)%nat -> (j < n)%nat -> nth j (uh_hdrs L) tokparam0 = nth j es tokparam0).
  Proof.
    intros Hne Hall Ht i es. set (l0 := uhdrs_init (repeat tokparam0 n)).
    assert (Hl0 : UHI l0).
    { unfold UHI, l0. split; [apply uh_wf_init|]. unfold uh_slot, uh_is_tmp, uh_cap, uhdrs_init. cbn. destruct (_ <=? 0); [reflexivity|apply nth_repeat]. }
    exists (uh_adds l0 es). unfold parse_all_uri_hdrs.
    replace (l0 <| uh_vno := 0 |>) with l0 by reflexivity. subst i. rewrite parse_at.
    rewrite (uhlist_run ps (rev junk) (nnat (length junk)) l0 t r Hne Hall Ht ltac:(now rewrite rev_length) Hl0).
    split; [reflexivity|]. fold es.
    assert (Hlen : length es = length ps) by apply hl_entries_length.
    destruct (hadds_n es l0) as (A1 & A2 & A3). rewrite A1, A2, Hlen.
    split; [reflexivity|]. split; [reflexivity|].
    intros j Hj Hjn. pose proof (hadds_nth es l0 j ltac:(lia)) as A. change (uh_n l0) with 0 in A. cbn [N.to_nat Nat.add] in A.
    apply A. unfold l0, uhdrs_init. cbn [uh_hdrs]. rewrite repeat_length. exact Hjn.
  Qed.
End UH.
