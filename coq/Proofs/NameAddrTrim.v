(* C05: the value V of a name-addr header (the Val of a From / To header) is trimmed: its first and its last byte are not white
   space - for every input and every chunk schedule.  A content invariant over the zipper beside fb_inv and NNI. *)
From Sipsp Require Import Harness RunLemmas Safe SafeLeaf SafeMore Capacity TrimSpec NameAddrNest.
From Coq Require Import ZifyN ZifyNat ZifyBool.
From RecordUpdate Require Import RecordUpdate.

(* ---- bytes of the zipper ------------------------------------------------------------------------------------------------------------------- *)
Lemma nonws_zpre k pre rest j : nonws_pre pre j -> nonws_pre (zpre k pre rest) j.
Proof.
  intros (c & Hc & Hw). exists c. split; [|exact Hw]. unfold bpre in *. unfold zpre. rewrite rev_app_distr, rev_involutive.
  rewrite nth_error_app1; [exact Hc|]. apply nth_error_Some. congruence.
Qed.
Lemma nonws_cons c pre j : nonws_pre pre j -> nonws_pre (c :: pre) j.
Proof. intros H. exact (nonws_zpre 1 pre [c] j H). Qed.
Lemma nonws_here c pre i : i = nnat (length pre) -> is_ws c = false -> nonws_pre (c :: pre) i.
Proof. intros -> Hc. exists c. split; [apply bpre_last|exact Hc]. Qed.
(* the byte before the current position, when the white-space run before it is empty *)
Lemma nonws_prev pre i : i = nnat (length pre) -> 0 < i -> span is_ws pre = 0%nat -> nonws_pre pre (i - 1).
Proof.
  intros Hi H0 Hs. destruct pre as [|p0 pre0]; [cbn in Hi; unfold nnat in Hi; lia|]. cbn [span] in Hs. destruct (is_ws p0) eqn:E; [discriminate|].
  exists p0. split; [|exact E]. replace (i - 1) with (nnat (length pre0)) by (subst i; cbn [length]; unfold nnat; lia). apply bpre_last.
Qed.
(* the byte before the white-space run that ends at the current position *)
Lemma nonws_before_span pre i : i = nnat (length pre) -> (span is_ws pre < length pre)%nat -> nonws_pre pre (i - nnat (span is_ws pre) - 1).
Proof.
  revert i. induction pre as [|p0 pre IH]; intros i Hi Hlt; [cbn in Hlt; lia|]. cbn [span] in *. destruct (is_ws p0) eqn:E.
  - cbn [length] in Hlt. specialize (IH (nnat (length pre)) eq_refl ltac:(lia)).
    replace (i - nnat (S (span is_ws pre)) - 1) with (nnat (length pre) - nnat (span is_ws pre) - 1) by (subst i; cbn [length]; unfold nnat; lia).
    apply nonws_cons. exact IH.
  - replace (i - nnat 0 - 1) with (nnat (length pre)) by (subst i; cbn [length]; unfold nnat; lia). exists p0. split; [apply bpre_last|exact E].
Qed.
Lemma span_le_nonws pre j : nonws_pre pre j -> j < nnat (length pre) -> nnat (span is_ws pre) + j < nnat (length pre).
Proof.
  revert j. induction pre as [|p0 pre IH]; intros j (c & Hc & Hw) Hj; [cbn in Hj; unfold nnat in Hj; lia|].
  cbn [span]. destruct (is_ws p0) eqn:E; [|cbn [length] in *; unfold nnat in *; lia].
  destruct (N.eq_dec j (nnat (length pre))) as [->|Hne].
  - rewrite bpre_last in Hc. congruence.
  - assert (Hj' : j < nnat (length pre)) by (cbn [length] in Hj; unfold nnat in *; lia).
    assert (Hb : bpre pre j = Some c).
    { unfold bpre in *. cbn [rev] in Hc. rewrite nth_error_app1 in Hc; [exact Hc|rewrite rev_length; unfold nnat in *; lia]. }
    specialize (IH j (ex_intro _ c (conj Hb Hw)) Hj'). cbn [length]. unfold nnat in *. lia.
Qed.
Lemma zrest_head (rest : list byte) k c : nth_error rest k = Some c -> exists r, zrest k rest = c :: r.
Proof.
  revert k. induction rest as [|a rest IH]; intros [|k] H; cbn in H; try discriminate.
  - injection H as ->. exists rest. reflexivity.
  - destruct (IH k H) as (r & E). exists r. exact E.
Qed.

(* ---- the invariant -------------------------------------------------------------------------------------------------------------------------- *)
Definition in_lwsb (st : fbst) : bool :=
  match st with
  | FbNewParam | FbNewPossibleParam | FbParamName | FbPossibleParamName | FbNewParamVal | FbNewPossibleVal | FbParamVal | FbPossibleVal => true
  | _ => false
  end.
Definition EIs (pre : list byte) (s : pfrom) : Prop :=
  (is_st_init (fb_state s) = false -> nonws_pre pre (po (fb_v s))) /\ (pl (fb_v s) = 0 \/ nonws_pre pre (pf_end (fb_v s) - 1)).
Definition RW (pre rest : list byte) (s : pfrom) : Prop :=
  in_lwsb (fb_state s) = true -> span is_ws pre <> 0%nat -> match rest with c :: _ => is_ws c = false | [] => False end.
Definition EI (pre rest : list byte) (s : pfrom) : Prop := EIs pre s /\ RW pre rest s.
Definition ei_res (pre rest : list byte) (i : N) (r : ires pfrom) : Prop :=
  match r with
  | Next k s' => (0 < k <= length rest)%nat -> EI (zpre k pre rest) (zrest k rest) s'
  | Ret o e s' => (e = EMore -> exists k, (k <= length rest)%nat /\ o = i + nnat k /\ EIs (zpre k pre rest) s' /\
                                          (in_lwsb (fb_state s') = true -> span is_ws (zpre k pre rest) = 0%nat)) /\
                  (e = EOk \/ e = EMoreValues -> EIs pre s')
  | IPanic => True
  end.

Lemma EIs_pfrom0 pre : EIs pre pfrom0.
Proof. unfold EIs, pfrom0. cbn. split; [discriminate|left; reflexivity]. Qed.
Lemma EIs_adv k pre rest s : EIs pre s -> EIs (zpre k pre rest) s.
Proof. intros [A B]. split; [intros E; apply nonws_zpre; exact (A E)|destruct B as [B|B]; [left; exact B|right; apply nonws_zpre; exact B]]. Qed.
Lemma EIs_v pre s s' : fb_v s' = fb_v s -> (is_st_init (fb_state s') = false -> is_st_init (fb_state s) = false) -> EIs pre s -> EIs pre s'.
Proof. unfold EIs. intros -> H [A B]. split; [intros E; exact (A (H E))|exact B]. Qed.

Lemma ret_other_ei pre rest i o e s : e <> EMore -> e <> EOk -> e <> EMoreValues -> ei_res pre rest i (Ret o e s).
Proof. intros H1 H2 H3. cbn. split; [intros E; congruence|intros [E|E]; congruence]. Qed.
Lemma ret_more0_ei pre rest i s : EIs pre s -> (in_lwsb (fb_state s) = true -> span is_ws pre = 0%nat) -> ei_res pre rest i (Ret i EMore s).
Proof.
  intros H Hs. cbn. split; [|intros [E|E]; discriminate]. intros _. exists 0%nat. split; [lia|]. split; [unfold nnat; lia|].
  unfold zpre. cbn [firstn rev app]. split; assumption.
Qed.
Lemma next1_ei pre c r i s' : is_ws c = false -> EIs (c :: pre) s' -> ei_res pre (c :: r) i (Next 1 s').
Proof.
  intros Hc H. cbn [ei_res]. intros _. unfold zpre, zrest. cbn [firstn skipn rev app]. split; [exact H|].
  intros _ Hsp. cbn [span] in Hsp. rewrite Hc in Hsp. congruence.
Qed.

(* what fb_close does to V *)
Lemma close_v pre rest i0 ic s s1 : fb_close pre rest i0 ic s = Some (Some s1) ->
  fb_state s <> FbInit /\ (fb_v s1 = fb_v s \/ (fb_v s1 = mkpf (po (fb_v s)) (ic - po (fb_v s)) /\ po (fb_v s) <= ic)).
Proof.
  intros H. unfold fb_close in H.
  destruct s as [nm ur tg star lr he ty q ex pa v pe eo sta so ps pd vs ve]. cbn [fb_state fb_v] in *.
  assert (Hext : forall (s2 : pfrom) (force : bool), fb_v s2 = v ->
            match (if force || negb (po (fb_params s2) =? 0) then pf_extend (fb_params s2) ic else Some (fb_params s2)), pf_extend (fb_v s2) ic with
            | Some p, Some v' => Some (Some (s2 <| fb_params := p |> <| fb_v := v' |>))
            | _, _ => @None (option pfrom)
            end = Some (Some s1) -> fb_v s1 = mkpf (po v) (ic - po v) /\ po v <= ic).
  { intros s2 force Ev H2. rewrite Ev in H2. destruct (if force || _ then _ else _) as [p|]; [|discriminate].
    destruct (pf_extend v ic) as [v'|] eqn:Ex; [|discriminate]. apply pf_extend_inv in Ex. destruct Ex as [-> Hv].
    injection H2 as <-. destruct s2. cbn. auto. }
  destruct sta; try discriminate; (split; [discriminate|]).
  all: try (match type of H with match setFromParamVal ?a ?b ?c ?s' with _ => _ end = _ =>
              destruct (setFromParamVal a b c s') as [s2|] eqn:Es; [|discriminate];
              apply setpv_frame in Es; unfold nview in Es; cbn in Es; injection Es as _ _ _ _ Ev2 _ end;
            right; match type of H with context [if ?f || _ then _ else _] => exact (Hext s2 f Ev2 H) end).
  - cbn [fb_soffs fb_v] in H. destruct (pf_set so ic); [|discriminate]. destruct (pf_extend v ic) as [v'|] eqn:Ex; [|discriminate].
    apply pf_extend_inv in Ex. destruct Ex as [-> Hv]. injection H as <-. right. cbn. auto.
  - injection H as <-. left. reflexivity.
  - injection H as <-. left. reflexivity.
  - right. exact (Hext (mkpfrom nm ur tg star lr he ty q ex pa v pe eo FbNewPossibleParam so ps pd vs ve) false eq_refl H).
  - right. exact (Hext (mkpfrom nm ur tg star lr he ty q ex pa v pe eo FbNewParam so ps pd vs ve) false eq_refl H).
  - injection H as <-. left. reflexivity.
Qed.
Definition noext (st : fbst) : bool := match st with FbURIFound | FbNameOrURIEnd | FbStar => true | _ => false end.
Lemma close_noext pre rest i0 ic s s1 : noext (fb_state s) = true -> fb_close pre rest i0 ic s = Some (Some s1) -> fb_v s1 = fb_v s.
Proof.
  intros Hn H. unfold fb_close in H. destruct s as [nm ur tg star lr he ty q ex pa v pe eo sta so ps pd vs ve]. cbn [fb_state fb_v] in *.
  destruct sta; try discriminate Hn; injection H as <-; reflexivity.
Qed.
Lemma fin_v (s1 : pfrom) h : fb_v (s1 <| fb_state := FbFIN |> <| fb_soffs := 0 |> <| fb_type := h |>) = fb_v s1 /\
                             fb_state (s1 <| fb_state := FbFIN |> <| fb_soffs := 0 |> <| fb_type := h |>) = FbFIN.
Proof. destruct s1. split; reflexivity. Qed.
Definition closes_bad (st : fbst) : bool :=
  match st with FbInit | FbName | FbURI | FbQuoted | FbQuotedVal | FbQuotedPossibleVal | FbFIN => true | _ => false end.
Lemma close_bad pre rest i0 ic s : closes_bad (fb_state s) = true -> fb_close pre rest i0 ic s = Some None.
Proof. intros H. unfold fb_close. destruct (fb_state s); try discriminate H; reflexivity. Qed.
Lemma eoh_ei h pre rest i0 ic ret e s : EIs pre s ->
  noext (fb_state s) = true \/ closes_bad (fb_state s) = true \/ (nonws_pre pre (ic - 1) /\ po (fb_v s) < ic) ->
  e <> EMore -> ei_res pre rest i0 (fb_endOfHdr h pre rest i0 ic ret e s).
Proof.
  intros [A B] Hc He. unfold fb_endOfHdr. destruct (fb_close pre rest i0 ic s) as [[s1|]|] eqn:Ec; [| |exact I].
  - cbn [ei_res]. split; [intros E; congruence|]. intros _.
    destruct (close_v pre rest i0 ic s s1 Ec) as (Hni & Hv).
    assert (Hst : is_st_init (fb_state s) = false) by (destruct (fb_state s); try reflexivity; congruence).
    destruct (fin_v s1 h) as [F1 F2]. unfold EIs. rewrite F1, F2. cbn [is_st_init].
    destruct Hc as [Hn|[Hb|[Hn Hlt]]].
    + rewrite (close_noext pre rest i0 ic s s1 Hn Ec). split; [intros _; exact (A Hst)|exact B].
    + rewrite (close_bad pre rest i0 ic s Hb) in Ec. discriminate.
    + destruct Hv as [Ev|[Ev Hle]]; rewrite Ev; [split; [intros _; exact (A Hst)|exact B]|].
      cbn [po]. split; [intros _; exact (A Hst)|right]. unfold pf_end. cbn [po pl].
      replace (po (fb_v s) + (ic - po (fb_v s)) - 1) with (ic - 1) by lia. exact Hn.
  - cbn [ei_res]. split; [intros E; destruct (fb_state s); discriminate|intros [E|E]; destruct (fb_state s); discriminate].
Qed.

Lemma lws_ei h pre c r i s1 : EIs pre s1 -> in_lwsb (fb_state s1) = false -> noext (fb_state s1) = true \/ closes_bad (fb_state s1) = true ->
  ei_res pre (c :: r) i (fb_lws h pre (c :: r) i s1).
Proof.
  intros HE Hl Hc. unfold fb_lws. pose proof (skipLWS_bounds false (c :: r)) as Hb.
  destruct (skipLWS false (c :: r)) as [k|k crl|k] eqn:El.
  - cbn [ei_res]. intros Hk. split; [apply EIs_adv; exact HE|]. intros E. congruence.
  - apply eoh_ei; [exact HE|tauto|discriminate].
  - cbn [ei_res]. split; [|intros [E|E]; discriminate]. intros _. exists k. split; [exact Hb|]. split; [reflexivity|].
    split; [apply EIs_adv; exact HE|intros E; congruence].
Qed.
(* white space met in a state that suspends before it: the white-space run before the current position is empty *)
Lemma lws_b_ei h pre c r i s upd : i = nnat (length pre) -> is_ws c = true -> EI pre (c :: r) s -> in_lwsb (fb_state s) = true -> po (fb_v s) < i ->
  (forall n, fb_v (upd n) = fb_v s /\ is_st_init (fb_state (upd n)) = false) ->
  ei_res pre (c :: r) i (fb_lws_b h pre (c :: r) i s upd).
Proof.
  intros Hi Hws [HE HR] Hl Hv Hupd. unfold fb_lws_b.
  assert (Hsp : span is_ws pre = 0%nat).
  { destruct (span is_ws pre) eqn:E; [reflexivity|]. specialize (HR Hl ltac:(rewrite E; discriminate)). cbn in HR. congruence. }
  assert (Hst : is_st_init (fb_state s) = false) by (destruct (fb_state s); try reflexivity; discriminate Hl).
  assert (HEu : forall n, EIs pre (upd n)).
  { intros n. destruct (Hupd n) as [E1 E2]. destruct HE as [A B]. unfold EIs. rewrite E1. split; [intros _; exact (A Hst)|exact B]. }
  destruct (skipLWS false (c :: r)) as [k|k crl|k] eqn:El.
  - cbn [ei_res]. intros Hk. split; [apply EIs_adv; apply HEu|].
    intros _ _. destruct (skipLWS_ok_nonws (c :: r) k El) as (c' & Hc' & Hw'). destruct (zrest_head (c :: r) k c' Hc') as (r' & ->). exact Hw'.
  - apply eoh_ei; [apply HEu| |discriminate]. right. right. destruct (Hupd None) as [E1 _]. rewrite E1.
    split; [apply nonws_prev; [exact Hi|lia|exact Hsp]|exact Hv].
  - apply ret_more0_ei; [exact HE|intros _; exact Hsp].
Qed.
Lemma mv_ei h pre rest i s : i = nnat (length pre) -> EIs pre s -> fb_state s <> FbInit -> po (fb_v s) < i -> pf_end (fb_v s) + nnat (span is_ws pre) <= i ->
  ei_res pre rest i (fb_moreValues h pre rest i s).
Proof.
  intros Hi HE Hst Hv Hn10. unfold fb_moreValues. apply eoh_ei; [exact HE| |discriminate]. right. right.
  assert (Hinit : is_st_init (fb_state s) = false) by (destruct (fb_state s); try reflexivity; congruence).
  destruct HE as [A _]. specialize (A Hinit).
  pose proof (span_le_nonws pre (po (fb_v s)) A ltac:(lia)) as Hs. rewrite <- Hi in Hs.
  replace (N.min (nnat (span is_ws pre)) (i - po (fb_v s))) with (nnat (span is_ws pre)) by lia.
  split; [|lia]. apply nonws_before_span; [exact Hi|unfold nnat in *; lia].
Qed.
Lemma setpv_ei pre c r i s' : is_ws c = false -> EIs (c :: pre) s' -> ei_res pre (c :: r) i (fb_setpv pre (c :: r) i s').
Proof.
  intros Hc H. unfold fb_setpv. destruct (setFromParamVal pre (c :: r) i s') as [s1|] eqn:Es; [|exact I].
  apply setpv_frame in Es. unfold nview in Es. injection Es as E1 _ _ _ E5 _. apply next1_ei; [exact Hc|].
  destruct H as [A B]. unfold EIs. rewrite E1, E5. split; assumption.
Qed.

Lemma EIs_next c pre i s s' : i = nnat (length pre) -> is_ws c = false -> EIs pre s ->
  (is_st_init (fb_state s') = false -> (is_st_init (fb_state s) = false /\ po (fb_v s') = po (fb_v s)) \/ po (fb_v s') = i) ->
  (fb_v s' = fb_v s \/ pl (fb_v s') = 0 \/ pf_end (fb_v s') = i + 1) -> EIs (c :: pre) s'.
Proof.
  intros Hi Hc [A B] H1 H2. split.
  - intros E. destruct (H1 E) as [[E0 ->]| ->]; [apply nonws_cons; exact (A E0)|apply nonws_here; assumption].
  - destruct H2 as [->|[H|H]]; [destruct B as [B|B]; [left; exact B|right; apply nonws_cons; exact B]|left; exact H|right].
    rewrite H. replace (i + 1 - 1) with i by lia. apply nonws_here; assumption.
Qed.

(* ---- one iteration ------------------------------------------------------------------------------------------------------------------------- *)
Ltac letbe := repeat match goal with
  | |- ei_res _ _ _ (match pf_set ?a ?b with _ => _ end) =>
      let E := fresh "E" in destruct (pf_set a b) eqn:E; [apply pf_set_inv in E; destruct E as [-> ?]|exact I]
  | |- ei_res _ _ _ (match pf_extend ?a ?b with _ => _ end) =>
      let E := fresh "E" in destruct (pf_extend a b) eqn:E; [apply pf_extend_inv in E; destruct E as [-> ?]|exact I]
  end.

Section Step.
  Variables (L h : N) (pre : list byte) (c : byte) (r1 : list byte) (i : N).
  Hypothesis Hi : i = nnat (length pre).
  Notation rest := (c :: r1).

  Lemma comma_ei s : is_ws c = false -> EIs pre s -> NNI pre i s -> fb_state s <> FbInit -> ei_res pre rest i (fb_comma h pre rest i s).
  Proof.
    intros Hc HE HN Hst. destruct HN as (N1&_&_&_&_&_&_&_&_&N10&_).
    assert (Hin : is_st_init (fb_state s) = false) by (destruct (fb_state s); try reflexivity; congruence).
    unfold fb_comma. destruct (multipleValsOk h); [apply mv_ei; auto|].
    apply next1_ei; [exact Hc|]. apply (EIs_next c pre i s s Hi Hc HE); [intros _; left; split; [exact Hin|reflexivity]|left; reflexivity].
  Qed.
  Lemma comma_strict_ei s : EIs pre s -> NNI pre i s -> fb_state s <> FbInit -> ei_res pre rest i (fb_comma_strict h pre rest i s).
  Proof.
    intros HE HN Hst. destruct HN as (N1&_&_&_&_&_&_&_&_&N10&_).
    assert (Hin : is_st_init (fb_state s) = false) by (destruct (fb_state s); try reflexivity; congruence).
    unfold fb_comma_strict, fb_bad. destruct (multipleValsOk h); [apply mv_ei; auto|apply ret_other_ei; discriminate].
  Qed.

  Lemma step_ei s : fb_inv L pre i s -> NNI pre i s -> EI pre rest s -> ei_res pre rest i (fb_iter h pre rest i s).
  Proof.
    intros Hinv HN [HE HR]. unfold fb_iter.
    assert (Hk : ccls_of c = KWs \/ (ccls_of c <> KWs /\ is_ws c = false)).
    { destruct (ccls_of c) eqn:E; [left; reflexivity|right; split; [discriminate|apply ccls_nows; rewrite E; discriminate]..]. }
    assert (Hkw : ccls_of c = KWs -> is_ws c = true).
    { intros E. destruct (is_ws c) eqn:Ew; [reflexivity|]. exfalso. exact (ccls_nows' c Ew E). }
    pose proof HN as (N1&_&_&_&_&_&_&_&_&N10&_).
    destruct (fb_state s) eqn:Est.
    23: { cbn [ei_res]. split; [intros E; discriminate|]. intros _. exact HE. }
    all: unfold fb_step, fb_gA, fb_gQ, fb_gURI, fb_gURIFound, fb_gP, fb_gPE, fb_gV, fb_gVE, fb_gStar, fb_bad, fb_reset3.
    all: destruct Hk as [Ek|[Ek Hc]]; [rewrite Ek; specialize (Hkw Ek)|destruct (ccls_of c); try congruence].
    all: cbn [is_st_init is_st_nameoruri is_st_nameoruriend is_st_name is_st_new st_poss st_newparam st_paramname st_paramnameend st_newval st_val st_valend st_quotedval].
    all: try (apply ret_other_ei; discriminate).
    all: try (apply comma_ei; [assumption|assumption|assumption|rewrite Est; discriminate]).
    all: try (apply comma_strict_ei; [assumption|assumption|rewrite Est; discriminate]).
    all: letbe.
    all: try (apply lws_ei; [| |]).
    all: try (apply lws_b_ei; [exact Hi|exact Hkw|split; assumption|rewrite Est; reflexivity|apply N1; reflexivity|intros n; destruct n]).
    all: try (apply setpv_ei; [exact Hc|apply (EIs_next c pre i s); [exact Hi|exact Hc|exact HE| |]]).
    all: try (apply next1_ei; [exact Hc|apply (EIs_next c pre i s); [exact Hi|exact Hc|exact HE| |]]).
    all: try (destruct s; cbn in Est |- *; subst; cbn; first [reflexivity | tauto | (intros _; left; split; reflexivity) | (intros _; right; reflexivity) | (left; reflexivity)]; fail).
    all: try (destruct s; cbn in Est |- *; subst; cbn; unfold pf_end; cbn; first [right; left; lia | right; right; lia]; fail).
    all: try (destruct s; cbn in *; subst; cbn; unfold pf_end; cbn; first [right; left; lia | right; right; lia]; fail).
    all: try (match goal with |- context [if ?b then _ else _] => destruct b end;
              destruct s; cbn in *; subst; cbn; first [reflexivity | (intros _; left; split; reflexivity) | (left; reflexivity)]; fail).
    all: try (destruct r1 as [|d r2]; [apply ret_more0_ei; [exact HE|rewrite Est; discriminate]|destruct (is_crlf d); [apply ret_other_ei; discriminate|]];
              cbn [ei_res]; intros Hk2; split; [apply EIs_adv; exact HE|intros E; rewrite Est in E; discriminate]).
    all: try (unfold fb_comma, fb_moreValues; destruct (multipleValsOk h);
              [apply eoh_ei; [exact HE|right; left; rewrite Est; reflexivity|discriminate]
              |apply next1_ei; [exact Hc|apply (EIs_next c pre i s s Hi Hc HE); [intros E; rewrite Est in E; discriminate|left; reflexivity]]]).
    destruct Hinv as (_&_&_&_&_&_&_&_&_&_&F1&_). specialize (F1 Est). specialize (N1 eq_refl). destruct HE as [A B]. rewrite Est in A. specialize (A eq_refl).
    destruct s as [nm ur tg star lr he ty q ex pa v pe eo sta so ps pd vs ve]. unfold EIs, pf_end in *. cbn in *.
    split; [intros _; exact A|right]. replace (po v + (i - po v) - 1) with (i - 1) by lia. apply nonws_prev; [exact Hi|lia|exact F1].
  Qed.
End Step.

(* ---- one call, every schedule ------------------------------------------------------------------------------------------------------------------ *)
Definition susp (pre : list byte) (s : pfrom) : Prop := EIs pre s /\ (in_lwsb (fb_state s) = true -> span is_ws pre = 0%nat).
Lemma susp_EI pre rest s : susp pre s -> EI pre rest s.
Proof. intros [A B]. split; [exact A|]. intros Hl Hs. exfalso. exact (Hs (B Hl)). Qed.
Lemma nonws_buf pre rest j : nonws_pre pre j -> exists c, nth_error (rev pre ++ rest) (N.to_nat j) = Some c /\ is_ws c = false.
Proof.
  intros (c & Hc & Hw). exists c. split; [|exact Hw]. unfold bpre in Hc. rewrite nth_error_app1; [exact Hc|]. apply nth_error_Some. congruence.
Qed.
Definition EP (pre rest : list byte) (i : N) (s : pfrom) : Prop := fb_P 0 pre rest i s /\ NNI pre i s /\ EI pre rest s.
Definition EQ (pre rest : list byte) (i o : N) (e : err) (s' : pfrom) : Prop :=
  i = nnat (length pre) /\
  (e = EMore -> exists k, (k <= length rest)%nat /\ o = i + nnat k /\ fb_inv 0 (zpre k pre rest) o s' /\ NNI (zpre k pre rest) o s' /\ susp (zpre k pre rest) s') /\
  (e = EOk \/ e = EMoreValues -> fb_state s' = FbFIN /\ trimmed (rev pre ++ rest) (fb_v s')).

Lemma iter_trim h pre rest i s : EP pre rest i s ->
  match fb_iter h pre rest i s with
  | Next k s' => (0 < k <= length rest)%nat /\ EP (zpre k pre rest) (zrest k rest) (i + nnat k) s'
  | Ret o e s' => EQ pre rest i o e s'
  | IPanic => False
  end.
Proof.
  intros ([Hi Hinv] & HN & HE). pose proof (fb_step_ok 0 h pre rest i s (conj Hi Hinv)) as S1.
  pose proof (iter_nest h pre rest i s Hi (conj Hinv HN)) as S2.
  assert (S3 : ei_res pre rest i (fb_iter h pre rest i s)).
  { destruct rest as [|c r1]; [|exact (step_ei 0 h pre c r1 i Hi s Hinv HN HE)].
    unfold fb_iter. destruct HE as [HEs HR].
    assert (Hsp : in_lwsb (fb_state s) = true -> span is_ws pre = 0%nat).
    { intros Hl. destruct (span is_ws pre) eqn:E; [reflexivity|]. exfalso. apply (HR Hl). rewrite E. discriminate. }
    assert (Hm : ei_res pre [] i (Ret i EMore s)) by (apply ret_more0_ei; assumption).
    destruct (fb_state s) eqn:Est; try exact Hm.
    cbn [ei_res]. split; [intros E; discriminate|intros _; exact HEs]. }
  assert (Hfin : forall o e s', fb_iter h pre rest i s = Ret o e s' -> e = EOk \/ e = EMoreValues -> fb_state s' = FbFIN).
  { intros o e s' E He. pose proof (fb_iter_ok_parsed h pre rest i s) as X. rewrite E in X.
    assert (Hp : fb_parsed s' = true) by (destruct He as [-> | ->]; exact X).
    unfold fb_parsed in Hp. destruct (fb_state s'); try discriminate. reflexivity. }
  unfold fb_step_res in S1. destruct (fb_iter h pre rest i s) as [k s'|o e s'|] eqn:Eit; [| |exact S1].
  - destruct S1 as [Hk [Hi' Hinv']]. split; [exact Hk|]. destruct (S2 ltac:(lia) ltac:(lia)) as [_ HN'].
    split; [split; assumption|]. split; [exact HN'|exact (S3 Hk)].
  - unfold EQ. cbn [ei_res] in S3. destruct S3 as [M1 M2]. destruct S2 as [Q1 _]. split; [exact Hi|]. split.
    + intros He. destruct (Q1 He) as (k & Hk & Ho & Hinv' & HN'). destruct (M1 He) as (k' & Hk' & Ho' & HE' & Hs').
      assert (k' = k) by (unfold nnat in *; lia). subst k'. exists k. unfold susp. auto 8.
    + intros He. pose proof (Hfin o e s' eq_refl He) as Hf. split; [exact Hf|]. destruct (M2 He) as [A B]. rewrite Hf in A. specialize (A eq_refl).
      unfold trimmed. destruct B as [B|B]; [left; exact B|right]. split; apply nonws_buf; assumption.
Qed.

Theorem nameaddr_call_trim h buf offs s o e s' : offs <= nnat (length buf) ->
  fb_inv 0 (rev (firstn (N.to_nat offs) buf)) offs s -> NNI (rev (firstn (N.to_nat offs) buf)) offs s -> susp (rev (firstn (N.to_nat offs) buf)) s ->
  parse_nameaddr h buf offs s = Done o e s' ->
  (e = EMore -> susp (rev (firstn (N.to_nat o) buf)) s') /\
  (e = EOk \/ e = EMoreValues -> trimmed buf (fb_v s')).
Proof.
  intros Hoffs Hinv HN HS H. unfold parse_nameaddr, parse, zinit in H.
  pose proof (run_safe (fb_iter h) EP EQ (iter_trim h) (skipn (N.to_nat offs) buf) (rev (firstn (N.to_nat offs) buf)) offs s) as R.
  rewrite H in R.
  assert (Hi : offs = nnat (length (rev (firstn (N.to_nat offs) buf)))) by (rewrite rev_length, firstn_length; unfold nnat in *; lia).
  specialize (R (conj (conj Hi Hinv) (conj HN (susp_EI _ _ _ HS)))).
  destruct R as (p' & r' & i' & (Hi' & Q1 & Q2) & Hw). rewrite rev_involutive, firstn_skipn in Hw. split.
  - intros He. destruct (Q1 He) as (k & Hk & Ho & _ & _ & HS').
    rewrite (zpre_whole_prefix p' r' k buf Hw Hk) in HS'.
    replace (N.to_nat o) with (length p' + k)%nat by (unfold nnat in *; lia). exact HS'.
  - intros He. destruct (Q2 He) as [_ T]. rewrite Hw in T. exact T.
Qed.

Lemma susp_pfrom0 pre : susp pre pfrom0.
Proof. split; [apply EIs_pfrom0|discriminate]. Qed.
Lemma fb_fed_susp h buf offs s : fb_fed h buf offs s -> susp (rev (firstn (N.to_nat offs) buf)) s.
Proof.
  induction 1 as [buf offs Ho|buf offs s o s' buf' Hf IH H Hpre Ho]; [apply susp_pfrom0|].
  destruct (fb_fed_inv h buf offs s Hf) as (I1 & I2 & I3).
  destruct (nameaddr_call_trim h buf offs s o EMore s' I1 I2 I3 IH H) as [M _]. rewrite Hpre. exact (M eq_refl).
Qed.
(* the value of a parsed name-addr header is empty or starts and ends with a byte that is not white space *)
Theorem nameaddr_value_trimmed h buf offs s o e s' : fb_fed h buf offs s -> parse_nameaddr h buf offs s = Done o e s' ->
  e = EOk \/ e = EMoreValues -> trimmed buf (fb_v s').
Proof.
  intros Hf H He. destruct (fb_fed_inv h buf offs s Hf) as (I1 & I2 & I3).
  exact (proj2 (nameaddr_call_trim h buf offs s o e s' I1 I2 I3 (fb_fed_susp h buf offs s Hf) H) He).
Qed.
