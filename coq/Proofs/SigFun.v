(* C19: what the signature is a function of.  The header part of the walk looks at a header only through
   its type, whether its name is one byte long (compact form), and - for Via - the branch signature of
   its value; GetMsgSig looks at the message only through request / method, the Call-ID text, the From
   tag text, the parsed-header flags, those keys in order, and whether headers were dropped. *)
From Sipsp Require Import Harness Tables SigWalk SigInv.
From Coq Require Import ZifyN ZifyNat ZifyBool.
From RecordUpdate Require Import RecordUpdate.

Section Fun.
  Variable callid_sig : list byte -> N * N.
  Variable str_sig : list byte -> N.
  Variable viabr_sig : list byte -> N.
  Let walk := sig_walk viabr_sig.
  Let gsig := get_msg_sig callid_sig str_sig viabr_sig.

  Definition hkey (buf : list byte) (h : hdr) : N * bool * option (option N) :=
    (h_type h, pl (h_name h) =? 1,
     if h_type h =? HdrVia then Some (option_map viabr_sig (bget buf (h_val h))) else None).

  Lemma sig_id_key h h' : h_type h = h_type h' -> (pl (h_name h) =? 1) = (pl (h_name h') =? 1) -> hdr_sig_id h = hdr_sig_id h'.
  Proof. intros Et En. unfold hdr_sig_id. rewrite Et, En. reflexivity. Qed.

  Theorem walk_function_of_keys buf buf' pf : forall hs hs' seen sig, map (hkey buf) hs = map (hkey buf') hs' ->
    walk buf pf hs seen sig = walk buf' pf hs' seen sig.
  Proof.
    induction hs as [|h hs IH]; intros [|h' hs'] seen sig E; try discriminate; [reflexivity|].
    cbn [map] in E. unfold hkey at 1 3 in E. injection E as Ety Enm Evia Et.
    unfold walk. cbn [sig_walk]. fold walk. rewrite <- Ety.
    destruct (hf_test seen (h_type h)); [apply IH; exact Et|].
    rewrite <- Ety in Evia.
    assert (Tail : forall sig1 : msgsig,
              (let '(s, e) := hdr_sig_id h in
               let add := err_eqb e EOk && (negb (h_type h =? HdrContact) || (sg_method sig1 =? MInvite)) in
               let sig2 := if add then sig1 <| sg_hdrsig := sg_hdrsig sig1 ++ [s] |> else sig1 in
               if add && (go_NoSigHdrs <=? nnat (length (sg_hdrsig sig2))) then Some (sig2, true)
               else if N.land pf go_sigHdrsFlags =? hf_set seen (h_type h) then Some (sig2, true)
               else walk buf pf hs (hf_set seen (h_type h)) sig2)
              = (let '(s, e) := hdr_sig_id h' in
                 let add := err_eqb e EOk && (negb (h_type h =? HdrContact) || (sg_method sig1 =? MInvite)) in
                 let sig2 := if add then sig1 <| sg_hdrsig := sg_hdrsig sig1 ++ [s] |> else sig1 in
                 if add && (go_NoSigHdrs <=? nnat (length (sg_hdrsig sig2))) then Some (sig2, true)
                 else if N.land pf go_sigHdrsFlags =? hf_set seen (h_type h) then Some (sig2, true)
                 else walk buf' pf hs' (hf_set seen (h_type h)) sig2)).
    { intros sig1. rewrite (sig_id_key h h' Ety Enm). destruct (hdr_sig_id h') as [s e]. cbv zeta.
      rewrite (IH hs' _ _ Et). reflexivity. }
    destruct (h_type h =? HdrVia).
    - injection Evia as Evia. destruct (bget buf (h_val h)) as [v|], (bget buf' (h_val h')) as [v'|]; cbn in Evia; try discriminate; [|reflexivity].
      injection Evia as ->. apply Tail.
    - apply Tail.
  Qed.

  (* two messages the signature cannot tell apart *)
  Definition same_sig_inputs (m : pmsg) (buf : list byte) (m' : pmsg) (buf' : list byte) : Prop :=
    msg_request m = msg_request m' /\ fl_methodno (m_fl m) = fl_methodno (m_fl m') /\
    bget buf (ci_callid (pv_callid (msg_pv m))) = bget buf' (ci_callid (pv_callid (msg_pv m'))) /\
    bget buf (fb_tag (pv_from (msg_pv m))) = bget buf' (fb_tag (pv_from (msg_pv m'))) /\
    hl_pflags (hs_l (m_hs m)) = hl_pflags (hs_l (m_hs m')) /\
    map (hkey buf) (hl_hdrs (hs_l (m_hs m))) = map (hkey buf') (hl_hdrs (hs_l (m_hs m'))) /\
    (hl_cap (hs_l (m_hs m)) <? hl_n (hs_l (m_hs m))) = (hl_cap (hs_l (m_hs m')) <? hl_n (hs_l (m_hs m'))).

  Theorem sig_function_of_inputs m buf m' buf' : same_sig_inputs m buf m' buf' -> gsig m buf = gsig m' buf'.
  Proof.
    intros (E1 & E2 & E3 & E4 & E5 & E6 & E7). unfold gsig, get_msg_sig. rewrite <- E1, <- E2, <- E3, <- E4, <- E5, <- E7.
    destruct (negb (msg_request m)); [reflexivity|].
    destruct (bget buf (ci_callid _)) as [cid|]; [|reflexivity]. destruct (bget buf (fb_tag _)) as [tag|]; [|reflexivity].
    destruct (callid_sig cid) as [cs cl]. fold walk.
    rewrite (walk_function_of_keys buf buf' _ _ _ 0 _ E6). reflexivity.
  Qed.
End Fun.
