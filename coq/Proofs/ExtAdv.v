(* Tools for iterators whose phases scan several bytes before suspending (header line):
   a result obtained k bytes further on, seen from the original zipper position. *)
From Sipsp Require Import RunLemmas Safe Resume Ext ExtLeaf ZSlice Harness ExtNameAddr.
From Coq Require Import ZifyN ZifyNat ZifyBool.

Definition ishift {St} (k : nat) (r : ires St) : ires St :=
  match r with Next n s => Next (k + n) s | _ => r end.
Definition noNext0 {St} (r : ires St) : Prop := match r with Next O _ => False | _ => True end.
Definition noNext {St} (r : ires St) : Prop := match r with Next _ _ => False | _ => True end.

Lemma noNext_noNext0 {St} (r : ires St) : noNext r -> noNext0 r.
Proof. destruct r as [[|n] s| |]; cbn; auto. Qed.
Lemma ishift_noNext {St} k (r : ires St) : noNext r -> ishift k r = r.
Proof. destruct r; cbn; auto; intros []. Qed.
Lemma ishift_0 {St} (r : ires St) : ishift 0 r = r.
Proof. destruct r; reflexivity. Qed.

Lemma after_ishift {St} (iter : list byte -> list byte -> N -> St -> ires St) pre B i k r :
  (k <= length B)%nat -> noNext0 r ->
  after iter pre B i (ishift k r) = after iter (zpre k pre B) (zrest k B) (i + nnat k) r.
Proof.
  intros Hk Hn. destruct r as [n s|o e s|]; try reflexivity.
  destruct n as [|n]; [destruct Hn|]. cbn [ishift after].
  replace (k + S n)%nat with (S (k + n)) by lia.
  rewrite zrest_length.
  destruct (S n <=? length B - k)%nat eqn:E1.
  - apply Nat.leb_le in E1. replace (S (k + n) <=? length B)%nat with true by (symmetry; apply Nat.leb_le; lia).
    rewrite zpre_zpre by exact Hk. rewrite zrest_zrest.
    replace (k + S n)%nat with (S (k + n)) by lia. f_equal. unfold nnat; lia.
  - apply Nat.leb_gt in E1. replace (S (k + n) <=? length B)%nat with false by (symmetry; apply Nat.leb_gt; lia).
    reflexivity.
Qed.

(* a clause established k bytes further on *)
Lemma clause_adv {St} (iter : list byte -> list byte -> N -> St -> ires St) pre rest x i k r r' :
  (k <= length rest)%nat -> noNext0 r' ->
  clause iter (zpre k pre rest) (zrest k rest) x (i + nnat k) r r' ->
  clause iter pre rest x i (ishift k r) (ishift k r').
Proof.
  intros Hk Hn. unfold clause. destruct r as [n t'|o e t'|]; cbn [ishift]; auto.
  - rewrite zrest_length. intros H Hle. rewrite H by lia. reflexivity.
  - destruct e; try (intros ->; reflexivity).
    intros (k2 & Hk2 & Ho & Hr). rewrite zrest_length in Hk2.
    exists (k + k2)%nat. split; [lia|]. split; [unfold nnat in *; lia|].
    assert (HkB : (k <= length (rest ++ x))%nat) by (rewrite app_length; lia).
    rewrite (after_ishift iter pre (rest ++ x) i k r' HkB Hn).
    rewrite <- (zpre_zpre k k2 pre (rest ++ x)) by exact HkB.
    rewrite <- (zrest_zrest k k2 (rest ++ x)).
    rewrite (zpre_app k pre rest x Hk), (zrest_app k rest x Hk). exact Hr.
Qed.

(* the iteration suspended k bytes further on with state t; on the longer input the iteration is
   what the iterator does from there, seen from here *)
Lemma clause_susp {St} (iter : list byte -> list byte -> N -> St -> ires St) pre rest x i k o (t : St) r' :
  (k <= length rest)%nat -> o = i + nnat k ->
  noNext0 (iter (zpre k pre (rest ++ x)) (zrest k (rest ++ x)) o t) ->
  r' = ishift k (iter (zpre k pre (rest ++ x)) (zrest k (rest ++ x)) o t) ->
  clause iter pre rest x i (Ret o EMore t) r'.
Proof.
  intros Hk -> Hn ->. unfold clause. exists k. split; [exact Hk|]. split; [reflexivity|].
  rewrite after_ishift by (try rewrite app_length; try lia; exact Hn). apply run_after.
Qed.

(* ---- offsets of successful returns ------------------------------------------------------------ *)
(* every successful return consumed something (unless the parser was entered in a state "fin" in
   which it has nothing left to do) and lies inside the buffer *)
Lemma run_ok_bounds {St} (iter : list byte -> list byte -> N -> St -> ires St) (fin : St -> Prop) :
  (forall pre rest i s, match iter pre rest i s with
                        | Ret o EOk _ => i <= o /\ (i < o \/ fin s) /\ o <= i + nnat (length rest) | _ => True end) ->
  forall rest pre i s o s', run iter pre rest i 0 s = Done o EOk s' ->
    i <= o /\ (i < o \/ fin s) /\ o <= i + nnat (length rest).
Proof.
  intros H rest. induction rest as [rest IH] using (well_founded_induction (Wf_nat.well_founded_ltof _ (@length byte))).
  intros pre i s o s' Hr. rewrite run_after in Hr. unfold after in Hr.
  pose proof (H pre rest i s) as Hi.
  destruct (iter pre rest i s) as [k t|o1 e1 t|]; [|injection Hr as E1 E2 E3; subst; exact Hi|discriminate].
  destruct k as [|k]; [discriminate|].
  destruct (S k <=? length rest)%nat eqn:Ek; [|discriminate]. apply Nat.leb_le in Ek.
  apply IH in Hr; [|unfold ltof; rewrite zrest_length; lia].
  rewrite zrest_length in Hr. clear IH H Hi. unfold nnat in *. destruct Hr as (H1 & _ & H2).
  split; [lia|]. split; [left; lia|lia].
Qed.

(* ---- the exported call, equalities instead of observations ------------------------------------- *)
Lemma parse_ext_eq {St} (iter : list byte -> list byte -> N -> St -> ires St) (HI : IterExt iter) p x i s :
  i <= nnat (length p) ->
  match parse iter p i s with
  | Done o EMore s' => i <= o /\ o <= nnat (length p) /\ parse iter (p ++ x) o s' = parse iter (p ++ x) i s
  | Done o e s' => parse iter (p ++ x) i s = Done o e s'
  | _ => True
  end.
Proof.
  intros Hi. unfold parse.
  assert (Hlen : i = nnat (length (rev (firstn (N.to_nat i) p)))).
  { rewrite rev_length, firstn_length. unfold nnat in *. lia. }
  pose proof (run_ext iter (fun _ => []) HI (skipn (N.to_nat i) p) (rev (firstn (N.to_nat i) p)) x i s Hlen) as H.
  rewrite (zinit_app p x i Hi).
  replace (zinit p i) with (rev (firstn (N.to_nat i) p), skipn (N.to_nat i) p) by reflexivity.
  destruct (run iter (rev (firstn (N.to_nat i) p)) (skipn (N.to_nat i) p) i 0 s) as [o e s'| |]; auto.
  destruct e; try exact H.
  destruct H as (k & Hk & -> & Hrq). rewrite skipn_length in Hk.
  split; [unfold nnat; lia|]. split; [unfold nnat in *; lia|].
  assert (Hb : (N.to_nat i + k <= length (p ++ x))%nat) by (rewrite app_length; unfold nnat in *; lia).
  rewrite (zinit_advance (p ++ x) i k Hb).
  assert (E1 : firstn (N.to_nat i) (p ++ x) = firstn (N.to_nat i) p).
  { rewrite firstn_app. replace (N.to_nat i - length p)%nat with 0%nat by (unfold nnat in *; lia). cbn. now rewrite app_nil_r. }
  assert (E2 : skipn (N.to_nat i) (p ++ x) = skipn (N.to_nat i) p ++ x).
  { rewrite skipn_app. replace (N.to_nat i - length p)%nat with 0%nat by (unfold nnat in *; lia). reflexivity. }
  rewrite E1, E2. exact Hrq.
Qed.
