(* C13 for the URI parameter and URI header lists: the capacity of the caller's array only truncates what
   is stored.  The two objects hold the same value in the slot being parsed, so the token-parameter
   parser does literally the same thing in both; what has to be shown is that the bookkeeping keeps them
   in step (same counts, same type flags, equal stored prefix, next slot fresh in both). *)
From Sipsp Require Import Driver Harness RunLemmas ExtLists Sim Capacity.
From Coq Require Import ZifyN ZifyNat ZifyBool.
From RecordUpdate Require Import RecordUpdate.

(* ---- URI parameters --------------------------------------------------------------------------------------------------------------------------------------- *)
Definition ul_wf (l : uparams) : Prop :=
  (forall j, (N.to_nat (ul_n l) < j)%nat -> nth j (ul_params l) uriparam0 = uriparam0) /\ (ul_n l < ul_cap l -> ul_tmp l = uriparam0).
Definition ul_prefix (l l' : uparams) : Prop :=
  forall j, (j < N.to_nat (ul_n l))%nat -> (j < length (ul_params l))%nat -> (j < length (ul_params l'))%nat ->
    nth j (ul_params l) uriparam0 = nth j (ul_params l') uriparam0.
Definition ul_scal (l l' : uparams) : Prop := ul_n l = ul_n l' /\ ul_types l = ul_types l' /\ ul_vno l = ul_vno l'.
Definition Rulc (l l' : uparams) : Prop := ul_scal l l' /\ ul_slot l = ul_slot l' /\ ul_prefix l l' /\ ul_wf l /\ ul_wf l'.

Lemma ul_store_proj l p :
  ul_n (ul_store l p) = ul_n l /\ ul_types (ul_store l p) = ul_types l /\ ul_vno (ul_store l p) = ul_vno l /\
  ul_params (ul_store l p) = (if ul_is_tmp l then ul_params l else set_nth (N.to_nat (ul_n l)) p (ul_params l)) /\
  ul_tmp (ul_store l p) = (if ul_is_tmp l then p else ul_tmp l).
Proof. unfold ul_store. destruct (ul_is_tmp l); destruct l; cbn; repeat split; reflexivity. Qed.

Lemma ul_slot_store l p : ul_slot (ul_store l p) = p.
Proof.
  destruct (ul_store_proj l p) as (S1 & _ & _ & S4 & S5). unfold ul_slot, ul_is_tmp, ul_cap in *. rewrite S1, S4, S5.
  destruct (nnat (length (ul_params l)) <=? ul_n l) eqn:E; [rewrite E; reflexivity|].
  rewrite set_nth_len, E. apply nth_set_nth. unfold nnat in *. lia.
Qed.

Lemma ul_prefix_store l l' p : ul_n l = ul_n l' -> ul_prefix l l' -> ul_prefix (ul_store l p) (ul_store l' p).
Proof.
  intros A Hpre j Hj Hlen Hlen'.
  destruct (ul_store_proj l p) as (S1 & _ & _ & S4 & _). destruct (ul_store_proj l' p) as (S1' & _ & _ & S4' & _).
  rewrite S1 in Hj. rewrite S4 in *. rewrite S4' in *.
  assert (E : forall c : uparams, (j < N.to_nat (ul_n c))%nat ->
            nth j (if ul_is_tmp c then ul_params c else set_nth (N.to_nat (ul_n c)) p (ul_params c)) uriparam0 = nth j (ul_params c) uriparam0
            /\ length (if ul_is_tmp c then ul_params c else set_nth (N.to_nat (ul_n c)) p (ul_params c)) = length (ul_params c)).
  { intros c Hc. destruct (ul_is_tmp c); [auto|]. rewrite set_nth_len. split; [|reflexivity]. apply nth_set_nth_ne. lia. }
  destruct (E l Hj) as [E1 E2]. destruct (E l' ltac:(lia)) as [E1' E2']. rewrite E1, E1'. rewrite E2 in Hlen. rewrite E2' in Hlen'.
  apply Hpre; assumption.
Qed.
Lemma ul_wf_store l p : ul_wf l -> ul_wf (ul_store l p).
Proof.
  intros [W1 W2]. destruct (ul_store_proj l p) as (S1 & _ & _ & S4 & S5). split.
  - intros j Hj. rewrite S1 in Hj. rewrite S4. destruct (ul_is_tmp l); [apply W1; exact Hj|].
    rewrite nth_set_nth_ne by lia. apply W1. exact Hj.
  - rewrite S1, S5. unfold ul_cap. rewrite S4. unfold ul_is_tmp, ul_cap in *. intros H.
    destruct (nnat (length (ul_params l)) <=? ul_n l) eqn:E; [lia|]. rewrite set_nth_len in H. apply W2. exact H.
Qed.
Lemma Rulc_store l l' p : Rulc l l' -> Rulc (ul_store l p) (ul_store l' p).
Proof.
  intros ((A1 & A2 & A3) & Hslot & Hpre & Hwf & Hwf').
  destruct (ul_store_proj l p) as (S1 & S2 & S3 & S4 & S5). destruct (ul_store_proj l' p) as (S1' & S2' & S3' & S4' & S5').
  split; [unfold ul_scal; rewrite S1, S2, S3, S1', S2', S3'; auto|].
  split; [now rewrite !ul_slot_store|]. split; [apply ul_prefix_store; assumption|].
  split; apply ul_wf_store; assumption.
Qed.

Section UlNext.
  Variables (l X : uparams) (p : uriparam).
  Hypothesis Hwf : ul_wf l.
  Hypothesis Hn : ul_n X = ul_n l + 1.
  Hypothesis Hps : ul_params X = (if ul_is_tmp l then ul_params l else set_nth (N.to_nat (ul_n l)) p (ul_params l)).
  Hypothesis Htmp : ul_tmp X = (if ul_is_tmp l then uriparam0 else ul_tmp l).

  Lemma unext_len : length (ul_params X) = length (ul_params l).
  Proof. rewrite Hps. destruct (ul_is_tmp l); [reflexivity|apply set_nth_len]. Qed.
  Lemma unext_slot : ul_slot X = uriparam0.
  Proof.
    unfold ul_slot, ul_is_tmp, ul_cap. rewrite unext_len, Hn, Htmp, Hps. destruct Hwf as [W1 W2].
    unfold ul_is_tmp, ul_cap in *.
    destruct (nnat (length (ul_params l)) <=? ul_n l) eqn:E.
    - replace (nnat (length (ul_params l)) <=? ul_n l + 1) with true by lia. reflexivity.
    - destruct (nnat (length (ul_params l)) <=? ul_n l + 1) eqn:E2; [apply W2; lia|].
      rewrite nth_set_nth_ne by lia. apply W1. lia.
  Qed.
  Lemma unext_nth j : (j <= N.to_nat (ul_n l))%nat -> (j < length (ul_params l))%nat ->
    nth j (ul_params X) uriparam0 = if (j =? N.to_nat (ul_n l))%nat then p else nth j (ul_params l) uriparam0.
  Proof.
    intros Hj Hlen. rewrite Hps. unfold ul_is_tmp, ul_cap. destruct (nnat (length (ul_params l)) <=? ul_n l) eqn:E.
    - replace (j =? N.to_nat (ul_n l))%nat with false by (unfold nnat in *; lia). reflexivity.
    - destruct (j =? N.to_nat (ul_n l))%nat eqn:Ej.
      + apply Nat.eqb_eq in Ej. subst j. apply nth_set_nth. exact Hlen.
      + apply nth_set_nth_ne. lia.
  Qed.
  Lemma unext_wf : ul_wf X.
  Proof.
    destruct Hwf as [W1 W2]. split.
    - intros j Hj. rewrite Hn in Hj. rewrite Hps. destruct (ul_is_tmp l); [apply W1; lia|].
      rewrite nth_set_nth_ne by lia. apply W1. lia.
    - unfold ul_cap. rewrite unext_len, Hn, Htmp. unfold ul_is_tmp, ul_cap in *. intros H.
      replace (nnat (length (ul_params l)) <=? ul_n l) with false by lia. apply W2. lia.
  Qed.
End UlNext.

Lemma Rulc_next l l' p X X' : Rulc l l' -> ul_scal X X' ->
  ul_n X = ul_n l + 1 -> ul_n X' = ul_n l' + 1 ->
  ul_params X = (if ul_is_tmp l then ul_params l else set_nth (N.to_nat (ul_n l)) p (ul_params l)) ->
  ul_params X' = (if ul_is_tmp l' then ul_params l' else set_nth (N.to_nat (ul_n l')) p (ul_params l')) ->
  ul_tmp X = (if ul_is_tmp l then uriparam0 else ul_tmp l) -> ul_tmp X' = (if ul_is_tmp l' then uriparam0 else ul_tmp l') ->
  Rulc X X'.
Proof.
  intros ((A1 & A2 & A3) & Hslot & Hpre & Hwf & Hwf') Hsc Hn Hn' Hh Hh' Ht Ht'.
  split; [exact Hsc|]. split.
  { rewrite (unext_slot l X p Hwf Hn Hh Ht), (unext_slot l' X' p Hwf' Hn' Hh' Ht'). reflexivity. }
  split.
  { intros j Hj Hlen Hlen'. rewrite Hn in Hj. rewrite (unext_len l X p Hh Ht) in Hlen. rewrite (unext_len l' X' p Hh' Ht') in Hlen'.
    rewrite (unext_nth l X p Hn Hh j) by lia. rewrite (unext_nth l' X' p Hn' Hh' j) by lia. rewrite <- A1.
    destruct (j =? N.to_nat (ul_n l))%nat eqn:Ej; [reflexivity|]. apply Hpre; lia. }
  split; [exact (unext_wf l X p Hwf Hn Hh Ht)|exact (unext_wf l' X' p Hwf' Hn' Hh' Ht')].
Qed.

Definition ul1_sim (r r' : ires uparams) : Prop :=
  match r, r' with
  | Next k l, Next k' l' => k = k' /\ Rulc l l'
  | Ret o e l, Ret o' e' l' => o = o' /\ e = e' /\ Rulc l l'
  | IPanic, IPanic => True
  | _, _ => False
  end.

Lemma ul_iter1_sim flags pre rest i l l' : Rulc l l' -> ul1_sim (ul_iter1 flags pre rest i l) (ul_iter1 flags pre rest i l').
Proof.
  intros HR. pose proof HR as ((A1 & A2 & A3) & Hslot & Hpre & Hwf & Hwf'). unfold ul_iter1. cbv zeta. rewrite <- Hslot.
  destruct (run (tp_iter _) pre rest i 0 (up_param (ul_slot l))) as [next e tp| |]; try exact I.
  assert (Hfin : forall t, Rulc
     (let l1 := ul_store l (mkuriparam tp t) in let l2 := l1 <| ul_types := N.lor (ul_types l1) t |> <| ul_vno := ul_vno l1 + 1 |> in
      let l3 := if ul_is_tmp l then l2 <| ul_tmp := uriparam0 |> else l2 in l3 <| ul_n := ul_n l3 + 1 |>)
     (let l1 := ul_store l' (mkuriparam tp t) in let l2 := l1 <| ul_types := N.lor (ul_types l1) t |> <| ul_vno := ul_vno l1 + 1 |> in
      let l3 := if ul_is_tmp l' then l2 <| ul_tmp := uriparam0 |> else l2 in l3 <| ul_n := ul_n l3 + 1 |>)).
  { intros t. cbv zeta.
    destruct (ul_store_proj l (mkuriparam tp t)) as (S1 & S2 & S3 & S4 & S5). destruct (ul_store_proj l' (mkuriparam tp t)) as (S1' & S2' & S3' & S4' & S5').
    apply (Rulc_next l l' (mkuriparam tp t)); [exact HR| | | | | | |].
    - unfold ul_scal. destruct (ul_is_tmp l), (ul_is_tmp l'); destruct (ul_store l (mkuriparam tp t)), (ul_store l' (mkuriparam tp t)); cbn in *; subst; repeat split; congruence.
    - destruct (ul_is_tmp l); destruct (ul_store l (mkuriparam tp t)); cbn in *; subst; reflexivity.
    - destruct (ul_is_tmp l'); destruct (ul_store l' (mkuriparam tp t)); cbn in *; subst; reflexivity.
    - destruct (ul_is_tmp l); destruct (ul_store l (mkuriparam tp t)); cbn in *; subst; reflexivity.
    - destruct (ul_is_tmp l'); destruct (ul_store l' (mkuriparam tp t)); cbn in *; subst; reflexivity.
    - destruct (ul_is_tmp l) eqn:E; destruct (ul_store l (mkuriparam tp t)); cbn in *; subst; reflexivity.
    - destruct (ul_is_tmp l') eqn:E; destruct (ul_store l' (mkuriparam tp t)); cbn in *; subst; reflexivity. }
  destruct e; try (cbn; split; [reflexivity|]; split; [reflexivity|]; apply Rulc_store; exact HR).
  - destruct (zget pre rest i (tp_name tp)) as [name|]; [|exact I]. cbn. split; [reflexivity|]. split; [reflexivity|apply Hfin].
  - destruct (zget pre rest i (tp_name tp)) as [name|]; [|exact I]. cbn. split; [reflexivity|]. split; [reflexivity|apply Hfin].
  - destruct (zget pre rest i (tp_name tp)) as [name|]; [|exact I]. cbn. split; [reflexivity|apply Hfin].
Qed.

Lemma ul_iter_sim flags pre rest i l l' : Rulc l l' ->
  ires_rel Rulc (fun _ _ => Rulc) (ul_iter flags pre rest i l) (ul_iter flags pre rest i l').
Proof.
  intros HR. unfold ul_iter. pose proof (ul_iter1_sim flags pre rest i l l' HR) as H. unfold ul1_sim in H.
  destruct (ul_iter1 flags pre rest i l) as [k l1|o e l1|], (ul_iter1 flags pre rest i l') as [k' l1'|o' e' l1'|]; try contradiction; try exact I.
  - destruct H as [<- H1]. destruct k as [|k].
    + pose proof (ul_iter1_sim flags pre rest i l1 l1' H1) as H2. unfold ul1_sim in H2.
      destruct (ul_iter1 flags pre rest i l1) as [k2 l2|o2 e2 l2|], (ul_iter1 flags pre rest i l1') as [k2' l2'|o2' e2' l2'|]; try contradiction; try exact I; exact H2.
    + cbn. auto.
  - exact H.
Qed.

(* ParseAllURIParams on objects that differ only in the capacity of the array *)
Theorem uparams_capacity flags buf offs l l' : Rulc l l' ->
  res_rel (fun _ _ => Rulc) (parse_all_uri_params flags buf offs l) (parse_all_uri_params flags buf offs l').
Proof.
  intros HR. unfold parse_all_uri_params. apply (parse_sim (ul_iter flags) (ul_iter flags) Rulc (fun _ _ => Rulc)).
  - intros pre rest i s s' H. apply ul_iter_sim. exact H.
  - destruct HR as ((A1 & A2 & A3) & Hslot & Hpre & Hwf & Hwf'). destruct l, l'; unfold Rulc, ul_scal, ul_slot, ul_is_tmp, ul_cap, ul_prefix, ul_wf in *; cbn in *. auto 10.
Qed.
(* fresh and reset objects of any two capacities are related *)
Lemma Rulc_init n n' : Rulc (uparams_init (repeat uriparam0 n)) (uparams_init (repeat uriparam0 n')).
Proof.
  unfold Rulc, uparams_init, ul_scal, ul_slot, ul_is_tmp, ul_cap, ul_prefix, ul_wf. cbn.
  split; [auto|]. split; [destruct (_ <=? 0), (_ <=? 0); rewrite ?nth_repeat; reflexivity|]. split; [intros j Hj; lia|].
  split; (split; [intros j _; apply nth_repeat|reflexivity]).
Qed.
(* what the relation says about a result: same counts and type flags; the stored parameters agree on the common prefix *)
Lemma Rulc_reads l l' : Rulc l l' -> ul_n l = ul_n l' /\ ul_types l = ul_types l' /\ ul_vno l = ul_vno l' /\
  forall j, (j < N.to_nat (ul_n l))%nat -> (j < length (ul_params l))%nat -> (j < length (ul_params l'))%nat ->
    nth j (ul_params l) uriparam0 = nth j (ul_params l') uriparam0.
Proof. intros ((A1 & A2 & A3) & _ & Hpre & _). auto. Qed.

(* ---- URI headers --------------------------------------------------------------------------------------------------------------------------------------- *)
Definition uh_wf (l : uhdrs) : Prop :=
  (forall j, (N.to_nat (uh_n l) < j)%nat -> nth j (uh_hdrs l) tokparam0 = tokparam0) /\ (uh_n l < uh_cap l -> uh_tmp l = tokparam0).
Definition uh_prefix (l l' : uhdrs) : Prop :=
  forall j, (j < N.to_nat (uh_n l))%nat -> (j < length (uh_hdrs l))%nat -> (j < length (uh_hdrs l'))%nat ->
    nth j (uh_hdrs l) tokparam0 = nth j (uh_hdrs l') tokparam0.
Definition uh_scal (l l' : uhdrs) : Prop := uh_n l = uh_n l' /\ uh_vno l = uh_vno l'.
Definition Ruhc (l l' : uhdrs) : Prop := uh_scal l l' /\ uh_slot l = uh_slot l' /\ uh_prefix l l' /\ uh_wf l /\ uh_wf l'.

Lemma uh_store_proj l p :
  uh_n (uh_store l p) = uh_n l /\ uh_vno (uh_store l p) = uh_vno l /\
  uh_hdrs (uh_store l p) = (if uh_is_tmp l then uh_hdrs l else set_nth (N.to_nat (uh_n l)) p (uh_hdrs l)) /\
  uh_tmp (uh_store l p) = (if uh_is_tmp l then p else uh_tmp l).
Proof. unfold uh_store. destruct (uh_is_tmp l); destruct l; cbn; repeat split; reflexivity. Qed.

Lemma uh_slot_store l p : uh_slot (uh_store l p) = p.
Proof.
  destruct (uh_store_proj l p) as (S1 & _ & S4 & S5). unfold uh_slot, uh_is_tmp, uh_cap in *. rewrite S1, S4, S5.
  destruct (nnat (length (uh_hdrs l)) <=? uh_n l) eqn:E; [rewrite E; reflexivity|].
  rewrite set_nth_len, E. apply nth_set_nth. unfold nnat in *. lia.
Qed.

Lemma uh_prefix_store l l' p : uh_n l = uh_n l' -> uh_prefix l l' -> uh_prefix (uh_store l p) (uh_store l' p).
Proof.
  intros A Hpre j Hj Hlen Hlen'.
  destruct (uh_store_proj l p) as (S1 & _ & S4 & _). destruct (uh_store_proj l' p) as (S1' & _ & S4' & _).
  rewrite S1 in Hj. rewrite S4 in *. rewrite S4' in *.
  assert (E : forall c : uhdrs, (j < N.to_nat (uh_n c))%nat ->
            nth j (if uh_is_tmp c then uh_hdrs c else set_nth (N.to_nat (uh_n c)) p (uh_hdrs c)) tokparam0 = nth j (uh_hdrs c) tokparam0
            /\ length (if uh_is_tmp c then uh_hdrs c else set_nth (N.to_nat (uh_n c)) p (uh_hdrs c)) = length (uh_hdrs c)).
  { intros c Hc. destruct (uh_is_tmp c); [auto|]. rewrite set_nth_len. split; [|reflexivity]. apply nth_set_nth_ne. lia. }
  destruct (E l Hj) as [E1 E2]. destruct (E l' ltac:(lia)) as [E1' E2']. rewrite E1, E1'. rewrite E2 in Hlen. rewrite E2' in Hlen'.
  apply Hpre; assumption.
Qed.
Lemma uh_wf_store l p : uh_wf l -> uh_wf (uh_store l p).
Proof.
  intros [W1 W2]. destruct (uh_store_proj l p) as (S1 & _ & S4 & S5). split.
  - intros j Hj. rewrite S1 in Hj. rewrite S4. destruct (uh_is_tmp l); [apply W1; exact Hj|].
    rewrite nth_set_nth_ne by lia. apply W1. exact Hj.
  - rewrite S1, S5. unfold uh_cap. rewrite S4. unfold uh_is_tmp, uh_cap in *. intros H.
    destruct (nnat (length (uh_hdrs l)) <=? uh_n l) eqn:E; [lia|]. rewrite set_nth_len in H. apply W2. exact H.
Qed.
Lemma Ruhc_store l l' p : Ruhc l l' -> Ruhc (uh_store l p) (uh_store l' p).
Proof.
  intros ((A1 & A3) & Hslot & Hpre & Hwf & Hwf').
  destruct (uh_store_proj l p) as (S1 & S3 & S4 & S5). destruct (uh_store_proj l' p) as (S1' & S3' & S4' & S5').
  split; [unfold uh_scal; rewrite S1, S3, S1', S3'; auto|].
  split; [now rewrite !uh_slot_store|]. split; [apply uh_prefix_store; assumption|].
  split; apply uh_wf_store; assumption.
Qed.

Section UhNext.
  Variables (l X : uhdrs) (p : tokparam).
  Hypothesis Hwf : uh_wf l.
  Hypothesis Hn : uh_n X = uh_n l + 1.
  Hypothesis Hps : uh_hdrs X = (if uh_is_tmp l then uh_hdrs l else set_nth (N.to_nat (uh_n l)) p (uh_hdrs l)).
  Hypothesis Htmp : uh_tmp X = (if uh_is_tmp l then tokparam0 else uh_tmp l).

  Lemma hhnext_len : length (uh_hdrs X) = length (uh_hdrs l).
  Proof. rewrite Hps. destruct (uh_is_tmp l); [reflexivity|apply set_nth_len]. Qed.
  Lemma hhnext_slot : uh_slot X = tokparam0.
  Proof.
    unfold uh_slot, uh_is_tmp, uh_cap. rewrite hhnext_len, Hn, Htmp, Hps. destruct Hwf as [W1 W2].
    unfold uh_is_tmp, uh_cap in *.
    destruct (nnat (length (uh_hdrs l)) <=? uh_n l) eqn:E.
    - replace (nnat (length (uh_hdrs l)) <=? uh_n l + 1) with true by lia. reflexivity.
    - destruct (nnat (length (uh_hdrs l)) <=? uh_n l + 1) eqn:E2; [apply W2; lia|].
      rewrite nth_set_nth_ne by lia. apply W1. lia.
  Qed.
  Lemma hhnext_nth j : (j <= N.to_nat (uh_n l))%nat -> (j < length (uh_hdrs l))%nat ->
    nth j (uh_hdrs X) tokparam0 = if (j =? N.to_nat (uh_n l))%nat then p else nth j (uh_hdrs l) tokparam0.
  Proof.
    intros Hj Hlen. rewrite Hps. unfold uh_is_tmp, uh_cap. destruct (nnat (length (uh_hdrs l)) <=? uh_n l) eqn:E.
    - replace (j =? N.to_nat (uh_n l))%nat with false by (unfold nnat in *; lia). reflexivity.
    - destruct (j =? N.to_nat (uh_n l))%nat eqn:Ej.
      + apply Nat.eqb_eq in Ej. subst j. apply nth_set_nth. exact Hlen.
      + apply nth_set_nth_ne. lia.
  Qed.
  Lemma hhnext_wf : uh_wf X.
  Proof.
    destruct Hwf as [W1 W2]. split.
    - intros j Hj. rewrite Hn in Hj. rewrite Hps. destruct (uh_is_tmp l); [apply W1; lia|].
      rewrite nth_set_nth_ne by lia. apply W1. lia.
    - unfold uh_cap. rewrite hhnext_len, Hn, Htmp. unfold uh_is_tmp, uh_cap in *. intros H.
      replace (nnat (length (uh_hdrs l)) <=? uh_n l) with false by lia. apply W2. lia.
  Qed.
End UhNext.

Lemma Ruhc_next l l' p X X' : Ruhc l l' -> uh_scal X X' ->
  uh_n X = uh_n l + 1 -> uh_n X' = uh_n l' + 1 ->
  uh_hdrs X = (if uh_is_tmp l then uh_hdrs l else set_nth (N.to_nat (uh_n l)) p (uh_hdrs l)) ->
  uh_hdrs X' = (if uh_is_tmp l' then uh_hdrs l' else set_nth (N.to_nat (uh_n l')) p (uh_hdrs l')) ->
  uh_tmp X = (if uh_is_tmp l then tokparam0 else uh_tmp l) -> uh_tmp X' = (if uh_is_tmp l' then tokparam0 else uh_tmp l') ->
  Ruhc X X'.
Proof.
  intros ((A1 & A3) & Hslot & Hpre & Hwf & Hwf') Hsc Hn Hn' Hh Hh' Ht Ht'.
  split; [exact Hsc|]. split.
  { rewrite (hhnext_slot l X p Hwf Hn Hh Ht), (hhnext_slot l' X' p Hwf' Hn' Hh' Ht'). reflexivity. }
  split.
  { intros j Hj Hlen Hlen'. rewrite Hn in Hj. rewrite (hhnext_len l X p Hh Ht) in Hlen. rewrite (hhnext_len l' X' p Hh' Ht') in Hlen'.
    rewrite (hhnext_nth l X p Hn Hh j) by lia. rewrite (hhnext_nth l' X' p Hn' Hh' j) by lia. rewrite <- A1.
    destruct (j =? N.to_nat (uh_n l))%nat eqn:Ej; [reflexivity|]. apply Hpre; lia. }
  split; [exact (hhnext_wf l X p Hwf Hn Hh Ht)|exact (hhnext_wf l' X' p Hwf' Hn' Hh' Ht')].
Qed.


Definition uh1_sim (r r' : ires uhdrs) : Prop :=
  match r, r' with
  | Next k l, Next k' l' => k = k' /\ Ruhc l l'
  | Ret o e l, Ret o' e' l' => o = o' /\ e = e' /\ Ruhc l l'
  | IPanic, IPanic => True
  | _, _ => False
  end.

Lemma uh_iter1_sim flags pre rest i l l' : Ruhc l l' -> uh1_sim (uh_iter1 flags pre rest i l) (uh_iter1 flags pre rest i l').
Proof.
  intros HR. pose proof HR as ((A1 & A3) & Hslot & Hpre & Hwf & Hwf'). unfold uh_iter1. cbv zeta. rewrite <- Hslot.
  destruct (run (tp_iter _) pre rest i 0 (uh_slot l)) as [next e tp| |]; try exact I.
  assert (Hfin : Ruhc
     (let l1 := uh_store l tp in let l2 := l1 <| uh_vno := uh_vno l1 + 1 |> in
      let l3 := if uh_is_tmp l then l2 <| uh_tmp := tokparam0 |> else l2 in l3 <| uh_n := uh_n l3 + 1 |>)
     (let l1 := uh_store l' tp in let l2 := l1 <| uh_vno := uh_vno l1 + 1 |> in
      let l3 := if uh_is_tmp l' then l2 <| uh_tmp := tokparam0 |> else l2 in l3 <| uh_n := uh_n l3 + 1 |>)).
  { cbv zeta.
    destruct (uh_store_proj l tp) as (S1 & S3 & S4 & S5). destruct (uh_store_proj l' tp) as (S1' & S3' & S4' & S5').
    apply (Ruhc_next l l' tp); [exact HR| | | | | | |].
    - unfold uh_scal. destruct (uh_is_tmp l), (uh_is_tmp l'); destruct (uh_store l tp), (uh_store l' tp); cbn in *; subst; repeat split; congruence.
    - destruct (uh_is_tmp l); destruct (uh_store l tp); cbn in *; subst; reflexivity.
    - destruct (uh_is_tmp l'); destruct (uh_store l' tp); cbn in *; subst; reflexivity.
    - destruct (uh_is_tmp l); destruct (uh_store l tp); cbn in *; subst; reflexivity.
    - destruct (uh_is_tmp l'); destruct (uh_store l' tp); cbn in *; subst; reflexivity.
    - destruct (uh_is_tmp l) eqn:E; destruct (uh_store l tp); cbn in *; subst; reflexivity.
    - destruct (uh_is_tmp l') eqn:E; destruct (uh_store l' tp); cbn in *; subst; reflexivity. }
  destruct e; try (cbn; split; [reflexivity|]; split; [reflexivity|]; apply Ruhc_store; exact HR).
  - cbn. split; [reflexivity|]. split; [reflexivity|apply Hfin].
  - cbn. split; [reflexivity|]. split; [reflexivity|apply Hfin].
  - cbn. split; [reflexivity|apply Hfin].
Qed.

Lemma uh_iter_sim flags pre rest i l l' : Ruhc l l' ->
  ires_rel Ruhc (fun _ _ => Ruhc) (uh_iter flags pre rest i l) (uh_iter flags pre rest i l').
Proof.
  intros HR. unfold uh_iter. pose proof (uh_iter1_sim flags pre rest i l l' HR) as H. unfold uh1_sim in H.
  destruct (uh_iter1 flags pre rest i l) as [k l1|o e l1|], (uh_iter1 flags pre rest i l') as [k' l1'|o' e' l1'|]; try contradiction; try exact I.
  - destruct H as [<- H1]. destruct k as [|k].
    + pose proof (uh_iter1_sim flags pre rest i l1 l1' H1) as H2. unfold uh1_sim in H2.
      destruct (uh_iter1 flags pre rest i l1) as [k2 l2|o2 e2 l2|], (uh_iter1 flags pre rest i l1') as [k2' l2'|o2' e2' l2'|]; try contradiction; try exact I; exact H2.
    + cbn. auto.
  - exact H.
Qed.

(* ParseAllURIHdrs on objects that differ only in the capacity of the array *)
Theorem uhdrs_capacity flags buf offs l l' : Ruhc l l' ->
  res_rel (fun _ _ => Ruhc) (parse_all_uri_hdrs flags buf offs l) (parse_all_uri_hdrs flags buf offs l').
Proof.
  intros HR. unfold parse_all_uri_hdrs. apply (parse_sim (uh_iter flags) (uh_iter flags) Ruhc (fun _ _ => Ruhc)).
  - intros pre rest i s s' H. apply uh_iter_sim. exact H.
  - destruct HR as ((A1 & A3) & Hslot & Hpre & Hwf & Hwf'). destruct l, l'; unfold Ruhc, uh_scal, uh_slot, uh_is_tmp, uh_cap, uh_prefix, uh_wf in *; cbn in *. auto 10.
Qed.
Lemma Ruhc_init n n' : Ruhc (uhdrs_init (repeat tokparam0 n)) (uhdrs_init (repeat tokparam0 n')).
Proof.
  unfold Ruhc, uhdrs_init, uh_scal, uh_slot, uh_is_tmp, uh_cap, uh_prefix, uh_wf. cbn.
  split; [auto|]. split; [destruct (_ <=? 0), (_ <=? 0); rewrite ?nth_repeat; reflexivity|]. split; [intros j Hj; lia|].
  split; (split; [intros j _; apply nth_repeat|reflexivity]).
Qed.
Lemma Ruhc_reads l l' : Ruhc l l' -> uh_n l = uh_n l' /\ uh_vno l = uh_vno l' /\
  forall j, (j < N.to_nat (uh_n l))%nat -> (j < length (uh_hdrs l))%nat -> (j < length (uh_hdrs l'))%nat ->
    nth j (uh_hdrs l) tokparam0 = nth j (uh_hdrs l') tokparam0.
Proof. intros ((A1 & A3) & _ & Hpre & _). auto. Qed.
