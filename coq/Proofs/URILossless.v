(* C14: an accepted URI is a lossless, ordered decomposition of the input.
   Invariant of the ParseURI loop: the components found so far tile the prefix read so far, with
   exactly the delimiters ':' '@' ':' ';' '?' between them - through every re-interpretation the
   parser makes when an '@' shows up late (host -> user, "host:port" -> "user:password"). *)
From Sipsp Require Import Harness URIOffsets.
From Coq Require Import ZifyN ZifyNat ZifyBool.

Section Tiling.
  Variable buf : list byte.
  Variable P : N.                       (* end of the scheme, i.e. offset of the first byte after "sip:" *)
  Definition B (k : N) : byte := nth (N.to_nat k) buf 0.

  Definition UserPart (u : puri) (e : N) : Prop :=
    (u_user u = pf0 /\ u_pass u = pf0 /\ e = P) \/
    (po (u_user u) = P /\ u_pass u = pf0 /\ e = P + pl (u_user u) + 1 /\ B (P + pl (u_user u)) = c_at) \/
    (po (u_user u) = P /\ B (P + pl (u_user u)) = c_colon /\ po (u_pass u) = P + pl (u_user u) + 1 /\
     e = po (u_pass u) + pl (u_pass u) + 1 /\ B (po (u_pass u) + pl (u_pass u)) = c_at).
  Definition HostPart (u : puri) (e : N) : Prop :=
    UserPart u (po (u_host u)) /\ e = po (u_host u) + pl (u_host u).
  Definition PortPart (u : puri) (e : N) : Prop :=
    (u_port u = pf0 /\ HostPart u e) \/
    (exists e0, HostPart u e0 /\ B e0 = c_colon /\ po (u_port u) = e0 + 1 /\ e = po (u_port u) + pl (u_port u)).
  Definition ParamPart (u : puri) (e : N) : Prop :=
    (u_params u = pf0 /\ PortPart u e) \/
    (exists e0, PortPart u e0 /\ B e0 = c_semi /\ po (u_params u) = e0 + 1 /\ e = po (u_params u) + pl (u_params u)).
  Definition HdrPart (u : puri) (e : N) : Prop :=
    (u_headers u = pf0 /\ ParamPart u e) \/
    (exists e0, ParamPart u e0 /\ B e0 = c_qm /\ po (u_headers u) = e0 + 1 /\ e = po (u_headers u) + pl (u_headers u)).

  (* not yet known whether what was read is "host..." or "user...@": nothing before the host, and
     the first ':' after the host (if any) is remembered *)
  Definition Undecided (i : N) (l : uloc) (u : puri) : Prop :=
    ul_found l = false -> u_user u = pf0 /\ u_pass u = pf0 /\
      (ul_passoffs l = 0 \/ (ul_s l <= ul_passoffs l /\ ul_passoffs l < i /\ B (ul_passoffs l) = c_colon)).

  Definition Inv (i : N) (l : uloc) (u : puri) : Prop :=
    4 <= P /\
    match ul_state l with
    | UInitSIP | UInitSIPS | UInitTEL =>
      i = P /\ ul_found l = false /\ ul_passoffs l = 0 /\
      u_user u = pf0 /\ u_pass u = pf0 /\ u_host u = pf0 /\ u_port u = pf0 /\ u_params u = pf0 /\ u_headers u = pf0
    | UUser =>
      ul_s l = P /\ P <= i /\ ul_found l = false /\ ul_passoffs l = 0 /\
      u_user u = pf0 /\ u_pass u = pf0 /\ u_host u = pf0 /\ u_port u = pf0 /\ u_params u = pf0 /\ u_headers u = pf0
    | UPass0 | UPass1 =>
      ul_found l = false /\ ul_passoffs l = 0 /\ po (u_user u) = P /\ B (P + pl (u_user u)) = c_colon /\
      ul_s l = P + pl (u_user u) + 1 /\ ul_s l <= i /\
      u_pass u = pf0 /\ u_host u = pf0 /\ u_port u = pf0 /\ u_params u = pf0 /\ u_headers u = pf0
    | UHost0 | UHost1 | UHost61 | UHost6E =>
      UserPart u (ul_s l) /\ ul_s l <= i /\ (ul_found l = false -> u_user u = pf0 /\ u_pass u = pf0 /\ ul_passoffs l = 0) /\
      u_host u = pf0 /\ u_port u = pf0 /\ u_params u = pf0 /\ u_headers u = pf0
    | UPort =>
      (exists e0, HostPart u e0 /\ B e0 = c_colon /\ ul_s l = e0 + 1) /\ ul_s l <= i /\
      (ul_found l = false -> u_user u = pf0 /\ u_pass u = pf0 /\ ul_passoffs l = 0) /\
      u_port u = pf0 /\ u_params u = pf0 /\ u_headers u = pf0
    | UParam0 | UParam1 =>
      (exists e0, PortPart u e0 /\ B e0 = c_semi /\ ul_s l = e0 + 1) /\ ul_s l <= i /\ Undecided i l u /\
      u_params u = pf0 /\ u_headers u = pf0
    | UHeaders =>
      (exists e0, ParamPart u e0 /\ B e0 = c_qm /\ ul_s l = e0 + 1) /\ ul_s l <= i /\ Undecided i l u /\
      u_headers u = pf0
    end.
End Tiling.

Lemma pf_set_ok s i f : pf_set s i = Some f -> po f = s /\ pl f = i - s /\ s <= i /\ f = mkpf s (i - s).
Proof. unfold pf_set. destruct (i <? s) eqn:E; [discriminate|]. intros H. injection H as <-. cbn. repeat split; lia. Qed.
Lemma pf_set_some s i : s <= i -> pf_set s i = Some (mkpf s (i - s)).
Proof. intros H. unfold pf_set. replace (i <? s) with false by lia. reflexivity. Qed.
Lemma nth_skipn_hd {A} (l : list A) k c r d : skipn k l = c :: r -> nth k l d = c.
Proof. revert k; induction l as [|a l IH]; intros [|k] H; cbn in *; try discriminate; [congruence|auto]. Qed.
Lemma skipn_S_tail {A} (l : list A) k c r : skipn k l = c :: r -> skipn (S k) l = r.
Proof. revert k; induction l as [|a l IH]; intros [|k] H; cbn in *; try discriminate; [congruence|auto]. Qed.

Ltac chars :=
  repeat match goal with
         | H : ch ?c ?x = true |- _ => apply N.eqb_eq in H
         | H : ch ?c ?x = false |- _ => apply N.eqb_neq in H
         end.

Ltac bfact :=
  match goal with
  | H : B _ ?j = _ |- B _ ?a = _ => replace a with j by lia; congruence
  end.
Ltac sp n :=
  match n with
  | O => fail
  | S ?m => first [ reflexivity | assumption | lia | congruence | bfact | discriminate
                  | split; sp m | left; sp m | right; sp m ]
  end.

Section Step.
  Variable buf : list byte.
  Variable P : N.
  Notation Bb := (B buf).

  Lemma step_init c i l u : ul_state l = UInitSIP \/ ul_state l = UInitSIPS \/ ul_state l = UInitTEL ->
    Inv buf P i l u -> match uri_step c i l u with UGo l' u' => Inv buf P (i + 1) l' u' | URet _ _ _ => True | UPanic => False end.
  Proof.
    intros Hst [HP HI]. unfold uri_step.
    assert (E : match ul_state l with UInitSIP | UInitSIPS | UInitTEL => True | _ => False end) by (destruct Hst as [->|[->| ->]]; exact I).
    destruct (ul_state l) eqn:Es; try contradiction; clear E Hst;
      destruct HI as (Hi & Hf & Hpo & H1 & H2 & H3 & H4 & H5 & H6); subst i;
      destruct l as [st s fnd po' pn eh]; cbn in *; subst;
      destruct (ch c c_lbr) eqn:E1; [| destruct (ch c c_colon || ch c c_rbr); [exact I|] | | destruct (ch c c_colon || ch c c_rbr); [exact I|] | | destruct (ch c c_colon || ch c c_rbr); [exact I|]];
      (split; [exact HP|]); cbn; try (repeat split; auto; try lia; left; auto).
  Qed.

  Lemma step_user c i l u : ul_state l = UUser -> Bb i = c ->
    Inv buf P i l u -> match uri_step c i l u with UGo l' u' => Inv buf P (i + 1) l' u' | URet _ _ _ => True | UPanic => False end.
  Proof.
    intros Hst Hc [HP HI]. unfold uri_step. rewrite Hst in *.
    destruct HI as (Hs & Hi & Hf & Hpo & H1 & H2 & H3 & H4 & H5 & H6).
    destruct l as [st s fnd po' pn eh], u as [ty sch us pw ho pt pa hd pno]; cbn in *; subst st s fnd po' us pw ho pt pa hd.
    destruct (ch c c_at) eqn:E1.
    { chars. rewrite (pf_set_some P i Hi). split; [exact HP|]. cbn. unfold UserPart. cbn. sp 8%nat. }
    destruct (ch c c_colon) eqn:E2.
    { chars. rewrite (pf_set_some P i Hi). split; [exact HP|]. cbn. sp 12%nat. }
    destruct (ch c c_semi) eqn:E3.
    { chars. rewrite (pf_set_some P i Hi). split; [exact HP|]. cbn. unfold Undecided, PortPart, HostPart, UserPart. cbn.
      split; [exists i; sp 8%nat|sp 8%nat]. }
    destruct (ch c c_qm) eqn:E4.
    { chars. rewrite (pf_set_some P i Hi). split; [exact HP|]. cbn. unfold Undecided, ParamPart, PortPart, HostPart, UserPart. cbn.
      split; [exists i; sp 10%nat|sp 8%nat]. }
    destruct (ch c c_lbr || ch c c_rbr); [exact I|].
    split; [exact HP|]. cbn. sp 12%nat.
  Qed.

  Lemma step_pass c i l u : ul_state l = UPass0 \/ ul_state l = UPass1 -> Bb i = c ->
    Inv buf P i l u -> match uri_step c i l u with UGo l' u' => Inv buf P (i + 1) l' u' | URet _ _ _ => True | UPanic => False end.
  Proof.
    intros Hst Hc [HP HI]. unfold uri_step, u_endport, u_acc_port.
    destruct l as [st s fnd po' pn eh], u as [ty sch us pw ho pt pa hd pno]; cbn in *.
    destruct Hst as [-> | ->]; destruct HI as (Hf & Hpo & Hu & Hb & Hs & Hi & H2 & H3 & H4 & H5 & H6); subst fnd po' pw ho pt pa hd.
    - destruct (ch c c_at) eqn:E1.
      { chars. rewrite (pf_set_some s i Hi). split; [exact HP|]. cbn. unfold UserPart. cbn. sp 10%nat. }
      destruct (ch c c_semi || ch c c_qm) eqn:E2.
      { rewrite (pf_set_some s i Hi). cbn. destruct (65535 <? pn); [exact I|].
        destruct (ch c c_semi) eqn:E3; chars; cbn in E2; chars; (split; [exact HP|]); cbn;
          unfold Undecided, ParamPart, PortPart, HostPart, UserPart; cbn.
        - split; [exists i; split; [right; exists (P + pl us); sp 10%nat|sp 6%nat]|sp 8%nat].
        - split; [exists i; split; [left; split; [reflexivity|]; right; exists (P + pl us); sp 10%nat|sp 6%nat]|sp 8%nat]. }
      destruct (is_digit c); [destruct (pn <=? 65535); (split; [exact HP|]); cbn; sp 14%nat|].
      destruct (ch c c_lbr || ch c c_rbr || ch c c_colon); [exact I|].
      split; [exact HP|]. cbn. sp 14%nat.
    - destruct (ch c c_at) eqn:E1.
      { chars. rewrite (pf_set_some s i Hi). split; [exact HP|]. cbn. unfold UserPart. cbn. sp 10%nat. }
      destruct (ch c c_semi || ch c c_qm || ch c c_lbr || ch c c_rbr || ch c c_colon); [exact I|].
      split; [exact HP|]. cbn. sp 14%nat.
  Qed.

  Ltac host_end i s :=
    rewrite (pf_set_some s i) by assumption; (split; [assumption|]); cbn;
    unfold Undecided, ParamPart, PortPart, HostPart, UserPart in *; cbn in *.

  Lemma step_host c i l u :
    ul_state l = UHost0 \/ ul_state l = UHost1 \/ ul_state l = UHost61 \/ ul_state l = UHost6E -> Bb i = c ->
    Inv buf P i l u -> match uri_step c i l u with UGo l' u' => Inv buf P (i + 1) l' u' | URet _ _ _ => True | UPanic => False end.
  Proof.
    intros Hst Hc [HP HI]. unfold uri_step.
    destruct l as [st s fnd po' pn eh], u as [ty sch us pw ho pt pa hd pno]; cbn in *.
    destruct Hst as [-> | [-> | [-> | ->]]]; destruct HI as (Hup & Hi & Hfn & H3 & H4 & H5 & H6); subst ho pt pa hd.
    - (* UHost0 *)
      destruct (ch c c_lbr); [split; [exact HP|]; cbn; sp 10%nat|].
      destruct (ch c c_colon || ch c c_semi || ch c c_qm || ch c c_amp || ch c c_at); [exact I|].
      split; [exact HP|]. cbn. sp 10%nat.
    - (* UHost1 *)
      destruct (ch c c_colon) eqn:E1.
      { chars. host_end i s. split; [exists i; sp 8%nat|sp 10%nat]. }
      destruct (ch c c_semi) eqn:E2.
      { chars. host_end i s. split; [exists i; sp 8%nat|]. split; [lia|]. split; [|sp 4%nat].
        intros Hf. destruct (Hfn Hf) as (A1 & A2 & A3). sp 6%nat. }
      destruct (ch c c_qm) eqn:E3.
      { chars. host_end i s. split; [exists i; sp 10%nat|]. split; [lia|]. split; [|sp 4%nat].
        intros Hf. destruct (Hfn Hf) as (A1 & A2 & A3). sp 6%nat. }
      destruct (ch c c_amp || ch c c_at); [exact I|].
      split; [exact HP|]. cbn. sp 10%nat.
    - (* UHost61 *)
      destruct (ch c c_rbr); [split; [exact HP|]; cbn; sp 10%nat|].
      destruct (ch c c_lbr || ch c c_at || ch c c_semi || ch c c_qm || ch c c_amp); [exact I|].
      split; [exact HP|]. cbn. sp 10%nat.
    - (* UHost6E *)
      destruct (ch c c_colon) eqn:E1.
      { chars. host_end i s. split; [exists i; sp 8%nat|sp 10%nat]. }
      destruct (ch c c_semi) eqn:E2.
      { chars. host_end i s. split; [exists i; sp 8%nat|]. split; [lia|]. split; [|sp 4%nat].
        intros Hf. destruct (Hfn Hf) as (A1 & A2 & A3). sp 6%nat. }
      destruct (ch c c_qm) eqn:E3.
      { chars. host_end i s. split; [exists i; sp 10%nat|]. split; [lia|]. split; [|sp 4%nat].
        intros Hf. destruct (Hfn Hf) as (A1 & A2 & A3). sp 6%nat. }
      exact I.
  Qed.

  Lemma step_port c i l u : ul_state l = UPort -> Bb i = c ->
    Inv buf P i l u -> match uri_step c i l u with UGo l' u' => Inv buf P (i + 1) l' u' | URet _ _ _ => True | UPanic => False end.
  Proof.
    intros Hst Hc [HP HI]. unfold uri_step, u_endport, u_acc_port.
    destruct l as [st s fnd po' pn eh], u as [ty sch us pw ho pt pa hd pno]; cbn in *. subst st.
    destruct HI as ((e0 & Hh & Hb & Hs) & Hi & Hfn & H4 & H5 & H6); subst pt pa hd.
    destruct (is_digit c).
    { destruct (pn <=? 65535); (split; [exact HP|]); cbn; (split; [exists e0; auto|]); sp 8%nat. }
    destruct (ch c c_semi) eqn:E1.
    { chars. rewrite (pf_set_some s i Hi). cbn. destruct (65535 <? pn); [exact I|]. split; [exact HP|]. cbn.
      unfold Undecided, ParamPart, PortPart, HostPart, UserPart in *; cbn in *.
      split; [exists i; split; [right; exists e0; sp 8%nat|sp 6%nat]|]. split; [lia|]. split; [|sp 4%nat].
      intros Hf. destruct (Hfn Hf) as (A1 & A2 & A3). sp 6%nat. }
    destruct (ch c c_qm) eqn:E2.
    { chars. rewrite (pf_set_some s i Hi). cbn. destruct (65535 <? pn); [exact I|]. split; [exact HP|]. cbn.
      unfold Undecided, ParamPart, PortPart, HostPart, UserPart in *; cbn in *.
      split; [exists i; split; [left; split; [reflexivity|]; right; exists e0; sp 8%nat|sp 6%nat]|]. split; [lia|]. split; [|sp 4%nat].
      intros Hf. destruct (Hfn Hf) as (A1 & A2 & A3). sp 6%nat. }
    exact I.
  Qed.

  (* nothing before the host: it starts right after the scheme *)
  Lemma HostPart_nouser u e : 4 <= P -> u_user u = pf0 -> u_pass u = pf0 -> HostPart buf P u e ->
    po (u_host u) = P /\ P <= e.
  Proof.
    intros HP Hu Hp [Hup He]. unfold UserPart in Hup. rewrite Hu, Hp in Hup. cbn in Hup.
    destruct Hup as [(_ & _ & H)|[(H & _)|(H & _)]]; [split; lia|lia|lia].
  Qed.
  Lemma PortPart_nouser u e : 4 <= P -> u_user u = pf0 -> u_pass u = pf0 -> PortPart buf P u e ->
    po (u_host u) = P /\ P <= e.
  Proof.
    intros HP Hu Hp [[_ H]|(e0 & H & _ & H2 & H3)].
    - now apply HostPart_nouser.
    - destruct (HostPart_nouser u e0 HP Hu Hp H). split; [assumption|lia].
  Qed.
  Lemma ParamPart_nouser u e : 4 <= P -> u_user u = pf0 -> u_pass u = pf0 -> ParamPart buf P u e ->
    po (u_host u) = P /\ P <= e.
  Proof.
    intros HP Hu Hp [[_ H]|(e0 & H & _ & H2 & H3)].
    - now apply PortPart_nouser.
    - destruct (PortPart_nouser u e0 HP Hu Hp H). split; [assumption|lia].
  Qed.

  (* the late '@': what was read since the scheme becomes user[:password] *)
  Lemma backtrack_inv c i l u : Bb i = c -> c = c_at -> 4 <= P -> po (u_host u) = P \/ ul_found l = true ->
    Undecided buf i l u -> P < ul_s l -> ul_s l <= i ->
    match u_backtrack i l u with UGo l' u' => Inv buf P (i + 1) l' u' | URet _ _ _ => True | UPanic => False end.
  Proof.
    intros Hc Ec HP Hho Hun Hs Hi. unfold u_backtrack.
    destruct l as [st s fnd po' pn eh], u as [ty sch us pw ho pt pa hd pno]; cbn in *.
    destruct fnd; [exact I|]. destruct Hho as [Hho|Hho]; [|discriminate].
    unfold Undecided in Hun. cbn in Hun. destruct (Hun eq_refl) as (Hus & Hpw & Hpo). subst us pw. cbn in *.
    destruct (po' =? 0) eqn:E0; cbn [negb].
    - rewrite (pf_set_some (po ho) i) by lia. split; [exact HP|]. cbn. unfold UserPart. cbn. rewrite Hho. sp 10%nat.
    - destruct Hpo as [Hpo|(Hp1 & Hp2 & Hp3)]; [lia|].
      rewrite (pf_set_some (po ho) po') by lia. rewrite (pf_set_some (po' + 1) i) by lia.
      split; [exact HP|]. cbn. unfold UserPart. cbn. rewrite Hho.
      split; [right; right; sp 10%nat|sp 10%nat].
  Qed.

  Lemma UserPart_ge u e : UserPart buf P u e -> P <= e.
  Proof. intros [(_ & _ & H)|[(_ & _ & H & _)|(_ & _ & H0 & H & _)]]; lia. Qed.
  Lemma HostPart_ge u e : HostPart buf P u e -> P <= e.
  Proof. intros [H1 H2]. apply UserPart_ge in H1. lia. Qed.
  Lemma PortPart_ge u e : PortPart buf P u e -> P <= e.
  Proof. intros [[_ H]|(e0 & H & _ & H2 & H3)]; [now apply (HostPart_ge u)|apply HostPart_ge in H; lia]. Qed.
  Lemma ParamPart_ge u e : ParamPart buf P u e -> P <= e.
  Proof. intros [[_ H]|(e0 & H & _ & H2 & H3)]; [now apply (PortPart_ge u)|apply PortPart_ge in H; lia]. Qed.

  Definition param_step (c : byte) (i : N) (l : uloc) (u : puri) : ustep :=
    let goto (st : ust) (l : uloc) := l <| ul_state := st |> <| ul_s := i + 1 |> in
    if ch c c_at then u_backtrack i l u
    else if ch c c_colon then
      let l1 := if ul_found l then l
                else if negb (ul_passoffs l =? 0) then l <| ul_found := true |> <| ul_passoffs := 0 |>
                else l <| ul_passoffs := i |> in
      UGo (l1 <| ul_state := UParam1 |>) u
    else if ch c c_semi then
      let l1 := if negb (ul_passoffs l =? 0) then l <| ul_passoffs := 0 |> <| ul_found := true |> else l in
      UGo (l1 <| ul_state := UParam0 |>) u
    else if ch c c_qm then
      let? f := pf_set (ul_s l) i in
      let l1 := goto UHeaders l in
      let l2 := if negb (ul_passoffs l =? 0) then l1 <| ul_passoffs := 0 |> <| ul_found := true |> else l1 in
      UGo l2 (u <| u_params := f |>)
    else UGo (l <| ul_state := UParam1 |>) u.
  Lemma uri_step_param c i l u : ul_state l = UParam0 \/ ul_state l = UParam1 -> uri_step c i l u = param_step c i l u.
  Proof. intros [E|E]; unfold uri_step, param_step; rewrite E; reflexivity. Qed.

  Lemma step_param c i l u : ul_state l = UParam0 \/ ul_state l = UParam1 -> Bb i = c ->
    Inv buf P i l u -> match uri_step c i l u with UGo l' u' => Inv buf P (i + 1) l' u' | URet _ _ _ => True | UPanic => False end.
  Proof.
    intros Hst Hc [HP HI]. rewrite (uri_step_param c i l u Hst).
    assert (HI' : (exists e0, PortPart buf P u e0 /\ Bb e0 = c_semi /\ ul_s l = e0 + 1) /\ ul_s l <= i /\ Undecided buf i l u /\
                  u_params u = pf0 /\ u_headers u = pf0) by (destruct Hst as [E|E]; rewrite E in HI; exact HI).
    clear HI Hst. destruct HI' as ((e0 & Hpp & Hb & Hs) & Hi & Hun & H5 & H6). unfold param_step.
    pose proof (PortPart_ge u e0 Hpp) as Hge.
    destruct (ch c c_at) eqn:E1.
    { chars. apply (backtrack_inv c i l u Hc E1 HP); try assumption; [|lia].
      destruct (ul_found l) eqn:Ef; [right; reflexivity|left]. destruct (Hun Ef) as (A1 & A2 & _).
      exact (proj1 (PortPart_nouser u e0 HP A1 A2 Hpp)). }
    destruct l as [st s fnd po' pn eh], u as [ty sch us pw ho pt pa hd pno]; unfold Undecided in *; cbn in *. subst pa hd s.
    destruct (ch c c_colon) eqn:E2.
    { chars. split; [exact HP|]. destruct fnd; cbn.
      - split; [exists e0; auto|]. split; [lia|]. split; [intros; discriminate|auto].
      - destruct (Hun eq_refl) as (A1 & A2 & A3). destruct (po' =? 0) eqn:E0; cbn.
        + split; [exists e0; auto|]. split; [lia|]. split; [|auto]. intros _. split; [exact A1|]. split; [exact A2|]. right. cbn. sp 6%nat.
        + split; [exists e0; auto|]. split; [lia|]. split; [intros; discriminate|auto]. }
    destruct (ch c c_semi) eqn:E3.
    { chars. split; [exact HP|]. destruct (po' =? 0) eqn:E0; cbn.
      - split; [exists e0; auto|]. split; [lia|]. split; [|auto]. intros Hf. destruct (Hun Hf) as (A1 & A2 & A3). (cbn; sp 6%nat).
      - split; [exists e0; auto|]. split; [lia|]. split; [intros; discriminate|auto]. }
    destruct (ch c c_qm) eqn:E4.
    { chars. rewrite (pf_set_some (e0 + 1) i Hi). split; [exact HP|]. destruct (po' =? 0) eqn:E0; cbn; unfold ParamPart; cbn.
      - split; [exists i; split; [right; exists e0; (cbn; sp 8%nat)|(cbn; sp 6%nat)]|]. split; [lia|]. split; [|reflexivity].
        intros Hf. destruct (Hun Hf) as (A1 & A2 & A3). (cbn; sp 6%nat).
      - split; [exists i; split; [right; exists e0; (cbn; sp 8%nat)|(cbn; sp 6%nat)]|]. split; [lia|]. split; [intros; discriminate|reflexivity]. }
    split; [exact HP|]. cbn. split; [exists e0; auto|]. split; [lia|]. split; [|auto].
    intros Hf. destruct (Hun Hf) as (A1 & A2 & [A3|(A3 & A4 & A5)]); (cbn; sp 8%nat).
  Qed.

  Lemma step_headers c i l u : ul_state l = UHeaders -> Bb i = c ->
    Inv buf P i l u -> match uri_step c i l u with UGo l' u' => Inv buf P (i + 1) l' u' | URet _ _ _ => True | UPanic => False end.
  Proof.
    intros Hst Hc [HP HI]. unfold uri_step. rewrite Hst in *.
    destruct HI as ((e0 & Hpp & Hb & Hs) & Hi & Hun & H6).
    pose proof (ParamPart_ge u e0 Hpp) as Hge.
    destruct (ch c c_at) eqn:E1.
    { chars. apply (backtrack_inv c i l u Hc E1 HP); try assumption; [|lia].
      destruct (ul_found l) eqn:Ef; [right; reflexivity|left]. destruct (Hun Ef) as (A1 & A2 & _).
      exact (proj1 (ParamPart_nouser u e0 HP A1 A2 Hpp)). }
    destruct l as [st s fnd po' pn eh], u as [ty sch us pw ho pt pa hd pno]; unfold Undecided in *; cbn in *. subst hd s st.
    destruct (ch c c_semi) eqn:E2.
    { destruct (fnd || negb (po' =? 0)); [exact I|]. split; [exact HP|]. cbn.
      split; [exists e0; auto|]. split; [lia|]. split; [|auto].
      intros Hf. destruct (Hun Hf) as (A1 & A2 & [A3|(A3 & A4 & A5)]); (cbn; sp 8%nat). }
    destruct (ch c c_colon) eqn:E3.
    { chars. split; [exact HP|]. destruct fnd; cbn.
      - split; [exists e0; auto|]. split; [lia|]. split; [intros; discriminate|auto].
      - destruct (Hun eq_refl) as (A1 & A2 & A3). destruct (po' =? 0) eqn:E0; cbn.
        + split; [exists e0; auto|]. split; [lia|]. split; [|auto]. intros _. split; [exact A1|]. split; [exact A2|]. right. cbn. sp 6%nat.
        + split; [exists e0; auto|]. split; [lia|]. split; [intros; discriminate|auto]. }
    destruct (ch c c_qm) eqn:E4.
    { split; [exact HP|]. destruct (po' =? 0) eqn:E0; cbn.
      - split; [exists e0; auto|]. split; [lia|]. split; [|auto].
        intros Hf. destruct (Hun Hf) as (A1 & A2 & A3). (cbn; sp 6%nat).
      - split; [exists e0; auto|]. split; [lia|]. split; [intros; discriminate|auto]. }
    split; [exact HP|]. cbn. split; [exists e0; auto|]. split; [lia|]. split; [|auto].
    intros Hf. destruct (Hun Hf) as (A1 & A2 & [A3|(A3 & A4 & A5)]); (cbn; sp 8%nat).
  Qed.

  (* one iteration keeps the invariant *)
  Lemma step_inv c i l u : Bb i = c -> Inv buf P i l u ->
    match uri_step c i l u with UGo l' u' => Inv buf P (i + 1) l' u' | URet _ _ _ => True | UPanic => False end.
  Proof.
    intros Hc HI. destruct (ul_state l) eqn:Es.
    - apply step_init; auto.
    - apply step_init; auto.
    - apply step_init; auto.
    - apply step_user; auto.
    - apply step_pass; auto.
    - apply step_pass; auto.
    - apply step_host; auto.
    - apply step_host; auto.
    - apply step_host; auto 6.
    - apply step_host; auto 6.
    - apply step_port; auto.
    - apply step_param; auto.
    - apply step_param; auto.
    - apply step_headers; auto.
  Qed.
End Step.

Section Finish.
  Variable buf : list byte.
  Variable P : N.
  Notation Bb := (B buf).

  Definition tel_swap (u0 : puri) : puri :=
    if u_type u0 =? TELuri then u0 <| u_user := u_host u0 |> <| u_host := pf0 |> else u0.

  Lemma finish_inv i l u o u' : Inv buf P i l u -> uri_finish i l u = URet NoURIErr o u' ->
    exists u0, HdrPart buf P u0 i /\ u' = tel_swap u0 /\ u_type u0 = u_type u /\ u_scheme u0 = u_scheme u.
  Proof.
    intros [HP HI]. unfold uri_finish, u_endport.
    destruct l as [st s fnd po' pn eh], u as [ty sch us pw ho pt pa hd pno]; cbn in *.
    destruct st; try discriminate.
    - (* UUser *)
      destruct HI as (Hs & Hi & Hf & Hpo & H1 & H2 & H3 & H4 & H5 & H6). subst. rewrite (pf_set_some P i Hi).
      intros H; match type of H with URet _ _ (if _ then _ else ?b) = _ => injection H as <- <-; exists b end. split; [|split; [reflexivity|split; reflexivity]].
      unfold HdrPart, ParamPart, PortPart, HostPart, UserPart. cbn. sp 12%nat.
    - (* UPass0 *)
      destruct HI as (Hf & Hpo & Hu & Hb & Hs & Hi & H2 & H3 & H4 & H5 & H6). subst fnd pw ho pt pa hd. cbn.
      rewrite (pf_set_some s i Hi). cbn. destruct (65535 <? pn); [discriminate|].
      intros H; match type of H with URet _ _ (if _ then _ else ?b) = _ => injection H as <- <-; exists b end. split; [|split; [reflexivity|split; reflexivity]].
      unfold HdrPart, ParamPart, PortPart, HostPart, UserPart. cbn.
      left. split; [reflexivity|]. left. split; [reflexivity|]. right. exists (P + pl us). sp 10%nat.
    - (* UPass1 *) destruct (fnd || true) eqn:E; [discriminate|]. destruct fnd; discriminate.
    - (* UHost1 *)
      destruct HI as (Hup & Hi & Hfn & H3 & H4 & H5 & H6). subst ho pt pa hd. rewrite (pf_set_some s i Hi).
      intros H; match type of H with URet _ _ (if _ then _ else ?b) = _ => injection H as <- <-; exists b end. split; [|split; [reflexivity|split; reflexivity]].
      unfold HdrPart, ParamPart, PortPart, HostPart, UserPart in *. cbn in *. sp 10%nat.
    - (* UHost6E *)
      destruct HI as (Hup & Hi & Hfn & H3 & H4 & H5 & H6). subst ho pt pa hd. rewrite (pf_set_some s i Hi).
      intros H; match type of H with URet _ _ (if _ then _ else ?b) = _ => injection H as <- <-; exists b end. split; [|split; [reflexivity|split; reflexivity]].
      unfold HdrPart, ParamPart, PortPart, HostPart, UserPart in *. cbn in *. sp 10%nat.
    - (* UPort *)
      destruct HI as ((e0 & Hh & Hb & Hs) & Hi & Hfn & H4 & H5 & H6). subst pt pa hd.
      rewrite (pf_set_some s i Hi). cbn. destruct (65535 <? pn); [discriminate|].
      intros H; match type of H with URet _ _ (if _ then _ else ?b) = _ => injection H as <- <-; exists b end. split; [|split; [reflexivity|split; reflexivity]].
      unfold HdrPart, ParamPart, PortPart, HostPart, UserPart in *. cbn in *.
      left. split; [reflexivity|]. left. split; [reflexivity|]. right. exists e0. sp 10%nat.
    - (* UParam0 *)
      destruct HI as ((e0 & Hpp & Hb & Hs) & Hi & Hun & H5 & H6). subst pa hd.
      rewrite (pf_set_some s i Hi).
      intros H; match type of H with URet _ _ (if _ then _ else ?b) = _ => injection H as <- <-; exists b end. split; [|split; [reflexivity|split; reflexivity]].
      unfold HdrPart, ParamPart in *. cbn in *. left. split; [reflexivity|]. right. exists e0. sp 10%nat.
    - (* UParam1 *)
      destruct HI as ((e0 & Hpp & Hb & Hs) & Hi & Hun & H5 & H6). subst pa hd.
      rewrite (pf_set_some s i Hi).
      intros H; match type of H with URet _ _ (if _ then _ else ?b) = _ => injection H as <- <-; exists b end. split; [|split; [reflexivity|split; reflexivity]].
      unfold HdrPart, ParamPart in *. cbn in *. left. split; [reflexivity|]. right. exists e0. sp 10%nat.
    - (* UHeaders *)
      destruct HI as ((e0 & Hpp & Hb & Hs) & Hi & Hun & H6). subst hd.
      rewrite (pf_set_some s i Hi). cbn. destruct eh; [discriminate|].
      intros H; match type of H with URet _ _ (if _ then _ else ?b) = _ => injection H as <- <-; exists b end. split; [|split; [reflexivity|split; reflexivity]].
      unfold HdrPart in *. cbn in *. right. exists e0. sp 10%nat.
  Qed.

  Lemma loop_inv : forall r i l u o u', (N.to_nat i + length r = length buf)%nat -> skipn (N.to_nat i) buf = r ->
    Inv buf P i l u -> uri_loop r i l u = URet NoURIErr o u' ->
    exists u0, HdrPart buf P u0 (nnat (length buf)) /\ u' = tel_swap u0 /\ u_type u0 = u_type u /\ u_scheme u0 = u_scheme u.
  Proof.
    induction r as [|c r IH]; intros i l u o u' Hlen Hsk HI H; cbn [uri_loop] in H.
    - cbn [length] in Hlen. replace (nnat (length buf)) with i by (unfold nnat; lia). eapply finish_inv; eassumption.
    - pose proof (step_inv buf P c i l u (nth_skipn_hd buf _ c r 0 Hsk) HI) as Hst.
      destruct (uri_step c i l u) as [l1 u1|e1 o1 u1|] eqn:E; [| |discriminate].
      + apply (IH (i + 1) l1 u1 o u') in H; [| cbn [length] in Hlen; lia | replace (N.to_nat (i + 1)) with (S (N.to_nat i)) by lia; exact (skipn_S_tail buf _ c r Hsk) | exact Hst].
        destruct H as (u0 & H1 & H2 & H3 & H4). exists u0. repeat split; auto.
        * rewrite H3. clear - E. unfold uri_step, u_backtrack, u_endport in E.
          destruct l, u; cbn in *. destruct ul_state; repeat match type of E with context [if ?b then _ else _] => destruct b | context [match pf_set ?a ?b with _ => _ end] => destruct (pf_set a b) end; try discriminate; injection E as <- <-; reflexivity.
        * rewrite H4. clear - E. unfold uri_step, u_backtrack, u_endport in E.
          destruct l, u; cbn in *. destruct ul_state; repeat match type of E with context [if ?b then _ else _] => destruct b | context [match pf_set ?a ?b with _ => _ end] => destruct (pf_set a b) end; try discriminate; injection E as <- <-; reflexivity.
      + apply uri_step_ret in E as [_ Hne]. injection H as -> _ _. congruence.
  Qed.
End Finish.

Theorem parse_uri_lossless uri o u : parse_uri uri puri0 = Some (NoURIErr, o, u) ->
  exists P u0, (P = 4 \/ P = 5) /\ HdrPart uri P u0 (nnat (length uri)) /\ u = tel_swap u0 /\ u_scheme u0 = mkpf 0 P.
Proof.
  unfold parse_uri.
  destruct uri as [|a [|b [|c [|d [|e5 rest]]]]]; try (intros H; discriminate).
  set (uri := a :: b :: c :: d :: e5 :: rest).
  assert (Hstart : forall t st schlen, (schlen = 3 \/ schlen = 4)%nat ->
     st = UInitSIP \/ st = UInitSIPS \/ st = UInitTEL ->
     match pf_set 0 (nnat schlen + 1) with
     | None => None
     | Some sc => match uri_loop (skipn (S schlen) uri) (nnat schlen + 1) (mkuloc st 0 false 0 0 false)
                          (puri0 <| u_type := t |> <| u_scheme := sc |>) with
                  | URet e o u' => Some (e, o, u') | _ => None end
     end = Some (NoURIErr, o, u) ->
     exists P u0, (P = 4 \/ P = 5) /\ HdrPart uri P u0 (nnat (length uri)) /\ u = tel_swap u0 /\ u_scheme u0 = mkpf 0 P).
  { intros t st schlen Hs Hst H. rewrite pf_set_some in H by lia.
    destruct (uri_loop _ _ _ _) as [|e2 o2 u2|] eqn:E; try discriminate. injection H as -> -> ->.
    apply (loop_inv uri (nnat schlen + 1)) in E.
    - destruct E as (u0 & H1 & H2 & H3 & H4). exists (nnat schlen + 1), u0.
      split; [destruct Hs as [-> | ->]; [left|right]; reflexivity|]. split; [exact H1|]. split; [exact H2|].
      rewrite H4. cbn. f_equal. lia.
    - rewrite skipn_length. subst uri. cbn [length]. unfold nnat. destruct Hs as [-> | ->]; lia.
    - f_equal. unfold nnat. lia.
    - split; [unfold nnat; destruct Hs as [-> | ->]; lia|].
      destruct Hst as [-> | [-> | ->]]; cbn; repeat split; reflexivity. }
  cbv zeta.
  repeat match goal with |- context [if ?b then _ else _] => destruct b end; intros H; try discriminate.
  - apply (Hstart SIPuri UInitSIP 3%nat (or_introl eq_refl) (or_introl eq_refl) H).
  - apply (Hstart TELuri UInitTEL 3%nat (or_introl eq_refl) (or_intror (or_intror eq_refl)) H).
  - apply (Hstart SIPSuri UInitSIPS 4%nat (or_intror eq_refl) (or_intror (or_introl eq_refl)) H).
Qed.

(* sip: / sips: : the reported components themselves tile the input *)
Corollary sip_uri_lossless uri o u : parse_uri uri puri0 = Some (NoURIErr, o, u) -> u_type u <> TELuri ->
  exists P, (P = 4 \/ P = 5) /\ u_scheme u = mkpf 0 P /\ HdrPart uri P u (nnat (length uri)).
Proof.
  intros H Ht. destruct (parse_uri_lossless uri o u H) as (P & u0 & HP & Hh & -> & Hs).
  unfold tel_swap in *. destruct (u_type u0 =? TELuri) eqn:E.
  - exfalso. apply Ht. destruct u0; cbn in *. apply N.eqb_eq in E. exact E.
  - exists P. auto.
Qed.
(* tel: : the number is reported as the user, the host is empty *)
Corollary tel_uri_lossless uri o u : parse_uri uri puri0 = Some (NoURIErr, o, u) -> u_type u = TELuri ->
  u_host u = pf0 /\
  exists P u0, (P = 4 \/ P = 5) /\ HdrPart uri P u0 (nnat (length uri)) /\ u_user u = u_host u0 /\
               u_pass u = u_pass u0 /\ u_port u = u_port u0 /\ u_params u = u_params u0 /\ u_headers u = u_headers u0.
Proof.
  intros H Ht. destruct (parse_uri_lossless uri o u H) as (P & u0 & HP & Hh & -> & Hs).
  unfold tel_swap in *. destruct (u_type u0 =? TELuri) eqn:E.
  - split; [destruct u0; reflexivity|]. exists P, u0. destruct u0; cbn. auto 10.
  - apply N.eqb_neq in E. congruence.
Qed.

(* ---- ParseURI never panics ------------------------------------------------------------------------------------------ *)
Lemma finish_nopanic buf P i l u : Inv buf P i l u -> uri_finish i l u <> UPanic.
Proof.
  intros [HP HI]. unfold uri_finish, u_endport.
  destruct l as [st s fnd po' pn eh], u as [ty sch us pw ho pt pa hd pno]; cbn in *.
  assert (NP : forall x : ustep, (match x with UPanic => False | _ => True end) -> x <> UPanic) by (intros x Hx E; rewrite E in Hx; exact Hx).
  apply NP.
  destruct st; try exact I.
  - destruct HI as (Hs & Hi & _). subst s. rewrite (pf_set_some P i Hi). destruct fnd; exact I.
  - destruct HI as (_ & _ & _ & _ & Hs & Hi & _). rewrite (pf_set_some s i Hi). cbn.
    destruct (fnd || false); [exact I|]. destruct (65535 <? pn); exact I.
  - destruct fnd; exact I.
  - destruct HI as (_ & Hi & _). rewrite (pf_set_some s i Hi). exact I.
  - destruct HI as (_ & Hi & _). rewrite (pf_set_some s i Hi). exact I.
  - destruct HI as (_ & Hi & _). rewrite (pf_set_some s i Hi). cbn. destruct (65535 <? pn); exact I.
  - destruct HI as (_ & Hi & _). rewrite (pf_set_some s i Hi). exact I.
  - destruct HI as (_ & Hi & _). rewrite (pf_set_some s i Hi). exact I.
  - destruct HI as (_ & Hi & _). rewrite (pf_set_some s i Hi). cbn. destruct eh; exact I.
Qed.

Lemma loop_nopanic buf P : forall r i l u, skipn (N.to_nat i) buf = r -> Inv buf P i l u -> uri_loop r i l u <> UPanic.
Proof.
  induction r as [|c r IH]; intros i l u Hsk HI; cbn [uri_loop].
  - now apply (finish_nopanic buf P).
  - pose proof (step_inv buf P c i l u (nth_skipn_hd buf _ c r 0 Hsk) HI) as Hst.
    destruct (uri_step c i l u) as [l1 u1|e1 o1 u1|]; [|discriminate|contradiction].
    apply IH; [|exact Hst]. replace (N.to_nat (i + 1)) with (S (N.to_nat i)) by lia. exact (skipn_S_tail buf _ c r Hsk).
Qed.

Lemma loop_not_go : forall r i l u l1 u1, uri_loop r i l u <> UGo l1 u1.
Proof.
  induction r as [|x r IH]; intros i l u l1 u1 E; cbn [uri_loop] in E.
  - unfold uri_finish, u_endport in E.
    destruct (ul_state l); repeat match type of E with
                                  | context [if ?b then _ else _] => destruct b
                                  | context [match pf_set ?a ?b with _ => _ end] => destruct (pf_set a b)
                                  end; discriminate.
  - destruct (uri_step x i l u); [eapply IH; exact E|discriminate|discriminate].
Qed.

Theorem parse_uri_total uri : parse_uri uri puri0 <> None.
Proof.
  unfold parse_uri.
  destruct uri as [|a [|b [|c [|d [|e5 rest]]]]]; try discriminate.
  set (uri := a :: b :: c :: d :: e5 :: rest).
  assert (Hstart : forall t st schlen, (schlen = 3 \/ schlen = 4)%nat ->
     st = UInitSIP \/ st = UInitSIPS \/ st = UInitTEL ->
     match pf_set 0 (nnat schlen + 1) with
     | None => None
     | Some sc => match uri_loop (skipn (S schlen) uri) (nnat schlen + 1) (mkuloc st 0 false 0 0 false)
                          (puri0 <| u_type := t |> <| u_scheme := sc |>) with
                  | URet e o u' => Some (e, o, u') | _ => None end
     end <> None).
  { intros t st schlen Hs Hst. rewrite pf_set_some by lia.
    pose proof (loop_nopanic uri (nnat schlen + 1) (skipn (S schlen) uri) (nnat schlen + 1) (mkuloc st 0 false 0 0 false)
                  (puri0 <| u_type := t |> <| u_scheme := mkpf 0 (nnat schlen + 1 - 0) |>)) as H.
    destruct (uri_loop _ _ _ _) as [l1 u1|e2 o2 u2|] eqn:E; [|discriminate|].
    - exfalso. exact (loop_not_go _ _ _ _ _ _ E).
    - exfalso. apply H; [f_equal; unfold nnat; lia| |reflexivity].
      split; [unfold nnat; destruct Hs as [-> | ->]; lia|]. destruct Hst as [-> | [-> | ->]]; cbn; repeat split; reflexivity. }
  cbv zeta.
  repeat match goal with |- context [if ?b then _ else _] => destruct b end; try discriminate.
  - apply (Hstart SIPuri UInitSIP 3%nat (or_introl eq_refl) (or_introl eq_refl)).
  - apply (Hstart TELuri UInitTEL 3%nat (or_introl eq_refl) (or_intror (or_intror eq_refl))).
  - apply (Hstart SIPSuri UInitSIPS 4%nat (or_intror eq_refl) (or_intror (or_introl eq_refl))).
Qed.
