(* ExtOK for ParseHeaders: the header-block loop running ParseHdrLine on the current slot. *)
From Sipsp Require Import RunLemmas Safe Resume Ext ExtLeaf ZSlice Harness ExtCSeq ExtNameAddr ExtNested ExtLists
  ExtFLine ExtAdv OkBounds ExtHdrLine HdrLineBounds.
From Coq Require Import ZifyN ZifyNat ZifyBool.

(* the nested-parser lemma for an outer loop that returns at once on an empty input *)
Section NestedNE.
  Context {S V : Type}.
  Variable inner : list byte -> list byte -> N -> V -> ires V.
  Variable outer : list byte -> list byte -> N -> S -> ires S.
  Variable sel : S -> V.
  Variable post : list byte -> list byte -> N -> S -> N -> err -> V -> ires S.
  Variable store : S -> V -> S.
  Variable suspended : V -> Prop.

  Hypothesis inner_ext : IterExt inner.
  Hypothesis outer_nil : forall pre i l, outer pre [] i l = Ret i EMore l.
  Hypothesis outer_def : forall pre c r i l,
    outer pre (c :: r) i l = match run inner pre (c :: r) i 0 (sel l) with
                             | Done next e v => post pre (c :: r) i l next e v
                             | _ => IPanic end.
  Hypothesis post_more : forall pre rest i l next v, post pre rest i l next EMore v = Ret next EMore (store l v).
  Hypothesis inner_more_susp : forall pre c r i v next v', run inner pre (c :: r) i 0 v = Done next EMore v' -> suspended v'.
  Hypothesis sel_store : forall l v, sel (store l v) = v.
  Hypothesis store_store : forall l v v', store (store l v) v' = store l v'.
  Hypothesis post_resume : forall pre B i k l v next e v',
    (k <= length B)%nat -> i = nnat (length pre) -> suspended v -> e <> EMore ->
    run inner pre B i 0 (sel l) = Done next e v' ->
    run inner (zpre k pre B) (zrest k B) (i + nnat k) 0 v = Done next e v' ->
    after outer (zpre k pre B) (zrest k B) (i + nnat k)
          (post (zpre k pre B) (zrest k B) (i + nnat k) (store l v) next e v')
    = after outer pre B i (post pre B i l next e v').
  Hypothesis post_ext : forall pre R x i l next e v, i = nnat (length pre) -> e <> EMore ->
    run inner pre R i 0 (sel l) = Done next e v ->
    ires_same_or_panic (post pre R i l next e v) (post pre (R ++ x) i l next e v) /\
    match post pre R i l next e v with Ret _ EMore _ => False | _ => True end.

  Lemma nestedNE_clause pre rest x i l : i = nnat (length pre) ->
    clause outer pre rest x i (outer pre rest i l) (outer pre (rest ++ x) i l).
  Proof.
    intros Hi. destruct rest as [|c r]; [rewrite outer_nil; apply clause_here|].
    change ((c :: r) ++ x) with (c :: r ++ x). rewrite !outer_def. change (c :: r ++ x) with ((c :: r) ++ x).
    set (rest := c :: r) in *.
    pose proof (run_ext inner (fun _ => []) inner_ext rest pre x i (sel l) Hi) as He.
    destruct (run inner pre rest i 0 (sel l)) as [next e v| |] eqn:Er; [|exact I|exact I].
    destruct e; try (rewrite He; apply clause_sop; apply (post_ext pre rest x i l next _ v Hi); [discriminate|exact Er|discriminate|exact Er]).
    destruct He as (k & Hk & Hn & Hrq). rewrite post_more. set (B := rest ++ x) in *.
    assert (HkB : (k <= length B)%nat) by (subst B; rewrite app_length; lia).
    pose proof (inner_more_susp _ _ _ _ _ _ _ Er) as Hs.
    unfold clause. exists k. split; [exact Hk|]. split; [exact Hn|].
    change (rest ++ x) with B.
    destruct (zrest k B) as [|c' r'] eqn:Ez.
    - (* nothing was appended *)
      assert (x = []).
      { assert (Hl : length (zrest k B) = 0%nat) by now rewrite Ez. rewrite zrest_length in Hl. subst B.
        rewrite app_length in Hl. destruct x; [reflexivity|cbn [length] in Hl; lia]. }
      subst x. subst B. rewrite app_nil_r in *. rewrite Er, post_more.
      rewrite run_after, outer_nil. reflexivity.
    - rewrite run_after, outer_def, (sel_store l v), Hrq.
      destruct (run inner pre B i 0 (sel l)) as [next' e' v'| |] eqn:Er'; try reflexivity.
      destruct e'; try (subst next; rewrite <- Ez in *;
                        apply (post_resume pre B i k l v next' _ v' HkB Hi Hs); [discriminate|exact Er'|exact Hrq]).
      rewrite !post_more, (store_store l v v'). reflexivity.
  Qed.

  Theorem nestedNE_IterExt : IterExt outer.
  Proof. apply clause_IterExt. intros pre rest x j t Hj. apply nestedNE_clause. exact Hj. Qed.
End NestedNE.

(* ---- ParseHeaders ---------------------------------------------------------------------------------------------- *)
Definition hs_sel (st : hdrs_st) : hline := mkhline (hl_slot (hs_l st)) (hs_pv st).
Definition hs_store (st : hdrs_st) (v : hline) : hdrs_st := mkhdrs_st (hl_store (hs_l st) (hx_h v)) (hx_pv v).
Definition hs_post (pre rest : list byte) (i : N) (st : hdrs_st) (n : N) (e : err) (x : hline) : ires hdrs_st :=
  let l := hs_l st in
  let l1 := hl_store l (hx_h x) in
  let st1 := mkhdrs_st l1 (hx_pv x) in
  match e with
  | EOk =>
    let h := hx_h x in
    let l2 := hl_sethdr (l1 <| hl_pflags := N.lor (hl_pflags l1) (2 ^ h_type h) mod 65536 |>) h in
    let l3 := if hl_is_tmp l then l2 <| hl_tmp := hdr0 |> else l2 in
    Next (N.to_nat (n - i)) (mkhdrs_st (l3 <| hl_n := hl_n l3 + 1 |>) (hx_pv x))
  | EEmpty => if 0 <? hl_n l1 then Ret n EOk st1 else Ret n EEmpty st1
  | _ => Ret n e st1
  end.

Lemma hs_iter_def pre c r i st :
  hs_iter pre (c :: r) i st = match run hl_iter pre (c :: r) i 0 (hs_sel st) with
                              | Done next e v => hs_post pre (c :: r) i st next e v
                              | _ => IPanic end.
Proof. reflexivity. Qed.

Lemma hl_is_tmp_store l h : hl_is_tmp (hl_store l h) = hl_is_tmp l.
Proof.
  unfold hl_store. destruct (hl_is_tmp l) eqn:E; unfold hl_is_tmp, hl_cap in *; destruct l; cbn in *; [exact E|].
  now rewrite set_nth_len.
Qed.
Lemma hl_slot_store l h : hl_slot (hl_store l h) = h.
Proof.
  unfold hl_slot. rewrite hl_is_tmp_store. unfold hl_store. destruct (hl_is_tmp l) eqn:E; destruct l; cbn in *; [reflexivity|].
  apply nth_set_nth. unfold hl_is_tmp, hl_cap, nnat in E. cbn in E. lia.
Qed.
Lemma hl_store_store l h h' : hl_store (hl_store l h) h' = hl_store l h'.
Proof.
  unfold hl_store at 1. rewrite hl_is_tmp_store. unfold hl_store. destruct (hl_is_tmp l); destruct l; cbn; [reflexivity|].
  now rewrite set_nth_set_nth.
Qed.
Lemma hl_n_store l h : hl_n (hl_store l h) = hl_n l.
Proof. unfold hl_store. destruct (hl_is_tmp l); destruct l; reflexivity. Qed.

Lemma hs_sel_store st v : hs_sel (hs_store st v) = v.
Proof. unfold hs_sel, hs_store. cbn. rewrite hl_slot_store. destruct v; reflexivity. Qed.
Lemma hs_store_store st v v' : hs_store (hs_store st v) v' = hs_store st v'.
Proof. unfold hs_store. cbn. now rewrite hl_store_store. Qed.

Lemma hs_post_resumed pre B i k st v next e v' :
  hs_post (zpre k pre B) (zrest k B) (i + nnat k) (hs_store st v) next e v' =
  match hs_post pre B i st next e v' with
  | Next _ X => Next (N.to_nat (next - (i + nnat k))) X
  | r => r
  end.
Proof.
  unfold hs_post. cbv zeta. change (hs_l (hs_store st v)) with (hl_store (hs_l st) (hx_h v)). rewrite !hl_store_store, hl_is_tmp_store.
  destruct e; try reflexivity. match goal with |- context [if ?b then _ else _] => destruct b end; reflexivity.
Qed.

Theorem hs_IterExt : IterExt hs_iter.
Proof.
  apply (nestedNE_IterExt hl_iter hs_iter hs_sel hs_post hs_store (fun v => ~ hl_fin v)).
  - apply hl_IterExt.
  - reflexivity.
  - apply hs_iter_def.
  - reflexivity.
  - intros pre c r i v next v' H. apply (hl_run_more pre (c :: r) i v next v' ltac:(intros E; discriminate E) H).
  - apply hs_sel_store.
  - apply hs_store_store.
  - (* post_resume *)
    intros pre B i k st v next e v' Hk Hi Hv He Hrun Hres.
    rewrite (hs_post_resumed pre B i k st v next e v').
    destruct (hs_post pre B i st next e v') as [kk X|o ee X|] eqn:Ep; try reflexivity.
    assert (e = EOk /\ kk = N.to_nat (next - i)).
    { unfold hs_post in Ep. destruct e; try discriminate; [injection Ep as <- _; auto|match type of Ep with context [if ?b then _ else _] => destruct b end; discriminate]. }
    destruct H as [-> ->].
    apply hl_run_ok in Hres. rewrite zrest_length in Hres. destruct Hres as (H1 & [H2|H2] & H3); [|contradiction].
    apply after_next_shift; [exact Hk|exact H2|unfold nnat in *; lia].
  - (* post_ext *)
    intros pre R x i st next e v Hi He Hrun. split; [right; reflexivity|].
    unfold hs_post. destruct e; try exact I; try congruence. match goal with |- context [if ?b then _ else _] => destruct b end; exact I.
Qed.

Theorem headers_ExtOK : ExtOK parse_headers (fun x => obs_hdrlst (hs_l x) ++ obs_opt_phvals (hs_pv x)) (fun _ _ => True).
Proof. exact (parse_ExtOK hs_iter _ hs_IterExt). Qed.
