(* C02 / C03 for ParseAllURIParams and ParseAllURIHdrs: the list loops resume transparently on objects
   whose unused slots are clean (every object made by Init / Reset and everything the parsers make of
   it), under every flag set without POptInputEndF.  The count of values parsed by the current call
   (a return value) is not part of what is compared: it legitimately differs between a resumed call and
   a one-shot call. *)
From Sipsp Require Import RunLemmas Safe Resume Ext ExtLeaf ZSlice Harness ExtNameAddr ExtNested ExtLists ExtAdv ExtTok ExtCSeq
  ExtI ExtAgain Sim Capacity CapHeaders CapURI ShiftTok SafeURI.
From Coq Require Import ZifyN ZifyNat ZifyBool.
From RecordUpdate Require Import RecordUpdate.

(* a verdict that is only ever returned at the current position lies inside the buffer *)
Lemma run_here {St} (iter : list byte -> list byte -> N -> St -> ires St) (p : err -> Prop) :
  (forall pre rest j s, match iter pre rest j s with Ret o e _ => p e -> o = j | _ => True end) ->
  forall rest pre i s o e s', run iter pre rest i 0 s = Done o e s' -> p e -> i <= o /\ o <= i + nnat (length rest).
Proof.
  intros H rest. induction rest as [rest IH] using (well_founded_induction (Wf_nat.well_founded_ltof _ (@length byte))).
  intros pre i s o e s' Hr Hp. rewrite run_after in Hr. unfold after in Hr.
  pose proof (H pre rest i s) as Hi.
  destruct (iter pre rest i s) as [k t|o1 e1 t|]; [|injection Hr as <- <- <-; rewrite (Hi Hp); unfold nnat; lia|discriminate].
  destruct k as [|k]; [discriminate|].
  destruct (S k <=? length rest)%nat eqn:Ek; [|discriminate]. apply Nat.leb_le in Ek.
  apply IH in Hr; [|unfold ltof; rewrite zrest_length; lia|exact Hp].
  rewrite zrest_length in Hr. unfold nnat in *. lia.
Qed.

Lemma tp_mv_offsets flags pre rest i s o e s' : run (tp_iter flags) pre rest i 0 s = Done o e s' -> e = EMoreValues ->
  i <= o /\ o <= i + nnat (length rest).
Proof.
  apply (run_here (tp_iter flags) (fun e => e = EMoreValues)).
  intros p r j t. pose proof (tp_iter_mv flags p r j t) as X. destruct (tp_iter flags p r j t) as [| ? ? ?|]; auto.
  intros ->. apply X.
Qed.

Lemma zget_ext pre R x i f : i = nnat (length pre) -> same_or_panic (zget pre R i f) (zget pre (R ++ x) i f).
Proof. intros Hi. exact (zslice_ext pre R x i (po f) (pf_end f) Hi). Qed.

(* ---- URI parameters -------------------------------------------------------------------------------------------------------------------- *)
Section UL.
  Variable flags0 : N.
  Notation flags := (N.lor flags0 (2 ^ bPOptParamSemiSep)).
  Hypothesis no_input_end : tf_ie (tp_decode flags) = false.

  Definition ul_sel (l : uparams) : tokparam := up_param (ul_slot l).
  Definition ul_st (l : uparams) (v : tokparam) : uparams := ul_store l (ul_slot l <| up_param := v |>).
  Definition ul_fresh (l : uparams) : Prop := ul_slot l = uriparam0.
  Definition ul_post (pre rest : list byte) (i : N) (l : uparams) (next : N) (e : err) (tp : tokparam) : ires uparams :=
    match e with
    | EOk | EMoreValues | EEOH =>
      match zget pre rest i (tp_name tp) with
      | None => IPanic
      | Some name =>
        let t := uri_param_resolve name in
        let l1 := ul_store l (mkuriparam tp t) in
        let l2 := l1 <| ul_types := N.lor (ul_types l1) t |> <| ul_vno := ul_vno l1 + 1 |> in
        let l3 := if ul_is_tmp l then l2 <| ul_tmp := uriparam0 |> else l2 in
        let l4 := l3 <| ul_n := ul_n l3 + 1 |> in
        match e with
        | EMoreValues => Next (N.to_nat (next - i)) l4
        | _ => Ret next e l4
        end
      end
    | EMore => Ret next EMore (ul_st l tp)
    | _ => Ret next e (ul_store l uriparam0)
    end.

  Lemma ul_iter1_def pre rest i l :
    ul_iter1 flags0 pre rest i l = match run (tp_iter flags) pre rest i 0 (ul_sel l) with
                                   | Done next e v => ul_post pre rest i l next e v
                                   | _ => IPanic end.
  Proof. reflexivity. Qed.

  Lemma ul_is_tmp_store l p : ul_is_tmp (ul_store l p) = ul_is_tmp l.
  Proof.
    destruct (ul_store_proj l p) as (S1 & _ & _ & S4 & _). unfold ul_is_tmp, ul_cap. rewrite S1, S4.
    destruct (ul_is_tmp l); [reflexivity|rewrite set_nth_len; reflexivity].
  Qed.
  Lemma ul_store_store l p q : ul_store (ul_store l p) q = ul_store l q.
  Proof.
    unfold ul_store at 1. rewrite ul_is_tmp_store. unfold ul_store. destruct (ul_is_tmp l) eqn:E; destruct l; cbn in *; [reflexivity|].
    rewrite set_nth_set_nth. reflexivity.
  Qed.
  Lemma ul_sel_st l v : ul_sel (ul_st l v) = v.
  Proof. unfold ul_sel, ul_st. rewrite ul_slot_store. destruct (ul_slot l); reflexivity. Qed.
  Lemma ul_st_st l v v' : ul_st (ul_st l v) v' = ul_st l v'.
  Proof. unfold ul_st. rewrite ul_slot_store, ul_store_store. destruct (ul_slot l); reflexivity. Qed.
  Lemma ul_store_wf l p : ul_wf l -> ul_wf (ul_store l p).
  Proof.
    intros [W1 W2]. destruct (ul_store_proj l p) as (S1 & _ & _ & S4 & S5). split.
    - intros j Hj. rewrite S1 in Hj. rewrite S4. destruct (ul_is_tmp l); [apply W1; exact Hj|]. rewrite nth_set_nth_ne by lia. apply W1. exact Hj.
    - unfold ul_cap. rewrite S1, S4, S5. intros H. unfold ul_is_tmp, ul_cap in *.
      destruct (nnat (length (ul_params l)) <=? ul_n l) eqn:E; [|rewrite set_nth_len in H; apply W2; exact H]. lia.
  Qed.

  (* the list after a value has been completed *)
  Lemma ul_next_facts l tp t X :
    X = (let l1 := ul_store l (mkuriparam tp t) in
         let l2 := l1 <| ul_types := N.lor (ul_types l1) t |> <| ul_vno := ul_vno l1 + 1 |> in
         let l3 := if ul_is_tmp l then l2 <| ul_tmp := uriparam0 |> else l2 in
         l3 <| ul_n := ul_n l3 + 1 |>) ->
    ul_n X = ul_n l + 1 /\
    ul_params X = (if ul_is_tmp l then ul_params l else set_nth (N.to_nat (ul_n l)) (mkuriparam tp t) (ul_params l)) /\
    ul_tmp X = (if ul_is_tmp l then uriparam0 else ul_tmp l).
  Proof.
    intros ->. cbv zeta. destruct (ul_store_proj l (mkuriparam tp t)) as (S1 & S2 & S3 & S4 & S5).
    destruct (ul_is_tmp l); destruct (ul_store l (mkuriparam tp t)); cbn in *; subst; repeat split; reflexivity.
  Qed.

  Lemma ul_IterExtI : IterExtI (ul_iter flags0) ul_wf.
  Proof.
    apply (again_IterExtI (tp_iter flags) (ul_iter1 flags0) (ul_iter flags0) ul_sel ul_post ul_st ul_wf ul_fresh (fun e => e = EMoreValues)).
    - apply tokparam_IterExt. exact no_input_end.
    - apply ul_iter1_def.
    - reflexivity.
    - reflexivity.
    - apply ul_sel_st.
    - apply ul_st_st.
    - intros l v. apply ul_store_wf.
    - (* post_ext *)
      intros pre R x i l next e v Hi He Hr. unfold ul_post.
      destruct (zget_ext pre R x i (tp_name v) Hi) as [Hz|Hz]; rewrite Hz.
      + destruct e; try (right; reflexivity); left; reflexivity.
      + right. reflexivity.
    - (* post_shape *)
      intros pre R i l next e v He. unfold ul_post.
      destruct e; try exact I; try congruence; destruct (zget pre R i (tp_name v)) as [name|]; try exact I.
      split; [reflexivity|]. split; [reflexivity|]. intros Hl.
      match goal with |- ul_wf ?X /\ _ => destruct (ul_next_facts l v (uri_param_resolve name) X eq_refl) as (F1 & F2 & F3);
        split; [exact (unext_wf l X _ Hl F1 F2 F3)|exact (unext_slot l X _ Hl F1 F2 F3)] end.
    - (* post_resumed *)
      intros pre B i k l v next e v' Hk Hi He. unfold ul_post.
      rewrite (zget_adv pre B i k (tp_name v') Hk Hi). unfold ul_st. rewrite ul_is_tmp_store.
      destruct e; try congruence; try (rewrite ul_store_store; reflexivity);
        (destruct (zget pre B i (tp_name v')); [|reflexivity]); cbv zeta; rewrite !ul_store_store; reflexivity.
    - (* progress *)
      intros pre rest i l Hf. pose proof (ul_iter1_progress flags0 pre rest i l) as P. unfold ul_fresh in Hf. rewrite Hf in P.
      specialize (P eq_refl). destruct (ul_iter1 flags0 pre rest i l) as [[|k] X| |]; auto. lia.
    - intros pre rest i v o e v' Hr ->. exact (tp_mv_offsets _ _ _ _ _ _ _ _ Hr eq_refl).
  Qed.

  (* ---- the count of the current call does not matter -------------------------------------------------------- *)
  Definition ul_eqv (l l' : uparams) : Prop := l <| ul_vno := 0 |> = l' <| ul_vno := 0 |>.
  Lemma ul_eqv_obs l l' : ul_eqv l l' -> obs_uparams l = obs_uparams l'.
  Proof. unfold ul_eqv. destruct l, l'; cbn. intros E. injection E as -> -> -> ->. reflexivity. Qed.

  Lemma ul_iter1_eqv pre rest i l l' : ul_eqv l l' ->
    ires_rel ul_eqv (fun _ _ => ul_eqv) (ul_iter1 flags0 pre rest i l) (ul_iter1 flags0 pre rest i l').
  Proof.
    destruct l as [ps n ty tmp v1], l' as [ps' n' ty' tmp' v2]. unfold ul_eqv. cbn. intros E. injection E as <- <- <- <-.
    unfold ul_iter1, ul_slot, ul_store, ul_is_tmp, ul_cap. cbn [ul_params ul_n ul_tmp]. cbv zeta.
    destruct (run _ pre rest i 0 _) as [next e tp| |]; [|exact I|exact I].
    destruct e; try (destruct (nnat (length ps) <=? n); cbn; repeat split; reflexivity);
      (destruct (zget pre rest i (tp_name tp)); [|exact I]); destruct (nnat (length ps) <=? n); cbn; repeat split; reflexivity.
  Qed.
  Lemma ul_iter_eqv pre rest i l l' : ul_eqv l l' ->
    ires_rel ul_eqv (fun _ _ => ul_eqv) (ul_iter flags0 pre rest i l) (ul_iter flags0 pre rest i l').
  Proof.
    intros H. unfold ul_iter. pose proof (ul_iter1_eqv pre rest i l l' H) as R. unfold ires_rel in R.
    destruct (ul_iter1 flags0 pre rest i l) as [k X|o e X|], (ul_iter1 flags0 pre rest i l') as [k' X'|o' e' X'|]; try contradiction; try exact R.
    destruct R as [<- R]. destruct k; [apply ul_iter1_eqv; exact R|split; [reflexivity|exact R]].
  Qed.
  Lemma ul_parse_eqv buf offs l l' : ul_eqv l l' ->
    res_rel (fun _ _ => ul_eqv) (parse (ul_iter flags0) buf offs l) (parse (ul_iter flags0) buf offs l').
  Proof. intros H. apply (parse_sim (ul_iter flags0) (ul_iter flags0) ul_eqv (fun _ _ => ul_eqv)); [apply ul_iter_eqv|exact H]. Qed.

  Lemma ul_req_eqv (a b : res uparams) : res_rel (fun _ _ => ul_eqv) a b -> req obs_uparams a b.
  Proof.
    destruct a, b; cbn; auto. intros (-> & -> & H). split; [reflexivity|]. split; [reflexivity|]. intros _. apply ul_eqv_obs. exact H.
  Qed.
  Lemma ul_vno0_wf l : ul_wf l -> ul_wf (l <| ul_vno := 0 |>).
  Proof. destruct l. unfold ul_wf, ul_cap. cbn. auto. Qed.
  Lemma ul_vno0_eqv l : ul_eqv (l <| ul_vno := 0 |>) l.
  Proof. destruct l. reflexivity. Qed.

  (* the exported call: every object with clean unused slots resumes transparently, and no definitive
     verdict changes when bytes are appended *)
  Theorem uparams_ExtOK : ExtOK (parse_all_uri_params flags0) obs_uparams (fun _ l => ul_wf l).
  Proof.
    intros p x i l Hl Hi. unfold parse_all_uri_params.
    pose proof (parse_ExtOKI (ul_iter flags0) obs_uparams ul_wf ul_IterExtI p x i (l <| ul_vno := 0 |>) (ul_vno0_wf l Hl) Hi) as H.
    destruct (parse (ul_iter flags0) p i (l <| ul_vno := 0 |>)) as [o e l'| |]; auto.
    destruct e; auto. destruct H as (H1 & H2 & H3). split; [exact H1|]. split; [exact H2|].
    eapply req_trans; [|exact H3]. apply ul_req_eqv, ul_parse_eqv, ul_vno0_eqv.
  Qed.
End UL.

(* ---- URI headers ----------------------------------------------------------------------------------------------------------------------- *)
Section UH.
  Variable flags0 : N.
  Notation flags := (N.lor flags0 (N.lor (2 ^ bPOptParamAmpSep) (2 ^ bPOptTokURIHdr))).
  Hypothesis no_input_end : tf_ie (tp_decode flags) = false.

  Definition uh_fresh (l : uhdrs) : Prop := uh_slot l = tokparam0.
  Definition uh_post (pre rest : list byte) (i : N) (l : uhdrs) (next : N) (e : err) (tp : tokparam) : ires uhdrs :=
    match e with
    | EOk | EMoreValues | EEOH =>
      let l1 := uh_store l tp in
      let l2 := l1 <| uh_vno := uh_vno l1 + 1 |> in
      let l3 := if uh_is_tmp l then l2 <| uh_tmp := tokparam0 |> else l2 in
      let l4 := l3 <| uh_n := uh_n l3 + 1 |> in
      match e with
      | EMoreValues => Next (N.to_nat (next - i)) l4
      | _ => Ret next e l4
      end
    | EMore => Ret next EMore (uh_store l tp)
    | _ => Ret next e (uh_store l tokparam0)
    end.

  Lemma uh_iter1_def pre rest i l :
    uh_iter1 flags0 pre rest i l = match run (tp_iter flags) pre rest i 0 (uh_slot l) with
                                   | Done next e v => uh_post pre rest i l next e v
                                   | _ => IPanic end.
  Proof. reflexivity. Qed.

  Lemma uh_is_tmp_store l p : uh_is_tmp (uh_store l p) = uh_is_tmp l.
  Proof.
    destruct (uh_store_proj l p) as (S1 & _ & S4 & _). unfold uh_is_tmp, uh_cap. rewrite S1, S4.
    destruct (uh_is_tmp l); [reflexivity|rewrite set_nth_len; reflexivity].
  Qed.
  Lemma uh_store_store l p q : uh_store (uh_store l p) q = uh_store l q.
  Proof.
    unfold uh_store at 1. rewrite uh_is_tmp_store. unfold uh_store. destruct (uh_is_tmp l) eqn:E; destruct l; cbn in *; [reflexivity|].
    rewrite set_nth_set_nth. reflexivity.
  Qed.
  Lemma uh_store_wf l p : uh_wf l -> uh_wf (uh_store l p).
  Proof.
    intros [W1 W2]. destruct (uh_store_proj l p) as (S1 & _ & S4 & S5). split.
    - intros j Hj. rewrite S1 in Hj. rewrite S4. destruct (uh_is_tmp l); [apply W1; exact Hj|]. rewrite nth_set_nth_ne by lia. apply W1. exact Hj.
    - unfold uh_cap. rewrite S1, S4, S5. intros H. unfold uh_is_tmp, uh_cap in *.
      destruct (nnat (length (uh_hdrs l)) <=? uh_n l) eqn:E; [|rewrite set_nth_len in H; apply W2; exact H]. lia.
  Qed.
  Lemma uh_next_facts l tp X :
    X = (let l1 := uh_store l tp in
         let l2 := l1 <| uh_vno := uh_vno l1 + 1 |> in
         let l3 := if uh_is_tmp l then l2 <| uh_tmp := tokparam0 |> else l2 in
         l3 <| uh_n := uh_n l3 + 1 |>) ->
    uh_n X = uh_n l + 1 /\
    uh_hdrs X = (if uh_is_tmp l then uh_hdrs l else set_nth (N.to_nat (uh_n l)) tp (uh_hdrs l)) /\
    uh_tmp X = (if uh_is_tmp l then tokparam0 else uh_tmp l).
  Proof.
    intros ->. cbv zeta. destruct (uh_store_proj l tp) as (S1 & S2 & S4 & S5).
    destruct (uh_is_tmp l); destruct (uh_store l tp); cbn in *; subst; repeat split; reflexivity.
  Qed.

  Lemma uh_IterExtI : IterExtI (uh_iter flags0) uh_wf.
  Proof.
    apply (again_IterExtI (tp_iter flags) (uh_iter1 flags0) (uh_iter flags0) uh_slot uh_post uh_store uh_wf uh_fresh (fun e => e = EMoreValues)).
    - apply tokparam_IterExt. exact no_input_end.
    - apply uh_iter1_def.
    - reflexivity.
    - reflexivity.
    - apply uh_slot_store.
    - apply uh_store_store.
    - intros l v. apply uh_store_wf.
    - intros pre R x i l next e v Hi He Hr. right. reflexivity.
    - intros pre R i l next e v He. unfold uh_post.
      destruct e; try exact I; try congruence.
      split; [reflexivity|]. split; [reflexivity|]. intros Hl.
      match goal with |- uh_wf ?X /\ _ => destruct (uh_next_facts l v X eq_refl) as (F1 & F2 & F3);
        split; [exact (hhnext_wf l X _ Hl F1 F2 F3)|exact (hhnext_slot l X _ Hl F1 F2 F3)] end.
    - intros pre B i k l v next e v' Hk Hi He. unfold uh_post. rewrite uh_is_tmp_store.
      destruct e; try congruence; cbv zeta; rewrite !uh_store_store; reflexivity.
    - intros pre rest i l Hf. pose proof (uh_iter1_progress flags0 pre rest i l) as P. unfold uh_fresh in Hf. rewrite Hf in P.
      specialize (P eq_refl). destruct (uh_iter1 flags0 pre rest i l) as [[|k] X| |]; auto. lia.
    - intros pre rest i v o e v' Hr ->. exact (tp_mv_offsets _ _ _ _ _ _ _ _ Hr eq_refl).
  Qed.

  Definition uh_eqv (l l' : uhdrs) : Prop := l <| uh_vno := 0 |> = l' <| uh_vno := 0 |>.
  Lemma uh_eqv_obs l l' : uh_eqv l l' -> obs_uhdrs l = obs_uhdrs l'.
  Proof. unfold uh_eqv. destruct l, l'; cbn. intros E. injection E as -> -> ->. reflexivity. Qed.
  Lemma uh_iter1_eqv pre rest i l l' : uh_eqv l l' ->
    ires_rel uh_eqv (fun _ _ => uh_eqv) (uh_iter1 flags0 pre rest i l) (uh_iter1 flags0 pre rest i l').
  Proof.
    destruct l as [ps n tmp v1], l' as [ps' n' tmp' v2]. unfold uh_eqv. cbn. intros E. injection E as <- <- <-.
    unfold uh_iter1, uh_slot, uh_store, uh_is_tmp, uh_cap. cbn [uh_hdrs uh_n uh_tmp]. cbv zeta.
    destruct (run _ pre rest i 0 _) as [next e tp| |]; [|exact I|exact I].
    destruct e; destruct (nnat (length ps) <=? n); cbn; repeat split; reflexivity.
  Qed.
  Lemma uh_iter_eqv pre rest i l l' : uh_eqv l l' ->
    ires_rel uh_eqv (fun _ _ => uh_eqv) (uh_iter flags0 pre rest i l) (uh_iter flags0 pre rest i l').
  Proof.
    intros H. unfold uh_iter. pose proof (uh_iter1_eqv pre rest i l l' H) as R. unfold ires_rel in R.
    destruct (uh_iter1 flags0 pre rest i l) as [k X|o e X|], (uh_iter1 flags0 pre rest i l') as [k' X'|o' e' X'|]; try contradiction; try exact R.
    destruct R as [<- R]. destruct k; [apply uh_iter1_eqv; exact R|split; [reflexivity|exact R]].
  Qed.
  Lemma uh_parse_eqv buf offs l l' : uh_eqv l l' ->
    res_rel (fun _ _ => uh_eqv) (parse (uh_iter flags0) buf offs l) (parse (uh_iter flags0) buf offs l').
  Proof. intros H. apply (parse_sim (uh_iter flags0) (uh_iter flags0) uh_eqv (fun _ _ => uh_eqv)); [apply uh_iter_eqv|exact H]. Qed.
  Lemma uh_req_eqv (a b : res uhdrs) : res_rel (fun _ _ => uh_eqv) a b -> req obs_uhdrs a b.
  Proof.
    destruct a, b; cbn; auto. intros (-> & -> & H). split; [reflexivity|]. split; [reflexivity|]. intros _. apply uh_eqv_obs. exact H.
  Qed.
  Lemma uh_vno0_wf l : uh_wf l -> uh_wf (l <| uh_vno := 0 |>).
  Proof. destruct l. unfold uh_wf, uh_cap. cbn. auto. Qed.
  Lemma uh_vno0_eqv l : uh_eqv (l <| uh_vno := 0 |>) l.
  Proof. destruct l. reflexivity. Qed.

  Theorem uhdrs_ExtOK : ExtOK (parse_all_uri_hdrs flags0) obs_uhdrs (fun _ l => uh_wf l).
  Proof.
    intros p x i l Hl Hi. unfold parse_all_uri_hdrs.
    pose proof (parse_ExtOKI (uh_iter flags0) obs_uhdrs uh_wf uh_IterExtI p x i (l <| uh_vno := 0 |>) (uh_vno0_wf l Hl) Hi) as H.
    destruct (parse (uh_iter flags0) p i (l <| uh_vno := 0 |>)) as [o e l'| |]; auto.
    destruct e; auto. destruct H as (H1 & H2 & H3). split; [exact H1|]. split; [exact H2|].
    eapply req_trans; [|exact H3]. apply uh_req_eqv, uh_parse_eqv, uh_vno0_eqv.
  Qed.
End UH.

(* the flag hypothesis in terms of the caller's flags *)
Lemma ul_flags_ie flags0 : testbit flags0 bPOptInputEnd = false -> tf_ie (tp_decode (N.lor flags0 (2 ^ bPOptParamSemiSep))) = false.
Proof. intros H. unfold tp_decode, tf_ie, testbit in *. rewrite N.lor_spec, H. reflexivity. Qed.
Lemma uh_flags_ie flags0 : testbit flags0 bPOptInputEnd = false ->
  tf_ie (tp_decode (N.lor flags0 (N.lor (2 ^ bPOptParamAmpSep) (2 ^ bPOptTokURIHdr)))) = false.
Proof. intros H. unfold tp_decode, tf_ie, testbit in *. rewrite !N.lor_spec, H. reflexivity. Qed.

(* fresh and reset objects have clean slots *)
Lemma ul_wf_init n : ul_wf (uparams_init (repeat uriparam0 n)).
Proof. unfold ul_wf, uparams_init. cbn. split; [intros j _; apply nth_repeat|reflexivity]. Qed.
Lemma uh_wf_init n : uh_wf (uhdrs_init (repeat tokparam0 n)).
Proof. unfold uh_wf, uhdrs_init. cbn. split; [intros j _; apply nth_repeat|reflexivity]. Qed.
