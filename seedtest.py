#!/usr/bin/env python3
"""seedtest.py <out-dir-of-a-sub-agent e.g. /tmp/wt/out/C10> [more checks...]
Confirms each seeded change (m1, m2, ...) in a scratch worktree (compiles, suite passes, demo fails with
the change and passes without), stores it under /verif/seeded/<id>-<m>/, then applies it to /repo, runs
the property's quick check (plus any extra property ids given), and undoes it straight afterwards."""
import json, os, re, shutil, subprocess, sys, time
ENV = dict(os.environ, GOFLAGS="-mod=mod", GOPROXY="off", GOSUMDB="off", GOTOOLCHAIN="local")
def sh(cmd, cwd=None, timeout=1800):
    p = subprocess.run(cmd, cwd=cwd, shell=True, stdout=subprocess.PIPE, stderr=subprocess.STDOUT, text=True, env=ENV, timeout=timeout)
    return p.returncode, p.stdout
def main():
    src = sys.argv[1].rstrip("/")
    prop = os.path.basename(src)
    extra = sys.argv[2:]
    scratch = "/tmp/wt/verify_" + prop
    sh("git -C /repo worktree remove --force %s" % scratch)
    rc, out = sh("git -C /repo worktree add -q --detach %s HEAD" % scratch)
    assert rc == 0, out
    try:
        for m in sorted(os.listdir(src)):
            d = os.path.join(src, m)
            if not os.path.isfile(os.path.join(d, "patch.diff")):
                continue
            meta = {"property": prop, "mutant": m, "confirmed": False}
            demo = os.path.join(d, "demo_test.go")
            tname = re.search(r"func (Test\w+)", open(demo).read()).group(1)
            steps = []
            rc, out = sh("git checkout -q -- . && git clean -fdq && git apply %s/patch.diff && go build ./... && go test -count=1 ./..." % d, cwd=scratch)
            steps.append(("with change: build + existing suite", rc == 0))
            shutil.copy(demo, os.path.join(scratch, "zz_demo_test.go"))
            rc2, out2 = sh("go test -run '^%s$' -count=1 ." % tname, cwd=scratch)
            steps.append(("with change: demo fails", rc2 != 0))
            rc3, out3 = sh("git checkout -q -- . && go test -run '^%s$' -count=1 ." % tname, cwd=scratch)
            steps.append(("without change: demo passes", rc3 == 0))
            os.remove(os.path.join(scratch, "zz_demo_test.go"))
            meta["confirmation"] = [{"step": s, "ok": ok} for s, ok in steps]
            meta["confirmed"] = all(ok for _, ok in steps)
            meta["demo_test"] = tname
            notes = open(os.path.join(d, "notes.md")).read() if os.path.exists(os.path.join(d, "notes.md")) else ""
            meta["needs_to_manifest"] = notes.strip()[:1500]
            dst = "/verif/seeded/%s-%s" % (prop, m)
            if meta["confirmed"]:
                os.makedirs(dst, exist_ok=True)
                for f in ("patch.diff", "demo_test.go", "notes.md"):
                    if os.path.exists(os.path.join(d, f)):
                        shutil.copy(os.path.join(d, f), dst)
            # run the checks against it
            results = {}
            rc, out = sh("git -C /repo status --porcelain")
            assert out.strip() == "", "/repo is not clean: " + out
            rc, out = sh("git -C /repo apply %s/patch.diff" % d)
            try:
                if rc != 0:
                    results["apply"] = out
                else:
                    for p in [prop] + extra:
                        t0 = time.time()
                        rcc, outc = sh("./check %s quick" % p, cwd="/verif", timeout=3600)
                        vio = [l for l in outc.splitlines() if l.startswith("VIOLATION")]
                        detail = [l for l in outc.splitlines() if l.startswith("  ")][:4]
                        results[p] = {"exit": rcc, "violation_lines": vio, "detail": detail, "wall_s": round(time.time() - t0, 1)}
            finally:
                sh("git -C /repo checkout -- .")
            meta["checks_run"] = results
            meta["detected_by"] = [p for p, r in results.items() if isinstance(r, dict) and r["exit"] == 1]
            if meta["confirmed"]:
                json.dump(meta, open(os.path.join(dst, "meta.json"), "w"), indent=1)
            print(json.dumps({"mutant": prop + "-" + m, "confirmed": meta["confirmed"], "steps": steps, "detected_by": meta["detected_by"],
                              "results": {p: (r if not isinstance(r, dict) else {"exit": r["exit"], "vio": r["violation_lines"][:2], "detail": r["detail"][:2], "wall": r["wall_s"]}) for p, r in results.items()}}, indent=1))
    finally:
        sh("git -C /repo worktree remove --force %s" % scratch)
main()
