
val negb : bool -> bool

type nat =
| O
| S of nat

val fst : ('a1 * 'a2) -> 'a1

val snd : ('a1 * 'a2) -> 'a2

val length : 'a1 list -> nat

val app : 'a1 list -> 'a1 list -> 'a1 list

type comparison =
| Eq
| Lt
| Gt

val compOpp : comparison -> comparison

val add : nat -> nat -> nat

val sub : nat -> nat -> nat

module Nat :
 sig
  val eqb : nat -> nat -> bool

  val leb : nat -> nat -> bool

  val ltb : nat -> nat -> bool
 end

val nth : nat -> 'a1 list -> 'a1 -> 'a1

val nth_error : 'a1 list -> nat -> 'a1 option

val rev : 'a1 list -> 'a1 list

val map : ('a1 -> 'a2) -> 'a1 list -> 'a2 list

val flat_map : ('a1 -> 'a2 list) -> 'a1 list -> 'a2 list

val forallb : ('a1 -> bool) -> 'a1 list -> bool

val firstn : nat -> 'a1 list -> 'a1 list

val skipn : nat -> 'a1 list -> 'a1 list

val repeat : 'a1 -> nat -> 'a1 list

type positive =
| XI of positive
| XO of positive
| XH

type n =
| N0
| Npos of positive

type z =
| Z0
| Zpos of positive
| Zneg of positive

module Pos :
 sig
  type mask =
  | IsNul
  | IsPos of positive
  | IsNeg
 end

module Coq_Pos :
 sig
  val succ : positive -> positive

  val add : positive -> positive -> positive

  val add_carry : positive -> positive -> positive

  val pred_double : positive -> positive

  val pred_N : positive -> n

  type mask = Pos.mask =
  | IsNul
  | IsPos of positive
  | IsNeg

  val succ_double_mask : mask -> mask

  val double_mask : mask -> mask

  val double_pred_mask : positive -> mask

  val sub_mask : positive -> positive -> mask

  val sub_mask_carry : positive -> positive -> mask

  val mul : positive -> positive -> positive

  val iter : ('a1 -> 'a1) -> 'a1 -> positive -> 'a1

  val pow : positive -> positive -> positive

  val compare_cont : comparison -> positive -> positive -> comparison

  val compare : positive -> positive -> comparison

  val eqb : positive -> positive -> bool

  val coq_Nsucc_double : n -> n

  val coq_Ndouble : n -> n

  val coq_lor : positive -> positive -> positive

  val coq_land : positive -> positive -> n

  val shiftl : positive -> n -> positive

  val testbit : positive -> n -> bool

  val iter_op : ('a1 -> 'a1 -> 'a1) -> positive -> 'a1 -> 'a1

  val to_nat : positive -> nat

  val of_succ_nat : nat -> positive
 end

module N :
 sig
  val succ_double : n -> n

  val double : n -> n

  val add : n -> n -> n

  val sub : n -> n -> n

  val mul : n -> n -> n

  val compare : n -> n -> comparison

  val eqb : n -> n -> bool

  val leb : n -> n -> bool

  val ltb : n -> n -> bool

  val min : n -> n -> n

  val max : n -> n -> n

  val div2 : n -> n

  val pow : n -> n -> n

  val pos_div_eucl : positive -> n -> n * n

  val div_eucl : n -> n -> n * n

  val div : n -> n -> n

  val modulo : n -> n -> n

  val coq_lor : n -> n -> n

  val coq_land : n -> n -> n

  val shiftl : n -> n -> n

  val shiftr : n -> n -> n

  val testbit : n -> n -> bool

  val to_nat : n -> nat

  val of_nat : nat -> n
 end

module Z :
 sig
  val compare : z -> z -> comparison

  val ltb : z -> z -> bool

  val eqb : z -> z -> bool

  val to_nat : z -> nat

  val to_N : z -> n

  val of_nat : nat -> z

  val of_N : n -> z
 end

type ('r, 't) setter = ('t -> 't) -> 'r -> 'r

val set : ('a1 -> 'a2) -> ('a1, 'a2) setter -> ('a2 -> 'a2) -> 'a1 -> 'a1

type byte = n

val sP : byte

val hT : byte

val cR : byte

val lF : byte

val is_sp : byte -> bool

val is_cr : byte -> bool

val is_lf : byte -> bool

val is_crlf : byte -> bool

val is_ws : byte -> bool

val is_digit : byte -> bool

val digit_val : byte -> n

val is_upper : byte -> bool

val is_lower : byte -> bool

val is_alpha : byte -> bool

val to_lower : byte -> byte

val eqb_bytes : byte list -> byte list -> bool

val eqb_nocase : byte list -> byte list -> bool

type err =
| EOk
| EEOH
| EEmpty
| EMore
| EMoreValues
| ENoCR
| EBadChar
| EParams
| EBad
| EValNotNumber
| EValTooLong
| EValBad
| ENumTooBig
| ETrunc
| ENoCLen
| EBug
| EConvBug
| ETooManyVals

val err_code : err -> n

val err_eqb : err -> err -> bool

type pf = { po : n; pl : n }

val pf0 : pf

val pf_end : pf -> n

val pf_empty : pf -> bool

val pf_set : n -> n -> pf option

val pf_extend : pf -> n -> pf option

val to16 : n -> n

val pf_set16 : n -> n -> pf option

type 's res =
| Done of n * err * 's
| Panic
| Stuck

type 's ires =
| Next of nat * 's
| Ret of n * err * 's
| IPanic

val zpre : nat -> byte list -> byte list -> byte list

val zrest : nat -> byte list -> byte list

val zinit : byte list -> n -> byte list * byte list

val zslice : byte list -> byte list -> n -> n -> n -> byte list option

val zget : byte list -> byte list -> n -> pf -> byte list option

val zprev : byte list -> byte option

type lws =
| LOk of nat
| LEOH of nat * nat
| LMore of nat

val skipLWS_at : bool -> byte list -> nat -> lws

val skipLWS : bool -> byte list -> lws

type crlf =
| COk of nat
| CMore
| CNoCR

val skipCRLF : byte list -> crlf

val span : (byte -> bool) -> byte list -> nat

val skipWS : byte list -> nat

val skipToken : byte list -> nat

val skipTokenDelim : byte -> byte list -> nat

val skipLine : byte list -> nat * crlf

val b2z : bool -> z

val n2z : n -> z

val obs_pf : pf -> z list

val nnat : nat -> n

val testbit0 : n -> n -> bool

val dOT : byte

type ip4res = ((bool * n) * err) * n list

val ip4_loop : byte list -> n -> n list -> n -> n -> ip4res

val ip4_prefix : byte list -> ip4res

val ip4_try : byte list -> nat -> nat -> ((nat * n) * n list) option

val cip4_loop :
  byte list -> byte list -> nat -> nat -> ((nat * n) * n list) option

val contains_ip4 : byte list -> ((bool * n) * n) * n list

val obs_ip4p : ip4res -> z list

val obs_ip4c : (((bool * n) * n) * n list) -> z list

val callid_ip4_flag : byte list -> n

val run :
  (byte list -> byte list -> n -> 'a1 -> 'a1 ires) -> byte list -> byte list
  -> n -> nat -> 'a1 -> 'a1 res

val parse :
  (byte list -> byte list -> n -> 'a1 -> 'a1 ires) -> byte list -> n -> 'a1
  -> 'a1 res

val hdrNone : n

val hdrFrom : n

val hdrTo : n

val hdrCallID : n

val hdrCSeq : n

val hdrVia : n

val hdrCLen : n

val hdrContact : n

val hdrExpires : n

val hdrRecordRoute : n

val hdrRoute : n

val hdrPAI : n

val hdrOther : n

val mUndef : n

val mInvite : n

val mOther : n

val bPOptTokCommaTerm : n

val bPOptTokQmTerm : n

val bPOptTokSpTerm : n

val bPOptInputEnd : n

val bPOptParamSemiSep : n

val bPOptParamAmpSep : n

val bPOptTokURIParam : n

val bPOptTokURIHdr : n

val bSIPMsgSkipBody : n

val bSIPMsgCLenReq : n

val bSIPMsgNoMoreData : n

val maxCSeqNValueSize : n

val maxCSeqNValue : n

val maxCLenValueSize : n

val maxClenValue : n

val maxU32 : n

val maxU64 : n

val noURIErr : n

val errURIBadChar : n

val errURIScheme : n

val errURIHost : n

val errURIPort : n

val errURIHeaders : n

val errURITooShort : n

val errURIBad : n

val iNVALIDuri : n

val sIPuri : n

val sIPSuri : n

val tELuri : n

val bURICmpSkipPort : n

val bURICmpSkipScheme : n

val bURICmpSkipUser : n

val bURICmpSkipPass : n

val bURICmpSkipParams : n

val bURICmpSkipHeaders : n

val uRIParamNone : n

val uRIParamTransportF : n

val uRIParamUserF : n

val uRIParamMethodF : n

val uRIParamTTLF : n

val uRIParamMaddrF : n

val uRIParamLRF : n

val uRIParamOtherF : n

val defaultHdrs : nat

val defaultContacts : nat

val paiVals : nat

val sq_iter : byte list -> byte list -> n -> unit -> unit ires

val skip_quoted : byte list -> n -> unit res

val tok_allowed : bool -> byte -> bool

type tpst =
| PInit
| PName
| PFEq
| PFVal
| PVal
| PFSep
| PFNxt
| PInitNxtVal
| PQuotedVal
| PERR
| PFIN

type tokparam = { tp_all : pf; tp_name : pf; tp_val : pf; tp_state : tpst }

val tokparam0 : tokparam

val tp_empty : tokparam -> bool

type tpflags = { tf_sep : byte; tf_term : byte; tf_spterm : bool;
                 tf_ie : bool; tf_uriparam : bool }

val tp_decode : n -> tpflags

val tp_endOfHdr : n -> tokparam -> tokparam ires

val tp_moreBytes : tpflags -> n -> n -> tokparam -> tokparam ires

val tp_ws :
  tpflags -> byte list -> n -> tokparam -> tokparam option -> tokparam ires

val tp_spterm_ret : byte list -> n -> tokparam -> tokparam ires

val tp_bad : n -> tokparam -> tokparam ires

val is_tp_fnxt : tpst -> bool

val ext2 : pf -> pf -> n -> n -> (pf * pf) option

val tp_sInit :
  tpflags -> byte list -> n -> tokparam -> byte -> tpst -> tokparam ires

val tp_sName : tpflags -> byte list -> n -> tokparam -> byte -> tokparam ires

val tp_sFEq :
  tpflags -> byte list -> byte list -> n -> tokparam -> byte -> tokparam ires

val tp_sFVal : tpflags -> byte list -> n -> tokparam -> byte -> tokparam ires

val tp_sVal : tpflags -> byte list -> n -> tokparam -> byte -> tokparam ires

val tp_sQuoted :
  tpflags -> byte list -> byte list -> n -> tokparam -> tokparam ires

val tp_sFSep :
  tpflags -> byte list -> byte list -> n -> tokparam -> byte -> tokparam ires

val tp_step :
  tpflags -> byte list -> byte list -> n -> tokparam -> byte -> tpst ->
  tokparam ires

val tp_iter : n -> byte list -> byte list -> n -> tokparam -> tokparam ires

val parse_tokparam : n -> byte list -> n -> tokparam -> tokparam res

val obs_tokparam : tokparam -> z list

type fbst =
| FbInit
| FbNameOrURI
| FbNameOrURIEnd
| FbName
| FbQuoted
| FbURI
| FbURIFound
| FbNewPossibleParam
| FbPossibleParamName
| FbPossibleParamNameEnd
| FbNewParam
| FbParamName
| FbParamNameEnd
| FbNewParamVal
| FbParamVal
| FbParamValEnd
| FbNewPossibleVal
| FbPossibleVal
| FbPossibleValEnd
| FbQuotedVal
| FbQuotedPossibleVal
| FbStar
| FbFIN

type pfrom = { fb_name : pf; fb_uri : pf; fb_tag : pf; fb_star : bool;
               fb_lr : bool; fb_hasexp : bool; fb_type : n; fb_q : n;
               fb_expires : n; fb_params : pf; fb_v : pf; fb_perr : err;
               fb_erroffs : n; fb_state : fbst; fb_soffs : n; fb_pstart : 
               n; fb_pend : n; fb_vstart : n; fb_vend : n }

val pfrom0 : pfrom

val fb_parsed : pfrom -> bool

val fb_empty : pfrom -> bool

val multipleValsOk : n -> bool

val pUInt64_go : byte list -> n -> n * err

val pUInt64Val : byte list -> n * err

val str_tag : byte list

val str_expires : byte list

val str_q : byte list

val str_lr : byte list

val set_q : byte list -> pfrom -> pfrom

val setFromParamVal : byte list -> byte list -> n -> pfrom -> pfrom option

val fb_close :
  byte list -> byte list -> n -> n -> pfrom -> pfrom option option

val fb_endOfHdr :
  n -> byte list -> byte list -> n -> n -> n -> err -> pfrom -> pfrom ires

val fb_moreValues : n -> byte list -> byte list -> n -> pfrom -> pfrom ires

val fb_lws : n -> byte list -> byte list -> n -> pfrom -> pfrom ires

val fb_lws_b :
  n -> byte list -> byte list -> n -> pfrom -> (n option -> pfrom) -> pfrom
  ires

type ccls =
| KWs
| KComma
| KLt
| KGt
| KDq
| KSemi
| KStar
| KEq
| KBsl
| KOther

val ccls_of : byte -> ccls

val fb_bad : n -> pfrom -> pfrom ires

val fb_reset3 : pfrom -> pfrom

val fb_comma : n -> byte list -> byte list -> n -> pfrom -> pfrom ires

val fb_comma_strict : n -> byte list -> byte list -> n -> pfrom -> pfrom ires

val fb_setpv : byte list -> byte list -> n -> pfrom -> pfrom ires

val is_st_init : fbst -> bool

val is_st_nameoruri : fbst -> bool

val is_st_nameoruriend : fbst -> bool

val st_poss : fbst -> bool

val st_newparam : bool -> fbst

val st_paramname : bool -> fbst

val st_paramnameend : bool -> fbst

val st_newval : bool -> fbst

val st_val : bool -> fbst

val st_valend : bool -> fbst

val st_quotedval : bool -> fbst

val is_st_name : fbst -> bool

val is_st_new : fbst -> bool

val fb_gA :
  n -> byte list -> byte list -> n -> pfrom -> fbst -> ccls -> pfrom ires

val fb_gQ :
  n -> byte list -> byte list -> byte list -> n -> pfrom -> fbst -> ccls ->
  pfrom ires

val fb_gURI : n -> pfrom -> ccls -> pfrom ires

val fb_gURIFound :
  n -> byte list -> byte list -> n -> pfrom -> ccls -> pfrom ires

val fb_gP :
  n -> byte list -> byte list -> n -> pfrom -> fbst -> ccls -> pfrom ires

val fb_gPE :
  n -> byte list -> byte list -> n -> pfrom -> fbst -> ccls -> pfrom ires

val fb_gV :
  n -> byte list -> byte list -> n -> pfrom -> fbst -> ccls -> pfrom ires

val fb_gVE :
  n -> byte list -> byte list -> n -> pfrom -> fbst -> ccls -> pfrom ires

val fb_gStar : n -> byte list -> byte list -> n -> pfrom -> ccls -> pfrom ires

val fb_step :
  n -> byte list -> byte list -> byte list -> n -> pfrom -> fbst -> ccls ->
  pfrom ires

val fb_iter : n -> byte list -> byte list -> n -> pfrom -> pfrom ires

val parse_nameaddr : n -> byte list -> n -> pfrom -> pfrom res

val parse_one_pai : byte list -> n -> pfrom -> pfrom res

val obs_pfrom : pfrom -> z list

val set_nth : nat -> 'a1 -> 'a1 list -> 'a1 list

type contacts = { ct_vals : pfrom list; ct_n : n; ct_hno : n; ct_maxexp : 
                  n; ct_minexp : n; ct_lasthval : pf; ct_last : pfrom;
                  ct_first : pfrom }

val contacts_init : pfrom list -> contacts

val contacts_reset : contacts -> contacts

val ct_cap : contacts -> n

val ct_vno : contacts -> n

val ct_more : contacts -> bool

val ct_parsed : contacts -> bool

val ct_get : contacts -> n -> pfrom option

val ct_slot_is_last : contacts -> bool

val ct_slot : contacts -> pfrom

val ct_store : contacts -> pfrom -> contacts

val ct_reset_last_if : bool -> contacts -> contacts

val ct_iter : byte list -> byte list -> n -> contacts -> contacts ires

val parse_all_contacts : byte list -> n -> contacts -> contacts res

val obs_opt_pfrom : pfrom option -> z list

val obs_contacts : contacts -> z list

type pais = { pa_vals : pfrom list; pa_n : n; pa_hno : n; pa_lasthval : 
              pf; pa_last : pfrom }

val pais0 : pais

val pa_cap : pais -> n

val pa_vno : pais -> n

val pa_more : pais -> bool

val pa_parsed : pais -> bool

val pa_slot_is_last : pais -> bool

val pa_slot : pais -> pfrom

val pa_store : pais -> pfrom -> pais

val pa_reset_last_if : bool -> pais -> pais

val pa_iter : byte list -> byte list -> n -> pais -> pais ires

val parse_all_pais : byte list -> n -> pais -> pais res

val obs_pais : pais -> z list

val str_transport : byte list

val str_maddr : byte list

val str_user : byte list

val str_method : byte list

val str_ttl : byte list

val uri_param_resolve : byte list -> n

type uriparam = { up_param : tokparam; up_t : n }

val uriparam0 : uriparam

type uparams = { ul_params : uriparam list; ul_n : n; ul_types : n;
                 ul_tmp : uriparam; ul_vno : n }

val uparams_init : uriparam list -> uparams

val uparams_reset : uparams -> uparams

val ul_cap : uparams -> n

val ul_pno : uparams -> n

val ul_more : uparams -> bool

val ul_is_tmp : uparams -> bool

val ul_slot : uparams -> uriparam

val ul_store : uparams -> uriparam -> uparams

val ul_iter1 : n -> byte list -> byte list -> n -> uparams -> uparams ires

val ul_iter : n -> byte list -> byte list -> n -> uparams -> uparams ires

val parse_all_uri_params : n -> byte list -> n -> uparams -> uparams res

val obs_uriparam : uriparam -> z list

val obs_uparams : uparams -> z list

type uhdrs = { uh_hdrs : tokparam list; uh_n : n; uh_tmp : tokparam;
               uh_vno : n }

val uhdrs_init : tokparam list -> uhdrs

val uhdrs_reset : uhdrs -> uhdrs

val uh_cap : uhdrs -> n

val uh_hno : uhdrs -> n

val uh_more : uhdrs -> bool

val uh_is_tmp : uhdrs -> bool

val uh_slot : uhdrs -> tokparam

val uh_store : uhdrs -> tokparam -> uhdrs

val uh_iter1 : n -> byte list -> byte list -> n -> uhdrs -> uhdrs ires

val uh_iter : n -> byte list -> byte list -> n -> uhdrs -> uhdrs ires

val parse_all_uri_hdrs : n -> byte list -> n -> uhdrs -> uhdrs res

val obs_uhdrs : uhdrs -> z list

val bget : byte list -> pf -> byte list option

val bget_d : byte list -> pf -> byte list

val ul_entries : uparams -> byte list -> ((n * byte list) * byte list) list

val up_find :
  n -> byte list -> ((n * byte list) * byte list) list -> byte list option

val up_bmask : n

val uparams_entries_eq :
  n -> n -> ((n * byte list) * byte list) list -> ((n * byte list) * byte
  list) list -> bool

val uparams_lst_eq : uparams -> byte list -> uparams -> byte list -> bool

val cmp_flags_params : n

val cmp_flags_hdrs : n

val cmp_cap : nat

val uri_params_eq : byte list -> n -> byte list -> n -> (bool * err) option

val uh_entries : uhdrs -> byte list -> (byte list * byte list) list

val uh_find : byte list -> byte list -> (byte list * byte list) list -> bool

val uhdrs_entries_eq :
  (byte list * byte list) list -> (byte list * byte list) list -> bool

val uhdrs_lst_eq : uhdrs -> byte list -> uhdrs -> byte list -> bool

val uri_hdrs_eq : byte list -> n -> byte list -> n -> (bool * err) option

type ust =
| UInitSIP
| UInitSIPS
| UInitTEL
| UUser
| UPass0
| UPass1
| UHost0
| UHost1
| UHost61
| UHost6E
| UPort
| UParam0
| UParam1
| UHeaders

type puri = { u_type : n; u_scheme : pf; u_user : pf; u_pass : pf;
              u_host : pf; u_port : pf; u_params : pf; u_headers : pf;
              u_portno : n }

val puri0 : puri

type uloc = { ul_state : ust; ul_s : n; ul_found : bool; ul_passoffs : 
              n; ul_portno : n; ul_errh : bool }

type ustep =
| UGo of uloc * puri
| URet of n * n * puri
| UPanic

val ch : byte -> n -> bool

val c_at : n

val c_colon : n

val c_semi : n

val c_qm : n

val c_lbr : n

val c_rbr : n

val c_amp : n

val u_backtrack : n -> uloc -> puri -> ustep

val u_endport : n -> uloc -> puri -> (puri -> ustep) -> ustep

val u_acc_port : byte -> uloc -> uloc

val uri_step : byte -> n -> uloc -> puri -> ustep

val uri_finish : n -> uloc -> puri -> ustep

val uri_loop : byte list -> n -> uloc -> puri -> ustep

val lo20 : byte -> n

val parse_uri : byte list -> puri -> ((n * n) * puri) option

val obs_puri : puri -> z list

val end16 : pf -> n

val view_to : puri -> pf -> pf option

val uri_long : puri -> pf option

val uri_short : puri -> pf option

val uri_truncate : puri -> puri

val uri_adjust : puri -> pf -> bool * puri

val uri_cmp_short : puri -> byte list -> puri -> byte list -> n -> bool option

val uri_cmp : puri -> byte list -> puri -> byte list -> n -> bool option

val uri_parse_cmp :
  byte list -> byte list -> n -> ((((bool * n) * n) * puri option) * puri
  option) option

val go_hdr_buckets : (n list * n) list list

val go_mth_buckets : (n list * n) list list

val go_method2name : n list list

val go_hnBitsLen : n

val go_hnBitsFChar : n

val go_mthBitsLen : n

val go_mthBitsFChar : n

val go_sipVerSP : n list

val go_hdr2SigId : n list

val go_sigHdrsFlags : n

val go_HdrSigIdCMask : n

val go_NoSigHdrs : n

val hash_name : n -> n -> byte list -> n

val find_name :
  (byte list -> byte list -> bool) -> byte list -> (byte list * n) list -> n
  option

val get_hdr_type : byte list -> n

val get_method_no : byte list -> n

val method_name : n -> byte list

type flst =
| FlInit
| FlReqMethod
| FlReqURI
| FlReqVer
| FlRplStatus
| FlRplReason
| FlCRLF
| FlFIN

type fline = { fl_status : n; fl_methodno : n; fl_method : pf; fl_uri : 
               pf; fl_version : pf; fl_statuscode : pf; fl_reason : pf;
               fl_state : flst }

val fline0 : fline

val fl_request : fline -> bool

val fl_parsed : fline -> bool

val fl_empty : fline -> bool

val fl_crlf : byte list -> n -> fline -> fline ires

val fl_ver : byte list -> byte list -> n -> fline -> fline ires

val fl_requri : byte list -> byte list -> n -> fline -> fline ires

val fl_method_ph : byte list -> byte list -> n -> fline -> fline ires

val fl_reason_ph : byte list -> n -> fline -> fline ires

val prefix_nocase : byte list -> byte list -> bool

val fl_init : byte list -> byte list -> n -> fline -> fline ires

val fl_iter : byte list -> byte list -> n -> fline -> fline ires

val parse_fline : byte list -> n -> fline -> fline res

val obs_fline : fline -> z list

type cist =
| CiInit
| CiFound
| CiEnd
| CiFIN

type callid = { ci_callid : pf; ci_state : cist; ci_soffs : n }

val callid0 : callid

val ci_parsed : callid -> bool

val ci_empty : callid -> bool

val ci_endOfHdr : n -> n -> nat -> callid -> callid ires

val ci_lws : byte list -> n -> callid -> callid ires

val ci_iter : byte list -> byte list -> n -> callid -> callid ires

val parse_callid : byte list -> n -> callid -> callid res

val obs_callid : callid -> z list

type uist =
| ClInit
| ClFound
| ClEnd
| ClFIN

type uintb = { ui_val : n; ui_sval : pf; ui_state : uist; ui_soffs : n }

val uintb0 : uintb

val ui_parsed : uintb -> bool

val ui_empty : uintb -> bool

val ui_endOfHdr : n -> n -> nat -> uintb -> uintb ires

val ui_lws : byte list -> n -> uintb -> uintb ires

val acc32 : n -> n -> n option

val ui_iter : byte list -> byte list -> n -> uintb -> uintb ires

val parse_uint : byte list -> n -> uintb -> uintb res

val parse_clen : byte list -> n -> uintb -> uintb res

val obs_uint : uintb -> z list

type csst =
| CsInit
| CsFoundDigit
| CsEndDigit
| CsFoundMethod
| CsEnd
| CsFIN

type cseq = { cs_no : n; cs_methodno : n; cs_cseq : pf; cs_method : pf;
              cs_v : pf; cs_state : csst; cs_soffs : n }

val cseq0 : cseq

val cs_parsed : cseq -> bool

val cs_empty : cseq -> bool

val cs_finish : byte list -> byte list -> n -> n -> cseq -> cseq ires

val cs_endOfHdr :
  byte list -> byte list -> n -> n -> n -> nat -> cseq -> cseq ires

val cs_lws : byte list -> byte list -> n -> cseq -> cseq ires

val cs_iter : byte list -> byte list -> n -> cseq -> cseq ires

val parse_cseq : byte list -> n -> cseq -> cseq res

val obs_cseq : cseq -> z list

type hst =
| HInit
| HName
| HNameEnd
| HBodyStart
| HVal
| HValEnd
| HFrom
| HTo
| HCallID
| HCSeq
| HCLen
| HContact
| HExpires
| HPAI
| HFIN

type hdr = { h_type : n; h_name : pf; h_val : pf; h_state : hst }

val hdr0 : hdr

val h_missing : hdr -> bool

type phvals = { pv_from : pfrom; pv_to : pfrom; pv_callid : callid;
                pv_cseq : cseq; pv_clen : uintb; pv_contacts : contacts;
                pv_pais : pais; pv_expires : uintb }

val phvals_init : pfrom list -> phvals

val phvals_reset : phvals -> phvals

val pv_max_expires : phvals -> n * bool

type hline = { hx_h : hdr; hx_pv : phvals option }

val hb_finish :
  'a1 res -> hline -> ('a1 -> pf) -> ('a1 -> phvals) -> hline ires

val hb_run :
  hst -> byte list -> byte list -> n -> hline -> phvals -> hline ires

val hb_parse_body : byte list -> byte list -> n -> hline -> hline ires option

val hl_colon : byte list -> byte list -> n -> nat -> hline -> hline ires

val hl_name_ph : byte list -> byte list -> n -> hline -> hline ires

val hl_iter : byte list -> byte list -> n -> hline -> hline ires

val parse_hdrline : byte list -> n -> hline -> hline res

type hdrlst = { hl_pflags : n; hl_n : n; hl_hdrs : hdr list;
                hl_first : hdr list; hl_tmp : hdr }

val n_first : nat

val hdrlst_init : hdr list -> hdrlst

val hdrlst_reset : hdrlst -> hdrlst

val hl_cap : hdrlst -> n

val hl_is_tmp : hdrlst -> bool

val hl_slot : hdrlst -> hdr

val hl_store : hdrlst -> hdr -> hdrlst

val hl_gethdr : hdrlst -> n -> hdr option

val hl_sethdr : hdrlst -> hdr -> hdrlst

type hdrs_st = { hs_l : hdrlst; hs_pv : phvals option }

val hs_iter : byte list -> byte list -> n -> hdrs_st -> hdrs_st ires

val parse_headers : byte list -> n -> hdrs_st -> hdrs_st res

val obs_hdr : hdr -> z list

val obs_opt_hdr : hdr option -> z list

val all_hdr_types : n list

val obs_hdrlst : hdrlst -> z list

val obs_phvals : phvals -> z list

val obs_opt_phvals : phvals option -> z list

type mst =
| MInit
| MFLine
| MHeaders
| MBody
| MErr
| MNoCLen
| MFIN

type pmsg = { m_fl : fline; m_hs : hdrs_st; m_body : pf; m_buflen : n;
              m_raw : (n * n) option; m_state : mst; m_offs : n }

val msg_init : n -> hdr list -> pfrom list -> pmsg

val msg_reset : pmsg -> pmsg

val msg_parsed : pmsg -> bool

val msg_err : pmsg -> bool

val msg_request : pmsg -> bool

val msg_pv : pmsg -> phvals

val msg_method : pmsg -> n

val msg_fail : n -> n -> err -> pmsg -> pmsg res

val msg_end : n -> n -> pmsg -> pmsg res

val msg_body : n -> n -> n -> pmsg -> pmsg res

val msg_headers : n -> byte list -> n -> pmsg -> pmsg res

val msg_fline : n -> byte list -> n -> pmsg -> pmsg res

val parse_sipmsg : n -> byte list -> n -> pmsg -> pmsg res

val obs_msg : pmsg -> z list

type msgsig = { sg_method : n; sg_cidslen : n; sg_cidsig : n; sg_fromsig : 
                n; sg_viabsig : n; sg_hdrsig : n list }

val msgsig0 : msgsig

val hf_bit : n -> n

val hf_test : n -> n -> bool

val hf_set : n -> n -> n

val hdr_sig_id : hdr -> n * err

val sig_walk :
  (byte list -> n) -> byte list -> n -> hdr list -> n -> msgsig ->
  (msgsig * bool) option

val get_msg_sig :
  (byte list -> n * n) -> (byte list -> n) -> (byte list -> n) -> pmsg ->
  byte list -> (msgsig * err) option

val hexdig : n -> byte

val hex4 : n -> byte list

val sig_string : msgsig -> byte list

val obs_msgsig : (msgsig * err) option -> z list

val sigIPStartF : n

val sigIPEndF : n

val sigIPMiddleF : n

val sigHexEncF : n

val sigB64EncF : n

val sigDigBlocksF : n

val res_flag : byte -> n

type scs = { c_sig : n; c_sep : n; c_sepno : n; c_hexm : n; c_hexc : 
             n; c_hexb : n; c_b64 : bool; c_hex : bool; c_dec : bool;
             c_lo : bool; c_up : bool; c_skip : n }

val scs0 : scs

val close_block : scs -> scs

val is_hexl : byte -> bool

val b64r : byte -> bool

val scs_step : n -> n -> n -> n -> byte -> bool -> scs -> scs

val scs_loop : n -> n -> n -> n -> byte list -> scs -> scs

val str_chars_sig : byte list -> n -> n -> n * n

val str_sig0 : byte list -> n

val callid_sig_at : bool -> n -> n -> byte list -> n * n

val str_branch : byte list

val str_brprefix : byte list

val viabr_flags : n

val index_of : byte -> byte list -> n -> n option

val viabr_loop : nat -> byte list -> n -> (n * n) option

val viabr_sig_len : byte list -> (n * n) option

val viabr_sig0 : byte list -> n

type 's obj = { ob_parse : (n -> byte list -> n -> 's -> 's res);
                ob_reset : ('s -> 's); ob_obs : ('s -> z list) }

type op =
| OpParse of n * byte list * n * nat list
| OpReset

val zPANIC : z

val zSTUCK : z

val calls :
  (byte list -> n -> 'a1 -> 'a1 res) -> byte list -> nat list -> n -> 'a1 ->
  z list * 'a1 option

val run_ops : 'a1 obj -> op list -> 'a1 -> z list

val cap_of : nat -> z -> nat

val nthz : z list -> nat -> z

val obj_fline : fline obj

val obj_callid : callid obj

val obj_cseq : cseq obj

val obj_uint : uintb obj

val obj_clen : uintb obj

val obj_nameaddr : n -> pfrom obj

val obj_onepai : pfrom obj

val obj_contacts : contacts obj

val pais_reset : pais -> pais

val obj_pais : pais obj

val obj_tokparam : tokparam obj

val obj_uparams : uparams obj

val obj_uhdrs : uhdrs obj

val obj_quoted : unit obj

val hline_reset : hline -> hline

val obj_hdrline : hline obj

val hdrs_reset : hdrs_st -> hdrs_st

val obj_headers : hdrs_st obj

val obj_msg : pmsg obj

val take_cuts : nat -> z list -> nat list * z list

val decode_ops : nat -> z list -> byte list list -> op list

val run_hist : n -> z -> z -> z -> op list -> z list

val obs_uri_res : ((n * n) * puri) option -> z list

val obs_opt_pf : pf option -> z list

val obs_opt_bool : bool option -> z list

val obs_eq_res : (bool * err) option -> z list

val obs_opt_puri : puri option -> z list

val callid_sig_ip : bool -> n -> n -> byte list -> n * n

val run_msgsig : z list -> byte list -> z list

val entry : n -> z list -> byte list list -> z list
