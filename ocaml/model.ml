
(** val negb : bool -> bool **)

let negb = function
| true -> false
| false -> true

type nat =
| O
| S of nat

(** val fst : ('a1 * 'a2) -> 'a1 **)

let fst = function
| (x, _) -> x

(** val snd : ('a1 * 'a2) -> 'a2 **)

let snd = function
| (_, y) -> y

(** val length : 'a1 list -> nat **)

let rec length = function
| [] -> O
| _ :: l' -> S (length l')

(** val app : 'a1 list -> 'a1 list -> 'a1 list **)

let rec app l m =
  match l with
  | [] -> m
  | a :: l1 -> a :: (app l1 m)

type comparison =
| Eq
| Lt
| Gt

(** val compOpp : comparison -> comparison **)

let compOpp = function
| Eq -> Eq
| Lt -> Gt
| Gt -> Lt

module Coq__1 = struct
 (** val add : nat -> nat -> nat **)
 let rec add n0 m =
   match n0 with
   | O -> m
   | S p -> S (add p m)
end
include Coq__1

(** val sub : nat -> nat -> nat **)

let rec sub n0 m =
  match n0 with
  | O -> n0
  | S k -> (match m with
            | O -> n0
            | S l -> sub k l)

module Nat =
 struct
  (** val eqb : nat -> nat -> bool **)

  let rec eqb n0 m =
    match n0 with
    | O -> (match m with
            | O -> true
            | S _ -> false)
    | S n' -> (match m with
               | O -> false
               | S m' -> eqb n' m')

  (** val leb : nat -> nat -> bool **)

  let rec leb n0 m =
    match n0 with
    | O -> true
    | S n' -> (match m with
               | O -> false
               | S m' -> leb n' m')

  (** val ltb : nat -> nat -> bool **)

  let ltb n0 m =
    leb (S n0) m
 end

(** val nth : nat -> 'a1 list -> 'a1 -> 'a1 **)

let rec nth n0 l default =
  match n0 with
  | O -> (match l with
          | [] -> default
          | x :: _ -> x)
  | S m -> (match l with
            | [] -> default
            | _ :: t -> nth m t default)

(** val nth_error : 'a1 list -> nat -> 'a1 option **)

let rec nth_error l = function
| O -> (match l with
        | [] -> None
        | x :: _ -> Some x)
| S n1 -> (match l with
           | [] -> None
           | _ :: l0 -> nth_error l0 n1)

(** val rev : 'a1 list -> 'a1 list **)

let rec rev = function
| [] -> []
| x :: l' -> app (rev l') (x :: [])

(** val map : ('a1 -> 'a2) -> 'a1 list -> 'a2 list **)

let rec map f = function
| [] -> []
| a :: t -> (f a) :: (map f t)

(** val flat_map : ('a1 -> 'a2 list) -> 'a1 list -> 'a2 list **)

let rec flat_map f = function
| [] -> []
| x :: t -> app (f x) (flat_map f t)

(** val forallb : ('a1 -> bool) -> 'a1 list -> bool **)

let rec forallb f = function
| [] -> true
| a :: l0 -> (&&) (f a) (forallb f l0)

(** val firstn : nat -> 'a1 list -> 'a1 list **)

let rec firstn n0 l =
  match n0 with
  | O -> []
  | S n1 -> (match l with
             | [] -> []
             | a :: l0 -> a :: (firstn n1 l0))

(** val skipn : nat -> 'a1 list -> 'a1 list **)

let rec skipn n0 l =
  match n0 with
  | O -> l
  | S n1 -> (match l with
             | [] -> []
             | _ :: l0 -> skipn n1 l0)

(** val repeat : 'a1 -> nat -> 'a1 list **)

let rec repeat x = function
| O -> []
| S k -> x :: (repeat x k)

type positive =
| XI of positive
| XO of positive
| XH

type n =
| N0
| Npos of positive

type z =
| Z0
| Zpos of positive
| Zneg of positive

module Pos =
 struct
  type mask =
  | IsNul
  | IsPos of positive
  | IsNeg
 end

module Coq_Pos =
 struct
  (** val succ : positive -> positive **)

  let rec succ = function
  | XI p -> XO (succ p)
  | XO p -> XI p
  | XH -> XO XH

  (** val add : positive -> positive -> positive **)

  let rec add x y =
    match x with
    | XI p ->
      (match y with
       | XI q -> XO (add_carry p q)
       | XO q -> XI (add p q)
       | XH -> XO (succ p))
    | XO p ->
      (match y with
       | XI q -> XI (add p q)
       | XO q -> XO (add p q)
       | XH -> XI p)
    | XH -> (match y with
             | XI q -> XO (succ q)
             | XO q -> XI q
             | XH -> XO XH)

  (** val add_carry : positive -> positive -> positive **)

  and add_carry x y =
    match x with
    | XI p ->
      (match y with
       | XI q -> XI (add_carry p q)
       | XO q -> XO (add_carry p q)
       | XH -> XI (succ p))
    | XO p ->
      (match y with
       | XI q -> XO (add_carry p q)
       | XO q -> XI (add p q)
       | XH -> XO (succ p))
    | XH ->
      (match y with
       | XI q -> XI (succ q)
       | XO q -> XO (succ q)
       | XH -> XI XH)

  (** val pred_double : positive -> positive **)

  let rec pred_double = function
  | XI p -> XI (XO p)
  | XO p -> XI (pred_double p)
  | XH -> XH

  (** val pred_N : positive -> n **)

  let pred_N = function
  | XI p -> Npos (XO p)
  | XO p -> Npos (pred_double p)
  | XH -> N0

  type mask = Pos.mask =
  | IsNul
  | IsPos of positive
  | IsNeg

  (** val succ_double_mask : mask -> mask **)

  let succ_double_mask = function
  | IsNul -> IsPos XH
  | IsPos p -> IsPos (XI p)
  | IsNeg -> IsNeg

  (** val double_mask : mask -> mask **)

  let double_mask = function
  | IsPos p -> IsPos (XO p)
  | x0 -> x0

  (** val double_pred_mask : positive -> mask **)

  let double_pred_mask = function
  | XI p -> IsPos (XO (XO p))
  | XO p -> IsPos (XO (pred_double p))
  | XH -> IsNul

  (** val sub_mask : positive -> positive -> mask **)

  let rec sub_mask x y =
    match x with
    | XI p ->
      (match y with
       | XI q -> double_mask (sub_mask p q)
       | XO q -> succ_double_mask (sub_mask p q)
       | XH -> IsPos (XO p))
    | XO p ->
      (match y with
       | XI q -> succ_double_mask (sub_mask_carry p q)
       | XO q -> double_mask (sub_mask p q)
       | XH -> IsPos (pred_double p))
    | XH -> (match y with
             | XH -> IsNul
             | _ -> IsNeg)

  (** val sub_mask_carry : positive -> positive -> mask **)

  and sub_mask_carry x y =
    match x with
    | XI p ->
      (match y with
       | XI q -> succ_double_mask (sub_mask_carry p q)
       | XO q -> double_mask (sub_mask p q)
       | XH -> IsPos (pred_double p))
    | XO p ->
      (match y with
       | XI q -> double_mask (sub_mask_carry p q)
       | XO q -> succ_double_mask (sub_mask_carry p q)
       | XH -> double_pred_mask p)
    | XH -> IsNeg

  (** val mul : positive -> positive -> positive **)

  let rec mul x y =
    match x with
    | XI p -> add y (XO (mul p y))
    | XO p -> XO (mul p y)
    | XH -> y

  (** val iter : ('a1 -> 'a1) -> 'a1 -> positive -> 'a1 **)

  let rec iter f x = function
  | XI n' -> f (iter f (iter f x n') n')
  | XO n' -> iter f (iter f x n') n'
  | XH -> f x

  (** val pow : positive -> positive -> positive **)

  let pow x =
    iter (mul x) XH

  (** val compare_cont : comparison -> positive -> positive -> comparison **)

  let rec compare_cont r x y =
    match x with
    | XI p ->
      (match y with
       | XI q -> compare_cont r p q
       | XO q -> compare_cont Gt p q
       | XH -> Gt)
    | XO p ->
      (match y with
       | XI q -> compare_cont Lt p q
       | XO q -> compare_cont r p q
       | XH -> Gt)
    | XH -> (match y with
             | XH -> r
             | _ -> Lt)

  (** val compare : positive -> positive -> comparison **)

  let compare =
    compare_cont Eq

  (** val eqb : positive -> positive -> bool **)

  let rec eqb p q =
    match p with
    | XI p0 -> (match q with
                | XI q0 -> eqb p0 q0
                | _ -> false)
    | XO p0 -> (match q with
                | XO q0 -> eqb p0 q0
                | _ -> false)
    | XH -> (match q with
             | XH -> true
             | _ -> false)

  (** val coq_Nsucc_double : n -> n **)

  let coq_Nsucc_double = function
  | N0 -> Npos XH
  | Npos p -> Npos (XI p)

  (** val coq_Ndouble : n -> n **)

  let coq_Ndouble = function
  | N0 -> N0
  | Npos p -> Npos (XO p)

  (** val coq_lor : positive -> positive -> positive **)

  let rec coq_lor p q =
    match p with
    | XI p0 ->
      (match q with
       | XI q0 -> XI (coq_lor p0 q0)
       | XO q0 -> XI (coq_lor p0 q0)
       | XH -> p)
    | XO p0 ->
      (match q with
       | XI q0 -> XI (coq_lor p0 q0)
       | XO q0 -> XO (coq_lor p0 q0)
       | XH -> XI p0)
    | XH -> (match q with
             | XO q0 -> XI q0
             | _ -> q)

  (** val coq_land : positive -> positive -> n **)

  let rec coq_land p q =
    match p with
    | XI p0 ->
      (match q with
       | XI q0 -> coq_Nsucc_double (coq_land p0 q0)
       | XO q0 -> coq_Ndouble (coq_land p0 q0)
       | XH -> Npos XH)
    | XO p0 ->
      (match q with
       | XI q0 -> coq_Ndouble (coq_land p0 q0)
       | XO q0 -> coq_Ndouble (coq_land p0 q0)
       | XH -> N0)
    | XH -> (match q with
             | XO _ -> N0
             | _ -> Npos XH)

  (** val shiftl : positive -> n -> positive **)

  let shiftl p = function
  | N0 -> p
  | Npos n1 -> iter (fun x -> XO x) p n1

  (** val testbit : positive -> n -> bool **)

  let rec testbit p n0 =
    match p with
    | XI p0 -> (match n0 with
                | N0 -> true
                | Npos n1 -> testbit p0 (pred_N n1))
    | XO p0 -> (match n0 with
                | N0 -> false
                | Npos n1 -> testbit p0 (pred_N n1))
    | XH -> (match n0 with
             | N0 -> true
             | Npos _ -> false)

  (** val iter_op : ('a1 -> 'a1 -> 'a1) -> positive -> 'a1 -> 'a1 **)

  let rec iter_op op0 p a =
    match p with
    | XI p0 -> op0 a (iter_op op0 p0 (op0 a a))
    | XO p0 -> iter_op op0 p0 (op0 a a)
    | XH -> a

  (** val to_nat : positive -> nat **)

  let to_nat x =
    iter_op Coq__1.add x (S O)

  (** val of_succ_nat : nat -> positive **)

  let rec of_succ_nat = function
  | O -> XH
  | S x -> succ (of_succ_nat x)
 end

module N =
 struct
  (** val succ_double : n -> n **)

  let succ_double = function
  | N0 -> Npos XH
  | Npos p -> Npos (XI p)

  (** val double : n -> n **)

  let double = function
  | N0 -> N0
  | Npos p -> Npos (XO p)

  (** val add : n -> n -> n **)

  let add n0 m =
    match n0 with
    | N0 -> m
    | Npos p -> (match m with
                 | N0 -> n0
                 | Npos q -> Npos (Coq_Pos.add p q))

  (** val sub : n -> n -> n **)

  let sub n0 m =
    match n0 with
    | N0 -> N0
    | Npos n' ->
      (match m with
       | N0 -> n0
       | Npos m' ->
         (match Coq_Pos.sub_mask n' m' with
          | Coq_Pos.IsPos p -> Npos p
          | _ -> N0))

  (** val mul : n -> n -> n **)

  let mul n0 m =
    match n0 with
    | N0 -> N0
    | Npos p -> (match m with
                 | N0 -> N0
                 | Npos q -> Npos (Coq_Pos.mul p q))

  (** val compare : n -> n -> comparison **)

  let compare n0 m =
    match n0 with
    | N0 -> (match m with
             | N0 -> Eq
             | Npos _ -> Lt)
    | Npos n' -> (match m with
                  | N0 -> Gt
                  | Npos m' -> Coq_Pos.compare n' m')

  (** val eqb : n -> n -> bool **)

  let eqb n0 m =
    match n0 with
    | N0 -> (match m with
             | N0 -> true
             | Npos _ -> false)
    | Npos p -> (match m with
                 | N0 -> false
                 | Npos q -> Coq_Pos.eqb p q)

  (** val leb : n -> n -> bool **)

  let leb x y =
    match compare x y with
    | Gt -> false
    | _ -> true

  (** val ltb : n -> n -> bool **)

  let ltb x y =
    match compare x y with
    | Lt -> true
    | _ -> false

  (** val min : n -> n -> n **)

  let min n0 n' =
    match compare n0 n' with
    | Gt -> n'
    | _ -> n0

  (** val max : n -> n -> n **)

  let max n0 n' =
    match compare n0 n' with
    | Gt -> n0
    | _ -> n'

  (** val div2 : n -> n **)

  let div2 = function
  | N0 -> N0
  | Npos p0 -> (match p0 with
                | XI p -> Npos p
                | XO p -> Npos p
                | XH -> N0)

  (** val pow : n -> n -> n **)

  let pow n0 = function
  | N0 -> Npos XH
  | Npos p0 -> (match n0 with
                | N0 -> N0
                | Npos q -> Npos (Coq_Pos.pow q p0))

  (** val pos_div_eucl : positive -> n -> n * n **)

  let rec pos_div_eucl a b =
    match a with
    | XI a' ->
      let (q, r) = pos_div_eucl a' b in
      let r' = succ_double r in
      if leb b r' then ((succ_double q), (sub r' b)) else ((double q), r')
    | XO a' ->
      let (q, r) = pos_div_eucl a' b in
      let r' = double r in
      if leb b r' then ((succ_double q), (sub r' b)) else ((double q), r')
    | XH ->
      (match b with
       | N0 -> (N0, (Npos XH))
       | Npos p -> (match p with
                    | XH -> ((Npos XH), N0)
                    | _ -> (N0, (Npos XH))))

  (** val div_eucl : n -> n -> n * n **)

  let div_eucl a b =
    match a with
    | N0 -> (N0, N0)
    | Npos na -> (match b with
                  | N0 -> (N0, a)
                  | Npos _ -> pos_div_eucl na b)

  (** val div : n -> n -> n **)

  let div a b =
    fst (div_eucl a b)

  (** val modulo : n -> n -> n **)

  let modulo a b =
    snd (div_eucl a b)

  (** val coq_lor : n -> n -> n **)

  let coq_lor n0 m =
    match n0 with
    | N0 -> m
    | Npos p -> (match m with
                 | N0 -> n0
                 | Npos q -> Npos (Coq_Pos.coq_lor p q))

  (** val coq_land : n -> n -> n **)

  let coq_land n0 m =
    match n0 with
    | N0 -> N0
    | Npos p -> (match m with
                 | N0 -> N0
                 | Npos q -> Coq_Pos.coq_land p q)

  (** val shiftl : n -> n -> n **)

  let shiftl a n0 =
    match a with
    | N0 -> N0
    | Npos a0 -> Npos (Coq_Pos.shiftl a0 n0)

  (** val shiftr : n -> n -> n **)

  let shiftr a = function
  | N0 -> a
  | Npos p -> Coq_Pos.iter div2 a p

  (** val testbit : n -> n -> bool **)

  let testbit a n0 =
    match a with
    | N0 -> false
    | Npos p -> Coq_Pos.testbit p n0

  (** val to_nat : n -> nat **)

  let to_nat = function
  | N0 -> O
  | Npos p -> Coq_Pos.to_nat p

  (** val of_nat : nat -> n **)

  let of_nat = function
  | O -> N0
  | S n' -> Npos (Coq_Pos.of_succ_nat n')
 end

module Z =
 struct
  (** val compare : z -> z -> comparison **)

  let compare x y =
    match x with
    | Z0 -> (match y with
             | Z0 -> Eq
             | Zpos _ -> Lt
             | Zneg _ -> Gt)
    | Zpos x' -> (match y with
                  | Zpos y' -> Coq_Pos.compare x' y'
                  | _ -> Gt)
    | Zneg x' ->
      (match y with
       | Zneg y' -> compOpp (Coq_Pos.compare x' y')
       | _ -> Lt)

  (** val ltb : z -> z -> bool **)

  let ltb x y =
    match compare x y with
    | Lt -> true
    | _ -> false

  (** val eqb : z -> z -> bool **)

  let eqb x y =
    match x with
    | Z0 -> (match y with
             | Z0 -> true
             | _ -> false)
    | Zpos p -> (match y with
                 | Zpos q -> Coq_Pos.eqb p q
                 | _ -> false)
    | Zneg p -> (match y with
                 | Zneg q -> Coq_Pos.eqb p q
                 | _ -> false)

  (** val to_nat : z -> nat **)

  let to_nat = function
  | Zpos p -> Coq_Pos.to_nat p
  | _ -> O

  (** val to_N : z -> n **)

  let to_N = function
  | Zpos p -> Npos p
  | _ -> N0

  (** val of_nat : nat -> z **)

  let of_nat = function
  | O -> Z0
  | S n1 -> Zpos (Coq_Pos.of_succ_nat n1)

  (** val of_N : n -> z **)

  let of_N = function
  | N0 -> Z0
  | Npos p -> Zpos p
 end

type ('r, 't) setter = ('t -> 't) -> 'r -> 'r

(** val set :
    ('a1 -> 'a2) -> ('a1, 'a2) setter -> ('a2 -> 'a2) -> 'a1 -> 'a1 **)

let set _ setter0 =
  setter0

type byte = n

(** val sP : byte **)

let sP =
  Npos (XO (XO (XO (XO (XO XH)))))

(** val hT : byte **)

let hT =
  Npos (XI (XO (XO XH)))

(** val cR : byte **)

let cR =
  Npos (XI (XO (XI XH)))

(** val lF : byte **)

let lF =
  Npos (XO (XI (XO XH)))

(** val is_sp : byte -> bool **)

let is_sp c =
  (||) (N.eqb c sP) (N.eqb c hT)

(** val is_cr : byte -> bool **)

let is_cr c =
  N.eqb c cR

(** val is_lf : byte -> bool **)

let is_lf c =
  N.eqb c lF

(** val is_crlf : byte -> bool **)

let is_crlf c =
  (||) (is_cr c) (is_lf c)

(** val is_ws : byte -> bool **)

let is_ws c =
  (||) (is_sp c) (is_crlf c)

(** val is_digit : byte -> bool **)

let is_digit c =
  (&&) (N.leb (Npos (XO (XO (XO (XO (XI XH)))))) c)
    (N.leb c (Npos (XI (XO (XO (XI (XI XH)))))))

(** val digit_val : byte -> n **)

let digit_val c =
  N.sub c (Npos (XO (XO (XO (XO (XI XH))))))

(** val is_upper : byte -> bool **)

let is_upper c =
  (&&) (N.leb (Npos (XI (XO (XO (XO (XO (XO XH))))))) c)
    (N.leb c (Npos (XO (XI (XO (XI (XI (XO XH))))))))

(** val is_lower : byte -> bool **)

let is_lower c =
  (&&) (N.leb (Npos (XI (XO (XO (XO (XO (XI XH))))))) c)
    (N.leb c (Npos (XO (XI (XO (XI (XI (XI XH))))))))

(** val is_alpha : byte -> bool **)

let is_alpha c =
  (||) (is_upper c) (is_lower c)

(** val to_lower : byte -> byte **)

let to_lower c =
  if is_upper c then N.add c (Npos (XO (XO (XO (XO (XO XH)))))) else c

(** val eqb_bytes : byte list -> byte list -> bool **)

let rec eqb_bytes a b =
  match a with
  | [] -> (match b with
           | [] -> true
           | _ :: _ -> false)
  | x :: a' ->
    (match b with
     | [] -> false
     | y :: b' -> (&&) (N.eqb x y) (eqb_bytes a' b'))

(** val eqb_nocase : byte list -> byte list -> bool **)

let eqb_nocase a b =
  eqb_bytes (map to_lower a) (map to_lower b)

type err =
| EOk
| EEOH
| EEmpty
| EMore
| EMoreValues
| ENoCR
| EBadChar
| EParams
| EBad
| EValNotNumber
| EValTooLong
| EValBad
| ENumTooBig
| ETrunc
| ENoCLen
| EBug
| EConvBug
| ETooManyVals

(** val err_code : err -> n **)

let err_code = function
| EOk -> N0
| EEOH -> Npos XH
| EEmpty -> Npos (XO XH)
| EMore -> Npos (XI XH)
| EMoreValues -> Npos (XO (XO XH))
| ENoCR -> Npos (XI (XO XH))
| EBadChar -> Npos (XO (XI XH))
| EParams -> Npos (XI (XI XH))
| EBad -> Npos (XO (XO (XO XH)))
| EValNotNumber -> Npos (XI (XO (XO XH)))
| EValTooLong -> Npos (XO (XI (XO XH)))
| EValBad -> Npos (XI (XI (XO XH)))
| ENumTooBig -> Npos (XO (XO (XI XH)))
| ETrunc -> Npos (XI (XO (XI XH)))
| ENoCLen -> Npos (XO (XI (XI XH)))
| EBug -> Npos (XI (XI (XI XH)))
| EConvBug -> Npos (XO (XO (XO (XO XH))))
| ETooManyVals -> Npos (XI (XO (XO (XO XH))))

(** val err_eqb : err -> err -> bool **)

let err_eqb a b =
  N.eqb (err_code a) (err_code b)

type pf = { po : n; pl : n }

(** val pf0 : pf **)

let pf0 =
  { po = N0; pl = N0 }

(** val pf_end : pf -> n **)

let pf_end f =
  N.add f.po f.pl

(** val pf_empty : pf -> bool **)

let pf_empty f =
  N.eqb f.pl N0

(** val pf_set : n -> n -> pf option **)

let pf_set s e =
  if N.ltb e s then None else Some { po = s; pl = (N.sub e s) }

(** val pf_extend : pf -> n -> pf option **)

let pf_extend f e =
  if N.ltb e f.po then None else Some { po = f.po; pl = (N.sub e f.po) }

(** val to16 : n -> n **)

let to16 x =
  N.modulo x (Npos (XO (XO (XO (XO (XO (XO (XO (XO (XO (XO (XO (XO (XO (XO
    (XO (XO XH)))))))))))))))))

(** val pf_set16 : n -> n -> pf option **)

let pf_set16 s e =
  if N.ltb e s then None else Some { po = (to16 s); pl = (to16 (N.sub e s)) }

type 's res =
| Done of n * err * 's
| Panic
| Stuck

type 's ires =
| Next of nat * 's
| Ret of n * err * 's
| IPanic

(** val zpre : nat -> byte list -> byte list -> byte list **)

let zpre k pre rest =
  app (rev (firstn k rest)) pre

(** val zrest : nat -> byte list -> byte list **)

let zrest =
  skipn

(** val zinit : byte list -> n -> byte list * byte list **)

let zinit buf offs =
  ((rev (firstn (N.to_nat offs) buf)), (skipn (N.to_nat offs) buf))

(** val zslice : byte list -> byte list -> n -> n -> n -> byte list option **)

let zslice pre rest i a b =
  if (&&) (N.leb a b) (N.leb b (N.add i (N.of_nat (length rest))))
  then Some
         (app
           (rev
             (firstn (N.to_nat (N.sub (N.min b i) a))
               (skipn (N.to_nat (N.sub i (N.min b i))) pre)))
           (firstn (N.to_nat (N.sub b (N.max a i)))
             (skipn (N.to_nat (N.sub (N.max a i) i)) rest)))
  else None

(** val zget : byte list -> byte list -> n -> pf -> byte list option **)

let zget pre rest i f =
  zslice pre rest i f.po (pf_end f)

(** val zprev : byte list -> byte option **)

let zprev = function
| [] -> None
| c :: _ -> Some c

type lws =
| LOk of nat
| LEOH of nat * nat
| LMore of nat

(** val skipLWS_at : bool -> byte list -> nat -> lws **)

let rec skipLWS_at ie r k =
  match r with
  | [] -> LMore k
  | c :: r1 ->
    if is_sp c
    then skipLWS_at ie r1 (S k)
    else if is_cr c
         then (match r1 with
               | [] -> LMore k
               | d :: r2 ->
                 if is_lf d
                 then (match r2 with
                       | [] ->
                         if ie then LEOH ((add k (S (S O))), O) else LMore k
                       | e :: _ ->
                         if is_sp e
                         then skipLWS_at ie r2 (add k (S (S O)))
                         else LEOH (k, (S (S O))))
                 else if is_sp d
                      then skipLWS_at ie r1 (add k (S O))
                      else LEOH (k, (S O)))
         else if is_lf c
              then (match r1 with
                    | [] -> LMore k
                    | d :: _ ->
                      if is_sp d
                      then skipLWS_at ie r1 (add k (S O))
                      else LEOH (k, (S O)))
              else LOk k

(** val skipLWS : bool -> byte list -> lws **)

let skipLWS ie r =
  skipLWS_at ie r O

type crlf =
| COk of nat
| CMore
| CNoCR

(** val skipCRLF : byte list -> crlf **)

let skipCRLF = function
| [] -> CMore
| c :: l ->
  (match l with
   | [] -> if is_crlf c then CMore else CNoCR
   | d :: _ ->
     if is_cr c
     then if is_lf d then COk (S (S O)) else COk (S O)
     else if is_lf c then COk (S O) else CNoCR)

(** val span : (byte -> bool) -> byte list -> nat **)

let rec span p = function
| [] -> O
| c :: r1 -> if p c then S (span p r1) else O

(** val skipWS : byte list -> nat **)

let skipWS r =
  span is_sp r

(** val skipToken : byte list -> nat **)

let skipToken r =
  span (fun c -> negb (is_ws c)) r

(** val skipTokenDelim : byte -> byte list -> nat **)

let skipTokenDelim d r =
  span (fun c -> (&&) (negb (is_ws c)) (negb (N.eqb c d))) r

(** val skipLine : byte list -> nat * crlf **)

let skipLine r =
  let k = span (fun c -> negb (is_crlf c)) r in (k, (skipCRLF (skipn k r)))

(** val b2z : bool -> z **)

let b2z = function
| true -> Zpos XH
| false -> Z0

(** val n2z : n -> z **)

let n2z =
  Z.of_N

(** val obs_pf : pf -> z list **)

let obs_pf f =
  (n2z f.po) :: ((n2z f.pl) :: [])

(** val nnat : nat -> n **)

let nnat =
  N.of_nat

(** val testbit0 : n -> n -> bool **)

let testbit0 =
  N.testbit

(** val dOT : byte **)

let dOT =
  Npos (XO (XI (XI (XI (XO XH)))))

type ip4res = ((bool * n) * err) * n list

(** val ip4_loop : byte list -> n -> n list -> n -> n -> ip4res **)

let rec ip4_loop r o done0 cur digits =
  match r with
  | [] ->
    if (||) (Nat.ltb (length done0) (S (S (S O)))) (N.eqb digits N0)
    then (((false, o), EMore), [])
    else (((true, o), EOk), (rev (cur :: done0)))
  | c :: r' ->
    if is_digit c
    then if (||) (N.leb (Npos (XI XH)) digits)
              (N.ltb (Npos (XI (XI (XI (XI (XI (XI (XI XH))))))))
                (N.add (N.mul cur (Npos (XO (XI (XO XH))))) (digit_val c)))
         then if Nat.ltb (length done0) (S (S (S O)))
              then (((false, o), EBad), [])
              else (((true, o), EMoreValues), (rev (cur :: done0)))
         else ip4_loop r' (N.add o (Npos XH)) done0
                (N.add (N.mul cur (Npos (XO (XI (XO XH))))) (digit_val c))
                (N.add digits (Npos XH))
    else if N.eqb c dOT
         then if N.eqb digits N0
              then (((false, o), EBad), [])
              else if Nat.leb (S (S (S O))) (length done0)
                   then (((true, o), EBadChar), (rev (cur :: done0)))
                   else ip4_loop r' (N.add o (Npos XH)) (cur :: done0) N0 N0
         else if (||) (Nat.ltb (length done0) (S (S (S O)))) (N.eqb digits N0)
              then (((false, o), EBad), [])
              else (((true, o), EBadChar), (rev (cur :: done0)))

(** val ip4_prefix : byte list -> ip4res **)

let ip4_prefix buf =
  ip4_loop buf N0 [] N0 N0

(** val ip4_try : byte list -> nat -> nat -> ((nat * n) * n list) option **)

let rec ip4_try buf o = function
| O -> None
| S cnt' ->
  let (p, ip) = ip4_prefix (skipn o buf) in
  let (p0, _) = p in
  let (b, nxt) = p0 in
  if b then Some ((o, nxt), ip) else ip4_try buf (S o) cnt'

(** val cip4_loop :
    byte list -> byte list -> nat -> nat -> ((nat * n) * n list) option **)

let rec cip4_loop buf r j i =
  match r with
  | [] -> None
  | c :: r' ->
    if N.eqb c dOT
    then let offs = if Nat.leb (S (S (S O))) j then sub j (S (S (S O))) else i
         in
         (match ip4_try buf offs (sub j offs) with
          | Some x -> Some x
          | None -> cip4_loop buf r' (S j) (S j))
    else cip4_loop buf r' (S j) i

(** val contains_ip4 : byte list -> ((bool * n) * n) * n list **)

let contains_ip4 buf =
  match cip4_loop buf buf O O with
  | Some p ->
    let (p0, ip) = p in let (o, nxt) = p0 in (((true, (N.of_nat o)), nxt), ip)
  | None -> (((false, N0), N0), [])

(** val obs_ip4p : ip4res -> z list **)

let obs_ip4p = function
| (p, ip) ->
  let (p0, e) = p in
  let (ok, o) = p0 in
  app ((b2z ok) :: ((n2z o) :: ((n2z (err_code e)) :: []))) (map n2z ip)

(** val obs_ip4c : (((bool * n) * n) * n list) -> z list **)

let obs_ip4c = function
| (p, ip) ->
  let (p0, l) = p in
  let (ok, o) = p0 in
  app ((b2z ok) :: ((n2z o) :: ((n2z l) :: []))) (map n2z ip)

(** val callid_ip4_flag : byte list -> n **)

let callid_ip4_flag cid =
  let (p, _) = contains_ip4 cid in
  let (p0, l) = p in
  let (b, o) = p0 in
  if b
  then if N.eqb o N0
       then Npos XH
       else if N.eqb (N.add o l) (N.of_nat (length cid))
            then Npos (XO XH)
            else Npos (XO (XO XH))
  else N0

(** val run :
    (byte list -> byte list -> n -> 'a1 -> 'a1 ires) -> byte list -> byte
    list -> n -> nat -> 'a1 -> 'a1 res **)

let rec run iter0 pre rest i skip s =
  match skip with
  | O ->
    (match iter0 pre rest i s with
     | Next (k, s') ->
       (match k with
        | O -> Stuck
        | S k' ->
          (match rest with
           | [] -> Stuck
           | c :: r' -> run iter0 (c :: pre) r' (N.add i (Npos XH)) k' s'))
     | Ret (o, e, s') -> Done (o, e, s')
     | IPanic -> Panic)
  | S k' ->
    (match rest with
     | [] -> Stuck
     | c :: r' -> run iter0 (c :: pre) r' (N.add i (Npos XH)) k' s)

(** val parse :
    (byte list -> byte list -> n -> 'a1 -> 'a1 ires) -> byte list -> n -> 'a1
    -> 'a1 res **)

let parse iter0 buf offs s =
  let (pre, rest) = zinit buf offs in run iter0 pre rest offs O s

(** val hdrNone : n **)

let hdrNone =
  N0

(** val hdrFrom : n **)

let hdrFrom =
  Npos XH

(** val hdrTo : n **)

let hdrTo =
  Npos (XO XH)

(** val hdrCallID : n **)

let hdrCallID =
  Npos (XI XH)

(** val hdrCSeq : n **)

let hdrCSeq =
  Npos (XO (XO XH))

(** val hdrVia : n **)

let hdrVia =
  Npos (XI (XO XH))

(** val hdrCLen : n **)

let hdrCLen =
  Npos (XI (XI XH))

(** val hdrContact : n **)

let hdrContact =
  Npos (XO (XO (XO XH)))

(** val hdrExpires : n **)

let hdrExpires =
  Npos (XI (XO (XO XH)))

(** val hdrRecordRoute : n **)

let hdrRecordRoute =
  Npos (XI (XI (XO XH)))

(** val hdrRoute : n **)

let hdrRoute =
  Npos (XO (XO (XI XH)))

(** val hdrPAI : n **)

let hdrPAI =
  Npos (XI (XO (XI XH)))

(** val hdrOther : n **)

let hdrOther =
  Npos (XO (XI (XI XH)))

(** val mUndef : n **)

let mUndef =
  N0

(** val mInvite : n **)

let mInvite =
  Npos (XO XH)

(** val mOther : n **)

let mOther =
  Npos (XI (XI (XI XH)))

(** val bPOptTokCommaTerm : n **)

let bPOptTokCommaTerm =
  N0

(** val bPOptTokQmTerm : n **)

let bPOptTokQmTerm =
  Npos XH

(** val bPOptTokSpTerm : n **)

let bPOptTokSpTerm =
  Npos (XO XH)

(** val bPOptInputEnd : n **)

let bPOptInputEnd =
  Npos (XI XH)

(** val bPOptParamSemiSep : n **)

let bPOptParamSemiSep =
  Npos (XO (XO XH))

(** val bPOptParamAmpSep : n **)

let bPOptParamAmpSep =
  Npos (XI (XO XH))

(** val bPOptTokURIParam : n **)

let bPOptTokURIParam =
  Npos (XO (XI XH))

(** val bPOptTokURIHdr : n **)

let bPOptTokURIHdr =
  Npos (XI (XI XH))

(** val bSIPMsgSkipBody : n **)

let bSIPMsgSkipBody =
  N0

(** val bSIPMsgCLenReq : n **)

let bSIPMsgCLenReq =
  Npos XH

(** val bSIPMsgNoMoreData : n **)

let bSIPMsgNoMoreData =
  Npos (XO XH)

(** val maxCSeqNValueSize : n **)

let maxCSeqNValueSize =
  Npos (XO (XI (XO XH)))

(** val maxCSeqNValue : n **)

let maxCSeqNValue =
  Npos (XI (XI (XI (XI (XI (XI (XI (XI (XI (XI (XI (XI (XI (XI (XI (XI (XI
    (XI (XI (XI (XI (XI (XI (XI (XI (XI (XI (XI (XI (XI (XI
    XH)))))))))))))))))))))))))))))))

(** val maxCLenValueSize : n **)

let maxCLenValueSize =
  Npos (XI (XO (XO XH)))

(** val maxClenValue : n **)

let maxClenValue =
  Npos (XO (XO (XO (XO (XO (XO (XO (XO (XO (XO (XO (XO (XO (XO (XO (XO (XO
    (XO (XO (XO (XO (XO (XO (XO XH))))))))))))))))))))))))

(** val maxU32 : n **)

let maxU32 =
  Npos (XI (XI (XI (XI (XI (XI (XI (XI (XI (XI (XI (XI (XI (XI (XI (XI (XI
    (XI (XI (XI (XI (XI (XI (XI (XI (XI (XI (XI (XI (XI (XI
    XH)))))))))))))))))))))))))))))))

(** val maxU64 : n **)

let maxU64 =
  Npos (XI (XI (XI (XI (XI (XI (XI (XI (XI (XI (XI (XI (XI (XI (XI (XI (XI
    (XI (XI (XI (XI (XI (XI (XI (XI (XI (XI (XI (XI (XI (XI (XI (XI (XI (XI
    (XI (XI (XI (XI (XI (XI (XI (XI (XI (XI (XI (XI (XI (XI (XI (XI (XI (XI
    (XI (XI (XI (XI (XI (XI (XI (XI (XI (XI
    XH)))))))))))))))))))))))))))))))))))))))))))))))))))))))))))))))

(** val noURIErr : n **)

let noURIErr =
  N0

(** val errURIBadChar : n **)

let errURIBadChar =
  Npos XH

(** val errURIScheme : n **)

let errURIScheme =
  Npos (XO XH)

(** val errURIHost : n **)

let errURIHost =
  Npos (XI XH)

(** val errURIPort : n **)

let errURIPort =
  Npos (XO (XO XH))

(** val errURIHeaders : n **)

let errURIHeaders =
  Npos (XI (XO XH))

(** val errURITooShort : n **)

let errURITooShort =
  Npos (XO (XI XH))

(** val errURIBad : n **)

let errURIBad =
  Npos (XI (XI XH))

(** val iNVALIDuri : n **)

let iNVALIDuri =
  N0

(** val sIPuri : n **)

let sIPuri =
  Npos XH

(** val sIPSuri : n **)

let sIPSuri =
  Npos (XO XH)

(** val tELuri : n **)

let tELuri =
  Npos (XI XH)

(** val bURICmpSkipPort : n **)

let bURICmpSkipPort =
  N0

(** val bURICmpSkipScheme : n **)

let bURICmpSkipScheme =
  Npos XH

(** val bURICmpSkipUser : n **)

let bURICmpSkipUser =
  Npos (XO XH)

(** val bURICmpSkipPass : n **)

let bURICmpSkipPass =
  Npos (XI XH)

(** val bURICmpSkipParams : n **)

let bURICmpSkipParams =
  Npos (XO (XO XH))

(** val bURICmpSkipHeaders : n **)

let bURICmpSkipHeaders =
  Npos (XI (XO XH))

(** val uRIParamNone : n **)

let uRIParamNone =
  N0

(** val uRIParamTransportF : n **)

let uRIParamTransportF =
  Npos XH

(** val uRIParamUserF : n **)

let uRIParamUserF =
  Npos (XO XH)

(** val uRIParamMethodF : n **)

let uRIParamMethodF =
  Npos (XO (XO XH))

(** val uRIParamTTLF : n **)

let uRIParamTTLF =
  Npos (XO (XO (XO XH)))

(** val uRIParamMaddrF : n **)

let uRIParamMaddrF =
  Npos (XO (XO (XO (XO XH))))

(** val uRIParamLRF : n **)

let uRIParamLRF =
  Npos (XO (XO (XO (XO (XO XH)))))

(** val uRIParamOtherF : n **)

let uRIParamOtherF =
  Npos (XO (XO (XO (XO (XO (XO XH))))))

(** val defaultHdrs : nat **)

let defaultHdrs =
  S (S (S (S (S (S (S (S (S (S O)))))))))

(** val defaultContacts : nat **)

let defaultContacts =
  S (S (S (S (S (S (S (S (S (S O)))))))))

(** val paiVals : nat **)

let paiVals =
  S (S O)

(** val sq_iter : byte list -> byte list -> n -> unit -> unit ires **)

let sq_iter _ rest i s =
  match rest with
  | [] -> Ret (i, EMore, s)
  | c :: r1 ->
    if N.eqb c (Npos (XO (XI (XO (XO (XO XH))))))
    then Ret ((N.add i (Npos XH)), EOk, s)
    else if N.eqb c (Npos (XO (XO (XI (XI (XI (XO XH)))))))
         then (match r1 with
               | [] -> Ret (i, EMore, s)
               | d :: _ ->
                 if is_crlf d
                 then Ret ((N.add i (Npos XH)), EBadChar, s)
                 else Next ((S (S O)), s))
         else if (||) (is_crlf c)
                   (N.eqb c (Npos (XI (XI (XI (XI (XI (XI XH))))))))
              then Ret (i, EBadChar, s)
              else if (&&) (N.ltb c (Npos (XI (XO (XO (XO (XO XH)))))))
                        (negb (is_sp c))
                   then Ret (i, EBadChar, s)
                   else Next ((S O), s)

(** val skip_quoted : byte list -> n -> unit res **)

let skip_quoted buf offs =
  parse sq_iter buf offs ()

(** val tok_allowed : bool -> byte -> bool **)

let tok_allowed uriparam1 c =
  if (||) (N.leb c (Npos (XO (XO (XO (XO (XO XH)))))))
       (N.leb (Npos (XI (XI (XI (XI (XI (XI XH))))))) c)
  then false
  else if (||) (is_digit c) (is_alpha c)
       then true
       else if (||)
                 ((||)
                   ((||)
                     ((||)
                       ((||)
                         ((||)
                           ((||)
                             ((||)
                               ((||)
                                 (N.eqb c (Npos (XI (XO (XI (XI (XO XH)))))))
                                 (N.eqb c (Npos (XI (XI (XI (XI (XI (XO
                                   XH)))))))))
                               (N.eqb c (Npos (XO (XI (XI (XI (XO XH))))))))
                             (N.eqb c (Npos (XI (XO (XO (XO (XO XH))))))))
                           (N.eqb c (Npos (XO (XI (XI (XI (XI (XI XH)))))))))
                         (N.eqb c (Npos (XO (XI (XO (XI (XO XH))))))))
                       (N.eqb c (Npos (XI (XI (XI (XO (XO XH))))))))
                     (N.eqb c (Npos (XO (XO (XO (XI (XO XH))))))))
                   (N.eqb c (Npos (XI (XO (XO (XI (XO XH))))))))
                 (N.eqb c (Npos (XI (XO (XI (XO (XO XH)))))))
            then true
            else if (||)
                      ((||)
                        ((||)
                          ((||)
                            ((||)
                              (N.eqb c (Npos (XI (XI (XO (XI (XI (XO
                                XH))))))))
                              (N.eqb c (Npos (XI (XO (XI (XI (XI (XO
                                XH)))))))))
                            (N.eqb c (Npos (XI (XI (XI (XI (XO XH))))))))
                          (N.eqb c (Npos (XO (XI (XO (XI (XI XH))))))))
                        (N.eqb c (Npos (XI (XI (XO (XI (XO XH))))))))
                      (N.eqb c (Npos (XO (XO (XI (XO (XO XH)))))))
                 then true
                 else if N.eqb c (Npos (XO (XI (XI (XO (XO XH))))))
                      then uriparam1
                      else if N.eqb c (Npos (XI (XI (XI (XI (XI XH))))))
                           then negb uriparam1
                           else false

type tpst =
| PInit
| PName
| PFEq
| PFVal
| PVal
| PFSep
| PFNxt
| PInitNxtVal
| PQuotedVal
| PERR
| PFIN

type tokparam = { tp_all : pf; tp_name : pf; tp_val : pf; tp_state : tpst }

(** val tokparam0 : tokparam **)

let tokparam0 =
  { tp_all = pf0; tp_name = pf0; tp_val = pf0; tp_state = PInit }

(** val tp_empty : tokparam -> bool **)

let tp_empty s =
  pf_empty s.tp_all

type tpflags = { tf_sep : byte; tf_term : byte; tf_spterm : bool;
                 tf_ie : bool; tf_uriparam : bool }

(** val tp_decode : n -> tpflags **)

let tp_decode flags =
  let t = testbit0 flags in
  { tf_sep =
  (if (||) (t bPOptParamAmpSep) (t bPOptTokURIHdr)
   then Npos (XO (XI (XI (XO (XO XH)))))
   else Npos (XI (XI (XO (XI (XI XH)))))); tf_term =
  (if (||) (t bPOptTokQmTerm) (t bPOptTokURIParam)
   then Npos (XI (XI (XI (XI (XI XH)))))
   else if t bPOptTokCommaTerm then Npos (XO (XO (XI (XI (XO XH))))) else N0);
  tf_spterm = (t bPOptTokSpTerm); tf_ie = (t bPOptInputEnd); tf_uriparam =
  (t bPOptTokURIParam) }

(** val tp_endOfHdr : n -> tokparam -> tokparam ires **)

let tp_endOfHdr ret s =
  match s.tp_state with
  | PInit -> Ret (ret, EEOH, s)
  | PInitNxtVal -> Ret (ret, EEOH, s)
  | PQuotedVal ->
    Ret (ret, EBug,
      (set (fun t -> t.tp_state) (fun f ->
        let t = fun r -> f r.tp_state in
        (fun x -> { tp_all = x.tp_all; tp_name = x.tp_name; tp_val =
        x.tp_val; tp_state = (t x) })) (fun _ -> PERR) s))
  | PERR ->
    Ret (ret, EBug,
      (set (fun t -> t.tp_state) (fun f ->
        let t = fun r -> f r.tp_state in
        (fun x -> { tp_all = x.tp_all; tp_name = x.tp_name; tp_val =
        x.tp_val; tp_state = (t x) })) (fun _ -> PERR) s))
  | PFIN ->
    Ret (ret, EBug,
      (set (fun t -> t.tp_state) (fun f ->
        let t = fun r -> f r.tp_state in
        (fun x -> { tp_all = x.tp_all; tp_name = x.tp_name; tp_val =
        x.tp_val; tp_state = (t x) })) (fun _ -> PERR) s))
  | _ ->
    Ret (ret, EEOH,
      (set (fun t -> t.tp_state) (fun f ->
        let t = fun r -> f r.tp_state in
        (fun x -> { tp_all = x.tp_all; tp_name = x.tp_name; tp_val =
        x.tp_val; tp_state = (t x) })) (fun _ -> PFIN) s))

(** val tp_moreBytes : tpflags -> n -> n -> tokparam -> tokparam ires **)

let tp_moreBytes f j bend s =
  if f.tf_ie
  then (match s.tp_state with
        | PName ->
          (match pf_extend s.tp_name j with
           | Some n0 ->
             (match pf_extend s.tp_all j with
              | Some a ->
                tp_endOfHdr bend
                  (set (fun t -> t.tp_all) (fun f0 ->
                    let p = fun r -> f0 r.tp_all in
                    (fun x -> { tp_all = (p x); tp_name = x.tp_name; tp_val =
                    x.tp_val; tp_state = x.tp_state })) (fun _ -> a)
                    (set (fun t -> t.tp_name) (fun f0 ->
                      let p = fun r -> f0 r.tp_name in
                      (fun x -> { tp_all = x.tp_all; tp_name = (p x);
                      tp_val = x.tp_val; tp_state = x.tp_state })) (fun _ ->
                      n0) s))
              | None -> IPanic)
           | None -> IPanic)
        | PVal ->
          (match pf_extend s.tp_val j with
           | Some v ->
             (match pf_extend s.tp_all j with
              | Some a ->
                tp_endOfHdr bend
                  (set (fun t -> t.tp_all) (fun f0 ->
                    let p = fun r -> f0 r.tp_all in
                    (fun x -> { tp_all = (p x); tp_name = x.tp_name; tp_val =
                    x.tp_val; tp_state = x.tp_state })) (fun _ -> a)
                    (set (fun t -> t.tp_val) (fun f0 ->
                      let p = fun r -> f0 r.tp_val in
                      (fun x -> { tp_all = x.tp_all; tp_name = x.tp_name;
                      tp_val = (p x); tp_state = x.tp_state })) (fun _ -> v)
                      s))
              | None -> IPanic)
           | None -> IPanic)
        | PQuotedVal -> Ret (j, EMore, s)
        | PERR -> Ret (j, EBug, s)
        | PFIN -> Ret (j, EBug, s)
        | _ -> tp_endOfHdr bend s)
  else Ret (j, EMore, s)

(** val tp_ws :
    tpflags -> byte list -> n -> tokparam -> tokparam option -> tokparam ires **)

let tp_ws f rest i s upd =
  match skipLWS f.tf_ie rest with
  | LOk k -> (match upd with
              | Some s1 -> Next (k, s1)
              | None -> IPanic)
  | LEOH (k, crl) ->
    (match upd with
     | Some s1 -> tp_endOfHdr (N.add (N.add i (nnat k)) (nnat crl)) s1
     | None -> IPanic)
  | LMore _ -> tp_moreBytes f i (N.add i (nnat (length rest))) s

(** val tp_spterm_ret : byte list -> n -> tokparam -> tokparam ires **)

let tp_spterm_ret pre i s =
  let s0 =
    set (fun t -> t.tp_state) (fun f ->
      let t = fun r -> f r.tp_state in
      (fun x -> { tp_all = x.tp_all; tp_name = x.tp_name; tp_val = x.tp_val;
      tp_state = (t x) })) (fun _ -> PFIN) s
  in
  (match zprev pre with
   | Some p ->
     if is_ws p then Ret ((N.sub i (Npos XH)), EOk, s0) else Ret (i, EOk, s0)
   | None -> Ret (i, EOk, s0))

(** val tp_bad : n -> tokparam -> tokparam ires **)

let tp_bad i s =
  Ret (i, EBadChar,
    (set (fun t -> t.tp_state) (fun f ->
      let t = fun r -> f r.tp_state in
      (fun x -> { tp_all = x.tp_all; tp_name = x.tp_name; tp_val = x.tp_val;
      tp_state = (t x) })) (fun _ -> PERR) s))

(** val is_tp_fnxt : tpst -> bool **)

let is_tp_fnxt = function
| PFNxt -> true
| _ -> false

(** val ext2 : pf -> pf -> n -> n -> (pf * pf) option **)

let ext2 a b e1 e2 =
  match pf_extend a e1 with
  | Some x -> (match pf_extend b e2 with
               | Some y -> Some (x, y)
               | None -> None)
  | None -> None

(** val tp_sInit :
    tpflags -> byte list -> n -> tokparam -> byte -> tpst -> tokparam ires **)

let tp_sInit f rest i s c =
  let is_sep = N.eqb c f.tf_sep in
  let allowed = tok_allowed f.tf_uriparam c in
  (fun st ->
  if is_ws c
  then tp_ws f rest i s (Some s)
  else if is_sep
       then Next ((S O), s)
       else if negb allowed
            then tp_bad i s
            else if is_tp_fnxt st
                 then Ret (i, EMoreValues,
                        (set (fun t -> t.tp_state) (fun f0 ->
                          let t = fun r -> f0 r.tp_state in
                          (fun x -> { tp_all = x.tp_all; tp_name = x.tp_name;
                          tp_val = x.tp_val; tp_state = (t x) })) (fun _ ->
                          PInitNxtVal) s))
                 else (match pf_set i i with
                       | Some n0 ->
                         Next ((S O),
                           (set (fun t -> t.tp_all) (fun f0 ->
                             let p = fun r -> f0 r.tp_all in
                             (fun x -> { tp_all = (p x); tp_name = x.tp_name;
                             tp_val = x.tp_val; tp_state = x.tp_state }))
                             (fun _ -> n0)
                             (set (fun t -> t.tp_name) (fun f0 ->
                               let p = fun r -> f0 r.tp_name in
                               (fun x -> { tp_all = x.tp_all; tp_name =
                               (p x); tp_val = x.tp_val; tp_state =
                               x.tp_state })) (fun _ -> n0)
                               (set (fun t -> t.tp_state) (fun f0 ->
                                 let t = fun r -> f0 r.tp_state in
                                 (fun x -> { tp_all = x.tp_all; tp_name =
                                 x.tp_name; tp_val = x.tp_val; tp_state =
                                 (t x) })) (fun _ -> PName) s))))
                       | None -> IPanic))

(** val tp_sName :
    tpflags -> byte list -> n -> tokparam -> byte -> tokparam ires **)

let tp_sName f rest i s c =
  let is_term = (&&) (N.eqb c f.tf_term) (negb (N.eqb f.tf_term N0)) in
  let is_sep = N.eqb c f.tf_sep in
  let allowed = tok_allowed f.tf_uriparam c in
  if is_ws c
  then tp_ws f rest i s
         (match ext2 s.tp_name s.tp_all i i with
          | Some p ->
            let (n0, a) = p in
            Some
            (set (fun t -> t.tp_all) (fun f0 ->
              let p0 = fun r -> f0 r.tp_all in
              (fun x -> { tp_all = (p0 x); tp_name = x.tp_name; tp_val =
              x.tp_val; tp_state = x.tp_state })) (fun _ -> a)
              (set (fun t -> t.tp_name) (fun f0 ->
                let p0 = fun r -> f0 r.tp_name in
                (fun x -> { tp_all = x.tp_all; tp_name = (p0 x); tp_val =
                x.tp_val; tp_state = x.tp_state })) (fun _ -> n0)
                (set (fun t -> t.tp_state) (fun f0 ->
                  let t = fun r -> f0 r.tp_state in
                  (fun x -> { tp_all = x.tp_all; tp_name = x.tp_name;
                  tp_val = x.tp_val; tp_state = (t x) })) (fun _ -> PFEq) s)))
          | None -> None)
  else if N.eqb c (Npos (XI (XO (XI (XI (XI XH))))))
       then (match ext2 s.tp_name s.tp_all i (N.add i (Npos XH)) with
             | Some p ->
               let (n0, a) = p in
               Next ((S O),
               (set (fun t -> t.tp_state) (fun f0 ->
                 let t = fun r -> f0 r.tp_state in
                 (fun x -> { tp_all = x.tp_all; tp_name = x.tp_name; tp_val =
                 x.tp_val; tp_state = (t x) })) (fun _ -> PFVal)
                 (set (fun t -> t.tp_all) (fun f0 ->
                   let p0 = fun r -> f0 r.tp_all in
                   (fun x -> { tp_all = (p0 x); tp_name = x.tp_name; tp_val =
                   x.tp_val; tp_state = x.tp_state })) (fun _ -> a)
                   (set (fun t -> t.tp_name) (fun f0 ->
                     let p0 = fun r -> f0 r.tp_name in
                     (fun x -> { tp_all = x.tp_all; tp_name = (p0 x);
                     tp_val = x.tp_val; tp_state = x.tp_state })) (fun _ ->
                     n0) s))))
             | None -> IPanic)
       else if is_term
            then (match ext2 s.tp_name s.tp_all i i with
                  | Some p ->
                    let (n0, a) = p in
                    Ret (i, EOk,
                    (set (fun t -> t.tp_state) (fun f0 ->
                      let t = fun r -> f0 r.tp_state in
                      (fun x -> { tp_all = x.tp_all; tp_name = x.tp_name;
                      tp_val = x.tp_val; tp_state = (t x) })) (fun _ -> PFIN)
                      (set (fun t -> t.tp_all) (fun f0 ->
                        let p0 = fun r -> f0 r.tp_all in
                        (fun x -> { tp_all = (p0 x); tp_name = x.tp_name;
                        tp_val = x.tp_val; tp_state = x.tp_state }))
                        (fun _ -> a)
                        (set (fun t -> t.tp_name) (fun f0 ->
                          let p0 = fun r -> f0 r.tp_name in
                          (fun x -> { tp_all = x.tp_all; tp_name = (p0 x);
                          tp_val = x.tp_val; tp_state = x.tp_state }))
                          (fun _ -> n0) s))))
                  | None -> IPanic)
            else if is_sep
                 then (match ext2 s.tp_name s.tp_all i i with
                       | Some p ->
                         let (n0, a) = p in
                         Next ((S O),
                         (set (fun t -> t.tp_state) (fun f0 ->
                           let t = fun r -> f0 r.tp_state in
                           (fun x -> { tp_all = x.tp_all; tp_name =
                           x.tp_name; tp_val = x.tp_val; tp_state = (t x) }))
                           (fun _ -> PFNxt)
                           (set (fun t -> t.tp_all) (fun f0 ->
                             let p0 = fun r -> f0 r.tp_all in
                             (fun x -> { tp_all = (p0 x); tp_name =
                             x.tp_name; tp_val = x.tp_val; tp_state =
                             x.tp_state })) (fun _ -> a)
                             (set (fun t -> t.tp_name) (fun f0 ->
                               let p0 = fun r -> f0 r.tp_name in
                               (fun x -> { tp_all = x.tp_all; tp_name =
                               (p0 x); tp_val = x.tp_val; tp_state =
                               x.tp_state })) (fun _ -> n0) s))))
                       | None -> IPanic)
                 else if negb allowed then tp_bad i s else Next ((S O), s)

(** val tp_sFEq :
    tpflags -> byte list -> byte list -> n -> tokparam -> byte -> tokparam
    ires **)

let tp_sFEq f pre rest i s c =
  let is_term = (&&) (N.eqb c f.tf_term) (negb (N.eqb f.tf_term N0)) in
  let is_sep = N.eqb c f.tf_sep in
  let allowed = tok_allowed f.tf_uriparam c in
  if is_ws c
  then tp_ws f rest i s (Some s)
  else if N.eqb c (Npos (XI (XO (XI (XI (XI XH))))))
       then Next ((S O),
              (set (fun t -> t.tp_state) (fun f0 ->
                let t = fun r -> f0 r.tp_state in
                (fun x -> { tp_all = x.tp_all; tp_name = x.tp_name; tp_val =
                x.tp_val; tp_state = (t x) })) (fun _ -> PFVal) s))
       else if is_term
            then Ret (i, EOk,
                   (set (fun t -> t.tp_state) (fun f0 ->
                     let t = fun r -> f0 r.tp_state in
                     (fun x -> { tp_all = x.tp_all; tp_name = x.tp_name;
                     tp_val = x.tp_val; tp_state = (t x) })) (fun _ -> PFIN)
                     s))
            else if is_sep
                 then Next ((S O),
                        (set (fun t -> t.tp_state) (fun f0 ->
                          let t = fun r -> f0 r.tp_state in
                          (fun x -> { tp_all = x.tp_all; tp_name = x.tp_name;
                          tp_val = x.tp_val; tp_state = (t x) })) (fun _ ->
                          PFNxt) s))
                 else if negb allowed
                      then tp_bad i s
                      else if f.tf_spterm
                           then tp_spterm_ret pre i s
                           else tp_bad i s

(** val tp_sFVal :
    tpflags -> byte list -> n -> tokparam -> byte -> tokparam ires **)

let tp_sFVal f rest i s c =
  let is_term = (&&) (N.eqb c f.tf_term) (negb (N.eqb f.tf_term N0)) in
  let is_sep = N.eqb c f.tf_sep in
  let allowed = tok_allowed f.tf_uriparam c in
  if is_ws c
  then tp_ws f rest i s (Some s)
  else if N.eqb c (Npos (XO (XI (XO (XO (XO XH))))))
       then (match pf_set i i with
             | Some v ->
               (match pf_extend s.tp_all i with
                | Some a ->
                  Next ((S O),
                    (set (fun t -> t.tp_state) (fun f0 ->
                      let t = fun r -> f0 r.tp_state in
                      (fun x -> { tp_all = x.tp_all; tp_name = x.tp_name;
                      tp_val = x.tp_val; tp_state = (t x) })) (fun _ ->
                      PQuotedVal)
                      (set (fun t -> t.tp_all) (fun f0 ->
                        let p = fun r -> f0 r.tp_all in
                        (fun x -> { tp_all = (p x); tp_name = x.tp_name;
                        tp_val = x.tp_val; tp_state = x.tp_state }))
                        (fun _ -> a)
                        (set (fun t -> t.tp_val) (fun f0 ->
                          let p = fun r -> f0 r.tp_val in
                          (fun x -> { tp_all = x.tp_all; tp_name = x.tp_name;
                          tp_val = (p x); tp_state = x.tp_state })) (fun _ ->
                          v) s))))
                | None -> IPanic)
             | None -> IPanic)
       else if is_term
            then (match pf_set i i with
                  | Some v ->
                    Ret (i, EOk,
                      (set (fun t -> t.tp_state) (fun f0 ->
                        let t = fun r -> f0 r.tp_state in
                        (fun x -> { tp_all = x.tp_all; tp_name = x.tp_name;
                        tp_val = x.tp_val; tp_state = (t x) })) (fun _ ->
                        PFIN)
                        (set (fun t -> t.tp_val) (fun f0 ->
                          let p = fun r -> f0 r.tp_val in
                          (fun x -> { tp_all = x.tp_all; tp_name = x.tp_name;
                          tp_val = (p x); tp_state = x.tp_state })) (fun _ ->
                          v) s)))
                  | None -> IPanic)
            else if is_sep
                 then (match pf_set i i with
                       | Some v ->
                         (match pf_extend s.tp_all i with
                          | Some a ->
                            Next ((S O),
                              (set (fun t -> t.tp_state) (fun f0 ->
                                let t = fun r -> f0 r.tp_state in
                                (fun x -> { tp_all = x.tp_all; tp_name =
                                x.tp_name; tp_val = x.tp_val; tp_state =
                                (t x) })) (fun _ -> PFNxt)
                                (set (fun t -> t.tp_all) (fun f0 ->
                                  let p = fun r -> f0 r.tp_all in
                                  (fun x -> { tp_all = (p x); tp_name =
                                  x.tp_name; tp_val = x.tp_val; tp_state =
                                  x.tp_state })) (fun _ -> a)
                                  (set (fun t -> t.tp_val) (fun f0 ->
                                    let p = fun r -> f0 r.tp_val in
                                    (fun x -> { tp_all = x.tp_all; tp_name =
                                    x.tp_name; tp_val = (p x); tp_state =
                                    x.tp_state })) (fun _ -> v) s))))
                          | None -> IPanic)
                       | None -> IPanic)
                 else if negb allowed
                      then tp_bad i s
                      else (match pf_set i i with
                            | Some v ->
                              (match pf_extend s.tp_all i with
                               | Some a ->
                                 Next ((S O),
                                   (set (fun t -> t.tp_all) (fun f0 ->
                                     let p = fun r -> f0 r.tp_all in
                                     (fun x -> { tp_all = (p x); tp_name =
                                     x.tp_name; tp_val = x.tp_val; tp_state =
                                     x.tp_state })) (fun _ -> a)
                                     (set (fun t -> t.tp_val) (fun f0 ->
                                       let p = fun r -> f0 r.tp_val in
                                       (fun x -> { tp_all = x.tp_all;
                                       tp_name = x.tp_name; tp_val = 
                                       (p x); tp_state = x.tp_state }))
                                       (fun _ -> v)
                                       (set (fun t -> t.tp_state) (fun f0 ->
                                         let t = fun r -> f0 r.tp_state in
                                         (fun x -> { tp_all = x.tp_all;
                                         tp_name = x.tp_name; tp_val =
                                         x.tp_val; tp_state = (t x) }))
                                         (fun _ -> PVal) s))))
                               | None -> IPanic)
                            | None -> IPanic)

(** val tp_sVal :
    tpflags -> byte list -> n -> tokparam -> byte -> tokparam ires **)

let tp_sVal f rest i s c =
  let is_term = (&&) (N.eqb c f.tf_term) (negb (N.eqb f.tf_term N0)) in
  let is_sep = N.eqb c f.tf_sep in
  let allowed = tok_allowed f.tf_uriparam c in
  if is_ws c
  then tp_ws f rest i s
         (match ext2 s.tp_val s.tp_all i i with
          | Some p ->
            let (v, a) = p in
            Some
            (set (fun t -> t.tp_all) (fun f0 ->
              let p0 = fun r -> f0 r.tp_all in
              (fun x -> { tp_all = (p0 x); tp_name = x.tp_name; tp_val =
              x.tp_val; tp_state = x.tp_state })) (fun _ -> a)
              (set (fun t -> t.tp_val) (fun f0 ->
                let p0 = fun r -> f0 r.tp_val in
                (fun x -> { tp_all = x.tp_all; tp_name = x.tp_name; tp_val =
                (p0 x); tp_state = x.tp_state })) (fun _ -> v)
                (set (fun t -> t.tp_state) (fun f0 ->
                  let t = fun r -> f0 r.tp_state in
                  (fun x -> { tp_all = x.tp_all; tp_name = x.tp_name;
                  tp_val = x.tp_val; tp_state = (t x) })) (fun _ -> PFSep) s)))
          | None -> None)
  else if is_term
       then (match ext2 s.tp_val s.tp_all i i with
             | Some p ->
               let (v, a) = p in
               Ret (i, EOk,
               (set (fun t -> t.tp_state) (fun f0 ->
                 let t = fun r -> f0 r.tp_state in
                 (fun x -> { tp_all = x.tp_all; tp_name = x.tp_name; tp_val =
                 x.tp_val; tp_state = (t x) })) (fun _ -> PFIN)
                 (set (fun t -> t.tp_all) (fun f0 ->
                   let p0 = fun r -> f0 r.tp_all in
                   (fun x -> { tp_all = (p0 x); tp_name = x.tp_name; tp_val =
                   x.tp_val; tp_state = x.tp_state })) (fun _ -> a)
                   (set (fun t -> t.tp_val) (fun f0 ->
                     let p0 = fun r -> f0 r.tp_val in
                     (fun x -> { tp_all = x.tp_all; tp_name = x.tp_name;
                     tp_val = (p0 x); tp_state = x.tp_state })) (fun _ -> v)
                     s))))
             | None -> IPanic)
       else if is_sep
            then (match ext2 s.tp_val s.tp_all i i with
                  | Some p ->
                    let (v, a) = p in
                    Next ((S O),
                    (set (fun t -> t.tp_state) (fun f0 ->
                      let t = fun r -> f0 r.tp_state in
                      (fun x -> { tp_all = x.tp_all; tp_name = x.tp_name;
                      tp_val = x.tp_val; tp_state = (t x) })) (fun _ ->
                      PFNxt)
                      (set (fun t -> t.tp_all) (fun f0 ->
                        let p0 = fun r -> f0 r.tp_all in
                        (fun x -> { tp_all = (p0 x); tp_name = x.tp_name;
                        tp_val = x.tp_val; tp_state = x.tp_state }))
                        (fun _ -> a)
                        (set (fun t -> t.tp_val) (fun f0 ->
                          let p0 = fun r -> f0 r.tp_val in
                          (fun x -> { tp_all = x.tp_all; tp_name = x.tp_name;
                          tp_val = (p0 x); tp_state = x.tp_state }))
                          (fun _ -> v) s))))
                  | None -> IPanic)
            else if negb allowed then tp_bad i s else Next ((S O), s)

(** val tp_sQuoted :
    tpflags -> byte list -> byte list -> n -> tokparam -> tokparam ires **)

let tp_sQuoted f pre rest i s =
  match run sq_iter pre rest i O () with
  | Done (o, e, _) ->
    (match e with
     | EOk ->
       (match ext2 s.tp_val s.tp_all o o with
        | Some p ->
          let (v, a) = p in
          Next ((N.to_nat (N.sub o i)),
          (set (fun t -> t.tp_state) (fun f0 ->
            let t = fun r -> f0 r.tp_state in
            (fun x -> { tp_all = x.tp_all; tp_name = x.tp_name; tp_val =
            x.tp_val; tp_state = (t x) })) (fun _ -> PFSep)
            (set (fun t -> t.tp_all) (fun f0 ->
              let p0 = fun r -> f0 r.tp_all in
              (fun x -> { tp_all = (p0 x); tp_name = x.tp_name; tp_val =
              x.tp_val; tp_state = x.tp_state })) (fun _ -> a)
              (set (fun t -> t.tp_val) (fun f0 ->
                let p0 = fun r -> f0 r.tp_val in
                (fun x -> { tp_all = x.tp_all; tp_name = x.tp_name; tp_val =
                (p0 x); tp_state = x.tp_state })) (fun _ -> v) s))))
        | None -> IPanic)
     | EMore -> tp_moreBytes f o (N.add i (nnat (length rest))) s
     | _ -> Ret (o, e, s))
  | _ -> IPanic

(** val tp_sFSep :
    tpflags -> byte list -> byte list -> n -> tokparam -> byte -> tokparam
    ires **)

let tp_sFSep f pre rest i s c =
  let is_term = (&&) (N.eqb c f.tf_term) (negb (N.eqb f.tf_term N0)) in
  let is_sep = N.eqb c f.tf_sep in
  let allowed = tok_allowed f.tf_uriparam c in
  if is_ws c
  then tp_ws f rest i s (Some s)
  else if is_term
       then Ret (i, EOk,
              (set (fun t -> t.tp_state) (fun f0 ->
                let t = fun r -> f0 r.tp_state in
                (fun x -> { tp_all = x.tp_all; tp_name = x.tp_name; tp_val =
                x.tp_val; tp_state = (t x) })) (fun _ -> PFIN) s))
       else if is_sep
            then Next ((S O),
                   (set (fun t -> t.tp_state) (fun f0 ->
                     let t = fun r -> f0 r.tp_state in
                     (fun x -> { tp_all = x.tp_all; tp_name = x.tp_name;
                     tp_val = x.tp_val; tp_state = (t x) })) (fun _ -> PFNxt)
                     s))
            else if negb allowed
                 then tp_bad i s
                 else if f.tf_spterm
                      then tp_spterm_ret pre i s
                      else tp_bad i s

(** val tp_step :
    tpflags -> byte list -> byte list -> n -> tokparam -> byte -> tpst ->
    tokparam ires **)

let tp_step f pre rest i s c st = match st with
| PName -> tp_sName f rest i s c
| PFEq -> tp_sFEq f pre rest i s c
| PFVal -> tp_sFVal f rest i s c
| PVal -> tp_sVal f rest i s c
| PFSep -> tp_sFSep f pre rest i s c
| PQuotedVal -> tp_sQuoted f pre rest i s
| PERR -> Next ((S O), s)
| PFIN -> Ret (i, EOk, s)
| _ -> tp_sInit f rest i s c st

(** val tp_iter :
    n -> byte list -> byte list -> n -> tokparam -> tokparam ires **)

let tp_iter flags pre rest i s =
  let f = tp_decode flags in
  (match s.tp_state with
   | PFIN -> Ret (i, EOk, s)
   | x ->
     (match rest with
      | [] -> tp_moreBytes f i i s
      | c :: _ -> tp_step f pre rest i s c x))

(** val parse_tokparam : n -> byte list -> n -> tokparam -> tokparam res **)

let parse_tokparam flags =
  parse (tp_iter flags)

(** val obs_tokparam : tokparam -> z list **)

let obs_tokparam s =
  app (obs_pf s.tp_all)
    (app (obs_pf s.tp_name)
      (app (obs_pf s.tp_val) ((b2z (tp_empty s)) :: [])))

type fbst =
| FbInit
| FbNameOrURI
| FbNameOrURIEnd
| FbName
| FbQuoted
| FbURI
| FbURIFound
| FbNewPossibleParam
| FbPossibleParamName
| FbPossibleParamNameEnd
| FbNewParam
| FbParamName
| FbParamNameEnd
| FbNewParamVal
| FbParamVal
| FbParamValEnd
| FbNewPossibleVal
| FbPossibleVal
| FbPossibleValEnd
| FbQuotedVal
| FbQuotedPossibleVal
| FbStar
| FbFIN

type pfrom = { fb_name : pf; fb_uri : pf; fb_tag : pf; fb_star : bool;
               fb_lr : bool; fb_hasexp : bool; fb_type : n; fb_q : n;
               fb_expires : n; fb_params : pf; fb_v : pf; fb_perr : err;
               fb_erroffs : n; fb_state : fbst; fb_soffs : n; fb_pstart : 
               n; fb_pend : n; fb_vstart : n; fb_vend : n }

(** val pfrom0 : pfrom **)

let pfrom0 =
  { fb_name = pf0; fb_uri = pf0; fb_tag = pf0; fb_star = false; fb_lr =
    false; fb_hasexp = false; fb_type = N0; fb_q = N0; fb_expires = N0;
    fb_params = pf0; fb_v = pf0; fb_perr = EOk; fb_erroffs = N0; fb_state =
    FbInit; fb_soffs = N0; fb_pstart = N0; fb_pend = N0; fb_vstart = N0;
    fb_vend = N0 }

(** val fb_parsed : pfrom -> bool **)

let fb_parsed s =
  match s.fb_state with
  | FbFIN -> true
  | _ -> false

(** val fb_empty : pfrom -> bool **)

let fb_empty s =
  match s.fb_state with
  | FbInit -> true
  | _ -> false

(** val multipleValsOk : n -> bool **)

let multipleValsOk h =
  (||)
    ((||) ((||) (N.eqb h hdrContact) (N.eqb h hdrRecordRoute))
      (N.eqb h hdrRoute)) (N.eqb h hdrPAI)

(** val pUInt64_go : byte list -> n -> n * err **)

let rec pUInt64_go b n0 =
  match b with
  | [] -> (n0, EOk)
  | c :: b' ->
    if negb (is_digit c)
    then (n0, EValNotNumber)
    else if N.ltb
              (N.div (N.sub maxU64 (digit_val c)) (Npos (XO (XI (XO XH))))) n0
         then (maxU64, ENumTooBig)
         else pUInt64_go b'
                (N.add (N.mul n0 (Npos (XO (XI (XO XH))))) (digit_val c))

(** val pUInt64Val : byte list -> n * err **)

let pUInt64Val b =
  pUInt64_go b N0

(** val str_tag : byte list **)

let str_tag =
  (Npos (XO (XO (XI (XO (XI (XI XH))))))) :: ((Npos (XI (XO (XO (XO (XO (XI
    XH))))))) :: ((Npos (XI (XI (XI (XO (XO (XI XH))))))) :: []))

(** val str_expires : byte list **)

let str_expires =
  (Npos (XI (XO (XI (XO (XO (XI XH))))))) :: ((Npos (XO (XO (XO (XI (XI (XI
    XH))))))) :: ((Npos (XO (XO (XO (XO (XI (XI XH))))))) :: ((Npos (XI (XO
    (XO (XI (XO (XI XH))))))) :: ((Npos (XO (XI (XO (XO (XI (XI
    XH))))))) :: ((Npos (XI (XO (XI (XO (XO (XI XH))))))) :: ((Npos (XI (XI
    (XO (XO (XI (XI XH))))))) :: []))))))

(** val str_q : byte list **)

let str_q =
  (Npos (XI (XO (XO (XO (XI (XI XH))))))) :: []

(** val str_lr : byte list **)

let str_lr =
  (Npos (XO (XO (XI (XI (XO (XI XH))))))) :: ((Npos (XO (XI (XO (XO (XI (XI
    XH))))))) :: [])

(** val set_q : byte list -> pfrom -> pfrom **)

let set_q val0 s =
  let k =
    span (fun c -> negb (N.eqb c (Npos (XO (XI (XI (XI (XO XH)))))))) val0
  in
  if Nat.leb (sub (length val0) k) (S (S (S (S O))))
  then let (u, e1) = pUInt64Val (firstn k val0) in
       let (d, e2) =
         match e1 with
         | EOk ->
           if Nat.ltb k (length val0)
           then pUInt64Val (skipn (S k) val0)
           else (N0, EOk)
         | _ -> (N0, e1)
       in
       (match e2 with
        | EOk ->
          if (||)
               ((||) (N.ltb (Npos XH) u)
                 (N.ltb (Npos (XI (XI (XI (XO (XO (XI (XI (XI (XI
                   XH)))))))))) d)) ((&&) (N.eqb u (Npos XH)) (N.ltb N0 d))
          then set (fun p -> p.fb_erroffs) (fun f ->
                 let n0 = fun r -> f r.fb_erroffs in
                 (fun x -> { fb_name = x.fb_name; fb_uri = x.fb_uri; fb_tag =
                 x.fb_tag; fb_star = x.fb_star; fb_lr = x.fb_lr; fb_hasexp =
                 x.fb_hasexp; fb_type = x.fb_type; fb_q = x.fb_q;
                 fb_expires = x.fb_expires; fb_params = x.fb_params; fb_v =
                 x.fb_v; fb_perr = x.fb_perr; fb_erroffs = (n0 x); fb_state =
                 x.fb_state; fb_soffs = x.fb_soffs; fb_pstart = x.fb_pstart;
                 fb_pend = x.fb_pend; fb_vstart = x.fb_vstart; fb_vend =
                 x.fb_vend })) (fun _ -> s.fb_vstart)
                 (set (fun p -> p.fb_perr) (fun f ->
                   let e = fun r -> f r.fb_perr in
                   (fun x -> { fb_name = x.fb_name; fb_uri = x.fb_uri;
                   fb_tag = x.fb_tag; fb_star = x.fb_star; fb_lr = x.fb_lr;
                   fb_hasexp = x.fb_hasexp; fb_type = x.fb_type; fb_q =
                   x.fb_q; fb_expires = x.fb_expires; fb_params =
                   x.fb_params; fb_v = x.fb_v; fb_perr = (e x); fb_erroffs =
                   x.fb_erroffs; fb_state = x.fb_state; fb_soffs =
                   x.fb_soffs; fb_pstart = x.fb_pstart; fb_pend = x.fb_pend;
                   fb_vstart = x.fb_vstart; fb_vend = x.fb_vend })) (fun _ ->
                   EValBad) s)
          else let nd = sub (length val0) (S k) in
               let d0 =
                 if Nat.ltb k (length val0)
                 then (match nd with
                       | O -> d
                       | S n0 ->
                         (match n0 with
                          | O ->
                            N.mul d (Npos (XO (XO (XI (XO (XO (XI XH)))))))
                          | S n1 ->
                            (match n1 with
                             | O -> N.mul d (Npos (XO (XI (XO XH))))
                             | S _ -> d)))
                 else d
               in
               set (fun p -> p.fb_q) (fun f ->
                 let n0 = fun r -> f r.fb_q in
                 (fun x -> { fb_name = x.fb_name; fb_uri = x.fb_uri; fb_tag =
                 x.fb_tag; fb_star = x.fb_star; fb_lr = x.fb_lr; fb_hasexp =
                 x.fb_hasexp; fb_type = x.fb_type; fb_q = (n0 x);
                 fb_expires = x.fb_expires; fb_params = x.fb_params; fb_v =
                 x.fb_v; fb_perr = x.fb_perr; fb_erroffs = x.fb_erroffs;
                 fb_state = x.fb_state; fb_soffs = x.fb_soffs; fb_pstart =
                 x.fb_pstart; fb_pend = x.fb_pend; fb_vstart = x.fb_vstart;
                 fb_vend = x.fb_vend })) (fun _ ->
                 N.add
                   (N.mul u (Npos (XO (XO (XO (XI (XO (XI (XI (XI (XI
                     XH))))))))))) d0) s
        | ENumTooBig ->
          set (fun p -> p.fb_erroffs) (fun f ->
            let n0 = fun r -> f r.fb_erroffs in
            (fun x -> { fb_name = x.fb_name; fb_uri = x.fb_uri; fb_tag =
            x.fb_tag; fb_star = x.fb_star; fb_lr = x.fb_lr; fb_hasexp =
            x.fb_hasexp; fb_type = x.fb_type; fb_q = x.fb_q; fb_expires =
            x.fb_expires; fb_params = x.fb_params; fb_v = x.fb_v; fb_perr =
            x.fb_perr; fb_erroffs = (n0 x); fb_state = x.fb_state; fb_soffs =
            x.fb_soffs; fb_pstart = x.fb_pstart; fb_pend = x.fb_pend;
            fb_vstart = x.fb_vstart; fb_vend = x.fb_vend })) (fun _ ->
            s.fb_vstart)
            (set (fun p -> p.fb_perr) (fun f ->
              let e = fun r -> f r.fb_perr in
              (fun x -> { fb_name = x.fb_name; fb_uri = x.fb_uri; fb_tag =
              x.fb_tag; fb_star = x.fb_star; fb_lr = x.fb_lr; fb_hasexp =
              x.fb_hasexp; fb_type = x.fb_type; fb_q = x.fb_q; fb_expires =
              x.fb_expires; fb_params = x.fb_params; fb_v = x.fb_v; fb_perr =
              (e x); fb_erroffs = x.fb_erroffs; fb_state = x.fb_state;
              fb_soffs = x.fb_soffs; fb_pstart = x.fb_pstart; fb_pend =
              x.fb_pend; fb_vstart = x.fb_vstart; fb_vend = x.fb_vend }))
              (fun _ -> ENumTooBig) s)
        | _ -> s)
  else set (fun p -> p.fb_erroffs) (fun f ->
         let n0 = fun r -> f r.fb_erroffs in
         (fun x -> { fb_name = x.fb_name; fb_uri = x.fb_uri; fb_tag =
         x.fb_tag; fb_star = x.fb_star; fb_lr = x.fb_lr; fb_hasexp =
         x.fb_hasexp; fb_type = x.fb_type; fb_q = x.fb_q; fb_expires =
         x.fb_expires; fb_params = x.fb_params; fb_v = x.fb_v; fb_perr =
         x.fb_perr; fb_erroffs = (n0 x); fb_state = x.fb_state; fb_soffs =
         x.fb_soffs; fb_pstart = x.fb_pstart; fb_pend = x.fb_pend;
         fb_vstart = x.fb_vstart; fb_vend = x.fb_vend })) (fun _ ->
         s.fb_vend)
         (set (fun p -> p.fb_perr) (fun f ->
           let e = fun r -> f r.fb_perr in
           (fun x -> { fb_name = x.fb_name; fb_uri = x.fb_uri; fb_tag =
           x.fb_tag; fb_star = x.fb_star; fb_lr = x.fb_lr; fb_hasexp =
           x.fb_hasexp; fb_type = x.fb_type; fb_q = x.fb_q; fb_expires =
           x.fb_expires; fb_params = x.fb_params; fb_v = x.fb_v; fb_perr =
           (e x); fb_erroffs = x.fb_erroffs; fb_state = x.fb_state;
           fb_soffs = x.fb_soffs; fb_pstart = x.fb_pstart; fb_pend =
           x.fb_pend; fb_vstart = x.fb_vstart; fb_vend = x.fb_vend }))
           (fun _ -> EValTooLong) s)

(** val setFromParamVal :
    byte list -> byte list -> n -> pfrom -> pfrom option **)

let setFromParamVal pre rest i s =
  let clr = fun s0 ->
    set (fun p -> p.fb_vend) (fun f ->
      let n0 = fun r -> f r.fb_vend in
      (fun x -> { fb_name = x.fb_name; fb_uri = x.fb_uri; fb_tag = x.fb_tag;
      fb_star = x.fb_star; fb_lr = x.fb_lr; fb_hasexp = x.fb_hasexp;
      fb_type = x.fb_type; fb_q = x.fb_q; fb_expires = x.fb_expires;
      fb_params = x.fb_params; fb_v = x.fb_v; fb_perr = x.fb_perr;
      fb_erroffs = x.fb_erroffs; fb_state = x.fb_state; fb_soffs =
      x.fb_soffs; fb_pstart = x.fb_pstart; fb_pend = x.fb_pend; fb_vstart =
      x.fb_vstart; fb_vend = (n0 x) })) (fun _ -> N0)
      (set (fun p -> p.fb_vstart) (fun f ->
        let n0 = fun r -> f r.fb_vstart in
        (fun x -> { fb_name = x.fb_name; fb_uri = x.fb_uri; fb_tag =
        x.fb_tag; fb_star = x.fb_star; fb_lr = x.fb_lr; fb_hasexp =
        x.fb_hasexp; fb_type = x.fb_type; fb_q = x.fb_q; fb_expires =
        x.fb_expires; fb_params = x.fb_params; fb_v = x.fb_v; fb_perr =
        x.fb_perr; fb_erroffs = x.fb_erroffs; fb_state = x.fb_state;
        fb_soffs = x.fb_soffs; fb_pstart = x.fb_pstart; fb_pend = x.fb_pend;
        fb_vstart = (n0 x); fb_vend = x.fb_vend })) (fun _ -> N0)
        (set (fun p -> p.fb_pend) (fun f ->
          let n0 = fun r -> f r.fb_pend in
          (fun x -> { fb_name = x.fb_name; fb_uri = x.fb_uri; fb_tag =
          x.fb_tag; fb_star = x.fb_star; fb_lr = x.fb_lr; fb_hasexp =
          x.fb_hasexp; fb_type = x.fb_type; fb_q = x.fb_q; fb_expires =
          x.fb_expires; fb_params = x.fb_params; fb_v = x.fb_v; fb_perr =
          x.fb_perr; fb_erroffs = x.fb_erroffs; fb_state = x.fb_state;
          fb_soffs = x.fb_soffs; fb_pstart = x.fb_pstart; fb_pend = (n0 x);
          fb_vstart = x.fb_vstart; fb_vend = x.fb_vend })) (fun _ -> N0)
          (set (fun p -> p.fb_pstart) (fun f ->
            let n0 = fun r -> f r.fb_pstart in
            (fun x -> { fb_name = x.fb_name; fb_uri = x.fb_uri; fb_tag =
            x.fb_tag; fb_star = x.fb_star; fb_lr = x.fb_lr; fb_hasexp =
            x.fb_hasexp; fb_type = x.fb_type; fb_q = x.fb_q; fb_expires =
            x.fb_expires; fb_params = x.fb_params; fb_v = x.fb_v; fb_perr =
            x.fb_perr; fb_erroffs = x.fb_erroffs; fb_state = x.fb_state;
            fb_soffs = x.fb_soffs; fb_pstart = (n0 x); fb_pend = x.fb_pend;
            fb_vstart = x.fb_vstart; fb_vend = x.fb_vend })) (fun _ -> N0) s0)))
  in
  if (&&) (N.ltb s.fb_pstart s.fb_pend) (N.ltb s.fb_vstart s.fb_vend)
  then (match zslice pre rest i s.fb_pstart s.fb_pend with
        | Some name ->
          (match zslice pre rest i s.fb_vstart s.fb_vend with
           | Some val0 ->
             if eqb_nocase name str_tag
             then (match pf_set s.fb_vstart s.fb_vend with
                   | Some t ->
                     Some
                       (clr
                         (set (fun p -> p.fb_tag) (fun f ->
                           let p = fun r -> f r.fb_tag in
                           (fun x -> { fb_name = x.fb_name; fb_uri =
                           x.fb_uri; fb_tag = (p x); fb_star = x.fb_star;
                           fb_lr = x.fb_lr; fb_hasexp = x.fb_hasexp;
                           fb_type = x.fb_type; fb_q = x.fb_q; fb_expires =
                           x.fb_expires; fb_params = x.fb_params; fb_v =
                           x.fb_v; fb_perr = x.fb_perr; fb_erroffs =
                           x.fb_erroffs; fb_state = x.fb_state; fb_soffs =
                           x.fb_soffs; fb_pstart = x.fb_pstart; fb_pend =
                           x.fb_pend; fb_vstart = x.fb_vstart; fb_vend =
                           x.fb_vend })) (fun _ -> t) s))
                   | None -> None)
             else if eqb_nocase name str_expires
                  then let (e, _) = pUInt64Val val0 in
                       Some
                       (clr
                         (set (fun p -> p.fb_expires) (fun f ->
                           let n0 = fun r -> f r.fb_expires in
                           (fun x -> { fb_name = x.fb_name; fb_uri =
                           x.fb_uri; fb_tag = x.fb_tag; fb_star = x.fb_star;
                           fb_lr = x.fb_lr; fb_hasexp = x.fb_hasexp;
                           fb_type = x.fb_type; fb_q = x.fb_q; fb_expires =
                           (n0 x); fb_params = x.fb_params; fb_v = x.fb_v;
                           fb_perr = x.fb_perr; fb_erroffs = x.fb_erroffs;
                           fb_state = x.fb_state; fb_soffs = x.fb_soffs;
                           fb_pstart = x.fb_pstart; fb_pend = x.fb_pend;
                           fb_vstart = x.fb_vstart; fb_vend = x.fb_vend }))
                           (fun _ -> if N.ltb e maxU32 then e else maxU32)
                           (set (fun p -> p.fb_hasexp) (fun f ->
                             let b = fun r -> f r.fb_hasexp in
                             (fun x -> { fb_name = x.fb_name; fb_uri =
                             x.fb_uri; fb_tag = x.fb_tag; fb_star =
                             x.fb_star; fb_lr = x.fb_lr; fb_hasexp = 
                             (b x); fb_type = x.fb_type; fb_q = x.fb_q;
                             fb_expires = x.fb_expires; fb_params =
                             x.fb_params; fb_v = x.fb_v; fb_perr = x.fb_perr;
                             fb_erroffs = x.fb_erroffs; fb_state =
                             x.fb_state; fb_soffs = x.fb_soffs; fb_pstart =
                             x.fb_pstart; fb_pend = x.fb_pend; fb_vstart =
                             x.fb_vstart; fb_vend = x.fb_vend })) (fun _ ->
                             true) s)))
                  else if eqb_nocase name str_q
                       then Some (clr (set_q val0 s))
                       else if eqb_nocase name str_lr
                            then Some
                                   (clr
                                     (set (fun p -> p.fb_lr) (fun f ->
                                       let b = fun r -> f r.fb_lr in
                                       (fun x -> { fb_name = x.fb_name;
                                       fb_uri = x.fb_uri; fb_tag = x.fb_tag;
                                       fb_star = x.fb_star; fb_lr = (b x);
                                       fb_hasexp = x.fb_hasexp; fb_type =
                                       x.fb_type; fb_q = x.fb_q; fb_expires =
                                       x.fb_expires; fb_params = x.fb_params;
                                       fb_v = x.fb_v; fb_perr = x.fb_perr;
                                       fb_erroffs = x.fb_erroffs; fb_state =
                                       x.fb_state; fb_soffs = x.fb_soffs;
                                       fb_pstart = x.fb_pstart; fb_pend =
                                       x.fb_pend; fb_vstart = x.fb_vstart;
                                       fb_vend = x.fb_vend })) (fun _ ->
                                       true) s))
                            else Some (clr s)
           | None -> None)
        | None -> None)
  else if (&&) (N.ltb s.fb_pstart s.fb_pend) (N.eqb s.fb_vstart s.fb_vend)
       then (match zslice pre rest i s.fb_pstart s.fb_pend with
             | Some name ->
               if eqb_nocase name str_lr
               then Some
                      (clr
                        (set (fun p -> p.fb_lr) (fun f ->
                          let b = fun r -> f r.fb_lr in
                          (fun x -> { fb_name = x.fb_name; fb_uri = x.fb_uri;
                          fb_tag = x.fb_tag; fb_star = x.fb_star; fb_lr =
                          (b x); fb_hasexp = x.fb_hasexp; fb_type =
                          x.fb_type; fb_q = x.fb_q; fb_expires =
                          x.fb_expires; fb_params = x.fb_params; fb_v =
                          x.fb_v; fb_perr = x.fb_perr; fb_erroffs =
                          x.fb_erroffs; fb_state = x.fb_state; fb_soffs =
                          x.fb_soffs; fb_pstart = x.fb_pstart; fb_pend =
                          x.fb_pend; fb_vstart = x.fb_vstart; fb_vend =
                          x.fb_vend })) (fun _ -> true) s))
               else Some (clr s)
             | None -> None)
       else Some
              (clr
                (set (fun p -> p.fb_erroffs) (fun f ->
                  let n0 = fun r -> f r.fb_erroffs in
                  (fun x -> { fb_name = x.fb_name; fb_uri = x.fb_uri;
                  fb_tag = x.fb_tag; fb_star = x.fb_star; fb_lr = x.fb_lr;
                  fb_hasexp = x.fb_hasexp; fb_type = x.fb_type; fb_q =
                  x.fb_q; fb_expires = x.fb_expires; fb_params = x.fb_params;
                  fb_v = x.fb_v; fb_perr = x.fb_perr; fb_erroffs = (n0 x);
                  fb_state = x.fb_state; fb_soffs = x.fb_soffs; fb_pstart =
                  x.fb_pstart; fb_pend = x.fb_pend; fb_vstart = x.fb_vstart;
                  fb_vend = x.fb_vend })) (fun _ -> s.fb_vstart)
                  (set (fun p -> p.fb_perr) (fun f ->
                    let e = fun r -> f r.fb_perr in
                    (fun x -> { fb_name = x.fb_name; fb_uri = x.fb_uri;
                    fb_tag = x.fb_tag; fb_star = x.fb_star; fb_lr = x.fb_lr;
                    fb_hasexp = x.fb_hasexp; fb_type = x.fb_type; fb_q =
                    x.fb_q; fb_expires = x.fb_expires; fb_params =
                    x.fb_params; fb_v = x.fb_v; fb_perr = (e x); fb_erroffs =
                    x.fb_erroffs; fb_state = x.fb_state; fb_soffs =
                    x.fb_soffs; fb_pstart = x.fb_pstart; fb_pend = x.fb_pend;
                    fb_vstart = x.fb_vstart; fb_vend = x.fb_vend }))
                    (fun _ -> EValBad) s)))

(** val fb_close :
    byte list -> byte list -> n -> n -> pfrom -> pfrom option option **)

let fb_close pre rest i0 i s =
  let ext_params_v = fun s0 force ->
    match if (||) force (negb (N.eqb s0.fb_params.po N0))
          then pf_extend s0.fb_params i
          else Some s0.fb_params with
    | Some p ->
      (match pf_extend s0.fb_v i with
       | Some v ->
         Some (Some
           (set (fun p0 -> p0.fb_v) (fun f ->
             let p0 = fun r -> f r.fb_v in
             (fun x -> { fb_name = x.fb_name; fb_uri = x.fb_uri; fb_tag =
             x.fb_tag; fb_star = x.fb_star; fb_lr = x.fb_lr; fb_hasexp =
             x.fb_hasexp; fb_type = x.fb_type; fb_q = x.fb_q; fb_expires =
             x.fb_expires; fb_params = x.fb_params; fb_v = (p0 x); fb_perr =
             x.fb_perr; fb_erroffs = x.fb_erroffs; fb_state = x.fb_state;
             fb_soffs = x.fb_soffs; fb_pstart = x.fb_pstart; fb_pend =
             x.fb_pend; fb_vstart = x.fb_vstart; fb_vend = x.fb_vend }))
             (fun _ -> v)
             (set (fun p0 -> p0.fb_params) (fun f ->
               let p0 = fun r -> f r.fb_params in
               (fun x -> { fb_name = x.fb_name; fb_uri = x.fb_uri; fb_tag =
               x.fb_tag; fb_star = x.fb_star; fb_lr = x.fb_lr; fb_hasexp =
               x.fb_hasexp; fb_type = x.fb_type; fb_q = x.fb_q; fb_expires =
               x.fb_expires; fb_params = (p0 x); fb_v = x.fb_v; fb_perr =
               x.fb_perr; fb_erroffs = x.fb_erroffs; fb_state = x.fb_state;
               fb_soffs = x.fb_soffs; fb_pstart = x.fb_pstart; fb_pend =
               x.fb_pend; fb_vstart = x.fb_vstart; fb_vend = x.fb_vend }))
               (fun _ -> p) s0)))
       | None -> None)
    | None -> None
  in
  (match s.fb_state with
   | FbNameOrURI ->
     (match pf_set s.fb_soffs i with
      | Some u ->
        (match pf_extend s.fb_v i with
         | Some v ->
           Some (Some
             (set (fun p -> p.fb_v) (fun f ->
               let p = fun r -> f r.fb_v in
               (fun x -> { fb_name = x.fb_name; fb_uri = x.fb_uri; fb_tag =
               x.fb_tag; fb_star = x.fb_star; fb_lr = x.fb_lr; fb_hasexp =
               x.fb_hasexp; fb_type = x.fb_type; fb_q = x.fb_q; fb_expires =
               x.fb_expires; fb_params = x.fb_params; fb_v = (p x); fb_perr =
               x.fb_perr; fb_erroffs = x.fb_erroffs; fb_state = x.fb_state;
               fb_soffs = x.fb_soffs; fb_pstart = x.fb_pstart; fb_pend =
               x.fb_pend; fb_vstart = x.fb_vstart; fb_vend = x.fb_vend }))
               (fun _ -> v)
               (set (fun p -> p.fb_uri) (fun f ->
                 let p = fun r -> f r.fb_uri in
                 (fun x -> { fb_name = x.fb_name; fb_uri = (p x); fb_tag =
                 x.fb_tag; fb_star = x.fb_star; fb_lr = x.fb_lr; fb_hasexp =
                 x.fb_hasexp; fb_type = x.fb_type; fb_q = x.fb_q;
                 fb_expires = x.fb_expires; fb_params = x.fb_params; fb_v =
                 x.fb_v; fb_perr = x.fb_perr; fb_erroffs = x.fb_erroffs;
                 fb_state = x.fb_state; fb_soffs = x.fb_soffs; fb_pstart =
                 x.fb_pstart; fb_pend = x.fb_pend; fb_vstart = x.fb_vstart;
                 fb_vend = x.fb_vend })) (fun _ -> u) s)))
         | None -> None)
      | None -> None)
   | FbNameOrURIEnd -> Some (Some s)
   | FbURIFound -> Some (Some s)
   | FbNewPossibleParam -> ext_params_v s false
   | FbPossibleParamName ->
     (match setFromParamVal pre rest i0
              (set (fun p -> p.fb_pend) (fun f ->
                let n0 = fun r -> f r.fb_pend in
                (fun x -> { fb_name = x.fb_name; fb_uri = x.fb_uri; fb_tag =
                x.fb_tag; fb_star = x.fb_star; fb_lr = x.fb_lr; fb_hasexp =
                x.fb_hasexp; fb_type = x.fb_type; fb_q = x.fb_q; fb_expires =
                x.fb_expires; fb_params = x.fb_params; fb_v = x.fb_v;
                fb_perr = x.fb_perr; fb_erroffs = x.fb_erroffs; fb_state =
                x.fb_state; fb_soffs = x.fb_soffs; fb_pstart = x.fb_pstart;
                fb_pend = (n0 x); fb_vstart = x.fb_vstart; fb_vend =
                x.fb_vend })) (fun _ -> i) s) with
      | Some s0 -> ext_params_v s0 false
      | None -> None)
   | FbPossibleParamNameEnd ->
     (match setFromParamVal pre rest i0 s with
      | Some s0 -> ext_params_v s0 false
      | None -> None)
   | FbNewParam -> ext_params_v s false
   | FbParamName ->
     (match setFromParamVal pre rest i0
              (set (fun p -> p.fb_pend) (fun f ->
                let n0 = fun r -> f r.fb_pend in
                (fun x -> { fb_name = x.fb_name; fb_uri = x.fb_uri; fb_tag =
                x.fb_tag; fb_star = x.fb_star; fb_lr = x.fb_lr; fb_hasexp =
                x.fb_hasexp; fb_type = x.fb_type; fb_q = x.fb_q; fb_expires =
                x.fb_expires; fb_params = x.fb_params; fb_v = x.fb_v;
                fb_perr = x.fb_perr; fb_erroffs = x.fb_erroffs; fb_state =
                x.fb_state; fb_soffs = x.fb_soffs; fb_pstart = x.fb_pstart;
                fb_pend = (n0 x); fb_vstart = x.fb_vstart; fb_vend =
                x.fb_vend })) (fun _ -> i) s) with
      | Some s0 -> ext_params_v s0 false
      | None -> None)
   | FbParamNameEnd ->
     (match setFromParamVal pre rest i0 s with
      | Some s0 -> ext_params_v s0 false
      | None -> None)
   | FbNewParamVal ->
     (match setFromParamVal pre rest i0
              (set (fun p -> p.fb_vend) (fun f ->
                let n0 = fun r -> f r.fb_vend in
                (fun x -> { fb_name = x.fb_name; fb_uri = x.fb_uri; fb_tag =
                x.fb_tag; fb_star = x.fb_star; fb_lr = x.fb_lr; fb_hasexp =
                x.fb_hasexp; fb_type = x.fb_type; fb_q = x.fb_q; fb_expires =
                x.fb_expires; fb_params = x.fb_params; fb_v = x.fb_v;
                fb_perr = x.fb_perr; fb_erroffs = x.fb_erroffs; fb_state =
                x.fb_state; fb_soffs = x.fb_soffs; fb_pstart = x.fb_pstart;
                fb_pend = x.fb_pend; fb_vstart = x.fb_vstart; fb_vend =
                (n0 x) })) (fun _ -> i)
                (set (fun p -> p.fb_vstart) (fun f ->
                  let n0 = fun r -> f r.fb_vstart in
                  (fun x -> { fb_name = x.fb_name; fb_uri = x.fb_uri;
                  fb_tag = x.fb_tag; fb_star = x.fb_star; fb_lr = x.fb_lr;
                  fb_hasexp = x.fb_hasexp; fb_type = x.fb_type; fb_q =
                  x.fb_q; fb_expires = x.fb_expires; fb_params = x.fb_params;
                  fb_v = x.fb_v; fb_perr = x.fb_perr; fb_erroffs =
                  x.fb_erroffs; fb_state = x.fb_state; fb_soffs = x.fb_soffs;
                  fb_pstart = x.fb_pstart; fb_pend = x.fb_pend; fb_vstart =
                  (n0 x); fb_vend = x.fb_vend })) (fun _ -> i) s)) with
      | Some s0 -> ext_params_v s0 true
      | None -> None)
   | FbParamVal ->
     (match setFromParamVal pre rest i0
              (set (fun p -> p.fb_vend) (fun f ->
                let n0 = fun r -> f r.fb_vend in
                (fun x -> { fb_name = x.fb_name; fb_uri = x.fb_uri; fb_tag =
                x.fb_tag; fb_star = x.fb_star; fb_lr = x.fb_lr; fb_hasexp =
                x.fb_hasexp; fb_type = x.fb_type; fb_q = x.fb_q; fb_expires =
                x.fb_expires; fb_params = x.fb_params; fb_v = x.fb_v;
                fb_perr = x.fb_perr; fb_erroffs = x.fb_erroffs; fb_state =
                x.fb_state; fb_soffs = x.fb_soffs; fb_pstart = x.fb_pstart;
                fb_pend = x.fb_pend; fb_vstart = x.fb_vstart; fb_vend =
                (n0 x) })) (fun _ -> i) s) with
      | Some s0 -> ext_params_v s0 true
      | None -> None)
   | FbParamValEnd ->
     (match setFromParamVal pre rest i0 s with
      | Some s0 -> ext_params_v s0 true
      | None -> None)
   | FbNewPossibleVal ->
     (match setFromParamVal pre rest i0
              (set (fun p -> p.fb_vend) (fun f ->
                let n0 = fun r -> f r.fb_vend in
                (fun x -> { fb_name = x.fb_name; fb_uri = x.fb_uri; fb_tag =
                x.fb_tag; fb_star = x.fb_star; fb_lr = x.fb_lr; fb_hasexp =
                x.fb_hasexp; fb_type = x.fb_type; fb_q = x.fb_q; fb_expires =
                x.fb_expires; fb_params = x.fb_params; fb_v = x.fb_v;
                fb_perr = x.fb_perr; fb_erroffs = x.fb_erroffs; fb_state =
                x.fb_state; fb_soffs = x.fb_soffs; fb_pstart = x.fb_pstart;
                fb_pend = x.fb_pend; fb_vstart = x.fb_vstart; fb_vend =
                (n0 x) })) (fun _ -> i)
                (set (fun p -> p.fb_vstart) (fun f ->
                  let n0 = fun r -> f r.fb_vstart in
                  (fun x -> { fb_name = x.fb_name; fb_uri = x.fb_uri;
                  fb_tag = x.fb_tag; fb_star = x.fb_star; fb_lr = x.fb_lr;
                  fb_hasexp = x.fb_hasexp; fb_type = x.fb_type; fb_q =
                  x.fb_q; fb_expires = x.fb_expires; fb_params = x.fb_params;
                  fb_v = x.fb_v; fb_perr = x.fb_perr; fb_erroffs =
                  x.fb_erroffs; fb_state = x.fb_state; fb_soffs = x.fb_soffs;
                  fb_pstart = x.fb_pstart; fb_pend = x.fb_pend; fb_vstart =
                  (n0 x); fb_vend = x.fb_vend })) (fun _ -> i) s)) with
      | Some s0 -> ext_params_v s0 true
      | None -> None)
   | FbPossibleVal ->
     (match setFromParamVal pre rest i0
              (set (fun p -> p.fb_vend) (fun f ->
                let n0 = fun r -> f r.fb_vend in
                (fun x -> { fb_name = x.fb_name; fb_uri = x.fb_uri; fb_tag =
                x.fb_tag; fb_star = x.fb_star; fb_lr = x.fb_lr; fb_hasexp =
                x.fb_hasexp; fb_type = x.fb_type; fb_q = x.fb_q; fb_expires =
                x.fb_expires; fb_params = x.fb_params; fb_v = x.fb_v;
                fb_perr = x.fb_perr; fb_erroffs = x.fb_erroffs; fb_state =
                x.fb_state; fb_soffs = x.fb_soffs; fb_pstart = x.fb_pstart;
                fb_pend = x.fb_pend; fb_vstart = x.fb_vstart; fb_vend =
                (n0 x) })) (fun _ -> i) s) with
      | Some s0 -> ext_params_v s0 true
      | None -> None)
   | FbPossibleValEnd ->
     (match setFromParamVal pre rest i0 s with
      | Some s0 -> ext_params_v s0 true
      | None -> None)
   | FbStar ->
     Some (Some
       (set (fun p -> p.fb_uri) (fun f ->
         let p = fun r -> f r.fb_uri in
         (fun x -> { fb_name = x.fb_name; fb_uri = (p x); fb_tag = x.fb_tag;
         fb_star = x.fb_star; fb_lr = x.fb_lr; fb_hasexp = x.fb_hasexp;
         fb_type = x.fb_type; fb_q = x.fb_q; fb_expires = x.fb_expires;
         fb_params = x.fb_params; fb_v = x.fb_v; fb_perr = x.fb_perr;
         fb_erroffs = x.fb_erroffs; fb_state = x.fb_state; fb_soffs =
         x.fb_soffs; fb_pstart = x.fb_pstart; fb_pend = x.fb_pend;
         fb_vstart = x.fb_vstart; fb_vend = x.fb_vend })) (fun _ -> s.fb_v)
         (set (fun p -> p.fb_star) (fun f ->
           let b = fun r -> f r.fb_star in
           (fun x -> { fb_name = x.fb_name; fb_uri = x.fb_uri; fb_tag =
           x.fb_tag; fb_star = (b x); fb_lr = x.fb_lr; fb_hasexp =
           x.fb_hasexp; fb_type = x.fb_type; fb_q = x.fb_q; fb_expires =
           x.fb_expires; fb_params = x.fb_params; fb_v = x.fb_v; fb_perr =
           x.fb_perr; fb_erroffs = x.fb_erroffs; fb_state = x.fb_state;
           fb_soffs = x.fb_soffs; fb_pstart = x.fb_pstart; fb_pend =
           x.fb_pend; fb_vstart = x.fb_vstart; fb_vend = x.fb_vend }))
           (fun _ -> true) s)))
   | _ -> Some None)

(** val fb_endOfHdr :
    n -> byte list -> byte list -> n -> n -> n -> err -> pfrom -> pfrom ires **)

let fb_endOfHdr h pre rest i0 i ret e s =
  match fb_close pre rest i0 i s with
  | Some o ->
    (match o with
     | Some s1 ->
       Ret (ret, e,
         (set (fun p -> p.fb_type) (fun f ->
           let n0 = fun r -> f r.fb_type in
           (fun x -> { fb_name = x.fb_name; fb_uri = x.fb_uri; fb_tag =
           x.fb_tag; fb_star = x.fb_star; fb_lr = x.fb_lr; fb_hasexp =
           x.fb_hasexp; fb_type = (n0 x); fb_q = x.fb_q; fb_expires =
           x.fb_expires; fb_params = x.fb_params; fb_v = x.fb_v; fb_perr =
           x.fb_perr; fb_erroffs = x.fb_erroffs; fb_state = x.fb_state;
           fb_soffs = x.fb_soffs; fb_pstart = x.fb_pstart; fb_pend =
           x.fb_pend; fb_vstart = x.fb_vstart; fb_vend = x.fb_vend }))
           (fun _ -> h)
           (set (fun p -> p.fb_soffs) (fun f ->
             let n0 = fun r -> f r.fb_soffs in
             (fun x -> { fb_name = x.fb_name; fb_uri = x.fb_uri; fb_tag =
             x.fb_tag; fb_star = x.fb_star; fb_lr = x.fb_lr; fb_hasexp =
             x.fb_hasexp; fb_type = x.fb_type; fb_q = x.fb_q; fb_expires =
             x.fb_expires; fb_params = x.fb_params; fb_v = x.fb_v; fb_perr =
             x.fb_perr; fb_erroffs = x.fb_erroffs; fb_state = x.fb_state;
             fb_soffs = (n0 x); fb_pstart = x.fb_pstart; fb_pend = x.fb_pend;
             fb_vstart = x.fb_vstart; fb_vend = x.fb_vend })) (fun _ -> N0)
             (set (fun p -> p.fb_state) (fun f ->
               let f0 = fun r -> f r.fb_state in
               (fun x -> { fb_name = x.fb_name; fb_uri = x.fb_uri; fb_tag =
               x.fb_tag; fb_star = x.fb_star; fb_lr = x.fb_lr; fb_hasexp =
               x.fb_hasexp; fb_type = x.fb_type; fb_q = x.fb_q; fb_expires =
               x.fb_expires; fb_params = x.fb_params; fb_v = x.fb_v;
               fb_perr = x.fb_perr; fb_erroffs = x.fb_erroffs; fb_state =
               (f0 x); fb_soffs = x.fb_soffs; fb_pstart = x.fb_pstart;
               fb_pend = x.fb_pend; fb_vstart = x.fb_vstart; fb_vend =
               x.fb_vend })) (fun _ -> FbFIN) s1))))
     | None -> Ret (ret, (match s.fb_state with
                          | FbFIN -> EBug
                          | _ -> EBad), s))
  | None -> IPanic

(** val fb_moreValues :
    n -> byte list -> byte list -> n -> pfrom -> pfrom ires **)

let fb_moreValues h pre rest i s =
  let t = N.min (nnat (span is_ws pre)) (N.sub i s.fb_v.po) in
  fb_endOfHdr h pre rest i (N.sub i t) (N.add i (Npos XH)) EMoreValues s

(** val fb_lws : n -> byte list -> byte list -> n -> pfrom -> pfrom ires **)

let fb_lws h pre rest i s1 =
  match skipLWS false rest with
  | LOk k -> Next (k, s1)
  | LEOH (k, crl) ->
    fb_endOfHdr h pre rest i i (N.add (N.add i (nnat k)) (nnat crl)) EOk s1
  | LMore k -> Ret ((N.add i (nnat k)), EMore, s1)

(** val fb_lws_b :
    n -> byte list -> byte list -> n -> pfrom -> (n option -> pfrom) -> pfrom
    ires **)

let fb_lws_b h pre rest i s upd =
  match skipLWS false rest with
  | LOk k -> Next (k, (upd (Some (N.add i (nnat k)))))
  | LEOH (k, crl) ->
    fb_endOfHdr h pre rest i i (N.add (N.add i (nnat k)) (nnat crl)) EOk
      (upd None)
  | LMore _ -> Ret (i, EMore, s)

type ccls =
| KWs
| KComma
| KLt
| KGt
| KDq
| KSemi
| KStar
| KEq
| KBsl
| KOther

(** val ccls_of : byte -> ccls **)

let ccls_of c =
  if is_ws c
  then KWs
  else if N.eqb c (Npos (XO (XO (XI (XI (XO XH))))))
       then KComma
       else if N.eqb c (Npos (XO (XO (XI (XI (XI XH))))))
            then KLt
            else if N.eqb c (Npos (XO (XI (XI (XI (XI XH))))))
                 then KGt
                 else if N.eqb c (Npos (XO (XI (XO (XO (XO XH))))))
                      then KDq
                      else if N.eqb c (Npos (XI (XI (XO (XI (XI XH))))))
                           then KSemi
                           else if N.eqb c (Npos (XO (XI (XO (XI (XO XH))))))
                                then KStar
                                else if N.eqb c (Npos (XI (XO (XI (XI (XI
                                          XH))))))
                                     then KEq
                                     else if N.eqb c (Npos (XO (XO (XI (XI
                                               (XI (XO XH)))))))
                                          then KBsl
                                          else KOther

(** val fb_bad : n -> pfrom -> pfrom ires **)

let fb_bad i s =
  Ret (i, EBadChar, s)

(** val fb_reset3 : pfrom -> pfrom **)

let fb_reset3 s =
  set (fun p -> p.fb_tag) (fun f ->
    let p = fun r -> f r.fb_tag in
    (fun x -> { fb_name = x.fb_name; fb_uri = x.fb_uri; fb_tag = (p x);
    fb_star = x.fb_star; fb_lr = x.fb_lr; fb_hasexp = x.fb_hasexp; fb_type =
    x.fb_type; fb_q = x.fb_q; fb_expires = x.fb_expires; fb_params =
    x.fb_params; fb_v = x.fb_v; fb_perr = x.fb_perr; fb_erroffs =
    x.fb_erroffs; fb_state = x.fb_state; fb_soffs = x.fb_soffs; fb_pstart =
    x.fb_pstart; fb_pend = x.fb_pend; fb_vstart = x.fb_vstart; fb_vend =
    x.fb_vend })) (fun _ -> pf0)
    (set (fun p -> p.fb_params) (fun f ->
      let p = fun r -> f r.fb_params in
      (fun x -> { fb_name = x.fb_name; fb_uri = x.fb_uri; fb_tag = x.fb_tag;
      fb_star = x.fb_star; fb_lr = x.fb_lr; fb_hasexp = x.fb_hasexp;
      fb_type = x.fb_type; fb_q = x.fb_q; fb_expires = x.fb_expires;
      fb_params = (p x); fb_v = x.fb_v; fb_perr = x.fb_perr; fb_erroffs =
      x.fb_erroffs; fb_state = x.fb_state; fb_soffs = x.fb_soffs; fb_pstart =
      x.fb_pstart; fb_pend = x.fb_pend; fb_vstart = x.fb_vstart; fb_vend =
      x.fb_vend })) (fun _ -> pf0)
      (set (fun p -> p.fb_uri) (fun f ->
        let p = fun r -> f r.fb_uri in
        (fun x -> { fb_name = x.fb_name; fb_uri = (p x); fb_tag = x.fb_tag;
        fb_star = x.fb_star; fb_lr = x.fb_lr; fb_hasexp = x.fb_hasexp;
        fb_type = x.fb_type; fb_q = x.fb_q; fb_expires = x.fb_expires;
        fb_params = x.fb_params; fb_v = x.fb_v; fb_perr = x.fb_perr;
        fb_erroffs = x.fb_erroffs; fb_state = x.fb_state; fb_soffs =
        x.fb_soffs; fb_pstart = x.fb_pstart; fb_pend = x.fb_pend; fb_vstart =
        x.fb_vstart; fb_vend = x.fb_vend })) (fun _ -> pf0) s))

(** val fb_comma : n -> byte list -> byte list -> n -> pfrom -> pfrom ires **)

let fb_comma h pre rest i s =
  if multipleValsOk h then fb_moreValues h pre rest i s else Next ((S O), s)

(** val fb_comma_strict :
    n -> byte list -> byte list -> n -> pfrom -> pfrom ires **)

let fb_comma_strict h pre rest i s =
  if multipleValsOk h then fb_moreValues h pre rest i s else fb_bad i s

(** val fb_setpv : byte list -> byte list -> n -> pfrom -> pfrom ires **)

let fb_setpv pre rest i s =
  match setFromParamVal pre rest i s with
  | Some s1 -> Next ((S O), s1)
  | None -> IPanic

(** val is_st_init : fbst -> bool **)

let is_st_init = function
| FbInit -> true
| _ -> false

(** val is_st_nameoruri : fbst -> bool **)

let is_st_nameoruri = function
| FbNameOrURI -> true
| _ -> false

(** val is_st_nameoruriend : fbst -> bool **)

let is_st_nameoruriend = function
| FbNameOrURIEnd -> true
| _ -> false

(** val st_poss : fbst -> bool **)

let st_poss = function
| FbNewPossibleParam -> true
| FbPossibleParamName -> true
| FbPossibleParamNameEnd -> true
| FbNewPossibleVal -> true
| FbPossibleVal -> true
| FbPossibleValEnd -> true
| FbQuotedPossibleVal -> true
| _ -> false

(** val st_newparam : bool -> fbst **)

let st_newparam = function
| true -> FbNewPossibleParam
| false -> FbNewParam

(** val st_paramname : bool -> fbst **)

let st_paramname = function
| true -> FbPossibleParamName
| false -> FbParamName

(** val st_paramnameend : bool -> fbst **)

let st_paramnameend = function
| true -> FbPossibleParamNameEnd
| false -> FbParamNameEnd

(** val st_newval : bool -> fbst **)

let st_newval = function
| true -> FbNewPossibleVal
| false -> FbNewParamVal

(** val st_val : bool -> fbst **)

let st_val = function
| true -> FbPossibleVal
| false -> FbParamVal

(** val st_valend : bool -> fbst **)

let st_valend = function
| true -> FbPossibleValEnd
| false -> FbParamValEnd

(** val st_quotedval : bool -> fbst **)

let st_quotedval = function
| true -> FbQuotedPossibleVal
| false -> FbQuotedVal

(** val is_st_name : fbst -> bool **)

let is_st_name = function
| FbPossibleParamName -> true
| FbParamName -> true
| _ -> false

(** val is_st_new : fbst -> bool **)

let is_st_new = function
| FbNewPossibleParam -> true
| FbNewParam -> true
| FbNewParamVal -> true
| FbNewPossibleVal -> true
| _ -> false

(** val fb_gA :
    n -> byte list -> byte list -> n -> pfrom -> fbst -> ccls -> pfrom ires **)

let fb_gA h pre rest i s st = function
| KWs ->
  if is_st_nameoruri st
  then (match pf_set s.fb_soffs i with
        | Some u ->
          (match pf_extend s.fb_v i with
           | Some v ->
             fb_lws h pre rest i
               (set (fun p -> p.fb_state) (fun f ->
                 let f0 = fun r -> f r.fb_state in
                 (fun x -> { fb_name = x.fb_name; fb_uri = x.fb_uri; fb_tag =
                 x.fb_tag; fb_star = x.fb_star; fb_lr = x.fb_lr; fb_hasexp =
                 x.fb_hasexp; fb_type = x.fb_type; fb_q = x.fb_q;
                 fb_expires = x.fb_expires; fb_params = x.fb_params; fb_v =
                 x.fb_v; fb_perr = x.fb_perr; fb_erroffs = x.fb_erroffs;
                 fb_state = (f0 x); fb_soffs = x.fb_soffs; fb_pstart =
                 x.fb_pstart; fb_pend = x.fb_pend; fb_vstart = x.fb_vstart;
                 fb_vend = x.fb_vend })) (fun _ -> FbNameOrURIEnd)
                 (set (fun p -> p.fb_v) (fun f ->
                   let p = fun r -> f r.fb_v in
                   (fun x -> { fb_name = x.fb_name; fb_uri = x.fb_uri;
                   fb_tag = x.fb_tag; fb_star = x.fb_star; fb_lr = x.fb_lr;
                   fb_hasexp = x.fb_hasexp; fb_type = x.fb_type; fb_q =
                   x.fb_q; fb_expires = x.fb_expires; fb_params =
                   x.fb_params; fb_v = (p x); fb_perr = x.fb_perr;
                   fb_erroffs = x.fb_erroffs; fb_state = x.fb_state;
                   fb_soffs = x.fb_soffs; fb_pstart = x.fb_pstart; fb_pend =
                   x.fb_pend; fb_vstart = x.fb_vstart; fb_vend = x.fb_vend }))
                   (fun _ -> v)
                   (set (fun p -> p.fb_uri) (fun f ->
                     let p = fun r -> f r.fb_uri in
                     (fun x -> { fb_name = x.fb_name; fb_uri = (p x);
                     fb_tag = x.fb_tag; fb_star = x.fb_star; fb_lr = x.fb_lr;
                     fb_hasexp = x.fb_hasexp; fb_type = x.fb_type; fb_q =
                     x.fb_q; fb_expires = x.fb_expires; fb_params =
                     x.fb_params; fb_v = x.fb_v; fb_perr = x.fb_perr;
                     fb_erroffs = x.fb_erroffs; fb_state = x.fb_state;
                     fb_soffs = x.fb_soffs; fb_pstart = x.fb_pstart;
                     fb_pend = x.fb_pend; fb_vstart = x.fb_vstart; fb_vend =
                     x.fb_vend })) (fun _ -> u) s)))
           | None -> IPanic)
        | None -> IPanic)
  else fb_lws h pre rest i s
| KComma -> fb_comma h pre rest i s
| KLt ->
  if is_st_init st
  then (match pf_set i i with
        | Some v ->
          Next ((S O),
            (set (fun p -> p.fb_state) (fun f ->
              let f0 = fun r -> f r.fb_state in
              (fun x -> { fb_name = x.fb_name; fb_uri = x.fb_uri; fb_tag =
              x.fb_tag; fb_star = x.fb_star; fb_lr = x.fb_lr; fb_hasexp =
              x.fb_hasexp; fb_type = x.fb_type; fb_q = x.fb_q; fb_expires =
              x.fb_expires; fb_params = x.fb_params; fb_v = x.fb_v; fb_perr =
              x.fb_perr; fb_erroffs = x.fb_erroffs; fb_state = (f0 x);
              fb_soffs = x.fb_soffs; fb_pstart = x.fb_pstart; fb_pend =
              x.fb_pend; fb_vstart = x.fb_vstart; fb_vend = x.fb_vend }))
              (fun _ -> FbURI)
              (set (fun p -> p.fb_soffs) (fun f ->
                let n0 = fun r -> f r.fb_soffs in
                (fun x -> { fb_name = x.fb_name; fb_uri = x.fb_uri; fb_tag =
                x.fb_tag; fb_star = x.fb_star; fb_lr = x.fb_lr; fb_hasexp =
                x.fb_hasexp; fb_type = x.fb_type; fb_q = x.fb_q; fb_expires =
                x.fb_expires; fb_params = x.fb_params; fb_v = x.fb_v;
                fb_perr = x.fb_perr; fb_erroffs = x.fb_erroffs; fb_state =
                x.fb_state; fb_soffs = (n0 x); fb_pstart = x.fb_pstart;
                fb_pend = x.fb_pend; fb_vstart = x.fb_vstart; fb_vend =
                x.fb_vend })) (fun _ -> N.add i (Npos XH))
                (set (fun p -> p.fb_v) (fun f ->
                  let p = fun r -> f r.fb_v in
                  (fun x -> { fb_name = x.fb_name; fb_uri = x.fb_uri;
                  fb_tag = x.fb_tag; fb_star = x.fb_star; fb_lr = x.fb_lr;
                  fb_hasexp = x.fb_hasexp; fb_type = x.fb_type; fb_q =
                  x.fb_q; fb_expires = x.fb_expires; fb_params = x.fb_params;
                  fb_v = (p x); fb_perr = x.fb_perr; fb_erroffs =
                  x.fb_erroffs; fb_state = x.fb_state; fb_soffs = x.fb_soffs;
                  fb_pstart = x.fb_pstart; fb_pend = x.fb_pend; fb_vstart =
                  x.fb_vstart; fb_vend = x.fb_vend })) (fun _ -> v) s))))
        | None -> IPanic)
  else (match pf_set s.fb_soffs i with
        | Some n0 ->
          Next ((S O),
            (set (fun p -> p.fb_state) (fun f ->
              let f0 = fun r -> f r.fb_state in
              (fun x -> { fb_name = x.fb_name; fb_uri = x.fb_uri; fb_tag =
              x.fb_tag; fb_star = x.fb_star; fb_lr = x.fb_lr; fb_hasexp =
              x.fb_hasexp; fb_type = x.fb_type; fb_q = x.fb_q; fb_expires =
              x.fb_expires; fb_params = x.fb_params; fb_v = x.fb_v; fb_perr =
              x.fb_perr; fb_erroffs = x.fb_erroffs; fb_state = (f0 x);
              fb_soffs = x.fb_soffs; fb_pstart = x.fb_pstart; fb_pend =
              x.fb_pend; fb_vstart = x.fb_vstart; fb_vend = x.fb_vend }))
              (fun _ -> FbURI)
              (set (fun p -> p.fb_soffs) (fun f ->
                let n1 = fun r -> f r.fb_soffs in
                (fun x -> { fb_name = x.fb_name; fb_uri = x.fb_uri; fb_tag =
                x.fb_tag; fb_star = x.fb_star; fb_lr = x.fb_lr; fb_hasexp =
                x.fb_hasexp; fb_type = x.fb_type; fb_q = x.fb_q; fb_expires =
                x.fb_expires; fb_params = x.fb_params; fb_v = x.fb_v;
                fb_perr = x.fb_perr; fb_erroffs = x.fb_erroffs; fb_state =
                x.fb_state; fb_soffs = (n1 x); fb_pstart = x.fb_pstart;
                fb_pend = x.fb_pend; fb_vstart = x.fb_vstart; fb_vend =
                x.fb_vend })) (fun _ -> N.add i (Npos XH))
                (fb_reset3
                  (set (fun p -> p.fb_name) (fun f ->
                    let p = fun r -> f r.fb_name in
                    (fun x -> { fb_name = (p x); fb_uri = x.fb_uri; fb_tag =
                    x.fb_tag; fb_star = x.fb_star; fb_lr = x.fb_lr;
                    fb_hasexp = x.fb_hasexp; fb_type = x.fb_type; fb_q =
                    x.fb_q; fb_expires = x.fb_expires; fb_params =
                    x.fb_params; fb_v = x.fb_v; fb_perr = x.fb_perr;
                    fb_erroffs = x.fb_erroffs; fb_state = x.fb_state;
                    fb_soffs = x.fb_soffs; fb_pstart = x.fb_pstart; fb_pend =
                    x.fb_pend; fb_vstart = x.fb_vstart; fb_vend = x.fb_vend }))
                    (fun _ -> n0) s)))))
        | None -> IPanic)
| KGt -> fb_bad i s
| KDq ->
  if is_st_init st
  then (match pf_set i i with
        | Some v ->
          Next ((S O),
            (set (fun p -> p.fb_state) (fun f ->
              let f0 = fun r -> f r.fb_state in
              (fun x -> { fb_name = x.fb_name; fb_uri = x.fb_uri; fb_tag =
              x.fb_tag; fb_star = x.fb_star; fb_lr = x.fb_lr; fb_hasexp =
              x.fb_hasexp; fb_type = x.fb_type; fb_q = x.fb_q; fb_expires =
              x.fb_expires; fb_params = x.fb_params; fb_v = x.fb_v; fb_perr =
              x.fb_perr; fb_erroffs = x.fb_erroffs; fb_state = (f0 x);
              fb_soffs = x.fb_soffs; fb_pstart = x.fb_pstart; fb_pend =
              x.fb_pend; fb_vstart = x.fb_vstart; fb_vend = x.fb_vend }))
              (fun _ -> FbQuoted)
              (set (fun p -> p.fb_v) (fun f ->
                let p = fun r -> f r.fb_v in
                (fun x -> { fb_name = x.fb_name; fb_uri = x.fb_uri; fb_tag =
                x.fb_tag; fb_star = x.fb_star; fb_lr = x.fb_lr; fb_hasexp =
                x.fb_hasexp; fb_type = x.fb_type; fb_q = x.fb_q; fb_expires =
                x.fb_expires; fb_params = x.fb_params; fb_v = (p x);
                fb_perr = x.fb_perr; fb_erroffs = x.fb_erroffs; fb_state =
                x.fb_state; fb_soffs = x.fb_soffs; fb_pstart = x.fb_pstart;
                fb_pend = x.fb_pend; fb_vstart = x.fb_vstart; fb_vend =
                x.fb_vend })) (fun _ -> v)
                (set (fun p -> p.fb_soffs) (fun f ->
                  let n0 = fun r -> f r.fb_soffs in
                  (fun x -> { fb_name = x.fb_name; fb_uri = x.fb_uri;
                  fb_tag = x.fb_tag; fb_star = x.fb_star; fb_lr = x.fb_lr;
                  fb_hasexp = x.fb_hasexp; fb_type = x.fb_type; fb_q =
                  x.fb_q; fb_expires = x.fb_expires; fb_params = x.fb_params;
                  fb_v = x.fb_v; fb_perr = x.fb_perr; fb_erroffs =
                  x.fb_erroffs; fb_state = x.fb_state; fb_soffs = (n0 x);
                  fb_pstart = x.fb_pstart; fb_pend = x.fb_pend; fb_vstart =
                  x.fb_vstart; fb_vend = x.fb_vend })) (fun _ -> i) s))))
        | None -> IPanic)
  else Next ((S O),
         (set (fun p -> p.fb_state) (fun f ->
           let f0 = fun r -> f r.fb_state in
           (fun x -> { fb_name = x.fb_name; fb_uri = x.fb_uri; fb_tag =
           x.fb_tag; fb_star = x.fb_star; fb_lr = x.fb_lr; fb_hasexp =
           x.fb_hasexp; fb_type = x.fb_type; fb_q = x.fb_q; fb_expires =
           x.fb_expires; fb_params = x.fb_params; fb_v = x.fb_v; fb_perr =
           x.fb_perr; fb_erroffs = x.fb_erroffs; fb_state = (f0 x);
           fb_soffs = x.fb_soffs; fb_pstart = x.fb_pstart; fb_pend =
           x.fb_pend; fb_vstart = x.fb_vstart; fb_vend = x.fb_vend }))
           (fun _ -> FbQuoted) (fb_reset3 s)))
| KSemi ->
  if is_st_nameoruri st
  then (match pf_set s.fb_soffs i with
        | Some u ->
          (match pf_extend s.fb_v (N.add i (Npos XH)) with
           | Some v ->
             Next ((S O),
               (set (fun p -> p.fb_state) (fun f ->
                 let f0 = fun r -> f r.fb_state in
                 (fun x -> { fb_name = x.fb_name; fb_uri = x.fb_uri; fb_tag =
                 x.fb_tag; fb_star = x.fb_star; fb_lr = x.fb_lr; fb_hasexp =
                 x.fb_hasexp; fb_type = x.fb_type; fb_q = x.fb_q;
                 fb_expires = x.fb_expires; fb_params = x.fb_params; fb_v =
                 x.fb_v; fb_perr = x.fb_perr; fb_erroffs = x.fb_erroffs;
                 fb_state = (f0 x); fb_soffs = x.fb_soffs; fb_pstart =
                 x.fb_pstart; fb_pend = x.fb_pend; fb_vstart = x.fb_vstart;
                 fb_vend = x.fb_vend })) (fun _ -> FbNewPossibleParam)
                 (set (fun p -> p.fb_soffs) (fun f ->
                   let n0 = fun r -> f r.fb_soffs in
                   (fun x -> { fb_name = x.fb_name; fb_uri = x.fb_uri;
                   fb_tag = x.fb_tag; fb_star = x.fb_star; fb_lr = x.fb_lr;
                   fb_hasexp = x.fb_hasexp; fb_type = x.fb_type; fb_q =
                   x.fb_q; fb_expires = x.fb_expires; fb_params =
                   x.fb_params; fb_v = x.fb_v; fb_perr = x.fb_perr;
                   fb_erroffs = x.fb_erroffs; fb_state = x.fb_state;
                   fb_soffs = (n0 x); fb_pstart = x.fb_pstart; fb_pend =
                   x.fb_pend; fb_vstart = x.fb_vstart; fb_vend = x.fb_vend }))
                   (fun _ -> N.add i (Npos XH))
                   (set (fun p -> p.fb_v) (fun f ->
                     let p = fun r -> f r.fb_v in
                     (fun x -> { fb_name = x.fb_name; fb_uri = x.fb_uri;
                     fb_tag = x.fb_tag; fb_star = x.fb_star; fb_lr = x.fb_lr;
                     fb_hasexp = x.fb_hasexp; fb_type = x.fb_type; fb_q =
                     x.fb_q; fb_expires = x.fb_expires; fb_params =
                     x.fb_params; fb_v = (p x); fb_perr = x.fb_perr;
                     fb_erroffs = x.fb_erroffs; fb_state = x.fb_state;
                     fb_soffs = x.fb_soffs; fb_pstart = x.fb_pstart;
                     fb_pend = x.fb_pend; fb_vstart = x.fb_vstart; fb_vend =
                     x.fb_vend })) (fun _ -> v)
                     (set (fun p -> p.fb_uri) (fun f ->
                       let p = fun r -> f r.fb_uri in
                       (fun x -> { fb_name = x.fb_name; fb_uri = (p x);
                       fb_tag = x.fb_tag; fb_star = x.fb_star; fb_lr =
                       x.fb_lr; fb_hasexp = x.fb_hasexp; fb_type = x.fb_type;
                       fb_q = x.fb_q; fb_expires = x.fb_expires; fb_params =
                       x.fb_params; fb_v = x.fb_v; fb_perr = x.fb_perr;
                       fb_erroffs = x.fb_erroffs; fb_state = x.fb_state;
                       fb_soffs = x.fb_soffs; fb_pstart = x.fb_pstart;
                       fb_pend = x.fb_pend; fb_vstart = x.fb_vstart;
                       fb_vend = x.fb_vend })) (fun _ -> u) s)))))
           | None -> IPanic)
        | None -> IPanic)
  else if is_st_nameoruriend st
       then Next ((S O),
              (set (fun p -> p.fb_state) (fun f ->
                let f0 = fun r -> f r.fb_state in
                (fun x -> { fb_name = x.fb_name; fb_uri = x.fb_uri; fb_tag =
                x.fb_tag; fb_star = x.fb_star; fb_lr = x.fb_lr; fb_hasexp =
                x.fb_hasexp; fb_type = x.fb_type; fb_q = x.fb_q; fb_expires =
                x.fb_expires; fb_params = x.fb_params; fb_v = x.fb_v;
                fb_perr = x.fb_perr; fb_erroffs = x.fb_erroffs; fb_state =
                (f0 x); fb_soffs = x.fb_soffs; fb_pstart = x.fb_pstart;
                fb_pend = x.fb_pend; fb_vstart = x.fb_vstart; fb_vend =
                x.fb_vend })) (fun _ -> FbNewPossibleParam) s))
       else fb_bad i s
| KStar ->
  if is_st_init st
  then (match pf_set i (N.add i (Npos XH)) with
        | Some v ->
          Next ((S O),
            (set (fun p -> p.fb_v) (fun f ->
              let p = fun r -> f r.fb_v in
              (fun x -> { fb_name = x.fb_name; fb_uri = x.fb_uri; fb_tag =
              x.fb_tag; fb_star = x.fb_star; fb_lr = x.fb_lr; fb_hasexp =
              x.fb_hasexp; fb_type = x.fb_type; fb_q = x.fb_q; fb_expires =
              x.fb_expires; fb_params = x.fb_params; fb_v = (p x); fb_perr =
              x.fb_perr; fb_erroffs = x.fb_erroffs; fb_state = x.fb_state;
              fb_soffs = x.fb_soffs; fb_pstart = x.fb_pstart; fb_pend =
              x.fb_pend; fb_vstart = x.fb_vstart; fb_vend = x.fb_vend }))
              (fun _ -> v)
              (set (fun p -> p.fb_soffs) (fun f ->
                let n0 = fun r -> f r.fb_soffs in
                (fun x -> { fb_name = x.fb_name; fb_uri = x.fb_uri; fb_tag =
                x.fb_tag; fb_star = x.fb_star; fb_lr = x.fb_lr; fb_hasexp =
                x.fb_hasexp; fb_type = x.fb_type; fb_q = x.fb_q; fb_expires =
                x.fb_expires; fb_params = x.fb_params; fb_v = x.fb_v;
                fb_perr = x.fb_perr; fb_erroffs = x.fb_erroffs; fb_state =
                x.fb_state; fb_soffs = (n0 x); fb_pstart = x.fb_pstart;
                fb_pend = x.fb_pend; fb_vstart = x.fb_vstart; fb_vend =
                x.fb_vend })) (fun _ -> i)
                (set (fun p -> p.fb_state) (fun f ->
                  let f0 = fun r -> f r.fb_state in
                  (fun x -> { fb_name = x.fb_name; fb_uri = x.fb_uri;
                  fb_tag = x.fb_tag; fb_star = x.fb_star; fb_lr = x.fb_lr;
                  fb_hasexp = x.fb_hasexp; fb_type = x.fb_type; fb_q =
                  x.fb_q; fb_expires = x.fb_expires; fb_params = x.fb_params;
                  fb_v = x.fb_v; fb_perr = x.fb_perr; fb_erroffs =
                  x.fb_erroffs; fb_state = (f0 x); fb_soffs = x.fb_soffs;
                  fb_pstart = x.fb_pstart; fb_pend = x.fb_pend; fb_vstart =
                  x.fb_vstart; fb_vend = x.fb_vend })) (fun _ -> FbStar) s))))
        | None -> IPanic)
  else Next ((S O), s)
| _ ->
  if is_st_init st
  then (match pf_set i i with
        | Some v ->
          Next ((S O),
            (set (fun p -> p.fb_state) (fun f ->
              let f0 = fun r -> f r.fb_state in
              (fun x -> { fb_name = x.fb_name; fb_uri = x.fb_uri; fb_tag =
              x.fb_tag; fb_star = x.fb_star; fb_lr = x.fb_lr; fb_hasexp =
              x.fb_hasexp; fb_type = x.fb_type; fb_q = x.fb_q; fb_expires =
              x.fb_expires; fb_params = x.fb_params; fb_v = x.fb_v; fb_perr =
              x.fb_perr; fb_erroffs = x.fb_erroffs; fb_state = (f0 x);
              fb_soffs = x.fb_soffs; fb_pstart = x.fb_pstart; fb_pend =
              x.fb_pend; fb_vstart = x.fb_vstart; fb_vend = x.fb_vend }))
              (fun _ -> FbNameOrURI)
              (set (fun p -> p.fb_v) (fun f ->
                let p = fun r -> f r.fb_v in
                (fun x -> { fb_name = x.fb_name; fb_uri = x.fb_uri; fb_tag =
                x.fb_tag; fb_star = x.fb_star; fb_lr = x.fb_lr; fb_hasexp =
                x.fb_hasexp; fb_type = x.fb_type; fb_q = x.fb_q; fb_expires =
                x.fb_expires; fb_params = x.fb_params; fb_v = (p x);
                fb_perr = x.fb_perr; fb_erroffs = x.fb_erroffs; fb_state =
                x.fb_state; fb_soffs = x.fb_soffs; fb_pstart = x.fb_pstart;
                fb_pend = x.fb_pend; fb_vstart = x.fb_vstart; fb_vend =
                x.fb_vend })) (fun _ -> v)
                (set (fun p -> p.fb_soffs) (fun f ->
                  let n0 = fun r -> f r.fb_soffs in
                  (fun x -> { fb_name = x.fb_name; fb_uri = x.fb_uri;
                  fb_tag = x.fb_tag; fb_star = x.fb_star; fb_lr = x.fb_lr;
                  fb_hasexp = x.fb_hasexp; fb_type = x.fb_type; fb_q =
                  x.fb_q; fb_expires = x.fb_expires; fb_params = x.fb_params;
                  fb_v = x.fb_v; fb_perr = x.fb_perr; fb_erroffs =
                  x.fb_erroffs; fb_state = x.fb_state; fb_soffs = (n0 x);
                  fb_pstart = x.fb_pstart; fb_pend = x.fb_pend; fb_vstart =
                  x.fb_vstart; fb_vend = x.fb_vend })) (fun _ -> i) s))))
        | None -> IPanic)
  else if is_st_nameoruriend st
       then Next ((S O),
              (fb_reset3
                (set (fun p -> p.fb_state) (fun f ->
                  let f0 = fun r -> f r.fb_state in
                  (fun x -> { fb_name = x.fb_name; fb_uri = x.fb_uri;
                  fb_tag = x.fb_tag; fb_star = x.fb_star; fb_lr = x.fb_lr;
                  fb_hasexp = x.fb_hasexp; fb_type = x.fb_type; fb_q =
                  x.fb_q; fb_expires = x.fb_expires; fb_params = x.fb_params;
                  fb_v = x.fb_v; fb_perr = x.fb_perr; fb_erroffs =
                  x.fb_erroffs; fb_state = (f0 x); fb_soffs = x.fb_soffs;
                  fb_pstart = x.fb_pstart; fb_pend = x.fb_pend; fb_vstart =
                  x.fb_vstart; fb_vend = x.fb_vend })) (fun _ -> FbName) s)))
       else Next ((S O), s)

(** val fb_gQ :
    n -> byte list -> byte list -> byte list -> n -> pfrom -> fbst -> ccls ->
    pfrom ires **)

let fb_gQ h pre rest r1 i s st = function
| KWs -> fb_lws h pre rest i s
| KDq ->
  Next ((S O),
    (set (fun p -> p.fb_state) (fun f ->
      let f0 = fun r -> f r.fb_state in
      (fun x -> { fb_name = x.fb_name; fb_uri = x.fb_uri; fb_tag = x.fb_tag;
      fb_star = x.fb_star; fb_lr = x.fb_lr; fb_hasexp = x.fb_hasexp;
      fb_type = x.fb_type; fb_q = x.fb_q; fb_expires = x.fb_expires;
      fb_params = x.fb_params; fb_v = x.fb_v; fb_perr = x.fb_perr;
      fb_erroffs = x.fb_erroffs; fb_state = (f0 x); fb_soffs = x.fb_soffs;
      fb_pstart = x.fb_pstart; fb_pend = x.fb_pend; fb_vstart = x.fb_vstart;
      fb_vend = x.fb_vend })) (fun _ ->
      match st with
      | FbQuoted -> FbName
      | FbQuotedVal -> FbParamVal
      | _ -> FbPossibleVal) s))
| KBsl ->
  (match r1 with
   | [] -> Ret (i, EMore, s)
   | d :: _ ->
     if is_crlf d
     then Ret ((N.add i (Npos XH)), EBadChar, s)
     else Next ((S (S O)), s))
| _ -> Next ((S O), s)

(** val fb_gURI : n -> pfrom -> ccls -> pfrom ires **)

let fb_gURI i s = function
| KWs -> fb_bad i s
| KLt -> fb_bad i s
| KGt ->
  (match pf_set s.fb_soffs i with
   | Some u ->
     (match pf_extend s.fb_v (N.add i (Npos XH)) with
      | Some v ->
        Next ((S O),
          (set (fun p -> p.fb_state) (fun f ->
            let f0 = fun r -> f r.fb_state in
            (fun x -> { fb_name = x.fb_name; fb_uri = x.fb_uri; fb_tag =
            x.fb_tag; fb_star = x.fb_star; fb_lr = x.fb_lr; fb_hasexp =
            x.fb_hasexp; fb_type = x.fb_type; fb_q = x.fb_q; fb_expires =
            x.fb_expires; fb_params = x.fb_params; fb_v = x.fb_v; fb_perr =
            x.fb_perr; fb_erroffs = x.fb_erroffs; fb_state = (f0 x);
            fb_soffs = x.fb_soffs; fb_pstart = x.fb_pstart; fb_pend =
            x.fb_pend; fb_vstart = x.fb_vstart; fb_vend = x.fb_vend }))
            (fun _ -> FbURIFound)
            (set (fun p -> p.fb_v) (fun f ->
              let p = fun r -> f r.fb_v in
              (fun x -> { fb_name = x.fb_name; fb_uri = x.fb_uri; fb_tag =
              x.fb_tag; fb_star = x.fb_star; fb_lr = x.fb_lr; fb_hasexp =
              x.fb_hasexp; fb_type = x.fb_type; fb_q = x.fb_q; fb_expires =
              x.fb_expires; fb_params = x.fb_params; fb_v = (p x); fb_perr =
              x.fb_perr; fb_erroffs = x.fb_erroffs; fb_state = x.fb_state;
              fb_soffs = x.fb_soffs; fb_pstart = x.fb_pstart; fb_pend =
              x.fb_pend; fb_vstart = x.fb_vstart; fb_vend = x.fb_vend }))
              (fun _ -> v)
              (set (fun p -> p.fb_uri) (fun f ->
                let p = fun r -> f r.fb_uri in
                (fun x -> { fb_name = x.fb_name; fb_uri = (p x); fb_tag =
                x.fb_tag; fb_star = x.fb_star; fb_lr = x.fb_lr; fb_hasexp =
                x.fb_hasexp; fb_type = x.fb_type; fb_q = x.fb_q; fb_expires =
                x.fb_expires; fb_params = x.fb_params; fb_v = x.fb_v;
                fb_perr = x.fb_perr; fb_erroffs = x.fb_erroffs; fb_state =
                x.fb_state; fb_soffs = x.fb_soffs; fb_pstart = x.fb_pstart;
                fb_pend = x.fb_pend; fb_vstart = x.fb_vstart; fb_vend =
                x.fb_vend })) (fun _ -> u) s))))
      | None -> IPanic)
   | None -> IPanic)
| _ -> Next ((S O), s)

(** val fb_gURIFound :
    n -> byte list -> byte list -> n -> pfrom -> ccls -> pfrom ires **)

let fb_gURIFound h pre rest i s = function
| KWs -> fb_lws h pre rest i s
| KComma -> fb_comma h pre rest i s
| KSemi ->
  Next ((S O),
    (set (fun p -> p.fb_soffs) (fun f ->
      let n0 = fun r -> f r.fb_soffs in
      (fun x -> { fb_name = x.fb_name; fb_uri = x.fb_uri; fb_tag = x.fb_tag;
      fb_star = x.fb_star; fb_lr = x.fb_lr; fb_hasexp = x.fb_hasexp;
      fb_type = x.fb_type; fb_q = x.fb_q; fb_expires = x.fb_expires;
      fb_params = x.fb_params; fb_v = x.fb_v; fb_perr = x.fb_perr;
      fb_erroffs = x.fb_erroffs; fb_state = x.fb_state; fb_soffs = (n0 x);
      fb_pstart = x.fb_pstart; fb_pend = x.fb_pend; fb_vstart = x.fb_vstart;
      fb_vend = x.fb_vend })) (fun _ -> N0)
      (set (fun p -> p.fb_state) (fun f ->
        let f0 = fun r -> f r.fb_state in
        (fun x -> { fb_name = x.fb_name; fb_uri = x.fb_uri; fb_tag =
        x.fb_tag; fb_star = x.fb_star; fb_lr = x.fb_lr; fb_hasexp =
        x.fb_hasexp; fb_type = x.fb_type; fb_q = x.fb_q; fb_expires =
        x.fb_expires; fb_params = x.fb_params; fb_v = x.fb_v; fb_perr =
        x.fb_perr; fb_erroffs = x.fb_erroffs; fb_state = (f0 x); fb_soffs =
        x.fb_soffs; fb_pstart = x.fb_pstart; fb_pend = x.fb_pend; fb_vstart =
        x.fb_vstart; fb_vend = x.fb_vend })) (fun _ -> FbNewParam) s)))
| _ -> Next ((S O), s)

(** val fb_gP :
    n -> byte list -> byte list -> n -> pfrom -> fbst -> ccls -> pfrom ires **)

let fb_gP h pre rest i s st k =
  let p = st_poss st in
  (match k with
   | KWs ->
     fb_lws_b h pre rest i s (fun _ ->
       if is_st_name st
       then set (fun p0 -> p0.fb_pend) (fun f ->
              let n0 = fun r -> f r.fb_pend in
              (fun x -> { fb_name = x.fb_name; fb_uri = x.fb_uri; fb_tag =
              x.fb_tag; fb_star = x.fb_star; fb_lr = x.fb_lr; fb_hasexp =
              x.fb_hasexp; fb_type = x.fb_type; fb_q = x.fb_q; fb_expires =
              x.fb_expires; fb_params = x.fb_params; fb_v = x.fb_v; fb_perr =
              x.fb_perr; fb_erroffs = x.fb_erroffs; fb_state = x.fb_state;
              fb_soffs = x.fb_soffs; fb_pstart = x.fb_pstart; fb_pend =
              (n0 x); fb_vstart = x.fb_vstart; fb_vend = x.fb_vend }))
              (fun _ -> i)
              (set (fun p0 -> p0.fb_state) (fun f ->
                let f0 = fun r -> f r.fb_state in
                (fun x -> { fb_name = x.fb_name; fb_uri = x.fb_uri; fb_tag =
                x.fb_tag; fb_star = x.fb_star; fb_lr = x.fb_lr; fb_hasexp =
                x.fb_hasexp; fb_type = x.fb_type; fb_q = x.fb_q; fb_expires =
                x.fb_expires; fb_params = x.fb_params; fb_v = x.fb_v;
                fb_perr = x.fb_perr; fb_erroffs = x.fb_erroffs; fb_state =
                (f0 x); fb_soffs = x.fb_soffs; fb_pstart = x.fb_pstart;
                fb_pend = x.fb_pend; fb_vstart = x.fb_vstart; fb_vend =
                x.fb_vend })) (fun _ -> st_paramnameend p) s)
       else s)
   | KComma -> fb_comma h pre rest i s
   | KLt -> fb_bad i s
   | KGt -> fb_bad i s
   | KSemi ->
     if is_st_name st
     then fb_setpv pre rest i
            (set (fun p0 -> p0.fb_pend) (fun f ->
              let n0 = fun r -> f r.fb_pend in
              (fun x -> { fb_name = x.fb_name; fb_uri = x.fb_uri; fb_tag =
              x.fb_tag; fb_star = x.fb_star; fb_lr = x.fb_lr; fb_hasexp =
              x.fb_hasexp; fb_type = x.fb_type; fb_q = x.fb_q; fb_expires =
              x.fb_expires; fb_params = x.fb_params; fb_v = x.fb_v; fb_perr =
              x.fb_perr; fb_erroffs = x.fb_erroffs; fb_state = x.fb_state;
              fb_soffs = x.fb_soffs; fb_pstart = x.fb_pstart; fb_pend =
              (n0 x); fb_vstart = x.fb_vstart; fb_vend = x.fb_vend }))
              (fun _ -> i)
              (set (fun p0 -> p0.fb_state) (fun f ->
                let f0 = fun r -> f r.fb_state in
                (fun x -> { fb_name = x.fb_name; fb_uri = x.fb_uri; fb_tag =
                x.fb_tag; fb_star = x.fb_star; fb_lr = x.fb_lr; fb_hasexp =
                x.fb_hasexp; fb_type = x.fb_type; fb_q = x.fb_q; fb_expires =
                x.fb_expires; fb_params = x.fb_params; fb_v = x.fb_v;
                fb_perr = x.fb_perr; fb_erroffs = x.fb_erroffs; fb_state =
                (f0 x); fb_soffs = x.fb_soffs; fb_pstart = x.fb_pstart;
                fb_pend = x.fb_pend; fb_vstart = x.fb_vstart; fb_vend =
                x.fb_vend })) (fun _ -> st_newparam p) s))
     else Next ((S O), s)
   | KEq ->
     if is_st_name st
     then Next ((S O),
            (set (fun p0 -> p0.fb_vstart) (fun f ->
              let n0 = fun r -> f r.fb_vstart in
              (fun x -> { fb_name = x.fb_name; fb_uri = x.fb_uri; fb_tag =
              x.fb_tag; fb_star = x.fb_star; fb_lr = x.fb_lr; fb_hasexp =
              x.fb_hasexp; fb_type = x.fb_type; fb_q = x.fb_q; fb_expires =
              x.fb_expires; fb_params = x.fb_params; fb_v = x.fb_v; fb_perr =
              x.fb_perr; fb_erroffs = x.fb_erroffs; fb_state = x.fb_state;
              fb_soffs = x.fb_soffs; fb_pstart = x.fb_pstart; fb_pend =
              x.fb_pend; fb_vstart = (n0 x); fb_vend = x.fb_vend }))
              (fun _ -> N.add i (Npos XH))
              (set (fun p0 -> p0.fb_pend) (fun f ->
                let n0 = fun r -> f r.fb_pend in
                (fun x -> { fb_name = x.fb_name; fb_uri = x.fb_uri; fb_tag =
                x.fb_tag; fb_star = x.fb_star; fb_lr = x.fb_lr; fb_hasexp =
                x.fb_hasexp; fb_type = x.fb_type; fb_q = x.fb_q; fb_expires =
                x.fb_expires; fb_params = x.fb_params; fb_v = x.fb_v;
                fb_perr = x.fb_perr; fb_erroffs = x.fb_erroffs; fb_state =
                x.fb_state; fb_soffs = x.fb_soffs; fb_pstart = x.fb_pstart;
                fb_pend = (n0 x); fb_vstart = x.fb_vstart; fb_vend =
                x.fb_vend })) (fun _ -> i)
                (set (fun p0 -> p0.fb_state) (fun f ->
                  let f0 = fun r -> f r.fb_state in
                  (fun x -> { fb_name = x.fb_name; fb_uri = x.fb_uri;
                  fb_tag = x.fb_tag; fb_star = x.fb_star; fb_lr = x.fb_lr;
                  fb_hasexp = x.fb_hasexp; fb_type = x.fb_type; fb_q =
                  x.fb_q; fb_expires = x.fb_expires; fb_params = x.fb_params;
                  fb_v = x.fb_v; fb_perr = x.fb_perr; fb_erroffs =
                  x.fb_erroffs; fb_state = (f0 x); fb_soffs = x.fb_soffs;
                  fb_pstart = x.fb_pstart; fb_pend = x.fb_pend; fb_vstart =
                  x.fb_vstart; fb_vend = x.fb_vend })) (fun _ -> st_newval p)
                  s))))
     else fb_bad i s
   | _ ->
     let s1 =
       if is_st_name st
       then s
       else set (fun p0 -> p0.fb_pstart) (fun f ->
              let n0 = fun r -> f r.fb_pstart in
              (fun x -> { fb_name = x.fb_name; fb_uri = x.fb_uri; fb_tag =
              x.fb_tag; fb_star = x.fb_star; fb_lr = x.fb_lr; fb_hasexp =
              x.fb_hasexp; fb_type = x.fb_type; fb_q = x.fb_q; fb_expires =
              x.fb_expires; fb_params = x.fb_params; fb_v = x.fb_v; fb_perr =
              x.fb_perr; fb_erroffs = x.fb_erroffs; fb_state = x.fb_state;
              fb_soffs = x.fb_soffs; fb_pstart = (n0 x); fb_pend = x.fb_pend;
              fb_vstart = x.fb_vstart; fb_vend = x.fb_vend })) (fun _ -> i)
              (set (fun p0 -> p0.fb_state) (fun f ->
                let f0 = fun r -> f r.fb_state in
                (fun x -> { fb_name = x.fb_name; fb_uri = x.fb_uri; fb_tag =
                x.fb_tag; fb_star = x.fb_star; fb_lr = x.fb_lr; fb_hasexp =
                x.fb_hasexp; fb_type = x.fb_type; fb_q = x.fb_q; fb_expires =
                x.fb_expires; fb_params = x.fb_params; fb_v = x.fb_v;
                fb_perr = x.fb_perr; fb_erroffs = x.fb_erroffs; fb_state =
                (f0 x); fb_soffs = x.fb_soffs; fb_pstart = x.fb_pstart;
                fb_pend = x.fb_pend; fb_vstart = x.fb_vstart; fb_vend =
                x.fb_vend })) (fun _ -> st_paramname p) s)
     in
     Next ((S O),
     (if N.eqb s1.fb_params.po N0
      then set (fun p0 -> p0.fb_params) (fun f ->
             let p0 = fun r -> f r.fb_params in
             (fun x -> { fb_name = x.fb_name; fb_uri = x.fb_uri; fb_tag =
             x.fb_tag; fb_star = x.fb_star; fb_lr = x.fb_lr; fb_hasexp =
             x.fb_hasexp; fb_type = x.fb_type; fb_q = x.fb_q; fb_expires =
             x.fb_expires; fb_params = (p0 x); fb_v = x.fb_v; fb_perr =
             x.fb_perr; fb_erroffs = x.fb_erroffs; fb_state = x.fb_state;
             fb_soffs = x.fb_soffs; fb_pstart = x.fb_pstart; fb_pend =
             x.fb_pend; fb_vstart = x.fb_vstart; fb_vend = x.fb_vend }))
             (fun _ -> { po = i; pl = s1.fb_params.pl }) s1
      else s1)))

(** val fb_gPE :
    n -> byte list -> byte list -> n -> pfrom -> fbst -> ccls -> pfrom ires **)

let fb_gPE h pre rest i s st k =
  let p = st_poss st in
  (match k with
   | KComma -> fb_comma_strict h pre rest i s
   | KSemi ->
     fb_setpv pre rest i
       (set (fun p0 -> p0.fb_state) (fun f ->
         let f0 = fun r -> f r.fb_state in
         (fun x -> { fb_name = x.fb_name; fb_uri = x.fb_uri; fb_tag =
         x.fb_tag; fb_star = x.fb_star; fb_lr = x.fb_lr; fb_hasexp =
         x.fb_hasexp; fb_type = x.fb_type; fb_q = x.fb_q; fb_expires =
         x.fb_expires; fb_params = x.fb_params; fb_v = x.fb_v; fb_perr =
         x.fb_perr; fb_erroffs = x.fb_erroffs; fb_state = (f0 x); fb_soffs =
         x.fb_soffs; fb_pstart = x.fb_pstart; fb_pend = x.fb_pend;
         fb_vstart = x.fb_vstart; fb_vend = x.fb_vend })) (fun _ ->
         st_newparam p) s)
   | KEq ->
     Next ((S O),
       (set (fun p0 -> p0.fb_vstart) (fun f ->
         let n0 = fun r -> f r.fb_vstart in
         (fun x -> { fb_name = x.fb_name; fb_uri = x.fb_uri; fb_tag =
         x.fb_tag; fb_star = x.fb_star; fb_lr = x.fb_lr; fb_hasexp =
         x.fb_hasexp; fb_type = x.fb_type; fb_q = x.fb_q; fb_expires =
         x.fb_expires; fb_params = x.fb_params; fb_v = x.fb_v; fb_perr =
         x.fb_perr; fb_erroffs = x.fb_erroffs; fb_state = x.fb_state;
         fb_soffs = x.fb_soffs; fb_pstart = x.fb_pstart; fb_pend = x.fb_pend;
         fb_vstart = (n0 x); fb_vend = x.fb_vend })) (fun _ ->
         N.add i (Npos XH))
         (set (fun p0 -> p0.fb_state) (fun f ->
           let f0 = fun r -> f r.fb_state in
           (fun x -> { fb_name = x.fb_name; fb_uri = x.fb_uri; fb_tag =
           x.fb_tag; fb_star = x.fb_star; fb_lr = x.fb_lr; fb_hasexp =
           x.fb_hasexp; fb_type = x.fb_type; fb_q = x.fb_q; fb_expires =
           x.fb_expires; fb_params = x.fb_params; fb_v = x.fb_v; fb_perr =
           x.fb_perr; fb_erroffs = x.fb_erroffs; fb_state = (f0 x);
           fb_soffs = x.fb_soffs; fb_pstart = x.fb_pstart; fb_pend =
           x.fb_pend; fb_vstart = x.fb_vstart; fb_vend = x.fb_vend }))
           (fun _ -> st_newval p) s)))
   | _ -> fb_bad i s)

(** val fb_gV :
    n -> byte list -> byte list -> n -> pfrom -> fbst -> ccls -> pfrom ires **)

let fb_gV h pre rest i s st k =
  let p = st_poss st in
  (match k with
   | KWs ->
     fb_lws_b h pre rest i s (fun n0 ->
       if is_st_new st
       then (match n0 with
             | Some n1 ->
               set (fun p0 -> p0.fb_vstart) (fun f ->
                 let n2 = fun r -> f r.fb_vstart in
                 (fun x -> { fb_name = x.fb_name; fb_uri = x.fb_uri; fb_tag =
                 x.fb_tag; fb_star = x.fb_star; fb_lr = x.fb_lr; fb_hasexp =
                 x.fb_hasexp; fb_type = x.fb_type; fb_q = x.fb_q;
                 fb_expires = x.fb_expires; fb_params = x.fb_params; fb_v =
                 x.fb_v; fb_perr = x.fb_perr; fb_erroffs = x.fb_erroffs;
                 fb_state = x.fb_state; fb_soffs = x.fb_soffs; fb_pstart =
                 x.fb_pstart; fb_pend = x.fb_pend; fb_vstart = (n2 x);
                 fb_vend = x.fb_vend })) (fun _ -> n1) s
             | None -> s)
       else set (fun p0 -> p0.fb_vend) (fun f ->
              let n1 = fun r -> f r.fb_vend in
              (fun x -> { fb_name = x.fb_name; fb_uri = x.fb_uri; fb_tag =
              x.fb_tag; fb_star = x.fb_star; fb_lr = x.fb_lr; fb_hasexp =
              x.fb_hasexp; fb_type = x.fb_type; fb_q = x.fb_q; fb_expires =
              x.fb_expires; fb_params = x.fb_params; fb_v = x.fb_v; fb_perr =
              x.fb_perr; fb_erroffs = x.fb_erroffs; fb_state = x.fb_state;
              fb_soffs = x.fb_soffs; fb_pstart = x.fb_pstart; fb_pend =
              x.fb_pend; fb_vstart = x.fb_vstart; fb_vend = (n1 x) }))
              (fun _ -> i)
              (set (fun p0 -> p0.fb_state) (fun f ->
                let f0 = fun r -> f r.fb_state in
                (fun x -> { fb_name = x.fb_name; fb_uri = x.fb_uri; fb_tag =
                x.fb_tag; fb_star = x.fb_star; fb_lr = x.fb_lr; fb_hasexp =
                x.fb_hasexp; fb_type = x.fb_type; fb_q = x.fb_q; fb_expires =
                x.fb_expires; fb_params = x.fb_params; fb_v = x.fb_v;
                fb_perr = x.fb_perr; fb_erroffs = x.fb_erroffs; fb_state =
                (f0 x); fb_soffs = x.fb_soffs; fb_pstart = x.fb_pstart;
                fb_pend = x.fb_pend; fb_vstart = x.fb_vstart; fb_vend =
                x.fb_vend })) (fun _ -> st_valend p) s))
   | KComma -> fb_comma h pre rest i s
   | KLt -> fb_bad i s
   | KGt -> fb_bad i s
   | KDq ->
     if is_st_new st
     then Next ((S O),
            (set (fun p0 -> p0.fb_vstart) (fun f ->
              let n0 = fun r -> f r.fb_vstart in
              (fun x -> { fb_name = x.fb_name; fb_uri = x.fb_uri; fb_tag =
              x.fb_tag; fb_star = x.fb_star; fb_lr = x.fb_lr; fb_hasexp =
              x.fb_hasexp; fb_type = x.fb_type; fb_q = x.fb_q; fb_expires =
              x.fb_expires; fb_params = x.fb_params; fb_v = x.fb_v; fb_perr =
              x.fb_perr; fb_erroffs = x.fb_erroffs; fb_state = x.fb_state;
              fb_soffs = x.fb_soffs; fb_pstart = x.fb_pstart; fb_pend =
              x.fb_pend; fb_vstart = (n0 x); fb_vend = x.fb_vend }))
              (fun _ -> i)
              (set (fun p0 -> p0.fb_state) (fun f ->
                let f0 = fun r -> f r.fb_state in
                (fun x -> { fb_name = x.fb_name; fb_uri = x.fb_uri; fb_tag =
                x.fb_tag; fb_star = x.fb_star; fb_lr = x.fb_lr; fb_hasexp =
                x.fb_hasexp; fb_type = x.fb_type; fb_q = x.fb_q; fb_expires =
                x.fb_expires; fb_params = x.fb_params; fb_v = x.fb_v;
                fb_perr = x.fb_perr; fb_erroffs = x.fb_erroffs; fb_state =
                (f0 x); fb_soffs = x.fb_soffs; fb_pstart = x.fb_pstart;
                fb_pend = x.fb_pend; fb_vstart = x.fb_vstart; fb_vend =
                x.fb_vend })) (fun _ -> st_quotedval p) s)))
     else Next ((S O),
            (set (fun p0 -> p0.fb_state) (fun f ->
              let f0 = fun r -> f r.fb_state in
              (fun x -> { fb_name = x.fb_name; fb_uri = x.fb_uri; fb_tag =
              x.fb_tag; fb_star = x.fb_star; fb_lr = x.fb_lr; fb_hasexp =
              x.fb_hasexp; fb_type = x.fb_type; fb_q = x.fb_q; fb_expires =
              x.fb_expires; fb_params = x.fb_params; fb_v = x.fb_v; fb_perr =
              x.fb_perr; fb_erroffs = x.fb_erroffs; fb_state = (f0 x);
              fb_soffs = x.fb_soffs; fb_pstart = x.fb_pstart; fb_pend =
              x.fb_pend; fb_vstart = x.fb_vstart; fb_vend = x.fb_vend }))
              (fun _ -> st_quotedval p) s))
   | KSemi ->
     fb_setpv pre rest i
       (set (fun p0 -> p0.fb_vend) (fun f ->
         let n0 = fun r -> f r.fb_vend in
         (fun x -> { fb_name = x.fb_name; fb_uri = x.fb_uri; fb_tag =
         x.fb_tag; fb_star = x.fb_star; fb_lr = x.fb_lr; fb_hasexp =
         x.fb_hasexp; fb_type = x.fb_type; fb_q = x.fb_q; fb_expires =
         x.fb_expires; fb_params = x.fb_params; fb_v = x.fb_v; fb_perr =
         x.fb_perr; fb_erroffs = x.fb_erroffs; fb_state = x.fb_state;
         fb_soffs = x.fb_soffs; fb_pstart = x.fb_pstart; fb_pend = x.fb_pend;
         fb_vstart = x.fb_vstart; fb_vend = (n0 x) })) (fun _ -> i)
         (set (fun p0 -> p0.fb_state) (fun f ->
           let f0 = fun r -> f r.fb_state in
           (fun x -> { fb_name = x.fb_name; fb_uri = x.fb_uri; fb_tag =
           x.fb_tag; fb_star = x.fb_star; fb_lr = x.fb_lr; fb_hasexp =
           x.fb_hasexp; fb_type = x.fb_type; fb_q = x.fb_q; fb_expires =
           x.fb_expires; fb_params = x.fb_params; fb_v = x.fb_v; fb_perr =
           x.fb_perr; fb_erroffs = x.fb_erroffs; fb_state = (f0 x);
           fb_soffs = x.fb_soffs; fb_pstart = x.fb_pstart; fb_pend =
           x.fb_pend; fb_vstart = x.fb_vstart; fb_vend = x.fb_vend }))
           (fun _ -> st_newparam p) s))
   | KEq -> fb_bad i s
   | _ ->
     if is_st_new st
     then Next ((S O),
            (set (fun p0 -> p0.fb_vstart) (fun f ->
              let n0 = fun r -> f r.fb_vstart in
              (fun x -> { fb_name = x.fb_name; fb_uri = x.fb_uri; fb_tag =
              x.fb_tag; fb_star = x.fb_star; fb_lr = x.fb_lr; fb_hasexp =
              x.fb_hasexp; fb_type = x.fb_type; fb_q = x.fb_q; fb_expires =
              x.fb_expires; fb_params = x.fb_params; fb_v = x.fb_v; fb_perr =
              x.fb_perr; fb_erroffs = x.fb_erroffs; fb_state = x.fb_state;
              fb_soffs = x.fb_soffs; fb_pstart = x.fb_pstart; fb_pend =
              x.fb_pend; fb_vstart = (n0 x); fb_vend = x.fb_vend }))
              (fun _ -> i)
              (set (fun p0 -> p0.fb_state) (fun f ->
                let f0 = fun r -> f r.fb_state in
                (fun x -> { fb_name = x.fb_name; fb_uri = x.fb_uri; fb_tag =
                x.fb_tag; fb_star = x.fb_star; fb_lr = x.fb_lr; fb_hasexp =
                x.fb_hasexp; fb_type = x.fb_type; fb_q = x.fb_q; fb_expires =
                x.fb_expires; fb_params = x.fb_params; fb_v = x.fb_v;
                fb_perr = x.fb_perr; fb_erroffs = x.fb_erroffs; fb_state =
                (f0 x); fb_soffs = x.fb_soffs; fb_pstart = x.fb_pstart;
                fb_pend = x.fb_pend; fb_vstart = x.fb_vstart; fb_vend =
                x.fb_vend })) (fun _ -> st_val p) s)))
     else Next ((S O), s))

(** val fb_gVE :
    n -> byte list -> byte list -> n -> pfrom -> fbst -> ccls -> pfrom ires **)

let fb_gVE h pre rest i s st = function
| KComma -> fb_comma_strict h pre rest i s
| KSemi ->
  fb_setpv pre rest i
    (set (fun p -> p.fb_state) (fun f ->
      let f0 = fun r -> f r.fb_state in
      (fun x -> { fb_name = x.fb_name; fb_uri = x.fb_uri; fb_tag = x.fb_tag;
      fb_star = x.fb_star; fb_lr = x.fb_lr; fb_hasexp = x.fb_hasexp;
      fb_type = x.fb_type; fb_q = x.fb_q; fb_expires = x.fb_expires;
      fb_params = x.fb_params; fb_v = x.fb_v; fb_perr = x.fb_perr;
      fb_erroffs = x.fb_erroffs; fb_state = (f0 x); fb_soffs = x.fb_soffs;
      fb_pstart = x.fb_pstart; fb_pend = x.fb_pend; fb_vstart = x.fb_vstart;
      fb_vend = x.fb_vend })) (fun _ -> st_newparam (st_poss st)) s)
| _ -> fb_bad i s

(** val fb_gStar :
    n -> byte list -> byte list -> n -> pfrom -> ccls -> pfrom ires **)

let fb_gStar h pre rest i s = function
| KWs -> fb_lws h pre rest i s
| _ -> fb_bad i s

(** val fb_step :
    n -> byte list -> byte list -> byte list -> n -> pfrom -> fbst -> ccls ->
    pfrom ires **)

let fb_step h pre rest r1 i s st k =
  match st with
  | FbInit -> fb_gA h pre rest i s st k
  | FbNameOrURI -> fb_gA h pre rest i s st k
  | FbNameOrURIEnd -> fb_gA h pre rest i s st k
  | FbName -> fb_gA h pre rest i s st k
  | FbQuoted -> fb_gQ h pre rest r1 i s st k
  | FbURI -> fb_gURI i s k
  | FbURIFound -> fb_gURIFound h pre rest i s k
  | FbNewPossibleParam -> fb_gP h pre rest i s st k
  | FbPossibleParamName -> fb_gP h pre rest i s st k
  | FbPossibleParamNameEnd -> fb_gPE h pre rest i s st k
  | FbNewParam -> fb_gP h pre rest i s st k
  | FbParamName -> fb_gP h pre rest i s st k
  | FbParamNameEnd -> fb_gPE h pre rest i s st k
  | FbParamValEnd -> fb_gVE h pre rest i s st k
  | FbPossibleValEnd -> fb_gVE h pre rest i s st k
  | FbQuotedVal -> fb_gQ h pre rest r1 i s st k
  | FbQuotedPossibleVal -> fb_gQ h pre rest r1 i s st k
  | FbStar -> fb_gStar h pre rest i s k
  | FbFIN -> Ret (i, EOk, s)
  | _ -> fb_gV h pre rest i s st k

(** val fb_iter : n -> byte list -> byte list -> n -> pfrom -> pfrom ires **)

let fb_iter h pre rest i s =
  match s.fb_state with
  | FbFIN -> Ret (i, EOk, s)
  | x ->
    (match rest with
     | [] -> Ret (i, EMore, s)
     | c :: r1 -> fb_step h pre rest r1 i s x (ccls_of c))

(** val parse_nameaddr : n -> byte list -> n -> pfrom -> pfrom res **)

let parse_nameaddr h =
  parse (fb_iter h)

(** val parse_one_pai : byte list -> n -> pfrom -> pfrom res **)

let parse_one_pai buf offs s =
  match parse_nameaddr hdrPAI buf offs s with
  | Done (o, e, s') ->
    if (&&) ((||) (err_eqb e EOk) (err_eqb e EMoreValues)) s'.fb_star
    then Done (o, EValBad, s')
    else Done (o, e, s')
  | x -> x

(** val obs_pfrom : pfrom -> z list **)

let obs_pfrom s =
  app (obs_pf s.fb_name)
    (app (obs_pf s.fb_uri)
      (app (obs_pf s.fb_tag)
        (app
          ((b2z s.fb_star) :: ((b2z s.fb_lr) :: ((b2z s.fb_hasexp) :: (
          (n2z s.fb_type) :: ((n2z s.fb_q) :: ((n2z s.fb_expires) :: []))))))
          (app (obs_pf s.fb_params)
            (app (obs_pf s.fb_v)
              (app ((n2z (err_code s.fb_perr)) :: ((n2z s.fb_erroffs) :: []))
                ((b2z (fb_parsed s)) :: ((b2z (fb_empty s)) :: []))))))))

(** val set_nth : nat -> 'a1 -> 'a1 list -> 'a1 list **)

let rec set_nth n0 x = function
| [] -> []
| y :: l' -> (match n0 with
              | O -> x :: l'
              | S n' -> y :: (set_nth n' x l'))

type contacts = { ct_vals : pfrom list; ct_n : n; ct_hno : n; ct_maxexp : 
                  n; ct_minexp : n; ct_lasthval : pf; ct_last : pfrom;
                  ct_first : pfrom }

(** val contacts_init : pfrom list -> contacts **)

let contacts_init vals =
  { ct_vals = vals; ct_n = N0; ct_hno = N0; ct_maxexp = N0; ct_minexp = N0;
    ct_lasthval = pf0; ct_last = pfrom0; ct_first = pfrom0 }

(** val contacts_reset : contacts -> contacts **)

let contacts_reset c =
  contacts_init (map (fun _ -> pfrom0) c.ct_vals)

(** val ct_cap : contacts -> n **)

let ct_cap c =
  nnat (length c.ct_vals)

(** val ct_vno : contacts -> n **)

let ct_vno c =
  N.min c.ct_n (ct_cap c)

(** val ct_more : contacts -> bool **)

let ct_more c =
  N.ltb (ct_cap c) c.ct_n

(** val ct_parsed : contacts -> bool **)

let ct_parsed c =
  N.ltb N0 c.ct_n

(** val ct_get : contacts -> n -> pfrom option **)

let ct_get c n0 =
  if N.ltb n0 (ct_vno c)
  then nth_error c.ct_vals (N.to_nat n0)
  else if N.eqb c.ct_n N0
       then None
       else if N.eqb c.ct_n (N.add n0 (Npos XH))
            then Some c.ct_last
            else if N.eqb n0 N0 then Some c.ct_first else None

(** val ct_slot_is_last : contacts -> bool **)

let ct_slot_is_last c =
  N.leb (ct_cap c) c.ct_n

(** val ct_slot : contacts -> pfrom **)

let ct_slot c =
  if ct_slot_is_last c
  then c.ct_last
  else nth (N.to_nat c.ct_n) c.ct_vals pfrom0

(** val ct_store : contacts -> pfrom -> contacts **)

let ct_store c v =
  if ct_slot_is_last c
  then set (fun c0 -> c0.ct_last) (fun f ->
         let p = fun r -> f r.ct_last in
         (fun x -> { ct_vals = x.ct_vals; ct_n = x.ct_n; ct_hno = x.ct_hno;
         ct_maxexp = x.ct_maxexp; ct_minexp = x.ct_minexp; ct_lasthval =
         x.ct_lasthval; ct_last = (p x); ct_first = x.ct_first })) (fun _ ->
         v) c
  else set (fun c0 -> c0.ct_vals) (fun f ->
         let l = fun r -> f r.ct_vals in
         (fun x -> { ct_vals = (l x); ct_n = x.ct_n; ct_hno = x.ct_hno;
         ct_maxexp = x.ct_maxexp; ct_minexp = x.ct_minexp; ct_lasthval =
         x.ct_lasthval; ct_last = x.ct_last; ct_first = x.ct_first }))
         (fun _ -> set_nth (N.to_nat c.ct_n) v c.ct_vals) c

(** val ct_reset_last_if : bool -> contacts -> contacts **)

let ct_reset_last_if b c =
  if b
  then set (fun c0 -> c0.ct_last) (fun f ->
         let p = fun r -> f r.ct_last in
         (fun x -> { ct_vals = x.ct_vals; ct_n = x.ct_n; ct_hno = x.ct_hno;
         ct_maxexp = x.ct_maxexp; ct_minexp = x.ct_minexp; ct_lasthval =
         x.ct_lasthval; ct_last = (p x); ct_first = x.ct_first })) (fun _ ->
         pfrom0) c
  else c

(** val ct_iter : byte list -> byte list -> n -> contacts -> contacts ires **)

let ct_iter pre rest i c0 =
  let c =
    if (&&) (ct_slot_is_last c0) (fb_parsed c0.ct_last)
    then set (fun c -> c.ct_last) (fun f ->
           let p = fun r -> f r.ct_last in
           (fun x -> { ct_vals = x.ct_vals; ct_n = x.ct_n; ct_hno = x.ct_hno;
           ct_maxexp = x.ct_maxexp; ct_minexp = x.ct_minexp; ct_lasthval =
           x.ct_lasthval; ct_last = (p x); ct_first = x.ct_first }))
           (fun _ -> pfrom0) c0
    else c0
  in
  let is_last = ct_slot_is_last c in
  (match run (fb_iter hdrContact) pre rest i O (ct_slot c) with
   | Done (next, e, v) ->
     let c1 = ct_store c v in
     (match e with
      | EOk ->
        let c2 =
          if N.eqb c1.ct_n N0
          then set (fun c2 -> c2.ct_minexp) (fun f ->
                 let n0 = fun r -> f r.ct_minexp in
                 (fun x -> { ct_vals = x.ct_vals; ct_n = x.ct_n; ct_hno =
                 x.ct_hno; ct_maxexp = x.ct_maxexp; ct_minexp = (n0 x);
                 ct_lasthval = x.ct_lasthval; ct_last = x.ct_last; ct_first =
                 x.ct_first })) (fun _ -> maxU32) c1
          else c1
        in
        (match if (||) (N.eqb c2.ct_n N0) (pf_empty c2.ct_lasthval)
               then Some v.fb_v
               else pf_extend c2.ct_lasthval (pf_end v.fb_v) with
         | Some lh ->
           let c3 =
             set (fun c3 -> c3.ct_n) (fun f ->
               let n0 = fun r -> f r.ct_n in
               (fun x -> { ct_vals = x.ct_vals; ct_n = (n0 x); ct_hno =
               x.ct_hno; ct_maxexp = x.ct_maxexp; ct_minexp = x.ct_minexp;
               ct_lasthval = x.ct_lasthval; ct_last = x.ct_last; ct_first =
               x.ct_first })) (fun _ -> N.add c2.ct_n (Npos XH))
               (set (fun c3 -> c3.ct_lasthval) (fun f ->
                 let p = fun r -> f r.ct_lasthval in
                 (fun x -> { ct_vals = x.ct_vals; ct_n = x.ct_n; ct_hno =
                 x.ct_hno; ct_maxexp = x.ct_maxexp; ct_minexp = x.ct_minexp;
                 ct_lasthval = (p x); ct_last = x.ct_last; ct_first =
                 x.ct_first })) (fun _ -> lh) c2)
           in
           let c4 =
             if N.ltb c3.ct_maxexp v.fb_expires
             then set (fun c4 -> c4.ct_maxexp) (fun f ->
                    let n0 = fun r -> f r.ct_maxexp in
                    (fun x -> { ct_vals = x.ct_vals; ct_n = x.ct_n; ct_hno =
                    x.ct_hno; ct_maxexp = (n0 x); ct_minexp = x.ct_minexp;
                    ct_lasthval = x.ct_lasthval; ct_last = x.ct_last;
                    ct_first = x.ct_first })) (fun _ -> v.fb_expires) c3
             else c3
           in
           let c5 =
             if N.ltb v.fb_expires c4.ct_minexp
             then set (fun c5 -> c5.ct_minexp) (fun f ->
                    let n0 = fun r -> f r.ct_minexp in
                    (fun x -> { ct_vals = x.ct_vals; ct_n = x.ct_n; ct_hno =
                    x.ct_hno; ct_maxexp = x.ct_maxexp; ct_minexp = (n0 x);
                    ct_lasthval = x.ct_lasthval; ct_last = x.ct_last;
                    ct_first = x.ct_first })) (fun _ -> v.fb_expires) c4
             else c4
           in
           let c6 =
             if (&&) (N.eqb c5.ct_n (Npos XH)) (N.eqb (ct_cap c5) N0)
             then set (fun c6 -> c6.ct_first) (fun f ->
                    let p = fun r -> f r.ct_first in
                    (fun x -> { ct_vals = x.ct_vals; ct_n = x.ct_n; ct_hno =
                    x.ct_hno; ct_maxexp = x.ct_maxexp; ct_minexp =
                    x.ct_minexp; ct_lasthval = x.ct_lasthval; ct_last =
                    x.ct_last; ct_first = (p x) })) (fun _ -> v) c5
             else c5
           in
           (match e with
            | EMoreValues ->
              Next ((N.to_nat (N.sub next i)), (ct_reset_last_if is_last c6))
            | _ -> Ret (next, EOk, c6))
         | None -> IPanic)
      | EMore -> Ret (next, EMore, c1)
      | EMoreValues ->
        let c2 =
          if N.eqb c1.ct_n N0
          then set (fun c2 -> c2.ct_minexp) (fun f ->
                 let n0 = fun r -> f r.ct_minexp in
                 (fun x -> { ct_vals = x.ct_vals; ct_n = x.ct_n; ct_hno =
                 x.ct_hno; ct_maxexp = x.ct_maxexp; ct_minexp = (n0 x);
                 ct_lasthval = x.ct_lasthval; ct_last = x.ct_last; ct_first =
                 x.ct_first })) (fun _ -> maxU32) c1
          else c1
        in
        (match if (||) (N.eqb c2.ct_n N0) (pf_empty c2.ct_lasthval)
               then Some v.fb_v
               else pf_extend c2.ct_lasthval (pf_end v.fb_v) with
         | Some lh ->
           let c3 =
             set (fun c3 -> c3.ct_n) (fun f ->
               let n0 = fun r -> f r.ct_n in
               (fun x -> { ct_vals = x.ct_vals; ct_n = (n0 x); ct_hno =
               x.ct_hno; ct_maxexp = x.ct_maxexp; ct_minexp = x.ct_minexp;
               ct_lasthval = x.ct_lasthval; ct_last = x.ct_last; ct_first =
               x.ct_first })) (fun _ -> N.add c2.ct_n (Npos XH))
               (set (fun c3 -> c3.ct_lasthval) (fun f ->
                 let p = fun r -> f r.ct_lasthval in
                 (fun x -> { ct_vals = x.ct_vals; ct_n = x.ct_n; ct_hno =
                 x.ct_hno; ct_maxexp = x.ct_maxexp; ct_minexp = x.ct_minexp;
                 ct_lasthval = (p x); ct_last = x.ct_last; ct_first =
                 x.ct_first })) (fun _ -> lh) c2)
           in
           let c4 =
             if N.ltb c3.ct_maxexp v.fb_expires
             then set (fun c4 -> c4.ct_maxexp) (fun f ->
                    let n0 = fun r -> f r.ct_maxexp in
                    (fun x -> { ct_vals = x.ct_vals; ct_n = x.ct_n; ct_hno =
                    x.ct_hno; ct_maxexp = (n0 x); ct_minexp = x.ct_minexp;
                    ct_lasthval = x.ct_lasthval; ct_last = x.ct_last;
                    ct_first = x.ct_first })) (fun _ -> v.fb_expires) c3
             else c3
           in
           let c5 =
             if N.ltb v.fb_expires c4.ct_minexp
             then set (fun c5 -> c5.ct_minexp) (fun f ->
                    let n0 = fun r -> f r.ct_minexp in
                    (fun x -> { ct_vals = x.ct_vals; ct_n = x.ct_n; ct_hno =
                    x.ct_hno; ct_maxexp = x.ct_maxexp; ct_minexp = (n0 x);
                    ct_lasthval = x.ct_lasthval; ct_last = x.ct_last;
                    ct_first = x.ct_first })) (fun _ -> v.fb_expires) c4
             else c4
           in
           let c6 =
             if (&&) (N.eqb c5.ct_n (Npos XH)) (N.eqb (ct_cap c5) N0)
             then set (fun c6 -> c6.ct_first) (fun f ->
                    let p = fun r -> f r.ct_first in
                    (fun x -> { ct_vals = x.ct_vals; ct_n = x.ct_n; ct_hno =
                    x.ct_hno; ct_maxexp = x.ct_maxexp; ct_minexp =
                    x.ct_minexp; ct_lasthval = x.ct_lasthval; ct_last =
                    x.ct_last; ct_first = (p x) })) (fun _ -> v) c5
             else c5
           in
           (match e with
            | EMoreValues ->
              Next ((N.to_nat (N.sub next i)), (ct_reset_last_if is_last c6))
            | _ -> Ret (next, EOk, c6))
         | None -> IPanic)
      | _ -> Ret (next, e, (ct_reset_last_if is_last c1)))
   | _ -> IPanic)

(** val parse_all_contacts : byte list -> n -> contacts -> contacts res **)

let parse_all_contacts =
  parse ct_iter

(** val obs_opt_pfrom : pfrom option -> z list **)

let obs_opt_pfrom = function
| Some v -> (Zpos XH) :: (obs_pfrom v)
| None -> (Zneg XH) :: []

(** val obs_contacts : contacts -> z list **)

let obs_contacts c =
  app
    ((n2z c.ct_n) :: ((n2z c.ct_hno) :: ((n2z c.ct_maxexp) :: ((n2z
                                                                 c.ct_minexp) :: []))))
    (app (obs_pf c.ct_lasthval)
      (app
        ((n2z (ct_vno c)) :: ((b2z (ct_more c)) :: ((b2z (ct_parsed c)) :: [])))
        (app (flat_map obs_pfrom (firstn (N.to_nat (ct_vno c)) c.ct_vals))
          (app (obs_opt_pfrom (ct_get c N0))
            (app (obs_opt_pfrom (ct_get c (N.sub c.ct_n (Npos XH))))
              (obs_opt_pfrom (ct_get c c.ct_n)))))))

type pais = { pa_vals : pfrom list; pa_n : n; pa_hno : n; pa_lasthval : 
              pf; pa_last : pfrom }

(** val pais0 : pais **)

let pais0 =
  { pa_vals = (repeat pfrom0 paiVals); pa_n = N0; pa_hno = N0; pa_lasthval =
    pf0; pa_last = pfrom0 }

(** val pa_cap : pais -> n **)

let pa_cap c =
  nnat (length c.pa_vals)

(** val pa_vno : pais -> n **)

let pa_vno c =
  N.min c.pa_n (pa_cap c)

(** val pa_more : pais -> bool **)

let pa_more c =
  N.ltb (pa_cap c) c.pa_n

(** val pa_parsed : pais -> bool **)

let pa_parsed c =
  N.ltb N0 c.pa_n

(** val pa_slot_is_last : pais -> bool **)

let pa_slot_is_last c =
  N.leb (pa_cap c) c.pa_n

(** val pa_slot : pais -> pfrom **)

let pa_slot c =
  if pa_slot_is_last c
  then c.pa_last
  else nth (N.to_nat c.pa_n) c.pa_vals pfrom0

(** val pa_store : pais -> pfrom -> pais **)

let pa_store c v =
  if pa_slot_is_last c
  then set (fun p -> p.pa_last) (fun f ->
         let p = fun r -> f r.pa_last in
         (fun x -> { pa_vals = x.pa_vals; pa_n = x.pa_n; pa_hno = x.pa_hno;
         pa_lasthval = x.pa_lasthval; pa_last = (p x) })) (fun _ -> v) c
  else set (fun p -> p.pa_vals) (fun f ->
         let l = fun r -> f r.pa_vals in
         (fun x -> { pa_vals = (l x); pa_n = x.pa_n; pa_hno = x.pa_hno;
         pa_lasthval = x.pa_lasthval; pa_last = x.pa_last })) (fun _ ->
         set_nth (N.to_nat c.pa_n) v c.pa_vals) c

(** val pa_reset_last_if : bool -> pais -> pais **)

let pa_reset_last_if b c =
  if b
  then set (fun p -> p.pa_last) (fun f ->
         let p = fun r -> f r.pa_last in
         (fun x -> { pa_vals = x.pa_vals; pa_n = x.pa_n; pa_hno = x.pa_hno;
         pa_lasthval = x.pa_lasthval; pa_last = (p x) })) (fun _ -> pfrom0) c
  else c

(** val pa_iter : byte list -> byte list -> n -> pais -> pais ires **)

let pa_iter pre rest i c0 =
  let c =
    if (&&) (pa_slot_is_last c0) (fb_parsed c0.pa_last)
    then set (fun p -> p.pa_last) (fun f ->
           let p = fun r -> f r.pa_last in
           (fun x -> { pa_vals = x.pa_vals; pa_n = x.pa_n; pa_hno = x.pa_hno;
           pa_lasthval = x.pa_lasthval; pa_last = (p x) })) (fun _ -> pfrom0)
           c0
    else c0
  in
  let is_last = pa_slot_is_last c in
  (match run (fb_iter hdrPAI) pre rest i O (pa_slot c) with
   | Done (next, e0, v) ->
     let e =
       if (&&) ((||) (err_eqb e0 EOk) (err_eqb e0 EMoreValues)) v.fb_star
       then EValBad
       else e0
     in
     let c1 = pa_store c v in
     (match e with
      | EOk ->
        (match if (||) (N.eqb c1.pa_n N0) (pf_empty c1.pa_lasthval)
               then Some v.fb_v
               else pf_extend c1.pa_lasthval (pf_end v.fb_v) with
         | Some lh ->
           let c3 =
             set (fun p -> p.pa_n) (fun f ->
               let n0 = fun r -> f r.pa_n in
               (fun x -> { pa_vals = x.pa_vals; pa_n = (n0 x); pa_hno =
               x.pa_hno; pa_lasthval = x.pa_lasthval; pa_last = x.pa_last }))
               (fun _ -> N.add c1.pa_n (Npos XH))
               (set (fun p -> p.pa_lasthval) (fun f ->
                 let p = fun r -> f r.pa_lasthval in
                 (fun x -> { pa_vals = x.pa_vals; pa_n = x.pa_n; pa_hno =
                 x.pa_hno; pa_lasthval = (p x); pa_last = x.pa_last }))
                 (fun _ -> lh) c1)
           in
           (match e with
            | EMoreValues ->
              Next ((N.to_nat (N.sub next i)), (pa_reset_last_if is_last c3))
            | _ -> Ret (next, EOk, c3))
         | None -> IPanic)
      | EMore -> Ret (next, EMore, c1)
      | EMoreValues ->
        (match if (||) (N.eqb c1.pa_n N0) (pf_empty c1.pa_lasthval)
               then Some v.fb_v
               else pf_extend c1.pa_lasthval (pf_end v.fb_v) with
         | Some lh ->
           let c3 =
             set (fun p -> p.pa_n) (fun f ->
               let n0 = fun r -> f r.pa_n in
               (fun x -> { pa_vals = x.pa_vals; pa_n = (n0 x); pa_hno =
               x.pa_hno; pa_lasthval = x.pa_lasthval; pa_last = x.pa_last }))
               (fun _ -> N.add c1.pa_n (Npos XH))
               (set (fun p -> p.pa_lasthval) (fun f ->
                 let p = fun r -> f r.pa_lasthval in
                 (fun x -> { pa_vals = x.pa_vals; pa_n = x.pa_n; pa_hno =
                 x.pa_hno; pa_lasthval = (p x); pa_last = x.pa_last }))
                 (fun _ -> lh) c1)
           in
           (match e with
            | EMoreValues ->
              Next ((N.to_nat (N.sub next i)), (pa_reset_last_if is_last c3))
            | _ -> Ret (next, EOk, c3))
         | None -> IPanic)
      | _ -> Ret (next, e, (pa_reset_last_if is_last c1)))
   | _ -> IPanic)

(** val parse_all_pais : byte list -> n -> pais -> pais res **)

let parse_all_pais =
  parse pa_iter

(** val obs_pais : pais -> z list **)

let obs_pais c =
  app ((n2z c.pa_n) :: ((n2z c.pa_hno) :: []))
    (app (obs_pf c.pa_lasthval)
      (app
        ((n2z (pa_vno c)) :: ((b2z (pa_more c)) :: ((b2z (pa_parsed c)) :: [])))
        (flat_map obs_pfrom (firstn (N.to_nat (pa_vno c)) c.pa_vals))))

(** val str_transport : byte list **)

let str_transport =
  (Npos (XO (XO (XI (XO (XI (XI XH))))))) :: ((Npos (XO (XI (XO (XO (XI (XI
    XH))))))) :: ((Npos (XI (XO (XO (XO (XO (XI XH))))))) :: ((Npos (XO (XI
    (XI (XI (XO (XI XH))))))) :: ((Npos (XI (XI (XO (XO (XI (XI
    XH))))))) :: ((Npos (XO (XO (XO (XO (XI (XI XH))))))) :: ((Npos (XI (XI
    (XI (XI (XO (XI XH))))))) :: ((Npos (XO (XI (XO (XO (XI (XI
    XH))))))) :: ((Npos (XO (XO (XI (XO (XI (XI XH))))))) :: []))))))))

(** val str_maddr : byte list **)

let str_maddr =
  (Npos (XI (XO (XI (XI (XO (XI XH))))))) :: ((Npos (XI (XO (XO (XO (XO (XI
    XH))))))) :: ((Npos (XO (XO (XI (XO (XO (XI XH))))))) :: ((Npos (XO (XO
    (XI (XO (XO (XI XH))))))) :: ((Npos (XO (XI (XO (XO (XI (XI
    XH))))))) :: []))))

(** val str_user : byte list **)

let str_user =
  (Npos (XI (XO (XI (XO (XI (XI XH))))))) :: ((Npos (XI (XI (XO (XO (XI (XI
    XH))))))) :: ((Npos (XI (XO (XI (XO (XO (XI XH))))))) :: ((Npos (XO (XI
    (XO (XO (XI (XI XH))))))) :: [])))

(** val str_method : byte list **)

let str_method =
  (Npos (XI (XO (XI (XI (XO (XI XH))))))) :: ((Npos (XI (XO (XI (XO (XO (XI
    XH))))))) :: ((Npos (XO (XO (XI (XO (XI (XI XH))))))) :: ((Npos (XO (XO
    (XO (XI (XO (XI XH))))))) :: ((Npos (XI (XI (XI (XI (XO (XI
    XH))))))) :: ((Npos (XO (XO (XI (XO (XO (XI XH))))))) :: [])))))

(** val str_ttl : byte list **)

let str_ttl =
  (Npos (XO (XO (XI (XO (XI (XI XH))))))) :: ((Npos (XO (XO (XI (XO (XI (XI
    XH))))))) :: ((Npos (XO (XO (XI (XI (XO (XI XH))))))) :: []))

(** val uri_param_resolve : byte list -> n **)

let uri_param_resolve n0 =
  if eqb_nocase n0 str_transport
  then uRIParamTransportF
  else if eqb_nocase n0 str_lr
       then uRIParamLRF
       else if eqb_nocase n0 str_maddr
            then uRIParamMaddrF
            else if eqb_nocase n0 str_user
                 then uRIParamUserF
                 else if eqb_nocase n0 str_method
                      then uRIParamMethodF
                      else if eqb_nocase n0 str_ttl
                           then uRIParamTTLF
                           else uRIParamOtherF

type uriparam = { up_param : tokparam; up_t : n }

(** val uriparam0 : uriparam **)

let uriparam0 =
  { up_param = tokparam0; up_t = uRIParamNone }

type uparams = { ul_params : uriparam list; ul_n : n; ul_types : n;
                 ul_tmp : uriparam; ul_vno : n }

(** val uparams_init : uriparam list -> uparams **)

let uparams_init ps =
  { ul_params = ps; ul_n = N0; ul_types = N0; ul_tmp = uriparam0; ul_vno =
    N0 }

(** val uparams_reset : uparams -> uparams **)

let uparams_reset l =
  uparams_init (map (fun _ -> uriparam0) l.ul_params)

(** val ul_cap : uparams -> n **)

let ul_cap l =
  nnat (length l.ul_params)

(** val ul_pno : uparams -> n **)

let ul_pno l =
  N.min l.ul_n (ul_cap l)

(** val ul_more : uparams -> bool **)

let ul_more l =
  N.ltb (ul_cap l) l.ul_n

(** val ul_is_tmp : uparams -> bool **)

let ul_is_tmp l =
  N.leb (ul_cap l) l.ul_n

(** val ul_slot : uparams -> uriparam **)

let ul_slot l =
  if ul_is_tmp l
  then l.ul_tmp
  else nth (N.to_nat l.ul_n) l.ul_params uriparam0

(** val ul_store : uparams -> uriparam -> uparams **)

let ul_store l v =
  if ul_is_tmp l
  then set (fun u -> u.ul_tmp) (fun f ->
         let u = fun r -> f r.ul_tmp in
         (fun x -> { ul_params = x.ul_params; ul_n = x.ul_n; ul_types =
         x.ul_types; ul_tmp = (u x); ul_vno = x.ul_vno })) (fun _ -> v) l
  else set (fun u -> u.ul_params) (fun f ->
         let l0 = fun r -> f r.ul_params in
         (fun x -> { ul_params = (l0 x); ul_n = x.ul_n; ul_types =
         x.ul_types; ul_tmp = x.ul_tmp; ul_vno = x.ul_vno })) (fun _ ->
         set_nth (N.to_nat l.ul_n) v l.ul_params) l

(** val ul_iter1 :
    n -> byte list -> byte list -> n -> uparams -> uparams ires **)

let ul_iter1 flags0 pre rest i l =
  let flags = N.coq_lor flags0 (N.pow (Npos (XO XH)) bPOptParamSemiSep) in
  let p = ul_slot l in
  (match run (tp_iter flags) pre rest i O p.up_param with
   | Done (next, e, tp) ->
     (match e with
      | EOk ->
        (match zget pre rest i tp.tp_name with
         | Some name ->
           let t = uri_param_resolve name in
           let l1 = ul_store l { up_param = tp; up_t = t } in
           let l2 =
             set (fun u -> u.ul_vno) (fun f ->
               let n0 = fun r -> f r.ul_vno in
               (fun x -> { ul_params = x.ul_params; ul_n = x.ul_n; ul_types =
               x.ul_types; ul_tmp = x.ul_tmp; ul_vno = (n0 x) })) (fun _ ->
               N.add l1.ul_vno (Npos XH))
               (set (fun u -> u.ul_types) (fun f ->
                 let n0 = fun r -> f r.ul_types in
                 (fun x -> { ul_params = x.ul_params; ul_n = x.ul_n;
                 ul_types = (n0 x); ul_tmp = x.ul_tmp; ul_vno = x.ul_vno }))
                 (fun _ -> N.coq_lor l1.ul_types t) l1)
           in
           let l3 =
             if ul_is_tmp l
             then set (fun u -> u.ul_tmp) (fun f ->
                    let u = fun r -> f r.ul_tmp in
                    (fun x -> { ul_params = x.ul_params; ul_n = x.ul_n;
                    ul_types = x.ul_types; ul_tmp = (u x); ul_vno =
                    x.ul_vno })) (fun _ -> uriparam0) l2
             else l2
           in
           let l4 =
             set (fun u -> u.ul_n) (fun f ->
               let n0 = fun r -> f r.ul_n in
               (fun x -> { ul_params = x.ul_params; ul_n = (n0 x); ul_types =
               x.ul_types; ul_tmp = x.ul_tmp; ul_vno = x.ul_vno })) (fun _ ->
               N.add l3.ul_n (Npos XH)) l3
           in
           (match e with
            | EMoreValues -> Next ((N.to_nat (N.sub next i)), l4)
            | _ -> Ret (next, e, l4))
         | None -> IPanic)
      | EEOH ->
        (match zget pre rest i tp.tp_name with
         | Some name ->
           let t = uri_param_resolve name in
           let l1 = ul_store l { up_param = tp; up_t = t } in
           let l2 =
             set (fun u -> u.ul_vno) (fun f ->
               let n0 = fun r -> f r.ul_vno in
               (fun x -> { ul_params = x.ul_params; ul_n = x.ul_n; ul_types =
               x.ul_types; ul_tmp = x.ul_tmp; ul_vno = (n0 x) })) (fun _ ->
               N.add l1.ul_vno (Npos XH))
               (set (fun u -> u.ul_types) (fun f ->
                 let n0 = fun r -> f r.ul_types in
                 (fun x -> { ul_params = x.ul_params; ul_n = x.ul_n;
                 ul_types = (n0 x); ul_tmp = x.ul_tmp; ul_vno = x.ul_vno }))
                 (fun _ -> N.coq_lor l1.ul_types t) l1)
           in
           let l3 =
             if ul_is_tmp l
             then set (fun u -> u.ul_tmp) (fun f ->
                    let u = fun r -> f r.ul_tmp in
                    (fun x -> { ul_params = x.ul_params; ul_n = x.ul_n;
                    ul_types = x.ul_types; ul_tmp = (u x); ul_vno =
                    x.ul_vno })) (fun _ -> uriparam0) l2
             else l2
           in
           let l4 =
             set (fun u -> u.ul_n) (fun f ->
               let n0 = fun r -> f r.ul_n in
               (fun x -> { ul_params = x.ul_params; ul_n = (n0 x); ul_types =
               x.ul_types; ul_tmp = x.ul_tmp; ul_vno = x.ul_vno })) (fun _ ->
               N.add l3.ul_n (Npos XH)) l3
           in
           (match e with
            | EMoreValues -> Next ((N.to_nat (N.sub next i)), l4)
            | _ -> Ret (next, e, l4))
         | None -> IPanic)
      | EMore ->
        Ret (next, EMore,
          (ul_store l
            (set (fun u -> u.up_param) (fun f ->
              let t = fun r -> f r.up_param in
              (fun x -> { up_param = (t x); up_t = x.up_t })) (fun _ -> tp) p)))
      | EMoreValues ->
        (match zget pre rest i tp.tp_name with
         | Some name ->
           let t = uri_param_resolve name in
           let l1 = ul_store l { up_param = tp; up_t = t } in
           let l2 =
             set (fun u -> u.ul_vno) (fun f ->
               let n0 = fun r -> f r.ul_vno in
               (fun x -> { ul_params = x.ul_params; ul_n = x.ul_n; ul_types =
               x.ul_types; ul_tmp = x.ul_tmp; ul_vno = (n0 x) })) (fun _ ->
               N.add l1.ul_vno (Npos XH))
               (set (fun u -> u.ul_types) (fun f ->
                 let n0 = fun r -> f r.ul_types in
                 (fun x -> { ul_params = x.ul_params; ul_n = x.ul_n;
                 ul_types = (n0 x); ul_tmp = x.ul_tmp; ul_vno = x.ul_vno }))
                 (fun _ -> N.coq_lor l1.ul_types t) l1)
           in
           let l3 =
             if ul_is_tmp l
             then set (fun u -> u.ul_tmp) (fun f ->
                    let u = fun r -> f r.ul_tmp in
                    (fun x -> { ul_params = x.ul_params; ul_n = x.ul_n;
                    ul_types = x.ul_types; ul_tmp = (u x); ul_vno =
                    x.ul_vno })) (fun _ -> uriparam0) l2
             else l2
           in
           let l4 =
             set (fun u -> u.ul_n) (fun f ->
               let n0 = fun r -> f r.ul_n in
               (fun x -> { ul_params = x.ul_params; ul_n = (n0 x); ul_types =
               x.ul_types; ul_tmp = x.ul_tmp; ul_vno = x.ul_vno })) (fun _ ->
               N.add l3.ul_n (Npos XH)) l3
           in
           (match e with
            | EMoreValues -> Next ((N.to_nat (N.sub next i)), l4)
            | _ -> Ret (next, e, l4))
         | None -> IPanic)
      | _ -> Ret (next, e, (ul_store l uriparam0)))
   | _ -> IPanic)

(** val ul_iter :
    n -> byte list -> byte list -> n -> uparams -> uparams ires **)

let ul_iter flags0 pre rest i l =
  match ul_iter1 flags0 pre rest i l with
  | Next (k, l') ->
    (match k with
     | O -> ul_iter1 flags0 pre rest i l'
     | S n0 -> Next ((S n0), l'))
  | x -> x

(** val parse_all_uri_params :
    n -> byte list -> n -> uparams -> uparams res **)

let parse_all_uri_params flags buf offs l =
  parse (ul_iter flags) buf offs
    (set (fun u -> u.ul_vno) (fun f ->
      let n0 = fun r -> f r.ul_vno in
      (fun x -> { ul_params = x.ul_params; ul_n = x.ul_n; ul_types =
      x.ul_types; ul_tmp = x.ul_tmp; ul_vno = (n0 x) })) (fun _ -> N0) l)

(** val obs_uriparam : uriparam -> z list **)

let obs_uriparam p =
  app (obs_tokparam p.up_param) ((n2z p.up_t) :: [])

(** val obs_uparams : uparams -> z list **)

let obs_uparams l =
  app
    ((n2z l.ul_n) :: ((n2z l.ul_types) :: ((n2z (ul_pno l)) :: ((b2z
                                                                  (ul_more l)) :: []))))
    (flat_map obs_uriparam (firstn (N.to_nat (ul_pno l)) l.ul_params))

type uhdrs = { uh_hdrs : tokparam list; uh_n : n; uh_tmp : tokparam;
               uh_vno : n }

(** val uhdrs_init : tokparam list -> uhdrs **)

let uhdrs_init hs =
  { uh_hdrs = hs; uh_n = N0; uh_tmp = tokparam0; uh_vno = N0 }

(** val uhdrs_reset : uhdrs -> uhdrs **)

let uhdrs_reset l =
  uhdrs_init (map (fun _ -> tokparam0) l.uh_hdrs)

(** val uh_cap : uhdrs -> n **)

let uh_cap l =
  nnat (length l.uh_hdrs)

(** val uh_hno : uhdrs -> n **)

let uh_hno l =
  N.min l.uh_n (uh_cap l)

(** val uh_more : uhdrs -> bool **)

let uh_more l =
  N.ltb (uh_cap l) l.uh_n

(** val uh_is_tmp : uhdrs -> bool **)

let uh_is_tmp l =
  N.leb (uh_cap l) l.uh_n

(** val uh_slot : uhdrs -> tokparam **)

let uh_slot l =
  if uh_is_tmp l then l.uh_tmp else nth (N.to_nat l.uh_n) l.uh_hdrs tokparam0

(** val uh_store : uhdrs -> tokparam -> uhdrs **)

let uh_store l v =
  if uh_is_tmp l
  then set (fun u -> u.uh_tmp) (fun f ->
         let t = fun r -> f r.uh_tmp in
         (fun x -> { uh_hdrs = x.uh_hdrs; uh_n = x.uh_n; uh_tmp = (t x);
         uh_vno = x.uh_vno })) (fun _ -> v) l
  else set (fun u -> u.uh_hdrs) (fun f ->
         let l0 = fun r -> f r.uh_hdrs in
         (fun x -> { uh_hdrs = (l0 x); uh_n = x.uh_n; uh_tmp = x.uh_tmp;
         uh_vno = x.uh_vno })) (fun _ ->
         set_nth (N.to_nat l.uh_n) v l.uh_hdrs) l

(** val uh_iter1 : n -> byte list -> byte list -> n -> uhdrs -> uhdrs ires **)

let uh_iter1 flags0 pre rest i l =
  let flags =
    N.coq_lor flags0
      (N.coq_lor (N.pow (Npos (XO XH)) bPOptParamAmpSep)
        (N.pow (Npos (XO XH)) bPOptTokURIHdr))
  in
  (match run (tp_iter flags) pre rest i O (uh_slot l) with
   | Done (next, e, tp) ->
     (match e with
      | EOk ->
        let l1 = uh_store l tp in
        let l2 =
          set (fun u -> u.uh_vno) (fun f ->
            let n0 = fun r -> f r.uh_vno in
            (fun x -> { uh_hdrs = x.uh_hdrs; uh_n = x.uh_n; uh_tmp =
            x.uh_tmp; uh_vno = (n0 x) })) (fun _ ->
            N.add l1.uh_vno (Npos XH)) l1
        in
        let l3 =
          if uh_is_tmp l
          then set (fun u -> u.uh_tmp) (fun f ->
                 let t = fun r -> f r.uh_tmp in
                 (fun x -> { uh_hdrs = x.uh_hdrs; uh_n = x.uh_n; uh_tmp =
                 (t x); uh_vno = x.uh_vno })) (fun _ -> tokparam0) l2
          else l2
        in
        let l4 =
          set (fun u -> u.uh_n) (fun f ->
            let n0 = fun r -> f r.uh_n in
            (fun x -> { uh_hdrs = x.uh_hdrs; uh_n = (n0 x); uh_tmp =
            x.uh_tmp; uh_vno = x.uh_vno })) (fun _ ->
            N.add l3.uh_n (Npos XH)) l3
        in
        (match e with
         | EMoreValues -> Next ((N.to_nat (N.sub next i)), l4)
         | _ -> Ret (next, e, l4))
      | EEOH ->
        let l1 = uh_store l tp in
        let l2 =
          set (fun u -> u.uh_vno) (fun f ->
            let n0 = fun r -> f r.uh_vno in
            (fun x -> { uh_hdrs = x.uh_hdrs; uh_n = x.uh_n; uh_tmp =
            x.uh_tmp; uh_vno = (n0 x) })) (fun _ ->
            N.add l1.uh_vno (Npos XH)) l1
        in
        let l3 =
          if uh_is_tmp l
          then set (fun u -> u.uh_tmp) (fun f ->
                 let t = fun r -> f r.uh_tmp in
                 (fun x -> { uh_hdrs = x.uh_hdrs; uh_n = x.uh_n; uh_tmp =
                 (t x); uh_vno = x.uh_vno })) (fun _ -> tokparam0) l2
          else l2
        in
        let l4 =
          set (fun u -> u.uh_n) (fun f ->
            let n0 = fun r -> f r.uh_n in
            (fun x -> { uh_hdrs = x.uh_hdrs; uh_n = (n0 x); uh_tmp =
            x.uh_tmp; uh_vno = x.uh_vno })) (fun _ ->
            N.add l3.uh_n (Npos XH)) l3
        in
        (match e with
         | EMoreValues -> Next ((N.to_nat (N.sub next i)), l4)
         | _ -> Ret (next, e, l4))
      | EMore -> Ret (next, EMore, (uh_store l tp))
      | EMoreValues ->
        let l1 = uh_store l tp in
        let l2 =
          set (fun u -> u.uh_vno) (fun f ->
            let n0 = fun r -> f r.uh_vno in
            (fun x -> { uh_hdrs = x.uh_hdrs; uh_n = x.uh_n; uh_tmp =
            x.uh_tmp; uh_vno = (n0 x) })) (fun _ ->
            N.add l1.uh_vno (Npos XH)) l1
        in
        let l3 =
          if uh_is_tmp l
          then set (fun u -> u.uh_tmp) (fun f ->
                 let t = fun r -> f r.uh_tmp in
                 (fun x -> { uh_hdrs = x.uh_hdrs; uh_n = x.uh_n; uh_tmp =
                 (t x); uh_vno = x.uh_vno })) (fun _ -> tokparam0) l2
          else l2
        in
        let l4 =
          set (fun u -> u.uh_n) (fun f ->
            let n0 = fun r -> f r.uh_n in
            (fun x -> { uh_hdrs = x.uh_hdrs; uh_n = (n0 x); uh_tmp =
            x.uh_tmp; uh_vno = x.uh_vno })) (fun _ ->
            N.add l3.uh_n (Npos XH)) l3
        in
        (match e with
         | EMoreValues -> Next ((N.to_nat (N.sub next i)), l4)
         | _ -> Ret (next, e, l4))
      | _ -> Ret (next, e, (uh_store l tokparam0)))
   | _ -> IPanic)

(** val uh_iter : n -> byte list -> byte list -> n -> uhdrs -> uhdrs ires **)

let uh_iter flags0 pre rest i l =
  match uh_iter1 flags0 pre rest i l with
  | Next (k, l') ->
    (match k with
     | O -> uh_iter1 flags0 pre rest i l'
     | S n0 -> Next ((S n0), l'))
  | x -> x

(** val parse_all_uri_hdrs : n -> byte list -> n -> uhdrs -> uhdrs res **)

let parse_all_uri_hdrs flags buf offs l =
  parse (uh_iter flags) buf offs
    (set (fun u -> u.uh_vno) (fun f ->
      let n0 = fun r -> f r.uh_vno in
      (fun x -> { uh_hdrs = x.uh_hdrs; uh_n = x.uh_n; uh_tmp = x.uh_tmp;
      uh_vno = (n0 x) })) (fun _ -> N0) l)

(** val obs_uhdrs : uhdrs -> z list **)

let obs_uhdrs l =
  app ((n2z l.uh_n) :: ((n2z (uh_hno l)) :: ((b2z (uh_more l)) :: [])))
    (flat_map obs_tokparam (firstn (N.to_nat (uh_hno l)) l.uh_hdrs))

(** val bget : byte list -> pf -> byte list option **)

let bget buf f =
  zget [] buf N0 f

(** val bget_d : byte list -> pf -> byte list **)

let bget_d buf f =
  match bget buf f with
  | Some x -> x
  | None -> []

(** val ul_entries :
    uparams -> byte list -> ((n * byte list) * byte list) list **)

let ul_entries l buf =
  map (fun p -> ((p.up_t, (bget_d buf p.up_param.tp_name)),
    (bget_d buf p.up_param.tp_val)))
    (firstn (N.to_nat (ul_pno l)) l.ul_params)

(** val up_find :
    n -> byte list -> ((n * byte list) * byte list) list -> byte list option **)

let rec up_find t name = function
| [] -> None
| p :: l2' ->
  let (p0, v2) = p in
  let (t2, n2) = p0 in
  if (&&) (N.eqb t t2)
       ((||) (negb (N.eqb t uRIParamOtherF)) (eqb_nocase name n2))
  then Some v2
  else up_find t name l2'

(** val up_bmask : n **)

let up_bmask =
  N.coq_lor (N.coq_lor uRIParamUserF uRIParamTTLF)
    (N.coq_lor uRIParamMethodF uRIParamMaddrF)

(** val uparams_entries_eq :
    n -> n -> ((n * byte list) * byte list) list -> ((n * byte list) * byte
    list) list -> bool **)

let uparams_entries_eq ty1 ty2 e1 e2 =
  (&&) (N.eqb (N.coq_land ty1 up_bmask) (N.coq_land ty2 up_bmask))
    (forallb (fun pat ->
      let (y, v) = pat in
      let (t, n0) = y in
      (match up_find t n0 e2 with
       | Some v2 -> eqb_nocase v v2
       | None -> true)) e1)

(** val uparams_lst_eq :
    uparams -> byte list -> uparams -> byte list -> bool **)

let uparams_lst_eq l1 b1 l2 b2 =
  uparams_entries_eq l1.ul_types l2.ul_types (ul_entries l1 b1)
    (ul_entries l2 b2)

(** val cmp_flags_params : n **)

let cmp_flags_params =
  N.coq_lor (N.pow (Npos (XO XH)) bPOptTokURIParam)
    (N.pow (Npos (XO XH)) bPOptInputEnd)

(** val cmp_flags_hdrs : n **)

let cmp_flags_hdrs =
  N.coq_lor (N.pow (Npos (XO XH)) bPOptTokURIHdr)
    (N.pow (Npos (XO XH)) bPOptInputEnd)

(** val cmp_cap : nat **)

let cmp_cap =
  S (S (S (S (S (S (S (S (S (S (S (S (S (S (S (S (S (S (S (S (S (S (S (S (S
    (S (S (S (S (S (S (S (S (S (S (S (S (S (S (S (S (S (S (S (S (S (S (S (S
    (S (S (S (S (S (S (S (S (S (S (S (S (S (S (S (S (S (S (S (S (S (S (S (S
    (S (S (S (S (S (S (S (S (S (S (S (S (S (S (S (S (S (S (S (S (S (S (S (S
    (S (S (S
    O)))))))))))))))))))))))))))))))))))))))))))))))))))))))))))))))))))))))))))))))))))))))))))))))))))

(** val uri_params_eq :
    byte list -> n -> byte list -> n -> (bool * err) option **)

let uri_params_eq b1 o1 b2 o2 =
  match parse_all_uri_params cmp_flags_params b1 o1
          (uparams_init (repeat uriparam0 cmp_cap)) with
  | Done (_, e1, l1) ->
    if negb ((||) (err_eqb e1 EOk) (err_eqb e1 EEOH))
    then Some (false, e1)
    else (match parse_all_uri_params cmp_flags_params b2 o2
                  (uparams_init (repeat uriparam0 cmp_cap)) with
          | Done (_, e2, l2) ->
            if negb ((||) (err_eqb e2 EOk) (err_eqb e2 EEOH))
            then Some (false, e2)
            else Some ((uparams_lst_eq l1 b1 l2 b2), EOk)
          | _ -> None)
  | _ -> None

(** val uh_entries : uhdrs -> byte list -> (byte list * byte list) list **)

let uh_entries l buf =
  map (fun p -> ((bget_d buf p.tp_name), (bget_d buf p.tp_val)))
    (firstn (N.to_nat (uh_hno l)) l.uh_hdrs)

(** val uh_find :
    byte list -> byte list -> (byte list * byte list) list -> bool **)

let rec uh_find name v = function
| [] -> false
| p :: l2' ->
  let (n2, v2) = p in
  if eqb_nocase name n2 then eqb_nocase v v2 else uh_find name v l2'

(** val uhdrs_entries_eq :
    (byte list * byte list) list -> (byte list * byte list) list -> bool **)

let uhdrs_entries_eq e1 e2 =
  (&&) (Nat.eqb (length e1) (length e2))
    (forallb (fun pat -> let (n0, v) = pat in uh_find n0 v e2) e1)

(** val uhdrs_lst_eq : uhdrs -> byte list -> uhdrs -> byte list -> bool **)

let uhdrs_lst_eq l1 b1 l2 b2 =
  uhdrs_entries_eq (uh_entries l1 b1) (uh_entries l2 b2)

(** val uri_hdrs_eq :
    byte list -> n -> byte list -> n -> (bool * err) option **)

let uri_hdrs_eq b1 o1 b2 o2 =
  match parse_all_uri_hdrs cmp_flags_hdrs b1 o1
          (uhdrs_init (repeat tokparam0 cmp_cap)) with
  | Done (_, e1, l1) ->
    if negb ((||) (err_eqb e1 EOk) (err_eqb e1 EEOH))
    then Some (false, e1)
    else (match parse_all_uri_hdrs cmp_flags_hdrs b2 o2
                  (uhdrs_init (repeat tokparam0 cmp_cap)) with
          | Done (_, e2, l2) ->
            if negb ((||) (err_eqb e2 EOk) (err_eqb e2 EEOH))
            then Some (false, e2)
            else Some ((uhdrs_lst_eq l1 b1 l2 b2), EOk)
          | _ -> None)
  | _ -> None

type ust =
| UInitSIP
| UInitSIPS
| UInitTEL
| UUser
| UPass0
| UPass1
| UHost0
| UHost1
| UHost61
| UHost6E
| UPort
| UParam0
| UParam1
| UHeaders

type puri = { u_type : n; u_scheme : pf; u_user : pf; u_pass : pf;
              u_host : pf; u_port : pf; u_params : pf; u_headers : pf;
              u_portno : n }

(** val puri0 : puri **)

let puri0 =
  { u_type = N0; u_scheme = pf0; u_user = pf0; u_pass = pf0; u_host = pf0;
    u_port = pf0; u_params = pf0; u_headers = pf0; u_portno = N0 }

type uloc = { ul_state : ust; ul_s : n; ul_found : bool; ul_passoffs : 
              n; ul_portno : n; ul_errh : bool }

type ustep =
| UGo of uloc * puri
| URet of n * n * puri
| UPanic

(** val ch : byte -> n -> bool **)

let ch =
  N.eqb

(** val c_at : n **)

let c_at =
  Npos (XO (XO (XO (XO (XO (XO XH))))))

(** val c_colon : n **)

let c_colon =
  Npos (XO (XI (XO (XI (XI XH)))))

(** val c_semi : n **)

let c_semi =
  Npos (XI (XI (XO (XI (XI XH)))))

(** val c_qm : n **)

let c_qm =
  Npos (XI (XI (XI (XI (XI XH)))))

(** val c_lbr : n **)

let c_lbr =
  Npos (XI (XI (XO (XI (XI (XO XH))))))

(** val c_rbr : n **)

let c_rbr =
  Npos (XI (XO (XI (XI (XI (XO XH))))))

(** val c_amp : n **)

let c_amp =
  Npos (XO (XI (XI (XO (XO XH)))))

(** val u_backtrack : n -> uloc -> puri -> ustep **)

let u_backtrack i l u =
  if l.ul_found
  then URet (errURIBadChar, i, u)
  else if negb (N.eqb l.ul_passoffs N0)
       then (match pf_set u.u_host.po l.ul_passoffs with
             | Some us ->
               (match pf_set (N.add l.ul_passoffs (Npos XH)) i with
                | Some pw ->
                  let u1 =
                    set (fun p -> p.u_pass) (fun f ->
                      let p = fun r -> f r.u_pass in
                      (fun x -> { u_type = x.u_type; u_scheme = x.u_scheme;
                      u_user = x.u_user; u_pass = (p x); u_host = x.u_host;
                      u_port = x.u_port; u_params = x.u_params; u_headers =
                      x.u_headers; u_portno = x.u_portno })) (fun _ -> pw)
                      (set (fun p -> p.u_user) (fun f ->
                        let p = fun r -> f r.u_user in
                        (fun x -> { u_type = x.u_type; u_scheme = x.u_scheme;
                        u_user = (p x); u_pass = x.u_pass; u_host = x.u_host;
                        u_port = x.u_port; u_params = x.u_params; u_headers =
                        x.u_headers; u_portno = x.u_portno })) (fun _ -> us)
                        u)
                  in
                  UGo
                  ((set (fun u0 -> u0.ul_portno) (fun f ->
                     let n0 = fun r -> f r.ul_portno in
                     (fun x -> { ul_state = x.ul_state; ul_s = x.ul_s;
                     ul_found = x.ul_found; ul_passoffs = x.ul_passoffs;
                     ul_portno = (n0 x); ul_errh = x.ul_errh })) (fun _ ->
                     N0)
                     (set (fun u0 -> u0.ul_s) (fun f ->
                       let n0 = fun r -> f r.ul_s in
                       (fun x -> { ul_state = x.ul_state; ul_s = (n0 x);
                       ul_found = x.ul_found; ul_passoffs = x.ul_passoffs;
                       ul_portno = x.ul_portno; ul_errh = x.ul_errh }))
                       (fun _ -> N.add i (Npos XH))
                       (set (fun u0 -> u0.ul_state) (fun f ->
                         let u0 = fun r -> f r.ul_state in
                         (fun x -> { ul_state = (u0 x); ul_s = x.ul_s;
                         ul_found = x.ul_found; ul_passoffs = x.ul_passoffs;
                         ul_portno = x.ul_portno; ul_errh = x.ul_errh }))
                         (fun _ -> UHost0)
                         (set (fun u0 -> u0.ul_errh) (fun f ->
                           let b = fun r -> f r.ul_errh in
                           (fun x -> { ul_state = x.ul_state; ul_s = x.ul_s;
                           ul_found = x.ul_found; ul_passoffs =
                           x.ul_passoffs; ul_portno = x.ul_portno; ul_errh =
                           (b x) })) (fun _ -> false)
                           (set (fun u0 -> u0.ul_found) (fun f ->
                             let b = fun r -> f r.ul_found in
                             (fun x -> { ul_state = x.ul_state; ul_s =
                             x.ul_s; ul_found = (b x); ul_passoffs =
                             x.ul_passoffs; ul_portno = x.ul_portno;
                             ul_errh = x.ul_errh })) (fun _ -> true) l))))),
                  (set (fun p -> p.u_headers) (fun f ->
                    let p = fun r -> f r.u_headers in
                    (fun x -> { u_type = x.u_type; u_scheme = x.u_scheme;
                    u_user = x.u_user; u_pass = x.u_pass; u_host = x.u_host;
                    u_port = x.u_port; u_params = x.u_params; u_headers =
                    (p x); u_portno = x.u_portno })) (fun _ -> pf0)
                    (set (fun p -> p.u_params) (fun f ->
                      let p = fun r -> f r.u_params in
                      (fun x -> { u_type = x.u_type; u_scheme = x.u_scheme;
                      u_user = x.u_user; u_pass = x.u_pass; u_host =
                      x.u_host; u_port = x.u_port; u_params = (p x);
                      u_headers = x.u_headers; u_portno = x.u_portno }))
                      (fun _ -> pf0)
                      (set (fun p -> p.u_portno) (fun f ->
                        let n0 = fun r -> f r.u_portno in
                        (fun x -> { u_type = x.u_type; u_scheme = x.u_scheme;
                        u_user = x.u_user; u_pass = x.u_pass; u_host =
                        x.u_host; u_port = x.u_port; u_params = x.u_params;
                        u_headers = x.u_headers; u_portno = (n0 x) }))
                        (fun _ -> N0)
                        (set (fun p -> p.u_port) (fun f ->
                          let p = fun r -> f r.u_port in
                          (fun x -> { u_type = x.u_type; u_scheme =
                          x.u_scheme; u_user = x.u_user; u_pass = x.u_pass;
                          u_host = x.u_host; u_port = (p x); u_params =
                          x.u_params; u_headers = x.u_headers; u_portno =
                          x.u_portno })) (fun _ -> pf0)
                          (set (fun p -> p.u_host) (fun f ->
                            let p = fun r -> f r.u_host in
                            (fun x -> { u_type = x.u_type; u_scheme =
                            x.u_scheme; u_user = x.u_user; u_pass = x.u_pass;
                            u_host = (p x); u_port = x.u_port; u_params =
                            x.u_params; u_headers = x.u_headers; u_portno =
                            x.u_portno })) (fun _ -> pf0) u1))))))
                | None -> UPanic)
             | None -> UPanic)
       else (match pf_set u.u_host.po i with
             | Some us ->
               let u1 =
                 set (fun p -> p.u_pass) (fun f ->
                   let p = fun r -> f r.u_pass in
                   (fun x -> { u_type = x.u_type; u_scheme = x.u_scheme;
                   u_user = x.u_user; u_pass = (p x); u_host = x.u_host;
                   u_port = x.u_port; u_params = x.u_params; u_headers =
                   x.u_headers; u_portno = x.u_portno })) (fun _ -> pf0)
                   (set (fun p -> p.u_user) (fun f ->
                     let p = fun r -> f r.u_user in
                     (fun x -> { u_type = x.u_type; u_scheme = x.u_scheme;
                     u_user = (p x); u_pass = x.u_pass; u_host = x.u_host;
                     u_port = x.u_port; u_params = x.u_params; u_headers =
                     x.u_headers; u_portno = x.u_portno })) (fun _ -> us) u)
               in
               UGo
               ((set (fun u0 -> u0.ul_portno) (fun f ->
                  let n0 = fun r -> f r.ul_portno in
                  (fun x -> { ul_state = x.ul_state; ul_s = x.ul_s;
                  ul_found = x.ul_found; ul_passoffs = x.ul_passoffs;
                  ul_portno = (n0 x); ul_errh = x.ul_errh })) (fun _ -> N0)
                  (set (fun u0 -> u0.ul_s) (fun f ->
                    let n0 = fun r -> f r.ul_s in
                    (fun x -> { ul_state = x.ul_state; ul_s = (n0 x);
                    ul_found = x.ul_found; ul_passoffs = x.ul_passoffs;
                    ul_portno = x.ul_portno; ul_errh = x.ul_errh }))
                    (fun _ -> N.add i (Npos XH))
                    (set (fun u0 -> u0.ul_state) (fun f ->
                      let u0 = fun r -> f r.ul_state in
                      (fun x -> { ul_state = (u0 x); ul_s = x.ul_s;
                      ul_found = x.ul_found; ul_passoffs = x.ul_passoffs;
                      ul_portno = x.ul_portno; ul_errh = x.ul_errh }))
                      (fun _ -> UHost0)
                      (set (fun u0 -> u0.ul_errh) (fun f ->
                        let b = fun r -> f r.ul_errh in
                        (fun x -> { ul_state = x.ul_state; ul_s = x.ul_s;
                        ul_found = x.ul_found; ul_passoffs = x.ul_passoffs;
                        ul_portno = x.ul_portno; ul_errh = (b x) }))
                        (fun _ -> false)
                        (set (fun u0 -> u0.ul_found) (fun f ->
                          let b = fun r -> f r.ul_found in
                          (fun x -> { ul_state = x.ul_state; ul_s = x.ul_s;
                          ul_found = (b x); ul_passoffs = x.ul_passoffs;
                          ul_portno = x.ul_portno; ul_errh = x.ul_errh }))
                          (fun _ -> true) l))))),
               (set (fun p -> p.u_headers) (fun f ->
                 let p = fun r -> f r.u_headers in
                 (fun x -> { u_type = x.u_type; u_scheme = x.u_scheme;
                 u_user = x.u_user; u_pass = x.u_pass; u_host = x.u_host;
                 u_port = x.u_port; u_params = x.u_params; u_headers = 
                 (p x); u_portno = x.u_portno })) (fun _ -> pf0)
                 (set (fun p -> p.u_params) (fun f ->
                   let p = fun r -> f r.u_params in
                   (fun x -> { u_type = x.u_type; u_scheme = x.u_scheme;
                   u_user = x.u_user; u_pass = x.u_pass; u_host = x.u_host;
                   u_port = x.u_port; u_params = (p x); u_headers =
                   x.u_headers; u_portno = x.u_portno })) (fun _ -> pf0)
                   (set (fun p -> p.u_portno) (fun f ->
                     let n0 = fun r -> f r.u_portno in
                     (fun x -> { u_type = x.u_type; u_scheme = x.u_scheme;
                     u_user = x.u_user; u_pass = x.u_pass; u_host = x.u_host;
                     u_port = x.u_port; u_params = x.u_params; u_headers =
                     x.u_headers; u_portno = (n0 x) })) (fun _ -> N0)
                     (set (fun p -> p.u_port) (fun f ->
                       let p = fun r -> f r.u_port in
                       (fun x -> { u_type = x.u_type; u_scheme = x.u_scheme;
                       u_user = x.u_user; u_pass = x.u_pass; u_host =
                       x.u_host; u_port = (p x); u_params = x.u_params;
                       u_headers = x.u_headers; u_portno = x.u_portno }))
                       (fun _ -> pf0)
                       (set (fun p -> p.u_host) (fun f ->
                         let p = fun r -> f r.u_host in
                         (fun x -> { u_type = x.u_type; u_scheme =
                         x.u_scheme; u_user = x.u_user; u_pass = x.u_pass;
                         u_host = (p x); u_port = x.u_port; u_params =
                         x.u_params; u_headers = x.u_headers; u_portno =
                         x.u_portno })) (fun _ -> pf0) u1))))))
             | None -> UPanic)

(** val u_endport : n -> uloc -> puri -> (puri -> ustep) -> ustep **)

let u_endport i l u k =
  match pf_set l.ul_s i with
  | Some p ->
    let u0 =
      set (fun p0 -> p0.u_port) (fun f ->
        let p0 = fun r -> f r.u_port in
        (fun x -> { u_type = x.u_type; u_scheme = x.u_scheme; u_user =
        x.u_user; u_pass = x.u_pass; u_host = x.u_host; u_port = (p0 x);
        u_params = x.u_params; u_headers = x.u_headers; u_portno =
        x.u_portno })) (fun _ -> p) u
    in
    if N.ltb (Npos (XI (XI (XI (XI (XI (XI (XI (XI (XI (XI (XI (XI (XI (XI
         (XI XH)))))))))))))))) l.ul_portno
    then URet (errURIPort, i, u0)
    else k
           (set (fun p0 -> p0.u_portno) (fun f ->
             let n0 = fun r -> f r.u_portno in
             (fun x -> { u_type = x.u_type; u_scheme = x.u_scheme; u_user =
             x.u_user; u_pass = x.u_pass; u_host = x.u_host; u_port =
             x.u_port; u_params = x.u_params; u_headers = x.u_headers;
             u_portno = (n0 x) })) (fun _ -> l.ul_portno) u0)
  | None -> UPanic

(** val u_acc_port : byte -> uloc -> uloc **)

let u_acc_port c l =
  if N.leb l.ul_portno (Npos (XI (XI (XI (XI (XI (XI (XI (XI (XI (XI (XI (XI
       (XI (XI (XI XH))))))))))))))))
  then set (fun u -> u.ul_portno) (fun f ->
         let n0 = fun r -> f r.ul_portno in
         (fun x -> { ul_state = x.ul_state; ul_s = x.ul_s; ul_found =
         x.ul_found; ul_passoffs = x.ul_passoffs; ul_portno = (n0 x);
         ul_errh = x.ul_errh })) (fun _ ->
         N.add (N.mul l.ul_portno (Npos (XO (XI (XO XH))))) (digit_val c)) l
  else l

(** val uri_step : byte -> n -> uloc -> puri -> ustep **)

let uri_step c i l u =
  let goto = fun st l0 ->
    set (fun u0 -> u0.ul_s) (fun f ->
      let n0 = fun r -> f r.ul_s in
      (fun x -> { ul_state = x.ul_state; ul_s = (n0 x); ul_found =
      x.ul_found; ul_passoffs = x.ul_passoffs; ul_portno = x.ul_portno;
      ul_errh = x.ul_errh })) (fun _ -> N.add i (Npos XH))
      (set (fun u0 -> u0.ul_state) (fun f ->
        let u0 = fun r -> f r.ul_state in
        (fun x -> { ul_state = (u0 x); ul_s = x.ul_s; ul_found = x.ul_found;
        ul_passoffs = x.ul_passoffs; ul_portno = x.ul_portno; ul_errh =
        x.ul_errh })) (fun _ -> st) l0)
  in
  (match l.ul_state with
   | UUser ->
     if ch c c_at
     then (match pf_set l.ul_s i with
           | Some f ->
             UGo
               ((set (fun u0 -> u0.ul_found) (fun f0 ->
                  let b = fun r -> f0 r.ul_found in
                  (fun x -> { ul_state = x.ul_state; ul_s = x.ul_s;
                  ul_found = (b x); ul_passoffs = x.ul_passoffs; ul_portno =
                  x.ul_portno; ul_errh = x.ul_errh })) (fun _ -> true)
                  (goto UHost0 l)),
               (set (fun p -> p.u_user) (fun f0 ->
                 let p = fun r -> f0 r.u_user in
                 (fun x -> { u_type = x.u_type; u_scheme = x.u_scheme;
                 u_user = (p x); u_pass = x.u_pass; u_host = x.u_host;
                 u_port = x.u_port; u_params = x.u_params; u_headers =
                 x.u_headers; u_portno = x.u_portno })) (fun _ -> f) u))
           | None -> UPanic)
     else if ch c c_colon
          then (match pf_set l.ul_s i with
                | Some f ->
                  UGo ((goto UPass0 l),
                    (set (fun p -> p.u_user) (fun f0 ->
                      let p = fun r -> f0 r.u_user in
                      (fun x -> { u_type = x.u_type; u_scheme = x.u_scheme;
                      u_user = (p x); u_pass = x.u_pass; u_host = x.u_host;
                      u_port = x.u_port; u_params = x.u_params; u_headers =
                      x.u_headers; u_portno = x.u_portno })) (fun _ -> f) u))
                | None -> UPanic)
          else if ch c c_semi
               then (match pf_set l.ul_s i with
                     | Some f ->
                       UGo ((goto UParam0 l),
                         (set (fun p -> p.u_host) (fun f0 ->
                           let p = fun r -> f0 r.u_host in
                           (fun x -> { u_type = x.u_type; u_scheme =
                           x.u_scheme; u_user = x.u_user; u_pass = x.u_pass;
                           u_host = (p x); u_port = x.u_port; u_params =
                           x.u_params; u_headers = x.u_headers; u_portno =
                           x.u_portno })) (fun _ -> f) u))
                     | None -> UPanic)
               else if ch c c_qm
                    then (match pf_set l.ul_s i with
                          | Some f ->
                            UGo ((goto UHeaders l),
                              (set (fun p -> p.u_host) (fun f0 ->
                                let p = fun r -> f0 r.u_host in
                                (fun x -> { u_type = x.u_type; u_scheme =
                                x.u_scheme; u_user = x.u_user; u_pass =
                                x.u_pass; u_host = (p x); u_port = x.u_port;
                                u_params = x.u_params; u_headers =
                                x.u_headers; u_portno = x.u_portno }))
                                (fun _ -> f) u))
                          | None -> UPanic)
                    else if (||) (ch c c_lbr) (ch c c_rbr)
                         then URet (errURIBadChar, i, u)
                         else UGo (l, u)
   | UPass0 ->
     if ch c c_at
     then (match pf_set l.ul_s i with
           | Some f ->
             UGo
               ((set (fun u0 -> u0.ul_portno) (fun f0 ->
                  let n0 = fun r -> f0 r.ul_portno in
                  (fun x -> { ul_state = x.ul_state; ul_s = x.ul_s;
                  ul_found = x.ul_found; ul_passoffs = x.ul_passoffs;
                  ul_portno = (n0 x); ul_errh = x.ul_errh })) (fun _ -> N0)
                  (set (fun u0 -> u0.ul_found) (fun f0 ->
                    let b = fun r -> f0 r.ul_found in
                    (fun x -> { ul_state = x.ul_state; ul_s = x.ul_s;
                    ul_found = (b x); ul_passoffs = x.ul_passoffs;
                    ul_portno = x.ul_portno; ul_errh = x.ul_errh }))
                    (fun _ -> true) (goto UHost0 l))),
               (set (fun p -> p.u_pass) (fun f0 ->
                 let p = fun r -> f0 r.u_pass in
                 (fun x -> { u_type = x.u_type; u_scheme = x.u_scheme;
                 u_user = x.u_user; u_pass = (p x); u_host = x.u_host;
                 u_port = x.u_port; u_params = x.u_params; u_headers =
                 x.u_headers; u_portno = x.u_portno })) (fun _ -> f) u))
           | None -> UPanic)
     else if (||) (ch c c_semi) (ch c c_qm)
          then u_endport i l u (fun u0 -> UGo
                 ((set (fun u1 -> u1.ul_found) (fun f ->
                    let b = fun r -> f r.ul_found in
                    (fun x -> { ul_state = x.ul_state; ul_s = x.ul_s;
                    ul_found = (b x); ul_passoffs = x.ul_passoffs;
                    ul_portno = x.ul_portno; ul_errh = x.ul_errh }))
                    (fun _ -> true)
                    (goto (if ch c c_semi then UParam0 else UHeaders) l)),
                 (set (fun p -> p.u_user) (fun f ->
                   let p = fun r -> f r.u_user in
                   (fun x -> { u_type = x.u_type; u_scheme = x.u_scheme;
                   u_user = (p x); u_pass = x.u_pass; u_host = x.u_host;
                   u_port = x.u_port; u_params = x.u_params; u_headers =
                   x.u_headers; u_portno = x.u_portno })) (fun _ -> pf0)
                   (set (fun p -> p.u_host) (fun f ->
                     let p = fun r -> f r.u_host in
                     (fun x -> { u_type = x.u_type; u_scheme = x.u_scheme;
                     u_user = x.u_user; u_pass = x.u_pass; u_host = (p x);
                     u_port = x.u_port; u_params = x.u_params; u_headers =
                     x.u_headers; u_portno = x.u_portno })) (fun _ ->
                     u0.u_user) u0))))
          else if is_digit c
               then UGo ((u_acc_port c l), u)
               else if (||) ((||) (ch c c_lbr) (ch c c_rbr)) (ch c c_colon)
                    then URet (errURIBadChar, i, u)
                    else UGo
                           ((set (fun u0 -> u0.ul_state) (fun f ->
                              let u0 = fun r -> f r.ul_state in
                              (fun x -> { ul_state = (u0 x); ul_s = x.ul_s;
                              ul_found = x.ul_found; ul_passoffs =
                              x.ul_passoffs; ul_portno = x.ul_portno;
                              ul_errh = x.ul_errh })) (fun _ -> UPass1)
                              (set (fun u0 -> u0.ul_portno) (fun f ->
                                let n0 = fun r -> f r.ul_portno in
                                (fun x -> { ul_state = x.ul_state; ul_s =
                                x.ul_s; ul_found = x.ul_found; ul_passoffs =
                                x.ul_passoffs; ul_portno = (n0 x); ul_errh =
                                x.ul_errh })) (fun _ -> N0) l)), u)
   | UPass1 ->
     if ch c c_at
     then (match pf_set l.ul_s i with
           | Some f ->
             UGo
               ((set (fun u0 -> u0.ul_found) (fun f0 ->
                  let b = fun r -> f0 r.ul_found in
                  (fun x -> { ul_state = x.ul_state; ul_s = x.ul_s;
                  ul_found = (b x); ul_passoffs = x.ul_passoffs; ul_portno =
                  x.ul_portno; ul_errh = x.ul_errh })) (fun _ -> true)
                  (goto UHost0 l)),
               (set (fun p -> p.u_pass) (fun f0 ->
                 let p = fun r -> f0 r.u_pass in
                 (fun x -> { u_type = x.u_type; u_scheme = x.u_scheme;
                 u_user = x.u_user; u_pass = (p x); u_host = x.u_host;
                 u_port = x.u_port; u_params = x.u_params; u_headers =
                 x.u_headers; u_portno = x.u_portno })) (fun _ -> f) u))
           | None -> UPanic)
     else if (||)
               ((||) ((||) ((||) (ch c c_semi) (ch c c_qm)) (ch c c_lbr))
                 (ch c c_rbr)) (ch c c_colon)
          then URet (errURIBadChar, i, u)
          else UGo (l, u)
   | UHost0 ->
     if ch c c_lbr
     then UGo
            ((set (fun u0 -> u0.ul_state) (fun f ->
               let u0 = fun r -> f r.ul_state in
               (fun x -> { ul_state = (u0 x); ul_s = x.ul_s; ul_found =
               x.ul_found; ul_passoffs = x.ul_passoffs; ul_portno =
               x.ul_portno; ul_errh = x.ul_errh })) (fun _ -> UHost61) l), u)
     else if (||)
               ((||) ((||) ((||) (ch c c_colon) (ch c c_semi)) (ch c c_qm))
                 (ch c c_amp)) (ch c c_at)
          then URet (errURIHost, i, u)
          else UGo
                 ((set (fun u0 -> u0.ul_state) (fun f ->
                    let u0 = fun r -> f r.ul_state in
                    (fun x -> { ul_state = (u0 x); ul_s = x.ul_s; ul_found =
                    x.ul_found; ul_passoffs = x.ul_passoffs; ul_portno =
                    x.ul_portno; ul_errh = x.ul_errh })) (fun _ -> UHost1) l),
                 u)
   | UHost1 ->
     if ch c c_colon
     then (match pf_set l.ul_s i with
           | Some f ->
             UGo ((goto UPort l),
               (set (fun p -> p.u_host) (fun f0 ->
                 let p = fun r -> f0 r.u_host in
                 (fun x -> { u_type = x.u_type; u_scheme = x.u_scheme;
                 u_user = x.u_user; u_pass = x.u_pass; u_host = (p x);
                 u_port = x.u_port; u_params = x.u_params; u_headers =
                 x.u_headers; u_portno = x.u_portno })) (fun _ -> f) u))
           | None -> UPanic)
     else if ch c c_semi
          then (match pf_set l.ul_s i with
                | Some f ->
                  UGo ((goto UParam0 l),
                    (set (fun p -> p.u_host) (fun f0 ->
                      let p = fun r -> f0 r.u_host in
                      (fun x -> { u_type = x.u_type; u_scheme = x.u_scheme;
                      u_user = x.u_user; u_pass = x.u_pass; u_host = 
                      (p x); u_port = x.u_port; u_params = x.u_params;
                      u_headers = x.u_headers; u_portno = x.u_portno }))
                      (fun _ -> f) u))
                | None -> UPanic)
          else if ch c c_qm
               then (match pf_set l.ul_s i with
                     | Some f ->
                       UGo ((goto UHeaders l),
                         (set (fun p -> p.u_host) (fun f0 ->
                           let p = fun r -> f0 r.u_host in
                           (fun x -> { u_type = x.u_type; u_scheme =
                           x.u_scheme; u_user = x.u_user; u_pass = x.u_pass;
                           u_host = (p x); u_port = x.u_port; u_params =
                           x.u_params; u_headers = x.u_headers; u_portno =
                           x.u_portno })) (fun _ -> f) u))
                     | None -> UPanic)
               else if (||) (ch c c_amp) (ch c c_at)
                    then URet (errURIBadChar, i, u)
                    else UGo (l, u)
   | UHost61 ->
     if ch c c_rbr
     then UGo
            ((set (fun u0 -> u0.ul_state) (fun f ->
               let u0 = fun r -> f r.ul_state in
               (fun x -> { ul_state = (u0 x); ul_s = x.ul_s; ul_found =
               x.ul_found; ul_passoffs = x.ul_passoffs; ul_portno =
               x.ul_portno; ul_errh = x.ul_errh })) (fun _ -> UHost6E) l), u)
     else if (||)
               ((||) ((||) ((||) (ch c c_lbr) (ch c c_at)) (ch c c_semi))
                 (ch c c_qm)) (ch c c_amp)
          then URet (errURIHost, i, u)
          else UGo (l, u)
   | UHost6E ->
     if ch c c_colon
     then (match pf_set l.ul_s i with
           | Some f ->
             UGo ((goto UPort l),
               (set (fun p -> p.u_host) (fun f0 ->
                 let p = fun r -> f0 r.u_host in
                 (fun x -> { u_type = x.u_type; u_scheme = x.u_scheme;
                 u_user = x.u_user; u_pass = x.u_pass; u_host = (p x);
                 u_port = x.u_port; u_params = x.u_params; u_headers =
                 x.u_headers; u_portno = x.u_portno })) (fun _ -> f) u))
           | None -> UPanic)
     else if ch c c_semi
          then (match pf_set l.ul_s i with
                | Some f ->
                  UGo ((goto UParam0 l),
                    (set (fun p -> p.u_host) (fun f0 ->
                      let p = fun r -> f0 r.u_host in
                      (fun x -> { u_type = x.u_type; u_scheme = x.u_scheme;
                      u_user = x.u_user; u_pass = x.u_pass; u_host = 
                      (p x); u_port = x.u_port; u_params = x.u_params;
                      u_headers = x.u_headers; u_portno = x.u_portno }))
                      (fun _ -> f) u))
                | None -> UPanic)
          else if ch c c_qm
               then (match pf_set l.ul_s i with
                     | Some f ->
                       UGo ((goto UHeaders l),
                         (set (fun p -> p.u_host) (fun f0 ->
                           let p = fun r -> f0 r.u_host in
                           (fun x -> { u_type = x.u_type; u_scheme =
                           x.u_scheme; u_user = x.u_user; u_pass = x.u_pass;
                           u_host = (p x); u_port = x.u_port; u_params =
                           x.u_params; u_headers = x.u_headers; u_portno =
                           x.u_portno })) (fun _ -> f) u))
                     | None -> UPanic)
               else URet (errURIHost, i, u)
   | UPort ->
     if is_digit c
     then UGo ((u_acc_port c l), u)
     else if ch c c_semi
          then u_endport i l u (fun u0 -> UGo ((goto UParam0 l), u0))
          else if ch c c_qm
               then u_endport i l u (fun u0 -> UGo ((goto UHeaders l), u0))
               else URet (errURIPort, i, u)
   | UParam0 ->
     if ch c c_at
     then u_backtrack i l u
     else if ch c c_colon
          then let l1 =
                 if l.ul_found
                 then l
                 else if negb (N.eqb l.ul_passoffs N0)
                      then set (fun u0 -> u0.ul_passoffs) (fun f ->
                             let n0 = fun r -> f r.ul_passoffs in
                             (fun x -> { ul_state = x.ul_state; ul_s =
                             x.ul_s; ul_found = x.ul_found; ul_passoffs =
                             (n0 x); ul_portno = x.ul_portno; ul_errh =
                             x.ul_errh })) (fun _ -> N0)
                             (set (fun u0 -> u0.ul_found) (fun f ->
                               let b = fun r -> f r.ul_found in
                               (fun x -> { ul_state = x.ul_state; ul_s =
                               x.ul_s; ul_found = (b x); ul_passoffs =
                               x.ul_passoffs; ul_portno = x.ul_portno;
                               ul_errh = x.ul_errh })) (fun _ -> true) l)
                      else set (fun u0 -> u0.ul_passoffs) (fun f ->
                             let n0 = fun r -> f r.ul_passoffs in
                             (fun x -> { ul_state = x.ul_state; ul_s =
                             x.ul_s; ul_found = x.ul_found; ul_passoffs =
                             (n0 x); ul_portno = x.ul_portno; ul_errh =
                             x.ul_errh })) (fun _ -> i) l
               in
               UGo
               ((set (fun u0 -> u0.ul_state) (fun f ->
                  let u0 = fun r -> f r.ul_state in
                  (fun x -> { ul_state = (u0 x); ul_s = x.ul_s; ul_found =
                  x.ul_found; ul_passoffs = x.ul_passoffs; ul_portno =
                  x.ul_portno; ul_errh = x.ul_errh })) (fun _ -> UParam1) l1),
               u)
          else if ch c c_semi
               then let l1 =
                      if negb (N.eqb l.ul_passoffs N0)
                      then set (fun u0 -> u0.ul_found) (fun f ->
                             let b = fun r -> f r.ul_found in
                             (fun x -> { ul_state = x.ul_state; ul_s =
                             x.ul_s; ul_found = (b x); ul_passoffs =
                             x.ul_passoffs; ul_portno = x.ul_portno;
                             ul_errh = x.ul_errh })) (fun _ -> true)
                             (set (fun u0 -> u0.ul_passoffs) (fun f ->
                               let n0 = fun r -> f r.ul_passoffs in
                               (fun x -> { ul_state = x.ul_state; ul_s =
                               x.ul_s; ul_found = x.ul_found; ul_passoffs =
                               (n0 x); ul_portno = x.ul_portno; ul_errh =
                               x.ul_errh })) (fun _ -> N0) l)
                      else l
                    in
                    UGo
                    ((set (fun u0 -> u0.ul_state) (fun f ->
                       let u0 = fun r -> f r.ul_state in
                       (fun x -> { ul_state = (u0 x); ul_s = x.ul_s;
                       ul_found = x.ul_found; ul_passoffs = x.ul_passoffs;
                       ul_portno = x.ul_portno; ul_errh = x.ul_errh }))
                       (fun _ -> UParam0) l1), u)
               else if ch c c_qm
                    then (match pf_set l.ul_s i with
                          | Some f ->
                            let l1 = goto UHeaders l in
                            let l2 =
                              if negb (N.eqb l.ul_passoffs N0)
                              then set (fun u0 -> u0.ul_found) (fun f0 ->
                                     let b = fun r -> f0 r.ul_found in
                                     (fun x -> { ul_state = x.ul_state;
                                     ul_s = x.ul_s; ul_found = (b x);
                                     ul_passoffs = x.ul_passoffs; ul_portno =
                                     x.ul_portno; ul_errh = x.ul_errh }))
                                     (fun _ -> true)
                                     (set (fun u0 -> u0.ul_passoffs)
                                       (fun f0 ->
                                       let n0 = fun r -> f0 r.ul_passoffs in
                                       (fun x -> { ul_state = x.ul_state;
                                       ul_s = x.ul_s; ul_found = x.ul_found;
                                       ul_passoffs = (n0 x); ul_portno =
                                       x.ul_portno; ul_errh = x.ul_errh }))
                                       (fun _ -> N0) l1)
                              else l1
                            in
                            UGo (l2,
                            (set (fun p -> p.u_params) (fun f0 ->
                              let p = fun r -> f0 r.u_params in
                              (fun x -> { u_type = x.u_type; u_scheme =
                              x.u_scheme; u_user = x.u_user; u_pass =
                              x.u_pass; u_host = x.u_host; u_port = x.u_port;
                              u_params = (p x); u_headers = x.u_headers;
                              u_portno = x.u_portno })) (fun _ -> f) u))
                          | None -> UPanic)
                    else UGo
                           ((set (fun u0 -> u0.ul_state) (fun f ->
                              let u0 = fun r -> f r.ul_state in
                              (fun x -> { ul_state = (u0 x); ul_s = x.ul_s;
                              ul_found = x.ul_found; ul_passoffs =
                              x.ul_passoffs; ul_portno = x.ul_portno;
                              ul_errh = x.ul_errh })) (fun _ -> UParam1) l),
                           u)
   | UParam1 ->
     if ch c c_at
     then u_backtrack i l u
     else if ch c c_colon
          then let l1 =
                 if l.ul_found
                 then l
                 else if negb (N.eqb l.ul_passoffs N0)
                      then set (fun u0 -> u0.ul_passoffs) (fun f ->
                             let n0 = fun r -> f r.ul_passoffs in
                             (fun x -> { ul_state = x.ul_state; ul_s =
                             x.ul_s; ul_found = x.ul_found; ul_passoffs =
                             (n0 x); ul_portno = x.ul_portno; ul_errh =
                             x.ul_errh })) (fun _ -> N0)
                             (set (fun u0 -> u0.ul_found) (fun f ->
                               let b = fun r -> f r.ul_found in
                               (fun x -> { ul_state = x.ul_state; ul_s =
                               x.ul_s; ul_found = (b x); ul_passoffs =
                               x.ul_passoffs; ul_portno = x.ul_portno;
                               ul_errh = x.ul_errh })) (fun _ -> true) l)
                      else set (fun u0 -> u0.ul_passoffs) (fun f ->
                             let n0 = fun r -> f r.ul_passoffs in
                             (fun x -> { ul_state = x.ul_state; ul_s =
                             x.ul_s; ul_found = x.ul_found; ul_passoffs =
                             (n0 x); ul_portno = x.ul_portno; ul_errh =
                             x.ul_errh })) (fun _ -> i) l
               in
               UGo
               ((set (fun u0 -> u0.ul_state) (fun f ->
                  let u0 = fun r -> f r.ul_state in
                  (fun x -> { ul_state = (u0 x); ul_s = x.ul_s; ul_found =
                  x.ul_found; ul_passoffs = x.ul_passoffs; ul_portno =
                  x.ul_portno; ul_errh = x.ul_errh })) (fun _ -> UParam1) l1),
               u)
          else if ch c c_semi
               then let l1 =
                      if negb (N.eqb l.ul_passoffs N0)
                      then set (fun u0 -> u0.ul_found) (fun f ->
                             let b = fun r -> f r.ul_found in
                             (fun x -> { ul_state = x.ul_state; ul_s =
                             x.ul_s; ul_found = (b x); ul_passoffs =
                             x.ul_passoffs; ul_portno = x.ul_portno;
                             ul_errh = x.ul_errh })) (fun _ -> true)
                             (set (fun u0 -> u0.ul_passoffs) (fun f ->
                               let n0 = fun r -> f r.ul_passoffs in
                               (fun x -> { ul_state = x.ul_state; ul_s =
                               x.ul_s; ul_found = x.ul_found; ul_passoffs =
                               (n0 x); ul_portno = x.ul_portno; ul_errh =
                               x.ul_errh })) (fun _ -> N0) l)
                      else l
                    in
                    UGo
                    ((set (fun u0 -> u0.ul_state) (fun f ->
                       let u0 = fun r -> f r.ul_state in
                       (fun x -> { ul_state = (u0 x); ul_s = x.ul_s;
                       ul_found = x.ul_found; ul_passoffs = x.ul_passoffs;
                       ul_portno = x.ul_portno; ul_errh = x.ul_errh }))
                       (fun _ -> UParam0) l1), u)
               else if ch c c_qm
                    then (match pf_set l.ul_s i with
                          | Some f ->
                            let l1 = goto UHeaders l in
                            let l2 =
                              if negb (N.eqb l.ul_passoffs N0)
                              then set (fun u0 -> u0.ul_found) (fun f0 ->
                                     let b = fun r -> f0 r.ul_found in
                                     (fun x -> { ul_state = x.ul_state;
                                     ul_s = x.ul_s; ul_found = (b x);
                                     ul_passoffs = x.ul_passoffs; ul_portno =
                                     x.ul_portno; ul_errh = x.ul_errh }))
                                     (fun _ -> true)
                                     (set (fun u0 -> u0.ul_passoffs)
                                       (fun f0 ->
                                       let n0 = fun r -> f0 r.ul_passoffs in
                                       (fun x -> { ul_state = x.ul_state;
                                       ul_s = x.ul_s; ul_found = x.ul_found;
                                       ul_passoffs = (n0 x); ul_portno =
                                       x.ul_portno; ul_errh = x.ul_errh }))
                                       (fun _ -> N0) l1)
                              else l1
                            in
                            UGo (l2,
                            (set (fun p -> p.u_params) (fun f0 ->
                              let p = fun r -> f0 r.u_params in
                              (fun x -> { u_type = x.u_type; u_scheme =
                              x.u_scheme; u_user = x.u_user; u_pass =
                              x.u_pass; u_host = x.u_host; u_port = x.u_port;
                              u_params = (p x); u_headers = x.u_headers;
                              u_portno = x.u_portno })) (fun _ -> f) u))
                          | None -> UPanic)
                    else UGo
                           ((set (fun u0 -> u0.ul_state) (fun f ->
                              let u0 = fun r -> f r.ul_state in
                              (fun x -> { ul_state = (u0 x); ul_s = x.ul_s;
                              ul_found = x.ul_found; ul_passoffs =
                              x.ul_passoffs; ul_portno = x.ul_portno;
                              ul_errh = x.ul_errh })) (fun _ -> UParam1) l),
                           u)
   | UHeaders ->
     if ch c c_at
     then u_backtrack i l u
     else if ch c c_semi
          then if (||) l.ul_found (negb (N.eqb l.ul_passoffs N0))
               then URet (errURIBadChar, i, u)
               else UGo
                      ((set (fun u0 -> u0.ul_errh) (fun f ->
                         let b = fun r -> f r.ul_errh in
                         (fun x -> { ul_state = x.ul_state; ul_s = x.ul_s;
                         ul_found = x.ul_found; ul_passoffs = x.ul_passoffs;
                         ul_portno = x.ul_portno; ul_errh = (b x) }))
                         (fun _ -> true) l), u)
          else if ch c c_colon
               then UGo
                      ((if l.ul_found
                        then l
                        else if negb (N.eqb l.ul_passoffs N0)
                             then set (fun u0 -> u0.ul_passoffs) (fun f ->
                                    let n0 = fun r -> f r.ul_passoffs in
                                    (fun x -> { ul_state = x.ul_state; ul_s =
                                    x.ul_s; ul_found = x.ul_found;
                                    ul_passoffs = (n0 x); ul_portno =
                                    x.ul_portno; ul_errh = x.ul_errh }))
                                    (fun _ -> N0)
                                    (set (fun u0 -> u0.ul_found) (fun f ->
                                      let b = fun r -> f r.ul_found in
                                      (fun x -> { ul_state = x.ul_state;
                                      ul_s = x.ul_s; ul_found = (b x);
                                      ul_passoffs = x.ul_passoffs;
                                      ul_portno = x.ul_portno; ul_errh =
                                      x.ul_errh })) (fun _ -> true) l)
                             else set (fun u0 -> u0.ul_passoffs) (fun f ->
                                    let n0 = fun r -> f r.ul_passoffs in
                                    (fun x -> { ul_state = x.ul_state; ul_s =
                                    x.ul_s; ul_found = x.ul_found;
                                    ul_passoffs = (n0 x); ul_portno =
                                    x.ul_portno; ul_errh = x.ul_errh }))
                                    (fun _ -> i) l), u)
               else if ch c c_qm
                    then UGo
                           ((if negb (N.eqb l.ul_passoffs N0)
                             then set (fun u0 -> u0.ul_passoffs) (fun f ->
                                    let n0 = fun r -> f r.ul_passoffs in
                                    (fun x -> { ul_state = x.ul_state; ul_s =
                                    x.ul_s; ul_found = x.ul_found;
                                    ul_passoffs = (n0 x); ul_portno =
                                    x.ul_portno; ul_errh = x.ul_errh }))
                                    (fun _ -> N0)
                                    (set (fun u0 -> u0.ul_found) (fun f ->
                                      let b = fun r -> f r.ul_found in
                                      (fun x -> { ul_state = x.ul_state;
                                      ul_s = x.ul_s; ul_found = (b x);
                                      ul_passoffs = x.ul_passoffs;
                                      ul_portno = x.ul_portno; ul_errh =
                                      x.ul_errh })) (fun _ -> true) l)
                             else l), u)
                    else UGo (l, u)
   | _ ->
     if ch c c_lbr
     then UGo
            ((set (fun u0 -> u0.ul_s) (fun f ->
               let n0 = fun r -> f r.ul_s in
               (fun x -> { ul_state = x.ul_state; ul_s = (n0 x); ul_found =
               x.ul_found; ul_passoffs = x.ul_passoffs; ul_portno =
               x.ul_portno; ul_errh = x.ul_errh })) (fun _ -> i)
               (set (fun u0 -> u0.ul_state) (fun f ->
                 let u0 = fun r -> f r.ul_state in
                 (fun x -> { ul_state = (u0 x); ul_s = x.ul_s; ul_found =
                 x.ul_found; ul_passoffs = x.ul_passoffs; ul_portno =
                 x.ul_portno; ul_errh = x.ul_errh })) (fun _ -> UHost61) l)),
            u)
     else if (||) (ch c c_colon) (ch c c_rbr)
          then URet (errURIBadChar, i, u)
          else UGo
                 ((set (fun u0 -> u0.ul_s) (fun f ->
                    let n0 = fun r -> f r.ul_s in
                    (fun x -> { ul_state = x.ul_state; ul_s = (n0 x);
                    ul_found = x.ul_found; ul_passoffs = x.ul_passoffs;
                    ul_portno = x.ul_portno; ul_errh = x.ul_errh }))
                    (fun _ -> i)
                    (set (fun u0 -> u0.ul_state) (fun f ->
                      let u0 = fun r -> f r.ul_state in
                      (fun x -> { ul_state = (u0 x); ul_s = x.ul_s;
                      ul_found = x.ul_found; ul_passoffs = x.ul_passoffs;
                      ul_portno = x.ul_portno; ul_errh = x.ul_errh }))
                      (fun _ -> UUser) l)), u))

(** val uri_finish : n -> uloc -> puri -> ustep **)

let uri_finish i l u =
  let fin = fun u0 -> URet (noURIErr, i,
    (if N.eqb u0.u_type tELuri
     then set (fun p -> p.u_host) (fun f ->
            let p = fun r -> f r.u_host in
            (fun x -> { u_type = x.u_type; u_scheme = x.u_scheme; u_user =
            x.u_user; u_pass = x.u_pass; u_host = (p x); u_port = x.u_port;
            u_params = x.u_params; u_headers = x.u_headers; u_portno =
            x.u_portno })) (fun _ -> pf0)
            (set (fun p -> p.u_user) (fun f ->
              let p = fun r -> f r.u_user in
              (fun x -> { u_type = x.u_type; u_scheme = x.u_scheme; u_user =
              (p x); u_pass = x.u_pass; u_host = x.u_host; u_port = x.u_port;
              u_params = x.u_params; u_headers = x.u_headers; u_portno =
              x.u_portno })) (fun _ -> u0.u_host) u0)
     else u0))
  in
  (match l.ul_state with
   | UUser ->
     if l.ul_found
     then URet (errURIBad, i, u)
     else (match pf_set l.ul_s i with
           | Some f ->
             fin
               (set (fun p -> p.u_host) (fun f0 ->
                 let p = fun r -> f0 r.u_host in
                 (fun x -> { u_type = x.u_type; u_scheme = x.u_scheme;
                 u_user = x.u_user; u_pass = x.u_pass; u_host = (p x);
                 u_port = x.u_port; u_params = x.u_params; u_headers =
                 x.u_headers; u_portno = x.u_portno })) (fun _ -> f) u)
           | None -> UPanic)
   | UPass0 ->
     if (||) l.ul_found (match l.ul_state with
                         | UPass1 -> true
                         | _ -> false)
     then URet (errURIPort, i, u)
     else u_endport i l u (fun u0 ->
            fin
              (set (fun p -> p.u_user) (fun f ->
                let p = fun r -> f r.u_user in
                (fun x -> { u_type = x.u_type; u_scheme = x.u_scheme;
                u_user = (p x); u_pass = x.u_pass; u_host = x.u_host;
                u_port = x.u_port; u_params = x.u_params; u_headers =
                x.u_headers; u_portno = x.u_portno })) (fun _ -> pf0)
                (set (fun p -> p.u_host) (fun f ->
                  let p = fun r -> f r.u_host in
                  (fun x -> { u_type = x.u_type; u_scheme = x.u_scheme;
                  u_user = x.u_user; u_pass = x.u_pass; u_host = (p x);
                  u_port = x.u_port; u_params = x.u_params; u_headers =
                  x.u_headers; u_portno = x.u_portno })) (fun _ -> u0.u_user)
                  u0)))
   | UPass1 ->
     if (||) l.ul_found (match l.ul_state with
                         | UPass1 -> true
                         | _ -> false)
     then URet (errURIPort, i, u)
     else u_endport i l u (fun u0 ->
            fin
              (set (fun p -> p.u_user) (fun f ->
                let p = fun r -> f r.u_user in
                (fun x -> { u_type = x.u_type; u_scheme = x.u_scheme;
                u_user = (p x); u_pass = x.u_pass; u_host = x.u_host;
                u_port = x.u_port; u_params = x.u_params; u_headers =
                x.u_headers; u_portno = x.u_portno })) (fun _ -> pf0)
                (set (fun p -> p.u_host) (fun f ->
                  let p = fun r -> f r.u_host in
                  (fun x -> { u_type = x.u_type; u_scheme = x.u_scheme;
                  u_user = x.u_user; u_pass = x.u_pass; u_host = (p x);
                  u_port = x.u_port; u_params = x.u_params; u_headers =
                  x.u_headers; u_portno = x.u_portno })) (fun _ -> u0.u_user)
                  u0)))
   | UHost0 -> URet (errURIHost, i, u)
   | UHost1 ->
     (match pf_set l.ul_s i with
      | Some f ->
        fin
          (set (fun p -> p.u_host) (fun f0 ->
            let p = fun r -> f0 r.u_host in
            (fun x -> { u_type = x.u_type; u_scheme = x.u_scheme; u_user =
            x.u_user; u_pass = x.u_pass; u_host = (p x); u_port = x.u_port;
            u_params = x.u_params; u_headers = x.u_headers; u_portno =
            x.u_portno })) (fun _ -> f) u)
      | None -> UPanic)
   | UHost61 -> URet (errURIHost, i, u)
   | UHost6E ->
     (match pf_set l.ul_s i with
      | Some f ->
        fin
          (set (fun p -> p.u_host) (fun f0 ->
            let p = fun r -> f0 r.u_host in
            (fun x -> { u_type = x.u_type; u_scheme = x.u_scheme; u_user =
            x.u_user; u_pass = x.u_pass; u_host = (p x); u_port = x.u_port;
            u_params = x.u_params; u_headers = x.u_headers; u_portno =
            x.u_portno })) (fun _ -> f) u)
      | None -> UPanic)
   | UPort -> u_endport i l u fin
   | UParam0 ->
     (match pf_set l.ul_s i with
      | Some f ->
        fin
          (set (fun p -> p.u_params) (fun f0 ->
            let p = fun r -> f0 r.u_params in
            (fun x -> { u_type = x.u_type; u_scheme = x.u_scheme; u_user =
            x.u_user; u_pass = x.u_pass; u_host = x.u_host; u_port =
            x.u_port; u_params = (p x); u_headers = x.u_headers; u_portno =
            x.u_portno })) (fun _ -> f) u)
      | None -> UPanic)
   | UParam1 ->
     (match pf_set l.ul_s i with
      | Some f ->
        fin
          (set (fun p -> p.u_params) (fun f0 ->
            let p = fun r -> f0 r.u_params in
            (fun x -> { u_type = x.u_type; u_scheme = x.u_scheme; u_user =
            x.u_user; u_pass = x.u_pass; u_host = x.u_host; u_port =
            x.u_port; u_params = (p x); u_headers = x.u_headers; u_portno =
            x.u_portno })) (fun _ -> f) u)
      | None -> UPanic)
   | UHeaders ->
     (match pf_set l.ul_s i with
      | Some f ->
        let u0 =
          set (fun p -> p.u_headers) (fun f0 ->
            let p = fun r -> f0 r.u_headers in
            (fun x -> { u_type = x.u_type; u_scheme = x.u_scheme; u_user =
            x.u_user; u_pass = x.u_pass; u_host = x.u_host; u_port =
            x.u_port; u_params = x.u_params; u_headers = (p x); u_portno =
            x.u_portno })) (fun _ -> f) u
        in
        if l.ul_errh then URet (errURIHeaders, i, u0) else fin u0
      | None -> UPanic)
   | _ -> URet (errURITooShort, i, u))

(** val uri_loop : byte list -> n -> uloc -> puri -> ustep **)

let rec uri_loop r i l u =
  match r with
  | [] -> uri_finish i l u
  | c :: r' ->
    (match uri_step c i l u with
     | UGo (l', u') -> uri_loop r' (N.add i (Npos XH)) l' u'
     | x -> x)

(** val lo20 : byte -> n **)

let lo20 c =
  N.coq_lor c (Npos (XO (XO (XO (XO (XO XH))))))

(** val parse_uri : byte list -> puri -> ((n * n) * puri) option **)

let parse_uri uri u =
  match uri with
  | [] -> Some ((errURITooShort, (nnat (length uri))), u)
  | a :: l ->
    (match l with
     | [] -> Some ((errURITooShort, (nnat (length uri))), u)
     | b :: l0 ->
       (match l0 with
        | [] -> Some ((errURITooShort, (nnat (length uri))), u)
        | c :: l1 ->
          (match l1 with
           | [] -> Some ((errURITooShort, (nnat (length uri))), u)
           | d :: l2 ->
             (match l2 with
              | [] -> Some ((errURITooShort, (nnat (length uri))), u)
              | e :: _ ->
                let start = fun t st schlen ->
                  match pf_set N0 (N.add (nnat schlen) (Npos XH)) with
                  | Some sc ->
                    (match uri_loop (skipn (S schlen) uri)
                             (N.add (nnat schlen) (Npos XH)) { ul_state = st;
                             ul_s = N0; ul_found = false; ul_passoffs = N0;
                             ul_portno = N0; ul_errh = false }
                             (set (fun p -> p.u_scheme) (fun f ->
                               let p = fun r -> f r.u_scheme in
                               (fun x -> { u_type = x.u_type; u_scheme =
                               (p x); u_user = x.u_user; u_pass = x.u_pass;
                               u_host = x.u_host; u_port = x.u_port;
                               u_params = x.u_params; u_headers =
                               x.u_headers; u_portno = x.u_portno }))
                               (fun _ -> sc)
                               (set (fun p -> p.u_type) (fun f ->
                                 let n0 = fun r -> f r.u_type in
                                 (fun x -> { u_type = (n0 x); u_scheme =
                                 x.u_scheme; u_user = x.u_user; u_pass =
                                 x.u_pass; u_host = x.u_host; u_port =
                                 x.u_port; u_params = x.u_params; u_headers =
                                 x.u_headers; u_portno = x.u_portno }))
                                 (fun _ -> t) u)) with
                     | UGo (_, _) -> None
                     | URet (e0, o, u') -> Some ((e0, o), u')
                     | UPanic -> None)
                  | None -> None
                in
                let s4 =
                  (lo20 a) :: ((lo20 b) :: ((lo20 c) :: ((lo20 d) :: [])))
                in
                if eqb_bytes s4 ((Npos (XI (XI (XO (XO (XI (XI
                     XH))))))) :: ((Npos (XI (XO (XO (XI (XO (XI
                     XH))))))) :: ((Npos (XO (XO (XO (XO (XI (XI
                     XH))))))) :: ((Npos (XO (XI (XO (XI (XI
                     XH)))))) :: []))))
                then start sIPuri UInitSIP (S (S (S O)))
                else if eqb_bytes s4 ((Npos (XO (XO (XI (XO (XI (XI
                          XH))))))) :: ((Npos (XI (XO (XI (XO (XO (XI
                          XH))))))) :: ((Npos (XO (XO (XI (XI (XO (XI
                          XH))))))) :: ((Npos (XO (XI (XO (XI (XI
                          XH)))))) :: []))))
                     then start tELuri UInitTEL (S (S (S O)))
                     else if eqb_bytes s4 ((Npos (XI (XI (XO (XO (XI (XI
                               XH))))))) :: ((Npos (XI (XO (XO (XI (XO (XI
                               XH))))))) :: ((Npos (XO (XO (XO (XO (XI (XI
                               XH))))))) :: ((Npos (XI (XI (XO (XO (XI (XI
                               XH))))))) :: []))))
                          then if N.eqb e c_colon
                               then start sIPSuri UInitSIPS (S (S (S (S O))))
                               else Some ((errURIScheme, (Npos (XO (XO
                                      XH)))),
                                      (set (fun p -> p.u_type) (fun f ->
                                        let n0 = fun r -> f r.u_type in
                                        (fun x -> { u_type = (n0 x);
                                        u_scheme = x.u_scheme; u_user =
                                        x.u_user; u_pass = x.u_pass; u_host =
                                        x.u_host; u_port = x.u_port;
                                        u_params = x.u_params; u_headers =
                                        x.u_headers; u_portno = x.u_portno }))
                                        (fun _ -> iNVALIDuri) u))
                          else Some ((errURIScheme, (Npos (XO (XO XH)))),
                                 (set (fun p -> p.u_type) (fun f ->
                                   let n0 = fun r -> f r.u_type in
                                   (fun x -> { u_type = (n0 x); u_scheme =
                                   x.u_scheme; u_user = x.u_user; u_pass =
                                   x.u_pass; u_host = x.u_host; u_port =
                                   x.u_port; u_params = x.u_params;
                                   u_headers = x.u_headers; u_portno =
                                   x.u_portno })) (fun _ -> iNVALIDuri) u))))))

(** val obs_puri : puri -> z list **)

let obs_puri u =
  app ((n2z u.u_type) :: [])
    (app (obs_pf u.u_scheme)
      (app (obs_pf u.u_user)
        (app (obs_pf u.u_pass)
          (app (obs_pf u.u_host)
            (app (obs_pf u.u_port)
              (app (obs_pf u.u_params)
                (app (obs_pf u.u_headers) ((n2z u.u_portno) :: []))))))))

(** val end16 : pf -> n **)

let end16 f =
  to16 (N.add f.po f.pl)

(** val view_to : puri -> pf -> pf option **)

let view_to u f =
  pf_set16 u.u_scheme.po (end16 f)

(** val uri_long : puri -> pf option **)

let uri_long u =
  if N.ltb N0 u.u_headers.pl
  then view_to u u.u_headers
  else if N.ltb N0 u.u_params.pl
       then view_to u u.u_params
       else if N.ltb N0 u.u_port.pl
            then view_to u u.u_port
            else if N.ltb N0 u.u_host.pl
                 then view_to u u.u_host
                 else if N.ltb N0 u.u_pass.pl
                      then view_to u u.u_pass
                      else if N.ltb N0 u.u_user.pl
                           then view_to u u.u_user
                           else Some pf0

(** val uri_short : puri -> pf option **)

let uri_short u =
  if N.ltb N0 u.u_port.pl
  then view_to u u.u_port
  else if N.ltb N0 u.u_host.pl
       then view_to u u.u_host
       else if N.ltb N0 u.u_user.pl then view_to u u.u_user else Some pf0

(** val uri_truncate : puri -> puri **)

let uri_truncate u =
  set (fun p -> p.u_headers) (fun f ->
    let p = fun r -> f r.u_headers in
    (fun x -> { u_type = x.u_type; u_scheme = x.u_scheme; u_user = x.u_user;
    u_pass = x.u_pass; u_host = x.u_host; u_port = x.u_port; u_params =
    x.u_params; u_headers = (p x); u_portno = x.u_portno })) (fun _ -> pf0)
    (set (fun p -> p.u_params) (fun f ->
      let p = fun r -> f r.u_params in
      (fun x -> { u_type = x.u_type; u_scheme = x.u_scheme; u_user =
      x.u_user; u_pass = x.u_pass; u_host = x.u_host; u_port = x.u_port;
      u_params = (p x); u_headers = x.u_headers; u_portno = x.u_portno }))
      (fun _ -> pf0) u)

(** val uri_adjust : puri -> pf -> bool * puri **)

let uri_adjust u np =
  let offs = np.po in
  let end_ = N.add offs np.pl in
  let sum =
    to16
      (N.add
        (N.add
          (N.add
            (N.add (N.add (N.add u.u_scheme.pl u.u_user.pl) u.u_pass.pl)
              u.u_host.pl) u.u_port.pl) u.u_params.pl) u.u_headers.pl)
  in
  if N.ltb np.pl sum
  then (false, u)
  else let start = u.u_scheme.po in
       let mv = fun f last ->
         if N.eqb f.po N0
         then (f, last)
         else ({ po =
                (to16
                  (N.add
                    (N.sub
                      (N.add f.po (Npos (XO (XO (XO (XO (XO (XO (XO (XO (XO
                        (XO (XO (XO (XO (XO (XO (XO XH))))))))))))))))))
                      start) offs)); pl = f.pl },
                (N.max last
                  (N.add
                    (N.add offs
                      (to16
                        (N.sub
                          (N.add f.po (Npos (XO (XO (XO (XO (XO (XO (XO (XO
                            (XO (XO (XO (XO (XO (XO (XO (XO
                            XH)))))))))))))))))) start))) f.pl)))
       in
       let (us, l1) = mv u.u_user offs in
       let (pw, l2) = mv u.u_pass l1 in
       let (ho, l3) = mv u.u_host l2 in
       let (pt, l4) = mv u.u_port l3 in
       let (pa, l5) = mv u.u_params l4 in
       let (hd, l6) = mv u.u_headers l5 in
       if N.ltb end_ l6
       then (false, u)
       else (true, { u_type = u.u_type; u_scheme = { po = offs; pl =
              u.u_scheme.pl }; u_user = us; u_pass = pw; u_host = ho;
              u_port = pt; u_params = pa; u_headers = hd; u_portno =
              u.u_portno })

(** val uri_cmp_short :
    puri -> byte list -> puri -> byte list -> n -> bool option **)

let uri_cmp_short u1 b1 u2 b2 flags =
  let t = testbit0 flags in
  if negb ((||) (t bURICmpSkipScheme) (N.eqb u1.u_type u2.u_type))
  then Some false
  else if negb ((||) (t bURICmpSkipPort) (N.eqb u1.u_portno u2.u_portno))
       then Some false
       else if t bURICmpSkipUser
            then let b = true in
                 if b
                 then if t bURICmpSkipPass
                      then let b0 = true in
                           if b0
                           then (match bget b1 u1.u_host with
                                 | Some x ->
                                   (match bget b2 u2.u_host with
                                    | Some y -> Some (eqb_nocase x y)
                                    | None -> None)
                                 | None -> None)
                           else Some false
                      else (match bget b1 u1.u_pass with
                            | Some x ->
                              (match bget b2 u2.u_pass with
                               | Some y ->
                                 let b0 = eqb_bytes x y in
                                 if b0
                                 then (match bget b1 u1.u_host with
                                       | Some x0 ->
                                         (match bget b2 u2.u_host with
                                          | Some y0 -> Some (eqb_nocase x0 y0)
                                          | None -> None)
                                       | None -> None)
                                 else Some false
                               | None -> None)
                            | None -> None)
                 else Some false
            else (match bget b1 u1.u_user with
                  | Some x ->
                    (match bget b2 u2.u_user with
                     | Some y ->
                       let b = eqb_bytes x y in
                       if b
                       then if t bURICmpSkipPass
                            then let b0 = true in
                                 if b0
                                 then (match bget b1 u1.u_host with
                                       | Some x0 ->
                                         (match bget b2 u2.u_host with
                                          | Some y0 -> Some (eqb_nocase x0 y0)
                                          | None -> None)
                                       | None -> None)
                                 else Some false
                            else (match bget b1 u1.u_pass with
                                  | Some x0 ->
                                    (match bget b2 u2.u_pass with
                                     | Some y0 ->
                                       let b0 = eqb_bytes x0 y0 in
                                       if b0
                                       then (match bget b1 u1.u_host with
                                             | Some x1 ->
                                               (match bget b2 u2.u_host with
                                                | Some y1 ->
                                                  Some (eqb_nocase x1 y1)
                                                | None -> None)
                                             | None -> None)
                                       else Some false
                                     | None -> None)
                                  | None -> None)
                       else Some false
                     | None -> None)
                  | None -> None)

(** val uri_cmp :
    puri -> byte list -> puri -> byte list -> n -> bool option **)

let uri_cmp u1 b1 u2 b2 flags =
  let t = testbit0 flags in
  (match uri_cmp_short u1 b1 u2 b2 flags with
   | Some r0 ->
     if (&&) r0 (negb (t bURICmpSkipParams))
     then (match bget b1 u1.u_params with
           | Some p1 ->
             (match bget b2 u2.u_params with
              | Some p2 ->
                (match uri_params_eq p1 N0 p2 N0 with
                 | Some p ->
                   let (ok, _) = p in
                   if (&&) ok (negb (t bURICmpSkipHeaders))
                   then (match bget b1 u1.u_headers with
                         | Some h1 ->
                           (match bget b2 u2.u_headers with
                            | Some h2 ->
                              (match uri_hdrs_eq h1 N0 h2 N0 with
                               | Some p0 -> let (ok0, _) = p0 in Some ok0
                               | None -> None)
                            | None -> None)
                         | None -> None)
                   else Some ok
                 | None -> None)
              | None -> None)
           | None -> None)
     else if (&&) r0 (negb (t bURICmpSkipHeaders))
          then (match bget b1 u1.u_headers with
                | Some h1 ->
                  (match bget b2 u2.u_headers with
                   | Some h2 ->
                     (match uri_hdrs_eq h1 N0 h2 N0 with
                      | Some p -> let (ok, _) = p in Some ok
                      | None -> None)
                   | None -> None)
                | None -> None)
          else Some r0
   | None -> None)

(** val uri_parse_cmp :
    byte list -> byte list -> n -> ((((bool * n) * n) * puri option) * puri
    option) option **)

let uri_parse_cmp raw1 raw2 flags =
  match parse_uri raw1 puri0 with
  | Some p ->
    let (p0, u1) = p in
    let (e1, _) = p0 in
    if negb (N.eqb e1 noURIErr)
    then Some ((((false, e1), N0), None), None)
    else (match parse_uri raw2 puri0 with
          | Some p1 ->
            let (p2, u2) = p1 in
            let (e2, _) = p2 in
            if negb (N.eqb e2 noURIErr)
            then Some ((((false, e2), (Npos XH)), (Some u1)), None)
            else (match uri_cmp u1 raw1 u2 raw2 flags with
                  | Some r ->
                    Some ((((r, noURIErr), N0), (Some u1)), (Some u2))
                  | None -> None)
          | None -> None)
  | None -> None

(** val go_hdr_buckets : (n list * n) list list **)

let go_hdr_buckets =
  [] :: ([] :: (((((Npos (XO (XI (XO (XO (XI (XI XH))))))) :: ((Npos (XI (XO
    (XI (XO (XO (XI XH))))))) :: ((Npos (XI (XI (XO (XO (XO (XI
    XH))))))) :: ((Npos (XI (XI (XI (XI (XO (XI XH))))))) :: ((Npos (XO (XI
    (XO (XO (XI (XI XH))))))) :: ((Npos (XO (XO (XI (XO (XO (XI
    XH))))))) :: ((Npos (XI (XO (XI (XI (XO XH)))))) :: ((Npos (XO (XI (XO
    (XO (XI (XI XH))))))) :: ((Npos (XI (XI (XI (XI (XO (XI
    XH))))))) :: ((Npos (XI (XO (XI (XO (XI (XI XH))))))) :: ((Npos (XO (XO
    (XI (XO (XI (XI XH))))))) :: ((Npos (XI (XO (XI (XO (XO (XI
    XH))))))) :: [])))))))))))), (Npos (XI (XI (XO
    XH))))) :: []) :: (((((Npos (XI (XI (XO (XO (XO (XI XH))))))) :: ((Npos
    (XI (XI (XO (XO (XI (XI XH))))))) :: ((Npos (XI (XO (XI (XO (XO (XI
    XH))))))) :: ((Npos (XI (XO (XO (XO (XI (XI XH))))))) :: [])))), (Npos
    (XO (XO XH)))) :: []) :: ([] :: ([] :: (((((Npos (XO (XI (XI (XO (XO (XI
    XH))))))) :: ((Npos (XO (XI (XO (XO (XI (XI XH))))))) :: ((Npos (XI (XI
    (XI (XI (XO (XI XH))))))) :: ((Npos (XI (XO (XI (XI (XO (XI
    XH))))))) :: [])))), (Npos
    XH)) :: []) :: ([] :: ([] :: ([] :: ([] :: ([] :: ([] :: (((((Npos (XI
    (XO (XI (XI (XO (XI XH))))))) :: ((Npos (XI (XO (XO (XO (XO (XI
    XH))))))) :: ((Npos (XO (XO (XO (XI (XI (XI XH))))))) :: ((Npos (XI (XO
    (XI (XI (XO XH)))))) :: ((Npos (XO (XI (XI (XO (XO (XI
    XH))))))) :: ((Npos (XI (XI (XI (XI (XO (XI XH))))))) :: ((Npos (XO (XI
    (XO (XO (XI (XI XH))))))) :: ((Npos (XI (XI (XI (XO (XI (XI
    XH))))))) :: ((Npos (XI (XO (XO (XO (XO (XI XH))))))) :: ((Npos (XO (XI
    (XO (XO (XI (XI XH))))))) :: ((Npos (XO (XO (XI (XO (XO (XI
    XH))))))) :: ((Npos (XI (XI (XO (XO (XI (XI XH))))))) :: [])))))))))))),
    (Npos (XO (XI XH)))) :: []) :: ([] :: ([] :: ([] :: ([] :: (((((Npos (XO
    (XI (XO (XO (XI (XI XH))))))) :: ((Npos (XI (XI (XI (XI (XO (XI
    XH))))))) :: ((Npos (XI (XO (XI (XO (XI (XI XH))))))) :: ((Npos (XO (XO
    (XI (XO (XI (XI XH))))))) :: ((Npos (XI (XO (XI (XO (XO (XI
    XH))))))) :: []))))), (Npos (XO (XO (XI
    XH))))) :: []) :: ([] :: (((((Npos (XO (XO (XI (XO (XI (XI
    XH))))))) :: []), (Npos (XO XH))) :: []) :: ([] :: (((((Npos (XO (XI (XI
    (XO (XO (XI XH))))))) :: []), (Npos XH)) :: ((((Npos (XO (XI (XI (XO (XI
    (XI XH))))))) :: []), (Npos (XI (XO
    XH)))) :: [])) :: ([] :: ([] :: (((((Npos (XI (XO (XO (XI (XO (XI
    XH))))))) :: []), (Npos (XI XH))) :: []) :: ([] :: ([] :: (((((Npos (XO
    (XO (XI (XI (XO (XI XH))))))) :: []), (Npos (XI (XI
    XH)))) :: []) :: (((((Npos (XI (XO (XI (XI (XO (XI XH))))))) :: []),
    (Npos (XO (XO (XO
    XH))))) :: []) :: ([] :: ([] :: ([] :: ([] :: ([] :: (((((Npos (XI (XI
    (XO (XO (XO (XI XH))))))) :: ((Npos (XI (XI (XI (XI (XO (XI
    XH))))))) :: ((Npos (XO (XI (XI (XI (XO (XI XH))))))) :: ((Npos (XO (XO
    (XI (XO (XI (XI XH))))))) :: ((Npos (XI (XO (XI (XO (XO (XI
    XH))))))) :: ((Npos (XO (XI (XI (XI (XO (XI XH))))))) :: ((Npos (XO (XO
    (XI (XO (XI (XI XH))))))) :: ((Npos (XI (XO (XI (XI (XO
    XH)))))) :: ((Npos (XO (XO (XI (XI (XO (XI XH))))))) :: ((Npos (XI (XO
    (XI (XO (XO (XI XH))))))) :: ((Npos (XO (XI (XI (XI (XO (XI
    XH))))))) :: ((Npos (XI (XI (XI (XO (XO (XI XH))))))) :: ((Npos (XO (XO
    (XI (XO (XI (XI XH))))))) :: ((Npos (XO (XO (XO (XI (XO (XI
    XH))))))) :: [])))))))))))))), (Npos (XI (XI XH)))) :: []) :: (((((Npos
    (XO (XO (XI (XO (XI (XI XH))))))) :: ((Npos (XI (XI (XI (XI (XO (XI
    XH))))))) :: [])), (Npos (XO XH))) :: []) :: (((((Npos (XI (XO (XI (XO
    (XI (XI XH))))))) :: ((Npos (XI (XI (XO (XO (XI (XI XH))))))) :: ((Npos
    (XI (XO (XI (XO (XO (XI XH))))))) :: ((Npos (XO (XI (XO (XO (XI (XI
    XH))))))) :: ((Npos (XI (XO (XI (XI (XO XH)))))) :: ((Npos (XI (XO (XO
    (XO (XO (XI XH))))))) :: ((Npos (XI (XI (XI (XO (XO (XI
    XH))))))) :: ((Npos (XI (XO (XI (XO (XO (XI XH))))))) :: ((Npos (XO (XI
    (XI (XI (XO (XI XH))))))) :: ((Npos (XO (XO (XI (XO (XI (XI
    XH))))))) :: [])))))))))), (Npos (XO (XI (XO
    XH))))) :: []) :: ([] :: ([] :: ([] :: ([] :: ([] :: ([] :: ([] :: ([] :: ([] :: ([] :: (((((Npos
    (XO (XO (XO (XO (XI (XI XH))))))) :: ((Npos (XI (XO (XI (XI (XO
    XH)))))) :: ((Npos (XI (XO (XO (XO (XO (XI XH))))))) :: ((Npos (XI (XI
    (XO (XO (XI (XI XH))))))) :: ((Npos (XI (XI (XO (XO (XI (XI
    XH))))))) :: ((Npos (XI (XO (XI (XO (XO (XI XH))))))) :: ((Npos (XO (XI
    (XO (XO (XI (XI XH))))))) :: ((Npos (XO (XO (XI (XO (XI (XI
    XH))))))) :: ((Npos (XI (XO (XI (XO (XO (XI XH))))))) :: ((Npos (XO (XO
    (XI (XO (XO (XI XH))))))) :: ((Npos (XI (XO (XI (XI (XO
    XH)))))) :: ((Npos (XI (XO (XO (XI (XO (XI XH))))))) :: ((Npos (XO (XO
    (XI (XO (XO (XI XH))))))) :: ((Npos (XI (XO (XI (XO (XO (XI
    XH))))))) :: ((Npos (XO (XI (XI (XI (XO (XI XH))))))) :: ((Npos (XO (XO
    (XI (XO (XI (XI XH))))))) :: ((Npos (XI (XO (XO (XI (XO (XI
    XH))))))) :: ((Npos (XO (XO (XI (XO (XI (XI XH))))))) :: ((Npos (XI (XO
    (XO (XI (XI (XI XH))))))) :: []))))))))))))))))))), (Npos (XI (XO (XI
    XH))))) :: []) :: ([] :: ([] :: (((((Npos (XI (XI (XO (XO (XO (XI
    XH))))))) :: ((Npos (XI (XO (XO (XO (XO (XI XH))))))) :: ((Npos (XO (XO
    (XI (XI (XO (XI XH))))))) :: ((Npos (XO (XO (XI (XI (XO (XI
    XH))))))) :: ((Npos (XI (XO (XI (XI (XO XH)))))) :: ((Npos (XI (XO (XO
    (XI (XO (XI XH))))))) :: ((Npos (XO (XO (XI (XO (XO (XI
    XH))))))) :: []))))))), (Npos (XI XH))) :: ((((Npos (XI (XI (XO (XO (XO
    (XI XH))))))) :: ((Npos (XI (XI (XI (XI (XO (XI XH))))))) :: ((Npos (XO
    (XI (XI (XI (XO (XI XH))))))) :: ((Npos (XO (XO (XI (XO (XI (XI
    XH))))))) :: ((Npos (XI (XO (XO (XO (XO (XI XH))))))) :: ((Npos (XI (XI
    (XO (XO (XO (XI XH))))))) :: ((Npos (XO (XO (XI (XO (XI (XI
    XH))))))) :: []))))))), (Npos (XO (XO (XO
    XH))))) :: [])) :: ([] :: (((((Npos (XI (XO (XI (XO (XO (XI
    XH))))))) :: ((Npos (XO (XO (XO (XI (XI (XI XH))))))) :: ((Npos (XO (XO
    (XO (XO (XI (XI XH))))))) :: ((Npos (XI (XO (XO (XI (XO (XI
    XH))))))) :: ((Npos (XO (XI (XO (XO (XI (XI XH))))))) :: ((Npos (XI (XO
    (XI (XO (XO (XI XH))))))) :: ((Npos (XI (XI (XO (XO (XI (XI
    XH))))))) :: []))))))), (Npos (XI (XO (XO XH))))) :: []) :: (((((Npos (XO
    (XI (XI (XO (XI (XI XH))))))) :: ((Npos (XI (XO (XO (XI (XO (XI
    XH))))))) :: ((Npos (XI (XO (XO (XO (XO (XI XH))))))) :: []))), (Npos (XI
    (XO
    XH)))) :: []) :: ([] :: ([] :: ([] :: ([] :: ([] :: ([] :: ([] :: ([] :: ([] :: [])))))))))))))))))))))))))))))))))))))))))))))))))))))))))))))))

(** val go_mth_buckets : (n list * n) list list **)

let go_mth_buckets =
  [] :: (((((Npos (XI (XO (XO (XI (XO (XO XH))))))) :: ((Npos (XO (XI (XI (XI
    (XO (XO XH))))))) :: ((Npos (XO (XI (XI (XO (XO (XO XH))))))) :: ((Npos
    (XI (XI (XI (XI (XO (XO XH))))))) :: [])))), (Npos (XI (XI (XO
    XH))))) :: []) :: (((((Npos (XO (XI (XO (XO (XI (XO XH))))))) :: ((Npos
    (XI (XO (XI (XO (XO (XO XH))))))) :: ((Npos (XI (XI (XI (XO (XO (XO
    XH))))))) :: ((Npos (XI (XO (XO (XI (XO (XO XH))))))) :: ((Npos (XI (XI
    (XO (XO (XI (XO XH))))))) :: ((Npos (XO (XO (XI (XO (XI (XO
    XH))))))) :: ((Npos (XI (XO (XI (XO (XO (XO XH))))))) :: ((Npos (XO (XI
    (XO (XO (XI (XO XH))))))) :: [])))))))), (Npos
    XH)) :: []) :: ([] :: ([] :: ([] :: ([] :: ([] :: (((((Npos (XO (XO (XO
    (XO (XI (XO XH))))))) :: ((Npos (XO (XI (XO (XO (XI (XO
    XH))))))) :: ((Npos (XI (XO (XO (XO (XO (XO XH))))))) :: ((Npos (XI (XI
    (XO (XO (XO (XO XH))))))) :: ((Npos (XI (XI (XO (XI (XO (XO
    XH))))))) :: []))))), (Npos (XI (XO XH)))) :: []) :: ([] :: (((((Npos (XO
    (XI (XO (XO (XI (XO XH))))))) :: ((Npos (XI (XO (XI (XO (XO (XO
    XH))))))) :: ((Npos (XO (XI (XI (XO (XO (XO XH))))))) :: ((Npos (XI (XO
    (XI (XO (XO (XO XH))))))) :: ((Npos (XO (XI (XO (XO (XI (XO
    XH))))))) :: []))))), (Npos (XO (XO (XI XH))))) :: []) :: (((((Npos (XI
    (XI (XO (XO (XI (XO XH))))))) :: ((Npos (XI (XO (XI (XO (XI (XO
    XH))))))) :: ((Npos (XO (XI (XO (XO (XO (XO XH))))))) :: ((Npos (XI (XI
    (XO (XO (XI (XO XH))))))) :: ((Npos (XI (XI (XO (XO (XO (XO
    XH))))))) :: ((Npos (XO (XI (XO (XO (XI (XO XH))))))) :: ((Npos (XI (XO
    (XO (XI (XO (XO XH))))))) :: ((Npos (XO (XI (XO (XO (XO (XO
    XH))))))) :: ((Npos (XI (XO (XI (XO (XO (XO XH))))))) :: []))))))))),
    (Npos (XO (XO (XO
    XH))))) :: []) :: ([] :: ([] :: ([] :: ([] :: ([] :: (((((Npos (XI (XO
    (XO (XI (XO (XO XH))))))) :: ((Npos (XO (XI (XI (XI (XO (XO
    XH))))))) :: ((Npos (XO (XI (XI (XO (XI (XO XH))))))) :: ((Npos (XI (XO
    (XO (XI (XO (XO XH))))))) :: ((Npos (XO (XO (XI (XO (XI (XO
    XH))))))) :: ((Npos (XI (XO (XI (XO (XO (XO XH))))))) :: [])))))), (Npos
    (XO XH))) :: []) :: ([] :: (((((Npos (XI (XI (XO (XO (XO (XO
    XH))))))) :: ((Npos (XI (XO (XO (XO (XO (XO XH))))))) :: ((Npos (XO (XI
    (XI (XI (XO (XO XH))))))) :: ((Npos (XI (XI (XO (XO (XO (XO
    XH))))))) :: ((Npos (XI (XO (XI (XO (XO (XO XH))))))) :: ((Npos (XO (XO
    (XI (XI (XO (XO XH))))))) :: [])))))), (Npos (XO (XI
    XH)))) :: []) :: ([] :: (((((Npos (XI (XO (XI (XO (XI (XO
    XH))))))) :: ((Npos (XO (XO (XO (XO (XI (XO XH))))))) :: ((Npos (XO (XO
    (XI (XO (XO (XO XH))))))) :: ((Npos (XI (XO (XO (XO (XO (XO
    XH))))))) :: ((Npos (XO (XO (XI (XO (XI (XO XH))))))) :: ((Npos (XI (XO
    (XI (XO (XO (XO XH))))))) :: [])))))), (Npos (XO (XI (XO
    XH))))) :: []) :: (((((Npos (XO (XI (XI (XI (XO (XO XH))))))) :: ((Npos
    (XI (XI (XI (XI (XO (XO XH))))))) :: ((Npos (XO (XO (XI (XO (XI (XO
    XH))))))) :: ((Npos (XI (XO (XO (XI (XO (XO XH))))))) :: ((Npos (XO (XI
    (XI (XO (XO (XO XH))))))) :: ((Npos (XI (XO (XO (XI (XI (XO
    XH))))))) :: [])))))), (Npos (XI (XO (XO
    XH))))) :: []) :: ([] :: (((((Npos (XO (XO (XO (XO (XI (XO
    XH))))))) :: ((Npos (XI (XO (XI (XO (XI (XO XH))))))) :: ((Npos (XO (XI
    (XO (XO (XO (XO XH))))))) :: ((Npos (XO (XO (XI (XI (XO (XO
    XH))))))) :: ((Npos (XI (XO (XO (XI (XO (XO XH))))))) :: ((Npos (XI (XI
    (XO (XO (XI (XO XH))))))) :: ((Npos (XO (XO (XO (XI (XO (XO
    XH))))))) :: []))))))), (Npos (XI (XO (XI XH))))) :: []) :: (((((Npos (XI
    (XO (XO (XO (XO (XO XH))))))) :: ((Npos (XI (XI (XO (XO (XO (XO
    XH))))))) :: ((Npos (XI (XI (XO (XI (XO (XO XH))))))) :: []))), (Npos (XI
    XH))) :: []) :: (((((Npos (XO (XI (XO (XO (XO (XO XH))))))) :: ((Npos (XI
    (XO (XO (XI (XI (XO XH))))))) :: ((Npos (XI (XO (XI (XO (XO (XO
    XH))))))) :: []))), (Npos (XO (XO
    XH)))) :: []) :: ([] :: ([] :: (((((Npos (XI (XO (XI (XI (XO (XO
    XH))))))) :: ((Npos (XI (XO (XI (XO (XO (XO XH))))))) :: ((Npos (XI (XI
    (XO (XO (XI (XO XH))))))) :: ((Npos (XI (XI (XO (XO (XI (XO
    XH))))))) :: ((Npos (XI (XO (XO (XO (XO (XO XH))))))) :: ((Npos (XI (XI
    (XI (XO (XO (XO XH))))))) :: ((Npos (XI (XO (XI (XO (XO (XO
    XH))))))) :: []))))))), (Npos (XO (XI (XI
    XH))))) :: []) :: ([] :: (((((Npos (XI (XI (XI (XI (XO (XO
    XH))))))) :: ((Npos (XO (XO (XO (XO (XI (XO XH))))))) :: ((Npos (XO (XO
    (XI (XO (XI (XO XH))))))) :: ((Npos (XI (XO (XO (XI (XO (XO
    XH))))))) :: ((Npos (XI (XI (XI (XI (XO (XO XH))))))) :: ((Npos (XO (XI
    (XI (XI (XO (XO XH))))))) :: ((Npos (XI (XI (XO (XO (XI (XO
    XH))))))) :: []))))))), (Npos (XI (XI
    XH)))) :: []) :: [])))))))))))))))))))))))))))))))

(** val go_method2name : n list list **)

let go_method2name =
  [] :: (((Npos (XO (XI (XO (XO (XI (XO XH))))))) :: ((Npos (XI (XO (XI (XO
    (XO (XO XH))))))) :: ((Npos (XI (XI (XI (XO (XO (XO XH))))))) :: ((Npos
    (XI (XO (XO (XI (XO (XO XH))))))) :: ((Npos (XI (XI (XO (XO (XI (XO
    XH))))))) :: ((Npos (XO (XO (XI (XO (XI (XO XH))))))) :: ((Npos (XI (XO
    (XI (XO (XO (XO XH))))))) :: ((Npos (XO (XI (XO (XO (XI (XO
    XH))))))) :: [])))))))) :: (((Npos (XI (XO (XO (XI (XO (XO
    XH))))))) :: ((Npos (XO (XI (XI (XI (XO (XO XH))))))) :: ((Npos (XO (XI
    (XI (XO (XI (XO XH))))))) :: ((Npos (XI (XO (XO (XI (XO (XO
    XH))))))) :: ((Npos (XO (XO (XI (XO (XI (XO XH))))))) :: ((Npos (XI (XO
    (XI (XO (XO (XO XH))))))) :: [])))))) :: (((Npos (XI (XO (XO (XO (XO (XO
    XH))))))) :: ((Npos (XI (XI (XO (XO (XO (XO XH))))))) :: ((Npos (XI (XI
    (XO (XI (XO (XO XH))))))) :: []))) :: (((Npos (XO (XI (XO (XO (XO (XO
    XH))))))) :: ((Npos (XI (XO (XO (XI (XI (XO XH))))))) :: ((Npos (XI (XO
    (XI (XO (XO (XO XH))))))) :: []))) :: (((Npos (XO (XO (XO (XO (XI (XO
    XH))))))) :: ((Npos (XO (XI (XO (XO (XI (XO XH))))))) :: ((Npos (XI (XO
    (XO (XO (XO (XO XH))))))) :: ((Npos (XI (XI (XO (XO (XO (XO
    XH))))))) :: ((Npos (XI (XI (XO (XI (XO (XO
    XH))))))) :: []))))) :: (((Npos (XI (XI (XO (XO (XO (XO
    XH))))))) :: ((Npos (XI (XO (XO (XO (XO (XO XH))))))) :: ((Npos (XO (XI
    (XI (XI (XO (XO XH))))))) :: ((Npos (XI (XI (XO (XO (XO (XO
    XH))))))) :: ((Npos (XI (XO (XI (XO (XO (XO XH))))))) :: ((Npos (XO (XO
    (XI (XI (XO (XO XH))))))) :: [])))))) :: (((Npos (XI (XI (XI (XI (XO (XO
    XH))))))) :: ((Npos (XO (XO (XO (XO (XI (XO XH))))))) :: ((Npos (XO (XO
    (XI (XO (XI (XO XH))))))) :: ((Npos (XI (XO (XO (XI (XO (XO
    XH))))))) :: ((Npos (XI (XI (XI (XI (XO (XO XH))))))) :: ((Npos (XO (XI
    (XI (XI (XO (XO XH))))))) :: ((Npos (XI (XI (XO (XO (XI (XO
    XH))))))) :: []))))))) :: (((Npos (XI (XI (XO (XO (XI (XO
    XH))))))) :: ((Npos (XI (XO (XI (XO (XI (XO XH))))))) :: ((Npos (XO (XI
    (XO (XO (XO (XO XH))))))) :: ((Npos (XI (XI (XO (XO (XI (XO
    XH))))))) :: ((Npos (XI (XI (XO (XO (XO (XO XH))))))) :: ((Npos (XO (XI
    (XO (XO (XI (XO XH))))))) :: ((Npos (XI (XO (XO (XI (XO (XO
    XH))))))) :: ((Npos (XO (XI (XO (XO (XO (XO XH))))))) :: ((Npos (XI (XO
    (XI (XO (XO (XO XH))))))) :: []))))))))) :: (((Npos (XO (XI (XI (XI (XO
    (XO XH))))))) :: ((Npos (XI (XI (XI (XI (XO (XO XH))))))) :: ((Npos (XO
    (XO (XI (XO (XI (XO XH))))))) :: ((Npos (XI (XO (XO (XI (XO (XO
    XH))))))) :: ((Npos (XO (XI (XI (XO (XO (XO XH))))))) :: ((Npos (XI (XO
    (XO (XI (XI (XO XH))))))) :: [])))))) :: (((Npos (XI (XO (XI (XO (XI (XO
    XH))))))) :: ((Npos (XO (XO (XO (XO (XI (XO XH))))))) :: ((Npos (XO (XO
    (XI (XO (XO (XO XH))))))) :: ((Npos (XI (XO (XO (XO (XO (XO
    XH))))))) :: ((Npos (XO (XO (XI (XO (XI (XO XH))))))) :: ((Npos (XI (XO
    (XI (XO (XO (XO XH))))))) :: [])))))) :: (((Npos (XI (XO (XO (XI (XO (XO
    XH))))))) :: ((Npos (XO (XI (XI (XI (XO (XO XH))))))) :: ((Npos (XO (XI
    (XI (XO (XO (XO XH))))))) :: ((Npos (XI (XI (XI (XI (XO (XO
    XH))))))) :: [])))) :: (((Npos (XO (XI (XO (XO (XI (XO
    XH))))))) :: ((Npos (XI (XO (XI (XO (XO (XO XH))))))) :: ((Npos (XO (XI
    (XI (XO (XO (XO XH))))))) :: ((Npos (XI (XO (XI (XO (XO (XO
    XH))))))) :: ((Npos (XO (XI (XO (XO (XI (XO
    XH))))))) :: []))))) :: (((Npos (XO (XO (XO (XO (XI (XO
    XH))))))) :: ((Npos (XI (XO (XI (XO (XI (XO XH))))))) :: ((Npos (XO (XI
    (XO (XO (XO (XO XH))))))) :: ((Npos (XO (XO (XI (XI (XO (XO
    XH))))))) :: ((Npos (XI (XO (XO (XI (XO (XO XH))))))) :: ((Npos (XI (XI
    (XO (XO (XI (XO XH))))))) :: ((Npos (XO (XO (XO (XI (XO (XO
    XH))))))) :: []))))))) :: (((Npos (XI (XO (XI (XI (XO (XO
    XH))))))) :: ((Npos (XI (XO (XI (XO (XO (XO XH))))))) :: ((Npos (XI (XI
    (XO (XO (XI (XO XH))))))) :: ((Npos (XI (XI (XO (XO (XI (XO
    XH))))))) :: ((Npos (XI (XO (XO (XO (XO (XO XH))))))) :: ((Npos (XI (XI
    (XI (XO (XO (XO XH))))))) :: ((Npos (XI (XO (XI (XO (XO (XO
    XH))))))) :: []))))))) :: (((Npos (XI (XI (XI (XI (XO (XO
    XH))))))) :: ((Npos (XO (XO (XI (XO (XI (XO XH))))))) :: ((Npos (XO (XO
    (XO (XI (XO (XO XH))))))) :: ((Npos (XI (XO (XI (XO (XO (XO
    XH))))))) :: ((Npos (XO (XI (XO (XO (XI (XO
    XH))))))) :: []))))) :: [])))))))))))))))

(** val go_hnBitsLen : n **)

let go_hnBitsLen =
  Npos (XO XH)

(** val go_hnBitsFChar : n **)

let go_hnBitsFChar =
  Npos (XO (XO XH))

(** val go_mthBitsLen : n **)

let go_mthBitsLen =
  Npos (XO XH)

(** val go_mthBitsFChar : n **)

let go_mthBitsFChar =
  Npos (XI XH)

(** val go_sipVerSP : n list **)

let go_sipVerSP =
  (Npos (XI (XI (XO (XO (XI (XO XH))))))) :: ((Npos (XI (XO (XO (XI (XO (XO
    XH))))))) :: ((Npos (XO (XO (XO (XO (XI (XO XH))))))) :: ((Npos (XI (XI
    (XI (XI (XO XH)))))) :: ((Npos (XO (XI (XO (XO (XI XH)))))) :: ((Npos (XO
    (XI (XI (XI (XO XH)))))) :: ((Npos (XO (XO (XO (XO (XI XH)))))) :: ((Npos
    (XO (XO (XO (XO (XO XH)))))) :: [])))))))

(** val go_hdr2SigId : n list **)

let go_hdr2SigId =
  (Npos (XI (XI (XI (XI (XI (XI (XI XH)))))))) :: ((Npos (XI XH)) :: ((Npos
    (XI (XO XH))) :: (N0 :: ((Npos (XO XH)) :: ((Npos (XO (XI XH))) :: ((Npos
    (XO (XO XH))) :: ((Npos (XI (XI (XI (XI (XI (XI (XI XH)))))))) :: ((Npos
    XH) :: ((Npos (XI (XI (XI (XI (XI (XI (XI XH)))))))) :: ((Npos (XI (XI
    XH))) :: ((Npos (XI (XI (XI (XI (XI (XI (XI XH)))))))) :: ((Npos (XI (XI
    (XI (XI (XI (XI (XI XH)))))))) :: ((Npos (XI (XI (XI (XI (XI (XI (XI
    XH)))))))) :: ((Npos (XI (XI (XI (XI (XI (XI (XI
    XH)))))))) :: []))))))))))))))

(** val go_sigHdrsFlags : n **)

let go_sigHdrsFlags =
  Npos (XO (XI (XI (XI (XI (XI (XI (XO (XI (XO XH))))))))))

(** val go_HdrSigIdCMask : n **)

let go_HdrSigIdCMask =
  Npos (XO (XO (XO XH)))

(** val go_NoSigHdrs : n **)

let go_NoSigHdrs =
  Npos (XO (XO (XO XH)))

(** val hash_name : n -> n -> byte list -> n **)

let hash_name bits_len bits_fchar n0 = match n0 with
| [] -> N0
| c :: _ ->
  N.coq_lor
    (N.coq_land (to_lower c)
      (N.sub (N.pow (Npos (XO XH)) bits_fchar) (Npos XH)))
    (N.shiftl
      (N.coq_land (N.of_nat (length n0))
        (N.sub (N.pow (Npos (XO XH)) bits_len) (Npos XH))) bits_fchar)

(** val find_name :
    (byte list -> byte list -> bool) -> byte list -> (byte list * n) list ->
    n option **)

let rec find_name eq name = function
| [] -> None
| p :: b' ->
  let (n0, t) = p in if eq name n0 then Some t else find_name eq name b'

(** val get_hdr_type : byte list -> n **)

let get_hdr_type name = match name with
| [] -> hdrOther
| _ :: _ ->
  (match find_name eqb_nocase name
           (nth (N.to_nat (hash_name go_hnBitsLen go_hnBitsFChar name))
             go_hdr_buckets []) with
   | Some t -> t
   | None -> hdrOther)

(** val get_method_no : byte list -> n **)

let get_method_no name = match name with
| [] -> mOther
| _ :: _ ->
  (match find_name eqb_bytes name
           (nth (N.to_nat (hash_name go_mthBitsLen go_mthBitsFChar name))
             go_mth_buckets []) with
   | Some t -> t
   | None -> mOther)

(** val method_name : n -> byte list **)

let method_name m =
  if N.ltb mOther m
  then nth O go_method2name []
  else nth (N.to_nat m) go_method2name []

type flst =
| FlInit
| FlReqMethod
| FlReqURI
| FlReqVer
| FlRplStatus
| FlRplReason
| FlCRLF
| FlFIN

type fline = { fl_status : n; fl_methodno : n; fl_method : pf; fl_uri : 
               pf; fl_version : pf; fl_statuscode : pf; fl_reason : pf;
               fl_state : flst }

(** val fline0 : fline **)

let fline0 =
  { fl_status = N0; fl_methodno = N0; fl_method = pf0; fl_uri = pf0;
    fl_version = pf0; fl_statuscode = pf0; fl_reason = pf0; fl_state =
    FlInit }

(** val fl_request : fline -> bool **)

let fl_request s =
  (&&) (N.eqb s.fl_status N0) (pf_empty s.fl_statuscode)

(** val fl_parsed : fline -> bool **)

let fl_parsed s =
  match s.fl_state with
  | FlFIN -> true
  | _ -> false

(** val fl_empty : fline -> bool **)

let fl_empty s =
  match s.fl_state with
  | FlInit -> true
  | _ -> false

(** val fl_crlf : byte list -> n -> fline -> fline ires **)

let fl_crlf rest i s =
  match skipCRLF rest with
  | COk crl ->
    Ret ((N.add i (nnat crl)), EOk,
      (set (fun f -> f.fl_state) (fun f ->
        let f0 = fun r -> f r.fl_state in
        (fun x -> { fl_status = x.fl_status; fl_methodno = x.fl_methodno;
        fl_method = x.fl_method; fl_uri = x.fl_uri; fl_version =
        x.fl_version; fl_statuscode = x.fl_statuscode; fl_reason =
        x.fl_reason; fl_state = (f0 x) })) (fun _ -> FlFIN) s))
  | CMore -> Ret (i, EMore, s)
  | CNoCR -> Ret (i, ENoCR, s)

(** val fl_ver : byte list -> byte list -> n -> fline -> fline ires **)

let fl_ver _ rest i s =
  let k = skipToken rest in
  let i' = N.add i (nnat k) in
  (match skipn k rest with
   | [] -> Ret (i', EMore, s)
   | c :: _ ->
     if negb (is_crlf c)
     then Ret (i', EBadChar, s)
     else (match pf_extend s.fl_version i' with
           | Some v ->
             let s0 =
               set (fun f -> f.fl_version) (fun f ->
                 let p = fun r -> f r.fl_version in
                 (fun x -> { fl_status = x.fl_status; fl_methodno =
                 x.fl_methodno; fl_method = x.fl_method; fl_uri = x.fl_uri;
                 fl_version = (p x); fl_statuscode = x.fl_statuscode;
                 fl_reason = x.fl_reason; fl_state = x.fl_state })) (fun _ ->
                 v) s
             in
             if pf_empty v
             then Ret (i', EBadChar, s0)
             else fl_crlf (skipn k rest) i'
                    (set (fun f -> f.fl_state) (fun f ->
                      let f0 = fun r -> f r.fl_state in
                      (fun x -> { fl_status = x.fl_status; fl_methodno =
                      x.fl_methodno; fl_method = x.fl_method; fl_uri =
                      x.fl_uri; fl_version = x.fl_version; fl_statuscode =
                      x.fl_statuscode; fl_reason = x.fl_reason; fl_state =
                      (f0 x) })) (fun _ -> FlCRLF) s0)
           | None -> IPanic))

(** val fl_requri : byte list -> byte list -> n -> fline -> fline ires **)

let fl_requri pre rest i s =
  let k = skipToken rest in
  let i' = N.add i (nnat k) in
  (match skipn k rest with
   | [] -> Ret (i', EMore, s)
   | c :: r' ->
     if negb (N.eqb c sP)
     then Ret (i', EBadChar, s)
     else (match pf_extend s.fl_uri i' with
           | Some u ->
             let s0 =
               set (fun f -> f.fl_uri) (fun f ->
                 let p = fun r -> f r.fl_uri in
                 (fun x -> { fl_status = x.fl_status; fl_methodno =
                 x.fl_methodno; fl_method = x.fl_method; fl_uri = (p x);
                 fl_version = x.fl_version; fl_statuscode = x.fl_statuscode;
                 fl_reason = x.fl_reason; fl_state = x.fl_state })) (fun _ ->
                 u) s
             in
             if pf_empty u
             then Ret (i', EBadChar, s0)
             else (match pf_set (N.add i' (Npos XH)) (N.add i' (Npos XH)) with
                   | Some v ->
                     fl_ver (zpre (S k) pre rest) r' (N.add i' (Npos XH))
                       (set (fun f -> f.fl_version) (fun f ->
                         let p = fun r -> f r.fl_version in
                         (fun x -> { fl_status = x.fl_status; fl_methodno =
                         x.fl_methodno; fl_method = x.fl_method; fl_uri =
                         x.fl_uri; fl_version = (p x); fl_statuscode =
                         x.fl_statuscode; fl_reason = x.fl_reason; fl_state =
                         x.fl_state })) (fun _ -> v)
                         (set (fun f -> f.fl_state) (fun f ->
                           let f0 = fun r -> f r.fl_state in
                           (fun x -> { fl_status = x.fl_status; fl_methodno =
                           x.fl_methodno; fl_method = x.fl_method; fl_uri =
                           x.fl_uri; fl_version = x.fl_version;
                           fl_statuscode = x.fl_statuscode; fl_reason =
                           x.fl_reason; fl_state = (f0 x) })) (fun _ ->
                           FlReqVer) s0))
                   | None -> IPanic)
           | None -> IPanic))

(** val fl_method_ph : byte list -> byte list -> n -> fline -> fline ires **)

let fl_method_ph pre rest i s =
  let k = skipToken rest in
  let i' = N.add i (nnat k) in
  (match skipn k rest with
   | [] -> Ret (i', EMore, s)
   | c :: r' ->
     if negb (N.eqb c sP)
     then Ret (i', EBadChar, s)
     else (match pf_extend s.fl_method i' with
           | Some m ->
             let s0 =
               set (fun f -> f.fl_method) (fun f ->
                 let p = fun r -> f r.fl_method in
                 (fun x -> { fl_status = x.fl_status; fl_methodno =
                 x.fl_methodno; fl_method = (p x); fl_uri = x.fl_uri;
                 fl_version = x.fl_version; fl_statuscode = x.fl_statuscode;
                 fl_reason = x.fl_reason; fl_state = x.fl_state })) (fun _ ->
                 m) s
             in
             if pf_empty m
             then Ret (i', EBadChar, s0)
             else (match zget pre rest i m with
                   | Some name ->
                     (match pf_set (N.add i' (Npos XH)) (N.add i' (Npos XH)) with
                      | Some u ->
                        fl_requri (zpre (S k) pre rest) r'
                          (N.add i' (Npos XH))
                          (set (fun f -> f.fl_uri) (fun f ->
                            let p = fun r -> f r.fl_uri in
                            (fun x -> { fl_status = x.fl_status;
                            fl_methodno = x.fl_methodno; fl_method =
                            x.fl_method; fl_uri = (p x); fl_version =
                            x.fl_version; fl_statuscode = x.fl_statuscode;
                            fl_reason = x.fl_reason; fl_state = x.fl_state }))
                            (fun _ -> u)
                            (set (fun f -> f.fl_state) (fun f ->
                              let f0 = fun r -> f r.fl_state in
                              (fun x -> { fl_status = x.fl_status;
                              fl_methodno = x.fl_methodno; fl_method =
                              x.fl_method; fl_uri = x.fl_uri; fl_version =
                              x.fl_version; fl_statuscode = x.fl_statuscode;
                              fl_reason = x.fl_reason; fl_state = (f0 x) }))
                              (fun _ -> FlReqURI)
                              (set (fun f -> f.fl_methodno) (fun f ->
                                let n0 = fun r -> f r.fl_methodno in
                                (fun x -> { fl_status = x.fl_status;
                                fl_methodno = (n0 x); fl_method =
                                x.fl_method; fl_uri = x.fl_uri; fl_version =
                                x.fl_version; fl_statuscode =
                                x.fl_statuscode; fl_reason = x.fl_reason;
                                fl_state = x.fl_state })) (fun _ ->
                                get_method_no name) s0)))
                      | None -> IPanic)
                   | None -> IPanic)
           | None -> IPanic))

(** val fl_reason_ph : byte list -> n -> fline -> fline ires **)

let fl_reason_ph rest i s =
  let (k, r) = skipLine rest in
  (match r with
   | COk crl ->
     (match pf_extend s.fl_reason (N.add i (nnat k)) with
      | Some f ->
        Ret ((N.add (N.add i (nnat k)) (nnat crl)), EOk,
          (set (fun f0 -> f0.fl_state) (fun f0 ->
            let f1 = fun r0 -> f0 r0.fl_state in
            (fun x -> { fl_status = x.fl_status; fl_methodno = x.fl_methodno;
            fl_method = x.fl_method; fl_uri = x.fl_uri; fl_version =
            x.fl_version; fl_statuscode = x.fl_statuscode; fl_reason =
            x.fl_reason; fl_state = (f1 x) })) (fun _ -> FlFIN)
            (set (fun f0 -> f0.fl_reason) (fun f0 ->
              let p = fun r0 -> f0 r0.fl_reason in
              (fun x -> { fl_status = x.fl_status; fl_methodno =
              x.fl_methodno; fl_method = x.fl_method; fl_uri = x.fl_uri;
              fl_version = x.fl_version; fl_statuscode = x.fl_statuscode;
              fl_reason = (p x); fl_state = x.fl_state })) (fun _ -> f) s)))
      | None -> IPanic)
   | CMore -> Ret ((N.add i (nnat k)), EMore, s)
   | CNoCR -> Ret ((N.add i (nnat k)), ENoCR, s))

(** val prefix_nocase : byte list -> byte list -> bool **)

let prefix_nocase p s =
  (&&) (Nat.leb (length p) (length s)) (eqb_nocase (firstn (length p) s) p)

(** val fl_init : byte list -> byte list -> n -> fline -> fline ires **)

let fl_init pre rest i s =
  if Nat.ltb (length rest)
       (add (length go_sipVerSP) (S (S (S (S (S (S O)))))))
  then Ret (i, EMore, s)
  else if prefix_nocase go_sipVerSP rest
       then let l = length go_sipVerSP in
            (match pf_set i (N.sub (N.add i (nnat l)) (Npos XH)) with
             | Some v ->
               let s0 =
                 set (fun f -> f.fl_state) (fun f ->
                   let f0 = fun r -> f r.fl_state in
                   (fun x -> { fl_status = x.fl_status; fl_methodno =
                   x.fl_methodno; fl_method = x.fl_method; fl_uri = x.fl_uri;
                   fl_version = x.fl_version; fl_statuscode =
                   x.fl_statuscode; fl_reason = x.fl_reason; fl_state =
                   (f0 x) })) (fun _ -> FlRplStatus)
                   (set (fun f -> f.fl_version) (fun f ->
                     let p = fun r -> f r.fl_version in
                     (fun x -> { fl_status = x.fl_status; fl_methodno =
                     x.fl_methodno; fl_method = x.fl_method; fl_uri =
                     x.fl_uri; fl_version = (p x); fl_statuscode =
                     x.fl_statuscode; fl_reason = x.fl_reason; fl_state =
                     x.fl_state })) (fun _ -> v) s)
               in
               let i1 = N.add i (nnat l) in
               (match skipn l rest with
                | [] -> IPanic
                | a :: l0 ->
                  (match l0 with
                   | [] -> IPanic
                   | b :: l1 ->
                     (match l1 with
                      | [] -> IPanic
                      | c :: l2 ->
                        (match l2 with
                         | [] -> IPanic
                         | d :: r' ->
                           if (||) (negb (N.eqb d sP))
                                (negb
                                  ((&&) ((&&) (is_digit a) (is_digit b))
                                    (is_digit c)))
                           then Ret (i1, EBadChar, s0)
                           else (match pf_set i1 (N.add i1 (Npos (XI XH))) with
                                 | Some sc ->
                                   (match pf_set
                                            (N.add i1 (Npos (XO (XO XH))))
                                            (N.add i1 (Npos (XO (XO XH)))) with
                                    | Some rs ->
                                      fl_reason_ph r'
                                        (N.add i1 (Npos (XO (XO XH))))
                                        (set (fun f -> f.fl_state) (fun f ->
                                          let f0 = fun r -> f r.fl_state in
                                          (fun x -> { fl_status =
                                          x.fl_status; fl_methodno =
                                          x.fl_methodno; fl_method =
                                          x.fl_method; fl_uri = x.fl_uri;
                                          fl_version = x.fl_version;
                                          fl_statuscode = x.fl_statuscode;
                                          fl_reason = x.fl_reason; fl_state =
                                          (f0 x) })) (fun _ -> FlRplReason)
                                          (set (fun f -> f.fl_reason)
                                            (fun f ->
                                            let p = fun r -> f r.fl_reason in
                                            (fun x -> { fl_status =
                                            x.fl_status; fl_methodno =
                                            x.fl_methodno; fl_method =
                                            x.fl_method; fl_uri = x.fl_uri;
                                            fl_version = x.fl_version;
                                            fl_statuscode = x.fl_statuscode;
                                            fl_reason = (p x); fl_state =
                                            x.fl_state })) (fun _ -> rs)
                                            (set (fun f -> f.fl_status)
                                              (fun f ->
                                              let n0 = fun r -> f r.fl_status
                                              in
                                              (fun x -> { fl_status = 
                                              (n0 x); fl_methodno =
                                              x.fl_methodno; fl_method =
                                              x.fl_method; fl_uri = x.fl_uri;
                                              fl_version = x.fl_version;
                                              fl_statuscode =
                                              x.fl_statuscode; fl_reason =
                                              x.fl_reason; fl_state =
                                              x.fl_state })) (fun _ ->
                                              N.modulo
                                                (N.add
                                                  (N.add
                                                    (N.mul (digit_val a)
                                                      (Npos (XO (XO (XI (XO
                                                      (XO (XI XH))))))))
                                                    (N.mul (digit_val b)
                                                      (Npos (XO (XI (XO
                                                      XH)))))) (digit_val c))
                                                (Npos (XO (XO (XO (XO (XO (XO
                                                (XO (XO (XO (XO (XO (XO (XO
                                                (XO (XO (XO
                                                XH))))))))))))))))))
                                              (set (fun f -> f.fl_statuscode)
                                                (fun f ->
                                                let p = fun r ->
                                                  f r.fl_statuscode
                                                in
                                                (fun x -> { fl_status =
                                                x.fl_status; fl_methodno =
                                                x.fl_methodno; fl_method =
                                                x.fl_method; fl_uri =
                                                x.fl_uri; fl_version =
                                                x.fl_version; fl_statuscode =
                                                (p x); fl_reason =
                                                x.fl_reason; fl_state =
                                                x.fl_state })) (fun _ -> sc)
                                                s0))))
                                    | None -> IPanic)
                                 | None -> IPanic)))))
             | None -> IPanic)
       else (match pf_set i i with
             | Some m ->
               fl_method_ph pre rest i
                 (set (fun f -> f.fl_method) (fun f ->
                   let p = fun r -> f r.fl_method in
                   (fun x -> { fl_status = x.fl_status; fl_methodno =
                   x.fl_methodno; fl_method = (p x); fl_uri = x.fl_uri;
                   fl_version = x.fl_version; fl_statuscode =
                   x.fl_statuscode; fl_reason = x.fl_reason; fl_state =
                   x.fl_state })) (fun _ -> m)
                   (set (fun f -> f.fl_state) (fun f ->
                     let f0 = fun r -> f r.fl_state in
                     (fun x -> { fl_status = x.fl_status; fl_methodno =
                     x.fl_methodno; fl_method = x.fl_method; fl_uri =
                     x.fl_uri; fl_version = x.fl_version; fl_statuscode =
                     x.fl_statuscode; fl_reason = x.fl_reason; fl_state =
                     (f0 x) })) (fun _ -> FlReqMethod) s))
             | None -> IPanic)

(** val fl_iter : byte list -> byte list -> n -> fline -> fline ires **)

let fl_iter pre rest i s =
  match s.fl_state with
  | FlInit -> fl_init pre rest i s
  | FlReqMethod -> fl_method_ph pre rest i s
  | FlReqURI -> fl_requri pre rest i s
  | FlReqVer -> fl_ver pre rest i s
  | FlRplReason -> fl_reason_ph rest i s
  | FlCRLF -> fl_crlf rest i s
  | _ ->
    Ret (i, EOk,
      (set (fun f -> f.fl_state) (fun f ->
        let f0 = fun r -> f r.fl_state in
        (fun x -> { fl_status = x.fl_status; fl_methodno = x.fl_methodno;
        fl_method = x.fl_method; fl_uri = x.fl_uri; fl_version =
        x.fl_version; fl_statuscode = x.fl_statuscode; fl_reason =
        x.fl_reason; fl_state = (f0 x) })) (fun _ -> FlFIN) s))

(** val parse_fline : byte list -> n -> fline -> fline res **)

let parse_fline =
  parse fl_iter

(** val obs_fline : fline -> z list **)

let obs_fline s =
  app ((n2z s.fl_status) :: ((n2z s.fl_methodno) :: []))
    (app (obs_pf s.fl_method)
      (app (obs_pf s.fl_uri)
        (app (obs_pf s.fl_version)
          (app (obs_pf s.fl_statuscode)
            (app (obs_pf s.fl_reason)
              ((b2z (fl_request s)) :: ((b2z (fl_parsed s)) :: ((b2z
                                                                  (fl_empty s)) :: []))))))))

type cist =
| CiInit
| CiFound
| CiEnd
| CiFIN

type callid = { ci_callid : pf; ci_state : cist; ci_soffs : n }

(** val callid0 : callid **)

let callid0 =
  { ci_callid = pf0; ci_state = CiInit; ci_soffs = N0 }

(** val ci_parsed : callid -> bool **)

let ci_parsed s =
  match s.ci_state with
  | CiFIN -> true
  | _ -> false

(** val ci_empty : callid -> bool **)

let ci_empty s =
  match s.ci_state with
  | CiInit -> true
  | _ -> false

(** val ci_endOfHdr : n -> n -> nat -> callid -> callid ires **)

let ci_endOfHdr i n0 crl s =
  match s.ci_state with
  | CiInit -> Ret ((N.add n0 (nnat crl)), EBad, s)
  | CiFound ->
    (match pf_set s.ci_soffs i with
     | Some f ->
       Ret ((N.add n0 (nnat crl)), EOk,
         (set (fun c -> c.ci_soffs) (fun f0 ->
           let n1 = fun r -> f0 r.ci_soffs in
           (fun x -> { ci_callid = x.ci_callid; ci_state = x.ci_state;
           ci_soffs = (n1 x) })) (fun _ -> N0)
           (set (fun c -> c.ci_state) (fun f0 ->
             let c = fun r -> f0 r.ci_state in
             (fun x -> { ci_callid = x.ci_callid; ci_state = (c x);
             ci_soffs = x.ci_soffs })) (fun _ -> CiFIN)
             (set (fun c -> c.ci_callid) (fun f0 ->
               let p = fun r -> f0 r.ci_callid in
               (fun x -> { ci_callid = (p x); ci_state = x.ci_state;
               ci_soffs = x.ci_soffs })) (fun _ -> f) s))))
     | None -> IPanic)
  | CiEnd ->
    Ret ((N.add n0 (nnat crl)), EOk,
      (set (fun c -> c.ci_soffs) (fun f ->
        let n1 = fun r -> f r.ci_soffs in
        (fun x -> { ci_callid = x.ci_callid; ci_state = x.ci_state;
        ci_soffs = (n1 x) })) (fun _ -> N0)
        (set (fun c -> c.ci_state) (fun f ->
          let c = fun r -> f r.ci_state in
          (fun x -> { ci_callid = x.ci_callid; ci_state = (c x); ci_soffs =
          x.ci_soffs })) (fun _ -> CiFIN) s)))
  | CiFIN -> Ret ((N.add n0 (nnat crl)), EBug, s)

(** val ci_lws : byte list -> n -> callid -> callid ires **)

let ci_lws rest i s1 =
  match skipLWS false rest with
  | LOk k -> Next (k, s1)
  | LEOH (k, crl) -> ci_endOfHdr i (N.add i (nnat k)) crl s1
  | LMore k -> Ret ((N.add i (nnat k)), EMore, s1)

(** val ci_iter : byte list -> byte list -> n -> callid -> callid ires **)

let ci_iter _ rest i s =
  match s.ci_state with
  | CiInit ->
    let st = CiInit in
    (match rest with
     | [] -> Ret (i, EMore, s)
     | c :: _ ->
       if is_ws c
       then (match st with
             | CiFound ->
               (match pf_set s.ci_soffs i with
                | Some f ->
                  ci_lws rest i
                    (set (fun c0 -> c0.ci_state) (fun f0 ->
                      let c0 = fun r -> f0 r.ci_state in
                      (fun x -> { ci_callid = x.ci_callid; ci_state = 
                      (c0 x); ci_soffs = x.ci_soffs })) (fun _ -> CiEnd)
                      (set (fun c0 -> c0.ci_callid) (fun f0 ->
                        let p = fun r -> f0 r.ci_callid in
                        (fun x -> { ci_callid = (p x); ci_state = x.ci_state;
                        ci_soffs = x.ci_soffs })) (fun _ -> f) s))
                | None -> IPanic)
             | _ -> ci_lws rest i s)
       else (match st with
             | CiInit ->
               Next ((S O),
                 (set (fun c0 -> c0.ci_soffs) (fun f ->
                   let n0 = fun r -> f r.ci_soffs in
                   (fun x -> { ci_callid = x.ci_callid; ci_state =
                   x.ci_state; ci_soffs = (n0 x) })) (fun _ -> i)
                   (set (fun c0 -> c0.ci_state) (fun f ->
                     let c0 = fun r -> f r.ci_state in
                     (fun x -> { ci_callid = x.ci_callid; ci_state = 
                     (c0 x); ci_soffs = x.ci_soffs })) (fun _ -> CiFound) s)))
             | CiEnd -> Ret (i, EBadChar, s)
             | _ -> Next ((S O), s)))
  | CiFound ->
    let st = CiFound in
    (match rest with
     | [] -> Ret (i, EMore, s)
     | c :: _ ->
       if is_ws c
       then (match st with
             | CiFound ->
               (match pf_set s.ci_soffs i with
                | Some f ->
                  ci_lws rest i
                    (set (fun c0 -> c0.ci_state) (fun f0 ->
                      let c0 = fun r -> f0 r.ci_state in
                      (fun x -> { ci_callid = x.ci_callid; ci_state = 
                      (c0 x); ci_soffs = x.ci_soffs })) (fun _ -> CiEnd)
                      (set (fun c0 -> c0.ci_callid) (fun f0 ->
                        let p = fun r -> f0 r.ci_callid in
                        (fun x -> { ci_callid = (p x); ci_state = x.ci_state;
                        ci_soffs = x.ci_soffs })) (fun _ -> f) s))
                | None -> IPanic)
             | _ -> ci_lws rest i s)
       else (match st with
             | CiInit ->
               Next ((S O),
                 (set (fun c0 -> c0.ci_soffs) (fun f ->
                   let n0 = fun r -> f r.ci_soffs in
                   (fun x -> { ci_callid = x.ci_callid; ci_state =
                   x.ci_state; ci_soffs = (n0 x) })) (fun _ -> i)
                   (set (fun c0 -> c0.ci_state) (fun f ->
                     let c0 = fun r -> f r.ci_state in
                     (fun x -> { ci_callid = x.ci_callid; ci_state = 
                     (c0 x); ci_soffs = x.ci_soffs })) (fun _ -> CiFound) s)))
             | CiEnd -> Ret (i, EBadChar, s)
             | _ -> Next ((S O), s)))
  | CiEnd ->
    let st = CiEnd in
    (match rest with
     | [] -> Ret (i, EMore, s)
     | c :: _ ->
       if is_ws c
       then (match st with
             | CiFound ->
               (match pf_set s.ci_soffs i with
                | Some f ->
                  ci_lws rest i
                    (set (fun c0 -> c0.ci_state) (fun f0 ->
                      let c0 = fun r -> f0 r.ci_state in
                      (fun x -> { ci_callid = x.ci_callid; ci_state = 
                      (c0 x); ci_soffs = x.ci_soffs })) (fun _ -> CiEnd)
                      (set (fun c0 -> c0.ci_callid) (fun f0 ->
                        let p = fun r -> f0 r.ci_callid in
                        (fun x -> { ci_callid = (p x); ci_state = x.ci_state;
                        ci_soffs = x.ci_soffs })) (fun _ -> f) s))
                | None -> IPanic)
             | _ -> ci_lws rest i s)
       else (match st with
             | CiInit ->
               Next ((S O),
                 (set (fun c0 -> c0.ci_soffs) (fun f ->
                   let n0 = fun r -> f r.ci_soffs in
                   (fun x -> { ci_callid = x.ci_callid; ci_state =
                   x.ci_state; ci_soffs = (n0 x) })) (fun _ -> i)
                   (set (fun c0 -> c0.ci_state) (fun f ->
                     let c0 = fun r -> f r.ci_state in
                     (fun x -> { ci_callid = x.ci_callid; ci_state = 
                     (c0 x); ci_soffs = x.ci_soffs })) (fun _ -> CiFound) s)))
             | CiEnd -> Ret (i, EBadChar, s)
             | _ -> Next ((S O), s)))
  | CiFIN -> Ret (i, EOk, s)

(** val parse_callid : byte list -> n -> callid -> callid res **)

let parse_callid =
  parse ci_iter

(** val obs_callid : callid -> z list **)

let obs_callid s =
  app (obs_pf s.ci_callid) ((b2z (ci_parsed s)) :: ((b2z (ci_empty s)) :: []))

type uist =
| ClInit
| ClFound
| ClEnd
| ClFIN

type uintb = { ui_val : n; ui_sval : pf; ui_state : uist; ui_soffs : n }

(** val uintb0 : uintb **)

let uintb0 =
  { ui_val = N0; ui_sval = pf0; ui_state = ClInit; ui_soffs = N0 }

(** val ui_parsed : uintb -> bool **)

let ui_parsed s =
  match s.ui_state with
  | ClFIN -> true
  | _ -> false

(** val ui_empty : uintb -> bool **)

let ui_empty s =
  match s.ui_state with
  | ClInit -> true
  | _ -> false

(** val ui_endOfHdr : n -> n -> nat -> uintb -> uintb ires **)

let ui_endOfHdr i n0 crl s =
  match s.ui_state with
  | ClInit -> Ret ((N.add n0 (nnat crl)), EBad, s)
  | ClFound ->
    (match pf_set s.ui_soffs i with
     | Some f ->
       Ret ((N.add n0 (nnat crl)), EOk,
         (set (fun u -> u.ui_soffs) (fun f0 ->
           let n1 = fun r -> f0 r.ui_soffs in
           (fun x -> { ui_val = x.ui_val; ui_sval = x.ui_sval; ui_state =
           x.ui_state; ui_soffs = (n1 x) })) (fun _ -> N0)
           (set (fun u -> u.ui_state) (fun f0 ->
             let u = fun r -> f0 r.ui_state in
             (fun x -> { ui_val = x.ui_val; ui_sval = x.ui_sval; ui_state =
             (u x); ui_soffs = x.ui_soffs })) (fun _ -> ClFIN)
             (set (fun u -> u.ui_sval) (fun f0 ->
               let p = fun r -> f0 r.ui_sval in
               (fun x -> { ui_val = x.ui_val; ui_sval = (p x); ui_state =
               x.ui_state; ui_soffs = x.ui_soffs })) (fun _ -> f) s))))
     | None -> IPanic)
  | ClEnd ->
    Ret ((N.add n0 (nnat crl)), EOk,
      (set (fun u -> u.ui_soffs) (fun f ->
        let n1 = fun r -> f r.ui_soffs in
        (fun x -> { ui_val = x.ui_val; ui_sval = x.ui_sval; ui_state =
        x.ui_state; ui_soffs = (n1 x) })) (fun _ -> N0)
        (set (fun u -> u.ui_state) (fun f ->
          let u = fun r -> f r.ui_state in
          (fun x -> { ui_val = x.ui_val; ui_sval = x.ui_sval; ui_state =
          (u x); ui_soffs = x.ui_soffs })) (fun _ -> ClFIN) s)))
  | ClFIN -> Ret ((N.add n0 (nnat crl)), EBug, s)

(** val ui_lws : byte list -> n -> uintb -> uintb ires **)

let ui_lws rest i s1 =
  match skipLWS false rest with
  | LOk k -> Next (k, s1)
  | LEOH (k, crl) -> ui_endOfHdr i (N.add i (nnat k)) crl s1
  | LMore k -> Ret ((N.add i (nnat k)), EMore, s1)

(** val acc32 : n -> n -> n option **)

let acc32 v d =
  if N.ltb (N.div (N.sub maxU32 d) (Npos (XO (XI (XO XH))))) v
  then None
  else Some (N.add (N.mul v (Npos (XO (XI (XO XH))))) d)

(** val ui_iter : byte list -> byte list -> n -> uintb -> uintb ires **)

let ui_iter _ rest i s =
  match s.ui_state with
  | ClInit ->
    let st = ClInit in
    (match rest with
     | [] -> Ret (i, EMore, s)
     | c :: _ ->
       if is_ws c
       then (match st with
             | ClFound ->
               (match pf_set s.ui_soffs i with
                | Some f ->
                  ui_lws rest i
                    (set (fun u -> u.ui_state) (fun f0 ->
                      let u = fun r -> f0 r.ui_state in
                      (fun x -> { ui_val = x.ui_val; ui_sval = x.ui_sval;
                      ui_state = (u x); ui_soffs = x.ui_soffs })) (fun _ ->
                      ClEnd)
                      (set (fun u -> u.ui_sval) (fun f0 ->
                        let p = fun r -> f0 r.ui_sval in
                        (fun x -> { ui_val = x.ui_val; ui_sval = (p x);
                        ui_state = x.ui_state; ui_soffs = x.ui_soffs }))
                        (fun _ -> f) s))
                | None -> IPanic)
             | _ -> ui_lws rest i s)
       else if is_digit c
            then (match st with
                  | ClInit ->
                    Next ((S O),
                      (set (fun u -> u.ui_val) (fun f ->
                        let n0 = fun r -> f r.ui_val in
                        (fun x -> { ui_val = (n0 x); ui_sval = x.ui_sval;
                        ui_state = x.ui_state; ui_soffs = x.ui_soffs }))
                        (fun _ -> digit_val c)
                        (set (fun u -> u.ui_soffs) (fun f ->
                          let n0 = fun r -> f r.ui_soffs in
                          (fun x -> { ui_val = x.ui_val; ui_sval = x.ui_sval;
                          ui_state = x.ui_state; ui_soffs = (n0 x) }))
                          (fun _ -> i)
                          (set (fun u -> u.ui_state) (fun f ->
                            let u = fun r -> f r.ui_state in
                            (fun x -> { ui_val = x.ui_val; ui_sval =
                            x.ui_sval; ui_state = (u x); ui_soffs =
                            x.ui_soffs })) (fun _ -> ClFound) s))))
                  | ClFound ->
                    (match acc32 s.ui_val (digit_val c) with
                     | Some v ->
                       Next ((S O),
                         (set (fun u -> u.ui_val) (fun f ->
                           let n0 = fun r -> f r.ui_val in
                           (fun x -> { ui_val = (n0 x); ui_sval = x.ui_sval;
                           ui_state = x.ui_state; ui_soffs = x.ui_soffs }))
                           (fun _ -> v) s))
                     | None -> Ret (i, ENumTooBig, s))
                  | _ -> Ret (i, EBadChar, s))
            else Ret (i, EBadChar, s))
  | ClFound ->
    let st = ClFound in
    (match rest with
     | [] -> Ret (i, EMore, s)
     | c :: _ ->
       if is_ws c
       then (match st with
             | ClFound ->
               (match pf_set s.ui_soffs i with
                | Some f ->
                  ui_lws rest i
                    (set (fun u -> u.ui_state) (fun f0 ->
                      let u = fun r -> f0 r.ui_state in
                      (fun x -> { ui_val = x.ui_val; ui_sval = x.ui_sval;
                      ui_state = (u x); ui_soffs = x.ui_soffs })) (fun _ ->
                      ClEnd)
                      (set (fun u -> u.ui_sval) (fun f0 ->
                        let p = fun r -> f0 r.ui_sval in
                        (fun x -> { ui_val = x.ui_val; ui_sval = (p x);
                        ui_state = x.ui_state; ui_soffs = x.ui_soffs }))
                        (fun _ -> f) s))
                | None -> IPanic)
             | _ -> ui_lws rest i s)
       else if is_digit c
            then (match st with
                  | ClInit ->
                    Next ((S O),
                      (set (fun u -> u.ui_val) (fun f ->
                        let n0 = fun r -> f r.ui_val in
                        (fun x -> { ui_val = (n0 x); ui_sval = x.ui_sval;
                        ui_state = x.ui_state; ui_soffs = x.ui_soffs }))
                        (fun _ -> digit_val c)
                        (set (fun u -> u.ui_soffs) (fun f ->
                          let n0 = fun r -> f r.ui_soffs in
                          (fun x -> { ui_val = x.ui_val; ui_sval = x.ui_sval;
                          ui_state = x.ui_state; ui_soffs = (n0 x) }))
                          (fun _ -> i)
                          (set (fun u -> u.ui_state) (fun f ->
                            let u = fun r -> f r.ui_state in
                            (fun x -> { ui_val = x.ui_val; ui_sval =
                            x.ui_sval; ui_state = (u x); ui_soffs =
                            x.ui_soffs })) (fun _ -> ClFound) s))))
                  | ClFound ->
                    (match acc32 s.ui_val (digit_val c) with
                     | Some v ->
                       Next ((S O),
                         (set (fun u -> u.ui_val) (fun f ->
                           let n0 = fun r -> f r.ui_val in
                           (fun x -> { ui_val = (n0 x); ui_sval = x.ui_sval;
                           ui_state = x.ui_state; ui_soffs = x.ui_soffs }))
                           (fun _ -> v) s))
                     | None -> Ret (i, ENumTooBig, s))
                  | _ -> Ret (i, EBadChar, s))
            else Ret (i, EBadChar, s))
  | ClEnd ->
    let st = ClEnd in
    (match rest with
     | [] -> Ret (i, EMore, s)
     | c :: _ ->
       if is_ws c
       then (match st with
             | ClFound ->
               (match pf_set s.ui_soffs i with
                | Some f ->
                  ui_lws rest i
                    (set (fun u -> u.ui_state) (fun f0 ->
                      let u = fun r -> f0 r.ui_state in
                      (fun x -> { ui_val = x.ui_val; ui_sval = x.ui_sval;
                      ui_state = (u x); ui_soffs = x.ui_soffs })) (fun _ ->
                      ClEnd)
                      (set (fun u -> u.ui_sval) (fun f0 ->
                        let p = fun r -> f0 r.ui_sval in
                        (fun x -> { ui_val = x.ui_val; ui_sval = (p x);
                        ui_state = x.ui_state; ui_soffs = x.ui_soffs }))
                        (fun _ -> f) s))
                | None -> IPanic)
             | _ -> ui_lws rest i s)
       else if is_digit c
            then (match st with
                  | ClInit ->
                    Next ((S O),
                      (set (fun u -> u.ui_val) (fun f ->
                        let n0 = fun r -> f r.ui_val in
                        (fun x -> { ui_val = (n0 x); ui_sval = x.ui_sval;
                        ui_state = x.ui_state; ui_soffs = x.ui_soffs }))
                        (fun _ -> digit_val c)
                        (set (fun u -> u.ui_soffs) (fun f ->
                          let n0 = fun r -> f r.ui_soffs in
                          (fun x -> { ui_val = x.ui_val; ui_sval = x.ui_sval;
                          ui_state = x.ui_state; ui_soffs = (n0 x) }))
                          (fun _ -> i)
                          (set (fun u -> u.ui_state) (fun f ->
                            let u = fun r -> f r.ui_state in
                            (fun x -> { ui_val = x.ui_val; ui_sval =
                            x.ui_sval; ui_state = (u x); ui_soffs =
                            x.ui_soffs })) (fun _ -> ClFound) s))))
                  | ClFound ->
                    (match acc32 s.ui_val (digit_val c) with
                     | Some v ->
                       Next ((S O),
                         (set (fun u -> u.ui_val) (fun f ->
                           let n0 = fun r -> f r.ui_val in
                           (fun x -> { ui_val = (n0 x); ui_sval = x.ui_sval;
                           ui_state = x.ui_state; ui_soffs = x.ui_soffs }))
                           (fun _ -> v) s))
                     | None -> Ret (i, ENumTooBig, s))
                  | _ -> Ret (i, EBadChar, s))
            else Ret (i, EBadChar, s))
  | ClFIN -> Ret (i, EOk, s)

(** val parse_uint : byte list -> n -> uintb -> uintb res **)

let parse_uint =
  parse ui_iter

(** val parse_clen : byte list -> n -> uintb -> uintb res **)

let parse_clen buf offs s =
  match parse_uint buf offs s with
  | Done (o, e, s') ->
    (match e with
     | EOk ->
       if (||) (N.ltb maxCLenValueSize s'.ui_sval.pl)
            (N.ltb maxClenValue s'.ui_val)
       then Done (s'.ui_sval.po, ENumTooBig, s')
       else Done (o, EOk, s')
     | x -> Done (o, x, s'))
  | x -> x

(** val obs_uint : uintb -> z list **)

let obs_uint s =
  app ((n2z s.ui_val) :: [])
    (app (obs_pf s.ui_sval)
      ((b2z (ui_parsed s)) :: ((b2z (ui_empty s)) :: [])))

type csst =
| CsInit
| CsFoundDigit
| CsEndDigit
| CsFoundMethod
| CsEnd
| CsFIN

type cseq = { cs_no : n; cs_methodno : n; cs_cseq : pf; cs_method : pf;
              cs_v : pf; cs_state : csst; cs_soffs : n }

(** val cseq0 : cseq **)

let cseq0 =
  { cs_no = N0; cs_methodno = N0; cs_cseq = pf0; cs_method = pf0; cs_v = pf0;
    cs_state = CsInit; cs_soffs = N0 }

(** val cs_parsed : cseq -> bool **)

let cs_parsed s =
  match s.cs_state with
  | CsFIN -> true
  | _ -> false

(** val cs_empty : cseq -> bool **)

let cs_empty s =
  match s.cs_state with
  | CsInit -> true
  | _ -> false

(** val cs_finish : byte list -> byte list -> n -> n -> cseq -> cseq ires **)

let cs_finish pre rest i0 ret s =
  let s0 =
    set (fun c -> c.cs_state) (fun f ->
      let c = fun r -> f r.cs_state in
      (fun x -> { cs_no = x.cs_no; cs_methodno = x.cs_methodno; cs_cseq =
      x.cs_cseq; cs_method = x.cs_method; cs_v = x.cs_v; cs_state = (c x);
      cs_soffs = x.cs_soffs })) (fun _ -> CsFIN) s
  in
  if (||) (N.ltb maxCSeqNValueSize s0.cs_cseq.pl)
       (N.ltb maxCSeqNValue s0.cs_no)
  then Ret (s0.cs_cseq.po, ENumTooBig, s0)
  else (match zget pre rest i0 s0.cs_method with
        | Some m ->
          Ret (ret, EOk,
            (set (fun c -> c.cs_methodno) (fun f ->
              let n0 = fun r -> f r.cs_methodno in
              (fun x -> { cs_no = x.cs_no; cs_methodno = (n0 x); cs_cseq =
              x.cs_cseq; cs_method = x.cs_method; cs_v = x.cs_v; cs_state =
              x.cs_state; cs_soffs = x.cs_soffs })) (fun _ ->
              get_method_no m)
              (set (fun c -> c.cs_soffs) (fun f ->
                let n0 = fun r -> f r.cs_soffs in
                (fun x -> { cs_no = x.cs_no; cs_methodno = x.cs_methodno;
                cs_cseq = x.cs_cseq; cs_method = x.cs_method; cs_v = x.cs_v;
                cs_state = x.cs_state; cs_soffs = (n0 x) })) (fun _ -> N0) s0)))
        | None -> IPanic)

(** val cs_endOfHdr :
    byte list -> byte list -> n -> n -> n -> nat -> cseq -> cseq ires **)

let cs_endOfHdr pre rest i0 i n0 crl s =
  match s.cs_state with
  | CsFoundMethod ->
    (match pf_set s.cs_soffs i with
     | Some m ->
       (match pf_extend s.cs_v i with
        | Some v ->
          cs_finish pre rest i0 (N.add n0 (nnat crl))
            (set (fun c -> c.cs_v) (fun f ->
              let p = fun r -> f r.cs_v in
              (fun x -> { cs_no = x.cs_no; cs_methodno = x.cs_methodno;
              cs_cseq = x.cs_cseq; cs_method = x.cs_method; cs_v = (p x);
              cs_state = x.cs_state; cs_soffs = x.cs_soffs })) (fun _ -> v)
              (set (fun c -> c.cs_method) (fun f ->
                let p = fun r -> f r.cs_method in
                (fun x -> { cs_no = x.cs_no; cs_methodno = x.cs_methodno;
                cs_cseq = x.cs_cseq; cs_method = (p x); cs_v = x.cs_v;
                cs_state = x.cs_state; cs_soffs = x.cs_soffs })) (fun _ -> m)
                s))
        | None -> IPanic)
     | None -> IPanic)
  | CsEnd -> cs_finish pre rest i0 (N.add n0 (nnat crl)) s
  | CsFIN -> Ret ((N.add n0 (nnat crl)), EBug, s)
  | _ -> Ret ((N.add n0 (nnat crl)), EBad, s)

(** val cs_lws : byte list -> byte list -> n -> cseq -> cseq ires **)

let cs_lws pre rest i s1 =
  match skipLWS false rest with
  | LOk k -> Next (k, s1)
  | LEOH (k, crl) -> cs_endOfHdr pre rest i i (N.add i (nnat k)) crl s1
  | LMore k -> Ret ((N.add i (nnat k)), EMore, s1)

(** val cs_iter : byte list -> byte list -> n -> cseq -> cseq ires **)

let cs_iter pre rest i s =
  match s.cs_state with
  | CsInit ->
    let st = CsInit in
    (match rest with
     | [] -> Ret (i, EMore, s)
     | c :: _ ->
       if is_ws c
       then (match st with
             | CsFoundDigit ->
               (match pf_set s.cs_soffs i with
                | Some f ->
                  cs_lws pre rest i
                    (set (fun c0 -> c0.cs_state) (fun f0 ->
                      let c0 = fun r -> f0 r.cs_state in
                      (fun x -> { cs_no = x.cs_no; cs_methodno =
                      x.cs_methodno; cs_cseq = x.cs_cseq; cs_method =
                      x.cs_method; cs_v = x.cs_v; cs_state = (c0 x);
                      cs_soffs = x.cs_soffs })) (fun _ -> CsEndDigit)
                      (set (fun c0 -> c0.cs_v) (fun f0 ->
                        let p = fun r -> f0 r.cs_v in
                        (fun x -> { cs_no = x.cs_no; cs_methodno =
                        x.cs_methodno; cs_cseq = x.cs_cseq; cs_method =
                        x.cs_method; cs_v = (p x); cs_state = x.cs_state;
                        cs_soffs = x.cs_soffs })) (fun _ -> f)
                        (set (fun c0 -> c0.cs_cseq) (fun f0 ->
                          let p = fun r -> f0 r.cs_cseq in
                          (fun x -> { cs_no = x.cs_no; cs_methodno =
                          x.cs_methodno; cs_cseq = (p x); cs_method =
                          x.cs_method; cs_v = x.cs_v; cs_state = x.cs_state;
                          cs_soffs = x.cs_soffs })) (fun _ -> f) s)))
                | None -> IPanic)
             | CsFoundMethod ->
               (match pf_set s.cs_soffs i with
                | Some m ->
                  (match pf_extend s.cs_v i with
                   | Some v ->
                     cs_lws pre rest i
                       (set (fun c0 -> c0.cs_state) (fun f ->
                         let c0 = fun r -> f r.cs_state in
                         (fun x -> { cs_no = x.cs_no; cs_methodno =
                         x.cs_methodno; cs_cseq = x.cs_cseq; cs_method =
                         x.cs_method; cs_v = x.cs_v; cs_state = (c0 x);
                         cs_soffs = x.cs_soffs })) (fun _ -> CsEnd)
                         (set (fun c0 -> c0.cs_v) (fun f ->
                           let p = fun r -> f r.cs_v in
                           (fun x -> { cs_no = x.cs_no; cs_methodno =
                           x.cs_methodno; cs_cseq = x.cs_cseq; cs_method =
                           x.cs_method; cs_v = (p x); cs_state = x.cs_state;
                           cs_soffs = x.cs_soffs })) (fun _ -> v)
                           (set (fun c0 -> c0.cs_method) (fun f ->
                             let p = fun r -> f r.cs_method in
                             (fun x -> { cs_no = x.cs_no; cs_methodno =
                             x.cs_methodno; cs_cseq = x.cs_cseq; cs_method =
                             (p x); cs_v = x.cs_v; cs_state = x.cs_state;
                             cs_soffs = x.cs_soffs })) (fun _ -> m) s)))
                   | None -> IPanic)
                | None -> IPanic)
             | _ -> cs_lws pre rest i s)
       else if is_digit c
            then (match st with
                  | CsInit ->
                    Next ((S O),
                      (set (fun c0 -> c0.cs_no) (fun f ->
                        let n0 = fun r -> f r.cs_no in
                        (fun x -> { cs_no = (n0 x); cs_methodno =
                        x.cs_methodno; cs_cseq = x.cs_cseq; cs_method =
                        x.cs_method; cs_v = x.cs_v; cs_state = x.cs_state;
                        cs_soffs = x.cs_soffs })) (fun _ -> digit_val c)
                        (set (fun c0 -> c0.cs_soffs) (fun f ->
                          let n0 = fun r -> f r.cs_soffs in
                          (fun x -> { cs_no = x.cs_no; cs_methodno =
                          x.cs_methodno; cs_cseq = x.cs_cseq; cs_method =
                          x.cs_method; cs_v = x.cs_v; cs_state = x.cs_state;
                          cs_soffs = (n0 x) })) (fun _ -> i)
                          (set (fun c0 -> c0.cs_state) (fun f ->
                            let c0 = fun r -> f r.cs_state in
                            (fun x -> { cs_no = x.cs_no; cs_methodno =
                            x.cs_methodno; cs_cseq = x.cs_cseq; cs_method =
                            x.cs_method; cs_v = x.cs_v; cs_state = (c0 x);
                            cs_soffs = x.cs_soffs })) (fun _ -> CsFoundDigit)
                            s))))
                  | CsFoundDigit ->
                    (match acc32 s.cs_no (digit_val c) with
                     | Some v ->
                       Next ((S O),
                         (set (fun c0 -> c0.cs_no) (fun f ->
                           let n0 = fun r -> f r.cs_no in
                           (fun x -> { cs_no = (n0 x); cs_methodno =
                           x.cs_methodno; cs_cseq = x.cs_cseq; cs_method =
                           x.cs_method; cs_v = x.cs_v; cs_state = x.cs_state;
                           cs_soffs = x.cs_soffs })) (fun _ -> v) s))
                     | None -> Ret (i, ENumTooBig, s))
                  | CsEndDigit ->
                    Next ((S O),
                      (set (fun c0 -> c0.cs_soffs) (fun f ->
                        let n0 = fun r -> f r.cs_soffs in
                        (fun x -> { cs_no = x.cs_no; cs_methodno =
                        x.cs_methodno; cs_cseq = x.cs_cseq; cs_method =
                        x.cs_method; cs_v = x.cs_v; cs_state = x.cs_state;
                        cs_soffs = (n0 x) })) (fun _ -> i)
                        (set (fun c0 -> c0.cs_state) (fun f ->
                          let c0 = fun r -> f r.cs_state in
                          (fun x -> { cs_no = x.cs_no; cs_methodno =
                          x.cs_methodno; cs_cseq = x.cs_cseq; cs_method =
                          x.cs_method; cs_v = x.cs_v; cs_state = (c0 x);
                          cs_soffs = x.cs_soffs })) (fun _ -> CsFoundMethod)
                          s)))
                  | CsFoundMethod -> Next ((S O), s)
                  | _ -> Ret (i, EBadChar, s))
            else (match st with
                  | CsEndDigit ->
                    Next ((S O),
                      (set (fun c0 -> c0.cs_soffs) (fun f ->
                        let n0 = fun r -> f r.cs_soffs in
                        (fun x -> { cs_no = x.cs_no; cs_methodno =
                        x.cs_methodno; cs_cseq = x.cs_cseq; cs_method =
                        x.cs_method; cs_v = x.cs_v; cs_state = x.cs_state;
                        cs_soffs = (n0 x) })) (fun _ -> i)
                        (set (fun c0 -> c0.cs_state) (fun f ->
                          let c0 = fun r -> f r.cs_state in
                          (fun x -> { cs_no = x.cs_no; cs_methodno =
                          x.cs_methodno; cs_cseq = x.cs_cseq; cs_method =
                          x.cs_method; cs_v = x.cs_v; cs_state = (c0 x);
                          cs_soffs = x.cs_soffs })) (fun _ -> CsFoundMethod)
                          s)))
                  | CsFoundMethod -> Next ((S O), s)
                  | _ -> Ret (i, EBadChar, s)))
  | CsFoundDigit ->
    let st = CsFoundDigit in
    (match rest with
     | [] -> Ret (i, EMore, s)
     | c :: _ ->
       if is_ws c
       then (match st with
             | CsFoundDigit ->
               (match pf_set s.cs_soffs i with
                | Some f ->
                  cs_lws pre rest i
                    (set (fun c0 -> c0.cs_state) (fun f0 ->
                      let c0 = fun r -> f0 r.cs_state in
                      (fun x -> { cs_no = x.cs_no; cs_methodno =
                      x.cs_methodno; cs_cseq = x.cs_cseq; cs_method =
                      x.cs_method; cs_v = x.cs_v; cs_state = (c0 x);
                      cs_soffs = x.cs_soffs })) (fun _ -> CsEndDigit)
                      (set (fun c0 -> c0.cs_v) (fun f0 ->
                        let p = fun r -> f0 r.cs_v in
                        (fun x -> { cs_no = x.cs_no; cs_methodno =
                        x.cs_methodno; cs_cseq = x.cs_cseq; cs_method =
                        x.cs_method; cs_v = (p x); cs_state = x.cs_state;
                        cs_soffs = x.cs_soffs })) (fun _ -> f)
                        (set (fun c0 -> c0.cs_cseq) (fun f0 ->
                          let p = fun r -> f0 r.cs_cseq in
                          (fun x -> { cs_no = x.cs_no; cs_methodno =
                          x.cs_methodno; cs_cseq = (p x); cs_method =
                          x.cs_method; cs_v = x.cs_v; cs_state = x.cs_state;
                          cs_soffs = x.cs_soffs })) (fun _ -> f) s)))
                | None -> IPanic)
             | CsFoundMethod ->
               (match pf_set s.cs_soffs i with
                | Some m ->
                  (match pf_extend s.cs_v i with
                   | Some v ->
                     cs_lws pre rest i
                       (set (fun c0 -> c0.cs_state) (fun f ->
                         let c0 = fun r -> f r.cs_state in
                         (fun x -> { cs_no = x.cs_no; cs_methodno =
                         x.cs_methodno; cs_cseq = x.cs_cseq; cs_method =
                         x.cs_method; cs_v = x.cs_v; cs_state = (c0 x);
                         cs_soffs = x.cs_soffs })) (fun _ -> CsEnd)
                         (set (fun c0 -> c0.cs_v) (fun f ->
                           let p = fun r -> f r.cs_v in
                           (fun x -> { cs_no = x.cs_no; cs_methodno =
                           x.cs_methodno; cs_cseq = x.cs_cseq; cs_method =
                           x.cs_method; cs_v = (p x); cs_state = x.cs_state;
                           cs_soffs = x.cs_soffs })) (fun _ -> v)
                           (set (fun c0 -> c0.cs_method) (fun f ->
                             let p = fun r -> f r.cs_method in
                             (fun x -> { cs_no = x.cs_no; cs_methodno =
                             x.cs_methodno; cs_cseq = x.cs_cseq; cs_method =
                             (p x); cs_v = x.cs_v; cs_state = x.cs_state;
                             cs_soffs = x.cs_soffs })) (fun _ -> m) s)))
                   | None -> IPanic)
                | None -> IPanic)
             | _ -> cs_lws pre rest i s)
       else if is_digit c
            then (match st with
                  | CsInit ->
                    Next ((S O),
                      (set (fun c0 -> c0.cs_no) (fun f ->
                        let n0 = fun r -> f r.cs_no in
                        (fun x -> { cs_no = (n0 x); cs_methodno =
                        x.cs_methodno; cs_cseq = x.cs_cseq; cs_method =
                        x.cs_method; cs_v = x.cs_v; cs_state = x.cs_state;
                        cs_soffs = x.cs_soffs })) (fun _ -> digit_val c)
                        (set (fun c0 -> c0.cs_soffs) (fun f ->
                          let n0 = fun r -> f r.cs_soffs in
                          (fun x -> { cs_no = x.cs_no; cs_methodno =
                          x.cs_methodno; cs_cseq = x.cs_cseq; cs_method =
                          x.cs_method; cs_v = x.cs_v; cs_state = x.cs_state;
                          cs_soffs = (n0 x) })) (fun _ -> i)
                          (set (fun c0 -> c0.cs_state) (fun f ->
                            let c0 = fun r -> f r.cs_state in
                            (fun x -> { cs_no = x.cs_no; cs_methodno =
                            x.cs_methodno; cs_cseq = x.cs_cseq; cs_method =
                            x.cs_method; cs_v = x.cs_v; cs_state = (c0 x);
                            cs_soffs = x.cs_soffs })) (fun _ -> CsFoundDigit)
                            s))))
                  | CsFoundDigit ->
                    (match acc32 s.cs_no (digit_val c) with
                     | Some v ->
                       Next ((S O),
                         (set (fun c0 -> c0.cs_no) (fun f ->
                           let n0 = fun r -> f r.cs_no in
                           (fun x -> { cs_no = (n0 x); cs_methodno =
                           x.cs_methodno; cs_cseq = x.cs_cseq; cs_method =
                           x.cs_method; cs_v = x.cs_v; cs_state = x.cs_state;
                           cs_soffs = x.cs_soffs })) (fun _ -> v) s))
                     | None -> Ret (i, ENumTooBig, s))
                  | CsEndDigit ->
                    Next ((S O),
                      (set (fun c0 -> c0.cs_soffs) (fun f ->
                        let n0 = fun r -> f r.cs_soffs in
                        (fun x -> { cs_no = x.cs_no; cs_methodno =
                        x.cs_methodno; cs_cseq = x.cs_cseq; cs_method =
                        x.cs_method; cs_v = x.cs_v; cs_state = x.cs_state;
                        cs_soffs = (n0 x) })) (fun _ -> i)
                        (set (fun c0 -> c0.cs_state) (fun f ->
                          let c0 = fun r -> f r.cs_state in
                          (fun x -> { cs_no = x.cs_no; cs_methodno =
                          x.cs_methodno; cs_cseq = x.cs_cseq; cs_method =
                          x.cs_method; cs_v = x.cs_v; cs_state = (c0 x);
                          cs_soffs = x.cs_soffs })) (fun _ -> CsFoundMethod)
                          s)))
                  | CsFoundMethod -> Next ((S O), s)
                  | _ -> Ret (i, EBadChar, s))
            else (match st with
                  | CsEndDigit ->
                    Next ((S O),
                      (set (fun c0 -> c0.cs_soffs) (fun f ->
                        let n0 = fun r -> f r.cs_soffs in
                        (fun x -> { cs_no = x.cs_no; cs_methodno =
                        x.cs_methodno; cs_cseq = x.cs_cseq; cs_method =
                        x.cs_method; cs_v = x.cs_v; cs_state = x.cs_state;
                        cs_soffs = (n0 x) })) (fun _ -> i)
                        (set (fun c0 -> c0.cs_state) (fun f ->
                          let c0 = fun r -> f r.cs_state in
                          (fun x -> { cs_no = x.cs_no; cs_methodno =
                          x.cs_methodno; cs_cseq = x.cs_cseq; cs_method =
                          x.cs_method; cs_v = x.cs_v; cs_state = (c0 x);
                          cs_soffs = x.cs_soffs })) (fun _ -> CsFoundMethod)
                          s)))
                  | CsFoundMethod -> Next ((S O), s)
                  | _ -> Ret (i, EBadChar, s)))
  | CsEndDigit ->
    let st = CsEndDigit in
    (match rest with
     | [] -> Ret (i, EMore, s)
     | c :: _ ->
       if is_ws c
       then (match st with
             | CsFoundDigit ->
               (match pf_set s.cs_soffs i with
                | Some f ->
                  cs_lws pre rest i
                    (set (fun c0 -> c0.cs_state) (fun f0 ->
                      let c0 = fun r -> f0 r.cs_state in
                      (fun x -> { cs_no = x.cs_no; cs_methodno =
                      x.cs_methodno; cs_cseq = x.cs_cseq; cs_method =
                      x.cs_method; cs_v = x.cs_v; cs_state = (c0 x);
                      cs_soffs = x.cs_soffs })) (fun _ -> CsEndDigit)
                      (set (fun c0 -> c0.cs_v) (fun f0 ->
                        let p = fun r -> f0 r.cs_v in
                        (fun x -> { cs_no = x.cs_no; cs_methodno =
                        x.cs_methodno; cs_cseq = x.cs_cseq; cs_method =
                        x.cs_method; cs_v = (p x); cs_state = x.cs_state;
                        cs_soffs = x.cs_soffs })) (fun _ -> f)
                        (set (fun c0 -> c0.cs_cseq) (fun f0 ->
                          let p = fun r -> f0 r.cs_cseq in
                          (fun x -> { cs_no = x.cs_no; cs_methodno =
                          x.cs_methodno; cs_cseq = (p x); cs_method =
                          x.cs_method; cs_v = x.cs_v; cs_state = x.cs_state;
                          cs_soffs = x.cs_soffs })) (fun _ -> f) s)))
                | None -> IPanic)
             | CsFoundMethod ->
               (match pf_set s.cs_soffs i with
                | Some m ->
                  (match pf_extend s.cs_v i with
                   | Some v ->
                     cs_lws pre rest i
                       (set (fun c0 -> c0.cs_state) (fun f ->
                         let c0 = fun r -> f r.cs_state in
                         (fun x -> { cs_no = x.cs_no; cs_methodno =
                         x.cs_methodno; cs_cseq = x.cs_cseq; cs_method =
                         x.cs_method; cs_v = x.cs_v; cs_state = (c0 x);
                         cs_soffs = x.cs_soffs })) (fun _ -> CsEnd)
                         (set (fun c0 -> c0.cs_v) (fun f ->
                           let p = fun r -> f r.cs_v in
                           (fun x -> { cs_no = x.cs_no; cs_methodno =
                           x.cs_methodno; cs_cseq = x.cs_cseq; cs_method =
                           x.cs_method; cs_v = (p x); cs_state = x.cs_state;
                           cs_soffs = x.cs_soffs })) (fun _ -> v)
                           (set (fun c0 -> c0.cs_method) (fun f ->
                             let p = fun r -> f r.cs_method in
                             (fun x -> { cs_no = x.cs_no; cs_methodno =
                             x.cs_methodno; cs_cseq = x.cs_cseq; cs_method =
                             (p x); cs_v = x.cs_v; cs_state = x.cs_state;
                             cs_soffs = x.cs_soffs })) (fun _ -> m) s)))
                   | None -> IPanic)
                | None -> IPanic)
             | _ -> cs_lws pre rest i s)
       else if is_digit c
            then (match st with
                  | CsInit ->
                    Next ((S O),
                      (set (fun c0 -> c0.cs_no) (fun f ->
                        let n0 = fun r -> f r.cs_no in
                        (fun x -> { cs_no = (n0 x); cs_methodno =
                        x.cs_methodno; cs_cseq = x.cs_cseq; cs_method =
                        x.cs_method; cs_v = x.cs_v; cs_state = x.cs_state;
                        cs_soffs = x.cs_soffs })) (fun _ -> digit_val c)
                        (set (fun c0 -> c0.cs_soffs) (fun f ->
                          let n0 = fun r -> f r.cs_soffs in
                          (fun x -> { cs_no = x.cs_no; cs_methodno =
                          x.cs_methodno; cs_cseq = x.cs_cseq; cs_method =
                          x.cs_method; cs_v = x.cs_v; cs_state = x.cs_state;
                          cs_soffs = (n0 x) })) (fun _ -> i)
                          (set (fun c0 -> c0.cs_state) (fun f ->
                            let c0 = fun r -> f r.cs_state in
                            (fun x -> { cs_no = x.cs_no; cs_methodno =
                            x.cs_methodno; cs_cseq = x.cs_cseq; cs_method =
                            x.cs_method; cs_v = x.cs_v; cs_state = (c0 x);
                            cs_soffs = x.cs_soffs })) (fun _ -> CsFoundDigit)
                            s))))
                  | CsFoundDigit ->
                    (match acc32 s.cs_no (digit_val c) with
                     | Some v ->
                       Next ((S O),
                         (set (fun c0 -> c0.cs_no) (fun f ->
                           let n0 = fun r -> f r.cs_no in
                           (fun x -> { cs_no = (n0 x); cs_methodno =
                           x.cs_methodno; cs_cseq = x.cs_cseq; cs_method =
                           x.cs_method; cs_v = x.cs_v; cs_state = x.cs_state;
                           cs_soffs = x.cs_soffs })) (fun _ -> v) s))
                     | None -> Ret (i, ENumTooBig, s))
                  | CsEndDigit ->
                    Next ((S O),
                      (set (fun c0 -> c0.cs_soffs) (fun f ->
                        let n0 = fun r -> f r.cs_soffs in
                        (fun x -> { cs_no = x.cs_no; cs_methodno =
                        x.cs_methodno; cs_cseq = x.cs_cseq; cs_method =
                        x.cs_method; cs_v = x.cs_v; cs_state = x.cs_state;
                        cs_soffs = (n0 x) })) (fun _ -> i)
                        (set (fun c0 -> c0.cs_state) (fun f ->
                          let c0 = fun r -> f r.cs_state in
                          (fun x -> { cs_no = x.cs_no; cs_methodno =
                          x.cs_methodno; cs_cseq = x.cs_cseq; cs_method =
                          x.cs_method; cs_v = x.cs_v; cs_state = (c0 x);
                          cs_soffs = x.cs_soffs })) (fun _ -> CsFoundMethod)
                          s)))
                  | CsFoundMethod -> Next ((S O), s)
                  | _ -> Ret (i, EBadChar, s))
            else (match st with
                  | CsEndDigit ->
                    Next ((S O),
                      (set (fun c0 -> c0.cs_soffs) (fun f ->
                        let n0 = fun r -> f r.cs_soffs in
                        (fun x -> { cs_no = x.cs_no; cs_methodno =
                        x.cs_methodno; cs_cseq = x.cs_cseq; cs_method =
                        x.cs_method; cs_v = x.cs_v; cs_state = x.cs_state;
                        cs_soffs = (n0 x) })) (fun _ -> i)
                        (set (fun c0 -> c0.cs_state) (fun f ->
                          let c0 = fun r -> f r.cs_state in
                          (fun x -> { cs_no = x.cs_no; cs_methodno =
                          x.cs_methodno; cs_cseq = x.cs_cseq; cs_method =
                          x.cs_method; cs_v = x.cs_v; cs_state = (c0 x);
                          cs_soffs = x.cs_soffs })) (fun _ -> CsFoundMethod)
                          s)))
                  | CsFoundMethod -> Next ((S O), s)
                  | _ -> Ret (i, EBadChar, s)))
  | CsFoundMethod ->
    let st = CsFoundMethod in
    (match rest with
     | [] -> Ret (i, EMore, s)
     | c :: _ ->
       if is_ws c
       then (match st with
             | CsFoundDigit ->
               (match pf_set s.cs_soffs i with
                | Some f ->
                  cs_lws pre rest i
                    (set (fun c0 -> c0.cs_state) (fun f0 ->
                      let c0 = fun r -> f0 r.cs_state in
                      (fun x -> { cs_no = x.cs_no; cs_methodno =
                      x.cs_methodno; cs_cseq = x.cs_cseq; cs_method =
                      x.cs_method; cs_v = x.cs_v; cs_state = (c0 x);
                      cs_soffs = x.cs_soffs })) (fun _ -> CsEndDigit)
                      (set (fun c0 -> c0.cs_v) (fun f0 ->
                        let p = fun r -> f0 r.cs_v in
                        (fun x -> { cs_no = x.cs_no; cs_methodno =
                        x.cs_methodno; cs_cseq = x.cs_cseq; cs_method =
                        x.cs_method; cs_v = (p x); cs_state = x.cs_state;
                        cs_soffs = x.cs_soffs })) (fun _ -> f)
                        (set (fun c0 -> c0.cs_cseq) (fun f0 ->
                          let p = fun r -> f0 r.cs_cseq in
                          (fun x -> { cs_no = x.cs_no; cs_methodno =
                          x.cs_methodno; cs_cseq = (p x); cs_method =
                          x.cs_method; cs_v = x.cs_v; cs_state = x.cs_state;
                          cs_soffs = x.cs_soffs })) (fun _ -> f) s)))
                | None -> IPanic)
             | CsFoundMethod ->
               (match pf_set s.cs_soffs i with
                | Some m ->
                  (match pf_extend s.cs_v i with
                   | Some v ->
                     cs_lws pre rest i
                       (set (fun c0 -> c0.cs_state) (fun f ->
                         let c0 = fun r -> f r.cs_state in
                         (fun x -> { cs_no = x.cs_no; cs_methodno =
                         x.cs_methodno; cs_cseq = x.cs_cseq; cs_method =
                         x.cs_method; cs_v = x.cs_v; cs_state = (c0 x);
                         cs_soffs = x.cs_soffs })) (fun _ -> CsEnd)
                         (set (fun c0 -> c0.cs_v) (fun f ->
                           let p = fun r -> f r.cs_v in
                           (fun x -> { cs_no = x.cs_no; cs_methodno =
                           x.cs_methodno; cs_cseq = x.cs_cseq; cs_method =
                           x.cs_method; cs_v = (p x); cs_state = x.cs_state;
                           cs_soffs = x.cs_soffs })) (fun _ -> v)
                           (set (fun c0 -> c0.cs_method) (fun f ->
                             let p = fun r -> f r.cs_method in
                             (fun x -> { cs_no = x.cs_no; cs_methodno =
                             x.cs_methodno; cs_cseq = x.cs_cseq; cs_method =
                             (p x); cs_v = x.cs_v; cs_state = x.cs_state;
                             cs_soffs = x.cs_soffs })) (fun _ -> m) s)))
                   | None -> IPanic)
                | None -> IPanic)
             | _ -> cs_lws pre rest i s)
       else if is_digit c
            then (match st with
                  | CsInit ->
                    Next ((S O),
                      (set (fun c0 -> c0.cs_no) (fun f ->
                        let n0 = fun r -> f r.cs_no in
                        (fun x -> { cs_no = (n0 x); cs_methodno =
                        x.cs_methodno; cs_cseq = x.cs_cseq; cs_method =
                        x.cs_method; cs_v = x.cs_v; cs_state = x.cs_state;
                        cs_soffs = x.cs_soffs })) (fun _ -> digit_val c)
                        (set (fun c0 -> c0.cs_soffs) (fun f ->
                          let n0 = fun r -> f r.cs_soffs in
                          (fun x -> { cs_no = x.cs_no; cs_methodno =
                          x.cs_methodno; cs_cseq = x.cs_cseq; cs_method =
                          x.cs_method; cs_v = x.cs_v; cs_state = x.cs_state;
                          cs_soffs = (n0 x) })) (fun _ -> i)
                          (set (fun c0 -> c0.cs_state) (fun f ->
                            let c0 = fun r -> f r.cs_state in
                            (fun x -> { cs_no = x.cs_no; cs_methodno =
                            x.cs_methodno; cs_cseq = x.cs_cseq; cs_method =
                            x.cs_method; cs_v = x.cs_v; cs_state = (c0 x);
                            cs_soffs = x.cs_soffs })) (fun _ -> CsFoundDigit)
                            s))))
                  | CsFoundDigit ->
                    (match acc32 s.cs_no (digit_val c) with
                     | Some v ->
                       Next ((S O),
                         (set (fun c0 -> c0.cs_no) (fun f ->
                           let n0 = fun r -> f r.cs_no in
                           (fun x -> { cs_no = (n0 x); cs_methodno =
                           x.cs_methodno; cs_cseq = x.cs_cseq; cs_method =
                           x.cs_method; cs_v = x.cs_v; cs_state = x.cs_state;
                           cs_soffs = x.cs_soffs })) (fun _ -> v) s))
                     | None -> Ret (i, ENumTooBig, s))
                  | CsEndDigit ->
                    Next ((S O),
                      (set (fun c0 -> c0.cs_soffs) (fun f ->
                        let n0 = fun r -> f r.cs_soffs in
                        (fun x -> { cs_no = x.cs_no; cs_methodno =
                        x.cs_methodno; cs_cseq = x.cs_cseq; cs_method =
                        x.cs_method; cs_v = x.cs_v; cs_state = x.cs_state;
                        cs_soffs = (n0 x) })) (fun _ -> i)
                        (set (fun c0 -> c0.cs_state) (fun f ->
                          let c0 = fun r -> f r.cs_state in
                          (fun x -> { cs_no = x.cs_no; cs_methodno =
                          x.cs_methodno; cs_cseq = x.cs_cseq; cs_method =
                          x.cs_method; cs_v = x.cs_v; cs_state = (c0 x);
                          cs_soffs = x.cs_soffs })) (fun _ -> CsFoundMethod)
                          s)))
                  | CsFoundMethod -> Next ((S O), s)
                  | _ -> Ret (i, EBadChar, s))
            else (match st with
                  | CsEndDigit ->
                    Next ((S O),
                      (set (fun c0 -> c0.cs_soffs) (fun f ->
                        let n0 = fun r -> f r.cs_soffs in
                        (fun x -> { cs_no = x.cs_no; cs_methodno =
                        x.cs_methodno; cs_cseq = x.cs_cseq; cs_method =
                        x.cs_method; cs_v = x.cs_v; cs_state = x.cs_state;
                        cs_soffs = (n0 x) })) (fun _ -> i)
                        (set (fun c0 -> c0.cs_state) (fun f ->
                          let c0 = fun r -> f r.cs_state in
                          (fun x -> { cs_no = x.cs_no; cs_methodno =
                          x.cs_methodno; cs_cseq = x.cs_cseq; cs_method =
                          x.cs_method; cs_v = x.cs_v; cs_state = (c0 x);
                          cs_soffs = x.cs_soffs })) (fun _ -> CsFoundMethod)
                          s)))
                  | CsFoundMethod -> Next ((S O), s)
                  | _ -> Ret (i, EBadChar, s)))
  | CsEnd ->
    let st = CsEnd in
    (match rest with
     | [] -> Ret (i, EMore, s)
     | c :: _ ->
       if is_ws c
       then (match st with
             | CsFoundDigit ->
               (match pf_set s.cs_soffs i with
                | Some f ->
                  cs_lws pre rest i
                    (set (fun c0 -> c0.cs_state) (fun f0 ->
                      let c0 = fun r -> f0 r.cs_state in
                      (fun x -> { cs_no = x.cs_no; cs_methodno =
                      x.cs_methodno; cs_cseq = x.cs_cseq; cs_method =
                      x.cs_method; cs_v = x.cs_v; cs_state = (c0 x);
                      cs_soffs = x.cs_soffs })) (fun _ -> CsEndDigit)
                      (set (fun c0 -> c0.cs_v) (fun f0 ->
                        let p = fun r -> f0 r.cs_v in
                        (fun x -> { cs_no = x.cs_no; cs_methodno =
                        x.cs_methodno; cs_cseq = x.cs_cseq; cs_method =
                        x.cs_method; cs_v = (p x); cs_state = x.cs_state;
                        cs_soffs = x.cs_soffs })) (fun _ -> f)
                        (set (fun c0 -> c0.cs_cseq) (fun f0 ->
                          let p = fun r -> f0 r.cs_cseq in
                          (fun x -> { cs_no = x.cs_no; cs_methodno =
                          x.cs_methodno; cs_cseq = (p x); cs_method =
                          x.cs_method; cs_v = x.cs_v; cs_state = x.cs_state;
                          cs_soffs = x.cs_soffs })) (fun _ -> f) s)))
                | None -> IPanic)
             | CsFoundMethod ->
               (match pf_set s.cs_soffs i with
                | Some m ->
                  (match pf_extend s.cs_v i with
                   | Some v ->
                     cs_lws pre rest i
                       (set (fun c0 -> c0.cs_state) (fun f ->
                         let c0 = fun r -> f r.cs_state in
                         (fun x -> { cs_no = x.cs_no; cs_methodno =
                         x.cs_methodno; cs_cseq = x.cs_cseq; cs_method =
                         x.cs_method; cs_v = x.cs_v; cs_state = (c0 x);
                         cs_soffs = x.cs_soffs })) (fun _ -> CsEnd)
                         (set (fun c0 -> c0.cs_v) (fun f ->
                           let p = fun r -> f r.cs_v in
                           (fun x -> { cs_no = x.cs_no; cs_methodno =
                           x.cs_methodno; cs_cseq = x.cs_cseq; cs_method =
                           x.cs_method; cs_v = (p x); cs_state = x.cs_state;
                           cs_soffs = x.cs_soffs })) (fun _ -> v)
                           (set (fun c0 -> c0.cs_method) (fun f ->
                             let p = fun r -> f r.cs_method in
                             (fun x -> { cs_no = x.cs_no; cs_methodno =
                             x.cs_methodno; cs_cseq = x.cs_cseq; cs_method =
                             (p x); cs_v = x.cs_v; cs_state = x.cs_state;
                             cs_soffs = x.cs_soffs })) (fun _ -> m) s)))
                   | None -> IPanic)
                | None -> IPanic)
             | _ -> cs_lws pre rest i s)
       else if is_digit c
            then (match st with
                  | CsInit ->
                    Next ((S O),
                      (set (fun c0 -> c0.cs_no) (fun f ->
                        let n0 = fun r -> f r.cs_no in
                        (fun x -> { cs_no = (n0 x); cs_methodno =
                        x.cs_methodno; cs_cseq = x.cs_cseq; cs_method =
                        x.cs_method; cs_v = x.cs_v; cs_state = x.cs_state;
                        cs_soffs = x.cs_soffs })) (fun _ -> digit_val c)
                        (set (fun c0 -> c0.cs_soffs) (fun f ->
                          let n0 = fun r -> f r.cs_soffs in
                          (fun x -> { cs_no = x.cs_no; cs_methodno =
                          x.cs_methodno; cs_cseq = x.cs_cseq; cs_method =
                          x.cs_method; cs_v = x.cs_v; cs_state = x.cs_state;
                          cs_soffs = (n0 x) })) (fun _ -> i)
                          (set (fun c0 -> c0.cs_state) (fun f ->
                            let c0 = fun r -> f r.cs_state in
                            (fun x -> { cs_no = x.cs_no; cs_methodno =
                            x.cs_methodno; cs_cseq = x.cs_cseq; cs_method =
                            x.cs_method; cs_v = x.cs_v; cs_state = (c0 x);
                            cs_soffs = x.cs_soffs })) (fun _ -> CsFoundDigit)
                            s))))
                  | CsFoundDigit ->
                    (match acc32 s.cs_no (digit_val c) with
                     | Some v ->
                       Next ((S O),
                         (set (fun c0 -> c0.cs_no) (fun f ->
                           let n0 = fun r -> f r.cs_no in
                           (fun x -> { cs_no = (n0 x); cs_methodno =
                           x.cs_methodno; cs_cseq = x.cs_cseq; cs_method =
                           x.cs_method; cs_v = x.cs_v; cs_state = x.cs_state;
                           cs_soffs = x.cs_soffs })) (fun _ -> v) s))
                     | None -> Ret (i, ENumTooBig, s))
                  | CsEndDigit ->
                    Next ((S O),
                      (set (fun c0 -> c0.cs_soffs) (fun f ->
                        let n0 = fun r -> f r.cs_soffs in
                        (fun x -> { cs_no = x.cs_no; cs_methodno =
                        x.cs_methodno; cs_cseq = x.cs_cseq; cs_method =
                        x.cs_method; cs_v = x.cs_v; cs_state = x.cs_state;
                        cs_soffs = (n0 x) })) (fun _ -> i)
                        (set (fun c0 -> c0.cs_state) (fun f ->
                          let c0 = fun r -> f r.cs_state in
                          (fun x -> { cs_no = x.cs_no; cs_methodno =
                          x.cs_methodno; cs_cseq = x.cs_cseq; cs_method =
                          x.cs_method; cs_v = x.cs_v; cs_state = (c0 x);
                          cs_soffs = x.cs_soffs })) (fun _ -> CsFoundMethod)
                          s)))
                  | CsFoundMethod -> Next ((S O), s)
                  | _ -> Ret (i, EBadChar, s))
            else (match st with
                  | CsEndDigit ->
                    Next ((S O),
                      (set (fun c0 -> c0.cs_soffs) (fun f ->
                        let n0 = fun r -> f r.cs_soffs in
                        (fun x -> { cs_no = x.cs_no; cs_methodno =
                        x.cs_methodno; cs_cseq = x.cs_cseq; cs_method =
                        x.cs_method; cs_v = x.cs_v; cs_state = x.cs_state;
                        cs_soffs = (n0 x) })) (fun _ -> i)
                        (set (fun c0 -> c0.cs_state) (fun f ->
                          let c0 = fun r -> f r.cs_state in
                          (fun x -> { cs_no = x.cs_no; cs_methodno =
                          x.cs_methodno; cs_cseq = x.cs_cseq; cs_method =
                          x.cs_method; cs_v = x.cs_v; cs_state = (c0 x);
                          cs_soffs = x.cs_soffs })) (fun _ -> CsFoundMethod)
                          s)))
                  | CsFoundMethod -> Next ((S O), s)
                  | _ -> Ret (i, EBadChar, s)))
  | CsFIN -> Ret (i, EOk, s)

(** val parse_cseq : byte list -> n -> cseq -> cseq res **)

let parse_cseq =
  parse cs_iter

(** val obs_cseq : cseq -> z list **)

let obs_cseq s =
  app ((n2z s.cs_no) :: ((n2z s.cs_methodno) :: []))
    (app (obs_pf s.cs_cseq)
      (app (obs_pf s.cs_method)
        (app (obs_pf s.cs_v)
          ((b2z (cs_parsed s)) :: ((b2z (cs_empty s)) :: [])))))

type hst =
| HInit
| HName
| HNameEnd
| HBodyStart
| HVal
| HValEnd
| HFrom
| HTo
| HCallID
| HCSeq
| HCLen
| HContact
| HExpires
| HPAI
| HFIN

type hdr = { h_type : n; h_name : pf; h_val : pf; h_state : hst }

(** val hdr0 : hdr **)

let hdr0 =
  { h_type = hdrNone; h_name = pf0; h_val = pf0; h_state = HInit }

(** val h_missing : hdr -> bool **)

let h_missing h =
  N.eqb h.h_type hdrNone

type phvals = { pv_from : pfrom; pv_to : pfrom; pv_callid : callid;
                pv_cseq : cseq; pv_clen : uintb; pv_contacts : contacts;
                pv_pais : pais; pv_expires : uintb }

(** val phvals_init : pfrom list -> phvals **)

let phvals_init cvals =
  { pv_from = pfrom0; pv_to = pfrom0; pv_callid = callid0; pv_cseq = cseq0;
    pv_clen = uintb0; pv_contacts = (contacts_init cvals); pv_pais = pais0;
    pv_expires = uintb0 }

(** val phvals_reset : phvals -> phvals **)

let phvals_reset v =
  { pv_from = pfrom0; pv_to = pfrom0; pv_callid = callid0; pv_cseq = cseq0;
    pv_clen = uintb0; pv_contacts = (contacts_reset v.pv_contacts); pv_pais =
    pais0; pv_expires = uintb0 }

(** val pv_max_expires : phvals -> n * bool **)

let pv_max_expires v =
  if ct_parsed v.pv_contacts
  then let m = v.pv_contacts.ct_maxexp in
       let ok = true in
       if ui_parsed v.pv_expires
       then ((if N.ltb m v.pv_expires.ui_val then v.pv_expires.ui_val else m),
              true)
       else (m, ok)
  else let m = N0 in
       let ok = false in
       if ui_parsed v.pv_expires
       then ((if N.ltb m v.pv_expires.ui_val then v.pv_expires.ui_val else m),
              true)
       else (m, ok)

type hline = { hx_h : hdr; hx_pv : phvals option }

(** val hb_finish :
    'a1 res -> hline -> ('a1 -> pf) -> ('a1 -> phvals) -> hline ires **)

let hb_finish r st valof put =
  match r with
  | Done (n0, e, b) ->
    let h = st.hx_h in
    let h0 =
      match e with
      | EOk ->
        set (fun h0 -> h0.h_state) (fun f ->
          let h0 = fun r0 -> f r0.h_state in
          (fun x -> { h_type = x.h_type; h_name = x.h_name; h_val = x.h_val;
          h_state = (h0 x) })) (fun _ -> HFIN)
          (set (fun h0 -> h0.h_val) (fun f ->
            let p = fun r0 -> f r0.h_val in
            (fun x -> { h_type = x.h_type; h_name = x.h_name; h_val = 
            (p x); h_state = x.h_state })) (fun _ -> valof b) h)
      | _ -> h
    in
    Ret (n0, e, { hx_h = h0; hx_pv = (Some (put b)) })
  | _ -> IPanic

(** val hb_run :
    hst -> byte list -> byte list -> n -> hline -> phvals -> hline ires **)

let hb_run hs pre rest o st v =
  let st0 =
    set (fun h -> h.hx_h) (fun f ->
      let h = fun r -> f r.hx_h in
      (fun x -> { hx_h = (h x); hx_pv = x.hx_pv })) (fun _ ->
      set (fun h -> h.h_state) (fun f ->
        let h = fun r -> f r.h_state in
        (fun x -> { h_type = x.h_type; h_name = x.h_name; h_val = x.h_val;
        h_state = (h x) })) (fun _ -> hs) st.hx_h) st
  in
  (match hs with
   | HFrom ->
     hb_finish (run (fb_iter hdrFrom) pre rest o O v.pv_from) st0 (fun p ->
       p.fb_v) (fun b ->
       set (fun p -> p.pv_from) (fun f ->
         let p = fun r -> f r.pv_from in
         (fun x -> { pv_from = (p x); pv_to = x.pv_to; pv_callid =
         x.pv_callid; pv_cseq = x.pv_cseq; pv_clen = x.pv_clen; pv_contacts =
         x.pv_contacts; pv_pais = x.pv_pais; pv_expires = x.pv_expires }))
         (fun _ -> b) v)
   | HTo ->
     hb_finish (run (fb_iter hdrTo) pre rest o O v.pv_to) st0 (fun p ->
       p.fb_v) (fun b ->
       set (fun p -> p.pv_to) (fun f ->
         let p = fun r -> f r.pv_to in
         (fun x -> { pv_from = x.pv_from; pv_to = (p x); pv_callid =
         x.pv_callid; pv_cseq = x.pv_cseq; pv_clen = x.pv_clen; pv_contacts =
         x.pv_contacts; pv_pais = x.pv_pais; pv_expires = x.pv_expires }))
         (fun _ -> b) v)
   | HCallID ->
     hb_finish (run ci_iter pre rest o O v.pv_callid) st0 (fun c ->
       c.ci_callid) (fun b ->
       set (fun p -> p.pv_callid) (fun f ->
         let c = fun r -> f r.pv_callid in
         (fun x -> { pv_from = x.pv_from; pv_to = x.pv_to; pv_callid = 
         (c x); pv_cseq = x.pv_cseq; pv_clen = x.pv_clen; pv_contacts =
         x.pv_contacts; pv_pais = x.pv_pais; pv_expires = x.pv_expires }))
         (fun _ -> b) v)
   | HCSeq ->
     hb_finish (run cs_iter pre rest o O v.pv_cseq) st0 (fun c -> c.cs_v)
       (fun b ->
       set (fun p -> p.pv_cseq) (fun f ->
         let c = fun r -> f r.pv_cseq in
         (fun x -> { pv_from = x.pv_from; pv_to = x.pv_to; pv_callid =
         x.pv_callid; pv_cseq = (c x); pv_clen = x.pv_clen; pv_contacts =
         x.pv_contacts; pv_pais = x.pv_pais; pv_expires = x.pv_expires }))
         (fun _ -> b) v)
   | HCLen ->
     let r =
       match run ui_iter pre rest o O v.pv_clen with
       | Done (n0, e, b) ->
         (match e with
          | EOk ->
            if (||) (N.ltb maxCLenValueSize b.ui_sval.pl)
                 (N.ltb maxClenValue b.ui_val)
            then Done (b.ui_sval.po, ENumTooBig, b)
            else Done (n0, EOk, b)
          | x -> Done (n0, x, b))
       | x -> x
     in
     hb_finish r st0 (fun u -> u.ui_sval) (fun b ->
       set (fun p -> p.pv_clen) (fun f ->
         let u = fun r0 -> f r0.pv_clen in
         (fun x -> { pv_from = x.pv_from; pv_to = x.pv_to; pv_callid =
         x.pv_callid; pv_cseq = x.pv_cseq; pv_clen = (u x); pv_contacts =
         x.pv_contacts; pv_pais = x.pv_pais; pv_expires = x.pv_expires }))
         (fun _ -> b) v)
   | HContact ->
     hb_finish (run ct_iter pre rest o O v.pv_contacts) st0 (fun c ->
       c.ct_lasthval) (fun b ->
       set (fun p -> p.pv_contacts) (fun f ->
         let c = fun r -> f r.pv_contacts in
         (fun x -> { pv_from = x.pv_from; pv_to = x.pv_to; pv_callid =
         x.pv_callid; pv_cseq = x.pv_cseq; pv_clen = x.pv_clen; pv_contacts =
         (c x); pv_pais = x.pv_pais; pv_expires = x.pv_expires })) (fun _ ->
         b) v)
   | HExpires ->
     hb_finish (run ui_iter pre rest o O v.pv_expires) st0 (fun u ->
       u.ui_sval) (fun b ->
       set (fun p -> p.pv_expires) (fun f ->
         let u = fun r -> f r.pv_expires in
         (fun x -> { pv_from = x.pv_from; pv_to = x.pv_to; pv_callid =
         x.pv_callid; pv_cseq = x.pv_cseq; pv_clen = x.pv_clen; pv_contacts =
         x.pv_contacts; pv_pais = x.pv_pais; pv_expires = (u x) })) (fun _ ->
         b) v)
   | HPAI ->
     hb_finish (run pa_iter pre rest o O v.pv_pais) st0 (fun p ->
       p.pa_lasthval) (fun b ->
       set (fun p -> p.pv_pais) (fun f ->
         let p = fun r -> f r.pv_pais in
         (fun x -> { pv_from = x.pv_from; pv_to = x.pv_to; pv_callid =
         x.pv_callid; pv_cseq = x.pv_cseq; pv_clen = x.pv_clen; pv_contacts =
         x.pv_contacts; pv_pais = (p x); pv_expires = x.pv_expires }))
         (fun _ -> b) v)
   | _ -> IPanic)

(** val hb_parse_body :
    byte list -> byte list -> n -> hline -> hline ires option **)

let hb_parse_body pre rest o st =
  match st.hx_pv with
  | Some v ->
    let t = st.hx_h.h_type in
    if N.eqb t hdrFrom
    then if fb_parsed v.pv_from
         then None
         else Some (hb_run HFrom pre rest o st v)
    else if N.eqb t hdrTo
         then if fb_parsed v.pv_to
              then None
              else Some (hb_run HTo pre rest o st v)
         else if N.eqb t hdrCallID
              then if ci_parsed v.pv_callid
                   then None
                   else Some (hb_run HCallID pre rest o st v)
              else if N.eqb t hdrCSeq
                   then if cs_parsed v.pv_cseq
                        then None
                        else Some (hb_run HCSeq pre rest o st v)
                   else if N.eqb t hdrCLen
                        then if ui_parsed v.pv_clen
                             then None
                             else Some (hb_run HCLen pre rest o st v)
                        else if N.eqb t hdrContact
                             then let c = v.pv_contacts in
                                  Some
                                  (hb_run HContact pre rest o st
                                    (set (fun p -> p.pv_contacts) (fun f ->
                                      let c0 = fun r -> f r.pv_contacts in
                                      (fun x -> { pv_from = x.pv_from;
                                      pv_to = x.pv_to; pv_callid =
                                      x.pv_callid; pv_cseq = x.pv_cseq;
                                      pv_clen = x.pv_clen; pv_contacts =
                                      (c0 x); pv_pais = x.pv_pais;
                                      pv_expires = x.pv_expires })) (fun _ ->
                                      set (fun c0 -> c0.ct_lasthval)
                                        (fun f ->
                                        let p = fun r -> f r.ct_lasthval in
                                        (fun x -> { ct_vals = x.ct_vals;
                                        ct_n = x.ct_n; ct_hno = x.ct_hno;
                                        ct_maxexp = x.ct_maxexp; ct_minexp =
                                        x.ct_minexp; ct_lasthval = (p x);
                                        ct_last = x.ct_last; ct_first =
                                        x.ct_first })) (fun _ -> pf0)
                                        (set (fun c0 -> c0.ct_hno) (fun f ->
                                          let n0 = fun r -> f r.ct_hno in
                                          (fun x -> { ct_vals = x.ct_vals;
                                          ct_n = x.ct_n; ct_hno = (n0 x);
                                          ct_maxexp = x.ct_maxexp;
                                          ct_minexp = x.ct_minexp;
                                          ct_lasthval = x.ct_lasthval;
                                          ct_last = x.ct_last; ct_first =
                                          x.ct_first })) (fun _ ->
                                          N.add c.ct_hno (Npos XH)) c)) v))
                             else if N.eqb t hdrExpires
                                  then if ui_parsed v.pv_expires
                                       then None
                                       else Some
                                              (hb_run HExpires pre rest o st
                                                v)
                                  else if N.eqb t hdrPAI
                                       then let c = v.pv_pais in
                                            Some
                                            (hb_run HPAI pre rest o st
                                              (set (fun p -> p.pv_pais)
                                                (fun f ->
                                                let p = fun r -> f r.pv_pais
                                                in
                                                (fun x -> { pv_from =
                                                x.pv_from; pv_to = x.pv_to;
                                                pv_callid = x.pv_callid;
                                                pv_cseq = x.pv_cseq;
                                                pv_clen = x.pv_clen;
                                                pv_contacts = x.pv_contacts;
                                                pv_pais = (p x); pv_expires =
                                                x.pv_expires })) (fun _ ->
                                                set (fun p -> p.pa_lasthval)
                                                  (fun f ->
                                                  let p = fun r ->
                                                    f r.pa_lasthval
                                                  in
                                                  (fun x -> { pa_vals =
                                                  x.pa_vals; pa_n = x.pa_n;
                                                  pa_hno = x.pa_hno;
                                                  pa_lasthval = (p x);
                                                  pa_last = x.pa_last }))
                                                  (fun _ -> pf0)
                                                  (set (fun p -> p.pa_hno)
                                                    (fun f ->
                                                    let n0 = fun r ->
                                                      f r.pa_hno
                                                    in
                                                    (fun x -> { pa_vals =
                                                    x.pa_vals; pa_n = x.pa_n;
                                                    pa_hno = (n0 x);
                                                    pa_lasthval =
                                                    x.pa_lasthval; pa_last =
                                                    x.pa_last })) (fun _ ->
                                                    N.add c.pa_hno (Npos XH))
                                                    c)) v))
                                       else None
  | None -> None

(** val hl_colon :
    byte list -> byte list -> n -> nat -> hline -> hline ires **)

let hl_colon pre rest i k st =
  let h = st.hx_h in
  (match zget pre rest i h.h_name with
   | Some name ->
     let h0 =
       set (fun h0 -> h0.h_type) (fun f ->
         let n0 = fun r -> f r.h_type in
         (fun x -> { h_type = (n0 x); h_name = x.h_name; h_val = x.h_val;
         h_state = x.h_state })) (fun _ -> get_hdr_type name)
         (set (fun h0 -> h0.h_state) (fun f ->
           let h0 = fun r -> f r.h_state in
           (fun x -> { h_type = x.h_type; h_name = x.h_name; h_val = x.h_val;
           h_state = (h0 x) })) (fun _ -> HBodyStart) h)
     in
     let st0 =
       set (fun h1 -> h1.hx_h) (fun f ->
         let h1 = fun r -> f r.hx_h in
         (fun x -> { hx_h = (h1 x); hx_pv = x.hx_pv })) (fun _ -> h0) st
     in
     (match hb_parse_body (zpre (S k) pre rest) (zrest (S k) rest)
              (N.add (N.add i (nnat k)) (Npos XH)) st0 with
      | Some r -> r
      | None -> Next ((S k), st0))
   | None -> IPanic)

(** val hl_name_ph : byte list -> byte list -> n -> hline -> hline ires **)

let hl_name_ph pre rest i st =
  let h = st.hx_h in
  let k = skipTokenDelim (Npos (XO (XI (XO (XI (XI XH)))))) rest in
  let i' = N.add i (nnat k) in
  (match skipn k rest with
   | [] -> Ret (i', EMore, st)
   | c :: _ ->
     if is_sp c
     then (match pf_extend h.h_name i' with
           | Some n0 ->
             let st0 =
               set (fun h0 -> h0.hx_h) (fun f ->
                 let h0 = fun r -> f r.hx_h in
                 (fun x -> { hx_h = (h0 x); hx_pv = x.hx_pv })) (fun _ ->
                 set (fun h0 -> h0.h_name) (fun f ->
                   let p = fun r -> f r.h_name in
                   (fun x -> { h_type = x.h_type; h_name = (p x); h_val =
                   x.h_val; h_state = x.h_state })) (fun _ -> n0)
                   (set (fun h0 -> h0.h_state) (fun f ->
                     let h0 = fun r -> f r.h_state in
                     (fun x -> { h_type = x.h_type; h_name = x.h_name;
                     h_val = x.h_val; h_state = (h0 x) })) (fun _ ->
                     HNameEnd) h)) st
             in
             if pf_empty n0
             then Ret (i', EBadChar, st0)
             else Next ((S k), st0)
           | None -> IPanic)
     else if N.eqb c (Npos (XO (XI (XO (XI (XI XH))))))
          then (match pf_extend h.h_name i' with
                | Some n0 ->
                  let st0 =
                    set (fun h0 -> h0.hx_h) (fun f ->
                      let h0 = fun r -> f r.hx_h in
                      (fun x -> { hx_h = (h0 x); hx_pv = x.hx_pv }))
                      (fun _ ->
                      set (fun h0 -> h0.h_name) (fun f ->
                        let p = fun r -> f r.h_name in
                        (fun x -> { h_type = x.h_type; h_name = (p x);
                        h_val = x.h_val; h_state = x.h_state })) (fun _ ->
                        n0)
                        (set (fun h0 -> h0.h_state) (fun f ->
                          let h0 = fun r -> f r.h_state in
                          (fun x -> { h_type = x.h_type; h_name = x.h_name;
                          h_val = x.h_val; h_state = (h0 x) })) (fun _ ->
                          HBodyStart) h)) st
                  in
                  if pf_empty n0
                  then Ret (i', EBadChar, st0)
                  else hl_colon pre rest i k st0
                | None -> IPanic)
          else Ret (i', EBadChar, st))

(** val hl_iter : byte list -> byte list -> n -> hline -> hline ires **)

let hl_iter pre rest i st =
  let h = st.hx_h in
  let seth = fun h0 ->
    set (fun h1 -> h1.hx_h) (fun f ->
      let h1 = fun r -> f r.hx_h in
      (fun x -> { hx_h = (h1 x); hx_pv = x.hx_pv })) (fun _ -> h0) st
  in
  (match rest with
   | [] -> Ret (i, EMore, st)
   | c :: r1 ->
     (match h.h_state with
      | HInit ->
        if is_cr c
        then (match r1 with
              | [] -> Ret (i, EMore, st)
              | d :: _ ->
                Ret
                  ((if is_lf d
                    then N.add i (Npos (XO XH))
                    else N.add i (Npos XH)), EEmpty,
                  (seth
                    (set (fun h0 -> h0.h_state) (fun f ->
                      let h0 = fun r -> f r.h_state in
                      (fun x -> { h_type = x.h_type; h_name = x.h_name;
                      h_val = x.h_val; h_state = (h0 x) })) (fun _ -> HFIN) h))))
        else if is_lf c
             then Ret ((N.add i (Npos XH)), EEmpty,
                    (seth
                      (set (fun h0 -> h0.h_state) (fun f ->
                        let h0 = fun r -> f r.h_state in
                        (fun x -> { h_type = x.h_type; h_name = x.h_name;
                        h_val = x.h_val; h_state = (h0 x) })) (fun _ -> HFIN)
                        h)))
             else (match pf_set i i with
                   | Some n0 ->
                     hl_name_ph pre rest i
                       (seth
                         (set (fun h0 -> h0.h_name) (fun f ->
                           let p = fun r -> f r.h_name in
                           (fun x -> { h_type = x.h_type; h_name = (p x);
                           h_val = x.h_val; h_state = x.h_state })) (fun _ ->
                           n0)
                           (set (fun h0 -> h0.h_state) (fun f ->
                             let h0 = fun r -> f r.h_state in
                             (fun x -> { h_type = x.h_type; h_name =
                             x.h_name; h_val = x.h_val; h_state = (h0 x) }))
                             (fun _ -> HName) h)))
                   | None -> IPanic)
      | HName -> hl_name_ph pre rest i st
      | HNameEnd ->
        let k = skipWS rest in
        (match skipn k rest with
         | [] -> Ret ((N.add i (nnat k)), EMore, st)
         | d :: _ ->
           if N.eqb d (Npos (XO (XI (XO (XI (XI XH))))))
           then hl_colon pre rest i k st
           else Ret ((N.add i (nnat k)), EBadChar, st))
      | HBodyStart ->
        (match skipLWS false rest with
         | LOk k ->
           (match pf_set (N.add i (nnat k)) (N.add i (nnat k)) with
            | Some v ->
              Next ((S k),
                (seth
                  (set (fun h0 -> h0.h_val) (fun f ->
                    let p = fun r -> f r.h_val in
                    (fun x -> { h_type = x.h_type; h_name = x.h_name; h_val =
                    (p x); h_state = x.h_state })) (fun _ -> v)
                    (set (fun h0 -> h0.h_state) (fun f ->
                      let h0 = fun r -> f r.h_state in
                      (fun x -> { h_type = x.h_type; h_name = x.h_name;
                      h_val = x.h_val; h_state = (h0 x) })) (fun _ -> HVal) h))))
            | None -> IPanic)
         | LEOH (k, crl) ->
           Ret ((N.add (N.add i (nnat k)) (nnat crl)), EOk,
             (seth
               (set (fun h0 -> h0.h_state) (fun f ->
                 let h0 = fun r -> f r.h_state in
                 (fun x -> { h_type = x.h_type; h_name = x.h_name; h_val =
                 x.h_val; h_state = (h0 x) })) (fun _ -> HFIN) h)))
         | LMore k -> Ret ((N.add i (nnat k)), EMore, st))
      | HVal ->
        let k = match h.h_state with
                | HVal -> skipToken rest
                | _ -> O in
        (match skipn k rest with
         | [] ->
           let r' = [] in
           (match h.h_state with
            | HVal -> Ret ((N.add i (nnat k)), EMore, st)
            | _ ->
              (match h.h_state with
               | HVal ->
                 (match pf_extend h.h_val (N.add i (nnat k)) with
                  | Some v ->
                    let h1 =
                      set (fun h0 -> h0.h_state) (fun f ->
                        let h0 = fun r -> f r.h_state in
                        (fun x -> { h_type = x.h_type; h_name = x.h_name;
                        h_val = x.h_val; h_state = (h0 x) })) (fun _ ->
                        HValEnd)
                        (set (fun h0 -> h0.h_val) (fun f ->
                          let p = fun r -> f r.h_val in
                          (fun x -> { h_type = x.h_type; h_name = x.h_name;
                          h_val = (p x); h_state = x.h_state })) (fun _ -> v)
                          h)
                    in
                    (match skipLWS false r' with
                     | LOk k2 ->
                       Next ((S (add k k2)),
                         (seth
                           (set (fun h0 -> h0.h_state) (fun f ->
                             let h0 = fun r -> f r.h_state in
                             (fun x -> { h_type = x.h_type; h_name =
                             x.h_name; h_val = x.h_val; h_state = (h0 x) }))
                             (fun _ -> HVal) h1)))
                     | LEOH (k2, crl) ->
                       Ret
                         ((N.add (N.add (N.add i (nnat k)) (nnat k2))
                            (nnat crl)), EOk,
                         (seth
                           (set (fun h0 -> h0.h_state) (fun f ->
                             let h0 = fun r -> f r.h_state in
                             (fun x -> { h_type = x.h_type; h_name =
                             x.h_name; h_val = x.h_val; h_state = (h0 x) }))
                             (fun _ -> HFIN) h1)))
                     | LMore k2 ->
                       Ret ((N.add (N.add i (nnat k)) (nnat k2)), EMore,
                         (seth h1)))
                  | None -> IPanic)
               | _ ->
                 (match skipLWS false r' with
                  | LOk k2 ->
                    Next ((S (add k k2)),
                      (seth
                        (set (fun h0 -> h0.h_state) (fun f ->
                          let h0 = fun r -> f r.h_state in
                          (fun x -> { h_type = x.h_type; h_name = x.h_name;
                          h_val = x.h_val; h_state = (h0 x) })) (fun _ ->
                          HVal) h)))
                  | LEOH (k2, crl) ->
                    Ret
                      ((N.add (N.add (N.add i (nnat k)) (nnat k2)) (nnat crl)),
                      EOk,
                      (seth
                        (set (fun h0 -> h0.h_state) (fun f ->
                          let h0 = fun r -> f r.h_state in
                          (fun x -> { h_type = x.h_type; h_name = x.h_name;
                          h_val = x.h_val; h_state = (h0 x) })) (fun _ ->
                          HFIN) h)))
                  | LMore k2 ->
                    Ret ((N.add (N.add i (nnat k)) (nnat k2)), EMore,
                      (seth h)))))
         | b :: l ->
           (match h.h_state with
            | HVal ->
              (match pf_extend h.h_val (N.add i (nnat k)) with
               | Some v ->
                 let h1 =
                   set (fun h0 -> h0.h_state) (fun f ->
                     let h0 = fun r -> f r.h_state in
                     (fun x -> { h_type = x.h_type; h_name = x.h_name;
                     h_val = x.h_val; h_state = (h0 x) })) (fun _ -> HValEnd)
                     (set (fun h0 -> h0.h_val) (fun f ->
                       let p = fun r -> f r.h_val in
                       (fun x -> { h_type = x.h_type; h_name = x.h_name;
                       h_val = (p x); h_state = x.h_state })) (fun _ -> v) h)
                 in
                 (match skipLWS false (b :: l) with
                  | LOk k2 ->
                    Next ((S (add k k2)),
                      (seth
                        (set (fun h0 -> h0.h_state) (fun f ->
                          let h0 = fun r -> f r.h_state in
                          (fun x -> { h_type = x.h_type; h_name = x.h_name;
                          h_val = x.h_val; h_state = (h0 x) })) (fun _ ->
                          HVal) h1)))
                  | LEOH (k2, crl) ->
                    Ret
                      ((N.add (N.add (N.add i (nnat k)) (nnat k2)) (nnat crl)),
                      EOk,
                      (seth
                        (set (fun h0 -> h0.h_state) (fun f ->
                          let h0 = fun r -> f r.h_state in
                          (fun x -> { h_type = x.h_type; h_name = x.h_name;
                          h_val = x.h_val; h_state = (h0 x) })) (fun _ ->
                          HFIN) h1)))
                  | LMore k2 ->
                    Ret ((N.add (N.add i (nnat k)) (nnat k2)), EMore,
                      (seth h1)))
               | None -> IPanic)
            | _ ->
              (match skipLWS false (b :: l) with
               | LOk k2 ->
                 Next ((S (add k k2)),
                   (seth
                     (set (fun h0 -> h0.h_state) (fun f ->
                       let h0 = fun r -> f r.h_state in
                       (fun x -> { h_type = x.h_type; h_name = x.h_name;
                       h_val = x.h_val; h_state = (h0 x) })) (fun _ -> HVal)
                       h)))
               | LEOH (k2, crl) ->
                 Ret
                   ((N.add (N.add (N.add i (nnat k)) (nnat k2)) (nnat crl)),
                   EOk,
                   (seth
                     (set (fun h0 -> h0.h_state) (fun f ->
                       let h0 = fun r -> f r.h_state in
                       (fun x -> { h_type = x.h_type; h_name = x.h_name;
                       h_val = x.h_val; h_state = (h0 x) })) (fun _ -> HFIN)
                       h)))
               | LMore k2 ->
                 Ret ((N.add (N.add i (nnat k)) (nnat k2)), EMore, (seth h)))))
      | HValEnd ->
        let k = match h.h_state with
                | HVal -> skipToken rest
                | _ -> O in
        (match skipn k rest with
         | [] ->
           let r' = [] in
           (match h.h_state with
            | HVal -> Ret ((N.add i (nnat k)), EMore, st)
            | _ ->
              (match h.h_state with
               | HVal ->
                 (match pf_extend h.h_val (N.add i (nnat k)) with
                  | Some v ->
                    let h1 =
                      set (fun h0 -> h0.h_state) (fun f ->
                        let h0 = fun r -> f r.h_state in
                        (fun x -> { h_type = x.h_type; h_name = x.h_name;
                        h_val = x.h_val; h_state = (h0 x) })) (fun _ ->
                        HValEnd)
                        (set (fun h0 -> h0.h_val) (fun f ->
                          let p = fun r -> f r.h_val in
                          (fun x -> { h_type = x.h_type; h_name = x.h_name;
                          h_val = (p x); h_state = x.h_state })) (fun _ -> v)
                          h)
                    in
                    (match skipLWS false r' with
                     | LOk k2 ->
                       Next ((S (add k k2)),
                         (seth
                           (set (fun h0 -> h0.h_state) (fun f ->
                             let h0 = fun r -> f r.h_state in
                             (fun x -> { h_type = x.h_type; h_name =
                             x.h_name; h_val = x.h_val; h_state = (h0 x) }))
                             (fun _ -> HVal) h1)))
                     | LEOH (k2, crl) ->
                       Ret
                         ((N.add (N.add (N.add i (nnat k)) (nnat k2))
                            (nnat crl)), EOk,
                         (seth
                           (set (fun h0 -> h0.h_state) (fun f ->
                             let h0 = fun r -> f r.h_state in
                             (fun x -> { h_type = x.h_type; h_name =
                             x.h_name; h_val = x.h_val; h_state = (h0 x) }))
                             (fun _ -> HFIN) h1)))
                     | LMore k2 ->
                       Ret ((N.add (N.add i (nnat k)) (nnat k2)), EMore,
                         (seth h1)))
                  | None -> IPanic)
               | _ ->
                 (match skipLWS false r' with
                  | LOk k2 ->
                    Next ((S (add k k2)),
                      (seth
                        (set (fun h0 -> h0.h_state) (fun f ->
                          let h0 = fun r -> f r.h_state in
                          (fun x -> { h_type = x.h_type; h_name = x.h_name;
                          h_val = x.h_val; h_state = (h0 x) })) (fun _ ->
                          HVal) h)))
                  | LEOH (k2, crl) ->
                    Ret
                      ((N.add (N.add (N.add i (nnat k)) (nnat k2)) (nnat crl)),
                      EOk,
                      (seth
                        (set (fun h0 -> h0.h_state) (fun f ->
                          let h0 = fun r -> f r.h_state in
                          (fun x -> { h_type = x.h_type; h_name = x.h_name;
                          h_val = x.h_val; h_state = (h0 x) })) (fun _ ->
                          HFIN) h)))
                  | LMore k2 ->
                    Ret ((N.add (N.add i (nnat k)) (nnat k2)), EMore,
                      (seth h)))))
         | b :: l ->
           (match h.h_state with
            | HVal ->
              (match pf_extend h.h_val (N.add i (nnat k)) with
               | Some v ->
                 let h1 =
                   set (fun h0 -> h0.h_state) (fun f ->
                     let h0 = fun r -> f r.h_state in
                     (fun x -> { h_type = x.h_type; h_name = x.h_name;
                     h_val = x.h_val; h_state = (h0 x) })) (fun _ -> HValEnd)
                     (set (fun h0 -> h0.h_val) (fun f ->
                       let p = fun r -> f r.h_val in
                       (fun x -> { h_type = x.h_type; h_name = x.h_name;
                       h_val = (p x); h_state = x.h_state })) (fun _ -> v) h)
                 in
                 (match skipLWS false (b :: l) with
                  | LOk k2 ->
                    Next ((S (add k k2)),
                      (seth
                        (set (fun h0 -> h0.h_state) (fun f ->
                          let h0 = fun r -> f r.h_state in
                          (fun x -> { h_type = x.h_type; h_name = x.h_name;
                          h_val = x.h_val; h_state = (h0 x) })) (fun _ ->
                          HVal) h1)))
                  | LEOH (k2, crl) ->
                    Ret
                      ((N.add (N.add (N.add i (nnat k)) (nnat k2)) (nnat crl)),
                      EOk,
                      (seth
                        (set (fun h0 -> h0.h_state) (fun f ->
                          let h0 = fun r -> f r.h_state in
                          (fun x -> { h_type = x.h_type; h_name = x.h_name;
                          h_val = x.h_val; h_state = (h0 x) })) (fun _ ->
                          HFIN) h1)))
                  | LMore k2 ->
                    Ret ((N.add (N.add i (nnat k)) (nnat k2)), EMore,
                      (seth h1)))
               | None -> IPanic)
            | _ ->
              (match skipLWS false (b :: l) with
               | LOk k2 ->
                 Next ((S (add k k2)),
                   (seth
                     (set (fun h0 -> h0.h_state) (fun f ->
                       let h0 = fun r -> f r.h_state in
                       (fun x -> { h_type = x.h_type; h_name = x.h_name;
                       h_val = x.h_val; h_state = (h0 x) })) (fun _ -> HVal)
                       h)))
               | LEOH (k2, crl) ->
                 Ret
                   ((N.add (N.add (N.add i (nnat k)) (nnat k2)) (nnat crl)),
                   EOk,
                   (seth
                     (set (fun h0 -> h0.h_state) (fun f ->
                       let h0 = fun r -> f r.h_state in
                       (fun x -> { h_type = x.h_type; h_name = x.h_name;
                       h_val = x.h_val; h_state = (h0 x) })) (fun _ -> HFIN)
                       h)))
               | LMore k2 ->
                 Ret ((N.add (N.add i (nnat k)) (nnat k2)), EMore, (seth h)))))
      | HFIN -> Ret (i, EBug, st)
      | x ->
        (match st.hx_pv with
         | Some v -> hb_run x pre rest i st v
         | None -> IPanic)))

(** val parse_hdrline : byte list -> n -> hline -> hline res **)

let parse_hdrline =
  parse hl_iter

type hdrlst = { hl_pflags : n; hl_n : n; hl_hdrs : hdr list;
                hl_first : hdr list; hl_tmp : hdr }

(** val n_first : nat **)

let n_first =
  S (S (S (S (S (S (S (S (S (S (S (S (S O))))))))))))

(** val hdrlst_init : hdr list -> hdrlst **)

let hdrlst_init hdrs =
  { hl_pflags = N0; hl_n = N0; hl_hdrs = hdrs; hl_first =
    (repeat hdr0 n_first); hl_tmp = hdr0 }

(** val hdrlst_reset : hdrlst -> hdrlst **)

let hdrlst_reset l =
  hdrlst_init (map (fun _ -> hdr0) l.hl_hdrs)

(** val hl_cap : hdrlst -> n **)

let hl_cap l =
  nnat (length l.hl_hdrs)

(** val hl_is_tmp : hdrlst -> bool **)

let hl_is_tmp l =
  N.leb (hl_cap l) l.hl_n

(** val hl_slot : hdrlst -> hdr **)

let hl_slot l =
  if hl_is_tmp l then l.hl_tmp else nth (N.to_nat l.hl_n) l.hl_hdrs hdr0

(** val hl_store : hdrlst -> hdr -> hdrlst **)

let hl_store l h =
  if hl_is_tmp l
  then set (fun h0 -> h0.hl_tmp) (fun f ->
         let h0 = fun r -> f r.hl_tmp in
         (fun x -> { hl_pflags = x.hl_pflags; hl_n = x.hl_n; hl_hdrs =
         x.hl_hdrs; hl_first = x.hl_first; hl_tmp = (h0 x) })) (fun _ -> h) l
  else set (fun h0 -> h0.hl_hdrs) (fun f ->
         let l0 = fun r -> f r.hl_hdrs in
         (fun x -> { hl_pflags = x.hl_pflags; hl_n = x.hl_n; hl_hdrs =
         (l0 x); hl_first = x.hl_first; hl_tmp = x.hl_tmp })) (fun _ ->
         set_nth (N.to_nat l.hl_n) h l.hl_hdrs) l

(** val hl_gethdr : hdrlst -> n -> hdr option **)

let hl_gethdr l t =
  if (&&) (N.ltb hdrNone t) (N.ltb t hdrOther)
  then nth_error l.hl_first (N.to_nat (N.sub t (Npos XH)))
  else None

(** val hl_sethdr : hdrlst -> hdr -> hdrlst **)

let hl_sethdr l h =
  if (&&)
       ((&&) (N.leb (Npos XH) h.h_type)
         (N.ltb (N.sub h.h_type (Npos XH)) (nnat (length l.hl_first))))
       (h_missing (nth (N.to_nat (N.sub h.h_type (Npos XH))) l.hl_first hdr0))
  then set (fun h0 -> h0.hl_first) (fun f ->
         let l0 = fun r -> f r.hl_first in
         (fun x -> { hl_pflags = x.hl_pflags; hl_n = x.hl_n; hl_hdrs =
         x.hl_hdrs; hl_first = (l0 x); hl_tmp = x.hl_tmp })) (fun _ ->
         set_nth (N.to_nat (N.sub h.h_type (Npos XH))) h l.hl_first) l
  else l

type hdrs_st = { hs_l : hdrlst; hs_pv : phvals option }

(** val hs_iter : byte list -> byte list -> n -> hdrs_st -> hdrs_st ires **)

let hs_iter pre rest i st =
  match rest with
  | [] -> Ret (i, EMore, st)
  | _ :: _ ->
    let l = st.hs_l in
    (match run hl_iter pre rest i O { hx_h = (hl_slot l); hx_pv = st.hs_pv } with
     | Done (n0, e, x) ->
       let l1 = hl_store l x.hx_h in
       let st1 = { hs_l = l1; hs_pv = x.hx_pv } in
       (match e with
        | EOk ->
          let h = x.hx_h in
          let l2 =
            hl_sethdr
              (set (fun h0 -> h0.hl_pflags) (fun f ->
                let n1 = fun r -> f r.hl_pflags in
                (fun x0 -> { hl_pflags = (n1 x0); hl_n = x0.hl_n; hl_hdrs =
                x0.hl_hdrs; hl_first = x0.hl_first; hl_tmp = x0.hl_tmp }))
                (fun _ ->
                N.modulo
                  (N.coq_lor l1.hl_pflags (N.pow (Npos (XO XH)) h.h_type))
                  (Npos (XO (XO (XO (XO (XO (XO (XO (XO (XO (XO (XO (XO (XO
                  (XO (XO (XO XH)))))))))))))))))) l1) h
          in
          let l3 =
            if hl_is_tmp l
            then set (fun h0 -> h0.hl_tmp) (fun f ->
                   let h0 = fun r -> f r.hl_tmp in
                   (fun x0 -> { hl_pflags = x0.hl_pflags; hl_n = x0.hl_n;
                   hl_hdrs = x0.hl_hdrs; hl_first = x0.hl_first; hl_tmp =
                   (h0 x0) })) (fun _ -> hdr0) l2
            else l2
          in
          Next ((N.to_nat (N.sub n0 i)), { hs_l =
          (set (fun h0 -> h0.hl_n) (fun f ->
            let n1 = fun r -> f r.hl_n in
            (fun x0 -> { hl_pflags = x0.hl_pflags; hl_n = (n1 x0); hl_hdrs =
            x0.hl_hdrs; hl_first = x0.hl_first; hl_tmp = x0.hl_tmp }))
            (fun _ -> N.add l3.hl_n (Npos XH)) l3); hs_pv = x.hx_pv })
        | EEmpty ->
          if N.ltb N0 l1.hl_n
          then Ret (n0, EOk, st1)
          else Ret (n0, EEmpty, st1)
        | _ -> Ret (n0, e, st1))
     | _ -> IPanic)

(** val parse_headers : byte list -> n -> hdrs_st -> hdrs_st res **)

let parse_headers =
  parse hs_iter

(** val obs_hdr : hdr -> z list **)

let obs_hdr h =
  app ((n2z h.h_type) :: []) (app (obs_pf h.h_name) (obs_pf h.h_val))

(** val obs_opt_hdr : hdr option -> z list **)

let obs_opt_hdr = function
| Some h -> (Zpos XH) :: (obs_hdr h)
| None -> (Zneg XH) :: []

(** val all_hdr_types : n list **)

let all_hdr_types =
  N0 :: ((Npos XH) :: ((Npos (XO XH)) :: ((Npos (XI XH)) :: ((Npos (XO (XO
    XH))) :: ((Npos (XI (XO XH))) :: ((Npos (XO (XI XH))) :: ((Npos (XI (XI
    XH))) :: ((Npos (XO (XO (XO XH)))) :: ((Npos (XI (XO (XO XH)))) :: ((Npos
    (XO (XI (XO XH)))) :: ((Npos (XI (XI (XO XH)))) :: ((Npos (XO (XO (XI
    XH)))) :: ((Npos (XI (XO (XI XH)))) :: ((Npos (XO (XI (XI
    XH)))) :: ((Npos (XI (XI (XI XH)))) :: [])))))))))))))))

(** val obs_hdrlst : hdrlst -> z list **)

let obs_hdrlst l =
  app ((n2z l.hl_pflags) :: ((n2z l.hl_n) :: []))
    (app
      (flat_map obs_hdr
        (firstn (N.to_nat (N.min l.hl_n (hl_cap l))) l.hl_hdrs))
      (flat_map (fun t -> obs_opt_hdr (hl_gethdr l t)) all_hdr_types))

(** val obs_phvals : phvals -> z list **)

let obs_phvals v =
  app (obs_pfrom v.pv_from)
    (app (obs_pfrom v.pv_to)
      (app (obs_callid v.pv_callid)
        (app (obs_cseq v.pv_cseq)
          (app (obs_uint v.pv_clen)
            (app (obs_contacts v.pv_contacts)
              (app (obs_pais v.pv_pais)
                (app (obs_uint v.pv_expires)
                  (let (m, ok) = pv_max_expires v in
                   (n2z m) :: ((b2z ok) :: [])))))))))

(** val obs_opt_phvals : phvals option -> z list **)

let obs_opt_phvals = function
| Some v -> obs_phvals v
| None -> []

type mst =
| MInit
| MFLine
| MHeaders
| MBody
| MErr
| MNoCLen
| MFIN

type pmsg = { m_fl : fline; m_hs : hdrs_st; m_body : pf; m_buflen : n;
              m_raw : (n * n) option; m_state : mst; m_offs : n }

(** val msg_init : n -> hdr list -> pfrom list -> pmsg **)

let msg_init buflen hdrs cvals =
  { m_fl = fline0; m_hs = { hs_l = (hdrlst_init hdrs); hs_pv = (Some
    (phvals_init cvals)) }; m_body = pf0; m_buflen = buflen; m_raw = None;
    m_state = MInit; m_offs = N0 }

(** val msg_reset : pmsg -> pmsg **)

let msg_reset m =
  let l = m.m_hs.hs_l in
  let cv =
    match m.m_hs.hs_pv with
    | Some v -> v.pv_contacts.ct_vals
    | None -> []
  in
  msg_init m.m_buflen (map (fun _ -> hdr0) l.hl_hdrs)
    (map (fun _ -> pfrom0) cv)

(** val msg_parsed : pmsg -> bool **)

let msg_parsed m =
  match m.m_state with
  | MFIN -> true
  | _ -> false

(** val msg_err : pmsg -> bool **)

let msg_err m =
  match m.m_state with
  | MErr -> true
  | _ -> false

(** val msg_request : pmsg -> bool **)

let msg_request m =
  fl_request m.m_fl

(** val msg_pv : pmsg -> phvals **)

let msg_pv m =
  match m.m_hs.hs_pv with
  | Some v -> v
  | None -> phvals_init []

(** val msg_method : pmsg -> n **)

let msg_method m =
  if msg_request m then m.m_fl.fl_methodno else (msg_pv m).pv_cseq.cs_methodno

(** val msg_fail : n -> n -> err -> pmsg -> pmsg res **)

let msg_fail flags o e m =
  match e with
  | EMore ->
    if testbit0 flags bSIPMsgNoMoreData
    then Done (o, ETrunc,
           (set (fun p -> p.m_state) (fun f ->
             let m0 = fun r -> f r.m_state in
             (fun x -> { m_fl = x.m_fl; m_hs = x.m_hs; m_body = x.m_body;
             m_buflen = x.m_buflen; m_raw = x.m_raw; m_state = (m0 x);
             m_offs = x.m_offs })) (fun _ -> MErr) m))
    else Done (o, EMore, m)
  | _ ->
    Done (o, e,
      (set (fun p -> p.m_state) (fun f ->
        let m0 = fun r -> f r.m_state in
        (fun x -> { m_fl = x.m_fl; m_hs = x.m_hs; m_body = x.m_body;
        m_buflen = x.m_buflen; m_raw = x.m_raw; m_state = (m0 x); m_offs =
        x.m_offs })) (fun _ -> MErr) m))

(** val msg_end : n -> n -> pmsg -> pmsg res **)

let msg_end buflen o m =
  match pf_extend m.m_body o with
  | Some b ->
    if (||) (N.ltb buflen o) (N.ltb o m.m_offs)
    then Panic
    else Done (o, EOk,
           (set (fun p -> p.m_state) (fun f ->
             let m0 = fun r -> f r.m_state in
             (fun x -> { m_fl = x.m_fl; m_hs = x.m_hs; m_body = x.m_body;
             m_buflen = x.m_buflen; m_raw = x.m_raw; m_state = (m0 x);
             m_offs = x.m_offs })) (fun _ -> MFIN)
             (set (fun p -> p.m_raw) (fun f ->
               let o0 = fun r -> f r.m_raw in
               (fun x -> { m_fl = x.m_fl; m_hs = x.m_hs; m_body = x.m_body;
               m_buflen = x.m_buflen; m_raw = (o0 x); m_state = x.m_state;
               m_offs = x.m_offs })) (fun _ -> Some (m.m_offs,
               (N.sub o m.m_offs)))
               (set (fun p -> p.m_buflen) (fun f ->
                 let n0 = fun r -> f r.m_buflen in
                 (fun x -> { m_fl = x.m_fl; m_hs = x.m_hs; m_body = x.m_body;
                 m_buflen = (n0 x); m_raw = x.m_raw; m_state = x.m_state;
                 m_offs = x.m_offs })) (fun _ -> o)
                 (set (fun p -> p.m_body) (fun f ->
                   let p = fun r -> f r.m_body in
                   (fun x -> { m_fl = x.m_fl; m_hs = x.m_hs; m_body = 
                   (p x); m_buflen = x.m_buflen; m_raw = x.m_raw; m_state =
                   x.m_state; m_offs = x.m_offs })) (fun _ -> b) m)))))
  | None -> Panic

(** val msg_body : n -> n -> n -> pmsg -> pmsg res **)

let msg_body flags buflen o m =
  match pf_set o o with
  | Some b0 ->
    let m0 =
      set (fun p -> p.m_body) (fun f ->
        let p = fun r -> f r.m_body in
        (fun x -> { m_fl = x.m_fl; m_hs = x.m_hs; m_body = (p x); m_buflen =
        x.m_buflen; m_raw = x.m_raw; m_state = x.m_state; m_offs = x.m_offs }))
        (fun _ -> b0) m
    in
    let clen = (msg_pv m0).pv_clen in
    if testbit0 flags bSIPMsgSkipBody
    then if (&&) (testbit0 flags bSIPMsgCLenReq) (negb (ui_parsed clen))
         then if (||) (N.ltb buflen o) (N.ltb o m0.m_offs)
              then Panic
              else Done (o, ENoCLen,
                     (set (fun p -> p.m_raw) (fun f ->
                       let o0 = fun r -> f r.m_raw in
                       (fun x -> { m_fl = x.m_fl; m_hs = x.m_hs; m_body =
                       x.m_body; m_buflen = x.m_buflen; m_raw = (o0 x);
                       m_state = x.m_state; m_offs = x.m_offs })) (fun _ ->
                       Some (m0.m_offs, (N.sub o m0.m_offs)))
                       (set (fun p -> p.m_buflen) (fun f ->
                         let n0 = fun r -> f r.m_buflen in
                         (fun x -> { m_fl = x.m_fl; m_hs = x.m_hs; m_body =
                         x.m_body; m_buflen = (n0 x); m_raw = x.m_raw;
                         m_state = x.m_state; m_offs = x.m_offs })) (fun _ ->
                         o)
                         (set (fun p -> p.m_state) (fun f ->
                           let m1 = fun r -> f r.m_state in
                           (fun x -> { m_fl = x.m_fl; m_hs = x.m_hs; m_body =
                           x.m_body; m_buflen = x.m_buflen; m_raw = x.m_raw;
                           m_state = (m1 x); m_offs = x.m_offs })) (fun _ ->
                           MNoCLen) m0))))
         else msg_end buflen o
                (set (fun p -> p.m_state) (fun f ->
                  let m1 = fun r -> f r.m_state in
                  (fun x -> { m_fl = x.m_fl; m_hs = x.m_hs; m_body =
                  x.m_body; m_buflen = x.m_buflen; m_raw = x.m_raw; m_state =
                  (m1 x); m_offs = x.m_offs })) (fun _ -> MFIN) m0)
    else if ui_parsed clen
         then if N.ltb buflen (N.add o clen.ui_val)
              then if testbit0 flags bSIPMsgNoMoreData
                   then msg_end buflen buflen m0
                   else Done (o, EMore, m0)
              else msg_end buflen (N.add o clen.ui_val) m0
         else if testbit0 flags bSIPMsgCLenReq
              then msg_end buflen o m0
              else msg_end buflen buflen m0
  | None -> Panic

(** val msg_headers : n -> byte list -> n -> pmsg -> pmsg res **)

let msg_headers flags buf o m =
  match parse_headers buf o m.m_hs with
  | Done (o', e, hs) ->
    let m0 =
      set (fun p -> p.m_hs) (fun f ->
        let h = fun r -> f r.m_hs in
        (fun x -> { m_fl = x.m_fl; m_hs = (h x); m_body = x.m_body;
        m_buflen = x.m_buflen; m_raw = x.m_raw; m_state = x.m_state; m_offs =
        x.m_offs })) (fun _ -> hs) m
    in
    (match e with
     | EOk ->
       msg_body flags (nnat (length buf)) o'
         (set (fun p -> p.m_state) (fun f ->
           let m1 = fun r -> f r.m_state in
           (fun x -> { m_fl = x.m_fl; m_hs = x.m_hs; m_body = x.m_body;
           m_buflen = x.m_buflen; m_raw = x.m_raw; m_state = (m1 x); m_offs =
           x.m_offs })) (fun _ -> MBody) m0)
     | _ -> msg_fail flags o' e m0)
  | Panic -> Panic
  | Stuck -> Stuck

(** val msg_fline : n -> byte list -> n -> pmsg -> pmsg res **)

let msg_fline flags buf o m =
  match parse_fline buf o m.m_fl with
  | Done (o', e, fl) ->
    let m0 =
      set (fun p -> p.m_fl) (fun f ->
        let f0 = fun r -> f r.m_fl in
        (fun x -> { m_fl = (f0 x); m_hs = x.m_hs; m_body = x.m_body;
        m_buflen = x.m_buflen; m_raw = x.m_raw; m_state = x.m_state; m_offs =
        x.m_offs })) (fun _ -> fl) m
    in
    (match e with
     | EOk ->
       msg_headers flags buf o'
         (set (fun p -> p.m_state) (fun f ->
           let m1 = fun r -> f r.m_state in
           (fun x -> { m_fl = x.m_fl; m_hs = x.m_hs; m_body = x.m_body;
           m_buflen = x.m_buflen; m_raw = x.m_raw; m_state = (m1 x); m_offs =
           x.m_offs })) (fun _ -> MHeaders) m0)
     | _ -> msg_fail flags o' e m0)
  | Panic -> Panic
  | Stuck -> Stuck

(** val parse_sipmsg : n -> byte list -> n -> pmsg -> pmsg res **)

let parse_sipmsg flags buf offs m0 =
  let m =
    set (fun p -> p.m_buflen) (fun f ->
      let n0 = fun r -> f r.m_buflen in
      (fun x -> { m_fl = x.m_fl; m_hs = x.m_hs; m_body = x.m_body; m_buflen =
      (n0 x); m_raw = x.m_raw; m_state = x.m_state; m_offs = x.m_offs }))
      (fun _ -> nnat (length buf)) m0
  in
  (match m.m_state with
   | MInit ->
     msg_fline flags buf offs
       (set (fun p -> p.m_state) (fun f ->
         let m1 = fun r -> f r.m_state in
         (fun x -> { m_fl = x.m_fl; m_hs = x.m_hs; m_body = x.m_body;
         m_buflen = x.m_buflen; m_raw = x.m_raw; m_state = (m1 x); m_offs =
         x.m_offs })) (fun _ -> MFLine)
         (set (fun p -> p.m_offs) (fun f ->
           let n0 = fun r -> f r.m_offs in
           (fun x -> { m_fl = x.m_fl; m_hs = x.m_hs; m_body = x.m_body;
           m_buflen = x.m_buflen; m_raw = x.m_raw; m_state = x.m_state;
           m_offs = (n0 x) })) (fun _ -> offs) m))
   | MFLine -> msg_fline flags buf offs m
   | MHeaders -> msg_headers flags buf offs m
   | MBody -> msg_body flags (nnat (length buf)) offs m
   | _ -> msg_fail flags offs EBug m)

(** val obs_msg : pmsg -> z list **)

let obs_msg m =
  app (obs_fline m.m_fl)
    (app (obs_hdrlst m.m_hs.hs_l)
      (app (obs_phvals (msg_pv m))
        (app (obs_pf m.m_body)
          (app ((n2z m.m_buflen) :: [])
            (app
              (match m.m_raw with
               | Some p -> let (a, l) = p in (n2z a) :: ((n2z l) :: [])
               | None -> (Zneg XH) :: (Z0 :: []))
              ((b2z (msg_parsed m)) :: ((b2z (msg_err m)) :: ((b2z
                                                                (msg_request
                                                                  m)) :: (
              (n2z (msg_method m)) :: [])))))))))

type msgsig = { sg_method : n; sg_cidslen : n; sg_cidsig : n; sg_fromsig : 
                n; sg_viabsig : n; sg_hdrsig : n list }

(** val msgsig0 : msgsig **)

let msgsig0 =
  { sg_method = N0; sg_cidslen = N0; sg_cidsig = N0; sg_fromsig = N0;
    sg_viabsig = N0; sg_hdrsig = [] }

(** val hf_bit : n -> n **)

let hf_bit t =
  N.modulo (N.pow (Npos (XO XH)) t) (Npos (XO (XO (XO (XO (XO (XO (XO (XO (XO
    (XO (XO (XO (XO (XO (XO (XO XH)))))))))))))))))

(** val hf_test : n -> n -> bool **)

let hf_test f t =
  negb (N.eqb (N.coq_land f (hf_bit t)) N0)

(** val hf_set : n -> n -> n **)

let hf_set f t =
  N.coq_lor f (hf_bit t)

(** val hdr_sig_id : hdr -> n * err **)

let hdr_sig_id h =
  if N.leb (nnat (length go_hdr2SigId)) h.h_type
  then ((Npos (XI (XI (XI (XI (XI (XI (XI XH)))))))), EBug)
  else let s =
         nth (N.to_nat h.h_type) go_hdr2SigId (Npos (XI (XI (XI (XI (XI (XI
           (XI XH))))))))
       in
       if N.eqb s (Npos (XI (XI (XI (XI (XI (XI (XI XH))))))))
       then ((Npos (XI (XI (XI (XI (XI (XI (XI XH)))))))), EBad)
       else if N.eqb h.h_name.pl (Npos XH)
            then ((N.coq_lor go_HdrSigIdCMask s), EOk)
            else (s, EOk)

(** val sig_walk :
    (byte list -> n) -> byte list -> n -> hdr list -> n -> msgsig ->
    (msgsig * bool) option **)

let rec sig_walk viabr_sig buf pflags hs seen sig0 =
  match hs with
  | [] -> Some (sig0, false)
  | h :: hs' ->
    if hf_test seen h.h_type
    then sig_walk viabr_sig buf pflags hs' seen sig0
    else let seen0 = hf_set seen h.h_type in
         if N.eqb h.h_type hdrVia
         then (match bget buf h.h_val with
               | Some v ->
                 let sig1 =
                   set (fun m -> m.sg_viabsig) (fun f ->
                     let n0 = fun r -> f r.sg_viabsig in
                     (fun x -> { sg_method = x.sg_method; sg_cidslen =
                     x.sg_cidslen; sg_cidsig = x.sg_cidsig; sg_fromsig =
                     x.sg_fromsig; sg_viabsig = (n0 x); sg_hdrsig =
                     x.sg_hdrsig })) (fun _ -> viabr_sig v) sig0
                 in
                 let (s, e) = hdr_sig_id h in
                 let add0 =
                   (&&) (err_eqb e EOk)
                     ((||) (negb (N.eqb h.h_type hdrContact))
                       (N.eqb sig1.sg_method mInvite))
                 in
                 let sig2 =
                   if add0
                   then set (fun m -> m.sg_hdrsig) (fun f ->
                          let l = fun r -> f r.sg_hdrsig in
                          (fun x -> { sg_method = x.sg_method; sg_cidslen =
                          x.sg_cidslen; sg_cidsig = x.sg_cidsig; sg_fromsig =
                          x.sg_fromsig; sg_viabsig = x.sg_viabsig;
                          sg_hdrsig = (l x) })) (fun _ ->
                          app sig1.sg_hdrsig (s :: [])) sig1
                   else sig1
                 in
                 if (&&) add0
                      (N.leb go_NoSigHdrs (nnat (length sig2.sg_hdrsig)))
                 then Some (sig2, true)
                 else if N.eqb (N.coq_land pflags go_sigHdrsFlags) seen0
                      then Some (sig2, true)
                      else sig_walk viabr_sig buf pflags hs' seen0 sig2
               | None -> None)
         else let (s, e) = hdr_sig_id h in
              let add0 =
                (&&) (err_eqb e EOk)
                  ((||) (negb (N.eqb h.h_type hdrContact))
                    (N.eqb sig0.sg_method mInvite))
              in
              let sig1 =
                if add0
                then set (fun m -> m.sg_hdrsig) (fun f ->
                       let l = fun r -> f r.sg_hdrsig in
                       (fun x -> { sg_method = x.sg_method; sg_cidslen =
                       x.sg_cidslen; sg_cidsig = x.sg_cidsig; sg_fromsig =
                       x.sg_fromsig; sg_viabsig = x.sg_viabsig; sg_hdrsig =
                       (l x) })) (fun _ -> app sig0.sg_hdrsig (s :: [])) sig0
                else sig0
              in
              if (&&) add0 (N.leb go_NoSigHdrs (nnat (length sig1.sg_hdrsig)))
              then Some (sig1, true)
              else if N.eqb (N.coq_land pflags go_sigHdrsFlags) seen0
                   then Some (sig1, true)
                   else sig_walk viabr_sig buf pflags hs' seen0 sig1

(** val get_msg_sig :
    (byte list -> n * n) -> (byte list -> n) -> (byte list -> n) -> pmsg ->
    byte list -> (msgsig * err) option **)

let get_msg_sig callid_sig str_sig viabr_sig m buf =
  if negb (msg_request m)
  then Some (msgsig0, EEmpty)
  else let v = msg_pv m in
       (match bget buf v.pv_callid.ci_callid with
        | Some cid ->
          (match bget buf v.pv_from.fb_tag with
           | Some tag ->
             let (cs, cl) = callid_sig cid in
             let sig0 = { sg_method = m.m_fl.fl_methodno; sg_cidslen = cl;
               sg_cidsig = cs; sg_fromsig = (str_sig tag); sg_viabsig = N0;
               sg_hdrsig = [] }
             in
             let l = m.m_hs.hs_l in
             (match sig_walk viabr_sig buf l.hl_pflags l.hl_hdrs N0 sig0 with
              | Some p ->
                let (sig1, b) = p in
                if b
                then Some (sig1, EOk)
                else if N.ltb (hl_cap l) l.hl_n
                     then Some (sig1, ETrunc)
                     else Some (sig1, EOk)
              | None -> None)
           | None -> None)
        | None -> None)

(** val hexdig : n -> byte **)

let hexdig d =
  if N.ltb d (Npos (XO (XI (XO XH))))
  then N.add (Npos (XO (XO (XO (XO (XI XH)))))) d
  else N.add (Npos (XI (XI (XI (XO (XI (XO XH))))))) d

(** val hex4 : n -> byte list **)

let hex4 v =
  (hexdig
    (N.coq_land (N.shiftr v (Npos (XO (XO (XI XH))))) (Npos (XI (XI (XI
      XH)))))) :: ((hexdig
                     (N.coq_land (N.shiftr v (Npos (XO (XO (XO XH))))) (Npos
                       (XI (XI (XI XH)))))) :: ((hexdig
                                                  (N.coq_land
                                                    (N.shiftr v (Npos (XO (XO
                                                      XH)))) (Npos (XI (XI
                                                    (XI XH)))))) :: (
    (hexdig (N.coq_land v (Npos (XI (XI (XI XH)))))) :: [])))

(** val sig_string : msgsig -> byte list **)

let sig_string s =
  if (&&) (N.eqb s.sg_method mUndef) (Nat.eqb (length s.sg_hdrsig) O)
  then []
  else app
         (if N.leb (Npos (XO (XO (XO (XO XH))))) s.sg_method
          then (Npos (XI (XO (XI (XO (XO (XO XH))))))) :: []
          else [])
         (app
           ((hexdig (N.coq_land s.sg_method (Npos (XI (XI (XI XH)))))) :: [])
           (app
             (flat_map (fun h ->
               app
                 (if N.leb (Npos (XO (XO (XO (XO XH))))) h
                  then (Npos (XI (XO (XI (XO (XO (XO XH))))))) :: []
                  else [])
                 ((hexdig (N.coq_land h (Npos (XI (XI (XI XH)))))) :: []))
               s.sg_hdrsig)
             (app ((Npos (XI (XO (XO (XI (XO (XO XH))))))) :: [])
               (app (hex4 s.sg_cidsig)
                 (app
                   ((hexdig
                      (N.coq_land (N.shiftr s.sg_cidslen (Npos (XO (XO XH))))
                        (Npos (XI (XI (XI XH)))))) :: ((hexdig
                                                         (N.coq_land
                                                           s.sg_cidslen (Npos
                                                           (XI (XI (XI XH)))))) :: []))
                   (app ((Npos (XO (XI (XI (XO (XO (XO XH))))))) :: [])
                     (app (hex4 s.sg_fromsig)
                       (app ((Npos (XO (XI (XI (XO (XI (XO XH))))))) :: [])
                         (hex4 s.sg_viabsig)))))))))

(** val obs_msgsig : (msgsig * err) option -> z list **)

let obs_msgsig = function
| Some p ->
  let (s, e) = p in
  app
    ((n2z (err_code e)) :: ((n2z s.sg_method) :: ((n2z s.sg_cidslen) :: (
    (n2z s.sg_cidsig) :: ((n2z s.sg_fromsig) :: ((n2z s.sg_viabsig) :: (
    (Z.of_nat (length s.sg_hdrsig)) :: []))))))) (map n2z s.sg_hdrsig)
| None -> (Zneg (XI (XI (XI (XO (XO (XI (XI (XI (XI XH)))))))))) :: []

(** val sigIPStartF : n **)

let sigIPStartF =
  Npos XH

(** val sigIPEndF : n **)

let sigIPEndF =
  Npos (XO XH)

(** val sigIPMiddleF : n **)

let sigIPMiddleF =
  Npos (XO (XO XH))

(** val sigHexEncF : n **)

let sigHexEncF =
  Npos (XO (XO (XO (XO (XO (XO (XO (XO (XO (XO (XO (XO (XO XH)))))))))))))

(** val sigB64EncF : n **)

let sigB64EncF =
  Npos (XO (XO (XO (XO (XO (XO (XO (XO (XO (XO (XO (XO (XO (XO
    XH))))))))))))))

(** val sigDigBlocksF : n **)

let sigDigBlocksF =
  Npos (XO (XO (XO (XO (XO (XO (XO (XO (XO (XO (XO (XO (XO (XO (XO
    XH)))))))))))))))

(** val res_flag : byte -> n **)

let res_flag c =
  if N.eqb c (Npos (XO (XO (XO (XO (XO (XO XH)))))))
  then Npos (XO (XO (XO XH)))
  else if N.eqb c (Npos (XO (XI (XI (XI (XO XH))))))
       then Npos (XO (XO (XO (XO XH))))
       else if N.eqb c (Npos (XO (XI (XO (XI (XI XH))))))
            then Npos (XO (XO (XO (XO (XO XH)))))
            else if N.eqb c (Npos (XI (XO (XI (XI (XO XH))))))
                 then Npos (XO (XO (XO (XO (XO (XO XH))))))
                 else if N.eqb c (Npos (XI (XI (XI (XI (XI (XO XH)))))))
                      then Npos (XO (XO (XO (XO (XO (XO (XO (XO (XO (XO (XO
                             XH)))))))))))
                      else if N.eqb c (Npos (XO (XI (XO (XI (XO XH))))))
                           then Npos (XO (XO (XO (XO (XO (XO (XO XH)))))))
                           else if N.eqb c (Npos (XI (XI (XO (XI (XO XH))))))
                                then Npos (XO (XO (XO (XO (XO (XO (XO (XO (XO
                                       XH)))))))))
                                else if N.eqb c (Npos (XI (XI (XI (XI (XO
                                          XH))))))
                                     then Npos (XO (XO (XO (XO (XO (XO (XO
                                            (XO XH))))))))
                                     else if N.eqb c (Npos (XI (XO (XI (XI
                                               (XI XH))))))
                                          then Npos (XO (XO (XO (XO (XO (XO
                                                 (XO (XO (XO (XO XH))))))))))
                                          else if N.eqb c (Npos (XO (XO (XI
                                                    (XI (XI (XI XH)))))))
                                               then Npos (XO (XO (XO (XO (XO
                                                      (XO (XO (XO (XO (XO (XO
                                                      (XO XH))))))))))))
                                               else N0

type scs = { c_sig : n; c_sep : n; c_sepno : n; c_hexm : n; c_hexc : 
             n; c_hexb : n; c_b64 : bool; c_hex : bool; c_dec : bool;
             c_lo : bool; c_up : bool; c_skip : n }

(** val scs0 : scs **)

let scs0 =
  { c_sig = N0; c_sep = N0; c_sepno = N0; c_hexm = N0; c_hexc = N0; c_hexb =
    N0; c_b64 = true; c_hex = true; c_dec = true; c_lo = false; c_up = false;
    c_skip = N0 }

(** val close_block : scs -> scs **)

let close_block st =
  if N.ltb N0 st.c_hexc
  then set (fun s -> s.c_hexc) (fun f ->
         let n0 = fun r -> f r.c_hexc in
         (fun x -> { c_sig = x.c_sig; c_sep = x.c_sep; c_sepno = x.c_sepno;
         c_hexm = x.c_hexm; c_hexc = (n0 x); c_hexb = x.c_hexb; c_b64 =
         x.c_b64; c_hex = x.c_hex; c_dec = x.c_dec; c_lo = x.c_lo; c_up =
         x.c_up; c_skip = x.c_skip })) (fun _ -> N0)
         (set (fun s -> s.c_hexm) (fun f ->
           let n0 = fun r -> f r.c_hexm in
           (fun x -> { c_sig = x.c_sig; c_sep = x.c_sep; c_sepno = x.c_sepno;
           c_hexm = (n0 x); c_hexc = x.c_hexc; c_hexb = x.c_hexb; c_b64 =
           x.c_b64; c_hex = x.c_hex; c_dec = x.c_dec; c_lo = x.c_lo; c_up =
           x.c_up; c_skip = x.c_skip })) (fun _ -> N.max st.c_hexm st.c_hexc)
           (set (fun s -> s.c_hexb) (fun f ->
             let n0 = fun r -> f r.c_hexb in
             (fun x -> { c_sig = x.c_sig; c_sep = x.c_sep; c_sepno =
             x.c_sepno; c_hexm = x.c_hexm; c_hexc = x.c_hexc; c_hexb =
             (n0 x); c_b64 = x.c_b64; c_hex = x.c_hex; c_dec = x.c_dec;
             c_lo = x.c_lo; c_up = x.c_up; c_skip = x.c_skip })) (fun _ ->
             N.add st.c_hexb (Npos XH)) st))
  else st

(** val is_hexl : byte -> bool **)

let is_hexl c =
  (||)
    ((&&) (N.leb (Npos (XI (XO (XO (XO (XO (XO XH))))))) c)
      (N.leb c (Npos (XO (XI (XI (XO (XO (XO XH)))))))))
    ((&&) (N.leb (Npos (XI (XO (XO (XO (XO (XI XH))))))) c)
      (N.leb c (Npos (XO (XI (XI (XO (XO (XI XH)))))))))

(** val b64r : byte -> bool **)

let b64r c =
  (||)
    ((&&) (N.leb (Npos (XI (XO (XI (XO (XO (XO XH))))))) c)
      (N.leb c (Npos (XO (XI (XO (XI (XI (XO XH)))))))))
    ((&&) (N.leb (Npos (XI (XO (XI (XO (XO (XI XH))))))) c)
      (N.leb c (Npos (XO (XI (XO (XI (XI (XI XH)))))))))

(** val scs_step : n -> n -> n -> n -> byte -> bool -> scs -> scs **)

let scs_step n0 so sl i c nxeq st =
  if (&&) (N.leb so i) (N.ltb i (N.add so sl))
  then st
  else let st0 = if N.eqb i (N.add so sl) then close_block st else st in
       let f = res_flag c in
       if negb (N.eqb f N0)
       then let st1 =
              set (fun s -> s.c_sig) (fun f0 ->
                let n1 = fun r -> f0 r.c_sig in
                (fun x -> { c_sig = (n1 x); c_sep = x.c_sep; c_sepno =
                x.c_sepno; c_hexm = x.c_hexm; c_hexc = x.c_hexc; c_hexb =
                x.c_hexb; c_b64 = x.c_b64; c_hex = x.c_hex; c_dec = x.c_dec;
                c_lo = x.c_lo; c_up = x.c_up; c_skip = x.c_skip })) (fun _ ->
                N.coq_lor st0.c_sig f) st0
            in
            if (||) (N.eqb sl N0)
                 ((&&) (negb (N.eqb i (N.add so sl)))
                   (negb ((&&) (N.ltb N0 so) (N.eqb i (N.sub so (Npos XH))))))
            then let b64 =
                   if (&&) st1.c_b64
                        (negb
                          ((||)
                            ((||)
                              (N.eqb c (Npos (XI (XI (XO (XI (XO XH)))))))
                              (N.eqb c (Npos (XI (XI (XI (XI (XO XH))))))))
                            (N.eqb c (Npos (XI (XO (XI (XI (XI XH)))))))))
                   then false
                   else if (&&) st1.c_b64
                             (N.eqb c (Npos (XI (XO (XI (XI (XI XH)))))))
                        then (||) (N.eqb i (N.sub n0 (Npos XH)))
                               ((&&)
                                 ((&&) (N.leb (Npos (XO XH)) n0)
                                   (N.eqb i (N.sub n0 (Npos (XO XH))))) nxeq)
                        else st1.c_b64
                 in
                 let st2 =
                   set (fun s -> s.c_b64) (fun f0 ->
                     let b = fun r -> f0 r.c_b64 in
                     (fun x -> { c_sig = x.c_sig; c_sep = x.c_sep; c_sepno =
                     x.c_sepno; c_hexm = x.c_hexm; c_hexc = x.c_hexc;
                     c_hexb = x.c_hexb; c_b64 = (b x); c_hex = x.c_hex;
                     c_dec = x.c_dec; c_lo = x.c_lo; c_up = x.c_up; c_skip =
                     x.c_skip })) (fun _ -> b64) st1
                 in
                 let st3 =
                   if N.eqb st2.c_sep N0
                   then set (fun s -> s.c_sepno) (fun f0 ->
                          let n1 = fun r -> f0 r.c_sepno in
                          (fun x -> { c_sig = x.c_sig; c_sep = x.c_sep;
                          c_sepno = (n1 x); c_hexm = x.c_hexm; c_hexc =
                          x.c_hexc; c_hexb = x.c_hexb; c_b64 = x.c_b64;
                          c_hex = x.c_hex; c_dec = x.c_dec; c_lo = x.c_lo;
                          c_up = x.c_up; c_skip = x.c_skip })) (fun _ ->
                          N.add st2.c_sepno (Npos XH))
                          (set (fun s -> s.c_sep) (fun f0 ->
                            let n1 = fun r -> f0 r.c_sep in
                            (fun x -> { c_sig = x.c_sig; c_sep = (n1 x);
                            c_sepno = x.c_sepno; c_hexm = x.c_hexm; c_hexc =
                            x.c_hexc; c_hexb = x.c_hexb; c_b64 = x.c_b64;
                            c_hex = x.c_hex; c_dec = x.c_dec; c_lo = x.c_lo;
                            c_up = x.c_up; c_skip = x.c_skip })) (fun _ -> c)
                            st2)
                   else if N.eqb st2.c_sep c
                        then set (fun s -> s.c_sepno) (fun f0 ->
                               let n1 = fun r -> f0 r.c_sepno in
                               (fun x -> { c_sig = x.c_sig; c_sep = x.c_sep;
                               c_sepno = (n1 x); c_hexm = x.c_hexm; c_hexc =
                               x.c_hexc; c_hexb = x.c_hexb; c_b64 = x.c_b64;
                               c_hex = x.c_hex; c_dec = x.c_dec; c_lo =
                               x.c_lo; c_up = x.c_up; c_skip = x.c_skip }))
                               (fun _ -> N.add st2.c_sepno (Npos XH)) st2
                        else st2
                 in
                 let st4 =
                   if (&&) (N.ltb N0 i) (negb (N.eqb st3.c_sep c))
                   then set (fun s -> s.c_hex) (fun f0 ->
                          let b = fun r -> f0 r.c_hex in
                          (fun x -> { c_sig = x.c_sig; c_sep = x.c_sep;
                          c_sepno = x.c_sepno; c_hexm = x.c_hexm; c_hexc =
                          x.c_hexc; c_hexb = x.c_hexb; c_b64 = x.c_b64;
                          c_hex = (b x); c_dec = x.c_dec; c_lo = x.c_lo;
                          c_up = x.c_up; c_skip = x.c_skip })) (fun _ ->
                          false)
                          (set (fun s -> s.c_dec) (fun f0 ->
                            let b = fun r -> f0 r.c_dec in
                            (fun x -> { c_sig = x.c_sig; c_sep = x.c_sep;
                            c_sepno = x.c_sepno; c_hexm = x.c_hexm; c_hexc =
                            x.c_hexc; c_hexb = x.c_hexb; c_b64 = x.c_b64;
                            c_hex = x.c_hex; c_dec = (b x); c_lo = x.c_lo;
                            c_up = x.c_up; c_skip = x.c_skip })) (fun _ ->
                            false) st3)
                   else st3
                 in
                 close_block st4
            else let st2 =
                   if N.eqb i (N.add so sl) then close_block st1 else st1
                 in
                 set (fun s -> s.c_skip) (fun f0 ->
                   let n1 = fun r -> f0 r.c_skip in
                   (fun x -> { c_sig = x.c_sig; c_sep = x.c_sep; c_sepno =
                   x.c_sepno; c_hexm = x.c_hexm; c_hexc = x.c_hexc; c_hexb =
                   x.c_hexb; c_b64 = x.c_b64; c_hex = x.c_hex; c_dec =
                   x.c_dec; c_lo = x.c_lo; c_up = x.c_up; c_skip = (n1 x) }))
                   (fun _ -> N.add st2.c_skip (Npos XH)) st2
       else if negb (is_digit c)
            then let st1 =
                   set (fun s -> s.c_dec) (fun f0 ->
                     let b = fun r -> f0 r.c_dec in
                     (fun x -> { c_sig = x.c_sig; c_sep = x.c_sep; c_sepno =
                     x.c_sepno; c_hexm = x.c_hexm; c_hexc = x.c_hexc;
                     c_hexb = x.c_hexb; c_b64 = x.c_b64; c_hex = x.c_hex;
                     c_dec = (b x); c_lo = x.c_lo; c_up = x.c_up; c_skip =
                     x.c_skip })) (fun _ -> false) st0
                 in
                 let st2 =
                   if negb (is_hexl c)
                   then let st2 =
                          set (fun s -> s.c_hex) (fun f0 ->
                            let b = fun r -> f0 r.c_hex in
                            (fun x -> { c_sig = x.c_sig; c_sep = x.c_sep;
                            c_sepno = x.c_sepno; c_hexm = x.c_hexm; c_hexc =
                            x.c_hexc; c_hexb = x.c_hexb; c_b64 = x.c_b64;
                            c_hex = (b x); c_dec = x.c_dec; c_lo = x.c_lo;
                            c_up = x.c_up; c_skip = x.c_skip })) (fun _ ->
                            false) st1
                        in
                        if negb (b64r c)
                        then set (fun s -> s.c_b64) (fun f0 ->
                               let b = fun r -> f0 r.c_b64 in
                               (fun x -> { c_sig = x.c_sig; c_sep = x.c_sep;
                               c_sepno = x.c_sepno; c_hexm = x.c_hexm;
                               c_hexc = x.c_hexc; c_hexb = x.c_hexb; c_b64 =
                               (b x); c_hex = x.c_hex; c_dec = x.c_dec;
                               c_lo = x.c_lo; c_up = x.c_up; c_skip =
                               x.c_skip })) (fun _ -> false) st2
                        else st2
                   else set (fun s -> s.c_hexc) (fun f0 ->
                          let n1 = fun r -> f0 r.c_hexc in
                          (fun x -> { c_sig = x.c_sig; c_sep = x.c_sep;
                          c_sepno = x.c_sepno; c_hexm = x.c_hexm; c_hexc =
                          (n1 x); c_hexb = x.c_hexb; c_b64 = x.c_b64; c_hex =
                          x.c_hex; c_dec = x.c_dec; c_lo = x.c_lo; c_up =
                          x.c_up; c_skip = x.c_skip })) (fun _ ->
                          N.add st1.c_hexc (Npos XH)) st1
                 in
                 if is_lower c
                 then set (fun s -> s.c_lo) (fun f0 ->
                        let b = fun r -> f0 r.c_lo in
                        (fun x -> { c_sig = x.c_sig; c_sep = x.c_sep;
                        c_sepno = x.c_sepno; c_hexm = x.c_hexm; c_hexc =
                        x.c_hexc; c_hexb = x.c_hexb; c_b64 = x.c_b64; c_hex =
                        x.c_hex; c_dec = x.c_dec; c_lo = (b x); c_up =
                        x.c_up; c_skip = x.c_skip })) (fun _ -> true) st2
                 else if is_upper c
                      then set (fun s -> s.c_up) (fun f0 ->
                             let b = fun r -> f0 r.c_up in
                             (fun x -> { c_sig = x.c_sig; c_sep = x.c_sep;
                             c_sepno = x.c_sepno; c_hexm = x.c_hexm; c_hexc =
                             x.c_hexc; c_hexb = x.c_hexb; c_b64 = x.c_b64;
                             c_hex = x.c_hex; c_dec = x.c_dec; c_lo = x.c_lo;
                             c_up = (b x); c_skip = x.c_skip })) (fun _ ->
                             true) st2
                      else st2
            else set (fun s -> s.c_hexc) (fun f0 ->
                   let n1 = fun r -> f0 r.c_hexc in
                   (fun x -> { c_sig = x.c_sig; c_sep = x.c_sep; c_sepno =
                   x.c_sepno; c_hexm = x.c_hexm; c_hexc = (n1 x); c_hexb =
                   x.c_hexb; c_b64 = x.c_b64; c_hex = x.c_hex; c_dec =
                   x.c_dec; c_lo = x.c_lo; c_up = x.c_up; c_skip = x.c_skip }))
                   (fun _ -> N.add st0.c_hexc (Npos XH)) st0

(** val scs_loop : n -> n -> n -> n -> byte list -> scs -> scs **)

let rec scs_loop n0 so sl i s st =
  match s with
  | [] -> st
  | c :: s' ->
    scs_loop n0 so sl (N.add i (Npos XH)) s'
      (scs_step n0 so sl i c
        (match s' with
         | [] -> false
         | d :: _ -> N.eqb d (Npos (XI (XO (XI (XI (XI XH))))))) st)

(** val str_chars_sig : byte list -> n -> n -> n * n **)

let str_chars_sig s so sl =
  let n0 = nnat (length s) in
  let st = close_block (scs_loop n0 so sl N0 s scs0) in
  let l = N.sub (N.sub (N.sub n0 sl) st.c_skip) st.c_sepno in
  let sig0 =
    if N.leb (Npos (XO (XO (XO XH)))) l
    then if (&&)
              ((&&) ((||) st.c_dec st.c_hex)
                ((||)
                  ((||) (N.eqb st.c_sep N0)
                    (N.leb (Npos (XO (XO (XO XH)))) st.c_hexm))
                  ((&&) (N.ltb N0 st.c_hexm)
                    (N.leb (Npos (XO (XO XH))) st.c_hexb))))
              (negb ((&&) st.c_lo st.c_up))
         then N.coq_lor (N.coq_lor st.c_sig sigHexEncF)
                (if N.eqb st.c_sep N0 then N0 else sigDigBlocksF)
         else if (&&) st.c_b64 (N.eqb (N.modulo l (Npos (XO (XO XH)))) N0)
              then N.coq_lor st.c_sig sigB64EncF
              else st.c_sig
    else st.c_sig
  in
  (sig0, st.c_skip)

(** val str_sig0 : byte list -> n **)

let str_sig0 s =
  fst (str_chars_sig s N0 N0)

(** val callid_sig_at : bool -> n -> n -> byte list -> n * n **)

let callid_sig_at has io il cid =
  let n0 = nnat (length cid) in
  let sig0 =
    if has
    then if N.eqb io N0
         then sigIPStartF
         else if N.eqb (N.add io il) n0 then sigIPEndF else sigIPMiddleF
    else N0
  in
  let (s, sk) = str_chars_sig cid io il in
  let clen =
    N.div (N.add (N.sub (N.sub n0 il) sk) (Npos (XI XH))) (Npos (XO (XO XH)))
  in
  ((N.coq_lor sig0 s),
  (if N.ltb (Npos (XI (XI (XI (XI (XI (XI (XI XH)))))))) clen
   then Npos (XI (XI (XI (XI (XI (XI (XI XH)))))))
   else clen))

(** val str_branch : byte list **)

let str_branch =
  (Npos (XO (XI (XO (XO (XO (XI XH))))))) :: ((Npos (XO (XI (XO (XO (XI (XI
    XH))))))) :: ((Npos (XI (XO (XO (XO (XO (XI XH))))))) :: ((Npos (XO (XI
    (XI (XI (XO (XI XH))))))) :: ((Npos (XI (XI (XO (XO (XO (XI
    XH))))))) :: ((Npos (XO (XO (XO (XI (XO (XI XH))))))) :: [])))))

(** val str_brprefix : byte list **)

let str_brprefix =
  (Npos (XO (XI (XO (XI (XI (XI XH))))))) :: ((Npos (XI (XO (XO (XI (XI
    XH)))))) :: ((Npos (XO (XO (XO (XI (XO (XI XH))))))) :: ((Npos (XI (XI
    (XI (XO (XO (XO XH))))))) :: ((Npos (XO (XO (XI (XO (XI
    XH)))))) :: ((Npos (XO (XI (XO (XO (XO (XI XH))))))) :: ((Npos (XI (XI
    (XO (XI (XO (XO XH))))))) :: []))))))

(** val viabr_flags : n **)

let viabr_flags =
  Npos (XI (XO (XO (XI XH))))

(** val index_of : byte -> byte list -> n -> n option **)

let rec index_of c s i =
  match s with
  | [] -> None
  | d :: s' -> if N.eqb d c then Some i else index_of c s' (N.add i (Npos XH))

(** val viabr_loop : nat -> byte list -> n -> (n * n) option **)

let rec viabr_loop fuel viab offs =
  match fuel with
  | O -> Some (N0, N0)
  | S fuel' ->
    (match parse_tokparam viabr_flags viab offs tokparam0 with
     | Done (next, e, p) ->
       (match e with
        | EOk ->
          let isbr =
            (&&) (N.eqb p.tp_name.pl (Npos (XO (XI XH))))
              (match bget viab p.tp_name with
               | Some nm -> eqb_nocase nm str_branch
               | None -> false)
          in
          if (&&) (N.eqb p.tp_name.pl (Npos (XO (XI XH))))
               (match bget viab p.tp_name with
                | Some _ -> false
                | None -> true)
          then None
          else if isbr
               then if N.ltb N0 p.tp_val.pl
                    then (match bget viab p.tp_val with
                          | Some val0 ->
                            if (&&)
                                 (N.ltb (Npos (XI (XI XH)))
                                   (nnat (length val0)))
                                 (eqb_nocase
                                   (firstn (S (S (S (S (S (S (S O))))))) val0)
                                   str_brprefix)
                            then Some
                                   ((str_sig0
                                      (skipn (S (S (S (S (S (S (S O)))))))
                                        val0)),
                                   (N.sub (nnat (length val0)) (Npos (XI (XI
                                     XH)))))
                            else Some ((str_sig0 val0), (nnat (length val0)))
                          | None -> None)
                    else Some (N0, N0)
               else (match e with
                     | EMoreValues -> viabr_loop fuel' viab next
                     | _ -> Some (N0, N0))
        | EEOH ->
          let isbr =
            (&&) (N.eqb p.tp_name.pl (Npos (XO (XI XH))))
              (match bget viab p.tp_name with
               | Some nm -> eqb_nocase nm str_branch
               | None -> false)
          in
          if (&&) (N.eqb p.tp_name.pl (Npos (XO (XI XH))))
               (match bget viab p.tp_name with
                | Some _ -> false
                | None -> true)
          then None
          else if isbr
               then if N.ltb N0 p.tp_val.pl
                    then (match bget viab p.tp_val with
                          | Some val0 ->
                            if (&&)
                                 (N.ltb (Npos (XI (XI XH)))
                                   (nnat (length val0)))
                                 (eqb_nocase
                                   (firstn (S (S (S (S (S (S (S O))))))) val0)
                                   str_brprefix)
                            then Some
                                   ((str_sig0
                                      (skipn (S (S (S (S (S (S (S O)))))))
                                        val0)),
                                   (N.sub (nnat (length val0)) (Npos (XI (XI
                                     XH)))))
                            else Some ((str_sig0 val0), (nnat (length val0)))
                          | None -> None)
                    else Some (N0, N0)
               else (match e with
                     | EMoreValues -> viabr_loop fuel' viab next
                     | _ -> Some (N0, N0))
        | EMoreValues ->
          let isbr =
            (&&) (N.eqb p.tp_name.pl (Npos (XO (XI XH))))
              (match bget viab p.tp_name with
               | Some nm -> eqb_nocase nm str_branch
               | None -> false)
          in
          if (&&) (N.eqb p.tp_name.pl (Npos (XO (XI XH))))
               (match bget viab p.tp_name with
                | Some _ -> false
                | None -> true)
          then None
          else if isbr
               then if N.ltb N0 p.tp_val.pl
                    then (match bget viab p.tp_val with
                          | Some val0 ->
                            if (&&)
                                 (N.ltb (Npos (XI (XI XH)))
                                   (nnat (length val0)))
                                 (eqb_nocase
                                   (firstn (S (S (S (S (S (S (S O))))))) val0)
                                   str_brprefix)
                            then Some
                                   ((str_sig0
                                      (skipn (S (S (S (S (S (S (S O)))))))
                                        val0)),
                                   (N.sub (nnat (length val0)) (Npos (XI (XI
                                     XH)))))
                            else Some ((str_sig0 val0), (nnat (length val0)))
                          | None -> None)
                    else Some (N0, N0)
               else (match e with
                     | EMoreValues -> viabr_loop fuel' viab next
                     | _ -> Some (N0, N0))
        | _ -> Some (N0, N0))
     | _ -> None)

(** val viabr_sig_len : byte list -> (n * n) option **)

let viabr_sig_len viab =
  match index_of (Npos (XI (XI (XO (XI (XI XH)))))) viab N0 with
  | Some o -> viabr_loop (S (length viab)) viab (N.add o (Npos XH))
  | None -> Some (N0, N0)

(** val viabr_sig0 : byte list -> n **)

let viabr_sig0 viab =
  match viabr_sig_len viab with
  | Some p -> let (s, _) = p in s
  | None -> N0

type 's obj = { ob_parse : (n -> byte list -> n -> 's -> 's res);
                ob_reset : ('s -> 's); ob_obs : ('s -> z list) }

type op =
| OpParse of n * byte list * n * nat list
| OpReset

(** val zPANIC : z **)

let zPANIC =
  Zneg (XI (XI (XI (XO (XO (XI (XI (XI (XI XH)))))))))

(** val zSTUCK : z **)

let zSTUCK =
  Zneg (XO (XI (XI (XO (XO (XI (XI (XI (XI XH)))))))))

(** val calls :
    (byte list -> n -> 'a1 -> 'a1 res) -> byte list -> nat list -> n -> 'a1
    -> z list * 'a1 option **)

let rec calls p b cuts o s =
  match cuts with
  | [] ->
    (match p b o s with
     | Done (o', e, s') ->
       (((n2z o') :: ((n2z (err_code e)) :: [])), (Some s'))
     | Panic -> ((zPANIC :: []), None)
     | Stuck -> ((zSTUCK :: []), None))
  | c :: cs ->
    (match p (firstn c b) o s with
     | Done (o', e, s') ->
       (match e with
        | EMore ->
          let (t, r) = calls p b cs o' s' in
          (((n2z o') :: ((n2z (err_code EMore)) :: t)), r)
        | _ -> (((n2z o') :: ((n2z (err_code e)) :: [])), (Some s')))
     | Panic -> ((zPANIC :: []), None)
     | Stuck -> ((zSTUCK :: []), None))

(** val run_ops : 'a1 obj -> op list -> 'a1 -> z list **)

let rec run_ops o ops s =
  match ops with
  | [] -> []
  | o0 :: ops' ->
    (match o0 with
     | OpParse (flags, buf, offs, cuts) ->
       let (t, o1) = calls (o.ob_parse flags) buf cuts offs s in
       (match o1 with
        | Some s' -> app t (app (o.ob_obs s') (run_ops o ops' s'))
        | None -> t)
     | OpReset ->
       let s' = o.ob_reset s in app (o.ob_obs s') (run_ops o ops' s'))

(** val cap_of : nat -> z -> nat **)

let cap_of dflt c =
  if Z.ltb c Z0 then dflt else Z.to_nat c

(** val nthz : z list -> nat -> z **)

let nthz l n0 =
  nth n0 l Z0

(** val obj_fline : fline obj **)

let obj_fline =
  { ob_parse = (fun _ -> parse_fline); ob_reset = (fun _ -> fline0); ob_obs =
    obs_fline }

(** val obj_callid : callid obj **)

let obj_callid =
  { ob_parse = (fun _ -> parse_callid); ob_reset = (fun _ -> callid0);
    ob_obs = obs_callid }

(** val obj_cseq : cseq obj **)

let obj_cseq =
  { ob_parse = (fun _ -> parse_cseq); ob_reset = (fun _ -> cseq0); ob_obs =
    obs_cseq }

(** val obj_uint : uintb obj **)

let obj_uint =
  { ob_parse = (fun _ -> parse_uint); ob_reset = (fun _ -> uintb0); ob_obs =
    obs_uint }

(** val obj_clen : uintb obj **)

let obj_clen =
  { ob_parse = (fun _ -> parse_clen); ob_reset = (fun _ -> uintb0); ob_obs =
    obs_uint }

(** val obj_nameaddr : n -> pfrom obj **)

let obj_nameaddr h =
  { ob_parse = (fun _ -> parse_nameaddr h); ob_reset = (fun _ -> pfrom0);
    ob_obs = obs_pfrom }

(** val obj_onepai : pfrom obj **)

let obj_onepai =
  { ob_parse = (fun _ -> parse_one_pai); ob_reset = (fun _ -> pfrom0);
    ob_obs = obs_pfrom }

(** val obj_contacts : contacts obj **)

let obj_contacts =
  { ob_parse = (fun _ -> parse_all_contacts); ob_reset = contacts_reset;
    ob_obs = obs_contacts }

(** val pais_reset : pais -> pais **)

let pais_reset _ =
  pais0

(** val obj_pais : pais obj **)

let obj_pais =
  { ob_parse = (fun _ -> parse_all_pais); ob_reset = pais_reset; ob_obs =
    obs_pais }

(** val obj_tokparam : tokparam obj **)

let obj_tokparam =
  { ob_parse = parse_tokparam; ob_reset = (fun _ -> tokparam0); ob_obs =
    obs_tokparam }

(** val obj_uparams : uparams obj **)

let obj_uparams =
  { ob_parse = parse_all_uri_params; ob_reset = uparams_reset; ob_obs =
    (fun l -> (n2z l.ul_vno) :: (obs_uparams l)) }

(** val obj_uhdrs : uhdrs obj **)

let obj_uhdrs =
  { ob_parse = parse_all_uri_hdrs; ob_reset = uhdrs_reset; ob_obs = (fun l ->
    (n2z l.uh_vno) :: (obs_uhdrs l)) }

(** val obj_quoted : unit obj **)

let obj_quoted =
  { ob_parse = (fun _ b o _ -> skip_quoted b o); ob_reset = (fun _ -> ());
    ob_obs = (fun _ -> []) }

(** val hline_reset : hline -> hline **)

let hline_reset x =
  { hx_h = hdr0; hx_pv =
    (match x.hx_pv with
     | Some v -> Some (phvals_reset v)
     | None -> None) }

(** val obj_hdrline : hline obj **)

let obj_hdrline =
  { ob_parse = (fun _ -> parse_hdrline); ob_reset = hline_reset; ob_obs =
    (fun x -> app (obs_hdr x.hx_h) (obs_opt_phvals x.hx_pv)) }

(** val hdrs_reset : hdrs_st -> hdrs_st **)

let hdrs_reset x =
  { hs_l = (hdrlst_reset x.hs_l); hs_pv =
    (match x.hs_pv with
     | Some v -> Some (phvals_reset v)
     | None -> None) }

(** val obj_headers : hdrs_st obj **)

let obj_headers =
  { ob_parse = (fun _ -> parse_headers); ob_reset = hdrs_reset; ob_obs =
    (fun x -> app (obs_hdrlst x.hs_l) (obs_opt_phvals x.hs_pv)) }

(** val obj_msg : pmsg obj **)

let obj_msg =
  { ob_parse = parse_sipmsg; ob_reset = msg_reset; ob_obs = obs_msg }

(** val take_cuts : nat -> z list -> nat list * z list **)

let rec take_cuts n0 nums =
  match n0 with
  | O -> ([], nums)
  | S n' ->
    (match nums with
     | [] -> ([], nums)
     | c :: r -> let (cs, r') = take_cuts n' r in (((Z.to_nat c) :: cs), r'))

(** val decode_ops : nat -> z list -> byte list list -> op list **)

let rec decode_ops fuel nums strs =
  match fuel with
  | O -> []
  | S fuel' ->
    (match nums with
     | [] -> []
     | z0 :: r ->
       (match z0 with
        | Z0 -> OpReset :: (decode_ops fuel' r strs)
        | Zpos p ->
          (match p with
           | XH ->
             (match r with
              | [] -> []
              | fl :: l ->
                (match l with
                 | [] -> []
                 | of0 :: l0 ->
                   (match l0 with
                    | [] -> []
                    | nc :: r0 ->
                      let (cs, r') = take_cuts (Z.to_nat nc) r0 in
                      (match strs with
                       | [] -> []
                       | b :: strs' ->
                         (OpParse ((Z.to_N fl), b, (Z.to_N of0),
                           cs)) :: (decode_ops fuel' r' strs')))))
           | _ -> [])
        | Zneg _ -> []))

(** val run_hist : n -> z -> z -> z -> op list -> z list **)

let run_hist kind a b c ops =
  match kind with
  | N0 -> []
  | Npos p ->
    (match p with
     | XI p0 ->
       (match p0 with
        | XI p1 ->
          (match p1 with
           | XI p2 ->
             (match p2 with
              | XH ->
                run_ops obj_headers ops { hs_l =
                  (hdrlst_init (repeat hdr0 (Z.to_nat a))); hs_pv =
                  (if Z.eqb b Z0
                   then None
                   else Some (phvals_init (repeat pfrom0 (Z.to_nat c)))) }
              | _ -> [])
           | XO p2 ->
             (match p2 with
              | XH ->
                run_ops obj_uparams ops
                  (uparams_init (repeat uriparam0 (Z.to_nat a)))
              | _ -> [])
           | XH -> run_ops obj_onepai ops pfrom0)
        | XO p1 ->
          (match p1 with
           | XI p2 ->
             (match p2 with
              | XH -> run_ops obj_quoted ops ()
              | _ -> [])
           | XO p2 ->
             (match p2 with
              | XH -> run_ops obj_pais ops pais0
              | _ -> [])
           | XH -> run_ops obj_clen ops uintb0)
        | XH -> run_ops obj_cseq ops cseq0)
     | XO p0 ->
       (match p0 with
        | XI p1 ->
          (match p1 with
           | XI p2 ->
             (match p2 with
              | XH ->
                run_ops obj_hdrline ops { hx_h = hdr0; hx_pv =
                  (if Z.eqb a Z0
                   then None
                   else Some (phvals_init (repeat pfrom0 (Z.to_nat b)))) }
              | _ -> [])
           | XO p2 ->
             (match p2 with
              | XH -> run_ops obj_tokparam ops tokparam0
              | _ -> [])
           | XH -> run_ops (obj_nameaddr (Z.to_N a)) ops pfrom0)
        | XO p1 ->
          (match p1 with
           | XI p2 ->
             (match p2 with
              | XH ->
                run_ops obj_uhdrs ops
                  (uhdrs_init (repeat tokparam0 (Z.to_nat a)))
              | _ -> [])
           | XO p2 ->
             (match p2 with
              | XI _ -> []
              | XO p3 ->
                (match p3 with
                 | XH ->
                   run_ops obj_msg ops
                     (msg_init N0 (repeat hdr0 (cap_of defaultHdrs a))
                       (repeat pfrom0 (cap_of defaultContacts b)))
                 | _ -> [])
              | XH ->
                run_ops obj_contacts ops
                  (contacts_init (repeat pfrom0 (Z.to_nat a))))
           | XH -> run_ops obj_uint ops uintb0)
        | XH -> run_ops obj_callid ops callid0)
     | XH -> run_ops obj_fline ops fline0)

(** val obs_uri_res : ((n * n) * puri) option -> z list **)

let obs_uri_res = function
| Some p ->
  let (p0, u) = p in
  let (e, o) = p0 in app ((n2z e) :: ((n2z o) :: [])) (obs_puri u)
| None -> zPANIC :: []

(** val obs_opt_pf : pf option -> z list **)

let obs_opt_pf = function
| Some f -> obs_pf f
| None -> zPANIC :: []

(** val obs_opt_bool : bool option -> z list **)

let obs_opt_bool = function
| Some b -> (b2z b) :: []
| None -> zPANIC :: []

(** val obs_eq_res : (bool * err) option -> z list **)

let obs_eq_res = function
| Some p -> let (b, e) = p in (b2z b) :: ((n2z (err_code e)) :: [])
| None -> zPANIC :: []

(** val obs_opt_puri : puri option -> z list **)

let obs_opt_puri = function
| Some u -> (Zpos XH) :: (obs_puri u)
| None -> (Zneg XH) :: []

(** val callid_sig_ip : bool -> n -> n -> byte list -> n * n **)

let callid_sig_ip has6 o6 l6 cid =
  let (p, _) = contains_ip4 cid in
  let (p0, l4) = p in
  let (h4, o4) = p0 in
  if h4 then callid_sig_at true o4 l4 cid else callid_sig_at has6 o6 l6 cid

(** val run_msgsig : z list -> byte list -> z list **)

let run_msgsig nums buf =
  let hcap = nthz nums O in
  let ccap = nthz nums (S O) in
  let flags = Z.to_N (nthz nums (S (S O))) in
  let offs = Z.to_N (nthz nums (S (S (S O)))) in
  let m0 =
    msg_init N0 (repeat hdr0 (cap_of defaultHdrs hcap))
      (repeat pfrom0 (cap_of defaultContacts ccap))
  in
  (match parse_sipmsg flags buf offs m0 with
   | Done (o, e, m) ->
     let has = negb (Z.eqb (nthz nums (S (S (S (S (S (S (S (S O))))))))) Z0)
     in
     let io = Z.to_N (nthz nums (S (S (S (S (S (S (S (S (S O)))))))))) in
     let il = Z.to_N (nthz nums (S (S (S (S (S (S (S (S (S (S O))))))))))) in
     let r =
       get_msg_sig (fun cid -> callid_sig_ip has io il cid) str_sig0
         viabr_sig0 m buf
     in
     app ((n2z o) :: ((n2z (err_code e)) :: []))
       (app (obs_msgsig r)
         (match r with
          | Some p -> let (s, _) = p in map n2z (sig_string s)
          | None -> []))
   | Panic -> zPANIC :: []
   | Stuck -> zSTUCK :: [])

(** val entry : n -> z list -> byte list list -> z list **)

let entry kind nums strs =
  let s0 = nth O strs [] in
  let s1 = nth (S O) strs [] in
  if N.ltb kind (Npos (XO (XO (XI (XO (XO (XI XH)))))))
  then run_hist kind (nthz nums O) (nthz nums (S O)) (nthz nums (S (S O)))
         (decode_ops (S (length nums)) (skipn (S (S (S O))) nums) strs)
  else (match kind with
        | N0 -> []
        | Npos p ->
          (match p with
           | XI p0 ->
             (match p0 with
              | XI p1 ->
                (match p1 with
                 | XI p2 ->
                   (match p2 with
                    | XI p3 ->
                      (match p3 with
                       | XO p4 ->
                         (match p4 with
                          | XI p5 ->
                            (match p5 with
                             | XH ->
                               (match parse_uri s0 puri0 with
                                | Some p6 ->
                                  let (p7, u) = p6 in
                                  let (e, _) = p7 in
                                  app ((n2z e) :: [])
                                    (app (obs_opt_pf (uri_long u))
                                      (app (obs_opt_pf (uri_short u))
                                        (obs_puri (uri_truncate u))))
                                | None -> zPANIC :: [])
                             | _ -> [])
                          | _ -> [])
                       | _ -> [])
                    | XO p3 ->
                      (match p3 with
                       | XO p4 ->
                         (match p4 with
                          | XI p5 ->
                            (match p5 with
                             | XH -> (n2z (get_method_no s0)) :: []
                             | _ -> [])
                          | _ -> [])
                       | _ -> [])
                    | XH -> [])
                 | XO p2 ->
                   (match p2 with
                    | XI p3 ->
                      (match p3 with
                       | XI p4 ->
                         (match p4 with
                          | XI p5 ->
                            (match p5 with
                             | XH ->
                               let (sg, l) =
                                 callid_sig_ip
                                   (negb (Z.eqb (nthz nums O) Z0))
                                   (Z.to_N (nthz nums (S O)))
                                   (Z.to_N (nthz nums (S (S O)))) s0
                               in
                               (n2z sg) :: ((n2z l) :: [])
                             | _ -> [])
                          | _ -> [])
                       | _ -> [])
                    | XO p3 ->
                      (match p3 with
                       | XI p4 ->
                         (match p4 with
                          | XI p5 ->
                            (match p5 with
                             | XH ->
                               obs_eq_res
                                 (uri_hdrs_eq s0 (Z.to_N (nthz nums O)) s1
                                   (Z.to_N (nthz nums (S O))))
                             | _ -> [])
                          | _ -> [])
                       | _ -> [])
                    | XH -> [])
                 | XH -> [])
              | XO p1 ->
                (match p1 with
                 | XI p2 ->
                   (match p2 with
                    | XO p3 ->
                      (match p3 with
                       | XI p4 ->
                         (match p4 with
                          | XI p5 ->
                            (match p5 with
                             | XH -> (n2z (uri_param_resolve s0)) :: []
                             | _ -> [])
                          | _ -> [])
                       | XO p4 ->
                         (match p4 with
                          | XI p5 ->
                            (match p5 with
                             | XH ->
                               app (obs_ip4c (contains_ip4 s0))
                                 ((n2z (callid_ip4_flag s0)) :: [])
                             | _ -> [])
                          | _ -> [])
                       | XH -> [])
                    | _ -> [])
                 | XO p2 ->
                   (match p2 with
                    | XI p3 ->
                      (match p3 with
                       | XI p4 ->
                         (match p4 with
                          | XI p5 ->
                            (match p5 with
                             | XH -> (n2z (str_sig0 s0)) :: []
                             | _ -> [])
                          | _ -> [])
                       | _ -> [])
                    | XO p3 ->
                      (match p3 with
                       | XI p4 ->
                         (match p4 with
                          | XI p5 ->
                            (match p5 with
                             | XH ->
                               (match uri_parse_cmp s0 s1
                                        (Z.to_N (nthz nums O)) with
                                | Some p6 ->
                                  let (p7, r2) = p6 in
                                  let (p8, r1) = p7 in
                                  let (p9, w) = p8 in
                                  let (r, e) = p9 in
                                  app
                                    ((b2z r) :: ((n2z e) :: ((n2z w) :: [])))
                                    (app (obs_opt_puri r1) (obs_opt_puri r2))
                                | None -> zPANIC :: [])
                             | _ -> [])
                          | _ -> [])
                       | _ -> [])
                    | XH -> [])
                 | XH -> [])
              | XH -> [])
           | XO p0 ->
             (match p0 with
              | XI p1 ->
                (match p1 with
                 | XI p2 ->
                   (match p2 with
                    | XI p3 ->
                      (match p3 with
                       | XO p4 ->
                         (match p4 with
                          | XI p5 ->
                            (match p5 with
                             | XH -> obs_uri_res (parse_uri s0 puri0)
                             | _ -> [])
                          | _ -> [])
                       | _ -> [])
                    | XO p3 ->
                      (match p3 with
                       | XO p4 ->
                         (match p4 with
                          | XI p5 ->
                            (match p5 with
                             | XH -> (n2z (get_hdr_type s0)) :: []
                             | _ -> [])
                          | _ -> [])
                       | _ -> [])
                    | XH -> [])
                 | XO p2 ->
                   (match p2 with
                    | XI p3 ->
                      (match p3 with
                       | XI p4 ->
                         (match p4 with
                          | XI p5 ->
                            (match p5 with
                             | XH ->
                               (match viabr_sig_len s0 with
                                | Some p6 ->
                                  let (sg, l) = p6 in
                                  (n2z sg) :: ((n2z l) :: [])
                                | None -> zPANIC :: [])
                             | _ -> [])
                          | _ -> [])
                       | _ -> [])
                    | XO p3 ->
                      (match p3 with
                       | XI p4 ->
                         (match p4 with
                          | XI p5 ->
                            (match p5 with
                             | XH ->
                               obs_eq_res
                                 (uri_params_eq s0 (Z.to_N (nthz nums O)) s1
                                   (Z.to_N (nthz nums (S O))))
                             | _ -> [])
                          | _ -> [])
                       | _ -> [])
                    | XH -> [])
                 | XH -> [])
              | XO p1 ->
                (match p1 with
                 | XI p2 ->
                   (match p2 with
                    | XO p3 ->
                      (match p3 with
                       | XI p4 ->
                         (match p4 with
                          | XI p5 ->
                            (match p5 with
                             | XH ->
                               (match parse_uri s0 puri0 with
                                | Some p6 ->
                                  let (p7, u1) = p6 in
                                  let (e1, _) = p7 in
                                  (match parse_uri s1 puri0 with
                                   | Some p8 ->
                                     let (p9, u2) = p8 in
                                     let (e2, _) = p9 in
                                     app ((n2z e1) :: ((n2z e2) :: []))
                                       (app
                                         (obs_opt_bool
                                           (uri_cmp_short u1 s0 u2 s1
                                             (Z.to_N (nthz nums O))))
                                         (obs_opt_bool
                                           (uri_cmp u1 s0 u2 s1
                                             (Z.to_N (nthz nums O)))))
                                   | None -> zPANIC :: [])
                                | None -> zPANIC :: [])
                             | _ -> [])
                          | _ -> [])
                       | XO p4 ->
                         (match p4 with
                          | XI p5 ->
                            (match p5 with
                             | XH -> obs_ip4p (ip4_prefix s0)
                             | _ -> [])
                          | _ -> [])
                       | XH -> [])
                    | _ -> [])
                 | XO p2 ->
                   (match p2 with
                    | XI p3 ->
                      (match p3 with
                       | XI p4 ->
                         (match p4 with
                          | XI p5 ->
                            (match p5 with
                             | XH -> run_msgsig nums s0
                             | _ -> [])
                          | _ -> [])
                       | XO p4 ->
                         (match p4 with
                          | XI p5 ->
                            (match p5 with
                             | XH ->
                               map n2z (method_name (Z.to_N (nthz nums O)))
                             | _ -> [])
                          | _ -> [])
                       | XH -> [])
                    | XO p3 ->
                      (match p3 with
                       | XI p4 ->
                         (match p4 with
                          | XI p5 ->
                            (match p5 with
                             | XH ->
                               (match parse_uri s0 puri0 with
                                | Some p6 ->
                                  let (p7, u) = p6 in
                                  let (e, _) = p7 in
                                  let (ok, u') =
                                    uri_adjust u { po =
                                      (Z.to_N (nthz nums O)); pl =
                                      (Z.to_N (nthz nums (S O))) }
                                  in
                                  app ((n2z e) :: ((b2z ok) :: []))
                                    (obs_puri u')
                                | None -> zPANIC :: [])
                             | _ -> [])
                          | _ -> [])
                       | _ -> [])
                    | XH -> [])
                 | XH -> [])
              | XH -> [])
           | XH -> []))
