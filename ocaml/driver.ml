(* Correspondence driver: reads cases "kind\tnums\tstrs\texpected", runs the
   extracted model entry point and reports every line whose observation
   differs from the expected one (which the Go harness obtained from /repo). *)
open Model

let rec pos_of_int n = if n = 1 then XH else if n land 1 = 0 then XO (pos_of_int (n lsr 1)) else XI (pos_of_int (n lsr 1))
let n_of_int n = if n = 0 then N0 else Npos (pos_of_int n)
let z_of_int n = if n = 0 then Z0 else if n > 0 then Zpos (pos_of_int n) else Zneg (pos_of_int (-n))
let rec int_of_pos = function XH -> 1 | XO p -> 2 * int_of_pos p | XI p -> 2 * int_of_pos p + 1
let int_of_z = function Z0 -> 0 | Zpos p -> int_of_pos p | Zneg p -> - (int_of_pos p)

let bytes_of_hex s =
  let n = String.length s / 2 in
  let rec go i acc = if i < 0 then acc else go (i - 1) (n_of_int (int_of_string ("0x" ^ String.sub s (2 * i) 2)) :: acc) in
  go (n - 1) []

let split_nonempty c s = if s = "" then [] else String.split_on_char c s

let () =
  let ic = if Array.length Sys.argv > 1 then open_in Sys.argv.(1) else stdin in
  let total = ref 0 and bad = ref 0 and lineno = ref 0 in
  (try
     while true do
       let line = input_line ic in
       incr lineno;
       if line <> "" && line.[0] <> '#' then begin
         match String.split_on_char '\t' line with
         | [kind; nums; strs; expected] ->
           incr total;
           let k = n_of_int (int_of_string kind) in
           let nums = List.map (fun x -> z_of_int (int_of_string x)) (split_nonempty ',' nums) in
           let strs = if strs = "" then [] else List.map (fun h -> if h = "-" then [] else bytes_of_hex h) (String.split_on_char ';' strs) in
           let got = String.concat " " (List.map (fun z -> string_of_int (int_of_z z)) (entry k nums strs)) in
           if got <> expected then begin
             incr bad;
             Printf.printf "MISMATCH line=%d kind=%s\n  expected: %s\n  model:    %s\n" !lineno kind expected got
           end
         | _ -> Printf.printf "BADLINE %d\n" !lineno; incr bad
       end
     done
   with End_of_file -> ());
  Printf.printf "DONE cases=%d mismatches=%d\n" !total !bad
