(* Extraction of the executable model.  ExtrOcamlBasic only: N, Z, positive,
   nat stay Coq datatypes.  Run with coqc in this directory. *)
From Coq Require Extraction.
From Coq Require Import ExtrOcamlBasic.
From Sipsp Require Import Harness.
Extraction "model.ml" entry.
