package main

// Adaptors: every stateful parser object of sipsp behind one interface
// (new / parse / reset / observe).  The kind numbers and the order of the
// observed values are those of coq/Model/Harness.v (run_hist, obs_*).

import (
	"fmt"

	"github.com/intuitivelabs/sipsp"
)

// tags of observed values (used by the shift and containment oracles)
const (
	tVal  = 'v' // non positional value
	tOffs = 'o' // PField.Offs (its Len follows)
	tLen  = 'l' // PField.Len
	tPos  = 'p' // plain buffer offset
	tBuf  = 'B' // len(msg.Buf) of a message that is not finished: the extent of the last buffer passed in
	tCall = 'c' // a per-call result (values parsed by the last call): not a parsed value
)

type Obs struct {
	V []int64
	T []byte
}

func (o *Obs) val(x int64) { o.V = append(o.V, x); o.T = append(o.T, tVal) }
func (o *Obs) b(x bool) {
	if x {
		o.val(1)
	} else {
		o.val(0)
	}
}
func (o *Obs) percall(x int64) { o.V = append(o.V, x); o.T = append(o.T, tCall) }
func (o *Obs) pos(x int64) { o.V = append(o.V, x); o.T = append(o.T, tPos) }
func (o *Obs) pf(f sipsp.PField) {
	o.V = append(o.V, int64(f.Offs), int64(f.Len))
	o.T = append(o.T, tOffs, tLen)
}

type Obj interface {
	Parse(flags uint, buf []byte, offs int) (int, sipsp.ErrorHdr)
	Reset()
	Obs(o *Obs)
}

const (
	kFLine = 1 + iota
	kCallID
	kCSeq
	kUInt
	kCLen
	kNameAddr
	kOnePAI
	kContacts
	kPAIs
	kTokParam
	kURIParams
	kURIHdrs
	kQuoted
	kHdrLine
	kHeaders
	kMsg
)

var kindNames = map[int]string{kFLine: "ParseFLine", kCallID: "ParseCallIDVal", kCSeq: "ParseCSeqVal",
	kUInt: "ParseUIntVal", kCLen: "ParseCLenVal", kNameAddr: "ParseNameAddrPVal", kOnePAI: "ParseOnePAI",
	kContacts: "ParseAllContactValues", kPAIs: "ParseAllPAIValues", kTokParam: "ParseTokenParam",
	kURIParams: "ParseAllURIParams", kURIHdrs: "ParseAllURIHdrs", kQuoted: "SkipQuoted",
	kHdrLine: "ParseHdrLine", kHeaders: "ParseHeaders", kMsg: "ParseSIPMsg"}

// ---- observation of the sipsp structures -----------------------------------

func obsFLine(o *Obs, f *sipsp.PFLine) {
	o.val(int64(f.Status))
	o.val(int64(f.MethodNo))
	o.pf(f.Method)
	o.pf(f.URI)
	o.pf(f.Version)
	o.pf(f.StatusCode)
	o.pf(f.Reason)
	o.b(f.Request())
	o.b(f.Parsed())
	o.b(f.Empty())
}
func obsCallID(o *Obs, c *sipsp.PCallIDBody) { o.pf(c.CallID); o.b(c.Parsed()); o.b(c.Empty()) }
func obsCSeq(o *Obs, c *sipsp.PCSeqBody) {
	o.val(int64(c.CSeqNo))
	o.val(int64(c.MethodNo))
	o.pf(c.CSeq)
	o.pf(c.Method)
	o.pf(c.V)
	o.b(c.Parsed())
	o.b(c.Empty())
}
func obsUInt(o *Obs, c *sipsp.PUIntBody) {
	o.val(int64(c.UIVal))
	o.pf(c.SVal)
	o.b(c.Parsed())
	o.b(c.Empty())
}
func obsFrom(o *Obs, f *sipsp.PFromBody) {
	o.pf(f.Name)
	o.pf(f.URI)
	o.pf(f.Tag)
	o.b(f.Star)
	o.b(f.LR)
	o.b(f.HasExpires)
	o.val(int64(f.Type))
	o.val(int64(f.Q))
	o.val(int64(f.Expires))
	o.pf(f.Params)
	o.pf(f.V)
	o.val(int64(f.ParamErr))
	if f.ParamErr != 0 {
		o.pos(int64(f.ErrOffs))
	} else {
		o.val(int64(f.ErrOffs))
	}
	o.b(f.Parsed())
	o.b(f.Empty())
}
func obsOptFrom(o *Obs, f *sipsp.PFromBody) {
	if f == nil {
		o.val(-1)
		return
	}
	o.val(1)
	obsFrom(o, f)
}
func obsContacts(o *Obs, c *sipsp.PContacts) {
	o.val(int64(c.N))
	o.val(int64(c.HNo))
	o.val(int64(c.MaxExpires))
	o.val(int64(c.MinExpires))
	o.pf(c.LastHVal)
	o.val(int64(c.VNo()))
	o.b(c.More())
	o.b(c.Parsed())
	for i := 0; i < c.VNo(); i++ {
		obsFrom(o, &c.Vals[i])
	}
	obsOptFrom(o, c.GetContact(0))
	n1 := c.N - 1
	if n1 < 0 {
		n1 = 0
	}
	obsOptFrom(o, c.GetContact(n1))
	obsOptFrom(o, c.GetContact(c.N))
}
func obsPAIs(o *Obs, c *sipsp.PPAIs) {
	o.val(int64(c.N))
	o.val(int64(c.HNo))
	o.pf(c.LastHVal)
	o.val(int64(c.VNo()))
	o.b(c.More())
	o.b(c.Parsed())
	for i := 0; i < c.VNo(); i++ {
		obsFrom(o, &c.Vals[i])
	}
}
func obsTokParam(o *Obs, p *sipsp.PTokParam) { o.pf(p.All); o.pf(p.Name); o.pf(p.Val); o.b(p.Empty()) }
func obsHdr(o *Obs, h *sipsp.Hdr)            { o.val(int64(h.Type)); o.pf(h.Name); o.pf(h.Val) }
func obsHdrLst(o *Obs, l *sipsp.HdrLst) {
	o.val(int64(l.PFlags))
	o.val(int64(l.N))
	n := l.N
	if n > len(l.Hdrs) {
		n = len(l.Hdrs)
	}
	for i := 0; i < n; i++ {
		obsHdr(o, &l.Hdrs[i])
	}
	for t := 0; t < 16; t++ {
		h := l.GetHdr(sipsp.HdrT(t))
		if h == nil {
			o.val(-1)
		} else {
			o.val(1)
			obsHdr(o, h)
		}
	}
}
func obsPHdrVals(o *Obs, v *sipsp.PHdrVals) {
	obsFrom(o, &v.From)
	obsFrom(o, &v.To)
	obsCallID(o, &v.Callid)
	obsCSeq(o, &v.CSeq)
	obsUInt(o, &v.CLen)
	obsContacts(o, &v.Contacts)
	obsPAIs(o, &v.PAIs)
	obsUInt(o, &v.Expires)
	m, ok := v.MaxExpires()
	o.val(int64(m))
	o.b(ok)
}

// ---- the objects ------------------------------------------------------------

type oFLine struct{ v sipsp.PFLine }

func (x *oFLine) Parse(_ uint, b []byte, o int) (int, sipsp.ErrorHdr) { return sipsp.ParseFLine(b, o, &x.v) }
func (x *oFLine) Reset()                                              { x.v.Reset() }
func (x *oFLine) Obs(o *Obs)                                          { obsFLine(o, &x.v) }

type oCallID struct{ v sipsp.PCallIDBody }

func (x *oCallID) Parse(_ uint, b []byte, o int) (int, sipsp.ErrorHdr) {
	return sipsp.ParseCallIDVal(b, o, &x.v)
}
func (x *oCallID) Reset()     { x.v.Reset() }
func (x *oCallID) Obs(o *Obs) { obsCallID(o, &x.v) }

type oCSeq struct{ v sipsp.PCSeqBody }

func (x *oCSeq) Parse(_ uint, b []byte, o int) (int, sipsp.ErrorHdr) { return sipsp.ParseCSeqVal(b, o, &x.v) }
func (x *oCSeq) Reset()                                              { x.v.Reset() }
func (x *oCSeq) Obs(o *Obs)                                          { obsCSeq(o, &x.v) }

type oUInt struct {
	v    sipsp.PUIntBody
	clen bool
}

func (x *oUInt) Parse(_ uint, b []byte, o int) (int, sipsp.ErrorHdr) {
	if x.clen {
		return sipsp.ParseCLenVal(b, o, &x.v)
	}
	return sipsp.ParseUIntVal(b, o, &x.v)
}
func (x *oUInt) Reset()     { x.v.Reset() }
func (x *oUInt) Obs(o *Obs) { obsUInt(o, &x.v) }

type oNameAddr struct {
	v   sipsp.PFromBody
	h   sipsp.HdrT
	pai bool
}

func (x *oNameAddr) Parse(_ uint, b []byte, o int) (int, sipsp.ErrorHdr) {
	if x.pai {
		return sipsp.ParseOnePAI(b, o, &x.v)
	}
	switch x.h {
	case sipsp.HdrFrom:
		return sipsp.ParseFromVal(b, o, &x.v)
	case sipsp.HdrContact:
		return sipsp.ParseOneContact(b, o, &x.v)
	}
	return sipsp.ParseNameAddrPVal(x.h, b, o, &x.v)
}
func (x *oNameAddr) Reset()     { x.v.Reset() }
func (x *oNameAddr) Obs(o *Obs) { obsFrom(o, &x.v) }

type oContacts struct{ v sipsp.PContacts }

func (x *oContacts) Parse(_ uint, b []byte, o int) (int, sipsp.ErrorHdr) {
	return sipsp.ParseAllContactValues(b, o, &x.v)
}
func (x *oContacts) Reset()     { x.v.Reset() }
func (x *oContacts) Obs(o *Obs) { obsContacts(o, &x.v) }

type oPAIs struct{ v sipsp.PPAIs }

func (x *oPAIs) Parse(_ uint, b []byte, o int) (int, sipsp.ErrorHdr) {
	return sipsp.ParseAllPAIValues(b, o, &x.v)
}
func (x *oPAIs) Reset()     { x.v.Reset() }
func (x *oPAIs) Obs(o *Obs) { obsPAIs(o, &x.v) }

type oTokParam struct{ v sipsp.PTokParam }

func (x *oTokParam) Parse(f uint, b []byte, o int) (int, sipsp.ErrorHdr) {
	return sipsp.ParseTokenParam(b, o, &x.v, sipsp.POptFlags(f))
}
func (x *oTokParam) Reset()     { x.v.Reset() }
func (x *oTokParam) Obs(o *Obs) { obsTokParam(o, &x.v) }

type oURIParams struct {
	v   sipsp.URIParamsLst
	vno int
}

func (x *oURIParams) Parse(f uint, b []byte, o int) (int, sipsp.ErrorHdr) {
	n, v, e := sipsp.ParseAllURIParams(b, o, &x.v, sipsp.POptFlags(f))
	x.vno = v
	return n, e
}
func (x *oURIParams) Reset() { x.v.Reset(); x.vno = 0 }
func (x *oURIParams) Obs(o *Obs) {
	o.percall(int64(x.vno))
	o.val(int64(x.v.N))
	o.val(int64(x.v.Types))
	o.val(int64(x.v.PNo()))
	o.b(x.v.More())
	for i := 0; i < x.v.PNo(); i++ {
		obsTokParam(o, &x.v.Params[i].Param)
		o.val(int64(x.v.Params[i].T))
	}
}

type oURIHdrs struct {
	v   sipsp.URIHdrsLst
	vno int
}

func (x *oURIHdrs) Parse(f uint, b []byte, o int) (int, sipsp.ErrorHdr) {
	n, v, e := sipsp.ParseAllURIHdrs(b, o, &x.v, sipsp.POptFlags(f))
	x.vno = v
	return n, e
}
func (x *oURIHdrs) Reset() { x.v.Reset(); x.vno = 0 }
func (x *oURIHdrs) Obs(o *Obs) {
	o.percall(int64(x.vno))
	o.val(int64(x.v.N))
	o.val(int64(x.v.HNo()))
	o.b(x.v.More())
	for i := 0; i < x.v.HNo(); i++ {
		obsTokParam(o, (*sipsp.PTokParam)(&x.v.Hdrs[i]))
	}
}

type oQuoted struct{}

func (x *oQuoted) Parse(_ uint, b []byte, o int) (int, sipsp.ErrorHdr) { return sipsp.SkipQuoted(b, o) }
func (x *oQuoted) Reset()                                              {}
func (x *oQuoted) Obs(o *Obs)                                          {}

type oHdrLine struct {
	h  sipsp.Hdr
	pv *sipsp.PHdrVals
}

func (x *oHdrLine) Parse(_ uint, b []byte, o int) (int, sipsp.ErrorHdr) {
	if x.pv == nil {
		return sipsp.ParseHdrLine(b, o, &x.h, nil)
	}
	return sipsp.ParseHdrLine(b, o, &x.h, x.pv)
}
func (x *oHdrLine) Reset() {
	x.h.Reset()
	if x.pv != nil {
		x.pv.Reset()
	}
}
func (x *oHdrLine) Obs(o *Obs) {
	obsHdr(o, &x.h)
	if x.pv != nil {
		obsPHdrVals(o, x.pv)
	}
}

type oHeaders struct {
	l  sipsp.HdrLst
	pv *sipsp.PHdrVals
}

func (x *oHeaders) Parse(_ uint, b []byte, o int) (int, sipsp.ErrorHdr) {
	if x.pv == nil {
		return sipsp.ParseHeaders(b, o, &x.l, nil)
	}
	return sipsp.ParseHeaders(b, o, &x.l, x.pv)
}
func (x *oHeaders) Reset() {
	x.l.Reset()
	if x.pv != nil {
		x.pv.Reset()
	}
}
func (x *oHeaders) Obs(o *Obs) {
	obsHdrLst(o, &x.l)
	if x.pv != nil {
		obsPHdrVals(o, x.pv)
	}
}

type oMsg struct {
	m    sipsp.PSIPMsg
	last []byte // the buffer of the last Parse call
}

func (x *oMsg) Parse(f uint, b []byte, o int) (int, sipsp.ErrorHdr) {
	x.last = b
	return sipsp.ParseSIPMsg(b, o, &x.m, uint8(f))
}
func (x *oMsg) Reset() { x.m.Reset() }
func (x *oMsg) Obs(o *Obs) {
	m := &x.m
	obsFLine(o, &m.FL)
	obsHdrLst(o, &m.HL)
	obsPHdrVals(o, &m.PV)
	o.pf(m.Body)
	if m.Parsed() || m.RawMsg != nil {
		o.pos(int64(len(m.Buf)))
	} else {
		o.V = append(o.V, int64(len(m.Buf)))
		o.T = append(o.T, tBuf)
	}
	if m.RawMsg == nil {
		o.val(-1)
		o.val(0)
	} else {
		o.pos(int64(cap(x.last) - cap(m.RawMsg)))
		o.V = append(o.V, int64(len(m.RawMsg)))
		o.T = append(o.T, tLen)
	}
	o.b(m.Parsed())
	o.b(m.Err())
	o.b(m.Request())
	o.val(int64(m.Method()))
}

// newObj creates a new object of the given kind; a, b, c as in run_hist
func newObj(kind int, a, b, c int) Obj {
	switch kind {
	case kFLine:
		return &oFLine{}
	case kCallID:
		return &oCallID{}
	case kCSeq:
		return &oCSeq{}
	case kUInt:
		return &oUInt{}
	case kCLen:
		return &oUInt{clen: true}
	case kNameAddr:
		return &oNameAddr{h: sipsp.HdrT(a)}
	case kOnePAI:
		return &oNameAddr{pai: true}
	case kContacts:
		x := &oContacts{}
		x.v.Init(make([]sipsp.PFromBody, a))
		return x
	case kPAIs:
		return &oPAIs{}
	case kTokParam:
		return &oTokParam{}
	case kURIParams:
		x := &oURIParams{}
		x.v.Init(make([]sipsp.URIParam, a))
		return x
	case kURIHdrs:
		x := &oURIHdrs{}
		x.v.Init(make([]sipsp.URIHdr, a))
		return x
	case kQuoted:
		return &oQuoted{}
	case kHdrLine:
		x := &oHdrLine{}
		if a != 0 {
			x.pv = &sipsp.PHdrVals{}
			x.pv.Init(make([]sipsp.PFromBody, b))
		}
		return x
	case kHeaders:
		x := &oHeaders{}
		x.l.Hdrs = make([]sipsp.Hdr, a)
		if b != 0 {
			x.pv = &sipsp.PHdrVals{}
			x.pv.Init(make([]sipsp.PFromBody, c))
		}
		return x
	case kMsg:
		x := &oMsg{}
		var hdrs []sipsp.Hdr
		var cts []sipsp.PFromBody
		if a >= 0 {
			hdrs = make([]sipsp.Hdr, a)
		}
		if b >= 0 {
			cts = make([]sipsp.PFromBody, b)
		}
		x.m.Init(nil, hdrs, cts)
		return x
	}
	panic(fmt.Sprintf("bad kind %d", kind))
}
