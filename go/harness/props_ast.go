package main

// C05 C07 C08 C09 C17 C19: grammar-fidelity oracles.  The generator builds the
// text from an abstract value and remembers where every component was put.

import (
	"encoding/json"
	"fmt"
	"regexp"
	"strings"

	"github.com/intuitivelabs/sipsp"
)

func isWS(c byte) bool { return c == ' ' || c == '\t' || c == '\r' || c == '\n' }

type span struct{ a, b int } // [a,b)

func (s span) pf() sipsp.PField { return sipsp.PField{Offs: sipsp.OffsT(s.a), Len: sipsp.OffsT(s.b - s.a)} }
func pfSpan(f sipsp.PField) span { return span{int(f.Offs), int(f.Offs) + int(f.Len)} }
func within(in, out span) bool  { return in.a >= out.a && in.b <= out.b }

// a string builder that remembers offsets
type tb struct{ sb strings.Builder }

func (t *tb) w(s string) span { a := t.sb.Len(); t.sb.WriteString(s); return span{a, t.sb.Len()} }
func (t *tb) pos() int        { return t.sb.Len() }

// ---- C07 ------------------------------------------------------------------------
type hdrAST struct {
	name      string
	wsColon   string
	lead      string   // LWS after the colon
	toks      []string // value tokens
	seps      []string // LWS between tokens
	trail     string   // SP/HT after the value
	term      string
	nameSpan  span
	valSpan   span // first..last non white space byte of the value
	lineSpan  span
	wantType  sipsp.HdrT
	emptyVal  bool
}

func (g *G) headersAST(n int, onlyGeneric bool) ([]hdrAST, string) {
	var t tb
	var hs []hdrAST
	for i := 0; i < n; i++ {
		var h hdrAST
		for {
			if g.p(55) {
				h.name = g.hdrName(knownHdrs[g.n(len(knownHdrs))])
			} else {
				h.name = g.pick("X-"+g.alnum(1, 6), "Subject", "Allow", "Fro", "Tox", "Content-Lengt", "Vi", "x", g.alnum(1, 10),
					"Call-IDx", "Routes", "P-Asserted-Identit")
			}
			h.wantType = refHdrType([]byte(h.name))
			if !onlyGeneric || !hasValueParser(h.wantType) {
				break
			}
		}
		h.wsColon = g.pick("", "", " ", "\t", "  ")
		h.lead = g.pick("", " ", " ", "\t", "  ", "\r\n ", " \r\n\t")
		for k := g.n(4); k > 0; k-- {
			h.toks = append(h.toks, g.pick(g.alnum(1, 8), "a,b", "<x>", "q=\"z\"", ";", "1.2.3.4", "=", ":"))
			h.seps = append(h.seps, g.pick(" ", "\t", "  ", "\r\n ", "\r\n\t ", "\n ", " \r\n  "))
		}
		h.trail = g.pick("", "", " ", "\t", " \t")
		h.term = g.pick("\r\n", "\r\n", "\r\n", "\n", "\r")
		a := t.pos()
		h.nameSpan = t.w(h.name)
		t.w(h.wsColon + ":")
		t.w(h.lead)
		va := t.pos()
		vb := va
		for k, tok := range h.toks {
			if k > 0 {
				t.w(h.seps[k-1])
			}
			vb = t.w(tok).b
		}
		h.valSpan = span{va, vb}
		h.emptyVal = len(h.toks) == 0
		t.w(h.trail)
		h.lineSpan = span{a, t.pos()}
		t.w(h.term)
		hs = append(hs, h)
	}
	// the blank line; a lone CR must not be followed by LF
	last := hs[len(hs)-1].term
	blank := g.pick("\r\n", "\r\n", "\n")
	if last == "\r" {
		blank = "\r\n"
	}
	t.w(blank)
	return hs, t.sb.String()
}

func hasValueParser(t sipsp.HdrT) bool {
	switch t {
	case sipsp.HdrFrom, sipsp.HdrTo, sipsp.HdrCallID, sipsp.HdrCSeq, sipsp.HdrCLen, sipsp.HdrContact, sipsp.HdrExpires, sipsp.HdrPAI:
		return true
	}
	return false
}

func propC07(g *G, w *CaseW, rep *Report, thorough bool) {
	n := scale(thorough, 2500, 30000)
	for i := 0; i < n; i++ {
		withPV := g.p(30)
		cnt := 1 + g.n(12)
		if g.p(8) {
			cnt = 30 + g.n(31)
		}
		hs, text := g.headersAST(cnt, withPV)
		text += g.pick("", "body", "\r\n", "X: y\r\n")
		hcap := []int{0, 1, 2, 5, 10, 70}[g.n(6)]
		in := Input{Kind: kHeaders, A: hcap, Buf: text}
		if withPV {
			in.B, in.C = 1, 2
		}
		var cuts []int
		if g.p(25) {
			cuts = g.cuts(0, len(text))
		}
		c := inputCase(&in, cuts)
		out, res := runCase(c)
		w.emitCase(c, out)
		rep.Cases++
		rep.OracleEval++
		rep.count(fmt.Sprintf("headers:%d", min(cnt/5*5, 30)))
		if len(res) != 1 || res[0].Panic != "" {
			oracleSafe(rep, c, res)
			continue
		}
		x := newRun(&in, cuts).obj.(*oHeaders)
		last := res[0].Calls[len(res[0].Calls)-1]
		bad := ""
		endBlock := len(text) - len(text[strings.LastIndex(text[:blockEnd(hs, text)], "")+0:]) // placeholder, recomputed below
		_ = endBlock
		wantEnd := blockEnd(hs, text)
		var flags sipsp.HdrFlags
		for _, h := range hs {
			flags.Set(h.wantType)
		}
		switch {
		case last.E != sipsp.ErrHdrOk || last.O != wantEnd:
			bad = fmt.Sprintf("returned (%d,%d), expected (%d,0)", last.O, last.E, wantEnd)
		case x.l.N != len(hs):
			bad = fmt.Sprintf("N = %d for %d logical lines", x.l.N, len(hs))
		case x.l.PFlags != flags:
			bad = fmt.Sprintf("PFlags %b, the types seen are %b", x.l.PFlags, flags)
		}
		if bad == "" {
			seen := map[sipsp.HdrT]bool{}
			for k, h := range hs {
				var got *sipsp.Hdr
				if k < len(x.l.Hdrs) {
					got = &x.l.Hdrs[k]
					if msg := cmpHdr(got, &h, text); msg != "" {
						bad = fmt.Sprintf("header %d (%q): %s", k, h.name, msg)
						break
					}
				}
				if !seen[h.wantType] {
					seen[h.wantType] = true
					if f := x.l.GetHdr(h.wantType); f != nil {
						if msg := cmpHdr(f, &h, text); msg != "" {
							bad = fmt.Sprintf("GetHdr(%d) is not the first header of that type (%q): %s", h.wantType, h.name, msg)
							break
						}
					}
				}
			}
			for t := sipsp.HdrFrom; t < sipsp.HdrOther && bad == ""; t++ {
				if f := x.l.GetHdr(t); f != nil && !seen[t] && !f.Missing() {
					bad = fmt.Sprintf("GetHdr(%d) returns a header although none of that type was sent", t)
				}
			}
		}
		if bad != "" {
			rep.violate("ParseHeaders: "+bad, "hdr-tokenisation", map[string]interface{}{"case": json.RawMessage(caseJSON(c))})
		}
		rep.nontrivial(text)
		if i < 3 {
			rep.sample(text)
		}
	}
}

func blockEnd(hs []hdrAST, text string) int {
	l := hs[len(hs)-1]
	e := l.lineSpan.b + len(l.term)
	if strings.HasPrefix(text[e:], "\r\n") {
		return e + 2
	}
	return e + 1
}

func cmpHdr(got *sipsp.Hdr, h *hdrAST, text string) string {
	if got.Type != h.wantType {
		return fmt.Sprintf("type %d, expected %d", got.Type, h.wantType)
	}
	if got.Name != h.nameSpan.pf() {
		return fmt.Sprintf("name %v, expected %v", got.Name, h.nameSpan.pf())
	}
	if h.emptyVal {
		if got.Val.Len != 0 {
			return fmt.Sprintf("value %v, expected empty", got.Val)
		}
	} else if got.Val != h.valSpan.pf() {
		return fmt.Sprintf("value %v %q, expected %v %q", got.Val, text[got.Val.Offs:got.Val.Offs+got.Val.Len], h.valSpan.pf(), text[h.valSpan.a:h.valSpan.b])
	}
	return ""
}

// ---- C08 ------------------------------------------------------------------------
var reReq = regexp.MustCompile(`^([^ \t\r\n]+) ([^ \t\r\n]+) ([^ \t\r\n]+)$`)
var reRpl = regexp.MustCompile(`^((?i)SIP/2\.0) ([0-9]{3}) ([^\r\n]*)$`)

// line = the text before the terminator
func checkFLine(rep *Report, w *CaseW, line, term, after string) {
	text := line + term + after
	in := Input{Kind: kFLine, Buf: text}
	c := inputCase(&in, nil)
	out, res := runCase(c)
	w.emitCase(c, out)
	rep.Cases++
	rep.OracleEval++
	if len(res) != 1 || res[0].Panic != "" {
		oracleSafe(rep, c, res)
		return
	}
	x := newRun(&in, nil).obj.(*oFLine)
	got := res[0].Calls[0]
	replay := map[string]interface{}{"case": json.RawMessage(caseJSON(c))}
	// the same line fed in pieces, and on an object that parsed another first line before and was Reset
	if len(text) > 2 {
		var every []int
		for k := 1; k < len(text); k++ {
			every = append(every, k)
		}
		for _, cuts := range [][]int{every, {len(text) / 2}, {min(15, len(text)-1)}} {
			c3 := inputCase(&in, cuts)
			out3, r3 := runCase(c3)
			w.emitCase(c3, out3)
			if len(r3) == 1 && r3[0].Panic == "" {
				oracleResume(rep, &in, cuts, &r3[0])
			}
		}
		prev := "SIP/2.0 486 Busy Here\r\nV"
		if len(line) > 0 && (line[0] == 'S' || line[0] == 's') {
			prev = "INVITE sip:a@b SIP/2.0\r\nV"
		}
		h := &Case{Kind: kFLine, Ops: []Op{{Buf: []byte(prev)}, {Reset: true}, {Buf: []byte(text)}}}
		outh, rh := runCase(h)
		w.emitCase(h, outh)
		if len(rh) == 3 && rh[2].Panic == "" && (len(rh[2].Calls) != 1 || rh[2].Calls[0] != got || !eqObs(rh[2].Obs.V, res[0].Obs.V)) {
			rep.violate(fmt.Sprintf("ParseFLine(%q) on a PFLine that was used for another first line and Reset differs from a new PFLine", text),
				"fline-reuse", map[string]interface{}{"case": json.RawMessage(caseJSON(h))})
		}
	}
	rq, rp := reReq.FindStringSubmatchIndex(line), reRpl.FindStringSubmatchIndex(line)
	enough := len(text) >= 14
	termOK := term == "\r\n" || term == "\n" && true || term == "\r" && after != "" && after[0] != '\n'
	if term == "\r\n" || term == "\n" || term == "\r" {
		// skipCRLF needs one byte of look-ahead after a lone CR / LF, two after CR
		if after == "" {
			termOK = false
		}
	}
	if got.E == sipsp.ErrHdrOk {
		f := &x.v
		get := func(p sipsp.PField) string { return text[p.Offs : p.Offs+p.Len] }
		switch {
		case rp != nil && !f.Request():
			want := int(line[rp[4]]-'0')*100 + int(line[rp[4]+1]-'0')*10 + int(line[rp[4]+2]-'0')
			if get(f.Version) != line[rp[2]:rp[3]] || get(f.StatusCode) != line[rp[4]:rp[5]] || get(f.Reason) != line[rp[6]:rp[7]] ||
				int(f.Status) != want || got.O != len(line)+len(term) {
				rep.violate(fmt.Sprintf("ParseFLine(%q): reply decomposed as %q %q %q status %d", text, get(f.Version), get(f.StatusCode), get(f.Reason), f.Status), "fline-split", replay)
			}
			rep.count("fline:reply")
		case rq != nil && f.Request() && rp == nil:
			if get(f.Method) != line[rq[2]:rq[3]] || get(f.URI) != line[rq[4]:rq[5]] || get(f.Version) != line[rq[6]:rq[7]] ||
				f.MethodNo != refMethod([]byte(line[rq[2]:rq[3]])) || got.O != len(line)+len(term) {
				rep.violate(fmt.Sprintf("ParseFLine(%q): request decomposed as %q %q %q method %d", text, get(f.Method), get(f.URI), get(f.Version), f.MethodNo), "fline-split", replay)
			}
			rep.count("fline:request")
		default:
			rep.violate(fmt.Sprintf("ParseFLine(%q) accepted a line that has no 'method SP uri SP version' / 'SIP/2.0 SP ddd SP reason' reading (Request=%v)", text, f.Request()), "fline-accept", replay)
		}
		rep.nontrivial(text)
	} else if (rq != nil || rp != nil) && enough && termOK && got.E != sipsp.ErrHdrOk {
		// a well formed line with enough look-ahead must be accepted
		if !(rp == nil && strings.HasPrefix(strings.ToUpper(line), "SIP/2.0 ")) { // a request whose method is "SIP/2.0" is read as a reply attempt
			rep.violate(fmt.Sprintf("ParseFLine(%q): well formed first line rejected with (%d,%d)", text, got.O, got.E), "fline-reject", replay)
		}
		rep.count("fline:wellformed-rejected?")
	} else {
		rep.count("fline:rejected-or-more")
	}
}

func propC08(g *G, w *CaseW, rep *Report, thorough bool) {
	terms := []string{"\r\n", "\n", "\r"}
	// all status codes
	for code := 0; code < 1000; code++ {
		if !thorough && code%7 != 0 && code > 110 {
			continue
		}
		checkFLine(rep, w, fmt.Sprintf("%s %03d %s", g.pick("SIP/2.0", "sip/2.0", "SiP/2.0"), code, g.pick("OK", "", "Not Found", "a  b", "x\ty")), terms[code%3], "V")
	}
	// all methods and neighbours
	for _, m := range methods {
		for _, t := range terms {
			checkFLine(rep, w, m+" sip:a@b SIP/2.0", t, "Via: x\r\n")
			checkFLine(rep, w, m+"X sip:a@b SIP/2.0", t, "V")
			checkFLine(rep, w, strings.ToLower(m)+" sip:a@b SIP/2.0", t, "V")
		}
	}
	n := scale(thorough, 2500, 30000)
	for i := 0; i < n; i++ {
		var line string
		if g.p(60) {
			line = g.pick(g.pick(methods...), g.tok(1, 9)) + " " + g.pick(g.uri(), g.tok(1, 12)) + " " + g.pick("SIP/2.0", g.tok(1, 8))
		} else {
			line = g.pick("SIP/2.0", "sip/2.0") + " " + fmt.Sprintf("%03d", g.n(1000)) + " " + g.pick("OK", "", g.tok(0, 10)+" "+g.tok(0, 5), "\tx")
		}
		// near misses
		switch g.n(9) {
		case 0:
			line = strings.Replace(line, " ", "  ", 1)
		case 1:
			line = strings.Replace(line, " ", "\t", 1)
		case 2:
			if k := strings.LastIndex(line, " "); k > 0 {
				line = line[:k]
			}
		case 3:
			if k := strings.Index(line, " "); k > 0 {
				line = line[:k+1] + " " + line[k+1:]
			}
		case 4:
			line = " " + line
		case 5:
			line = g.mutate(line)
		}
		if strings.ContainsAny(line, "\r\n") {
			continue
		}
		checkFLine(rep, w, line, terms[g.n(3)], g.pick("V", "Via: 1\r\n", "\r\n", "", " x"))
		if i < 3 {
			rep.sample(line)
		}
	}
}

// ---- C09 ------------------------------------------------------------------------
type naAST struct {
	text                         string
	name, uri, params, tag, v    span
	hasName, hasParams, hasTag   bool
	star, lr, hasExp             bool
	expires                      uint64
	q                            uint16
	qSet, qBad                   bool
}

// one value; bare = URI without angle brackets (its parameters are header parameters)
func (g *G) naValue(t *tb, allowStar bool) naAST {
	var a naAST
	va := t.pos()
	if allowStar && g.p(6) {
		s := t.w("*")
		a.star, a.uri, a.v = true, s, s
		return a
	}
	bare := g.p(30)
	if bare {
		a.uri = t.w(g.pick("sip:", "sips:") + g.pick(g.alnum(1, 5)+"@", "") + g.alnum(1, 6) + g.pick("", ".example.com", ":5060"))
	} else {
		switch g.n(4) {
		case 0:
			na := t.pos()
			t.w(g.quoted())
			t.w(g.pick("", " ", "\t", "\r\n "))
			a.name, a.hasName = span{na, t.pos()}, true
		case 1:
			na := t.pos()
			t.w(g.alnum(1, 6))
			if g.p(40) {
				t.w(g.pick(" ", "\t", "  ") + g.alnum(1, 5))
			}
			t.w(g.pick(" ", "\t", " \r\n "))
			a.name, a.hasName = span{na, t.pos()}, true
		}
		t.w("<")
		a.uri = t.w(g.uri())
		t.w(">")
	}
	end := t.pos()
	np := g.n(4)
	used := map[string]bool{}
	for k := 0; k < np; k++ {
		nm := g.pick("tag", "expires", "q", "lr", "x", "foo", "methods", "+sip.instance")
		if used[nm] {
			continue
		}
		used[nm] = true
		t.w(g.pick("", " ", "\t", "\r\n ") + ";" + g.pick("", " ", "\t"))
		pa := t.pos()
		if !a.hasParams {
			a.params.a, a.hasParams = pa, true
		}
		shown := nm
		if g.p(30) {
			shown = g.caseMix(nm)
		}
		t.w(shown)
		end = t.pos()
		if nm == "lr" && g.p(60) {
			a.lr = true
			continue
		}
		t.w(g.pick("", " ", "\t") + "=" + g.pick("", " ", "\r\n\t"))
		var val string
		switch nm {
		case "tag":
			val = g.tok(1, 10)
		case "expires":
			val = g.pick("0", "60", "3600", "4294967295", "4294967296", "99999999999999999999999")
		case "q":
			val = g.pick("0", "1", "0.5", "0.25", "1.0", "1.000", "0.999", "0.7", "0.05", "1.5", "2", "0.1234")
		case "lr":
			val = g.alnum(1, 3)
		default:
			val = g.pick(g.tok(1, 6), g.quoted(), g.alnum(1, 4))
		}
		vs := t.w(val)
		end = vs.b
		switch nm {
		case "tag":
			a.tag, a.hasTag = vs, true
		case "expires":
			a.hasExp = true
			v, ovf := decimal([]byte(val))
			if ovf || v > 4294967295 {
				v = 4294967295
			}
			a.expires = v
		case "q":
			qv, ok := refQ(val)
			a.q, a.qSet, a.qBad = qv, ok, !ok
		case "lr":
			a.lr = true
		}
	}
	if a.hasParams {
		a.params.b = end
	}
	a.v = span{va, end}
	return a
}

func cmpNA(f *sipsp.PFromBody, a *naAST, text string, typ sipsp.HdrT) string {
	get := func(p sipsp.PField) string { return text[p.Offs : p.Offs+p.Len] }
	sp := func(s span) string { return text[s.a:s.b] }
	if f.Type != typ {
		return fmt.Sprintf("Type %d, expected %d", f.Type, typ)
	}
	if f.Star != a.star {
		return fmt.Sprintf("Star %v", f.Star)
	}
	if f.URI != a.uri.pf() {
		return fmt.Sprintf("URI %q, written %q", get(f.URI), sp(a.uri))
	}
	if f.V != a.v.pf() {
		return fmt.Sprintf("V %q, written %q", get(f.V), sp(a.v))
	}
	if a.hasName {
		// the display name is reported from its first byte up to the '<'
		if f.Name != a.name.pf() {
			return fmt.Sprintf("Name %q, written %q", get(f.Name), sp(a.name))
		}
	} else if f.Name.Len != 0 {
		return fmt.Sprintf("Name %q although none was written", get(f.Name))
	}
	if a.hasParams {
		if f.Params != a.params.pf() {
			return fmt.Sprintf("Params %q, written %q", get(f.Params), sp(a.params))
		}
	} else if f.Params.Len != 0 {
		return fmt.Sprintf("Params %q although none were written", get(f.Params))
	}
	if a.hasTag {
		if f.Tag != a.tag.pf() {
			return fmt.Sprintf("Tag %q, written %q", get(f.Tag), sp(a.tag))
		}
	} else if f.Tag.Len != 0 {
		return "Tag reported although none was written"
	}
	if f.LR != a.lr {
		return fmt.Sprintf("LR %v, expected %v", f.LR, a.lr)
	}
	if f.HasExpires != a.hasExp || (a.hasExp && uint64(f.Expires) != a.expires) {
		return fmt.Sprintf("HasExpires %v Expires %d, expected %v %d", f.HasExpires, f.Expires, a.hasExp, a.expires)
	}
	if a.qSet && f.Q != a.q {
		return fmt.Sprintf("Q %d, expected %d", f.Q, a.q)
	}
	if a.qBad && (f.Q != 0 || f.ParamErr == 0) {
		return fmt.Sprintf("invalid q accepted as %d", f.Q)
	}
	return ""
}

func propC09(g *G, w *CaseW, rep *Report, thorough bool) {
	n := scale(thorough, 3000, 40000)
	for i := 0; i < n; i++ {
		switch i % 3 {
		case 0: // one value through ParseNameAddrPVal for each header kind
			h := naHdrs[g.n(len(naHdrs))]
			var t tb
			offs := 0
			if g.p(35) {
				offs = t.w(g.pick("From: ", "m:", "xx", "Contact:\t", "\"")).b
			}
			t.w(g.pick("", " ", "\t", "\r\n "))
			a := g.naValue(&t, h == int(sipsp.HdrContact))
			t.w(g.pick("", " ", "\t"))
			t.w(g.pick("\r\nX", "\nV: 1\r\n", "\r\n\r\n"))
			text := t.sb.String()
			in := Input{Kind: kNameAddr, A: h, Buf: text, Offs: offs}
			var cuts []int
			if g.p(50) {
				cuts = g.cutsFor(offs, text)
			}
			c := inputCase(&in, cuts)
			out, res := runCase(c)
			w.emitCase(c, out)
			rep.Cases++
			rep.OracleEval++
			if len(res) != 1 || res[0].Panic != "" {
				oracleSafe(rep, c, res)
				continue
			}
			x := newRun(&in, cuts).obj.(*oNameAddr)
			last := res[0].Calls[len(res[0].Calls)-1]
			bad := ""
			if last.E != sipsp.ErrHdrOk {
				bad = fmt.Sprintf("well formed value rejected with (%d,%d)", last.O, last.E)
			} else {
				bad = cmpNA(&x.v, &a, text, sipsp.HdrT(h))
			}
			if bad != "" {
				rep.violate(fmt.Sprintf("ParseNameAddrPVal(%d): %s", h, bad), "nameaddr", map[string]interface{}{"case": json.RawMessage(caseJSON(c))})
			}
			rep.nontrivial(text)
			if i < 6 {
				rep.sample(text)
			}
		case 1: // comma separated lists through the Contact / PAI list parsers
			kind := []int{kContacts, kPAIs}[g.n(2)]
			var t tb
			var as []naAST
			cnt := 1 + g.n(5)
			for k := 0; k < cnt; k++ {
				if k > 0 {
					t.w(g.pick("", " ", "\t", "\r\n ") + "," + g.pick("", " ", "\r\n\t"))
				}
				as = append(as, g.naValue(&t, false))
			}
			t.w(g.pick("", " ") + "\r\nX")
			text := t.sb.String()
			capc := g.n(4)
			in := Input{Kind: kind, A: capc, Buf: text}
			c := inputCase(&in, nil)
			out, res := runCase(c)
			w.emitCase(c, out)
			rep.Cases++
			rep.OracleEval++
			if len(res) != 1 || res[0].Panic != "" {
				oracleSafe(rep, c, res)
				continue
			}
			o := newRun(&in, nil).obj
			last := res[0].Calls[0]
			bad := ""
			var vals []sipsp.PFromBody
			var N int
			typ := sipsp.HdrContact
			if kind == kContacts {
				x := o.(*oContacts)
				N, vals = x.v.N, x.v.Vals[:x.v.VNo()]
				var mn, mx uint64 = 4294967295, 0
				for _, a := range as {
					e := uint64(0)
					if a.hasExp {
						e = a.expires
					}
					if e > mx {
						mx = e
					}
					if e < mn {
						mn = e
					}
				}
				if last.E == sipsp.ErrHdrOk && (uint64(x.v.MaxExpires) != mx || uint64(x.v.MinExpires) != mn) {
					bad = fmt.Sprintf("Min/MaxExpires %d/%d, the values say %d/%d", x.v.MinExpires, x.v.MaxExpires, mn, mx)
				}
			} else {
				x := o.(*oPAIs)
				N, vals = x.v.N, x.v.Vals[:x.v.VNo()]
				typ = sipsp.HdrPAI
			}
			if last.E != sipsp.ErrHdrOk {
				bad = fmt.Sprintf("well formed list rejected with (%d,%d)", last.O, last.E)
			} else if N != cnt {
				bad = fmt.Sprintf("N = %d for %d values", N, cnt)
			}
			for k := 0; bad == "" && k < len(vals); k++ {
				if m := cmpNA(&vals[k], &as[k], text, typ); m != "" {
					bad = fmt.Sprintf("value %d: %s", k, m)
				}
			}
			if bad != "" {
				rep.violate(kindNames[kind]+": "+bad, "nameaddr-list", map[string]interface{}{"case": json.RawMessage(caseJSON(c))})
			}
			rep.nontrivial(text)
		default: // message level: several Contact / PAI headers, From, To
			var t tb
			t.w("REGISTER sip:x@y SIP/2.0\r\n")
			var from, to naAST
			var cts, pais []naAST
			nh := 0
			order := g.r.Perm(5)
			for _, k := range order {
				switch k {
				case 0:
					t.w(g.pick("From", "f", "FROM") + ":" + g.pick("", " "))
					from = g.naValue(&t, false)
					t.w("\r\n")
				case 1:
					t.w(g.pick("To", "t") + ": ")
					to = g.naValue(&t, false)
					t.w("\r\n")
				case 2, 3:
					if g.p(70) {
						nh++
						t.w(g.pick("Contact", "m", "CONTACT") + ":" + g.pick("", " "))
						for q := g.n(3); q >= 0; q-- {
							cts = append(cts, g.naValue(&t, false))
							if q > 0 {
								t.w(g.pick("", " ") + "," + g.pick("", " ", "\r\n "))
							}
						}
						t.w("\r\n")
					}
				case 4:
					if g.p(50) {
						t.w("P-Asserted-Identity: ")
						pais = append(pais, g.naValue(&t, false))
						t.w("\r\n")
					}
				}
			}
			t.w("\r\n")
			text := t.sb.String()
			in := Input{Kind: kMsg, A: -1, B: []int{-1, 0, 1, 2, 4}[g.n(5)], Buf: text}
			c := inputCase(&in, nil)
			reused := g.p(35)
			if reused { // the object was used before: an abandoned parse of a prefix, then Reset
				cutAt := 30 + g.n(len(text)-30)
				c.Ops = []Op{{Buf: []byte(text[:cutAt])}, {Reset: true}, c.Ops[0]}
			}
			out, res := runCase(c)
			w.emitCase(c, out)
			rep.Cases++
			rep.OracleEval++
			if len(res) != len(c.Ops) || res[len(res)-1].Panic != "" {
				oracleSafe(rep, c, res)
				continue
			}
			res = res[len(res)-1:]
			xo := newObj(kMsg, in.A, in.B, 0)
			for k := range c.Ops {
				runOp(xo, &c.Ops[k])
			}
			x := xo.(*oMsg)
			bad := ""
			if e := res[0].Calls[0].E; e != sipsp.ErrHdrOk {
				bad = fmt.Sprintf("well formed message rejected with %d", e)
			} else {
				pv := &x.m.PV
				if m := cmpNA(&pv.From, &from, text, sipsp.HdrFrom); m != "" {
					bad = "From: " + m
				} else if m := cmpNA(&pv.To, &to, text, sipsp.HdrTo); m != "" {
					bad = "To: " + m
				} else if pv.Contacts.N != len(cts) || pv.Contacts.HNo != nh {
					bad = fmt.Sprintf("Contacts.N/HNo = %d/%d, sent %d values in %d headers", pv.Contacts.N, pv.Contacts.HNo, len(cts), nh)
				} else if pv.PAIs.N != len(pais) || pv.PAIs.HNo != len(pais) {
					bad = fmt.Sprintf("PAIs.N/HNo = %d/%d, sent %d", pv.PAIs.N, pv.PAIs.HNo, len(pais))
				}
				for k := 0; bad == "" && k < pv.Contacts.VNo(); k++ {
					if m := cmpNA(&pv.Contacts.Vals[k], &cts[k], text, sipsp.HdrContact); m != "" {
						bad = fmt.Sprintf("contact %d: %s", k, m)
					}
				}
				if bad == "" && len(cts) > 0 {
					if f := pv.Contacts.GetContact(0); f == nil || cmpNA(f, &cts[0], text, sipsp.HdrContact) != "" {
						bad = "GetContact(0) is not the first contact"
					} else if f := pv.Contacts.GetContact(len(cts) - 1); f == nil || cmpNA(f, &cts[len(cts)-1], text, sipsp.HdrContact) != "" {
						bad = "GetContact(N-1) is not the last contact"
					}
				}
			}
			if bad != "" {
				rep.violate("ParseSIPMsg name-addr headers: "+bad, "nameaddr-msg", map[string]interface{}{"case": json.RawMessage(caseJSON(c))})
			}
			rep.nontrivial(text)
		}
	}
}

// ---- C17 ------------------------------------------------------------------------
type paramAST struct {
	name, val, all span
	hasVal        bool
}

const unreserved = "abcdefghijklmnopqrstuvwxyzABCDEFGHIJKLMNOPQRSTUVWXYZ0123456789-_.!~*'()%[]/:+$"

func (g *G) ptok(min, max int, extra string) string {
	cs := unreserved + extra
	n := min + g.n(max-min+1)
	var sb strings.Builder
	for i := 0; i < n; i++ {
		sb.WriteByte(cs[g.n(len(cs))])
	}
	return sb.String()
}

func propC17(g *G, w *CaseW, rep *Report, thorough bool) {
	n := scale(thorough, 3000, 40000)
	type mode struct {
		flags      uint
		sep        byte
		extra      string // extra allowed char in names/values
		quotedOK   bool
		term       string // terminator text appended ("" = end of header / input)
		termResult sipsp.ErrorHdr
	}
	F := func(x ...sipsp.POptFlags) uint {
		var r sipsp.POptFlags
		for _, f := range x {
			r |= f
		}
		return uint(r)
	}
	modes := []mode{
		{F(sipsp.POptParamSemiSepF), ';', "?", true, "", sipsp.ErrHdrEOH},
		{F(sipsp.POptParamSemiSepF, sipsp.POptTokCommaTermF), ';', "?", true, ",", sipsp.ErrHdrOk},
		{F(sipsp.POptParamSemiSepF, sipsp.POptTokQmTermF), ';', "", true, "?", sipsp.ErrHdrOk},
		{F(sipsp.POptParamSemiSepF, sipsp.POptTokURIParamF), ';', "&", true, "?", sipsp.ErrHdrOk},
		{F(sipsp.POptParamSemiSepF, sipsp.POptInputEndF), ';', "?", true, "", sipsp.ErrHdrEOH},
		{F(sipsp.POptParamAmpSepF, sipsp.POptTokURIHdrF, sipsp.POptInputEndF), '&', "?", true, "", sipsp.ErrHdrEOH},
		{F(sipsp.POptParamSemiSepF, sipsp.POptTokSpTermF), ';', "?", true, " tok", sipsp.ErrHdrOk},
	}
	for i := 0; i < n; i++ {
		m := modes[g.n(len(modes))]
		inputEnd := m.flags&uint(sipsp.POptInputEndF) != 0
		var t tb
		var ps []paramAST
		cnt := g.n(5)
		lws := func() string {
			if m.term == " tok" { // white space would be the terminator
				return ""
			}
			return g.pick("", "", " ", "\t", "\r\n ")
		}
		for k := 0; k < cnt; k++ {
			if k > 0 {
				t.w(lws() + string(m.sep) + lws())
				if g.p(10) {
					t.w(string(m.sep)) // an empty item is skipped
				}
			}
			var p paramAST
			if g.p(40) && m.sep == ';' {
				p.name = t.w(g.caseMix(g.pick("transport", "lr", "maddr", "user", "method", "ttl")))
			} else {
				p.name = t.w(g.ptok(1, 6, m.extra))
			}
			p.all = p.name
			shape := g.n(4)
			if shape == 1 && m.term == " tok" {
				shape = 2 // "name= tok" would read tok as the value
			}
			switch shape {
			case 0: // no value
			case 1: // name=
				t.w(lws() + "=")
				p.all.b = t.pos()
				p.val = span{t.pos(), t.pos()}
				p.hasVal = true
			case 2:
				t.w(lws() + "=" + lws())
				p.val = t.w(g.ptok(1, 8, m.extra))
				p.all.b, p.hasVal = p.val.b, true
			default:
				t.w(lws() + "=" + lws())
				p.val = t.w(g.quoted())
				p.all.b, p.hasVal = p.val.b, true
			}
			ps = append(ps, p)
		}
		endList := t.pos()
		if cnt == 0 {
			continue // the empty list is finding F12's territory, checked separately below
		}
		termAt := -1
		switch {
		case m.term == " tok":
			termAt = t.pos()
			t.w(" tok\r\nX")
		case m.term != "":
			t.w(g.pick("", " "))
			termAt = t.pos()
			t.w(m.term + "rest\r\nX")
		case inputEnd:
			// nothing: the input ends here
		default:
			t.w(g.pick("", " ") + "\r\nX")
		}
		text := t.sb.String()
		_ = endList
		// one parameter at a time through ParseTokenParam
		x := &sipsp.PTokParam{}
		offs := 0
		bad := ""
		buf := []byte(text)
		var e sipsp.ErrorHdr
		var next int
		for k := 0; k < cnt && bad == ""; k++ {
			x.Reset()
			if p := safeCall(func() { next, e = sipsp.ParseTokenParam(cp(buf), offs, x, sipsp.POptFlags(m.flags)) }); p != "" {
				bad = "panic: " + p
				break
			}
			rep.OracleEval++
			want := ps[k]
			lastOne := k == cnt-1
			switch {
			case !lastOne && e != sipsp.ErrHdrMoreValues:
				bad = fmt.Sprintf("parameter %d: verdict %d, expected more-values", k, e)
			case lastOne && e != m.termResult:
				bad = fmt.Sprintf("last parameter: verdict %d, expected %d", e, m.termResult)
			case x.Name != want.name.pf():
				bad = fmt.Sprintf("parameter %d: name %v, written %v", k, x.Name, want.name.pf())
			case want.hasVal && want.val.b > want.val.a && x.Val != want.val.pf():
				bad = fmt.Sprintf("parameter %d: value %v, written %v", k, x.Val, want.val.pf())
			case (!want.hasVal || want.val.b == want.val.a) && x.Val.Len != 0:
				bad = fmt.Sprintf("parameter %d: value %v, none written", k, x.Val)
			case lastOne && termAt >= 0 && next != termAt:
				bad = fmt.Sprintf("list ended at %d, the terminator is at %d", next, termAt)
			case lastOne && termAt < 0 && inputEnd && next != len(text):
				bad = fmt.Sprintf("list ended at %d, the input at %d", next, len(text))
			}
			offs = next
		}
		replay := map[string]interface{}{"text": text, "hex": hexs(text), "flags": m.flags}
		if bad != "" {
			rep.violate("ParseTokenParam: "+bad, "param-list", replay)
		}
		// the wrappers
		kind := kURIParams
		if m.sep == '&' {
			kind = kURIHdrs
		}
		wf := m.flags &^ uint(sipsp.POptParamSemiSepF|sipsp.POptParamAmpSepF|sipsp.POptTokURIHdrF)
		in := Input{Kind: kind, A: g.n(6), Flags: wf, Buf: text}
		c := inputCase(&in, nil)
		out, res := runCase(c)
		w.emitCase(c, out)
		rep.Cases++
		if len(res) == 1 && res[0].Panic == "" {
			o := newRun(&in, nil).obj
			if kind == kURIParams {
				l := &o.(*oURIParams).v
				var types sipsp.URIParamF
				for _, p := range ps {
					types |= refResolve(text[p.name.a:p.name.b])
				}
				if l.N != cnt || l.Types != types {
					rep.violate(fmt.Sprintf("ParseAllURIParams: N=%d Types=%d for %d parameters of types %d", l.N, l.Types, cnt, types), "param-wrapper", replay)
				}
				for k := 0; k < l.PNo(); k++ {
					if l.Params[k].T != refResolve(text[ps[k].name.a:ps[k].name.b]) || l.Params[k].Param.Name != ps[k].name.pf() {
						rep.violate(fmt.Sprintf("ParseAllURIParams: parameter %d has type %d / name %v", k, l.Params[k].T, l.Params[k].Param.Name), "param-wrapper", replay)
					}
				}
			} else {
				l := &o.(*oURIHdrs).v
				if l.N != cnt {
					rep.violate(fmt.Sprintf("ParseAllURIHdrs: N=%d for %d headers", l.N, cnt), "param-wrapper", replay)
				}
			}
		}
		// tokparam through the model as well, one-shot and cut next to a special byte / at every byte
		in2 := Input{Kind: kTokParam, Flags: m.flags, Buf: text}
		c2 := inputCase(&in2, nil)
		out2, _ := runCase(c2)
		w.emitCase(c2, out2)
		var every []int
		for k := 1; k < len(text); k++ {
			every = append(every, k)
		}
		for _, in3 := range []Input{in2, in} {
			for _, cuts := range [][]int{every, g.cutsFor(0, text)} {
				c3 := inputCase(&in3, cuts)
				out3, r3 := runCase(c3)
				w.emitCase(c3, out3)
				if len(r3) == 1 && r3[0].Panic == "" {
					oracleResume(rep, &in3, cuts, &r3[0])
				}
			}
		}
		rep.nontrivial(text)
		if i < 3 {
			rep.sample(replay)
		}
	}
	// a byte outside the documented set is rejected at that byte
	for i := 0; i < scale(thorough, 1500, 15000); i++ {
		m := modes[g.n(len(modes))]
		badc := []byte("\x00\x01\x7f\x80\xff{}|^`#<>\\\"@")[g.n(16)]
		if badc == '"' {
			continue
		}
		inName := g.p(50)
		var text string
		at := 0
		if inName {
			pre := g.ptok(1, 4, "")
			at = len(pre)
			text = pre + string(badc) + g.ptok(0, 3, "") + "=v\r\nX"
		} else {
			pre := g.ptok(1, 4, "") + "=" + g.ptok(1, 4, "")
			at = len(pre)
			text = pre + string(badc) + "x\r\nX"
		}
		x := &sipsp.PTokParam{}
		var e sipsp.ErrorHdr
		var next int
		p := safeCall(func() { next, e = sipsp.ParseTokenParam(cp([]byte(text)), 0, x, sipsp.POptFlags(m.flags)) })
		rep.OracleEval++
		rep.Cases++
		if p != "" || e != sipsp.ErrHdrBadChar || next != at {
			rep.violate(fmt.Sprintf("ParseTokenParam(%q, flags %d): byte %#x outside the parameter character set gives (%d,%d) %s, expected bad-char at %d", text, m.flags, badc, next, e, p, at),
				"param-charset", map[string]interface{}{"text": text, "hex": hexs(text), "flags": m.flags})
		}
		in2 := Input{Kind: kTokParam, Flags: m.flags, Buf: text}
		c2 := inputCase(&in2, nil)
		out2, _ := runCase(c2)
		w.emitCase(c2, out2)
	}
	// finding F12: lists without any item
	for _, s := range []string{"", ";"} {
		var l sipsp.URIParamsLst
		l.Init(make([]sipsp.URIParam, 4))
		sipsp.ParseAllURIParams([]byte(s), 0, &l, sipsp.POptInputEndF)
		if l.N != 0 {
			rep.violate(fmt.Sprintf("ParseAllURIParams(%q, POptInputEndF): N = %d for a list without parameters", s, l.N), "list-count-empty", map[string]string{"text": s})
		}
	}
}

func refResolve(n string) sipsp.URIParamF {
	switch asciiLower([]byte(n)) {
	case "transport":
		return sipsp.URIParamTransportF
	case "user":
		return sipsp.URIParamUserF
	case "method":
		return sipsp.URIParamMethodF
	case "ttl":
		return sipsp.URIParamTTLF
	case "maddr":
		return sipsp.URIParamMaddrF
	case "lr":
		return sipsp.URIParamLRF
	}
	return sipsp.URIParamOtherF
}

// ---- C05 ------------------------------------------------------------------------
func propC05(g *G, w *CaseW, rep *Report, thorough bool) {
	n := scale(thorough, 2500, 30000)
	for i := 0; i < n; i++ {
		text := g.message()
		if g.p(15) {
			text = g.mutate(text)
		}
		offs := 0
		if g.p(20) {
			j := g.hostile(5)
			offs = len(j)
			text = j + text
		}
		in := Input{Kind: kMsg, A: []int{-1, -1, 2, 40}[g.n(4)], B: []int{-1, 0, 1, 20}[g.n(4)], Flags: uint(g.n(8)), Buf: text, Offs: offs}
		var cuts []int
		if g.p(35) {
			cuts = g.cuts(offs, len(text))
		}
		c := inputCase(&in, cuts)
		out, res := runCase(c)
		w.emitCase(c, out)
		rep.Cases++
		if len(res) != 1 || res[0].Panic != "" {
			oracleSafe(rep, c, res)
			continue
		}
		last := res[0].Calls[len(res[0].Calls)-1]
		rep.count("verdict:" + errName(last.E))
		if last.E != sipsp.ErrHdrOk {
			continue
		}
		rep.OracleEval++
		x := newRun(&in, cuts).obj.(*oMsg)
		if bad := containment(&x.m, []byte(text), offs, last.O); bad != "" {
			rep.violate("ParseSIPMsg: "+bad, "containment", map[string]interface{}{"case": json.RawMessage(caseJSON(c))})
		}
		rep.nontrivial(text)
		if i < 3 {
			rep.sample(text)
		}
	}
}

func containment(m *sipsp.PSIPMsg, buf []byte, offs, end int) string {
	all := span{offs, end}
	chk := func(name string, f sipsp.PField, outer span) string {
		if f.Len == 0 {
			return ""
		}
		if !within(pfSpan(f), outer) {
			return fmt.Sprintf("%s %v lies outside [%d,%d)", name, f, outer.a, outer.b)
		}
		return ""
	}
	order := func(names []string, fs ...sipsp.PField) string {
		p := offs
		for i, f := range fs {
			if f.Len == 0 {
				continue
			}
			if int(f.Offs) < p {
				return fmt.Sprintf("%s %v starts before the end of the previous field (%d)", names[i], f, p)
			}
			p = pfEnd(f)
		}
		return ""
	}
	fl := &m.FL
	for _, x := range []struct {
		n string
		f sipsp.PField
	}{{"Method", fl.Method}, {"URI", fl.URI}, {"Version", fl.Version}, {"StatusCode", fl.StatusCode}, {"Reason", fl.Reason}, {"Body", m.Body}} {
		if s := chk(x.n, x.f, all); s != "" {
			return s
		}
	}
	if fl.Request() {
		if s := order([]string{"Method", "URI", "Version"}, fl.Method, fl.URI, fl.Version); s != "" {
			return s
		}
	} else if s := order([]string{"Version", "StatusCode", "Reason"}, fl.Version, fl.StatusCode, fl.Reason); s != "" {
		return s
	}
	// the logical lines between the first line and the body
	lines, bodyStart, ok := splitLines(buf, offs, end)
	stored := m.HL.N
	if stored > len(m.HL.Hdrs) {
		stored = len(m.HL.Hdrs)
	}
	prev := offs
	for i := 0; i < stored; i++ {
		h := &m.HL.Hdrs[i]
		if int(h.Name.Offs) < prev {
			return fmt.Sprintf("header %d name %v overlaps the previous header (ends %d)", i, h.Name, prev)
		}
		if h.Val.Len > 0 && int(h.Val.Offs) < pfEnd(h.Name) {
			return fmt.Sprintf("header %d value %v starts before its name ends", i, h.Val)
		}
		prev = pfEnd(h.Name)
		if h.Val.Len > 0 {
			prev = pfEnd(h.Val)
			v := h.Val.Get(buf)
			if isWS(v[0]) || isWS(v[len(v)-1]) {
				return fmt.Sprintf("header %d value %q is not trimmed", i, v)
			}
		}
		if ok && len(lines) == m.HL.N+1 { // +1: the first line
			ln := lines[i+1]
			if !within(pfSpan(h.Name), ln) || (h.Val.Len > 0 && !within(pfSpan(h.Val), ln)) {
				return fmt.Sprintf("header %d name %v / value %v leave their own line [%d,%d)", i, h.Name, h.Val, ln.a, ln.b)
			}
		}
	}
	if ok && len(lines) == m.HL.N+1 && int(m.Body.Offs) != bodyStart {
		return fmt.Sprintf("body starts at %d, the headers end at %d", m.Body.Offs, bodyStart)
	}
	if pfEnd(m.Body) != end {
		return fmt.Sprintf("body ends at %d, the returned offset is %d", pfEnd(m.Body), end)
	}
	if string(m.RawMsg) != string(buf[offs:end]) {
		return "RawMsg is not the bytes from the start offset to the returned offset"
	}
	nest := func(what string, f *sipsp.PFromBody, hv *sipsp.Hdr) string {
		v := pfSpan(f.V)
		for _, x := range []struct {
			n string
			f sipsp.PField
		}{{"Name", f.Name}, {"URI", f.URI}, {"Params", f.Params}} {
			if s := chk(what+"."+x.n, x.f, v); s != "" {
				return s
			}
		}
		if s := chk(what+".Tag", f.Tag, pfSpan(f.Params)); s != "" {
			return s
		}
		if s := chk(what+".V", f.V, all); s != "" {
			return s
		}
		if hv != nil && hv.Val.Len > 0 {
			if s := chk(what+".V (inside the header value)", f.V, pfSpan(hv.Val)); s != "" {
				return s
			}
		}
		return ""
	}
	pv := &m.PV
	if pv.From.Parsed() {
		if s := nest("From", &pv.From, m.HL.GetHdr(sipsp.HdrFrom)); s != "" {
			return s
		}
	}
	if pv.To.Parsed() {
		if s := nest("To", &pv.To, m.HL.GetHdr(sipsp.HdrTo)); s != "" {
			return s
		}
	}
	for i := 0; i < pv.Contacts.VNo(); i++ {
		if s := nest(fmt.Sprintf("Contact[%d]", i), &pv.Contacts.Vals[i], nil); s != "" {
			return s
		}
	}
	for i := 0; i < pv.PAIs.VNo(); i++ {
		if s := nest(fmt.Sprintf("PAI[%d]", i), &pv.PAIs.Vals[i], nil); s != "" {
			return s
		}
	}
	if pv.CSeq.Parsed() {
		v := pfSpan(pv.CSeq.V)
		if s := chk("CSeq.CSeq", pv.CSeq.CSeq, v); s != "" {
			return s
		}
		if s := chk("CSeq.Method", pv.CSeq.Method, v); s != "" {
			return s
		}
		if s := chk("CSeq.V", pv.CSeq.V, all); s != "" {
			return s
		}
	}
	for _, x := range []struct {
		n string
		f sipsp.PField
	}{{"Call-ID", pv.Callid.CallID}, {"Content-Length", pv.CLen.SVal}, {"Expires", pv.Expires.SVal}} {
		if s := chk(x.n, x.f, all); s != "" {
			return s
		}
	}
	// a multi-value header's Val covers exactly its own values
	cIdx := 0
	for i := 0; i < stored; i++ {
		h := &m.HL.Hdrs[i]
		if h.Type != sipsp.HdrContact || h.Val.Len == 0 {
			continue
		}
		for cIdx < pv.Contacts.VNo() && pfEnd(pv.Contacts.Vals[cIdx].V) <= int(h.Val.Offs) {
			cIdx++
		}
		if cIdx < pv.Contacts.VNo() {
			v := pv.Contacts.Vals[cIdx].V
			if int(v.Offs) >= int(h.Val.Offs) && int(v.Offs) < pfEnd(h.Val) && int(v.Offs) != int(h.Val.Offs) && cIdx > 0 &&
				pfEnd(pv.Contacts.Vals[cIdx-1].V) > int(h.Val.Offs) {
				return fmt.Sprintf("Contact header %d value %v starts inside an earlier header's value", i, h.Val)
			}
		}
	}
	return ""
}

// logical lines [a,b) (terminator excluded) from offs up to and including the blank line
func splitLines(buf []byte, offs, end int) (lines []span, bodyStart int, ok bool) {
	i := offs
	for i < end {
		// blank line?
		if len(lines) > 0 {
			if buf[i] == '\r' {
				if i+1 < len(buf) && buf[i+1] == '\n' {
					return lines, i + 2, true
				}
				return lines, i + 1, true
			}
			if buf[i] == '\n' {
				return lines, i + 1, true
			}
		}
		a := i
		for {
			for i < end && buf[i] != '\r' && buf[i] != '\n' {
				i++
			}
			if i >= end {
				return lines, 0, false
			}
			e := i
			if buf[i] == '\r' && i+1 < len(buf) && buf[i+1] == '\n' {
				i += 2
			} else {
				i++
			}
			if len(lines) > 0 && i < len(buf) && (buf[i] == ' ' || buf[i] == '\t') {
				continue // folded
			}
			lines = append(lines, span{a, e})
			break
		}
	}
	return lines, 0, false
}

// ---- C19 ------------------------------------------------------------------------
var sigOrder = []sipsp.HdrT{sipsp.HdrCallID, sipsp.HdrContact, sipsp.HdrCSeq, sipsp.HdrFrom, sipsp.HdrMaxFwd, sipsp.HdrTo, sipsp.HdrVia, sipsp.HdrUA}
var reSig = regexp.MustCompile(`^[0-9a-f]{1,9}I[0-9a-f]{6}F[0-9a-f]{4}V[0-9a-f]{4}$`)

type sigHdr struct {
	t       sipsp.HdrT // HdrOther = filler
	compact bool
	line    string
}

func (g *G) sigMessage() (string, []sigHdr, string, string, string) {
	method := g.pick("INVITE", "INVITE", "REGISTER", "OPTIONS", "BYE", "MESSAGE", "FOO")
	cid, tag, branch := g.callID(), g.tok(1, 12), g.pick("z9hG4bK"+g.alnum(1, 12), g.tok(1, 10))
	fp := []sigHdr{
		{sipsp.HdrCallID, false, "Call-ID: " + cid}, {sipsp.HdrContact, false, "Contact: <sip:" + g.alnum(1, 4) + "@" + g.host() + ">"},
		{sipsp.HdrCSeq, false, "CSeq: " + fmt.Sprint(g.n(1000)) + " " + method}, {sipsp.HdrFrom, false, "From: <sip:a@b>;tag=" + tag},
		{sipsp.HdrMaxFwd, false, "Max-Forwards: 70"}, {sipsp.HdrTo, false, "To: <sip:c@d>"},
		{sipsp.HdrVia, false, "Via: SIP/2.0/UDP h.example.com;branch=" + branch}, {sipsp.HdrUA, false, "User-Agent: " + g.alnum(1, 6)},
	}
	compact := map[sipsp.HdrT]string{sipsp.HdrCallID: "i", sipsp.HdrContact: "m", sipsp.HdrFrom: "f", sipsp.HdrTo: "t", sipsp.HdrVia: "v"}
	var hs []sigHdr
	for _, k := range g.r.Perm(len(fp)) {
		if g.p(85) {
			h := fp[k]
			if c, ok := compact[h.t]; ok && g.p(35) {
				h.compact = true
				h.line = c + h.line[strings.Index(h.line, ":"):]
			}
			hs = append(hs, h)
		}
	}
	return method, hs, cid, tag, branch
}

// the Content-Length header goes to position clAt (clamped), so that any header can be the last one
func renderSigAt(method string, hs []sigHdr, body string, clAt int) string {
	var sb strings.Builder
	sb.WriteString(method + " sip:x@y SIP/2.0\r\n")
	cl := "Content-Length: " + fmt.Sprint(len(body)) + "\r\n"
	if clAt > len(hs) || clAt < 0 {
		clAt = len(hs)
	}
	for i, h := range hs {
		if i == clAt {
			sb.WriteString(cl)
		}
		sb.WriteString(h.line + "\r\n")
	}
	if clAt == len(hs) {
		sb.WriteString(cl)
	}
	sb.WriteString("\r\n" + body)
	return sb.String()
}
func renderSig(method string, hs []sigHdr, body string) string { return renderSigAt(method, hs, body, -1) }

func (g *G) filler() sigHdr {
	return sigHdr{sipsp.HdrOther, false, g.pick("X-"+g.alnum(1, 5)+": "+g.alnum(0, 8), "Expires: "+fmt.Sprint(g.n(4000)), "Route: <sip:p"+g.alnum(1, 3)+".example.com;lr>",
		"Record-Route: <sip:r.example.com>", "Subject: "+g.alnum(1, 9), "P-Asserted-Identity: <sip:i@j>", "Allow: INVITE, ACK")}
}

func propC19(g *G, w *CaseW, rep *Report, thorough bool) {
	n := scale(thorough, 1500, 20000)
	for i := 0; i < n; i++ {
		method, hs, _, _, _ := g.sigMessage()
		clAt := -1
		if g.p(60) {
			clAt = g.n(len(hs) + 1)
		}
		base := renderSigAt(method, hs, "", clAt)
		r0 := emitMsgSig(w, []byte(base), 40, -1, 0, 0)
		rep.Cases++
		rep.OracleEval++
		replay := map[string]interface{}{"base": base}
		if r0.Panic != "" {
			rep.violate("GetMsgSig panics: "+r0.Panic, "panic:GetMsgSig", replay)
			continue
		}
		if r0.E != sipsp.ErrHdrOk {
			rep.violate(fmt.Sprintf("generated request rejected (%d)", r0.E), "sig-parse", replay)
			continue
		}
		// what the documentation says the header part is
		var want []sipsp.HdrSigId
		seen := map[sipsp.HdrT]bool{}
		for _, h := range hs {
			if seen[h.t] || h.t == sipsp.HdrOther {
				continue
			}
			seen[h.t] = true
			if h.t == sipsp.HdrContact && method != "INVITE" {
				continue
			}
			id := -1
			for k, t := range sigOrder {
				if t == h.t {
					id = k
				}
			}
			s := sipsp.HdrSigId(id)
			if h.compact {
				s |= 8
			}
			want = append(want, s)
		}
		bad := ""
		if r0.SigE != sipsp.ErrHdrOk || r0.Sig.HdrSigLen != len(want) || r0.Sig.HdrSigLen > 8 || r0.Sig.Method != refMethod([]byte(method)) {
			bad = fmt.Sprintf("error %d, %d header entries (expected %d), method %d", r0.SigE, r0.Sig.HdrSigLen, len(want), r0.Sig.Method)
		}
		for k := 0; bad == "" && k < len(want); k++ {
			if r0.Sig.HdrSig[k] != want[k] {
				bad = fmt.Sprintf("header entry %d is %d, expected %d", k, r0.Sig.HdrSig[k], want[k])
			}
		}
		if bad == "" && !reSig.MatchString(r0.Str) {
			bad = fmt.Sprintf("text rendering %q is not well formed", r0.Str)
		}
		if bad != "" {
			rep.violate("GetMsgSig: "+bad, "sig-content", replay)
			continue
		}
		// variants that must not change the signature
		variants := map[string]string{}
		{ // fillers inserted
			var v []sigHdr
			for _, h := range hs {
				for g.p(40) {
					v = append(v, g.filler())
				}
				v = append(v, h)
			}
			v = append(v, g.filler())
			variants["fillers inserted"] = renderSigAt(method, v, "", -1)
		}
		if len(hs) > 0 { // fingerprinted headers repeated later (anywhere after their first occurrence)
			v := append([]sigHdr{}, hs...)
			for k := 0; k < 1+g.n(3); k++ {
				j := g.n(len(hs))
				h := hs[j]
				if h.t == sipsp.HdrVia {
					h.line = g.pick("Via", "v") + ": SIP/2.0/TCP other.example.org;branch=" + g.pick("z9hG4bK-a.b_c", "z9hG4bKzzz", "1-2-3-4@x", "deadbeef0123")
				}
				// position: anywhere after the first occurrence of that header in v
				first := 0
				for q := range v {
					if v[q].t == h.t {
						first = q
						break
					}
				}
				at := first + 1 + g.n(len(v)-first)
				v = append(v[:at:at], append([]sigHdr{h}, v[at:]...)...)
			}
			variants["fingerprinted headers repeated later"] = renderSigAt(method, v, "", clAt)
		}
		{ // values of other headers / parts outside the fingerprinted strings changed
			var v []sigHdr
			for _, h := range hs {
				switch h.t {
				case sipsp.HdrCSeq:
					h.line = "CSeq: " + fmt.Sprint(g.n(100000)) + " " + method
				case sipsp.HdrMaxFwd:
					h.line = "Max-Forwards: " + fmt.Sprint(g.n(70))
				case sipsp.HdrUA:
					h.line = "User-Agent: " + g.alnum(1, 9) + " " + g.alnum(1, 3)
				case sipsp.HdrTo:
					n := "To"
					if h.compact {
						n = "t"
					}
					h.line = n + ": \"" + g.alnum(1, 5) + "\" <sip:" + g.alnum(1, 4) + "@" + g.host() + ">"
				case sipsp.HdrContact:
					n := "Contact"
					if h.compact {
						n = "m"
					}
					h.line = n + ": <sip:" + g.alnum(1, 4) + "@" + g.host() + ">;expires=" + fmt.Sprint(g.n(5000))
				}
				v = append(v, h)
			}
			variants["other values changed"] = renderSig(method, v, g.alnum(0, 20))
		}
		for what, text := range variants {
			r1 := emitMsgSigQuiet([]byte(text), 60)
			rep.OracleEval++
			if r1.Panic != "" || r1.SigE != r0.SigE || r1.Str != r0.Str || r1.Sig != r0.Sig {
				rep.violate(fmt.Sprintf("signature changes (%q -> %q) when %s", r0.Str, r1.Str, what), "sig-invariance",
					map[string]interface{}{"base": base, "variant": text, "what": what})
			}
		}
		// chunking and header capacity
		{
			in := Input{Kind: kMsg, A: 40, B: -1, Buf: base}
			cuts := g.cuts(0, len(base))
			x := newRun(&in, cuts).obj.(*oMsg)
			sg, e := sipsp.GetMsgSig(&x.m)
			if e != r0.SigE || sg != r0.Sig {
				rep.violate("signature of a chunked parse differs", "sig-chunked", map[string]interface{}{"case": json.RawMessage(caseJSON(inputCase(&in, cuts)))})
			}
			total := x.m.HL.N
			for _, hc := range []int{0, 1, 2, total - 1, total, total + 1, -1} {
				if hc < -1 {
					continue
				}
				r2 := emitMsgSig(w, []byte(base), hc, -1, 0, 0)
				rep.OracleEval++
				fits := hc < 0 && total <= 10 || hc >= total
				same := r2.Panic == "" && r2.SigE == r0.SigE && r2.Sig == r0.Sig
				if r2.Panic != "" || (fits && !same) || (!fits && !same && r2.SigE != sipsp.ErrHdrTrunc) || r2.Sig.HdrSigLen > 8 {
					rep.violate(fmt.Sprintf("header array of %d for %d headers: signature %q/%d (all fit: %q/%d)", hc, total, r2.Str, r2.SigE, r0.Str, r0.SigE),
						"sig-capacity", map[string]interface{}{"base": base, "hcap": hc})
				}
			}
		}
		// replies yield no signature
		rr := emitMsgSig(w, []byte("SIP/2.0 200 OK\r\n"+base[strings.Index(base, "\r\n")+2:]), 40, -1, 0, 0)
		if rr.Panic != "" || rr.SigE != sipsp.ErrHdrEmpty || rr.Str != "" {
			rep.violate(fmt.Sprintf("reply yields signature %q / error %d", rr.Str, rr.SigE), "sig-reply", replay)
		}
		rep.nontrivial(base)
		if i < 3 {
			rep.sample(base)
		}
	}
	// arbitrary generated messages through the model as well
	for i := 0; i < scale(thorough, 600, 8000); i++ {
		emitMsgSig(w, []byte(g.message()), []int{-1, 0, 2, 5, 30}[g.n(5)], -1, uint(g.n(8)), 0)
		rep.Cases++
	}
	// the three string signatures on their own (model StrSig.v against the code), and the documented dependence on
	// character classes only: replacing letters and digits inside their class leaves the signature alone
	for i := 0; i < scale(thorough, 1500, 20000); i++ {
		s := g.sigString()
		r1 := emitStrSig(w, []byte(s))
		s2 := g.sameClasses(s)
		r2 := emitStrSig(w, []byte(s2))
		rep.OracleEval++
		if r1 != r2 {
			rep.violate(fmt.Sprintf("string signature %04x of %q differs from %04x of %q (same character classes)", r1, s, r2, s2), "sig-classes",
				map[string]interface{}{"s": s, "s2": s2})
		}
		if _, _, p := emitCallIDSig(w, []byte(g.callidString())); p != "" {
			rep.violate("GetCallIDSig panics: "+p, "panic:GetCallIDSig", map[string]interface{}{"s": s})
		}
		if _, _, p := emitViaBrSig(w, []byte(g.viaBody())); p != "" {
			rep.violate("GetViaBrSig panics: "+p, "panic:GetViaBrSig", map[string]interface{}{"s": s})
		}
		rep.Cases += 4
	}
}

// strings for the character-class signatures: blocks of digits / hex / base64 / letters joined by reserved characters
func (g *G) sigBlock() string {
	n := g.n(12)
	if g.p(20) {
		n = []int{0, 1, 7, 8, 9, 16}[g.n(6)]
	}
	set := g.pick("0123456789", "0123456789abcdef", "0123456789ABCDEF", "abcdefghijklmnopqrstuvwxyzABCDEFGHIJKLMNOPQRSTUVWXYZ0123456789",
		"ghijklmnopqrstuvwxyz", "GHIJKLMNOPQRSTUVWXYZ", "abcdefABCDEF0123456789", "0123456789abcdef~!$")
	b := make([]byte, n)
	for i := range b {
		b[i] = set[g.n(len(set))]
	}
	return string(b)
}
func (g *G) sigString() string {
	var sb strings.Builder
	k := 1 + g.n(5)
	sep := g.pick("-", ".", ":", "@", "_", "*", "+", "/", "=", "|")
	for i := 0; i < k; i++ {
		if i > 0 {
			if g.p(80) {
				sb.WriteString(sep)
			} else {
				sb.WriteString(g.pick("-", ".", ":", "@", "_", "*", "+", "/", "=", "|", "==", "~", " "))
			}
		}
		sb.WriteString(g.sigBlock())
	}
	if g.p(25) {
		sb.WriteString(g.pick("=", "==", "===", "=a", "+", "/"))
	}
	return sb.String()
}

// the same string with every letter / digit replaced by another one of its class (digit, a-f, A-F, g-z, G-Z)
func (g *G) sameClasses(s string) string {
	b := []byte(s)
	for i, c := range b {
		switch {
		case c >= '0' && c <= '9':
			b[i] = byte('0' + g.n(10))
		case c >= 'a' && c <= 'f':
			b[i] = byte('a' + g.n(6))
		case c >= 'A' && c <= 'F':
			b[i] = byte('A' + g.n(6))
		case c >= 'g' && c <= 'z':
			b[i] = byte('g' + g.n(20))
		case c >= 'G' && c <= 'Z':
			b[i] = byte('G' + g.n(20))
		}
	}
	return string(b)
}
func (g *G) callidString() string {
	ip := g.pick("192.168.1.10", "10.0.0.1", "1.2.3.4", "255.255.255.255", "2001:db8::1", "[2001:db8::1]", "fe80::1:2:3", "::1", "1.2.3", "300.1.1.1")
	a, b := g.sigString(), g.sigString()
	j := g.pick("@", "-", ".", "", ":", "_", "=")
	switch g.n(6) {
	case 0:
		return ip + j + b
	case 1:
		return a + j + ip
	case 2:
		return a + j + ip + g.pick("@", "-", "", ".") + b
	case 3:
		return ip
	case 4:
		return a
	}
	return a + "@" + g.pick("host.example.com", "h", ip+":5060")
}
func (g *G) viaBody() string {
	var sb strings.Builder
	sb.WriteString(g.pick("SIP/2.0/UDP h.example.com:5060", "SIP/2.0/TCP 1.2.3.4", "SIP/2.0/UDP h", ""))
	k := g.n(5)
	for i := 0; i < k; i++ {
		sb.WriteString(g.pick(";", " ;", "; ", ";"))
		switch g.n(9) {
		case 0:
			sb.WriteString("branch=z9hG4bK" + g.sigString())
		case 1:
			sb.WriteString("branch=" + g.sigString())
		case 2:
			sb.WriteString(g.pick("BRANCH", "Branch", "branch") + g.pick("=", " = ", "= ") + g.pick("Z9HG4BK", "z9hg4bk", "z9hG4bK", "z9hG4b") + g.sigBlock())
		case 3:
			sb.WriteString("rport")
		case 4:
			sb.WriteString("received=" + g.pick("1.2.3.4", "h"))
		case 5:
			sb.WriteString("branch" + g.pick("", "=", "=\"q-1\"", "=z9hG4bK"))
		case 6:
			sb.WriteString("branc=" + g.sigBlock())
		case 7:
			sb.WriteString("ttl=1" + g.pick("", ",SIP/2.0/UDP x;branch=z9hG4bKsecond", " ,x"))
		default:
			sb.WriteString(g.alnum(1, 7) + "=" + g.alnum(0, 5))
		}
	}
	if g.p(15) {
		sb.WriteString(g.pick(",", ", SIP/2.0/UDP y;branch=abc", ";", "\r\n", " "))
	}
	return sb.String()
}

func emitMsgSigQuiet(buf []byte, hcap int) sigRes { return msgSig(buf, hcap, -1, 0, 0) }
