package main

import (
	"fmt"
	"os"
)

func usage() {
	fmt.Fprintln(os.Stderr, "usage: harness tables | gen <prop> <seed> <n> <out> | run <cases> <out> | oracle <prop> <seed> <budget_ms> <out>")
	os.Exit(2)
}

func main() {
	if len(os.Args) < 2 {
		usage()
	}
	switch os.Args[1] {
	case "tables":
		emitTables(os.Stdout)
	default:
		usage()
	}
}
