package main

import (
	"fmt"
	"os"
	"strconv"
)

func usage() {
	fmt.Fprintln(os.Stderr, `usage:
  harness tables                                  Gen/Tables.v on stdout
  harness run <prop> <seed> <quick|thorough> <outprefix>
        writes <outprefix>.cases (for the model) and <outprefix>.report.json
  harness replay <file.json>                      re-runs a replay file against /repo`)
	os.Exit(2)
}

var props = map[string]propFn{
	"C01": resumeProp([]int{kMsg}, 1200, 20000),
	"C02": resumeProp(subKinds, 3000, 45000),
	"C03": propC03,
	"C04": propC04,
	"C05": propC05,
	"C06": propC06,
	"C07": propC07,
	"C08": propC08,
	"C09": propC09,
	"C10": propC10,
	"C11": propC11,
	"C12": propC12,
	"C13": propC13,
	"C14": propC14,
	"C15": propC15,
	"C16": propC16,
	"C17": propC17,
	"C18": propC18,
	"C19": propC19,
	"C20": propC20,
}

func main() {
	if len(os.Args) < 2 {
		usage()
	}
	switch os.Args[1] {
	case "tables":
		emitTables(os.Stdout)
	case "run":
		if len(os.Args) != 6 {
			usage()
		}
		prop := os.Args[2]
		seed, err := strconv.ParseInt(os.Args[3], 10, 64)
		if err != nil {
			usage()
		}
		thorough := os.Args[4] == "thorough"
		f, ok := props[prop]
		if !ok {
			fmt.Fprintln(os.Stderr, "unknown property", prop)
			os.Exit(2)
		}
		startWatchdog(os.Args[5])
		g := newG(seed*1000003 + int64(len(prop)) + int64(prop[1])*31 + int64(prop[2]))
		w := newCaseW(os.Args[5] + ".cases")
		rep := newReport(prop, seed, os.Args[4])
		// the committed corpus of past disagreements runs first
		runCorpus(prop, w, rep)
		f(g, w, rep, thorough)
		w.close()
		rep.Dist["model_cases"] = w.n
		rep.write(os.Args[5] + ".report.json")
		fmt.Printf("harness: %s cases=%d model_cases=%d oracle_evals=%d violations=%d\n", prop, rep.Cases, w.n, rep.OracleEval, len(rep.Violations))
	case "replay":
		if len(os.Args) != 3 {
			usage()
		}
		os.Exit(replay(os.Args[2]))
	default:
		usage()
	}
}
