package main

// Drivers for the properties that are universal over every parser:
// C01 C02 C03 C04 C11 C12 C13.

import (
	"encoding/json"
	"fmt"
	"sync"

	"github.com/intuitivelabs/sipsp"
)

type propFn func(g *G, w *CaseW, rep *Report, thorough bool)

func scale(thorough bool, quick, thor int) int {
	if thorough {
		return thor
	}
	return quick
}

func verdictKey(res []OpRes) string {
	if len(res) == 0 {
		return "none"
	}
	r := res[len(res)-1]
	if r.Panic != "" {
		return "panic"
	}
	if len(r.Calls) == 0 {
		return "reset"
	}
	return errName(r.Calls[len(r.Calls)-1].E)
}

func noteInput(rep *Report, in *Input, res []OpRes) {
	rep.Cases++
	rep.count("kind:" + kindNames[in.Kind])
	rep.count("verdict:" + verdictKey(res))
	switch n := len(in.Buf); {
	case n < 16:
		rep.count("size:<16")
	case n < 64:
		rep.count("size:16-63")
	case n < 256:
		rep.count("size:64-255")
	default:
		rep.count("size:>=256")
	}
	// non-trivial: the parser got past its first byte or produced a verdict other than an immediate error
	if len(res) > 0 && len(res[len(res)-1].Calls) > 0 {
		c := res[len(res)-1].Calls[len(res[len(res)-1].Calls)-1]
		if c.O > in.Offs {
			rep.nontrivial(fmt.Sprintf("%d|%d|%d|%d|%d|%s|%d", in.Kind, in.A, in.B, in.C, in.Flags, in.Buf, in.Offs))
		}
	}
}

// ---- C01 / C02 --------------------------------------------------------------
func resumeProp(kinds []int, nq, nt int) propFn {
	return func(g *G, w *CaseW, rep *Report, thorough bool) {
		n := scale(thorough, nq, nt)
		for i := 0; i < n; i++ {
			in := g.input(kinds[i%len(kinds)])
			// every input is fed under two schedules: one byte at a time (random cuts for very long
			// texts), and one cut next to a byte that is special to the grammar
			var every []int
			if len(in.Buf)-in.Offs <= 700 {
				for k := in.Offs + 1; k < len(in.Buf); k++ {
					every = append(every, k)
				}
			} else {
				every = g.cuts(in.Offs, len(in.Buf))
			}
			for si, cuts := range [][]int{every, g.cutsFor(in.Offs, in.Buf)} {
				c := inputCase(&in, cuts)
				out, res := runCase(c)
				if si == 1 || len(in.Buf) < 300 || i%4 == 0 {
					w.emitCase(c, out)
				}
				noteInput(rep, &in, res)
				rep.count(fmt.Sprintf("cuts:%d", min(len(cuts), 8)))
				oracleSafe(rep, c, res)
				if len(res) == 1 && res[0].Panic == "" {
					oracleResume(rep, &in, cuts, &res[0])
				}
				if i < 2 && si == 1 {
					rep.sample(json.RawMessage(caseJSON(c)))
				}
			}
		}
		// bounded exhaustive: short texts over the delimiter alphabet, every single cut
		exhaustiveResume(g, w, rep, kinds, thorough)
	}
}

func min(a, b int) int {
	if a < b {
		return a
	}
	return b
}

var exhAlpha = map[int][]string{
	kCallID:    {"a", " ", "\r", "\n"},
	kCSeq:      {"1", "A", " ", "\r", "\n"},
	kUInt:      {"1", " ", "\r", "\n", "x"},
	kCLen:      {"9", " ", "\r", "\n"},
	kNameAddr:  {"a", " ", "<", ">", ";", "=", ",", "\"", "\\", "\r", "\n", "*"},
	kOnePAI:    {"a", "<", ">", ";", ",", "*", "\r", "\n"},
	kContacts:  {"a", "<", ">", ";", "=", ",", " ", "\r", "\n"},
	kPAIs:      {"a", "<", ">", ",", ";", "\r", "\n"},
	kTokParam:  {"a", "=", ";", " ", "\"", "\\", ",", "\r", "\n", "&"},
	kURIParams: {"a", "=", ";", "?", " ", "\r", "\n"},
	kURIHdrs:   {"a", "=", "&", " ", ";", "\r", "\n"},
	kQuoted:    {"a", "\"", "\\", "\r", " "},
	kFLine:     {"A", " ", "1", "\r", "\n", "\t"},
	kHdrLine:   {"f", ":", " ", "a", "\r", "\n", "<"},
	kHeaders:   {"f", ":", " ", "a", "\r", "\n"},
}

func exhaustiveResume(g *G, w *CaseW, rep *Report, kinds []int, thorough bool) {
	for _, k := range kinds {
		alpha, ok := exhAlpha[k]
		if !ok {
			continue
		}
		L := 3
		if thorough {
			L = 5
			if len(alpha) > 8 {
				L = 4
			}
		} else if len(alpha) > 8 {
			L = 2
		}
		prefix := ""
		if k == kFLine {
			prefix = "A b SIP/2." // the first line needs 14 bytes before it decides
		}
		enumStrings(alpha, L, func(s string) {
			in := Input{Kind: k}
			g.paramsFor(&in)
			in.Buf = prefix + s + "\r\nX"
			for cut := 1; cut < len(in.Buf); cut++ {
				cuts := []int{cut}
				c := inputCase(&in, cuts)
				_, res := runCase(c)
				rep.Cases++
				rep.count("exhaustive:" + kindNames[k])
				oracleSafe(rep, c, res)
				if len(res) == 1 && res[0].Panic == "" {
					oracleResume(rep, &in, cuts, &res[0])
				}
			}
			// the model sees each text once, cut at every byte
			var all []int
			for i := 1; i < len(in.Buf); i++ {
				all = append(all, i)
			}
			c := inputCase(&in, all)
			out, _ := runCase(c)
			w.emitCase(c, out)
		})
	}
}

// ---- C03 ----------------------------------------------------------------------
func propC03(g *G, w *CaseW, rep *Report, thorough bool) {
	n := scale(thorough, 2500, 40000)
	for i := 0; i < n; i++ {
		in := g.input(allKinds[i%len(allKinds)])
		c := inputCase(&in, nil)
		out, res := runCase(c)
		w.emitCase(c, out)
		noteInput(rep, &in, res)
		if len(res) == 1 && res[0].Panic == "" {
			oracleExt(rep, &in, &res[0])
			// the model also sees two of the extensions
			if definitive(res[0].Calls[0].E) {
				for j := 0; j < 2; j++ {
					e := in
					e.Buf += extSuffixes[g.n(len(extSuffixes))]
					ce := inputCase(&e, nil)
					oute, _ := runCase(ce)
					w.emitCase(ce, oute)
				}
			}
		}
		if i < 3 {
			rep.sample(json.RawMessage(caseJSON(c)))
		}
	}
	// truncations of valid texts: every prefix is a buffer in its own right
	m := scale(thorough, 60, 600)
	for i := 0; i < m; i++ {
		in := Input{Kind: allKinds[i%len(allKinds)]}
		g.paramsFor(&in)
		in.Buf = g.textFor(&in)
		full := in.Buf
		for p := 0; p <= len(full); p++ {
			in.Buf = full[:p]
			c := inputCase(&in, nil)
			_, res := runCase(c)
			rep.Cases++
			rep.count("prefix-sweep:" + kindNames[in.Kind])
			if len(res) == 1 && res[0].Panic == "" && len(res[0].Calls) == 1 && definitive(res[0].Calls[0].E) &&
				!endOfInputMode(&in) && p < len(full) {
				// the natural continuation is the sharpest extension
				ext := in
				ext.Buf = full
				_, r1 := runCase(inputCase(&ext, nil))
				rep.OracleEval++
				if len(r1) == 1 && r1[0].Panic == "" && len(r1[0].Calls) == 1 {
					same := r1[0].Calls[0] == res[0].Calls[0] && eqObsValues(r1[0].Obs, res[0].Obs)
					if !same && in.Kind == kMsg && msgBodyIsRest(&in, &res[0]) {
						same = r1[0].Calls[0].E == res[0].Calls[0].E && eqObsExceptBody(r1[0].Obs, res[0].Obs)
					}
					if !same {
						rep.violate(fmt.Sprintf("%s: definitive result (%d,%d) on a %d-byte prefix changed to (%d,%d) on the full text",
							kindNames[in.Kind], res[0].Calls[0].O, res[0].Calls[0].E, p, r1[0].Calls[0].O, r1[0].Calls[0].E),
							"ext:"+kindNames[in.Kind], map[string]interface{}{"prefix": json.RawMessage(caseJSON(c)),
								"full": json.RawMessage(caseJSON(inputCase(&ext, nil)))})
					}
				}
			}
		}
	}
}

// ---- C04 ----------------------------------------------------------------------
func propC04(g *G, w *CaseW, rep *Report, thorough bool) {
	n := scale(thorough, 4000, 60000)
	for i := 0; i < n; i++ {
		kind := allKinds[i%len(allKinds)]
		in := Input{Kind: kind}
		g.paramsFor(&in)
		switch g.n(3) {
		case 0:
			in.Buf = g.hostile(60)
		case 1:
			in.Buf = g.mutate(g.mutate(g.textFor(&in)))
		default:
			in.Buf = g.textFor(&in)
		}
		in.Offs = 0
		if len(in.Buf) > 0 && g.p(50) {
			in.Offs = g.n(len(in.Buf) + 1)
		}
		var cuts []int
		if g.p(50) {
			cuts = g.cuts(in.Offs, len(in.Buf))
		}
		c := inputCase(&in, cuts)
		out, res := runCase(c)
		w.emitCase(c, out)
		noteInput(rep, &in, res)
		oracleSafe(rep, c, res)
		if kind == kMsg {
			sigOnEveryState(rep, &in, cuts)
		}
		if i < 3 {
			rep.sample(json.RawMessage(caseJSON(c)))
		}
	}
	// reuse: abandoned / failed / complete parses, Reset (or Init), then another input on the same object
	for i := 0; i < scale(thorough, 1200, 15000); i++ {
		c := genHistory(g, allKinds[i%len(allKinds)])
		out, res := runCase(c)
		w.emitCase(c, out)
		rep.Cases++
		rep.count(fmt.Sprintf("history-ops:%d", len(c.Ops)))
		oracleSafe(rep, c, res)
	}
	// a finished object called again without Reset (the documented "called again after finishing"
	// path of every value parser): same buffer, the returned or another offset
	for i := 0; i < scale(thorough, 800, 8000); i++ {
		kind := allKinds[i%len(allKinds)]
		c := genAgain(g, kind)
		if c == nil {
			continue
		}
		if kind == kMsg {
			// a finished message called again answers ErrHdrBug at the offset given; its RawMsg then
			// still points into the previous buffer (no offset into the new one): oracle only
			msgAgain(rep, c)
			continue
		}
		out, res := runCase(c)
		w.emitCase(c, out)
		rep.Cases++
		rep.count("again-after-finish")
		oracleSafe(rep, c, res)
		// the second call must not move backwards nor leave the buffer
		if len(res) == 2 && res[1].Panic == "" && len(res[1].Calls) > 0 {
			last := res[1].Calls[len(res[1].Calls)-1]
			rep.OracleEval++
			if last.O > len(c.Ops[1].Buf) || (last.E == 0 && last.O < c.Ops[1].Offs) {
				rep.violate("a finished object called again returned an offset outside the buffer or before its start offset",
					"again-offset", map[string]interface{}{"case": json.RawMessage(caseJSON(c))})
			}
		}
	}
	safeEntries(g, w, rep, thorough)
	isolation(g, rep, thorough)
}

// one complete parse, then - only if it finished with ErrHdrOk - a second call on the same
// object and buffer without Reset
func genAgain(g *G, kind int) *Case {
	in := Input{Kind: kind}
	g.paramsFor(&in)
	if kind == kMsg {
		in.Flags = uint(g.n(8))
	} else if kind == kTokParam {
		in.Flags = tpFlagSets[g.n(len(tpFlagSets))]
	}
	pre := ""
	if g.p(40) {
		pre = g.hostile(1 + g.n(20))
	}
	in.Buf = g.textFor(&in)
	var cuts []int
	if g.p(30) {
		cuts = g.cutsFor(len(pre), pre+in.Buf)
	}
	buf := []byte(pre + in.Buf)
	c := &Case{Kind: kind, A: in.A, B: in.B, C: in.C}
	c.Ops = append(c.Ops, Op{Flags: in.Flags, Buf: buf, Offs: len(pre), Cuts: cuts})
	_, res := runCase(c)
	if len(res) != 1 || res[0].Panic != "" || len(res[0].Calls) == 0 {
		return nil
	}
	last := res[0].Calls[len(res[0].Calls)-1]
	if last.E != 0 {
		return nil
	}
	// the calling convention of the list parsers: a further header value starts at or after the
	// end of the previous one
	offs := last.O
	if g.p(30) && last.O <= len(buf) {
		offs = last.O + g.n(len(buf)-last.O+1)
	}
	c.Ops = append(c.Ops, Op{Flags: in.Flags, Buf: buf, Offs: offs})
	return c
}

// a history of (complete | mutated | abandoned) parses, each followed by a Reset, then a probe
func genHistory(g *G, kind int) *Case {
	first := Input{Kind: kind}
	g.paramsFor(&first)
	c := &Case{Kind: kind, A: first.A, B: first.B, C: first.C}
	for j := 1 + g.n(3); j >= 0; j-- {
		in := first
		if kind == kMsg {
			in.Flags = uint(g.n(8))
		} else if kind == kTokParam {
			in.Flags = tpFlagSets[g.n(len(tpFlagSets))]
		}
		pre := ""
		if g.p(30) {
			pre = g.hostile(1 + g.n(40)) // the text sits at a different offset each time
		}
		switch g.n(3) {
		case 0:
			in.Buf = g.textFor(&in)
		case 1:
			in.Buf = g.mutate(g.textFor(&in))
		default:
			t := g.textFor(&in)
			if len(t) > 1 {
				t = t[:1+g.n(len(t)-1)]
			}
			in.Buf = t
		}
		var cuts []int
		if g.p(30) {
			cuts = g.cutsFor(len(pre), pre+in.Buf)
		}
		c.Ops = append(c.Ops, Op{Flags: in.Flags, Buf: []byte(pre + in.Buf), Offs: len(pre), Cuts: cuts})
		if j > 0 {
			c.Ops = append(c.Ops, Op{Reset: true})
		}
	}
	return c
}

// GetMsgSig, Method, MaxExpires, GetContact, GetHdr on every state a schedule passes through
func sigOnEveryState(rep *Report, in *Input, cuts []int) {
	x := newObj(kMsg, in.A, in.B, in.C).(*oMsg)
	buf := []byte(in.Buf)
	all := append(append([]int(nil), cuts...), len(buf))
	o := in.Offs
	for _, c := range all {
		b := exact(buf, c)
		var e sipsp.ErrorHdr
		if p := safeCall(func() { o, e = x.Parse(in.Flags, b, o) }); p != "" {
			return // reported elsewhere
		}
		p := safeCall(func() {
			sg, _ := sipsp.GetMsgSig(&x.m)
			_ = sg.String()
			_ = x.m.Method()
			x.m.PV.MaxExpires()
			for n := 0; n <= x.m.PV.Contacts.N+1; n++ {
				x.m.PV.Contacts.GetContact(n)
			}
			for t := 0; t < 20; t++ {
				x.m.HL.GetHdr(sipsp.HdrT(t))
			}
			// the small accessors: state predicates, flag sets, names of errors and header types
			_ = x.m.FL.Pending()
			_ = x.m.PV.From.Pending()
			_ = x.m.PV.To.Pending()
			_ = x.m.PV.Callid.Pending()
			_ = x.m.PV.CSeq.Pending()
			_ = x.m.PV.CLen.Pending()
			_ = x.m.PV.Expires.Pending()
			_ = x.m.PV.PAIs.Empty()
			for n := 0; n <= x.m.PV.PAIs.N+1; n++ {
				x.m.PV.PAIs.GetPAI(n)
			}
			fl := x.m.HL.PFlags
			_ = fl.Any(sipsp.HdrFrom, sipsp.HdrTo)
			_ = fl.AllSet(sipsp.HdrFrom, sipsp.HdrTo, sipsp.HdrCallID)
			fl.Clear(sipsp.HdrFrom)
			fl.Reset()
			_ = e.Error()
			_ = e.ErrorConv()
			for t := -1; t < 24; t++ {
				_ = sipsp.HdrT(t).String()
			}
		})
		rep.OracleEval++
		if p != "" {
			rep.violate("GetMsgSig/accessors on a message in state after a call: panic: "+p, "panic:GetMsgSig",
				map[string]interface{}{"case": json.RawMessage(caseJSON(inputCase(in, cuts))), "after_prefix": c})
			return
		}
		if e != sipsp.ErrHdrMoreBytes {
			break
		}
	}
}

// isolation: independent objects in concurrent goroutines give the sequential results
func isolation(g *G, rep *Report, thorough bool) {
	n := scale(thorough, 64, 512)
	type job struct {
		c   *Case
		exp []int64
	}
	var jobs []job
	for i := 0; i < n; i++ {
		in := g.input(allKinds[i%len(allKinds)])
		c := inputCase(&in, g.cuts(in.Offs, len(in.Buf)))
		out, _ := runCase(c)
		jobs = append(jobs, job{c, out})
	}
	var wg sync.WaitGroup
	var mu sync.Mutex
	for r := 0; r < 4; r++ {
		for i := range jobs {
			wg.Add(1)
			go func(j job) {
				defer wg.Done()
				// no watchdog bookkeeping here: runCase's is not goroutine safe, run the ops directly
				obj := newObj(j.c.Kind, j.c.A, j.c.B, j.c.C)
				var out []int64
				for k := range j.c.Ops {
					res := runOp(obj, &j.c.Ops[k])
					for _, cr := range res.Calls {
						out = append(out, int64(cr.O), int64(cr.E))
					}
					if res.Panic != "" {
						out = append(out, zPANIC)
						break
					}
					out = append(out, res.Obs.V...)
				}
				if !eqObs(out, j.exp) {
					mu.Lock()
					rep.violate("result of a parse run concurrently with unrelated parses differs from its sequential result",
						"isolation", map[string]interface{}{"case": json.RawMessage(caseJSON(j.c))})
					mu.Unlock()
				}
			}(jobs[i])
		}
	}
	wg.Wait()
	rep.OracleEval += 4 * len(jobs)
	rep.count("isolation-goroutines")
}

// ---- C11 ----------------------------------------------------------------------
func propC11(g *G, w *CaseW, rep *Report, thorough bool) {
	n := scale(thorough, 3000, 40000)
	for i := 0; i < n; i++ {
		in := g.input(allKinds[i%len(allKinds)])
		in.Buf = in.Buf[in.Offs:]
		in.Offs = 0
		c := inputCase(&in, nil)
		out, res := runCase(c)
		w.emitCase(c, out)
		noteInput(rep, &in, res)
		if len(res) != 1 || res[0].Panic != "" {
			continue
		}
		k := 1 + g.n(8)
		if g.p(10) {
			k = 65535 - len(in.Buf) - g.n(3)
		}
		if g.p(10) {
			k = 200 + g.n(70)
		}
		junk := make([]byte, k)
		for j := range junk {
			junk[j] = dict[g.n(len(dict))][0]
		}
		if k > 0 && g.p(50) { // junk that could glue to the text
			junk[k-1] = []byte{' ', '\r', '\n', 'a', '"', '\\', ';', '<'}[g.n(8)]
		}
		oracleShift(rep, &in, string(junk), &res[0])
		if k < 300 { // the model sees the shifted run too
			sh := in
			sh.Buf = string(junk) + in.Buf
			sh.Offs = k
			cs := inputCase(&sh, nil)
			outs, _ := runCase(cs)
			w.emitCase(cs, outs)
		}
		if i < 3 {
			rep.sample(json.RawMessage(caseJSON(c)))
		}
	}
	adjustShift(g, w, rep, thorough)
}

// ---- C12 ----------------------------------------------------------------------
// histories: (parse complete | parse abandoned | parse failing)*, each followed
// by a reset; after every reset the object must behave like a new one
func propC12(g *G, w *CaseW, rep *Report, thorough bool) {
	n := scale(thorough, 2500, 30000)
	for i := 0; i < n; i++ {
		kind := allKinds[i%len(allKinds)]
		first := Input{Kind: kind}
		g.paramsFor(&first)
		nops := 1 + g.n(4)
		c := &Case{Kind: kind, A: first.A, B: first.B, C: first.C}
		var probes []Input
		for j := 0; j < nops; j++ {
			in := first
			if kind == kMsg {
				in.Flags = uint(g.n(8))
			} else if kind == kTokParam {
				in.Flags = tpFlagSets[g.n(len(tpFlagSets))]
			}
			switch g.n(3) {
			case 0:
				in.Buf = g.textFor(&in)
			case 1:
				in.Buf = g.mutate(g.textFor(&in))
			default: // abandoned while suspended
				t := g.textFor(&in)
				if len(t) > 1 {
					t = t[:1+g.n(len(t)-1)]
				}
				in.Buf = t
			}
			var cuts []int
			if g.p(30) {
				cuts = g.cuts(0, len(in.Buf))
			}
			c.Ops = append(c.Ops, Op{Flags: in.Flags, Buf: []byte(in.Buf), Cuts: cuts})
			c.Ops = append(c.Ops, Op{Reset: true})
			probes = append(probes, in)
		}
		// the probe: a fresh text parsed after the last reset
		probe := first
		if kind == kMsg {
			probe.Flags = uint(g.n(8))
		}
		probe.Buf = g.textFor(&probe)
		pcuts := g.cuts(0, len(probe.Buf))
		if g.p(50) {
			pcuts = nil
		}
		c.Ops = append(c.Ops, Op{Flags: probe.Flags, Buf: []byte(probe.Buf), Cuts: pcuts})
		out, res := runCase(c)
		w.emitCase(c, out)
		rep.Cases++
		rep.count("kind:" + kindNames[kind])
		rep.count(fmt.Sprintf("history-ops:%d", len(c.Ops)))
		rep.nontrivial(caseJSON(c))
		oracleSafe(rep, c, res)
		// new object, same arrays capacity, same probe
		fresh := &Case{Kind: kind, A: c.A, B: c.B, C: c.C, Ops: []Op{c.Ops[len(c.Ops)-1]}}
		_, fres := runCase(fresh)
		rep.OracleEval++
		if len(res) == len(c.Ops) && len(fres) == 1 && res[len(res)-1].Panic == "" && fres[0].Panic == "" {
			a, b := res[len(res)-1], fres[0]
			same := len(a.Calls) == len(b.Calls) && eqObs(a.Obs.V, b.Obs.V)
			for k := 0; same && k < len(a.Calls); k++ {
				same = a.Calls[k] == b.Calls[k]
			}
			// after each reset the observable state must be that of a new object
			if same {
				var o0 Obs
				newObj(kind, c.A, c.B, c.C).Obs(&o0)
				for k := 1; k < len(res)-1; k += 2 {
					if kind == kMsg {
						break // a reset message keeps its Buf: compared through behaviour only
					}
					if !eqObs(res[k].Obs.V, o0.V) {
						same = false
					}
				}
			}
			if !same {
				rep.violate(kindNames[kind]+": after Reset the object does not behave like a new one",
					"reset:"+kindNames[kind], map[string]interface{}{"history": json.RawMessage(caseJSON(c))})
			}
		}
		if i < 3 {
			rep.sample(json.RawMessage(caseJSON(c)))
		}
	}
	uriResetHistories(g, w, rep, thorough)
}

// ---- C13 ----------------------------------------------------------------------
// positions (in the flat observation) that are independent of capacities are
// found by comparing structures, not vectors: we compare selected projections.
func propC13(g *G, w *CaseW, rep *Report, thorough bool) {
	n := scale(thorough, 1500, 20000)
	for i := 0; i < n; i++ {
		kind := []int{kMsg, kMsg, kMsg, kHeaders, kContacts, kURIParams, kURIHdrs}[i%7]
		in := Input{Kind: kind}
		g.paramsFor(&in)
		if g.p(75) {
			in.Buf = g.textFor(&in)
		} else {
			in.Buf = g.mutate(g.textFor(&in))
		}
		var cuts []int
		if g.p(40) {
			cuts = g.cuts(0, len(in.Buf))
		}
		ample := in
		switch kind {
		case kMsg:
			ample.A, ample.B = 80, 40
		case kHeaders:
			ample.A, ample.C = 80, 40
			ample.B, in.B = 1, 1
		default:
			ample.A = 60
		}
		ca := inputCase(&ample, cuts)
		outa, ra := runCase(ca)
		w.emitCase(ca, outa)
		rep.Cases++
		if len(ra) != 1 || ra[0].Panic != "" || len(ra[0].Calls) == 0 {
			continue
		}
		// the property quantifies over successfully parsed inputs
		if fe := ra[0].Calls[len(ra[0].Calls)-1].E; isError(kind, fe) || fe == sipsp.ErrHdrMoreBytes {
			rep.count("cap:skipped-unsuccessful")
			continue
		}
		pa := capProjection(kind, newRun(&ample, cuts))
		caps := []int{0, 1, 2, 3, 5}
		if kind == kMsg || kind == kHeaders {
			caps = append(caps, -1)
		}
		for _, cp := range caps {
			for _, cq := range []int{0, 1, 2, -1} {
				small := in
				switch kind {
				case kMsg:
					small.A, small.B = cp, cq
				case kHeaders:
					if cp < 0 || cq < 0 {
						continue
					}
					small.A, small.C = cp, cq
				default:
					if cq != 0 || cp < 0 {
						continue
					}
					small.A = cp
				}
				cs := inputCase(&small, cuts)
				outs, rs := runCase(cs)
				rep.Cases++
				rep.OracleEval++
				rep.count(fmt.Sprintf("cap:%s:%d/%d", kindNames[kind], cp, cq))
				if g.p(15) {
					w.emitCase(cs, outs)
				}
				oracleSafe(rep, cs, rs)
				if len(rs) != 1 || rs[0].Panic != "" {
					continue
				}
				ps := capProjection(kind, newRun(&small, cuts))
				if msg := compareCap(kind, pa, ps); msg != "" {
					rep.violate(kindNames[kind]+": "+msg, "capacity:"+kindNames[kind],
						map[string]interface{}{"small": json.RawMessage(caseJSON(cs)), "ample": json.RawMessage(caseJSON(ca))})
				}
			}
		}
		rep.nontrivial(in.Buf)
		if i < 3 {
			rep.sample(json.RawMessage(caseJSON(ca)))
		}
	}
}

func msgAgain(rep *Report, c *Case) {
	var obj Obj
	if p := safeCall(func() { obj = newObj(c.Kind, c.A, c.B, c.C) }); p != "" {
		return
	}
	r := runOp(obj, &c.Ops[0])
	if r.Panic != "" {
		return
	}
	op := &c.Ops[1]
	var o int
	var e sipsp.ErrorHdr
	p := safeCall(func() { o, e = obj.Parse(op.Flags, exact(op.Buf, len(op.Buf)), op.Offs) })
	rep.Cases++
	rep.OracleEval++
	rep.count("again-after-finish:message")
	if p != "" {
		rep.violate("ParseSIPMsg on a finished message: panic: "+p, "panic:ParseSIPMsg-again",
			map[string]interface{}{"case": json.RawMessage(caseJSON(c))})
		return
	}
	if o != op.Offs || e != sipsp.ErrHdrBug {
		rep.violate(fmt.Sprintf("ParseSIPMsg on a finished message returned (%d, %d), not (offs, ErrHdrBug)", o, e), "again-msg",
			map[string]interface{}{"case": json.RawMessage(caseJSON(c))})
	}
}
