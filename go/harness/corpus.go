package main

import (
	"bufio"
	"encoding/json"
	"fmt"
	"os"
	"path/filepath"
	"strings"
)

// the committed corpus of minimised past disagreements: case lines
// (corpus/<prop>.cases, same format as the case files) are re-run against
// /repo and handed to the model first
func runCorpus(prop string, w *CaseW, rep *Report) {
	f, err := os.Open(filepath.Join(filepath.Dir(os.Args[0]), "..", "corpus", prop+".inputs"))
	if err != nil {
		return
	}
	defer f.Close()
	sc := bufio.NewScanner(f)
	sc.Buffer(make([]byte, 1<<20), 1<<20)
	for sc.Scan() {
		ln := strings.TrimSpace(sc.Text())
		if ln == "" || ln[0] == '#' {
			continue
		}
		var m map[string]interface{}
		if json.Unmarshal([]byte(ln), &m) != nil {
			continue
		}
		cp := caseFromJSON(m)
		if cp == nil {
			continue
		}
		c := *cp
		out, res := runCase(&c)
		w.emitCase(&c, out)
		oracleSafe(rep, &c, res)
		if len(c.Ops) == 1 && !c.Ops[0].Reset && len(res) == 1 && res[0].Panic == "" {
			in := Input{Kind: c.Kind, A: c.A, B: c.B, C: c.C, Flags: c.Ops[0].Flags, Buf: string(c.Ops[0].Buf), Offs: c.Ops[0].Offs}
			oracleResume(rep, &in, c.Ops[0].Cuts, &res[0])
			if len(c.Ops[0].Cuts) == 0 {
				oracleExt(rep, &in, &res[0])
			}
		}
		rep.count("corpus")
	}
}

// replay re-runs the case(s) found in a replay file against /repo and prints what happens
func replay(path string) int {
	b, err := os.ReadFile(path)
	if err != nil {
		fmt.Println(err)
		return 2
	}
	var doc map[string]interface{}
	if json.Unmarshal(b, &doc) != nil {
		fmt.Println("not a replay file")
		return 2
	}
	found := 0
	var walk func(x interface{})
	walk = func(x interface{}) {
		switch v := x.(type) {
		case map[string]interface{}:
			if _, ok := v["ops"]; ok {
				if c := caseFromJSON(v); c != nil {
					found++
					out, res := runCase(c)
					fmt.Printf("replayed %s (%d ops): output %v\n", kindNames[c.Kind], len(c.Ops), out)
					for i, r := range res {
						if r.Panic != "" {
							fmt.Printf("  op %d: PANIC %s\n", i, r.Panic)
						}
						for j, cr := range r.Calls {
							fmt.Printf("  op %d call %d: offset %d verdict %d\n", i, j, cr.O, cr.E)
						}
					}
				}
				return
			}
			for _, y := range v {
				walk(y)
			}
		case []interface{}:
			for _, y := range v {
				walk(y)
			}
		}
	}
	walk(doc)
	if found == 0 {
		fmt.Println("no parser case in this replay; the payload above names the input (texts / hex) to feed to the function named in 'what'")
	}
	return 0
}

func caseFromJSON(v map[string]interface{}) *Case {
	b, _ := json.Marshal(v)
	var j struct {
		Kind, A, B, C int
		Ops           []struct {
			Reset bool
			Flags uint
			Buf   string `json:"buf_hex"`
			Offs  int
			Cuts  []int
		}
	}
	if json.Unmarshal(b, &j) != nil || j.Kind == 0 {
		return nil
	}
	c := &Case{Kind: j.Kind, A: j.A, B: j.B, C: j.C}
	for _, o := range j.Ops {
		var buf []byte
		fmt.Sscanf(o.Buf, "%x", &buf)
		c.Ops = append(c.Ops, Op{Reset: o.Reset, Flags: o.Flags, Buf: buf, Offs: o.Offs, Cuts: o.Cuts})
	}
	return c
}
