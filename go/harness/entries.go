package main

// The stateless entry points (kinds >= 100 of Harness.v `entry`): expected
// values computed by /repo, in the order the model prints them.

import (
	"github.com/intuitivelabs/sipsp"
)

func b2i(b bool) int64 {
	if b {
		return 1
	}
	return 0
}

func obsURI(o *Obs, u *sipsp.PsipURI) {
	o.val(int64(u.URIType))
	o.pf(u.Scheme)
	o.pf(u.User)
	o.pf(u.Pass)
	o.pf(u.Host)
	o.pf(u.Port)
	o.pf(u.Params)
	o.pf(u.Headers)
	o.val(int64(u.PortNo))
}

func cp(b []byte) []byte { return exact(b, len(b)) }

func emitIP4P(w *CaseW, s []byte) (bool, int, sipsp.ErrorHdr, [4]byte) {
	var dst [4]byte
	ok, o, e := sipsp.IP4Prefix(cp(s), dst[:])
	exp := []int64{b2i(ok), int64(o), int64(e)}
	if ok {
		exp = append(exp, int64(dst[0]), int64(dst[1]), int64(dst[2]), int64(dst[3]))
	}
	w.emit(100, nil, [][]byte{s}, exp)
	return ok, o, e, dst
}
func emitIP4C(w *CaseW, s []byte) (bool, int, int, [4]byte, int64) {
	var dst [4]byte
	ok, o, l := sipsp.ContainsIP4(cp(s), dst[:])
	exp := []int64{b2i(ok), int64(o), int64(l)}
	flag := int64(0)
	if ok {
		exp = append(exp, int64(dst[0]), int64(dst[1]), int64(dst[2]), int64(dst[3]))
		sg, _ := sipsp.GetCallIDSig(cp(s))
		flag = int64(sg) & 7
	}
	exp = append(exp, flag)
	w.emit(101, nil, [][]byte{s}, exp)
	return ok, o, l, dst, flag
}
func emitHdrType(w *CaseW, s []byte) sipsp.HdrT {
	var t sipsp.HdrT
	if p := safeCall(func() { t = sipsp.GetHdrType(cp(s)) }); p != "" {
		w.emit(102, nil, [][]byte{s}, []int64{zPANIC})
		return 0xffff
	}
	w.emit(102, nil, [][]byte{s}, []int64{int64(t)})
	return t
}
func emitMethodNo(w *CaseW, s []byte) sipsp.SIPMethod {
	var t sipsp.SIPMethod
	if p := safeCall(func() { t = sipsp.GetMethodNo(cp(s)) }); p != "" {
		w.emit(103, nil, [][]byte{s}, []int64{zPANIC})
		return 0xff
	}
	w.emit(103, nil, [][]byte{s}, []int64{int64(t)})
	return t
}
func emitMethodName(w *CaseW, m int) []byte {
	n := sipsp.SIPMethod(m).Name()
	var exp []int64
	for _, c := range n {
		exp = append(exp, int64(c))
	}
	w.emit(104, []int64{int64(m)}, nil, exp)
	return n
}

type uriRes struct {
	Err   sipsp.ErrorURI
	Offs  int
	U     sipsp.PsipURI
	Panic string
}

func parseURI(s []byte) uriRes {
	var r uriRes
	r.Panic = safeCall(func() { r.Err, r.Offs = sipsp.ParseURI(cp(s), &r.U) })
	return r
}
func emitURI(w *CaseW, s []byte) uriRes {
	r := parseURI(s)
	if r.Panic != "" {
		w.emit(110, nil, [][]byte{s}, []int64{zPANIC})
		return r
	}
	var o Obs
	o.val(int64(r.Err))
	o.val(int64(r.Offs))
	obsURI(&o, &r.U)
	w.emit(110, nil, [][]byte{s}, o.V)
	return r
}
func emitViews(w *CaseW, s []byte) {
	r := parseURI(s)
	if r.Panic != "" {
		w.emit(111, nil, [][]byte{s}, []int64{zPANIC})
		return
	}
	var o Obs
	o.val(int64(r.Err))
	var f sipsp.PField
	if p := safeCall(func() { f = r.U.Long() }); p != "" {
		o.val(zPANIC)
	} else {
		o.pf(f)
	}
	if p := safeCall(func() { f = r.U.Short() }); p != "" {
		o.val(zPANIC)
	} else {
		o.pf(f)
	}
	t := r.U
	t.Truncate()
	obsURI(&o, &t)
	w.emit(111, nil, [][]byte{s}, o.V)
}
func emitAdjust(w *CaseW, s []byte, offs, l int) (uriRes, bool, sipsp.PsipURI, string) {
	r := parseURI(s)
	if r.Panic != "" {
		w.emit(112, []int64{int64(offs), int64(l)}, [][]byte{s}, []int64{zPANIC})
		return r, false, r.U, r.Panic
	}
	u := r.U
	var ok bool
	p := safeCall(func() { ok = u.AdjustOffs(sipsp.PField{Offs: sipsp.OffsT(offs), Len: sipsp.OffsT(l)}) })
	if p != "" {
		w.emit(112, []int64{int64(offs), int64(l)}, [][]byte{s}, []int64{zPANIC})
		return r, false, u, p
	}
	var o Obs
	o.val(int64(r.Err))
	o.b(ok)
	obsURI(&o, &u)
	w.emit(112, []int64{int64(offs), int64(l)}, [][]byte{s}, o.V)
	return r, ok, u, ""
}

type cmpRes struct {
	R      bool
	Err    sipsp.ErrorURI
	Which  int
	R1, R2 *sipsp.PsipURI
	Panic  string
}

func parseCmp(a, b []byte, flags uint) cmpRes {
	var r cmpRes
	var r1, r2 sipsp.PsipURI
	r1.PortNo, r2.PortNo = 54321, 54321
	r1.URIType, r2.URIType = -7, -7
	r.Panic = safeCall(func() { r.R, r.Err, r.Which = sipsp.URIParseCmp(cp(a), cp(b), sipsp.URICmpFlags(flags), &r1, &r2) })
	if !(r1.PortNo == 54321 && r1.URIType == -7) {
		r.R1 = &r1
	}
	if !(r2.PortNo == 54321 && r2.URIType == -7) {
		r.R2 = &r2
	}
	return r
}
func emitParseCmp(w *CaseW, a, b []byte, flags uint) cmpRes {
	r := parseCmp(a, b, flags)
	if r.Panic != "" {
		w.emit(113, []int64{int64(flags)}, [][]byte{a, b}, []int64{zPANIC})
		return r
	}
	var o Obs
	o.b(r.R)
	o.val(int64(r.Err))
	o.val(int64(r.Which))
	for _, u := range []*sipsp.PsipURI{r.R1, r.R2} {
		if u == nil {
			o.val(-1)
		} else {
			o.val(1)
			obsURI(&o, u)
		}
	}
	w.emit(113, []int64{int64(flags)}, [][]byte{a, b}, o.V)
	return r
}
func emitListEq(w *CaseW, kind int, a []byte, oa int, b []byte, ob int) (bool, sipsp.ErrorHdr, string) {
	var ok bool
	var e sipsp.ErrorHdr
	p := safeCall(func() {
		if kind == 114 {
			ok, e = sipsp.URIParamsEq(cp(a), oa, cp(b), ob)
		} else {
			ok, e = sipsp.URIHdrsEq(cp(a), oa, cp(b), ob)
		}
	})
	if p != "" {
		w.emit(kind, []int64{int64(oa), int64(ob)}, [][]byte{a, b}, []int64{zPANIC})
		return false, 0, p
	}
	w.emit(kind, []int64{int64(oa), int64(ob)}, [][]byte{a, b}, []int64{b2i(ok), int64(e)})
	return ok, e, ""
}
func emitCmp(w *CaseW, a, b []byte, flags uint) (short, full bool, valid bool) {
	ra, rb := parseURI(a), parseURI(b)
	if ra.Panic != "" || rb.Panic != "" {
		w.emit(116, []int64{int64(flags)}, [][]byte{a, b}, []int64{zPANIC})
		return false, false, false
	}
	exp := []int64{int64(ra.Err), int64(rb.Err)}
	ca, cb := cp(a), cp(b)
	if p := safeCall(func() { short = sipsp.URICmpShort(&ra.U, ca, &rb.U, cb, sipsp.URICmpFlags(flags)) }); p != "" {
		exp = append(exp, zPANIC)
	} else {
		exp = append(exp, b2i(short))
	}
	if p := safeCall(func() { full = sipsp.URICmp(&ra.U, ca, &rb.U, cb, sipsp.URICmpFlags(flags)) }); p != "" {
		exp = append(exp, zPANIC)
	} else {
		exp = append(exp, b2i(full))
	}
	w.emit(116, []int64{int64(flags)}, [][]byte{a, b}, exp)
	return short, full, ra.Err == 0 && rb.Err == 0
}
func emitResolve(w *CaseW, s []byte) sipsp.URIParamF {
	t := sipsp.URIParamResolve(cp(s))
	w.emit(117, nil, [][]byte{s}, []int64{int64(t)})
	return t
}

type sigRes struct {
	O     int
	E     sipsp.ErrorHdr
	Sig   sipsp.MsgSig
	SigE  sipsp.ErrorHdr
	Str   string
	Panic string
	M     *sipsp.PSIPMsg
}

// parses buf in one call and computes the signature
func msgSig(buf []byte, hcap, ccap int, flags uint, offs int) sigRes {
	var r sigRes
	x := newObj(kMsg, hcap, ccap, 0).(*oMsg)
	b := cp(buf)
	r.Panic = safeCall(func() {
		r.O, r.E = x.Parse(flags, b, offs)
		r.Sig, r.SigE = sipsp.GetMsgSig(&x.m)
		r.Str = r.Sig.String()
	})
	r.M = &x.m
	return r
}
func emitMsgSig(w *CaseW, buf []byte, hcap, ccap int, flags uint, offs int) sigRes {
	r := msgSig(buf, hcap, ccap, flags, offs)
	// the three string signatures, as /repo computes them for this message
	var cidsig, cidslen, fromsig, viasig int64
	m := r.M
	p2 := safeCall(func() {
		cs, cl := sipsp.GetCallIDSig(m.PV.Callid.CallID.Get(m.Buf))
		cidsig, cidslen = int64(cs), int64(cl)
		fromsig = int64(sipsp.VerifStrCharsSig(m.PV.From.Tag.Get(m.Buf)))
		for _, h := range m.HL.Hdrs {
			if h.Type == sipsp.HdrVia {
				v, _ := sipsp.GetViaBrSig(h.Val.Get(m.Buf))
				viasig = int64(v)
				break
			}
		}
	})
	// where ContainsIP4 / ContainsIP6 place the IP address inside the Call-ID (the only part of the string
	// signatures the model does not compute itself)
	var has, ipo, ipl int64
	p3 := safeCall(func() {
		cid := m.PV.Callid.CallID.Get(m.Buf)
		h, o, l := sipsp.ContainsIP4(cid, nil)
		if !h {
			h, o, l = sipsp.ContainsIP6(cid, nil)
		}
		has, ipo, ipl = b2i(h), int64(o), int64(l)
	})
	if p2 == "" {
		p2 = p3
	}
	nums := []int64{int64(hcap), int64(ccap), int64(flags), int64(offs), cidsig, cidslen, fromsig, viasig, has, ipo, ipl}
	if r.Panic != "" || p2 != "" {
		if r.Panic == "" {
			r.Panic = p2
		}
		w.emit(120, nums, [][]byte{buf}, []int64{zPANIC})
		return r
	}
	exp := []int64{int64(r.O), int64(r.E), int64(r.SigE), int64(r.Sig.Method), int64(r.Sig.CidSLen), int64(r.Sig.CidSig),
		int64(r.Sig.FromSig), int64(r.Sig.ViaBSig), int64(r.Sig.HdrSigLen)}
	for i := 0; i < r.Sig.HdrSigLen; i++ {
		exp = append(exp, int64(r.Sig.HdrSig[i]))
	}
	for _, c := range []byte(r.Str) {
		exp = append(exp, int64(c))
	}
	w.emit(120, nums, [][]byte{buf}, exp)
	return r
}

// the string signatures on their own: getStrCharsSig(s,0,0), GetViaBrSig, GetCallIDSig
func emitStrSig(w *CaseW, s []byte) int64 {
	var r int64
	if p := safeCall(func() { r = int64(sipsp.VerifStrCharsSig(cp(s))) }); p != "" {
		w.emit(121, nil, [][]byte{s}, []int64{zPANIC})
		return -1
	}
	w.emit(121, nil, [][]byte{s}, []int64{r})
	return r
}
func emitViaBrSig(w *CaseW, s []byte) (int64, int64, string) {
	var sg sipsp.StrSigId
	var l int
	if p := safeCall(func() { sg, l = sipsp.GetViaBrSig(cp(s)) }); p != "" {
		w.emit(122, nil, [][]byte{s}, []int64{zPANIC})
		return 0, 0, p
	}
	w.emit(122, nil, [][]byte{s}, []int64{int64(sg), int64(l)})
	return int64(sg), int64(l), ""
}
func emitCallIDSig(w *CaseW, s []byte) (int64, int64, string) {
	var sg sipsp.StrSigId
	var cl uint8
	var h bool
	var o, l int
	if p := safeCall(func() {
		h, o, l = sipsp.ContainsIP4(cp(s), nil)
		if !h {
			h, o, l = sipsp.ContainsIP6(cp(s), nil)
		}
		sg, cl = sipsp.GetCallIDSig(cp(s))
	}); p != "" {
		w.emit(123, []int64{b2i(h), int64(o), int64(l)}, [][]byte{s}, []int64{zPANIC})
		return 0, 0, p
	}
	w.emit(123, []int64{b2i(h), int64(o), int64(l)}, [][]byte{s}, []int64{int64(sg), int64(cl)})
	return int64(sg), int64(cl), ""
}
