package main

// C05 C06 C10 C13(helpers) C15 C19

import (
	"encoding/json"
	"fmt"
	"regexp"
	"strings"

	"github.com/intuitivelabs/sipsp"
)

// ---- C13 helpers ----------------------------------------------------------------
type run struct {
	obj   Obj
	calls []CallRes
	panic string
}

func newRun(in *Input, cuts []int) *run {
	r := &run{}
	r.panic = safeCall(func() {
		r.obj = newObj(in.Kind, in.A, in.B, in.C)
		res := runOp(r.obj, &Op{Flags: in.Flags, Buf: []byte(in.Buf), Offs: in.Offs, Cuts: cuts})
		r.calls = res.Calls
		if res.Panic != "" {
			panic(res.Panic)
		}
	})
	return r
}

type capProj struct {
	indep  []int64   // what must not depend on capacities
	lists  [][]int64 // per list: the stored elements, flattened one by one
	elemSz []int
	n      []int  // total counts
	more   []bool // the 'more' indicators
	first  []int64
	last   []int64
	sig    string
	sigErr sipsp.ErrorHdr
}

func flatFrom(f *sipsp.PFromBody) []int64 { var o Obs; obsFrom(&o, f); return o.V }

func capProjection(kind int, r *run) *capProj {
	p := &capProj{}
	if r.panic != "" {
		return p
	}
	var o Obs
	for _, c := range r.calls {
		o.val(int64(c.O))
		o.val(int64(c.E))
	}
	addHL := func(l *sipsp.HdrLst) {
		o.val(int64(l.N))
		o.val(int64(l.PFlags))
		for t := 0; t < 16; t++ {
			if h := l.GetHdr(sipsp.HdrT(t)); h != nil {
				obsHdr(&o, h)
			}
		}
		var fl []int64
		n := l.N
		if n > len(l.Hdrs) {
			n = len(l.Hdrs)
		}
		for i := 0; i < n; i++ {
			var e Obs
			obsHdr(&e, &l.Hdrs[i])
			fl = append(fl, e.V...)
		}
		p.lists = append(p.lists, fl)
		p.elemSz = append(p.elemSz, 5)
		p.n = append(p.n, l.N)
		p.more = append(p.more, l.N > len(l.Hdrs))
	}
	addPV := func(v *sipsp.PHdrVals) {
		obsFrom(&o, &v.From)
		obsFrom(&o, &v.To)
		obsCallID(&o, &v.Callid)
		obsCSeq(&o, &v.CSeq)
		obsUInt(&o, &v.CLen)
		obsUInt(&o, &v.Expires)
		c := &v.Contacts
		o.val(int64(c.N))
		o.val(int64(c.HNo))
		o.val(int64(c.MinExpires))
		o.val(int64(c.MaxExpires))
		o.pf(c.LastHVal)
		obsPAIs(&o, &v.PAIs)
		m, ok := v.MaxExpires()
		o.val(int64(m))
		o.b(ok)
		var fl []int64
		for i := 0; i < c.VNo(); i++ {
			fl = append(fl, flatFrom(&c.Vals[i])...)
		}
		p.lists = append(p.lists, fl)
		p.elemSz = append(p.elemSz, len(flatFrom(&sipsp.PFromBody{})))
		p.n = append(p.n, c.N)
		p.more = append(p.more, c.More())
		if c.N > 0 {
			if f := c.GetContact(0); f != nil {
				p.first = flatFrom(f)
			}
			if f := c.GetContact(c.N - 1); f != nil {
				p.last = flatFrom(f)
			}
		}
	}
	switch x := r.obj.(type) {
	case *oMsg:
		obsFLine(&o, &x.m.FL)
		addHL(&x.m.HL)
		addPV(&x.m.PV)
		o.pf(x.m.Body)
		o.val(int64(len(x.m.Buf)))
		o.val(int64(len(x.m.RawMsg)))
		o.b(x.m.Parsed())
		o.b(x.m.Err())
		if x.m.Parsed() {
			sg, e := sipsp.GetMsgSig(&x.m)
			p.sig, p.sigErr = sg.String(), e
		}
	case *oHeaders:
		addHL(&x.l)
		if x.pv != nil {
			addPV(x.pv)
		}
	case *oContacts:
		pv := sipsp.PHdrVals{Contacts: x.v}
		addPV(&pv)
	case *oURIParams:
		o.val(int64(x.v.N))
		o.val(int64(x.v.Types))
		var fl []int64
		for i := 0; i < x.v.PNo(); i++ {
			var e Obs
			obsTokParam(&e, &x.v.Params[i].Param)
			e.val(int64(x.v.Params[i].T))
			fl = append(fl, e.V...)
		}
		p.lists, p.elemSz, p.n, p.more = [][]int64{fl}, []int{8}, []int{x.v.N}, []bool{x.v.More()}
	case *oURIHdrs:
		o.val(int64(x.v.N))
		var fl []int64
		for i := 0; i < x.v.HNo(); i++ {
			var e Obs
			obsTokParam(&e, (*sipsp.PTokParam)(&x.v.Hdrs[i]))
			fl = append(fl, e.V...)
		}
		p.lists, p.elemSz, p.n, p.more = [][]int64{fl}, []int{7}, []int{x.v.N}, []bool{x.v.More()}
	}
	p.indep = o.V
	return p
}

func compareCap(kind int, ample, small *capProj) string {
	if !eqObs(ample.indep, small.indep) {
		return "verdict/offset/counts/flags/first-of-type/header values differ between a small and an ample array"
	}
	for i := range ample.lists {
		if i >= len(small.lists) {
			return "missing list"
		}
		a, s := ample.lists[i], small.lists[i]
		if len(s) > len(a) || !eqObs(a[:len(s)], s) {
			return fmt.Sprintf("list %d: stored elements are not a prefix of what an ample array holds", i)
		}
		stored := len(s) / small.elemSz[i]
		if small.more[i] != (small.n[i] > stored) {
			return fmt.Sprintf("list %d: the 'more' indicator is %v with %d of %d elements stored", i, small.more[i], stored, small.n[i])
		}
	}
	if len(ample.first) > 0 && (!eqObs(ample.first, small.first) || !eqObs(ample.last, small.last)) {
		return "first/last contact not retrievable (or different) with a small array"
	}
	if ample.sig != "" && !(small.sig == ample.sig && small.sigErr == ample.sigErr) && small.sigErr != sipsp.ErrHdrTrunc {
		return fmt.Sprintf("signature %q/%d with a small header array, %q/%d with an ample one", small.sig, small.sigErr, ample.sig, ample.sigErr)
	}
	return ""
}

// ---- C06 ------------------------------------------------------------------------
// a well formed header block (first line + headers + blank line), with the
// declared Content-Length (decl < 0: none)
func (g *G) headerBlock(decl int) string {
	var sb strings.Builder
	if g.p(70) {
		sb.WriteString(g.pick("INVITE", "REGISTER", "OPTIONS", "BYE") + " sip:" + g.alnum(1, 5) + "@" + g.host() + " SIP/2.0\r\n")
	} else {
		sb.WriteString("SIP/2.0 200 OK\r\n")
	}
	n := 1 + g.n(5)
	if g.p(12) {
		n = 9 + g.n(6) // more than the built-in array holds
	}
	at := g.n(n)
	for i := 0; i < n; i++ {
		if i == at && decl >= 0 {
			sb.WriteString(g.hdrName(knownHdrs[6]) + ":" + g.pick("", " ", "\t") + fmt.Sprint(decl) + g.pick("", " ") + "\r\n")
		}
		switch g.n(5) {
		case 0:
			sb.WriteString("Via: " + g.via() + "\r\n")
		case 1:
			sb.WriteString("Call-ID: " + g.callID() + "\r\n")
		case 2:
			sb.WriteString("CSeq: " + fmt.Sprint(g.n(1000)) + " INVITE\r\n")
		case 3:
			sb.WriteString("X-" + g.alnum(1, 4) + ": " + g.alnum(0, 8) + "\r\n")
		default:
			sb.WriteString("From: <sip:" + g.alnum(1, 4) + "@" + g.host() + ">;tag=" + g.alnum(1, 6) + "\r\n")
		}
	}
	sb.WriteString("\r\n")
	return sb.String()
}

func propC06(g *G, w *CaseW, rep *Report, thorough bool) {
	n := scale(thorough, 2500, 30000)
	for i := 0; i < n; i++ {
		decl := -1
		if g.p(75) {
			decl = g.n(40)
			if g.p(10) {
				decl = []int{0, 16777216, 16777215, 70000, 65535}[g.n(5)]
			}
		}
		hb := g.headerBlock(decl)
		avail := g.n(45)
		if decl >= 0 && decl < 100 && g.p(50) {
			avail = decl + g.n(3) - 1
			if avail < 0 {
				avail = 0
			}
		}
		body := g.hostile(avail)
		for len(body) < avail {
			body += "b"
		}
		body = body[:avail]
		offs := 0
		pre := ""
		if g.p(20) {
			pre = g.hostile(5)
			offs = len(pre)
		}
		h := offs + len(hb)
		total := h + avail
		for flags := uint(0); flags < 8; flags++ {
			in := Input{Kind: kMsg, A: -1, B: -1, Flags: flags, Buf: pre + hb + body, Offs: offs}
			c := inputCase(&in, nil)
			out, res := runCase(c)
			if flags == uint(i%8) || g.p(20) {
				w.emitCase(c, out)
			}
			rep.Cases++
			rep.OracleEval++
			rep.count(fmt.Sprintf("flags:%d", flags))
			if len(res) != 1 || res[0].Panic != "" {
				oracleSafe(rep, c, res)
				continue
			}
			skip, req, nomore := flags&1 != 0, flags&2 != 0, flags&4 != 0
			// expected (offset, verdict, body length or -1 when not finished)
			var wo int
			var we sipsp.ErrorHdr
			wbody := -1
			tooBig := decl > 16777216
			switch {
			case tooBig:
				wo, we = -1, sipsp.ErrHdrNumTooBig
			case skip && req && decl < 0:
				wo, we = h, sipsp.ErrHdrNoCLen
			case skip:
				wo, we, wbody = h, sipsp.ErrHdrOk, 0
			case decl >= 0 && h+decl <= total:
				wo, we, wbody = h+decl, sipsp.ErrHdrOk, decl
			case decl >= 0 && nomore:
				wo, we, wbody = total, sipsp.ErrHdrOk, avail
			case decl >= 0:
				wo, we = h, sipsp.ErrHdrMoreBytes
			case req:
				wo, we, wbody = h, sipsp.ErrHdrOk, 0
			default:
				wo, we, wbody = total, sipsp.ErrHdrOk, avail
			}
			x := newRun(&in, nil).obj.(*oMsg)
			got := res[0].Calls[0]
			bad := ""
			if tooBig {
				if got.E != we {
					bad = fmt.Sprintf("Content-Length %d above the limit: verdict %d", decl, got.E)
				}
			} else if got.O != wo || got.E != we {
				bad = fmt.Sprintf("returned (%d,%d), the framing rules give (%d,%d)", got.O, got.E, wo, we)
			} else if wbody >= 0 {
				m := &x.m
				if !m.Parsed() || int(m.Body.Offs) != h || int(m.Body.Len) != wbody ||
					string(m.RawMsg) != in.Buf[offs:wo] || len(m.Buf) != wo {
					bad = fmt.Sprintf("Body {%d,%d} / RawMsg %d bytes / Parsed %v, expected body {%d,%d} and raw message [%d,%d)",
						m.Body.Offs, m.Body.Len, len(m.RawMsg), m.Parsed(), h, wbody, offs, wo)
				}
			}
			if bad != "" {
				rep.violate(fmt.Sprintf("ParseSIPMsg flags=%d declared=%d available=%d: %s", flags, decl, avail, bad), "framing",
					map[string]interface{}{"case": json.RawMessage(caseJSON(c))})
			}
			rep.nontrivial(fmt.Sprintf("%d|%d|%d|%s", flags, decl, avail, hb))
		}
		if i < 2 {
			rep.sample(map[string]interface{}{"header_block": hb, "declared": decl, "available": avail})
		}
	}
	// pipelines
	m := scale(thorough, 500, 6000)
	for i := 0; i < m; i++ {
		k := 1 + g.n(4)
		var msgs []string
		for j := 0; j < k; j++ {
			bl := g.n(30)
			b := g.pick(g.alnum(bl, bl), "INVITE sip:x@y SIP/2.0\r\n\r\n", "\r\n\r\n", g.hostile(bl))
			msgs = append(msgs, g.headerBlock(len(b))+b)
		}
		all := strings.Join(msgs, "")
		flags := uint(g.pick("\x00", "\x02", "\x04", "\x06")[0])
		hcap, ccap := []int{-1, -1, 0, 1, 2, 3}[g.n(6)], []int{-1, -1, 0, 1}[g.n(4)]
		hist := &Case{Kind: kMsg, A: hcap, B: ccap}
		x := newObj(kMsg, hcap, ccap, 0).(*oMsg)
		o := 0
		okAll := true
		for j := 0; j < k; j++ {
			if j > 0 {
				hist.Ops = append(hist.Ops, Op{Reset: true})
				x.Reset()
			}
			hist.Ops = append(hist.Ops, Op{Flags: flags, Buf: []byte(all), Offs: o})
			var e sipsp.ErrorHdr
			var no int
			if p := safeCall(func() { no, e = x.Parse(flags, cp([]byte(all)), o) }); p != "" {
				okAll = false
				break
			}
			// stand-alone
			alone := Input{Kind: kMsg, A: hcap, B: ccap, Flags: flags, Buf: msgs[j]}
			ra := newRun(&alone, nil)
			rep.OracleEval++
			var oa, ob Obs
			ra.obj.Obs(&oa)
			x.Obs(&ob)
			lo, hi := shiftObs(oa, int64(o))
			same := ra.panic == "" && len(ra.calls) == 1 && ra.calls[0].E == e && ra.calls[0].O+o == no && len(ob.V) == len(lo)
			for q := 0; same && q < len(ob.V); q++ {
				same = ob.V[q] == lo[q] || ob.V[q] == hi[q]
			}
			if !same {
				rep.violate(fmt.Sprintf("message %d of %d laid back to back parses differently from the same message alone", j+1, k),
					"pipeline", map[string]interface{}{"messages": msgs, "flags": flags, "index": j})
				okAll = false
				break
			}
			o = no
		}
		if okAll {
			out, _ := runCase(hist)
			w.emitCase(hist, out)
		}
		rep.Cases++
		rep.count(fmt.Sprintf("pipeline:%d", k))
		rep.nontrivial(all)
	}
}

// ---- C10 ------------------------------------------------------------------------
func propC10(g *G, w *CaseW, rep *Report, thorough bool) {
	n := scale(thorough, 2500, 40000)
	const max32 = uint64(4294967295)
	for i := 0; i < n; i++ {
		d := g.digits()
		v, ovf := decimal([]byte(d))
		chunk := g.p(40)
		mk := func(kind, a int, text string) (*Case, *OpRes, Obj) {
			in := Input{Kind: kind, A: a, Buf: text}
			var cuts []int
			if chunk {
				cuts = g.cuts(0, len(text))
			}
			c := inputCase(&in, cuts)
			out, res := runCase(c)
			w.emitCase(c, out)
			rep.Cases++
			rep.OracleEval++
			if len(res) != 1 || res[0].Panic != "" {
				oracleSafe(rep, c, res)
				return c, nil, nil
			}
			return c, &res[0], newRun(&in, cuts).obj
		}
		fail := func(c *Case, what string) {
			rep.violate(what, "number", map[string]interface{}{"case": json.RawMessage(caseJSON(c)), "digits": d})
		}
		okv := func(r *OpRes) bool { return r != nil && r.Calls[len(r.Calls)-1].E == sipsp.ErrHdrOk }
		switch i % 7 {
		case 0: // CSeq
			c, r, o := mk(kCSeq, 0, g.ows()+d+" INVITE\r\nX")
			if okv(r) {
				x := o.(*oCSeq)
				if ovf || v > max32 || uint64(x.v.CSeqNo) != v || string(x.v.CSeq.Get([]byte(c.Ops[0].Buf))) != d {
					fail(c, fmt.Sprintf("CSeq %s accepted with CSeqNo %d", d, x.v.CSeqNo))
				}
				rep.count("cseq:ok")
			} else {
				rep.count("cseq:rejected")
			}
		case 1: // Content-Length
			c, r, o := mk(kCLen, 0, " "+d+"\r\nX")
			if okv(r) {
				x := o.(*oUInt)
				if ovf || v > 16777216 || len(d) > 9 || uint64(x.v.UIVal) != v {
					fail(c, fmt.Sprintf("Content-Length %s accepted with value %d", d, x.v.UIVal))
				}
				rep.count("clen:ok")
			} else {
				rep.count("clen:rejected")
			}
		case 2: // Expires header
			c, r, o := mk(kUInt, 0, d+"\r\nX")
			if okv(r) {
				x := o.(*oUInt)
				if ovf || v > max32 || uint64(x.v.UIVal) != v {
					fail(c, fmt.Sprintf("Expires %s accepted with value %d", d, x.v.UIVal))
				}
				rep.count("expires:ok")
			} else {
				rep.count("expires:rejected")
			}
		case 3: // contact expires parameter: saturates
			c, r, o := mk(kNameAddr, int(sipsp.HdrContact), "<sip:a@b>;"+g.pick("expires", "EXPIRES", "Expires")+"="+d+g.pick("", ";x=1", " ;lr")+"\r\nX")
			if okv(r) {
				x := o.(*oNameAddr)
				want := v
				if ovf || v > max32 {
					want = max32
				}
				if !x.v.HasExpires || uint64(x.v.Expires) != want {
					fail(c, fmt.Sprintf("contact expires=%s reported as %d (HasExpires %v), expected %d", d, x.v.Expires, x.v.HasExpires, want))
				}
				rep.count("cexpires:ok")
			}
		case 4: // q
			q := g.pick(d, "0."+d, "1."+d, d+"."+d, "0", "1", "0.5", "0.05", "0.005", "1.0", "1.00", "1.000", "0.999", "1.001", "0.0005", d+".5")
			c, r, o := mk(kNameAddr, int(sipsp.HdrContact), "<sip:a@b>;q="+q+"\r\nX")
			if okv(r) {
				x := o.(*oNameAddr)
				want, valid := refQ(q)
				if valid && (x.v.Q != want || x.v.ParamErr != 0) {
					fail(c, fmt.Sprintf("q=%s reported as %d (ParamErr %d), expected %d", q, x.v.Q, x.v.ParamErr, want))
				}
				if !valid && (x.v.Q != 0 || x.v.ParamErr == 0) {
					fail(c, fmt.Sprintf("q=%s is outside 0..1 / 3 decimals but Q=%d ParamErr=%d", q, x.v.Q, x.v.ParamErr))
				}
				rep.count("q:ok")
			}
		case 5: // status
			code := fmt.Sprintf("%03d", g.n(1000))
			c, r, o := mk(kFLine, 0, g.pick("SIP/2.0", "sip/2.0")+" "+code+" "+g.tok(0, 6)+"\r\nV")
			if okv(r) {
				x := o.(*oFLine)
				cv, _ := decimal([]byte(code))
				if uint64(x.v.Status) != cv || string(x.v.StatusCode.Get([]byte(c.Ops[0].Buf))) != code {
					fail(c, fmt.Sprintf("status %s reported as %d", code, x.v.Status))
				}
				rep.count("status:ok")
			}
		case 6: // port
			u := g.pick("sip:h:", "sip:u@h:", "sips:[::1]:", "sip:u:p@h:", "sip:h.x:", "sip:u:12@h:", "sip:bob:0065@h.com:",
				"sip:u:"+fmt.Sprint(g.n(70000))+"@h:", "sip:a:1;b@h:") + d + g.pick("", ";p=1", "?h=1")
			r := checkURI(rep, w, []byte(u))
			if r.Panic == "" && r.Err == 0 {
				if ovf || v > 65535 || uint64(r.U.PortNo) != v {
					rep.violate(fmt.Sprintf("URI %s accepted with PortNo %d", u, r.U.PortNo), "number", map[string]string{"uri": u})
				}
				rep.count("port:ok")
			} else {
				rep.count("port:rejected")
			}
		}
		rep.nontrivial(fmt.Sprintf("%d|%s", i%7, d))
		if i < 3 {
			rep.sample(d)
		}
		// the same numbers inside a header line and inside a message, cut at a random place:
		// whatever path completes the value, the limits are the same
		if i%3 == 0 {
			hn := g.pick("Content-Length", "l", "CSeq", "Expires")
			val := d
			if hn == "CSeq" {
				val = d + " INVITE"
			}
			for _, kind := range []int{kHdrLine, kMsg} {
				text := hn + ":" + g.pick("", " ") + val + "\r\nX: y\r\n\r\n"
				in := Input{Kind: kind, A: 1, B: 2, Buf: text}
				if kind == kMsg {
					in = Input{Kind: kMsg, A: -1, B: -1, Flags: 1, Buf: "OPTIONS sip:a@b SIP/2.0\r\n" + text}
				}
				one := inputCase(&in, nil)
				out1, r1 := runCase(one)
				w.emitCase(one, out1)
				cuts := []int{1 + g.n(len(in.Buf)-1)}
				ch := inputCase(&in, cuts)
				out2, r2 := runCase(ch)
				w.emitCase(ch, out2)
				rep.Cases += 2
				rep.OracleEval++
				if len(r1) == 1 && len(r2) == 1 && r1[0].Panic == "" && r2[0].Panic == "" {
					a, b := r1[0].Calls[len(r1[0].Calls)-1], r2[0].Calls[len(r2[0].Calls)-1]
					if a != b || !eqObsValues(r1[0].Obs, r2[0].Obs) {
						rep.violate(fmt.Sprintf("%s %q: one-shot gives (%d,%d), cut at %d gives (%d,%d): a number is accepted or rejected depending on the chunking",
							kindNames[kind], hn+": "+val, a.O, a.E, cuts[0], b.O, b.E), "number-chunked",
							map[string]interface{}{"case": json.RawMessage(caseJSON(ch))})
					}
				}
			}
		}
	}
	// the stale accumulator shape: a discarded port followed by the real one
	for _, u := range []string{"sip:[::1]:5;x@h:7", "sip:a:1;b@h:22", "sip:a:65535?x@h:9", "sip:a:99999;x@h:1",
		"sip:bob:12@biloxi.com:34", "sip:u:1@h:5060", "sip:u:65535@h:1", "sip:u:0@h:0", "sip:u:9:9@h:7"} {
		r := checkURI(rep, w, []byte(u))
		if r.Panic == "" && r.Err == 0 {
			v, _ := decimal(r.U.Port.Get([]byte(u)))
			if uint64(r.U.PortNo) != v {
				rep.violate(fmt.Sprintf("URI %s: PortNo %d, port text %q", u, r.U.PortNo, r.U.Port.Get([]byte(u))), "number", map[string]string{"uri": u})
			}
		}
	}
}

// q value: (value*1000, valid) per "between 0 and 1 with at most three decimals"
func refQ(q string) (uint16, bool) {
	re := regexp.MustCompile(`^([0-9]+)(\.([0-9]*))?$`)
	m := re.FindStringSubmatch(q)
	if m == nil {
		return 0, false
	}
	ip, ovf := decimal([]byte(m[1]))
	if ovf || ip > 1 || len(m[3]) > 3 {
		return 0, false
	}
	frac := m[3]
	for len(frac) < 3 {
		frac += "0"
	}
	f, _ := decimal([]byte(frac))
	if ip == 1 && f > 0 {
		return 0, false
	}
	return uint16(ip*1000 + f), true
}

// ---- C15 ------------------------------------------------------------------------
type uriAST struct {
	scheme, user, pass, host, port string
	params                         [][2]string // name, value ("" = none, "=" = empty value)
	hdrs                           [][2]string
}

func (g *G) uriAST() uriAST {
	var a uriAST
	a.scheme = g.pick("sip", "sips")
	if g.p(70) {
		a.user = g.alnum(1, 5)
		if g.p(30) {
			a.pass = g.alnum(1, 4)
		}
	}
	a.host = g.alnum(1, 5) + g.pick("", ".com", ".Example.org")
	if g.p(30) {
		a.port = fmt.Sprint(1 + g.n(65535))
	}
	names := []string{"transport", "lr", "maddr", "user", "method", "ttl", "x1", "foo", "bar", "p2", "q-z"}
	g.r.Shuffle(len(names), func(i, j int) { names[i], names[j] = names[j], names[i] })
	for i := g.n(5); i > 0; i-- {
		v := g.alnum(1, 4)
		if g.p(20) {
			v = ""
		}
		a.params = append(a.params, [2]string{names[i], v})
	}
	hn := []string{"subject", "priority", "h1", "h2", "to"}
	g.r.Shuffle(len(hn), func(i, j int) { hn[i], hn[j] = hn[j], hn[i] })
	for i := g.n(4); i > 0; i-- {
		a.hdrs = append(a.hdrs, [2]string{hn[i], g.alnum(0, 4)})
	}
	return a
}
func (a uriAST) String() string {
	var sb strings.Builder
	sb.WriteString(a.scheme + ":")
	if a.user != "" {
		sb.WriteString(a.user)
		if a.pass != "" {
			sb.WriteString(":" + a.pass)
		}
		sb.WriteString("@")
	}
	sb.WriteString(a.host)
	if a.port != "" {
		sb.WriteString(":" + a.port)
	}
	for _, p := range a.params {
		sb.WriteString(";" + p[0])
		if p[1] != "" {
			sb.WriteString("=" + p[1])
		}
	}
	for i, h := range a.hdrs {
		if i == 0 {
			sb.WriteString("?")
		} else {
			sb.WriteString("&")
		}
		sb.WriteString(h[0] + "=" + h[1])
	}
	return sb.String()
}
func (g *G) recase(a uriAST) uriAST {
	b := a
	b.scheme = g.caseMix(a.scheme)
	b.host = g.caseMix(a.host)
	b.params = nil
	for _, p := range a.params {
		b.params = append(b.params, [2]string{g.caseMix(p[0]), g.caseMix(p[1])})
	}
	b.hdrs = nil
	for _, h := range a.hdrs {
		b.hdrs = append(b.hdrs, [2]string{g.caseMix(h[0]), g.caseMix(h[1])})
	}
	g.r.Shuffle(len(b.params), func(i, j int) { b.params[i], b.params[j] = b.params[j], b.params[i] })
	g.r.Shuffle(len(b.hdrs), func(i, j int) { b.hdrs[i], b.hdrs[j] = b.hdrs[j], b.hdrs[i] })
	return b
}

func propC15(g *G, w *CaseW, rep *Report, thorough bool) {
	n := scale(thorough, 1200, 15000)
	cmp := func(a, b string, f uint) bool {
		_, full, _ := emitCmpQuiet([]byte(a), []byte(b), f)
		return full
	}
	for i := 0; i < n; i++ {
		a := g.uriAST()
		sa := a.String()
		var sb string
		kind := g.n(8)
		expectEq, expectNe := false, false
		switch kind {
		case 0, 1, 2: // permuted / re-cased variant: must be equal
			sb = g.recase(a).String()
			expectEq = true
		case 3: // user differs in case only
			if a.user == "" || strings.ToUpper(a.user) == strings.ToLower(a.user) {
				continue
			}
			b := a
			b.user = swapCase(a.user)
			sb = b.String()
			expectNe = true
		case 4: // one of user/ttl/method/maddr present in one only
			b := a
			nm := g.pick("user", "ttl", "method", "maddr")
			has := false
			for _, p := range a.params {
				if p[0] == nm {
					has = true
				}
			}
			if has {
				continue
			}
			b.params = append(append([][2]string{}, a.params...), [2]string{nm, "1"})
			sb = b.String()
			expectNe = true
		case 5: // password differs in case
			if a.pass == "" || strings.ToUpper(a.pass) == strings.ToLower(a.pass) {
				continue
			}
			b := a
			b.pass = swapCase(a.pass)
			sb = b.String()
			expectNe = true
		default: // unrelated URI
			sb = g.uriAST().String()
		}
		replay := map[string]string{"a": sa, "b": sb}
		emitCmp(w, []byte(sa), []byte(sb), uint(g.n(64)))
		emitParseCmp(w, []byte(sa), []byte(sb), uint(g.n(64)))
		rep.Cases++
		rep.nontrivial(sa + "|" + sb)
		rep.count(fmt.Sprintf("pair-kind:%d", kind))
		res := make([]bool, 64)
		for f := uint(0); f < 64; f++ {
			ab, ba := cmp(sa, sb, f), cmp(sb, sa, f)
			rep.OracleEval += 2
			res[f] = ab
			if ab != ba {
				rep.violate(fmt.Sprintf("URICmp not symmetric for flags %d", f), "cmp-symmetric", replay)
				break
			}
			if !cmp(sa, sa, f) {
				rep.violate(fmt.Sprintf("URICmp not reflexive for flags %d", f), "cmp-reflexive", replay)
				break
			}
			// raw / parse-and-compare agree, and hand back the parsed URIs
			pr := parseCmp([]byte(sa), []byte(sb), f)
			raw, rawE, _ := sipsp.URIRawCmp([]byte(sa), []byte(sb), sipsp.URICmpFlags(f))
			ua, ub := parseURI([]byte(sa)), parseURI([]byte(sb))
			if pr.Panic != "" || pr.R != ab || raw != ab || rawE != pr.Err || pr.R1 == nil || pr.R2 == nil || *pr.R1 != ua.U || *pr.R2 != ub.U {
				rep.violate(fmt.Sprintf("URIParseCmp/URIRawCmp disagree with parsing each URI separately (flags %d)", f), "cmp-wrappers", replay)
				break
			}
		}
		for f := uint(0); f < 64; f++ { // skipping more can only turn different into equal
			for bit := uint(1); bit < 64; bit <<= 1 {
				if f&bit == 0 && res[f] && !res[f|bit] {
					rep.violate(fmt.Sprintf("equal with flags %d but different with flags %d", f, f|bit), "cmp-monotone", replay)
				}
			}
		}
		if expectEq && !res[0] {
			rep.violate("a re-cased / re-ordered variant of a URI compares different", "cmp-variant", replay)
		}
		if expectNe && res[0] {
			rep.violate(fmt.Sprintf("URIs that must differ (variant kind %d) compare equal", kind), "cmp-distinct", replay)
		}
		if i < 3 {
			rep.sample(replay)
		}
	}
	// parameter / header list equality directly
	for i := 0; i < scale(thorough, 800, 8000); i++ {
		a := g.uriAST()
		b := g.recase(a)
		pa, pb := strings.TrimPrefix(paramStr(a), ";"), strings.TrimPrefix(paramStr(b), ";")
		ok, _, p := emitListEq(w, 114, []byte(pa), 0, []byte(pb), 0)
		rep.OracleEval++
		if p != "" || !ok {
			rep.violate("URIParamsEq: permuted / re-cased parameter list not equal", "paramseq", map[string]string{"a": pa, "b": pb})
		}
		ha, hb := hdrStr(a), hdrStr(b)
		ok, _, p = emitListEq(w, 115, []byte(ha), 0, []byte(hb), 0)
		rep.OracleEval++
		if p != "" || !ok {
			rep.violate("URIHdrsEq: permuted / re-cased header list not equal", "hdrseq", map[string]string{"a": ha, "b": hb})
		}
		emitResolve(w, []byte(g.pick("transport", "TTL", "lr", "Maddr", "user", "METHOD", "x", "ttlx", "")))
	}
	// finding F13: lists longer than the 100-slot temporaries
	var p1, p2 []string
	for k := 0; k < 101; k++ {
		p1 = append(p1, fmt.Sprintf("p%d=v", k))
	}
	p2 = append(append(p2, p1[100]), p1[:100]...)
	a, b := strings.Join(p1, ";"), strings.Join(p2, ";")
	ok, _ := sipsp.URIParamsEq([]byte(a), 0, []byte(b), 0)
	ok2, _ := sipsp.URIParamsEq([]byte(b), 0, []byte(a), 0)
	p3 := append(append([]string{}, p1[:100]...), "p100=w")
	ok3, _ := sipsp.URIParamsEq([]byte(a), 0, []byte(strings.Join(p3, ";")), 0)
	if !ok || !ok2 || ok3 {
		rep.violate(fmt.Sprintf("URIParamsEq on 101-parameter lists: permutation equal=%v/%v, differing 101st parameter equal=%v", ok, ok2, ok3),
			"paramseq-101", map[string]string{"a": a, "b": b})
	}
}

func swapCase(s string) string {
	b := []byte(s)
	for i, c := range b {
		if c >= 'a' && c <= 'z' {
			b[i] = c - 32
		} else if c >= 'A' && c <= 'Z' {
			b[i] = c + 32
		}
	}
	return string(b)
}
func paramStr(a uriAST) string {
	var sb strings.Builder
	for _, p := range a.params {
		sb.WriteString(";" + p[0])
		if p[1] != "" {
			sb.WriteString("=" + p[1])
		}
	}
	return sb.String()
}
func hdrStr(a uriAST) string {
	var parts []string
	for _, h := range a.hdrs {
		parts = append(parts, h[0]+"="+h[1])
	}
	return strings.Join(parts, "&")
}
func emitCmpQuiet(a, b []byte, flags uint) (short, full, valid bool) {
	ra, rb := parseURI(a), parseURI(b)
	if ra.Panic != "" || rb.Panic != "" || ra.Err != 0 || rb.Err != 0 {
		return false, false, false
	}
	safeCall(func() {
		short = sipsp.URICmpShort(&ra.U, a, &rb.U, b, sipsp.URICmpFlags(flags))
		full = sipsp.URICmp(&ra.U, a, &rb.U, b, sipsp.URICmpFlags(flags))
	})
	return short, full, true
}
