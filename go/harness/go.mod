module verifharness

go 1.13

require github.com/intuitivelabs/sipsp v0.0.0

replace github.com/intuitivelabs/sipsp => /repo
