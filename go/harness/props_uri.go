package main

// C14 C15 C18 C16 C20 (+ the URI parts of C04 C10 C11 C12)

import (
	"bytes"
	"encoding/json"
	"fmt"
	"strings"

	"github.com/intuitivelabs/sipsp"
)

// ---- C20 ------------------------------------------------------------------------
// whole s is four dot separated groups of 1-3 digits, each <= 255
func validIP4(s []byte) (bool, [4]byte) {
	var ip [4]byte
	g, d, v := 0, 0, 0
	for i, c := range s {
		if c >= '0' && c <= '9' {
			d++
			v = v*10 + int(c-'0')
			if d > 3 || v > 255 {
				return false, ip
			}
		} else if c == '.' {
			if d == 0 || g == 3 || i == len(s)-1 {
				return false, ip
			}
			ip[g] = byte(v)
			g, d, v = g+1, 0, 0
		} else {
			return false, ip
		}
	}
	if g != 3 || d == 0 {
		return false, ip
	}
	ip[3] = byte(v)
	return true, ip
}

func checkIP4(rep *Report, w *CaseW, s []byte) {
	ok, o, e, dst := emitIP4P(w, s)
	rep.OracleEval++
	bad := ""
	anyPrefix := false
	for l := 7; l <= 15 && l <= len(s); l++ {
		if v, _ := validIP4(s[:l]); v {
			anyPrefix = true
		}
	}
	if ok != anyPrefix {
		bad = fmt.Sprintf("IP4Prefix returned %v but the text %s with an address", ok, map[bool]string{true: "starts", false: "does not start"}[anyPrefix])
	} else if ok {
		v, ip := validIP4(s[:o])
		switch {
		case !v || ip != dst:
			bad = fmt.Sprintf("IP4Prefix: reported span [0,%d) / bytes %v are not a valid address", o, dst)
		case o < len(s) && func() bool { v2, _ := validIP4(s[:o+1]); return v2 }():
			bad = fmt.Sprintf("IP4Prefix stopped at %d although the next byte extends the address", o)
		case o == len(s) && e != sipsp.ErrHdrOk, o < len(s) && s[o] >= '0' && s[o] <= '9' && e != sipsp.ErrHdrMoreValues,
			o < len(s) && !(s[o] >= '0' && s[o] <= '9') && e != sipsp.ErrHdrBadChar:
			bad = fmt.Sprintf("IP4Prefix: indication %d does not match what follows the address at %d", e, o)
		}
	}
	if bad != "" {
		rep.violate(bad, "ip4prefix", map[string]string{"text": string(s), "hex": hexs(string(s))})
	}
	cok, co, cl, cdst, flag := emitIP4C(w, s)
	exists := false
	for p := 0; p < len(s) && !exists; p++ {
		for l := 7; l <= 15 && p+l <= len(s); l++ {
			if v, _ := validIP4(s[p : p+l]); v {
				exists = true
				break
			}
		}
	}
	bad = ""
	if cok != exists {
		bad = fmt.Sprintf("ContainsIP4 returned %v but the text %s an address", cok, map[bool]string{true: "contains", false: "does not contain"}[exists])
	} else if cok {
		if co < 0 || cl < 0 || co+cl > len(s) {
			bad = "ContainsIP4: reported span outside the text"
		} else if v, ip := validIP4(s[co : co+cl]); !v || ip != cdst {
			bad = fmt.Sprintf("ContainsIP4: reported span [%d,%d) / bytes %v are not a valid address", co, co+cl, cdst)
		} else {
			want := int64(4)
			if co == 0 {
				want = 1
			} else if co+cl == len(s) {
				want = 2
			}
			if flag != want {
				bad = fmt.Sprintf("GetCallIDSig: IP position flag %d, expected %d for span [%d,%d) of %d bytes", flag, want, co, co+cl, len(s))
			}
		}
	}
	if bad != "" {
		rep.violate(bad, "containsip4", map[string]string{"text": string(s), "hex": hexs(string(s))})
	}
	rep.Cases++
	if cok || ok {
		rep.nontrivial(string(s))
		rep.count("ip:found")
	} else {
		rep.count("ip:none")
	}
}

func propC20(g *G, w *CaseW, rep *Report, thorough bool) {
	L := scale(thorough, 7, 9)
	enumStrings([]string{"0", "1", "2", "5", ".", "x"}, L, func(s string) { checkIP4(rep, w, []byte(s)) })
	rep.Notes["exhaustive"] = fmt.Sprintf("all strings over {0,1,2,5,.,x} up to length %d", L)
	n := scale(thorough, 3000, 60000)
	for i := 0; i < n; i++ {
		var sb strings.Builder
		for k := g.n(4); k >= 0; k-- {
			switch g.n(6) {
			case 0:
				sb.WriteString(g.alnum(0, 6))
			case 1:
				sb.WriteString(fmt.Sprintf("%d.%d.%d.%d", g.n(300), g.n(300), g.n(300), g.n(300)))
			case 2:
				sb.WriteString(fmt.Sprintf("%d.%d.%d", g.n(256), g.n(256), g.n(256)))
			case 3:
				sb.WriteString(g.pick(".", "..", "0", "00", "255", "256", "1234", "-", "@"))
			case 4:
				sb.WriteString(fmt.Sprintf("%03d.%d.%02d.%d", g.n(256), g.n(1000), g.n(100), g.n(256)))
			default:
				sb.WriteString(fmt.Sprintf("%d.%d.%d.%d", g.n(256), g.n(256), g.n(256), g.n(256)))
			}
		}
		s := sb.String()
		if g.p(10) {
			s = g.mutate(s)
		}
		checkIP4(rep, w, []byte(s))
		if i < 3 {
			rep.sample(s)
		}
	}
}

// ---- C16 ------------------------------------------------------------------------
var specHdrs = map[string]sipsp.HdrT{"from": sipsp.HdrFrom, "f": sipsp.HdrFrom, "to": sipsp.HdrTo, "t": sipsp.HdrTo,
	"call-id": sipsp.HdrCallID, "i": sipsp.HdrCallID, "cseq": sipsp.HdrCSeq, "via": sipsp.HdrVia, "v": sipsp.HdrVia,
	"max-forwards": sipsp.HdrMaxFwd, "content-length": sipsp.HdrCLen, "l": sipsp.HdrCLen, "contact": sipsp.HdrContact,
	"m": sipsp.HdrContact, "expires": sipsp.HdrExpires, "user-agent": sipsp.HdrUA, "record-route": sipsp.HdrRecordRoute,
	"route": sipsp.HdrRoute, "p-asserted-identity": sipsp.HdrPAI}
var specMethods = map[string]sipsp.SIPMethod{"REGISTER": sipsp.MRegister, "INVITE": sipsp.MInvite, "ACK": sipsp.MAck,
	"BYE": sipsp.MBye, "PRACK": sipsp.MPrack, "CANCEL": sipsp.MCancel, "OPTIONS": sipsp.MOptions,
	"SUBSCRIBE": sipsp.MSubscribe, "NOTIFY": sipsp.MNotify, "UPDATE": sipsp.MUpdate, "INFO": sipsp.MInfo,
	"REFER": sipsp.MRefer, "PUBLISH": sipsp.MPublish, "MESSAGE": sipsp.MMessage}

func asciiLower(s []byte) string {
	b := append([]byte(nil), s...)
	for i, c := range b {
		if c >= 'A' && c <= 'Z' {
			b[i] = c + 32
		}
	}
	return string(b)
}
func refHdrType(name []byte) sipsp.HdrT {
	if t, ok := specHdrs[asciiLower(name)]; ok {
		return t
	}
	return sipsp.HdrOther
}
func refMethod(name []byte) sipsp.SIPMethod {
	if t, ok := specMethods[string(name)]; ok {
		return t
	}
	return sipsp.MOther
}

func checkName(rep *Report, w *CaseW, name []byte) {
	rep.Cases++
	rep.OracleEval += 2
	t := emitHdrType(w, name)
	if want := refHdrType(name); t != want {
		rep.violate(fmt.Sprintf("GetHdrType(%q) = %d, the table says %d", name, t, want), "hdrtype",
			map[string]string{"name": string(name), "hex": hexs(string(name))})
	}
	m := emitMethodNo(w, name)
	if want := refMethod(name); m != want {
		rep.violate(fmt.Sprintf("GetMethodNo(%q) = %d, the table says %d", name, m, want), "methodno",
			map[string]string{"name": string(name), "hex": hexs(string(name))})
	}
	if t != sipsp.HdrOther || m != sipsp.MOther {
		rep.nontrivial(string(name))
		rep.count("name:known")
	} else {
		rep.count("name:other")
	}
}

func propC16(g *G, w *CaseW, rep *Report, thorough bool) {
	var names []string
	for n := range specHdrs {
		names = append(names, n)
	}
	for n := range specMethods {
		names = append(names, n)
	}
	sortStrings(names)
	// case variants
	for _, n := range names {
		k := len(n)
		if k <= scale(thorough, 10, 14) {
			for mask := 0; mask < 1<<uint(k); mask++ {
				b := []byte(asciiLower([]byte(n)))
				for i := 0; i < k; i++ {
					if mask&(1<<uint(i)) != 0 && b[i] >= 'a' && b[i] <= 'z' {
						b[i] -= 32
					}
				}
				checkName(rep, w, b)
			}
		} else {
			for j := 0; j < scale(thorough, 300, 5000); j++ {
				checkName(rep, w, []byte(g.caseMix(n)))
			}
		}
	}
	// all byte strings of length 0..2, length 3 over a reduced alphabet
	checkName(rep, w, []byte{})
	for a := 0; a < 256; a++ {
		checkName(rep, w, []byte{byte(a)})
	}
	step := scale(thorough, 7, 1)
	for a := 0; a < 256; a++ {
		for b := (a * 3) % step; b < 256; b += step {
			checkName(rep, w, []byte{byte(a), byte(b)})
		}
	}
	enumStrings([]string{"t", "T", "o", "v", "V", "i", "a", "A", "c", "k", "K", "b", "y", "e", "E", "-", "\x00", "\xd4"}, 3,
		func(s string) {
			if len(s) == 3 {
				checkName(rep, w, []byte(s))
			}
		})
	// one-edit neighbours
	alpha := []byte("abcdefghijklmnopqrstuvwxyzABCDEFGHIJKLMNOPQRSTUVWXYZ-_ :\x00\xff0")
	for _, n := range names {
		for _, base := range []string{n, strings.ToUpper(n), strings.Title(n)} {
			b := []byte(base)
			for i := 0; i <= len(b); i++ {
				for _, c := range alpha {
					if !thorough && (int(c)+i)%5 != 0 {
						continue
					}
					ins := append(append(append([]byte(nil), b[:i]...), c), b[i:]...)
					checkName(rep, w, ins)
					if i < len(b) {
						sub := append([]byte(nil), b...)
						sub[i] = c
						checkName(rep, w, sub)
					}
				}
				if i < len(b) {
					checkName(rep, w, append(append([]byte(nil), b[:i]...), b[i+1:]...))
				}
				if i+1 < len(b) {
					tr := append([]byte(nil), b...)
					tr[i], tr[i+1] = tr[i+1], tr[i]
					checkName(rep, w, tr)
				}
			}
		}
	}
	for i := 0; i < scale(thorough, 2000, 30000); i++ {
		checkName(rep, w, []byte(g.pick(g.tok(1, 24), g.hostile(24), g.caseMix(names[g.n(len(names))])+g.tok(0, 2))))
	}
	// method -> name -> method
	for m := 0; m < 20; m++ {
		n := emitMethodName(w, m)
		if m >= 1 && m <= 14 {
			if got := sipsp.GetMethodNo(n); int(got) != m {
				rep.violate(fmt.Sprintf("GetMethodNo(Name(%d)) = %d", m, got), "method-roundtrip", map[string]int{"method": m})
			}
		}
	}
	// the header parser assigns exactly this classification
	for i := 0; i < scale(thorough, 1500, 20000); i++ {
		nm := g.pick(g.caseMix(names[g.n(len(names))]), g.tok(1, 12), g.mutate(names[g.n(len(names))]))
		if strings.ContainsAny(nm, " \t\r\n:") || nm == "" {
			continue
		}
		pre := g.pick("", "", "v:x\r\n", "INVITE sip:a@b SIP/2.0\r\n", "i:1\r\n")
		in := Input{Kind: kHdrLine, Buf: pre + nm + g.pick("", " ", "\t ") + ": v\r\nX", Offs: len(pre)}
		c := inputCase(&in, nil)
		out, res := runCase(c)
		w.emitCase(c, out)
		rep.Cases++
		rep.OracleEval++
		if len(res) == 1 && res[0].Panic == "" && res[0].Calls[0].E == sipsp.ErrHdrOk {
			if got, want := sipsp.HdrT(res[0].Obs.V[0]), refHdrType([]byte(nm)); got != want {
				rep.violate(fmt.Sprintf("ParseHdrLine typed header %q as %d, the table says %d", nm, got, want), "hdrline-type",
					map[string]interface{}{"case": json.RawMessage(caseJSON(c))})
			}
		}
	}
	rep.sample("Content-LENGTH")
	rep.sample("INVITE")
}

func sortStrings(a []string) {
	for i := 1; i < len(a); i++ {
		for j := i; j > 0 && a[j] < a[j-1]; j-- {
			a[j], a[j-1] = a[j-1], a[j]
		}
	}
}

// ---- C14 ------------------------------------------------------------------------
func present(f sipsp.PField) bool { return f.Offs != 0 || f.Len != 0 }
func pfEnd(f sipsp.PField) int    { return int(f.Offs) + int(f.Len) }

// the components of an accepted sip:/sips: URI, joined with their delimiters, are the text
func reassemble(uri []byte, u *sipsp.PsipURI, consumed int) string {
	n := len(uri)
	at := func(p int, c byte) bool { return p < n && uri[p] == c }
	if consumed != n {
		return fmt.Sprintf("consumed %d of %d bytes", consumed, n)
	}
	if u.Scheme.Offs != 0 || pfEnd(u.Scheme) > n {
		return "scheme does not start the URI"
	}
	if s := asciiLower(uri[:pfEnd(u.Scheme)]); s != "sip:" && s != "sips:" {
		return "scheme field is not the scheme text"
	}
	pos := pfEnd(u.Scheme)
	if present(u.User) {
		if int(u.User.Offs) != pos {
			return fmt.Sprintf("user starts at %d, expected %d", u.User.Offs, pos)
		}
		pos = pfEnd(u.User)
		if present(u.Pass) {
			if !at(pos, ':') || int(u.Pass.Offs) != pos+1 {
				return "password not right after user ':'"
			}
			pos = pfEnd(u.Pass)
		}
		if !at(pos, '@') {
			return fmt.Sprintf("no '@' after user/password at %d", pos)
		}
		pos++
	} else if present(u.Pass) {
		return "password without user"
	}
	if int(u.Host.Offs) != pos || u.Host.Len == 0 {
		return fmt.Sprintf("host starts at %d (len %d), expected %d", u.Host.Offs, u.Host.Len, pos)
	}
	if uri[pos] == '[' && uri[pfEnd(u.Host)-1] != ']' {
		return "bracketed host lost its closing bracket"
	}
	pos = pfEnd(u.Host)
	if present(u.Port) {
		if !at(pos, ':') || int(u.Port.Offs) != pos+1 {
			return "port not right after host ':'"
		}
		pos = pfEnd(u.Port)
	}
	if present(u.Params) {
		if !at(pos, ';') || int(u.Params.Offs) != pos+1 {
			return "params not right after ';'"
		}
		pos = pfEnd(u.Params)
	}
	if present(u.Headers) {
		if !at(pos, '?') || int(u.Headers.Offs) != pos+1 {
			return "headers not right after '?'"
		}
		pos = pfEnd(u.Headers)
	}
	if pos != n {
		return fmt.Sprintf("components end at %d, the URI at %d", pos, n)
	}
	// ';' and '?' before an '@' belong to the user part
	if i := bytes.IndexByte(uri, '@'); i >= 0 {
		for j := pfEnd(u.Scheme); j < i; j++ {
			if uri[j] == ';' || uri[j] == '?' {
				inUser := j >= int(u.User.Offs) && j < pfEnd(u.User)
				inPass := j >= int(u.Pass.Offs) && j < pfEnd(u.Pass)
				if !inUser && !inPass {
					return fmt.Sprintf("'%c' at %d precedes the '@' at %d but is not part of the user", uri[j], j, i)
				}
			}
		}
	}
	return ""
}

func decimal(s []byte) (uint64, bool) { // value, overflowed 2^64
	var v uint64
	for _, c := range s {
		if v > (^uint64(0)-uint64(c-'0'))/10 {
			return 0, true
		}
		v = v*10 + uint64(c-'0')
	}
	return v, false
}

func checkURI(rep *Report, w *CaseW, s []byte) uriRes {
	r := emitURI(w, s)
	rep.Cases++
	rep.OracleEval++
	if r.Panic != "" {
		rep.violate("ParseURI panics: "+r.Panic, "panic:ParseURI", map[string]string{"uri": string(s), "hex": hexs(string(s))})
		return r
	}
	bad := ""
	if r.Err == 0 {
		rep.count("uri:accepted")
		rep.nontrivial(string(s))
		switch r.U.URIType {
		case sipsp.SIPuri, sipsp.SIPSuri:
			if lp := asciiLower(s); !strings.HasPrefix(lp, "sip:") && !strings.HasPrefix(lp, "sips:") {
				// the code matches the scheme with |0x20, so it also takes 0x1a for ':'; such texts do not
				// start with a scheme prefix and are outside the property's quantifier
				rep.count("uri:accepted-without-scheme-prefix")
				break
			}
			bad = reassemble(s, &r.U, r.Offs)
			if bad == "" && present(r.U.Port) && r.U.Port.Len > 0 {
				v, ovf := decimal(r.U.Port.Get(s))
				if ovf || v > 65535 || uint64(r.U.PortNo) != v {
					bad = fmt.Sprintf("PortNo %d is not the value of the port text %q", r.U.PortNo, r.U.Port.Get(s))
				}
			}
		case sipsp.TELuri:
			if r.U.Host.Len != 0 {
				bad = "tel: URI with a host"
			} else if !bytes.ContainsAny(s, "@[]") { // '@' / brackets are outside the tel grammar: not claimed
				// the number is everything between the scheme and the first ; ? :
				// (the byte right after the scheme always belongs to the number)
				rest := s[4:]
				e := bytes.IndexAny(rest[1:], ";?:") + 1
				if e <= 0 {
					e = len(rest)
				}
				if string(r.U.User.Get(s)) != string(rest[:e]) {
					bad = fmt.Sprintf("tel: number reported as %q, text has %q", r.U.User.Get(s), rest[:e])
				}
			}
			if r.Offs != len(s) {
				bad = fmt.Sprintf("consumed %d of %d bytes", r.Offs, len(s))
			}
		default:
			bad = "accepted URI with invalid type"
		}
	} else {
		rep.count(fmt.Sprintf("uri:err%d", r.Err))
		if r.Offs < 0 || r.Offs > len(s) {
			bad = fmt.Sprintf("error position %d outside the %d-byte input", r.Offs, len(s))
		}
	}
	if bad != "" {
		rep.violate("ParseURI("+fmt.Sprintf("%q", s)+"): "+bad, "uri-lossless", map[string]string{"uri": string(s), "hex": hexs(string(s))})
	}
	return r
}

var uriAlpha = []string{"a", "1", ":", "@", ";", "?", "[", "]", "&", "=", "."}

func propC14(g *G, w *CaseW, rep *Report, thorough bool) {
	L := scale(thorough, 4, 5)
	for _, sch := range []string{"sip:", "sips:", "SIP:", "sIpS:", "tel:", "Tel:"} {
		l := L
		if sch != "sip:" && !thorough {
			l = L - 1
		}
		enumStrings(uriAlpha, l, func(s string) { checkURI(rep, w, []byte(sch+s)) })
	}
	rep.Notes["exhaustive"] = fmt.Sprintf("all strings over %v up to length %d after sip: (one less after the other schemes in the quick tier)", uriAlpha, L)
	for _, s := range []string{"", "s", "sip", "sip:", "sips", "sips:", "sipx:a", "sip\x1aa@b", "sipsa:b", "tel:+1", "http:a", "SIPS:a@b:1;x?y"} {
		checkURI(rep, w, []byte(s))
	}
	n := scale(thorough, 6000, 100000)
	for i := 0; i < n; i++ {
		s := g.uri()
		if g.p(30) {
			s = g.mutate(s)
		}
		checkURI(rep, w, []byte(s))
		if i < 3 {
			rep.sample(s)
		}
	}
}

// ---- C18 ------------------------------------------------------------------------
func uriFields(u *sipsp.PsipURI) []*sipsp.PField {
	return []*sipsp.PField{&u.Scheme, &u.User, &u.Pass, &u.Host, &u.Port, &u.Params, &u.Headers}
}

func checkAdjust(rep *Report, w *CaseW, s []byte, offs, l int) {
	r, ok, nu, pan := emitAdjust(w, s, offs, l)
	rep.Cases++
	rep.OracleEval++
	if r.Panic != "" || r.Err != 0 {
		return
	}
	replay := map[string]interface{}{"uri": string(s), "hex": hexs(string(s)), "newpos_offs": offs, "newpos_len": l}
	if pan != "" {
		rep.violate(fmt.Sprintf("AdjustOffs({%d,%d}) on %q panics: %s", offs, l, s, pan), "panic:AdjustOffs", replay)
		return
	}
	if l < len(s) {
		if ok || nu != r.U {
			rep.violate(fmt.Sprintf("AdjustOffs({%d,%d}) on the %d-byte URI %q: span too short, but ok=%v / structure changed", offs, l, len(s), s, ok),
				"adjust-short", replay)
		}
		rep.count("adjust:short")
		return
	}
	rep.count("adjust:fits")
	if !ok {
		rep.violate(fmt.Sprintf("AdjustOffs({%d,%d}) on the %d-byte URI %q refused a sufficient span", offs, l, len(s), s), "adjust-refused", replay)
		return
	}
	// new buffer holding the same text at offs
	nb := make([]byte, offs+l)
	for i := range nb {
		nb[i] = '#'
	}
	copy(nb[offs:], s)
	of, nf := uriFields(&r.U), uriFields(&nu)
	for i := range of {
		if pfEnd(*nf[i]) > len(nb) || string(of[i].Get(s)) != string(nf[i].Get(nb)) {
			rep.violate(fmt.Sprintf("AdjustOffs({%d,%d}) on %q: component %d no longer denotes the same bytes", offs, l, s, i), "adjust-moved", replay)
			return
		}
		if present(*of[i]) && int(nf[i].Offs) != int(of[i].Offs)-int(r.U.Scheme.Offs)+offs {
			rep.violate(fmt.Sprintf("AdjustOffs({%d,%d}) on %q: component %d moved from %d to %d, not by the same amount as the scheme", offs, l, s, i, of[i].Offs, nf[i].Offs), "adjust-moved", replay)
			return
		}
		if present(*of[i]) != present(*nf[i]) {
			rep.violate(fmt.Sprintf("AdjustOffs({%d,%d}) on %q: component %d changed presence", offs, l, s, i), "adjust-moved", replay)
			return
		}
	}
	if nu.URIType != r.U.URIType || nu.PortNo != r.U.PortNo {
		rep.violate("AdjustOffs changed URIType/PortNo", "adjust-moved", replay)
	}
	rep.nontrivial(fmt.Sprintf("%s|%d|%d", s, offs, l))
}

func checkViews(rep *Report, w *CaseW, s []byte) {
	emitViews(w, s)
	r := parseURI(s)
	rep.Cases++
	rep.OracleEval++
	if r.Panic != "" || r.Err != 0 {
		return
	}
	replay := map[string]string{"uri": string(s), "hex": hexs(string(s))}
	var long, short sipsp.PField
	if p := safeCall(func() { long = r.U.Long(); short = r.U.Short(); _ = r.U.Flat(s) }); p != "" {
		rep.violate("Long/Short/Flat panic: "+p, "panic:views", replay)
		return
	}
	// last non-empty component
	fs := uriFields(&r.U)
	last := -1
	for i := 1; i < len(fs); i++ {
		if fs[i].Len > 0 {
			last = i
		}
	}
	wantLong := sipsp.PField{}
	if last >= 0 {
		wantLong = sipsp.PField{Offs: r.U.Scheme.Offs, Len: sipsp.OffsT(pfEnd(*fs[last])) - r.U.Scheme.Offs}
	}
	lastS := -1
	for _, i := range []int{1, 3, 4} { // user, host, port
		if fs[i].Len > 0 {
			lastS = i
		}
	}
	wantShort := sipsp.PField{}
	if lastS >= 0 {
		wantShort = sipsp.PField{Offs: r.U.Scheme.Offs, Len: sipsp.OffsT(pfEnd(*fs[lastS])) - r.U.Scheme.Offs}
	}
	if long != wantLong {
		rep.violate(fmt.Sprintf("Long() of %q = %v, expected scheme..last non-empty component %v", s, long, wantLong), "view-long", replay)
	}
	if short != wantShort {
		rep.violate(fmt.Sprintf("Short() of %q = %v, expected %v", s, short, wantShort), "view-short", replay)
	}
	if !(short.Offs == long.Offs && short.Len <= long.Len) && short.Len > 0 {
		rep.violate(fmt.Sprintf("Short() of %q is not a prefix of Long()", s), "view-prefix", replay)
	}
	if string(r.U.Flat(s)) != string(long.Get(s)) {
		rep.violate("Flat() is not the text of Long()", "view-flat", replay)
	}
	t := r.U
	t.Truncate()
	want := r.U
	want.Params, want.Headers = sipsp.PField{}, sipsp.PField{}
	if t != want {
		rep.violate(fmt.Sprintf("Truncate() of %q did not remove exactly parameters and headers", s), "view-truncate", replay)
	}
	rep.nontrivial(string(s))
}

func propC18(g *G, w *CaseW, rep *Report, thorough bool) {
	var uris []string
	enumStrings(uriAlpha, scale(thorough, 3, 4), func(s string) {
		if r := parseURI([]byte("sip:" + s)); r.Err == 0 && r.Panic == "" {
			uris = append(uris, "sip:"+s)
		}
	})
	// tel: texts, whose components need not lie in struct order (F18: tel:@l:@+491752)
	enumStrings(uriAlpha, scale(thorough, 3, 4), func(s string) {
		if r := parseURI([]byte("tel:" + s)); r.Err == 0 && r.Panic == "" {
			uris = append(uris, "tel:"+s)
		}
	})
	uris = append(uris, "tel:@l:@+491752", "tel:@:@1", "tel:a:@b:@+1;x")
	for i := 0; i < scale(thorough, 600, 6000); i++ {
		s := g.uri()
		if g.p(15) {
			s = g.mutate(s)
		}
		if r := parseURI([]byte(s)); r.Err == 0 && r.Panic == "" {
			uris = append(uris, s)
		}
	}
	for i, s := range uris {
		checkViews(rep, w, []byte(s))
		n := len(s)
		offsets := []int{0, 1, g.n(300), 65535 - n, 65535 - n - 3, 65535 - g.n(n+1), 32768 - n/2}
		for _, o := range offsets {
			if o < 0 {
				continue
			}
			for _, l := range []int{0, n - 1, n, n + 1, n + 3, g.n(n + 1)} {
				if l < 0 || o+l > 65535 {
					continue
				}
				if !thorough && i%4 != 0 && l != n && l != n-1 {
					continue
				}
				checkAdjust(rep, w, []byte(s), o, l)
			}
		}
		if i < 3 {
			rep.sample(s)
		}
	}
}

// C11 for relocation: moving to {k, len} shifts every non-empty component by k
func adjustShift(g *G, w *CaseW, rep *Report, thorough bool) {
	enumStrings(uriAlpha, scale(thorough, 3, 4), func(s string) {
		if r := parseURI([]byte("sip:" + s)); r.Err == 0 && r.Panic == "" {
			u := "sip:" + s
			for _, k := range []int{1, 5, 800, 65535 - len(u)} {
				checkAdjust(rep, w, []byte(u), k, len(u)+g.n(2))
			}
		}
	})
	for i := 0; i < scale(thorough, 400, 4000); i++ {
		s := g.uri()
		checkAdjust(rep, w, []byte(s), g.n(65535-len(s)), len(s))
	}
}

// C12 for PsipURI: Reset then parse equals a new structure
func uriResetHistories(g *G, w *CaseW, rep *Report, thorough bool) {
	for i := 0; i < scale(thorough, 500, 5000); i++ {
		a, b := []byte(g.uri()), []byte(g.uri())
		if g.p(40) {
			a = []byte(g.mutate(string(a)))
		}
		var u sipsp.PsipURI
		safeCall(func() { sipsp.ParseURI(cp(a), &u) })
		u.Reset()
		var e1 sipsp.ErrorURI
		var o1 int
		safeCall(func() { e1, o1 = sipsp.ParseURI(cp(b), &u) })
		r := checkURI(rep, w, b)
		rep.OracleEval++
		if r.Panic == "" && (e1 != r.Err || o1 != r.Offs || u != r.U) {
			rep.violate("ParseURI on a Reset PsipURI differs from a new one", "reset:PsipURI",
				map[string]string{"first": string(a), "second": string(b)})
		}
	}
}

// C04 for the stateless entry points: hostile input, no panic
func safeEntries(g *G, w *CaseW, rep *Report, thorough bool) {
	n := scale(thorough, 1500, 20000)
	for i := 0; i < n; i++ {
		s := []byte(g.pick(g.hostile(30), g.mutate(g.uri()), g.uri(), "sip:"+g.hostile(12)))
		t := []byte(g.pick(g.hostile(30), g.mutate(g.uri()), g.uri()))
		rep.Cases++
		rep.OracleEval++
		checks := []struct {
			name string
			f    func()
		}{
			{"GetHdrType", func() { sipsp.GetHdrType(cp(s)) }},
			{"GetMethodNo", func() { sipsp.GetMethodNo(cp(s)) }},
			{"IP4Prefix", func() { sipsp.IP4Prefix(cp(s), nil); var d [4]byte; sipsp.IP4Prefix(cp(s), d[:]) }},
			{"ContainsIP4", func() { sipsp.ContainsIP4(cp(s), nil) }},
			{"IP6Prefix", func() { sipsp.IP6Prefix(cp(s), nil); var d [16]byte; sipsp.IP6Prefix(cp(s), d[:]) }},
			{"ContainsIP6", func() { sipsp.ContainsIP6(cp(s), nil) }},
			{"GetCallIDSig", func() { sipsp.GetCallIDSig(cp(s)) }},
			{"GetViaBrSig", func() { sipsp.GetViaBrSig(cp(s)) }},
			{"getStrCharsSig", func() { sipsp.VerifStrCharsSig(cp(s)) }},
			{"URIParamResolve", func() { sipsp.URIParamResolve(cp(s)) }},
			{"URIRawCmp", func() { sipsp.URIRawCmp(cp(s), cp(t), sipsp.URICmpFlags(g.n(64))) }},
			{"URIParamsEq", func() { sipsp.URIParamsEq(cp(s), 0, cp(t), 0) }},
			{"URIHdrsEq", func() { sipsp.URIHdrsEq(cp(s), 0, cp(t), 0) }},
		}
		for _, c := range checks {
			watchBegin(func() string { return c.name + " " + hexs(string(s)) + " " + hexs(string(t)) })
			p := safeCall(c.f)
			watchEnd()
			if p != "" {
				rep.violate(c.name+" panics: "+p, "panic:"+c.name, map[string]string{"a_hex": hexs(string(s)), "b_hex": hexs(string(t))})
			}
		}
		emitHdrType(w, s)
		emitMethodNo(w, s)
		emitURI(w, s)
		emitViews(w, s)
		emitParseCmp(w, s, t, uint(g.n(64)))
		if l := g.n(len(s) + 4); l < 65535 {
			checkAdjust(rep, w, s, g.n(65535-l), l)
		}
	}
	for m := 0; m < 256; m++ {
		if p := safeCall(func() { _ = sipsp.SIPMethod(m).Name(); _ = sipsp.SIPMethod(m).String() }); p != "" {
			rep.violate(fmt.Sprintf("SIPMethod(%d).Name panics: %s", m, p), "panic:Name", map[string]int{"method": m})
		}
	}
}
