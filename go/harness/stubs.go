package main

func propC05(g *G, w *CaseW, rep *Report, thorough bool) {}
func propC07(g *G, w *CaseW, rep *Report, thorough bool) {}
func propC08(g *G, w *CaseW, rep *Report, thorough bool) {}
func propC09(g *G, w *CaseW, rep *Report, thorough bool) {}
func propC17(g *G, w *CaseW, rep *Report, thorough bool) {}
func propC19(g *G, w *CaseW, rep *Report, thorough bool) {}
func runCorpus(prop string, w *CaseW, rep *Report)       {}
func replay(path string) int                              { return 0 }
