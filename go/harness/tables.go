package main

import (
	"fmt"
	"io"
	"strings"

	"github.com/intuitivelabs/sipsp"
)

func coqBytes(b []byte) string {
	var sb strings.Builder
	sb.WriteString("[")
	for i, c := range b {
		if i > 0 {
			sb.WriteString("; ")
		}
		fmt.Fprintf(&sb, "%d", c)
	}
	sb.WriteString("]")
	return sb.String()
}

func coqNList(v []uint64) string {
	var sb strings.Builder
	sb.WriteString("[")
	for i, c := range v {
		if i > 0 {
			sb.WriteString("; ")
		}
		fmt.Fprintf(&sb, "%d", c)
	}
	sb.WriteString("]")
	return sb.String()
}

// emitTables writes Gen/Tables.v: every table and constant of /repo that
// drives the model, as the current build of /repo has it.
func emitTables(w io.Writer) {
	p := func(f string, a ...interface{}) { fmt.Fprintf(w, f, a...) }
	p("(* GENERATED from the current build of /repo by `harness tables` - do not edit *)\n")
	p("From Coq Require Import List NArith.\nImport ListNotations.\nOpen Scope N_scope.\n\n")
	p("Definition go_hdr_name2type : list (list N * N) := [\n")
	for i, h := range sipsp.VerifHdrName2Type() {
		sep := ";"
		if i == len(sipsp.VerifHdrName2Type())-1 {
			sep = ""
		}
		p("  (%s, %d)%s (* %s *)\n", coqBytes(h.N), h.T, sep, string(h.N))
	}
	p("].\n\n")
	p("Definition go_hdr_buckets : list (list (list N * N)) := [\n")
	hb := sipsp.VerifHdrNameLookup()
	for i, b := range hb {
		p("  [")
		for j, h := range b {
			if j > 0 {
				p("; ")
			}
			p("(%s, %d)", coqBytes(h.N), h.T)
		}
		if i == len(hb)-1 {
			p("]\n")
		} else {
			p("];\n")
		}
	}
	p("].\n\n")
	p("Definition go_mth_buckets : list (list (list N * N)) := [\n")
	mb := sipsp.VerifMthNameLookup()
	for i, b := range mb {
		p("  [")
		for j, h := range b {
			if j > 0 {
				p("; ")
			}
			p("(%s, %d)", coqBytes(h.N), h.T)
		}
		if i == len(mb)-1 {
			p("]\n")
		} else {
			p("];\n")
		}
	}
	p("].\n\n")
	p("Definition go_method2name : list (list N) := [\n")
	for i, n := range sipsp.Method2Name {
		sep := ";"
		if i == len(sipsp.Method2Name)-1 {
			sep = ""
		}
		p("  %s%s (* %d %s *)\n", coqBytes(n), sep, i, string(n))
	}
	p("].\n\n")
	a, b, c, d := sipsp.VerifHashBits()
	p("Definition go_hnBitsLen : N := %d.\nDefinition go_hnBitsFChar : N := %d.\n", a, b)
	p("Definition go_mthBitsLen : N := %d.\nDefinition go_mthBitsFChar : N := %d.\n", c, d)
	p("Definition go_sipVerSP : list N := %s.\n", coqBytes(sipsp.VerifSipVerSP()))
	sh, h2s, shf := sipsp.VerifSigHdrs()
	var v []uint64
	for _, x := range sh {
		v = append(v, uint64(x))
	}
	p("Definition go_sigHdrs : list N := %s.\n", coqNList(v))
	v = nil
	for _, x := range h2s {
		v = append(v, uint64(x))
	}
	p("Definition go_hdr2SigId : list N := %s.\n", coqNList(v))
	p("Definition go_sigHdrsFlags : N := %d.\n", shf)
	p("Definition go_HdrSigIdCMask : N := %d.\n", sipsp.HdrSigIdCMask)
	p("Definition go_NoSigHdrs : N := %d.\n\n", sipsp.NoSigHdrs)

	k := func(name string, val interface{}) { p("Definition go_%s : N := %d.\n", name, val) }
	// ErrorHdr
	errs := []struct {
		n string
		v sipsp.ErrorHdr
	}{{"ErrHdrOk", sipsp.ErrHdrOk}, {"ErrHdrEOH", sipsp.ErrHdrEOH}, {"ErrHdrEmpty", sipsp.ErrHdrEmpty},
		{"ErrHdrMoreBytes", sipsp.ErrHdrMoreBytes}, {"ErrHdrMoreValues", sipsp.ErrHdrMoreValues},
		{"ErrHdrNoCR", sipsp.ErrHdrNoCR}, {"ErrHdrBadChar", sipsp.ErrHdrBadChar}, {"ErrHdrParams", sipsp.ErrHdrParams},
		{"ErrHdrBad", sipsp.ErrHdrBad}, {"ErrHdrValNotNumber", sipsp.ErrHdrValNotNumber},
		{"ErrHdrValTooLong", sipsp.ErrHdrValTooLong}, {"ErrHdrValBad", sipsp.ErrHdrValBad},
		{"ErrHdrNumTooBig", sipsp.ErrHdrNumTooBig}, {"ErrHdrTrunc", sipsp.ErrHdrTrunc},
		{"ErrHdrNoCLen", sipsp.ErrHdrNoCLen}, {"ErrHdrBug", sipsp.ErrHdrBug}, {"ErrConvBug", sipsp.ErrConvBug},
		{"ErrHdrTooManyVals", sipsp.ErrHdrTooManyVals}}
	v = nil
	for _, e := range errs {
		v = append(v, uint64(e.v))
	}
	p("Definition go_err_codes : list N := %s.\n", coqNList(v))
	// HdrT
	k("HdrNone", sipsp.HdrNone)
	k("HdrFrom", sipsp.HdrFrom)
	k("HdrTo", sipsp.HdrTo)
	k("HdrCallID", sipsp.HdrCallID)
	k("HdrCSeq", sipsp.HdrCSeq)
	k("HdrVia", sipsp.HdrVia)
	k("HdrMaxFwd", sipsp.HdrMaxFwd)
	k("HdrCLen", sipsp.HdrCLen)
	k("HdrContact", sipsp.HdrContact)
	k("HdrExpires", sipsp.HdrExpires)
	k("HdrUA", sipsp.HdrUA)
	k("HdrRecordRoute", sipsp.HdrRecordRoute)
	k("HdrRoute", sipsp.HdrRoute)
	k("HdrPAI", sipsp.HdrPAI)
	k("HdrOther", sipsp.HdrOther)
	// methods
	k("MUndef", sipsp.MUndef)
	k("MRegister", sipsp.MRegister)
	k("MInvite", sipsp.MInvite)
	k("MAck", sipsp.MAck)
	k("MBye", sipsp.MBye)
	k("MPrack", sipsp.MPrack)
	k("MCancel", sipsp.MCancel)
	k("MOptions", sipsp.MOptions)
	k("MSubscribe", sipsp.MSubscribe)
	k("MNotify", sipsp.MNotify)
	k("MUpdate", sipsp.MUpdate)
	k("MInfo", sipsp.MInfo)
	k("MRefer", sipsp.MRefer)
	k("MPublish", sipsp.MPublish)
	k("MMessage", sipsp.MMessage)
	k("MOther", sipsp.MOther)
	// option flags
	k("POptTokCommaTermF", sipsp.POptTokCommaTermF)
	k("POptTokQmTermF", sipsp.POptTokQmTermF)
	k("POptTokSpTermF", sipsp.POptTokSpTermF)
	k("POptInputEndF", sipsp.POptInputEndF)
	k("POptParamSemiSepF", sipsp.POptParamSemiSepF)
	k("POptParamAmpSepF", sipsp.POptParamAmpSepF)
	k("POptTokURIParamF", sipsp.POptTokURIParamF)
	k("POptTokURIHdrF", sipsp.POptTokURIHdrF)
	k("SIPMsgSkipBodyF", sipsp.SIPMsgSkipBodyF)
	k("SIPMsgCLenReqF", sipsp.SIPMsgCLenReqF)
	k("SIPMsgNoMoreDataF", sipsp.SIPMsgNoMoreDataF)
	// numeric limits
	k("MaxCSeqNValueSize", sipsp.MaxCSeqNValueSize)
	k("MaxCSeqNValue", uint64(sipsp.MaxCSeqNValue))
	k("MaxCLenValueSize", sipsp.MaxCLenValueSize)
	k("MaxClenValue", sipsp.MaxClenValue)
	// URI
	k("NoURIErr", sipsp.NoURIErr)
	k("ErrURIBadChar", sipsp.ErrURIBadChar)
	k("ErrURIScheme", sipsp.ErrURIScheme)
	k("ErrURIHost", sipsp.ErrURIHost)
	k("ErrURIPort", sipsp.ErrURIPort)
	k("ErrURIHeaders", sipsp.ErrURIHeaders)
	k("ErrURITooShort", sipsp.ErrURITooShort)
	k("ErrURIBad", sipsp.ErrURIBad)
	k("ErrURIBug", sipsp.ErrURIBug)
	k("INVALIDuri", sipsp.INVALIDuri)
	k("SIPuri", sipsp.SIPuri)
	k("SIPSuri", sipsp.SIPSuri)
	k("TELuri", sipsp.TELuri)
	k("URICmpSkipPort", sipsp.URICmpSkipPort)
	k("URICmpSkipScheme", sipsp.URICmpSkipScheme)
	k("URICmpSkipUser", sipsp.URICmpSkipUser)
	k("URICmpSkipPass", sipsp.URICmpSkipPass)
	k("URICmpSkipParams", sipsp.URICmpSkipParams)
	k("URICmpSkipHeaders", sipsp.URICmpSkipHeaders)
	k("URIParamTransportF", sipsp.URIParamTransportF)
	k("URIParamUserF", sipsp.URIParamUserF)
	k("URIParamMethodF", sipsp.URIParamMethodF)
	k("URIParamTTLF", sipsp.URIParamTTLF)
	k("URIParamMaddrF", sipsp.URIParamMaddrF)
	k("URIParamLRF", sipsp.URIParamLRF)
	k("URIParamOtherF", sipsp.URIParamOtherF)
	// string signature flags
	k("SigIPStartF", sipsp.SigIPStartF)
	k("SigIPEndF", sipsp.SigIPEndF)
	k("SigIPMiddleF", sipsp.SigIPMiddleF)
	k("SigHasAtF", sipsp.SigHasAtF)
	k("SigHasDotF", sipsp.SigHasDotF)
	k("SigHasColonF", sipsp.SigHasColonF)
	k("SigHasDashF", sipsp.SigHasDashF)
	k("SigHasStarF", sipsp.SigHasStarF)
	k("SigHasDivF", sipsp.SigHasDivF)
	k("SigHasPlusF", sipsp.SigHasPlusF)
	k("SigHasEqF", sipsp.SigHasEqF)
	k("SigHasUnderF", sipsp.SigHasUnderF)
	k("SigHasPipeF", sipsp.SigHasPipeF)
	k("SigHexEncF", sipsp.SigHexEncF)
	k("SigB64EncF", sipsp.SigB64EncF)
	k("SigDigBlocksF", sipsp.SigDigBlocksF)
	// sizes of the built-in arrays
	var m sipsp.PSIPMsg
	m.Init(nil, nil, nil)
	k("defaultHdrs", len(m.HL.Hdrs))
	k("defaultContacts", len(m.PV.Contacts.Vals))
	k("paiVals", len(m.PV.PAIs.Vals))
}
