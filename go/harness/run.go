package main

// Running cases against /repo, writing case files for the model, and the
// generic (metamorphic) property oracles evaluated on the implementation.

import (
	"bufio"
	"encoding/hex"
	"encoding/json"
	"fmt"
	"os"
	"strconv"
	"strings"
	"sync/atomic"
	"time"

	"github.com/intuitivelabs/sipsp"
)

const (
	zPANIC = -999
	zSTUCK = -998
)

type Op struct {
	Reset bool
	Flags uint
	Buf   []byte
	Offs  int
	Cuts  []int
}
type Case struct {
	Kind, A, B, C int
	Ops           []Op
}
type CallRes struct {
	O int
	E sipsp.ErrorHdr
}
type OpRes struct {
	Calls []CallRes
	Obs   Obs    // after the operation
	Panic string // non-empty: the operation panicked
	// per call: did every observed field stay inside the buffer of that call?
	FieldErr string
}

// exact-capacity copy of a prefix, so that out-of-range slicing panics
func exact(b []byte, n int) []byte {
	c := make([]byte, n)
	copy(c, b[:n])
	return c
}

var watch atomic.Value // string: what is running
var watchT int64       // unix nano of its start

func startWatchdog(outPrefix string) {
	go func() {
		for {
			time.Sleep(500 * time.Millisecond)
			t := atomic.LoadInt64(&watchT)
			if t != 0 && time.Now().UnixNano()-t > int64(20*time.Second) {
				w, _ := watch.Load().(string)
				fmt.Fprintf(os.Stderr, "HANG %s\n", w)
				os.WriteFile(outPrefix+".hang", []byte(w), 0644)
				os.Exit(3)
			}
		}
	}()
}
func watchBegin(what func() string) {
	watch.Store(what())
	atomic.StoreInt64(&watchT, time.Now().UnixNano())
}
func watchEnd() { atomic.StoreInt64(&watchT, 0) }

func safeCall(f func()) (msg string) {
	defer func() {
		if r := recover(); r != nil {
			msg = fmt.Sprint(r)
			if msg == "" {
				msg = "panic"
			}
		}
	}()
	f()
	return ""
}

// checks that every PField of obs lies inside a buffer of length n
func fieldsInside(o *Obs, n int) string {
	for i := 0; i+1 < len(o.V); i++ {
		if o.T[i] == tOffs {
			if o.V[i]+o.V[i+1] > int64(n) {
				return fmt.Sprintf("field #%d {Offs %d, Len %d} ends past the %d-byte buffer", i, o.V[i], o.V[i+1], n)
			}
		}
	}
	return ""
}

// runs one operation on obj
func runOp(obj Obj, op *Op) OpRes {
	var r OpRes
	if op.Reset {
		r.Panic = safeCall(func() { obj.Reset(); obj.Obs(&r.Obs) })
		return r
	}
	o := op.Offs
	cuts := append(append([]int(nil), op.Cuts...), len(op.Buf))
	for j, c := range cuts {
		b := exact(op.Buf, c)
		var no int
		var e sipsp.ErrorHdr
		r.Panic = safeCall(func() { no, e = obj.Parse(op.Flags, b, o) })
		if r.Panic != "" {
			return r
		}
		r.Calls = append(r.Calls, CallRes{no, e})
		// C04: fields can be dereferenced after every call
		if r.FieldErr == "" {
			var tmp Obs
			if p := safeCall(func() { obj.Obs(&tmp) }); p != "" {
				r.Panic = "observing: " + p
				return r
			}
			if fe := fieldsInside(&tmp, c); fe != "" {
				r.FieldErr = fmt.Sprintf("call %d (prefix %d): %s", j, c, fe)
			}
		}
		o = no
		if e != sipsp.ErrHdrMoreBytes {
			break
		}
	}
	r.Panic = safeCall(func() { obj.Obs(&r.Obs) })
	return r
}

// runCase returns the flat output in the format of run_ops (Harness.v)
func runCase(c *Case) ([]int64, []OpRes) {
	watchBegin(func() string { return caseJSON(c) })
	defer watchEnd()
	var obj Obj
	var out []int64
	var res []OpRes
	if p := safeCall(func() { obj = newObj(c.Kind, c.A, c.B, c.C) }); p != "" {
		return []int64{zPANIC}, nil
	}
	for i := range c.Ops {
		r := runOp(obj, &c.Ops[i])
		res = append(res, r)
		for _, cr := range r.Calls {
			out = append(out, int64(cr.O), int64(cr.E))
		}
		if r.Panic != "" {
			out = append(out, zPANIC)
			return out, res
		}
		out = append(out, r.Obs.V...)
	}
	return out, res
}

func caseJSON(c *Case) string {
	type jop struct {
		Reset bool   `json:"reset,omitempty"`
		Flags uint   `json:"flags"`
		Buf   string `json:"buf_hex"`
		Text  string `json:"buf_text"`
		Offs  int    `json:"offs"`
		Cuts  []int  `json:"cuts,omitempty"`
	}
	type jc struct {
		Kind   int    `json:"kind"`
		Parser string `json:"parser"`
		A      int    `json:"a"`
		B      int    `json:"b"`
		C      int    `json:"c"`
		Ops    []jop  `json:"ops"`
	}
	j := jc{Kind: c.Kind, Parser: kindNames[c.Kind], A: c.A, B: c.B, C: c.C}
	for _, o := range c.Ops {
		j.Ops = append(j.Ops, jop{o.Reset, o.Flags, hex.EncodeToString(o.Buf), strconv.Quote(string(o.Buf)), o.Offs, o.Cuts})
	}
	b, _ := json.Marshal(j)
	return string(b)
}

// ---- case file -----------------------------------------------------------------
type CaseW struct {
	f     *os.File
	w     *bufio.Writer
	n     int
	kinds map[int]int
}

func newCaseW(path string) *CaseW {
	f, err := os.Create(path)
	if err != nil {
		panic(err)
	}
	return &CaseW{f: f, w: bufio.NewWriterSize(f, 1<<20), kinds: map[int]int{}}
}
func (w *CaseW) close() { w.w.Flush(); w.f.Close() }

func joinInts(v []int64, sep string) string {
	var sb strings.Builder
	for i, x := range v {
		if i > 0 {
			sb.WriteString(sep)
		}
		sb.WriteString(strconv.FormatInt(x, 10))
	}
	return sb.String()
}
func (w *CaseW) emit(kind int, nums []int64, strs [][]byte, expected []int64) {
	var hs []string
	for _, s := range strs {
		if len(s) == 0 {
			hs = append(hs, "-")
		} else {
			hs = append(hs, hex.EncodeToString(s))
		}
	}
	fmt.Fprintf(w.w, "%d\t%s\t%s\t%s\n", kind, joinInts(nums, ","), strings.Join(hs, ";"), joinInts(expected, " "))
	w.n++
	w.kinds[kind]++
}
func (w *CaseW) emitCase(c *Case, expected []int64) {
	nums := []int64{int64(c.A), int64(c.B), int64(c.C)}
	var strs [][]byte
	for _, o := range c.Ops {
		if o.Reset {
			nums = append(nums, 0)
			continue
		}
		nums = append(nums, 1, int64(o.Flags), int64(o.Offs), int64(len(o.Cuts)))
		for _, c := range o.Cuts {
			nums = append(nums, int64(c))
		}
		strs = append(strs, o.Buf)
	}
	w.emit(c.Kind, nums, strs, expected)
}

// ---- report ----------------------------------------------------------------------
type Violation struct {
	Property string      `json:"property"`
	What     string      `json:"what"`
	Key      string      `json:"key"` // matched against known_findings.json
	Replay   interface{} `json:"replay"`
}
type Report struct {
	Property   string            `json:"property"`
	Seed       int64             `json:"seed"`
	Tier       string            `json:"tier"`
	Cases      int               `json:"cases"`
	OracleEval int               `json:"oracle_evaluations"`
	Nontrivial int               `json:"distinct_nontrivial"`
	Dist       map[string]int    `json:"distribution"`
	Samples    []interface{}     `json:"samples"`
	Violations []Violation       `json:"violations"`
	Notes      map[string]string `json:"notes,omitempty"`
	seen       map[string]bool
}

func newReport(prop string, seed int64, tier string) *Report {
	return &Report{Property: prop, Seed: seed, Tier: tier, Dist: map[string]int{}, seen: map[string]bool{},
		Notes: map[string]string{}}
}
func (r *Report) count(k string) { r.Dist[k]++ }
func (r *Report) violate(what, key string, replay interface{}) {
	if len(r.Violations) < 20 {
		r.Violations = append(r.Violations, Violation{r.Property, what, key, replay})
	}
	r.Dist["violations"]++
}
func (r *Report) sample(x interface{}) {
	if len(r.Samples) < 5 {
		r.Samples = append(r.Samples, x)
	}
}

// a distinct non-trivial case: key identifies the input
func (r *Report) nontrivial(key string) {
	if !r.seen[key] {
		r.seen[key] = true
		r.Nontrivial++
	}
}
func (r *Report) write(path string) {
	b, _ := json.MarshalIndent(r, "", " ")
	os.WriteFile(path, b, 0644)
}

func errName(e sipsp.ErrorHdr) string {
	return fmt.Sprintf("e%d", int(e))
}

// ---- generic oracles ---------------------------------------------------------------
func inputCase(in *Input, cuts []int) *Case {
	return &Case{Kind: in.Kind, A: in.A, B: in.B, C: in.C,
		Ops: []Op{{Flags: in.Flags, Buf: []byte(in.Buf), Offs: in.Offs, Cuts: cuts}}}
}

func eqObs(a, b []int64) bool {
	if len(a) != len(b) {
		return false
	}
	for i := range a {
		if a[i] != b[i] {
			return false
		}
	}
	return true
}

// equality of the parsed values (per-call results excluded)
func eqObsValues(a, b Obs) bool {
	if len(a.V) != len(b.V) {
		return false
	}
	for i := range a.V {
		if a.T[i] != tCall && a.T[i] != tBuf && a.V[i] != b.V[i] {
			return false
		}
	}
	return true
}

func definitive(e sipsp.ErrorHdr) bool { return e != sipsp.ErrHdrMoreBytes }

// does the kind/flags combination fall under the end-of-input exemptions of C03?
func endOfInputMode(in *Input) bool {
	switch in.Kind {
	case kMsg:
		return in.Flags&uint(sipsp.SIPMsgNoMoreDataF) != 0
	case kTokParam, kURIParams, kURIHdrs:
		return in.Flags&uint(sipsp.POptInputEndF) != 0
	}
	return false
}

// C01/C02: every call of the chunked run equals a fresh one-shot call on the
// same prefix; values equal once definitive
func oracleResume(rep *Report, in *Input, cuts []int, res *OpRes) {
	buf := []byte(in.Buf)
	all := append(append([]int(nil), cuts...), len(buf))
	for j, cr := range res.Calls {
		p := all[j]
		one := *in
		one.Buf = string(buf[:p])
		_, r1 := runCase(inputCase(&one, nil))
		rep.OracleEval++
		if len(r1) == 0 || r1[0].Panic != "" || len(r1[0].Calls) == 0 {
			continue // reported by the safety oracle
		}
		o1 := r1[0].Calls[0]
		// with an end-of-input flag a prefix call is by definition told "this is all":
		// only the final call is comparable
		if endOfInputMode(in) && j != len(res.Calls)-1 {
			continue
		}
		if o1 != cr {
			rep.violate(fmt.Sprintf("%s: call %d on prefix %d returned (%d,%d) resumed but (%d,%d) one-shot",
				kindNames[in.Kind], j, p, cr.O, cr.E, o1.O, o1.E), "resume:"+kindNames[in.Kind],
				map[string]interface{}{"case": json.RawMessage(caseJSON(inputCase(in, cuts))), "call": j, "prefix": p})
			return
		}
		if definitive(cr.E) && j == len(res.Calls)-1 {
			if !eqObsValues(res.Obs, r1[0].Obs) {
				rep.violate(fmt.Sprintf("%s: values after the chunked parse differ from the one-shot parse of the same %d bytes",
					kindNames[in.Kind], p), "resume-values:"+kindNames[in.Kind],
					map[string]interface{}{"case": json.RawMessage(caseJSON(inputCase(in, cuts))),
						"chunked": res.Obs.V, "oneshot": r1[0].Obs.V})
				return
			}
		}
	}
}

var extSuffixes = []string{" ", "\t", "\r", "\n", "\r\n", "\r\n ", "\r\n\r\n", "0", "9", "\"", ";", ",", "a", "=", "<", ":", "\x00", "aaaa bbbb cccc dddd\r\n"}

// C03: a definitive one-shot result is unchanged on every extension
func oracleExt(rep *Report, in *Input, res *OpRes) {
	if len(res.Calls) != 1 || !definitive(res.Calls[0].E) || endOfInputMode(in) {
		return
	}
	for _, s := range extSuffixes {
		ext := *in
		ext.Buf = in.Buf + s
		_, r1 := runCase(inputCase(&ext, nil))
		rep.OracleEval++
		if len(r1) == 0 || r1[0].Panic != "" || len(r1[0].Calls) == 0 {
			continue
		}
		same := r1[0].Calls[0] == res.Calls[0] && eqObsValues(r1[0].Obs, res.Obs)
		if !same && in.Kind == kMsg && msgBodyIsRest(in, res) {
			// documented exemption: body extent / offset / Buf / RawMsg may grow
			same = r1[0].Calls[0].E == res.Calls[0].E && eqObsExceptBody(r1[0].Obs, res.Obs)
		}
		if !same {
			rep.violate(fmt.Sprintf("%s: definitive result (%d,%d) changed to (%d,%d)/different values when %q was appended",
				kindNames[in.Kind], res.Calls[0].O, res.Calls[0].E, r1[0].Calls[0].O, r1[0].Calls[0].E, s),
				"ext:"+kindNames[in.Kind],
				map[string]interface{}{"case": json.RawMessage(caseJSON(inputCase(in, nil))), "suffix_hex": hex.EncodeToString([]byte(s))})
			return
		}
	}
}

// message without Content-Length parsed with neither skip-body nor clen-required:
// the body is the rest of the buffer
func msgBodyIsRest(in *Input, res *OpRes) bool {
	if in.Flags&uint(sipsp.SIPMsgSkipBodyF|sipsp.SIPMsgCLenReqF) != 0 {
		return false
	}
	if res.Calls[0].E != sipsp.ErrHdrOk {
		return false
	}
	// only a message WITHOUT Content-Length has "the rest of the buffer" as its body
	x, ok := newRun(in, nil).obj.(*oMsg)
	return ok && !x.m.PV.CLen.Parsed()
}

// compares two message observations ignoring Body, len(Buf), RawMsg (the last 9 values)
func eqObsExceptBody(a, b Obs) bool {
	if len(a.V) != len(b.V) || len(a.V) < 9 {
		return false
	}
	n := len(a.V) - 9
	if !eqObs(a.V[:n], b.V[:n]) {
		return false
	}
	// Body.Offs, and the 4 predicates must still agree
	return a.V[n] == b.V[n] && eqObs(a.V[n+5:], b.V[n+5:])
}

// C04: no panic, offsets sane, fields inside
func oracleSafe(rep *Report, c *Case, res []OpRes) {
	for i, r := range res {
		if r.Panic != "" {
			rep.violate(fmt.Sprintf("%s: panic: %s", kindNames[c.Kind], r.Panic), "panic:"+kindNames[c.Kind],
				map[string]interface{}{"case": json.RawMessage(caseJSON(c)), "op": i})
			return
		}
		if c.Ops[i].Reset {
			continue
		}
		op := &c.Ops[i]
		all := append(append([]int(nil), op.Cuts...), len(op.Buf))
		prev := op.Offs
		for j, cr := range r.Calls {
			n := all[j]
			bad := ""
			if cr.O < 0 || cr.O > n {
				bad = fmt.Sprintf("returned offset %d outside the %d-byte buffer", cr.O, n)
			} else if !isError(c.Kind, cr.E) && cr.O < prev {
				bad = fmt.Sprintf("returned offset %d before the offset %d passed in (verdict %d is not an error)", cr.O, prev, cr.E)
			}
			if bad != "" {
				rep.violate(kindNames[c.Kind]+": "+bad, "offset:"+kindNames[c.Kind],
					map[string]interface{}{"case": json.RawMessage(caseJSON(c)), "op": i, "call": j})
				return
			}
			prev = cr.O
		}
		if r.FieldErr != "" {
			rep.violate(kindNames[c.Kind]+": "+r.FieldErr, "field:"+kindNames[c.Kind],
				map[string]interface{}{"case": json.RawMessage(caseJSON(c)), "op": i})
			return
		}
	}
}

// verdicts that are not errors: Ok, EOH, Empty(?), More, MoreValues
func isError(kind int, e sipsp.ErrorHdr) bool {
	switch e {
	case sipsp.ErrHdrOk, sipsp.ErrHdrEOH, sipsp.ErrHdrMoreBytes, sipsp.ErrHdrMoreValues, sipsp.ErrHdrEmpty:
		return false
	}
	return true
}

// C11: the same text at offset k after junk
func shiftObs(base Obs, k int64) (lo, hi []int64) {
	lo = append([]int64(nil), base.V...)
	hi = append([]int64(nil), base.V...)
	for i := range base.V {
		switch base.T[i] {
		case tOffs:
			if base.V[i] == 0 && base.V[i+1] == 0 {
				hi[i] = k // a never-set field stays {0,0}; an empty field set at 0 moves
			} else {
				lo[i] += k
				hi[i] += k
			}
		case tPos, tBuf:
			lo[i] += k
			hi[i] += k
		}
	}
	return
}
func oracleShift(rep *Report, in *Input, junk string, res *OpRes) {
	if len(res.Calls) == 0 || res.Panic != "" {
		return
	}
	k := len(junk)
	sh := *in
	sh.Buf = junk + in.Buf
	sh.Offs = in.Offs + k
	if len(sh.Buf) > 65535 {
		return
	}
	_, r1 := runCase(inputCase(&sh, nil))
	rep.OracleEval++
	if len(r1) == 0 || r1[0].Panic != "" || len(r1[0].Calls) == 0 {
		rep.violate(fmt.Sprintf("%s: panics when the text is moved to offset %d", kindNames[in.Kind], sh.Offs),
			"shift-panic:"+kindNames[in.Kind], map[string]interface{}{"case": json.RawMessage(caseJSON(inputCase(&sh, nil)))})
		return
	}
	c0, c1 := res.Calls[len(res.Calls)-1], r1[0].Calls[0]
	ok := c1.E == c0.E && c1.O == c0.O+k && len(r1[0].Obs.V) == len(res.Obs.V)
	if ok {
		lo, hi := shiftObs(res.Obs, int64(k))
		for i, v := range r1[0].Obs.V {
			if v != lo[i] && v != hi[i] {
				ok = false
				break
			}
		}
	}
	if !ok {
		rep.violate(fmt.Sprintf("%s: result at offset %d is not the result at offset %d shifted by %d", kindNames[in.Kind],
			sh.Offs, in.Offs, k), "shift:"+kindNames[in.Kind],
			map[string]interface{}{"base": json.RawMessage(caseJSON(inputCase(in, nil))),
				"shifted": json.RawMessage(caseJSON(inputCase(&sh, nil))), "base_obs": res.Obs.V, "shifted_obs": r1[0].Obs.V})
	}
}

func hexs(s string) string { return hex.EncodeToString([]byte(s)) }
